import Emg3dVerif.Model.Smooth
import Emg3dVerif.Props.C02
set_option linter.unusedSectionVars false
namespace Emg
variable {K : Type} [Field K] [DecidableEq K]

theorem matEF_eq (g : Grid K) (e : EF K) : matEF g e = e := by
  cases e
  simp only [matEF, mat3_eq]

theorem EF.ext_get (a b : EF K) (h : ∀ d, a.get d = b.get d) : a = b := by
  cases a with | mk ax ay az =>
  cases b with | mk bx b_y bz =>
  have hx : ax = bx := by funext i j k; exact h ⟨.x, i, j, k⟩
  have hy : ay = b_y := by funext i j k; exact h ⟨.y, i, j, k⟩
  have hz : az = bz := by funext i j k; exact h ⟨.z, i, j, k⟩
  rw [hx, hy, hz]

theorem EF.get_set (e : EF K) (d : Edge) (v : K) (q : Edge) :
    (e.set d v).get q = if q = d then v else e.get q := by
  obtain ⟨dc, di, dj, dk⟩ := d
  obtain ⟨qc, qi, qj, qk⟩ := q
  cases dc <;> cases qc <;> simp [EF.set, EF.get, Edge.mk.injEq]

theorem EF.get_setAll_not_mem (q : Edge) : ∀ (ds : List Edge) (vs : List K) (e : EF K),
    q ∉ ds → (e.setAll ds vs).get q = e.get q := by
  intro ds
  induction ds with
  | nil => intro vs e _; cases vs <;> rfl
  | cons d ds ih =>
    intro vs e hq
    cases vs with
    | nil => rfl
    | cons v vs =>
      simp only [EF.setAll]
      rw [ih vs _ (fun h => hq (List.mem_cons_of_mem _ h)), EF.get_set]
      have : q ≠ d := fun h => hq (h ▸ List.mem_cons_self)
      simp [this]

/-! ### linearity of the rows of the operator -/

theorem EF.get_add (a b : EF K) (d : Edge) : (a.add b).get d = a.get d + b.get d := by
  obtain ⟨c, i, j, k⟩ := d; cases c <;> rfl
theorem EF.get_smul (c : K) (a : EF K) (d : Edge) : (EF.smul c a).get d = c * a.get d := by
  obtain ⟨cc, i, j, k⟩ := d; cases cc <;> rfl

theorem amatAt_add (g : Grid K) (m : VM K) (a b : EF K) (r : Edge) :
    amatAt g m (a.add b) r = amatAt g m a r + amatAt g m b r := by
  obtain ⟨c, i, j, k⟩ := r
  have h := amat_add g m a b i j k
  cases c
  · exact h.1
  · exact h.2.1
  · exact h.2.2

theorem amatAt_smul (g : Grid K) (m : VM K) (c : K) (a : EF K) (r : Edge) :
    amatAt g m (EF.smul c a) r = c * amatAt g m a r := by
  obtain ⟨cc, i, j, k⟩ := r
  have h := amat_smul g m c a i j k
  cases cc
  · exact h.1
  · exact h.2.1
  · exact h.2.2

def EF.sub (a b : EF K) : EF K := a.add (EF.smul (-1) b)

theorem EF.get_sub (a b : EF K) (d : Edge) : (a.sub b).get d = a.get d - b.get d := by
  simp only [EF.sub, EF.get_add, EF.get_smul]; ring

theorem amatAt_sub (g : Grid K) (m : VM K) (a b : EF K) (r : Edge) :
    amatAt g m (a.sub b) r = amatAt g m a r - amatAt g m b r := by
  simp only [EF.sub, amatAt_add, amatAt_smul]; ring

/-! ### one block -/

/-- the block system is non-singular: a field supported on the block whose block rows vanish
is zero.  (The documented precondition "diagonals cannot be zero" of the pivot-free solver is a
consequence-side form of this.) -/
def BlockInj (g : Grid K) (m : VM K) (B : List Edge) : Prop :=
  ∀ d : EF K, (∀ q, q ∉ B → d.get q = 0) → (∀ r ∈ B, amatAt g m d r = 0) → ∀ q, d.get q = 0

/-- **frame**: a block relaxation writes only the block's own edges -/
theorem relaxBlock_frame (g : Grid K) (m : VM K) (s e : EF K) (B : List Edge) (q : Edge)
    (hq : q ∉ B) : (relaxBlock g m s e B).1.get q = e.get q := by
  unfold relaxBlock
  split
  · rfl
  · rename_i x _
    simp only [matEF_eq]
    split
    · exact EF.get_setAll_not_mem q B x e hq
    · rfl

/-- **the equations of the relaxed block are satisfied exactly afterwards** -/
theorem relaxBlock_solves (g : Grid K) (m : VM K) (s e : EF K) (B : List Edge)
    (hok : (relaxBlock g m s e B).2 = true) :
    ∀ r ∈ B, amatAt g m (relaxBlock g m s e B).1 r = s.get r := by
  unfold relaxBlock at hok ⊢
  split at hok
  · simp at hok
  · rename_i x hx
    simp only at hok ⊢
    split at hok
    · rename_i hc
      have := hc.2
      simp only [blockSolved, List.all_eq_true, decide_eq_true_eq] at this
      rw [if_pos hc]
      exact this
    · simp at hok

/-- a relaxation result is determined by the block equations (uniqueness) -/
theorem block_unique (g : Grid K) (m : VM K) (B : List Edge) (hinj : BlockInj g m B)
    (a b : EF K) (hoff : ∀ q, q ∉ B → a.get q = b.get q)
    (hrow : ∀ r ∈ B, amatAt g m a r = amatAt g m b r) : a = b := by
  apply EF.ext_get
  intro q
  have := hinj (a.sub b) (fun q hq => by rw [EF.get_sub, hoff q hq, sub_self])
    (fun r hr => by rw [amatAt_sub, hrow r hr, sub_self]) q
  rw [EF.get_sub] at this
  exact sub_eq_zero.mp this

/-- **fixed point**: a field that satisfies the block's equations is left unchanged -/
theorem relaxBlock_fixed (g : Grid K) (m : VM K) (s e : EF K) (B : List Edge)
    (hinj : BlockInj g m B) (hsol : ∀ r ∈ B, amatAt g m e r = s.get r) :
    (relaxBlock g m s e B).1 = e := by
  by_cases hok : (relaxBlock g m s e B).2 = true
  · apply block_unique g m B hinj
    · exact fun q hq => relaxBlock_frame g m s e B q hq
    · intro r hr
      rw [relaxBlock_solves g m s e B hok r hr, hsol r hr]
  · unfold relaxBlock at hok ⊢
    split
    · rfl
    · rename_i x hx
      rw [hx] at hok
      simp only at hok ⊢
      split
      · rename_i hc; simp [hc] at hok
      · rfl

/-- **linearity in (field, source)**: sums -/
theorem relaxBlock_add (g : Grid K) (m : VM K) (s1 s2 e1 e2 : EF K) (B : List Edge)
    (hinj : BlockInj g m B)
    (h1 : (relaxBlock g m s1 e1 B).2 = true) (h2 : (relaxBlock g m s2 e2 B).2 = true)
    (h12 : (relaxBlock g m (s1.add s2) (e1.add e2) B).2 = true) :
    (relaxBlock g m (s1.add s2) (e1.add e2) B).1
      = (relaxBlock g m s1 e1 B).1.add (relaxBlock g m s2 e2 B).1 := by
  apply block_unique g m B hinj
  · intro q hq
    rw [relaxBlock_frame _ _ _ _ _ q hq, EF.get_add, EF.get_add,
      relaxBlock_frame _ _ _ _ _ q hq, relaxBlock_frame _ _ _ _ _ q hq]
  · intro r hr
    rw [relaxBlock_solves _ _ _ _ _ h12 r hr, amatAt_add, relaxBlock_solves _ _ _ _ _ h1 r hr,
      relaxBlock_solves _ _ _ _ _ h2 r hr, EF.get_add]

/-- **linearity in (field, source)**: scalar multiples -/
theorem relaxBlock_smul (g : Grid K) (m : VM K) (c : K) (s e : EF K) (B : List Edge)
    (hinj : BlockInj g m B)
    (h1 : (relaxBlock g m s e B).2 = true)
    (hc : (relaxBlock g m (EF.smul c s) (EF.smul c e) B).2 = true) :
    (relaxBlock g m (EF.smul c s) (EF.smul c e) B).1 = EF.smul c (relaxBlock g m s e B).1 := by
  apply block_unique g m B hinj
  · intro q hq
    rw [relaxBlock_frame _ _ _ _ _ q hq, EF.get_smul, EF.get_smul, relaxBlock_frame _ _ _ _ _ q hq]
  · intro r hr
    rw [relaxBlock_solves _ _ _ _ _ hc r hr, amatAt_smul, relaxBlock_solves _ _ _ _ _ h1 r hr,
      EF.get_smul]

/-! ### lists of blocks -/

theorem relaxAll_append (g : Grid K) (m : VM K) (s : EF K) (Bs Cs : List (List Edge)) :
    ∀ st, relaxAll g m s st (Bs ++ Cs) = relaxAll g m s (relaxAll g m s st Bs) Cs := by
  induction Bs with
  | nil => intro st; rfl
  | cons B Bs ih => intro st; obtain ⟨e, ok⟩ := st; simp only [List.cons_append, relaxAll]; exact ih _

theorem relaxAll_flag (g : Grid K) (m : VM K) (s : EF K) (Bs : List (List Edge)) :
    ∀ st, (relaxAll g m s st Bs).2 = true → st.2 = true := by
  induction Bs with
  | nil => intro st h; exact h
  | cons B Bs ih =>
    intro st h; obtain ⟨e, ok⟩ := st
    simp only [relaxAll] at h
    have := ih _ h
    simp only [Bool.and_eq_true] at this
    exact this.1

/-- frame for a list of blocks -/
theorem relaxAll_frame (g : Grid K) (m : VM K) (s : EF K) (q : Edge) (Bs : List (List Edge))
    (hq : ∀ B ∈ Bs, q ∉ B) : ∀ st, (relaxAll g m s st Bs).1.get q = st.1.get q := by
  induction Bs with
  | nil => intro st; rfl
  | cons B Bs ih =>
    intro st; obtain ⟨e, ok⟩ := st
    simp only [relaxAll]
    rw [ih (fun C hC => hq C (List.mem_cons_of_mem _ hC))]
    exact relaxBlock_frame g m s e B q (hq B List.mem_cons_self)

/-- **the equations of the block relaxed last are satisfied exactly afterwards** -/
theorem relaxAll_last_solved (g : Grid K) (m : VM K) (s : EF K) (Bs : List (List Edge))
    (B : List Edge) (st : EF K × Bool) (hok : (relaxAll g m s st (Bs ++ [B])).2 = true) :
    ∀ r ∈ B, amatAt g m (relaxAll g m s st (Bs ++ [B])).1 r = s.get r := by
  rw [relaxAll_append] at hok ⊢
  generalize relaxAll g m s st Bs = st' at hok ⊢
  obtain ⟨e, ok⟩ := st'
  simp only [relaxAll] at hok ⊢
  simp only [Bool.and_eq_true] at hok
  exact relaxBlock_solves g m s e B hok.2

/-- **fixed point**: a field satisfying the equations of all visited blocks is left unchanged -/
theorem relaxAll_fixed (g : Grid K) (m : VM K) (s e : EF K) (Bs : List (List Edge))
    (hinj : ∀ B ∈ Bs, BlockInj g m B)
    (hsol : ∀ B ∈ Bs, ∀ r ∈ B, amatAt g m e r = s.get r) :
    ∀ ok, (relaxAll g m s (e, ok) Bs).1 = e := by
  induction Bs with
  | nil => intro ok; rfl
  | cons B Bs ih =>
    intro ok
    simp only [relaxAll]
    rw [relaxBlock_fixed g m s e B (hinj B List.mem_cons_self) (hsol B List.mem_cons_self)]
    exact ih (fun C hC => hinj C (List.mem_cons_of_mem _ hC))
      (fun C hC => hsol C (List.mem_cons_of_mem _ hC)) _

/-- **linear in (field, source)**: sums -/
theorem relaxAll_add (g : Grid K) (m : VM K) (s1 s2 : EF K) (Bs : List (List Edge))
    (hinj : ∀ B ∈ Bs, BlockInj g m B) :
    ∀ e1 e2 ok1 ok2 ok12,
      (relaxAll g m s1 (e1, ok1) Bs).2 = true → (relaxAll g m s2 (e2, ok2) Bs).2 = true →
      (relaxAll g m (s1.add s2) (e1.add e2, ok12) Bs).2 = true →
      (relaxAll g m (s1.add s2) (e1.add e2, ok12) Bs).1
        = (relaxAll g m s1 (e1, ok1) Bs).1.add (relaxAll g m s2 (e2, ok2) Bs).1 := by
  induction Bs with
  | nil => intro e1 e2 _ _ _ _ _ _; rfl
  | cons B Bs ih =>
    intro e1 e2 ok1 ok2 ok12 h1 h2 h12
    simp only [relaxAll] at h1 h2 h12 ⊢
    have f1 := relaxAll_flag g m s1 Bs _ h1
    have f2 := relaxAll_flag g m s2 Bs _ h2
    have f12 := relaxAll_flag g m (s1.add s2) Bs _ h12
    simp only [Bool.and_eq_true] at f1 f2 f12
    have hB := relaxBlock_add g m s1 s2 e1 e2 B (hinj B List.mem_cons_self) f1.2 f2.2 f12.2
    rw [hB] at h12 ⊢
    exact ih (fun C hC => hinj C (List.mem_cons_of_mem _ hC)) _ _ _ _ _ h1 h2 h12

/-- **linear in (field, source)**: scalar multiples -/
theorem relaxAll_smul (g : Grid K) (m : VM K) (c : K) (s : EF K) (Bs : List (List Edge))
    (hinj : ∀ B ∈ Bs, BlockInj g m B) :
    ∀ e ok okc,
      (relaxAll g m s (e, ok) Bs).2 = true →
      (relaxAll g m (EF.smul c s) (EF.smul c e, okc) Bs).2 = true →
      (relaxAll g m (EF.smul c s) (EF.smul c e, okc) Bs).1
        = EF.smul c (relaxAll g m s (e, ok) Bs).1 := by
  induction Bs with
  | nil => intro e _ _ _ _; rfl
  | cons B Bs ih =>
    intro e ok okc h1 hc
    simp only [relaxAll] at h1 hc ⊢
    have f1 := relaxAll_flag g m s Bs _ h1
    have fc := relaxAll_flag g m (EF.smul c s) Bs _ hc
    simp only [Bool.and_eq_true] at f1 fc
    have hB := relaxBlock_smul g m c s e B (hinj B List.mem_cons_self) f1.2 fc.2
    rw [hB] at hc ⊢
    exact ih (fun C hC => hinj C (List.mem_cons_of_mem _ hC)) _ _ _ h1 hc


end Emg
