import Emg3dVerif.Model.Hier
/-! Helper lemmas for C05 (core Lean only). -/
namespace MGH

def canHalve (n : Nat) : Bool := n % 2 == 0 && n ≥ 3

theorem halvings_pos_iff (n : Nat) : 0 < halvings n ↔ canHalve n = true := by
  unfold halvings canHalve
  split <;> simp_all <;> omega

theorem halvings_zero_iff (n : Nat) : halvings n = 0 ↔ canHalve n = false := by
  have := halvings_pos_iff n
  cases h : canHalve n <;> simp_all <;> omega

theorem halvings_half (n : Nat) (h : canHalve n = true) : halvings n = halvings (n/2) + 1 := by
  rw [halvings]
  have : n % 2 = 0 ∧ n > 2 := by simp [canHalve] at h; omega
  simp [this]; omega

/-- after `k ≤ halvings n` halvings the size is `n / 2^k`, still ≥ 2, and `halvings` drops by `k` -/
theorem halvings_iter (k : Nat) : ∀ n, 2 ≤ n → k ≤ halvings n →
    2 ≤ n / 2^k ∧ halvings (n / 2^k) = halvings n - k := by
  induction k with
  | zero => intro n hn _; simp; exact hn
  | succ k ih =>
    intro n hn hk
    have hpos : 0 < halvings n := by omega
    have hc := (halvings_pos_iff n).1 hpos
    have hh := halvings_half n hc
    have h2 : 2 ≤ n / 2 := by simp [canHalve] at hc; omega
    have := ih (n/2) h2 (by omega)
    rw [Nat.pow_succ, Nat.mul_comm, ← Nat.div_div_eq_div_mul]
    constructor
    · exact this.1
    · rw [this.2]; omega

theorem blocked_eq (n : Nat) (e : Bool) : blocked n e = (!canHalve n || e) := by
  unfold blocked canHalve
  rcases Nat.mod_two_eq_zero_or_one n with h1 | h1 <;> by_cases h2 : n < 3 <;> cases e <;> simp [h1, h2] <;> omega

/-- one level of coarsening seen from a single direction -/
def stepDir (excl : Bool) (n : Nat) : Nat := if blocked n excl then n else n / 2

/-- size of a direction after `l` levels -/
def dirAt (excl : Bool) (n l : Nat) : Nat := if excl then n else n / 2 ^ (min l (halvings n))

theorem dirAt_ge_two (excl : Bool) (n l : Nat) (hn : 2 ≤ n) : 2 ≤ dirAt excl n l := by
  unfold dirAt
  split
  · exact hn
  · exact (halvings_iter _ n hn (Nat.min_le_right _ _)).1

theorem stepDir_dirAt (excl : Bool) (n l : Nat) (hn : 2 ≤ n) :
    stepDir excl (dirAt excl n l) = dirAt excl n (l+1) := by
  unfold stepDir dirAt
  cases excl with
  | true => simp [blocked]
  | false =>
    simp only [Bool.false_eq_true, if_false]
    by_cases hl : l < halvings n
    · have h1 : min l (halvings n) = l := by omega
      have h2 : min (l+1) (halvings n) = l+1 := by omega
      rw [h1, h2]
      have hi := halvings_iter l n hn (by omega)
      have hpos : 0 < halvings (n / 2^l) := by rw [hi.2]; omega
      have hc := (halvings_pos_iff _).1 hpos
      rw [blocked_eq, hc]
      simp only [Bool.not_true, Bool.or_self, Bool.false_eq_true, if_false]
      rw [Nat.pow_succ, Nat.div_div_eq_div_mul]
    · have h1 : min l (halvings n) = halvings n := by omega
      have h2 : min (l+1) (halvings n) = halvings n := by omega
      rw [h1, h2]
      have hi := halvings_iter (halvings n) n hn (Nat.le_refl _)
      have hz : halvings (n / 2^(halvings n)) = 0 := by rw [hi.2]; omega
      have hc := (halvings_zero_iff _).1 hz
      rw [blocked_eq, hc]
      simp

/-- a direction that still has levels left is not blocked -/
theorem not_blocked_of_lt (n l : Nat) (hn : 2 ≤ n) (hl : l < halvings n) :
    blocked (dirAt false n l) false = false := by
  unfold dirAt
  simp only [Bool.false_eq_true, if_false]
  have h1 : min l (halvings n) = l := by omega
  rw [h1]
  have hi := halvings_iter l n hn (by omega)
  have hpos : 0 < halvings (n / 2^l) := by rw [hi.2]; omega
  have hc := (halvings_pos_iff _).1 hpos
  rw [blocked_eq, hc]; rfl

theorem lim_le (user : Option Nat) (c : Nat) : lim user c ≤ c := by
  unfold lim; split
  · exact Nat.le_refl _
  · split <;> omega

end MGH
