import Mathlib.Algebra.BigOperators.Intervals
import Mathlib.Algebra.BigOperators.Ring.Finset
import Mathlib.Tactic.Ring
import Mathlib.Tactic.LinearCombination
/-! Summation by parts in one and three dimensions (helper lemmas for C02/C09). -/
open Finset

namespace Emg
variable {K : Type} [CommRing K]

/-- triple sum over a box -/
def S3 (n1 n2 n3 : ℕ) (f : ℕ → ℕ → ℕ → K) : K :=
  ∑ i ∈ range n1, ∑ j ∈ range n2, ∑ k ∈ range n3, f i j k

theorem S3_congr (n1 n2 n3 : ℕ) (f h : ℕ → ℕ → ℕ → K) (e : ∀ i j k, f i j k = h i j k) :
    S3 n1 n2 n3 f = S3 n1 n2 n3 h := by
  unfold S3
  exact sum_congr rfl fun i _ => sum_congr rfl fun j _ => sum_congr rfl fun k _ => e i j k

theorem S3_sub (n1 n2 n3 : ℕ) (f h : ℕ → ℕ → ℕ → K) :
    S3 n1 n2 n3 (fun i j k => f i j k - h i j k) = S3 n1 n2 n3 f - S3 n1 n2 n3 h := by
  unfold S3; simp only [sum_sub_distrib]

theorem S3_add (n1 n2 n3 : ℕ) (f h : ℕ → ℕ → ℕ → K) :
    S3 n1 n2 n3 (fun i j k => f i j k + h i j k) = S3 n1 n2 n3 f + S3 n1 n2 n3 h := by
  unfold S3; simp only [sum_add_distrib]

theorem S3_neg (n1 n2 n3 : ℕ) (f : ℕ → ℕ → ℕ → K) :
    S3 n1 n2 n3 (fun i j k => - f i j k) = - S3 n1 n2 n3 f := by
  unfold S3; simp only [sum_neg_distrib]

/-- 1-D summation by parts (truncated subtraction at the lower end is harmless) -/
theorem sbp (a v : ℕ → K) (n : ℕ) :
    ∑ j ∈ range (n+1), (a j - a (j-1)) * v j
      = ∑ j ∈ range n, a j * (v j - v (j+1)) + a n * v n - a 0 * v 0 := by
  induction n with
  | zero => simp
  | succ n ih =>
    rw [sum_range_succ, ih, sum_range_succ]
    simp only [Nat.add_sub_cancel]
    ring

theorem sbp0 (a v : ℕ → K) (n : ℕ) (h0 : v 0 = 0) (hn : v n = 0) :
    ∑ j ∈ range (n+1), (a j - a (j-1)) * v j = - ∑ j ∈ range n, a j * (v (j+1) - v j) := by
  rw [sbp, h0, hn, ← sum_neg_distrib]
  simp only [mul_zero, add_zero, sub_zero]
  exact sum_congr rfl fun j _ => by ring

theorem sbp3_k (n1 n2 n3 : ℕ) (a v : ℕ → ℕ → ℕ → K)
    (h0 : ∀ i j, v i j 0 = 0) (hn : ∀ i j, v i j n3 = 0) :
    S3 n1 n2 (n3+1) (fun i j k => (a i j k - a i j (k-1)) * v i j k)
      = - S3 n1 n2 n3 (fun i j k => a i j k * (v i j (k+1) - v i j k)) := by
  unfold S3
  simp only [← sum_neg_distrib]
  exact sum_congr rfl fun i _ => sum_congr rfl fun j _ => by
    rw [sum_neg_distrib]
    exact sbp0 (a i j) (v i j) n3 (h0 i j) (hn i j)

theorem sbp3_j (n1 n2 n3 : ℕ) (a v : ℕ → ℕ → ℕ → K)
    (h0 : ∀ i k, v i 0 k = 0) (hn : ∀ i k, v i n2 k = 0) :
    S3 n1 (n2+1) n3 (fun i j k => (a i j k - a i (j-1) k) * v i j k)
      = - S3 n1 n2 n3 (fun i j k => a i j k * (v i (j+1) k - v i j k)) := by
  unfold S3
  rw [← sum_neg_distrib]
  refine sum_congr rfl fun i _ => ?_
  rw [sum_comm]
  conv_rhs => rw [sum_comm, ← sum_neg_distrib]
  refine sum_congr rfl fun k _ => ?_
  exact sbp0 (fun j => a i j k) (fun j => v i j k) n2 (h0 i k) (hn i k)

theorem S3_comm_i (n1 n2 n3 : ℕ) (f : ℕ → ℕ → ℕ → K) :
    S3 n1 n2 n3 f = ∑ j ∈ range n2, ∑ k ∈ range n3, ∑ i ∈ range n1, f i j k := by
  unfold S3
  rw [sum_comm]
  exact sum_congr rfl fun j _ => sum_comm

theorem sbp3_i (n1 n2 n3 : ℕ) (a v : ℕ → ℕ → ℕ → K)
    (h0 : ∀ j k, v 0 j k = 0) (hn : ∀ j k, v n1 j k = 0) :
    S3 (n1+1) n2 n3 (fun i j k => (a i j k - a (i-1) j k) * v i j k)
      = - S3 n1 n2 n3 (fun i j k => a i j k * (v (i+1) j k - v i j k)) := by
  rw [S3_comm_i, S3_comm_i, ← sum_neg_distrib]
  refine sum_congr rfl fun j _ => ?_
  rw [← sum_neg_distrib]
  refine sum_congr rfl fun k _ => ?_
  exact sbp0 (fun i => a i j k) (fun i => v i j k) n1 (h0 j k) (hn j k)

end Emg
