import Mathlib.Data.Complex.Basic
import Mathlib.Data.Complex.BigOperators
import Mathlib.Data.Matrix.Mul
import Mathlib.Data.Matrix.Diagonal
import Mathlib.LinearAlgebra.Matrix.Symmetric
import Mathlib.Tactic.Ring
import Mathlib.Tactic.LinearCombination
import Mathlib.Tactic.NoncommRing
import Mathlib.Algebra.BigOperators.Ring.Finset
/-!
Specification of the sensitivity products (C07 / C08) in matrix form over ℂ.

`E` edges, `C` model parameters (cells × anisotropy components), `D` data.  The system matrix is
`A σ = A₀ + diag(c · G σ)` (`c = sμ₀`, `G` = cell → edge volume averaging, C02), the field
`e = A⁻¹ s`, the data `d = P e` (`P` = receiver rows, C09).
-/
open Matrix BigOperators

namespace Adj
variable {E C D : Type} [Fintype E] [Fintype C] [Fintype D] [DecidableEq E]

/-- `J v = k · P A⁻¹ (e ⊙ G v)` (`k = −sμ₀`): what `Simulation.jvec` computes -/
noncomputable def jvec (k : ℂ) (P : Matrix D E ℂ) (Ainv : Matrix E E ℂ) (e : E → ℂ)
    (G : Matrix E C ℂ) (v : C → ℝ) : D → ℂ :=
  k • P *ᵥ (Ainv *ᵥ (fun ed => e ed * (G *ᵥ (fun c => (v c : ℂ))) ed))

/-- what `Simulation.jtvec` computes before taking the real part: back-propagate
`Pᵀ conj(w)`, multiply with the forward field, average to the cells -/
noncomputable def jtvecC (k : ℂ) (P : Matrix D E ℂ) (Ainv : Matrix E E ℂ) (e : E → ℂ)
    (G : Matrix E C ℂ) (w : D → ℂ) : C → ℂ :=
  fun c => k * ∑ ed, G ed c * e ed * (Ainv *ᵥ (Pᵀ *ᵥ (fun i => star (w i)))) ed

noncomputable def jtvec (k : ℂ) (P : Matrix D E ℂ) (Ainv : Matrix E E ℂ) (e : E → ℂ)
    (G : Matrix E C ℂ) (w : D → ℂ) : C → ℝ := fun c => (jtvecC k P Ainv e G w c).re

omit [DecidableEq E] in
theorem pairing_complex (k : ℂ) (P : Matrix D E ℂ) (Ainv : Matrix E E ℂ) (hs : Ainvᵀ = Ainv)
    (e : E → ℂ) (G : Matrix E C ℂ) (v : C → ℝ) (w : D → ℂ) :
    (∑ i, star (w i) * jvec k P Ainv e G v i) = ∑ c, jtvecC k P Ainv e G w c * (v c : ℂ) := by
  set x : E → ℂ := fun ed => e ed * (G *ᵥ (fun c => (v c : ℂ))) ed with hx
  set sw : D → ℂ := fun i => star (w i) with hsw
  have h1 : (∑ i, star (w i) * jvec k P Ainv e G v i) = k * (sw ⬝ᵥ (P *ᵥ (Ainv *ᵥ x))) := by
    simp only [jvec, dotProduct, Pi.smul_apply, smul_eq_mul, Finset.mul_sum]
    apply Finset.sum_congr rfl
    intro i _
    show star (w i) * (k * (P *ᵥ Ainv *ᵥ x) i) = k * (star (w i) * (P *ᵥ Ainv *ᵥ x) i)
    ring
  have h2 : sw ⬝ᵥ (P *ᵥ (Ainv *ᵥ x)) = (Ainv *ᵥ (Pᵀ *ᵥ sw)) ⬝ᵥ x := by
    rw [Matrix.dotProduct_mulVec, Matrix.dotProduct_mulVec, ← Matrix.mulVec_transpose,
      ← Matrix.mulVec_transpose, hs]
  rw [h1, h2]
  have hb : (fun i => star (w i)) = sw := rfl
  simp only [jtvecC, hb]
  set b : E → ℂ := Ainv *ᵥ (Pᵀ *ᵥ sw) with hbdef
  have hx2 : ∀ ed, x ed = e ed * ∑ c, G ed c * (v c : ℂ) := fun ed => rfl
  simp only [dotProduct, hx2, Finset.mul_sum, Finset.sum_mul]
  rw [Finset.sum_comm]
  apply Finset.sum_congr rfl
  intro c _
  apply Finset.sum_congr rfl
  intro ed _
  ring

/-- the resolvent identity behind every finite-difference statement -/
theorem resolvent {A B DA Ainv Binv : Matrix E E ℂ} {t : ℂ}
    (hA : Ainv * A = 1) (hB : B * Binv = 1) (hBA : B = A + t • DA) :
    Binv = Ainv - t • (Ainv * DA * Binv) := by
  have h1 : Ainv * B * Binv = Ainv := by rw [Matrix.mul_assoc, hB, Matrix.mul_one]
  have h2 : Ainv * B * Binv = Binv + t • (Ainv * DA * Binv) := by
    rw [hBA, Matrix.mul_add, Matrix.add_mul, hA, Matrix.one_mul, Matrix.mul_smul,
      Matrix.smul_mul]
  rw [h1] at h2
  exact eq_sub_of_add_eq h2.symm

theorem resolvent2 {A B DA Ainv Binv : Matrix E E ℂ} {t : ℂ}
    (hA : Ainv * A = 1) (hB : B * Binv = 1) (hBA : B = A + t • DA) :
    Binv = Ainv - t • (Ainv * DA * Ainv) + (t * t) • (Ainv * DA * Ainv * DA * Binv) := by
  have r := resolvent hA hB hBA
  have : Ainv * DA * Binv = Ainv * DA * Ainv - t • (Ainv * DA * Ainv * DA * Binv) := by
    conv_lhs => rw [r]
    rw [Matrix.mul_sub, Matrix.mul_smul]
    simp only [Matrix.mul_assoc]
  conv_lhs => rw [r, this]
  rw [smul_sub, smul_smul]
  abel

end Adj
