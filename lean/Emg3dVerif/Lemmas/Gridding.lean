import Emg3dVerif.Model.Gridding
import Mathlib.Algebra.Order.Field.Basic
import Mathlib.Data.List.Chain
import Mathlib.Tactic.Ring
import Mathlib.Tactic.Linarith
import Mathlib.Tactic.Positivity
/-! Helper lemmas for C16 (geometric widths, sums, nodes, chains). -/
set_option linter.unusedSectionVars false
namespace Grd
variable {K : Type} [Field K] [LinearOrder K] [IsStrictOrderedRing K]

@[simp] theorem sum_nil : sum ([] : List K) = 0 := rfl
@[simp] theorem sum_cons (a : K) (t : List K) : sum (a :: t) = a + sum t := rfl

theorem sum_append (l1 l2 : List K) : sum (l1 ++ l2) = sum l1 + sum l2 := by
  induction l1 with
  | nil => simp
  | cons a t ih => simp [ih, add_assoc]

theorem sum_reverse (l : List K) : sum l.reverse = sum l := by
  induction l with
  | nil => simp
  | cons a t ih => simp [sum_append, ih, add_comm]

theorem sum_nonneg {l : List K} (h : ∀ x ∈ l, 0 ≤ x) : 0 ≤ sum l := by
  induction l with
  | nil => simp
  | cons a t ih =>
    have := h a (by simp)
    have := ih (fun x hx => h x (by simp [hx]))
    simp; linarith

theorem sum_take_le {l : List K} (h : ∀ x ∈ l, 0 ≤ x) {m m' : Nat} (hm : m ≤ m') :
    sum (l.take m) ≤ sum (l.take m') := by
  induction l generalizing m m' with
  | nil => simp
  | cons a t ih =>
    cases m with
    | zero =>
      simp only [List.take_zero, sum_nil]
      exact sum_nonneg (fun x hx => h x (List.mem_of_mem_take hx))
    | succ m =>
      cases m' with
      | zero => omega
      | succ m' =>
        simp only [List.take_succ_cons, sum_cons]
        have := ih (fun x hx => h x (by simp [hx])) (show m ≤ m' by omega)
        linarith

@[simp] theorem geo_length (w α : K) (n : Nat) : (geo w α n).length = n := by
  induction n generalizing w with
  | zero => rfl
  | succ n ih => simp [geo, ih]

theorem geo_take (w α : K) (n m : Nat) : (geo w α n).take m = geo w α (min m n) := by
  induction n generalizing w m with
  | zero => simp [geo]
  | succ n ih =>
    cases m with
    | zero => simp [geo]
    | succ m =>
      simp only [geo, List.take_succ_cons, ih]
      have : min (m+1) (n+1) = min m n + 1 := by omega
      rw [this, geo]

theorem geo_pos {w α : K} (hw : 0 < w) (hα : 0 < α) (n : Nat) : ∀ x ∈ geo w α n, 0 < x := by
  induction n generalizing w with
  | zero => simp [geo]
  | succ n ih =>
    intro x hx
    simp only [geo, List.mem_cons] at hx
    rcases hx with rfl | hx
    · positivity
    · exact ih (by positivity) x hx

theorem geo_head (w α : K) (n : Nat) : ∀ y ∈ (geo w α n).head?, y = w * α := by
  cases n with
  | zero => simp [geo]
  | succ n => simp [geo]

/-- neighbouring widths differ by at most the factor `β` -/
def Within (β : K) (a b : K) : Prop := a ≤ β * b ∧ b ≤ β * a

theorem Within.symm {β a b : K} (h : Within β a b) : Within β b a := ⟨h.2, h.1⟩

theorem within_mul {β α w : K} (hw : 0 < w) (h1 : 1 ≤ α) (h2 : α ≤ β) :
    Within β w (w * α) := by
  constructor
  · have : w * 1 ≤ w * (β * α) := by
      apply mul_le_mul_of_nonneg_left _ hw.le
      nlinarith
    nlinarith
  · nlinarith

theorem geo_chain {β α w : K} (hw : 0 < w) (h1 : 1 ≤ α) (h2 : α ≤ β) (n : Nat) :
    (geo w α n).IsChain (Within β) := by
  induction n generalizing w with
  | zero => simp [geo]
  | succ n ih =>
    have hp : 0 < w * α := by positivity
    simp only [geo]
    refine (ih hp).cons ?_
    intro y hy
    rw [geo_head _ _ _ y hy]
    exact within_mul hp h1 h2

theorem isChain_reverse_symm {R : K → K → Prop} (hs : ∀ a b, R a b → R b a) {l : List K}
    (h : l.IsChain R) : l.reverse.IsChain R := by
  rw [List.isChain_reverse]
  exact h.imp (fun a b hab => hs a b hab)

/-! ### nodes -/

theorem nodes_cons (a b : K) (t : List K) : nodes a (b :: t) = a :: nodes (a + b) t := rfl

theorem mem_nodes_append_right (a : K) (l1 l2 : List K) {x : K}
    (h : x ∈ nodes (a + sum l1) l2) : x ∈ nodes a (l1 ++ l2) := by
  induction l1 generalizing a with
  | nil => simpa using h
  | cons b t ih =>
    rw [List.cons_append, nodes_cons]
    refine List.mem_cons_of_mem _ (ih (a + b) ?_)
    have : a + b + sum t = a + sum (b :: t) := by simp [add_assoc]
    rw [this]; exact h

theorem mem_nodes_append_left (a : K) (l1 l2 : List K) {x : K}
    (h : x ∈ nodes a l1) : x ∈ nodes a (l1 ++ l2) := by
  induction l1 generalizing a with
  | nil =>
    simp only [nodes, cumsFrom, List.mem_singleton] at h
    subst h
    cases l2 <;> simp [nodes]
  | cons b t ih =>
    rw [nodes_cons] at h
    rw [List.cons_append, nodes_cons]
    rcases List.mem_cons.1 h with rfl | h
    · simp
    · exact List.mem_cons_of_mem _ (ih (a + b) h)

theorem end_mem_nodes (a : K) (l : List K) : a + sum l ∈ nodes a l := by
  induction l generalizing a with
  | nil => simp [nodes, cumsFrom]
  | cons b t ih =>
    rw [nodes_cons]
    have : a + sum (b :: t) = a + b + sum t := by simp [add_assoc]
    rw [this]
    exact List.mem_cons_of_mem _ (ih (a + b))

theorem start_mem_nodes (a : K) (l : List K) : a ∈ nodes a l := by
  simp [nodes]

end Grd
