import Emg3dVerif.Model.Ldlt
import Mathlib.Algebra.BigOperators.Intervals
import Mathlib.Algebra.BigOperators.Ring.Finset
import Mathlib.Tactic.Ring
import Mathlib.Tactic.FieldSimp
import Mathlib.Tactic.LinearCombination
import Mathlib.Algebra.Field.Basic
/-!
Exactness of the pivot-free L D Lᵀ solver for every size `n` (helper development for C03):
the recurrences are first studied in `Finset.sum` form (`tab`, `fwdTab`, `backTab`), then the
executable model of `Model/Ldlt.lean` is shown to compute the same functions.
-/
open Finset

namespace Emg.Ldlt
variable {K : Type} [Field K]

/-- table of factor columns `< m`: entry (i,k) is `D k` if `i = k` and `L i k` if `i > k` -/
def tab (a : ℕ → ℕ → K) : ℕ → ℕ → ℕ → K
  | 0 => fun _ _ => 0
  | m+1 => fun i k =>
      if k < m then tab a m i k
      else if k = m ∧ m ≤ i then
        let d := a m m - ∑ p ∈ range m, tab a m m p * tab a m m p * tab a m p p
        if i = m then d
        else (a i m - ∑ p ∈ range m, tab a m i p * tab a m m p * tab a m p p) / d
      else 0

theorem tab_stable (a : ℕ → ℕ → K) (k : ℕ) : ∀ m, k < m → ∀ i, tab a m i k = tab a (k+1) i k := by
  intro m hm
  induction m with
  | zero => omega
  | succ m ih =>
    intro i
    by_cases h : k < m
    · rw [tab]; simp only [h, if_true]; exact ih h i
    · have : k = m := by omega
      subst this; rfl

def D (a : ℕ → ℕ → K) (j : ℕ) : K := tab a (j+1) j j
def L (a : ℕ → ℕ → K) (i j : ℕ) : K := tab a (j+1) i j

theorem D_eq (a : ℕ → ℕ → K) (j : ℕ) :
    D a j = a j j - ∑ p ∈ range j, (L a j p)^2 * D a p := by
  unfold D L
  rw [tab]; simp only [lt_irrefl, if_false, le_refl, and_self, if_true]
  congr 1
  apply sum_congr rfl
  intro p hp
  have hp' : p < j := mem_range.1 hp
  rw [tab_stable a p j hp' j, tab_stable a p j hp' p]; ring

theorem L_eq (a : ℕ → ℕ → K) (i j : ℕ) (h : j < i) :
    L a i j = (a i j - ∑ p ∈ range j, L a i p * L a j p * D a p) / D a j := by
  have hd : tab a (j+1) j j
      = a j j - ∑ p ∈ range j, tab a j j p * tab a j j p * tab a j p p := by
    rw [tab]; simp only [lt_irrefl, if_false, le_refl, and_self, if_true]
  have hne : i ≠ j := by omega
  have hle : j ≤ i := by omega
  have hl : tab a (j+1) i j
      = (a i j - ∑ p ∈ range j, tab a j i p * tab a j j p * tab a j p p) / tab a (j+1) j j := by
    rw [hd]
    conv_lhs => rw [tab]
    simp only [lt_irrefl, if_false, hne, hle, and_self, if_true]
  unfold D L
  rw [hl]
  congr 1
  congr 1
  apply sum_congr rfl
  intro p hp
  have hp' : p < j := mem_range.1 hp
  rw [tab_stable a p j hp' i, tab_stable a p j hp' j, tab_stable a p j hp' p]

/-- unit-lower version -/
def L1 (a : ℕ → ℕ → K) (i j : ℕ) : K := if i = j then 1 else if j < i then L a i j else 0

/-- A = L D Lᵀ on the lower triangle -/
theorem ldlt_lower (a : ℕ → ℕ → K) (i j : ℕ) (hD : D a j ≠ 0) (hij : j ≤ i) :
    a i j = ∑ p ∈ range (j+1), L1 a i p * D a p * L1 a j p := by
  rw [sum_range_succ]
  by_cases h : i = j
  · subst h
    have := D_eq a i
    simp only [L1, if_true]
    have hs : ∑ p ∈ range i, (if i = p then (1:K) else if p < i then L a i p else 0) * D a p *
        (if i = p then (1:K) else if p < i then L a i p else 0) = ∑ p ∈ range i, (L a i p)^2 * D a p := by
      apply sum_congr rfl; intro p hp
      have hp' : p < i := mem_range.1 hp
      have : i ≠ p := by omega
      simp only [this, if_false, hp', if_true]; ring
    rw [hs, this]; ring
  · have hlt : j < i := by omega
    have := L_eq a i j hlt
    have hs : ∑ p ∈ range j, L1 a i p * D a p * L1 a j p = ∑ p ∈ range j, L a i p * L a j p * D a p := by
      apply sum_congr rfl; intro p hp
      have hp' : p < j := mem_range.1 hp
      have h1 : i ≠ p := by omega
      have h2 : j ≠ p := by omega
      have h3 : p < i := by omega
      simp only [L1, h1, h2, if_false, hp', h3, if_true]; ring
    rw [hs]
    simp only [L1, h, if_false, hlt, if_true]
    rw [this]; field_simp; ring

/-- forward substitution table: `y p` for `p < m` -/
def fwdTab (a : ℕ → ℕ → K) (b : ℕ → K) : ℕ → ℕ → K
  | 0 => fun _ => 0
  | m+1 => fun i => if i < m then fwdTab a b m i
                    else b m - ∑ p ∈ range m, L a m p * fwdTab a b m p

theorem fwdTab_stable (a : ℕ → ℕ → K) (b : ℕ → K) (i : ℕ) :
    ∀ m, i < m → fwdTab a b m i = fwdTab a b (i+1) i := by
  intro m hm
  induction m with
  | zero => omega
  | succ m ih =>
    by_cases h : i < m
    · rw [fwdTab]; simp only [h, if_true]; exact ih h
    · have : i = m := by omega
      subst this; rfl

def y (a : ℕ → ℕ → K) (b : ℕ → K) (i : ℕ) : K := fwdTab a b (i+1) i

theorem y_eq (a : ℕ → ℕ → K) (b : ℕ → K) (i : ℕ) :
    y a b i = b i - ∑ p ∈ range i, L a i p * y a b p := by
  unfold y
  rw [fwdTab]; simp only [lt_irrefl, if_false]
  congr 1
  apply sum_congr rfl; intro p hp
  rw [fwdTab_stable a b p i (mem_range.1 hp)]

/-- back substitution for `n` unknowns; `backTab m i` is final for `i ≥ n − m` -/
def backTab (a : ℕ → ℕ → K) (z : ℕ → K) (n : ℕ) : ℕ → ℕ → K
  | 0 => fun _ => 0
  | m+1 => fun i => if n - (m+1) < i then backTab a z n m i
                    else z (n-(m+1)) - ∑ p ∈ Ioo (n-(m+1)) n, L a p (n-(m+1)) * backTab a z n m p

theorem backTab_stable (a : ℕ → ℕ → K) (z : ℕ → K) (n i : ℕ) (hi : i < n) :
    ∀ m, n - i ≤ m → m ≤ n → backTab a z n m i = backTab a z n (n-i) i := by
  intro m hm
  induction m with
  | zero => intro; omega
  | succ m ih =>
    intro hmn
    by_cases h : n - i ≤ m
    · rw [backTab]
      have : n - (m+1) < i := by omega
      simp only [this, if_true]; exact ih h (by omega)
    · have : n - i = m+1 := by omega
      rw [this]

def x (a : ℕ → ℕ → K) (z : ℕ → K) (n i : ℕ) : K := backTab a z n (n-i) i

theorem x_eq (a : ℕ → ℕ → K) (z : ℕ → K) (n i : ℕ) (hi : i < n) :
    x a z n i = z i - ∑ p ∈ Ioo i n, L a p i * x a z n p := by
  unfold x
  obtain ⟨m, hm⟩ : ∃ m, n - i = m + 1 := ⟨n - i - 1, by omega⟩
  rw [hm, backTab]
  have e : n - (m+1) = i := by omega
  simp only [e, lt_irrefl, if_false]
  congr 1
  apply sum_congr rfl; intro p hp
  have hp' := mem_Ioo.1 hp
  congr 1
  rw [backTab_stable a z n p hp'.2 m (by omega) (by omega)]

def Afull (a : ℕ → ℕ → K) (i j : ℕ) : K := if j ≤ i then a i j else a j i

theorem L1_upper (a : ℕ → ℕ → K) {i p : ℕ} (h : i < p) : L1 a i p = 0 := by
  have h1 : i ≠ p := by omega
  have h2 : ¬ p < i := by omega
  simp [L1, h1, h2]

theorem Afull_eq (a : ℕ → ℕ → K) (n : ℕ) (hD : ∀ j < n, D a j ≠ 0) (i j : ℕ) (hi : i < n)
    (hj : j < n) : Afull a i j = ∑ p ∈ range n, L1 a i p * D a p * L1 a j p := by
  have key : ∀ i j, j ≤ i → i < n →
      a i j = ∑ p ∈ range n, L1 a i p * D a p * L1 a j p := by
    intro i j hji hi
    rw [ldlt_lower a i j (hD j (by omega)) hji]
    have hsub : range (j+1) ⊆ range n := by
      intro p hp; simp only [mem_range] at *; omega
    apply sum_subset hsub
    intro p _ hp
    have : j < p := by simp only [mem_range] at hp; omega
    rw [L1_upper a this]; ring
  unfold Afull
  split
  · exact key i j ‹_› hi
  · rw [key j i (by omega) hj]
    apply sum_congr rfl; intro p _; ring

/-- the computed solution -/
def sol (a : ℕ → ℕ → K) (b : ℕ → K) (n : ℕ) : ℕ → K :=
  x a (fun i => y a b i / D a i) n

theorem Ioo_eq (p n : ℕ) : Ioo p n = Ico (p+1) n := by
  ext j; simp only [mem_Ioo, mem_Ico]; omega

theorem Lt_x (a : ℕ → ℕ → K) (z : ℕ → K) (n p : ℕ) (hp : p < n) :
    ∑ j ∈ range n, L1 a j p * x a z n j = z p := by
  have hx := x_eq a z n p hp
  have hsplit : ∑ j ∈ range n, L1 a j p * x a z n j
      = x a z n p + ∑ j ∈ Ioo p n, L a j p * x a z n j := by
    rw [range_eq_Ico, ← Ico_union_Ico_eq_Ico (Nat.zero_le p) (le_of_lt hp),
      sum_union (Ico_disjoint_Ico_consecutive 0 p n)]
    have h0 : ∑ j ∈ Ico 0 p, L1 a j p * x a z n j = 0 := by
      apply sum_eq_zero; intro j hj
      have : j < p := (mem_Ico.1 hj).2
      rw [L1_upper a this]; ring
    rw [h0, zero_add, sum_eq_sum_Ico_succ_bot hp, Ioo_eq]
    congr 1
    · simp [L1]
    · apply sum_congr rfl; intro j hj
      have hj' := mem_Ico.1 hj
      have h1 : j ≠ p := by omega
      have h2 : p < j := by omega
      simp [L1, h1, h2]
  rw [hsplit, hx]; ring

/-- **L D Lᵀ + forward / diagonal / back substitution solve `A x = b` exactly**, for every `n`,
whenever the pivots `D 0 … D (n−1)` are non-zero. -/
theorem solve_exact (a : ℕ → ℕ → K) (b : ℕ → K) (n : ℕ) (hD : ∀ j < n, D a j ≠ 0) (i : ℕ)
    (hi : i < n) : ∑ j ∈ range n, Afull a i j * sol a b n j = b i := by
  unfold sol
  set z : ℕ → K := fun i => y a b i / D a i with hz
  calc ∑ j ∈ range n, Afull a i j * x a z n j
      = ∑ j ∈ range n, ∑ p ∈ range n, L1 a i p * D a p * (L1 a j p * x a z n j) := by
        apply sum_congr rfl; intro j hj
        rw [Afull_eq a n hD i j hi (mem_range.1 hj), sum_mul]
        apply sum_congr rfl; intro p _; ring
    _ = ∑ p ∈ range n, L1 a i p * D a p * ∑ j ∈ range n, L1 a j p * x a z n j := by
        rw [sum_comm]; apply sum_congr rfl; intro p _; rw [mul_sum]
    _ = ∑ p ∈ range n, L1 a i p * y a b p := by
        apply sum_congr rfl; intro p hp
        rw [Lt_x a z n p (mem_range.1 hp), hz]
        have := hD p (mem_range.1 hp)
        field_simp
    _ = b i := by
        have hy := y_eq a b i
        have hsub : range (i+1) ⊆ range n := by
          intro p hp; simp only [mem_range] at *; omega
        rw [← sum_subset hsub (by
          intro p _ hp
          have : i < p := by simp only [mem_range] at hp; omega
          rw [L1_upper a this]; ring)]
        rw [sum_range_succ]
        have hs : ∑ p ∈ range i, L1 a i p * y a b p = ∑ p ∈ range i, L a i p * y a b p := by
          apply sum_congr rfl; intro p hp
          have hp' : p < i := mem_range.1 hp
          have h1 : i ≠ p := by omega
          simp [L1, h1, hp']
        rw [hs, hy]; simp [L1]


/-! ### the executable model computes the same functions -/
open Emg.LdltM

theorem sumTo_eq (n : ℕ) (f : ℕ → K) : sumTo n f = ∑ i ∈ range n, f i := by
  induction n with
  | zero => simp [sumTo]
  | succ n ih => rw [sumTo, ih, sum_range_succ]

theorem ldTab_eq (a : ℕ → ℕ → K) (n : ℕ) : ∀ m, (ldTab a n m).f = tab a m := by
  intro m
  induction m with
  | zero => rfl
  | succ m ih =>
    rw [ldTab, mat2_eq, ih]
    funext i k
    simp only [ldStep, tab, sumTo_eq]

theorem fwTab_eq (a : ℕ → ℕ → K) (b : ℕ → K) (n : ℕ) :
    ∀ m, m ≤ n → (fwTab (tab a n) b n m).f = fwdTab a b m := by
  intro m
  induction m with
  | zero => intro _; rfl
  | succ m ih =>
    intro hm
    rw [fwTab, mat1_eq, ih (by omega)]
    funext i
    simp only [fwStep, fwdTab, sumTo_eq]
    split
    · rfl
    · congr 1
      apply sum_congr rfl; intro p hp
      have hp' : p < m := mem_range.1 hp
      rw [tab_stable a p n (by omega) m]; rfl

theorem sum_Ioo_eq (r n : ℕ) (f : ℕ → K) :
    ∑ p ∈ Ioo r n, f p = ∑ t ∈ range (n - (r+1)), f (r+1+t) := by
  rw [Ioo_eq, sum_Ico_eq_sum_range]

theorem bkTab_eq (a : ℕ → ℕ → K) (z z' : ℕ → K) (n : ℕ) (hz : ∀ i < n, z' i = z i) :
    ∀ m, m ≤ n → (bkTab (tab a n) z' n m).f = backTab a z n m := by
  intro m
  induction m with
  | zero => intro _; rfl
  | succ m ih =>
    intro hm
    rw [bkTab, mat1_eq, ih (by omega)]
    funext i
    simp only [bkStep, backTab, sumTo_eq]
    split
    · rfl
    · rw [sum_Ioo_eq, hz _ (by omega)]
      congr 1
      apply sum_congr rfl; intro t ht
      have ht' := mem_range.1 ht
      rw [tab_stable a (n-(m+1)) n (by omega) _]; rfl

/-- the executable solver computes the function studied above -/
theorem solve_eq_sol (a : ℕ → ℕ → K) (b : ℕ → K) (n : ℕ) :
    LdltM.solve a b n = fun i => backTab a (fun i => y a b i / D a i) n n i := by
  unfold LdltM.solve
  simp only [ldTab_eq, mat1_eq]
  rw [fwTab_eq a b n n (le_refl _)]
  rw [bkTab_eq a (fun i => y a b i / D a i) _ n ?_ n (le_refl _)]
  intro i hi
  congr 1
  · unfold y; rw [fwdTab_stable a b i n hi]
  · unfold D; rw [tab_stable a i n hi i]

theorem solve_eq_sol_lt (a : ℕ → ℕ → K) (b : ℕ → K) (n i : ℕ) (hi : i < n) :
    LdltM.solve a b n i = sol a b n i := by
  rw [solve_eq_sol]
  unfold sol x
  simp only
  rw [backTab_stable a _ n i hi n (by omega) (le_refl _)]

theorem pivots_eq (a : ℕ → ℕ → K) (n : ℕ) :
    LdltM.pivots a n = (List.range n).map (D a) := by
  unfold LdltM.pivots
  simp only [ldTab_eq]
  apply List.map_congr_left
  intro j hj
  have : j < n := List.mem_range.1 hj
  unfold D; rw [tab_stable a j n this j]

/-- **The solver model returns the exact solution of the symmetric system it is given**
(`full a` = symmetric matrix with lower part `a`), for every size, whenever no pivot is zero. -/
theorem model_solve_exact (a : ℕ → ℕ → K) (b : ℕ → K) (n : ℕ)
    (hp : ∀ d ∈ LdltM.pivots a n, d ≠ 0) (i : ℕ) (hi : i < n) :
    sumTo n (fun j => LdltM.full a i j * LdltM.solve a b n j) = b i := by
  have hD : ∀ j < n, D a j ≠ 0 := by
    intro j hj
    apply hp
    rw [pivots_eq]
    exact List.mem_map.2 ⟨j, List.mem_range.2 hj, rfl⟩
  rw [sumTo_eq, ← solve_exact a b n hD i hi]
  apply sum_congr rfl; intro j hj
  rw [solve_eq_sol_lt a b n j (mem_range.1 hj)]
  rfl

end Emg.Ldlt
