def hello := "world"
