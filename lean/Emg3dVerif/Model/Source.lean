import Emg3dVerif.Model.Amat
/-
Models of `emg3d.fields._point_vector` (adjoint of trilinear interpolation),
`emg3d.fields.get_receiver` (linear method: trilinear interpolation on the staggered
coordinates, NaN policy), `emg3d.fields._dipole_vector` (finite dipole distributed to the
cells it crosses) and the scaling of `get_source_field`.  Trigonometric values enter as data.
No Mathlib; generic over an ordered scalar.
-/
namespace Src
open Emg

variable {K : Type} [Add K] [Sub K] [Mul K] [Div K] [OfNat K 0] [OfNat K 1] [OfNat K 2]
  [LT K] [LE K] [DecidableRel (α := K) (· < ·)] [DecidableRel (α := K) (· ≤ ·)] [Max K] [Min K]

/-- `max(0, np.where(c < np.r_[xx, inf])[0][0] - 1)` for a coordinate vector with `n` entries -/
def whereIdx (xx : Nat → K) (n : Nat) (c : K) : Nat :=
  (((List.range n).find? fun i => decide (c < xx i)).getD n) - 1

/-- one-dimensional weights of `point_source` (`get_index_and_strength` + the assignments):
all weight on `ic` in the last interval, linear weights on `ic, ic+1` otherwise (also when the
coordinate lies before the first entry: extrapolation) -/
def w1 (xx : Nat → K) (n : Nat) (c : K) : Nat → K :=
  let ic := whereIdx xx n c
  if ic + 1 = n then fun i => if i = ic then 1 else 0
  else
    let rc := (c - xx ic) / (xx (ic+1) - xx ic)
    fun i => if i = ic + 1 then rc else if i = ic then 1 - rc else 0

/-- SciPy's `RegularGridInterpolator` (linear): `i = searchsorted(xx, c) - 1` clipped to
`[0, n-2]`, then linear weights -/
def ssIdx (xx : Nat → K) (n : Nat) (c : K) : Nat :=
  min ((((List.range n).find? fun i => decide (c ≤ xx i)).getD n) - 1) (n - 2)

def w1s (xx : Nat → K) (n : Nat) (c : K) : Nat → K :=
  let i0 := ssIdx xx n c
  let t := (c - xx i0) / (xx (i0+1) - xx i0)
  fun i => if i = i0 + 1 then t else if i = i0 then 1 - t else 0

structure Grid1 (K : Type) where
  n : Nat               -- number of cells
  nodes : Nat → K       -- n+1 nodes
def Grid1.centers (g : Grid1 K) : Nat → K := fun i => (g.nodes i + g.nodes (i+1)) / 2

/-- the three staggered coordinate systems of the edge components: (vector, size) per direction -/
def coordsOf (comp : Nat) (dir : Nat) (g : Grid1 K) : (Nat → K) × Nat :=
  if comp = dir then (g.centers, g.n) else (g.nodes, g.n + 1)

/-- unit point-source vector of position `(x,y,z)` and direction `(d0,d1,d2)` -/
def pointVector (gx gy gz : Grid1 K) (p : K × K × K) (d : K × K × K) : EF K :=
  let comp (c : Nat) (f : K) : F3 K :=
    let cx := coordsOf c 0 gx; let cy := coordsOf c 1 gy; let cz := coordsOf c 2 gz
    fun i j k => w1 cx.1 cx.2 p.1 i * w1 cy.1 cy.2 p.2.1 j * w1 cz.1 cz.2 p.2.2 k * f
  { x := comp 0 d.1, y := comp 1 d.2.1, z := comp 2 d.2.2 }

def sum3 (n1 n2 n3 : Nat) (f : Nat → Nat → Nat → K) : K :=
  (List.range n1).foldl (fun a i => (List.range n2).foldl (fun a j =>
    (List.range n3).foldl (fun a k => a + f i j k) a) a) 0

/-- `get_receiver(..., method='linear')` for a position inside the second to second-last cell:
rotation factor times trilinear interpolation (SciPy's interval rule), per component -/
def receiverLinear (gx gy gz : Grid1 K) (e : EF K) (p : K × K × K) (d : K × K × K) : K :=
  let comp (c : Nat) (f : F3 K) : K :=
    let cx := coordsOf c 0 gx; let cy := coordsOf c 1 gy; let cz := coordsOf c 2 gz
    sum3 cx.2 cy.2 cz.2 fun i j k =>
      w1s cx.1 cx.2 p.1 i * w1s cy.1 cy.2 p.2.1 j * w1s cz.1 cz.2 p.2.2 k * f i j k
  d.1 * comp 0 e.x + d.2.1 * comp 1 e.y + d.2.2 * comp 2 e.z

/-- NaN policy: outside `[nodes[1], nodes[-2]]` in any direction -/
def receiverIsNaN (gx gy gz : Grid1 K) (p : K × K × K) : Bool :=
  decide (p.1 < gx.nodes 1) || decide (gx.nodes (gx.n - 1) < p.1) ||
  decide (p.2.1 < gy.nodes 1) || decide (gy.nodes (gy.n - 1) < p.2.1) ||
  decide (p.2.2 < gz.nodes 1) || decide (gz.nodes (gz.n - 1) < p.2.2)

/-! ### finite dipole -/

/-- `min_max_ind` cell index of a coordinate (may equal `n` on the upper boundary) -/
def cellIdx (g : Grid1 K) (v : K) : Nat := whereIdx g.nodes (g.n + 1) v

structure Seg (K : Type) where
  p0 : K × K × K
  p1 : K × K × K

/-- parametric clipping interval `[al, ar]` of the segment in cell `(ix,iy,iz)` -/
def clipDir (g : Grid1 K) (a b : K) (i : Nat) : Option (K × K) :=
  -- a, b: start/end coordinate in this direction; none if the direction is degenerate
  if a < b ∨ b < a then
    let t0 := (g.nodes i - a) / (b - a)
    let t1 := (g.nodes (i+1) - a) / (b - a)
    some (min t0 t1, max t0 t1)
  else none

def clip (gx gy gz : Grid1 K) (s : Seg K) (ix iy iz : Nat) : K × K :=
  let parts := [clipDir gx s.p0.1 s.p1.1 ix, clipDir gy s.p0.2.1 s.p1.2.1 iy,
                clipDir gz s.p0.2.2 s.p1.2.2 iz]
  parts.foldl (fun (acc : K × K) o => match o with
    | some (lo, hi) => (max acc.1 lo, min acc.2 hi)
    | none => acc) (0, 1)

/-- contribution of one cell to the (un-scaled) dipole vector: the three components as
functions of the edge index, or `none` if the guard of the code rejects the cell -/
def cellContribution (gx gy gz : Grid1 K) (s : Seg K) (ix iy iz : Nat) :
    Option (K × (K × K × K) × (K × K × K)) :=
  let c := clip gx gy gz s ix iy iz
  let al := c.1; let ar := c.2
  let mid := (al + ar) / 2
  let xc := (s.p0.1 + mid * (s.p1.1 - s.p0.1), s.p0.2.1 + mid * (s.p1.2.1 - s.p0.2.1),
             s.p0.2.2 + mid * (s.p1.2.2 - s.p0.2.2))
  let rx := (xc.1 - gx.nodes ix) / (gx.nodes (ix+1) - gx.nodes ix)
  let ry := (xc.2.1 - gy.nodes iy) / (gy.nodes (iy+1) - gy.nodes iy)
  let rz := (xc.2.2 - gz.nodes iz) / (gz.nodes (iz+1) - gz.nodes iz)
  let ok := (0 ≤ rx ∧ rx ≤ 1 ∧ 0 ≤ ry ∧ ry ≤ 1 ∧ 0 ≤ rz ∧ rz ≤ 1 ∧ (al < ar ∨ ar < al))
  let len := if al < ar then ar - al else al - ar     -- |ar − al|
  if ok then some (len, (rx, ry, rz), (1 - rx, 1 - ry, 1 - rz)) else none

/-- un-normalised, un-scaled vector of one segment: value at edge `(comp; i,j,k)` -/
def segVector (gx gy gz : Grid1 K) (s : Seg K) : EF K :=
  let lo (g : Grid1 K) (a b : K) := cellIdx g (min a b)
  let hi (g : Grid1 K) (a b : K) := min (cellIdx g (max a b) + 1) g.n
  let cells : List (Nat × Nat × Nat) :=
    (List.range (hi gz s.p0.2.2 s.p1.2.2)).filter (· ≥ lo gz s.p0.2.2 s.p1.2.2) |>.flatMap fun iz =>
    (List.range (hi gy s.p0.2.1 s.p1.2.1)).filter (· ≥ lo gy s.p0.2.1 s.p1.2.1) |>.flatMap fun iy =>
    (List.range (hi gx s.p0.1 s.p1.1)).filter (· ≥ lo gx s.p0.1 s.p1.1) |>.map fun ix => (ix, iy, iz)
  let contribs := cells.filterMap fun c =>
    (cellContribution gx gy gz s c.1 c.2.1 c.2.2).map fun r => (c, r)
  let acc (pick : (Nat × Nat × Nat) → (K × (K × K × K) × (K × K × K)) → Nat → Nat → Nat → K) :
      F3 K := fun i j k => contribs.foldl (fun a cr => a + pick cr.1 cr.2 i j k) 0
  { x := acc fun c r i j k =>
      let (len, rr, ee) := r
      if i = c.1 then
        (if j = c.2.1 then (if k = c.2.2 then ee.2.1*ee.2.2*len else if k = c.2.2+1 then ee.2.1*rr.2.2*len else 0)
         else if j = c.2.1+1 then (if k = c.2.2 then rr.2.1*ee.2.2*len else if k = c.2.2+1 then rr.2.1*rr.2.2*len else 0)
         else 0) else 0
    y := acc fun c r i j k =>
      let (len, rr, ee) := r
      if j = c.2.1 then
        (if i = c.1 then (if k = c.2.2 then ee.1*ee.2.2*len else if k = c.2.2+1 then ee.1*rr.2.2*len else 0)
         else if i = c.1+1 then (if k = c.2.2 then rr.1*ee.2.2*len else if k = c.2.2+1 then rr.1*rr.2.2*len else 0)
         else 0) else 0
    z := acc fun c r i j k =>
      let (len, rr, ee) := r
      if k = c.2.2 then
        (if i = c.1 then (if j = c.2.1 then ee.1*ee.2.1*len else if j = c.2.1+1 then ee.1*rr.2.1*len else 0)
         else if i = c.1+1 then (if j = c.2.1 then rr.1*ee.2.1*len else if j = c.2.1+1 then rr.1*rr.2.1*len else 0)
         else 0) else 0 }

/-- scaled by the Cartesian extent of the segment (no re-normalisation: sums are 1) -/
def dipoleVector (gx gy gz : Grid1 K) (s : Seg K) : EF K :=
  let v := segVector gx gy gz s
  { x := fun i j k => v.x i j k * (s.p1.1 - s.p0.1)
    y := fun i j k => v.y i j k * (s.p1.2.1 - s.p0.2.1)
    z := fun i j k => v.z i j k * (s.p1.2.2 - s.p0.2.2) }

end Src

namespace Src
open Emg
variable {K : Type} [Add K] [Sub K] [Mul K] [Div K] [Neg K] [OfNat K 0] [OfNat K 2] [OfNat K 4]

/-- `fields._edge_curl_factor`: `(∇×E)` on the faces divided by the two-cell average of
`ζ⁻¹ = s μ₀ μ_r / V`-type factor, as coded; faces with index 0 in their own direction are not
written (they stay 0), and only indices inside the loop range are written -/
def edgeCurlFactor (g : Grid K) (zeta : F3 K) (e : EF K) : EF K :=
  { x := fun i j k => if i < g.nx ∧ j < g.ny ∧ k < g.nz ∧ i ≠ 0 then
      curlX g e i j k * (zeta (i-1) j k + zeta i j k) / ((g.hx (i-1) + g.hx i) * g.hy j * g.hz k) else 0
    y := fun i j k => if i < g.nx ∧ j < g.ny ∧ k < g.nz ∧ j ≠ 0 then
      curlY g e i j k * (zeta i (j-1) k + zeta i j k) / (g.hx i * (g.hy (j-1) + g.hy j) * g.hz k) else 0
    z := fun i j k => if i < g.nx ∧ j < g.ny ∧ k < g.nz ∧ k ≠ 0 then
      curlZ g e i j k * (zeta i j (k-1) + zeta i j k) / (g.hx i * g.hy j * (g.hz (k-1) + g.hz k)) else 0 }

end Src
