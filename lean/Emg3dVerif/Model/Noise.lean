/-
Model of the noise bookkeeping of `emg3d.surveys.Survey` (noise_floor / relative_error /
standard_deviation storage, `add_noise`, `select`, `copy`/`to_dict`/`from_dict`) and of the
data misfit of `emg3d.simulations.Simulation.misfit`.  Core Lean only; data are exact
rationals (every double is one), NaN entries are `none`.
Square roots are avoided: the model works with squared standard deviations and squared moduli.
-/
namespace NoiseM

abbrev A3 (α : Type) := Nat → Nat → Nat → α
/-- a complex datum, `none` = NaN -/
abbrev Val := Option (Rat × Rat)

inductive Param where
  | none
  | scalar (q : Rat)
  | array (a : A3 Rat)       -- stored already broadcast to the data shape

structure Survey where
  ns : Nat
  nr : Nat
  nf : Nat
  srcN : List String
  recN : List String
  freqN : List String
  obs : A3 Val
  extra : List (String × A3 Val)     -- further data sets created by add_noise(add_to=…)
  noiseFloor : Param
  relError : Param
  std : Option (A3 Rat)              -- explicitly set standard deviation

def Param.at (p : Param) (i j k : Nat) : Option Rat :=
  match p with
  | .none => Option.none
  | .scalar q => some q
  | .array a => some (a i j k)

def normSq (v : Rat × Rat) : Rat := v.1 * v.1 + v.2 * v.2

/-- squared standard deviation of datum `(i,j,k)`: explicit value wins; otherwise
`nf² + (re·|d|)²`; `none` if nothing is defined or (derived case) the datum is NaN -/
def stdSq (s : Survey) (i j k : Nat) : Option Rat :=
  match s.std with
  | some a => some (a i j k * a i j k)
  | Option.none =>
    match s.noiseFloor.at i j k, s.relError.at i j k with
    | Option.none, Option.none => Option.none
    | nfv, rev =>
      let a := match nfv with | some q => q*q | Option.none => 0
      match rev with
      | Option.none => some a
      | some r => match s.obs i j k with
          | some d => some (a + r*r*normSq d)
          | Option.none => Option.none

/-! ### setters -/

/-- broadcast shape `(d1,d2,d3)` with `d ∈ {1,n}` to the data shape -/
def bcast (d1 d2 d3 : Nat) (vals : Nat → Nat → Nat → Rat) : A3 Rat :=
  fun i j k => vals (if d1 = 1 then 0 else i) (if d2 = 1 then 0 else j) (if d3 = 1 then 0 else k)

inductive SetVal where
  | none
  | arr (d1 d2 d3 : Nat) (vals : A3 Rat)    -- any size; size 1 is stored as scalar

def allPos (d1 d2 d3 : Nat) (v : A3 Rat) : Bool :=
  (List.range d1).all fun i => (List.range d2).all fun j => (List.range d3).all fun k => decide (0 < v i j k)

/-- `_set_nf_re`: `none` on error (non-positive value) -/
def mkParam (v : SetVal) : Option Param :=
  match v with
  | .none => some .none
  | .arr d1 d2 d3 vals =>
    if !allPos d1 d2 d3 vals then Option.none
    else if d1 * d2 * d3 = 1 then some (.scalar (vals 0 0 0))
    else some (.array (bcast d1 d2 d3 vals))

def setNF (s : Survey) (v : SetVal) : Option Survey := (mkParam v).map fun p => { s with noiseFloor := p }
def setRE (s : Survey) (v : SetVal) : Option Survey := (mkParam v).map fun p => { s with relError := p }
def setStd (s : Survey) (v : Option (A3 Rat)) : Option Survey :=
  match v with
  | Option.none => some { s with std := Option.none }
  | some a => if allPos s.ns s.nr s.nf a then some { s with std := some a } else Option.none

/-! ### add_noise -/

inductive MinAmp where
  | halfNf
  | value (q : Rat)
  | none

def getData (s : Survey) (name : String) : Option (A3 Val) :=
  if name = "observed" then some s.obs else (s.extra.find? (·.1 = name)).map (·.2)

def putData (s : Survey) (name : String) (d : A3 Val) : Survey :=
  if name = "observed" then { s with obs := d }
  else if s.extra.any (·.1 = name) then
    { s with extra := s.extra.map fun e => if e.1 = name then (name, d) else e }
  else { s with extra := s.extra ++ [(name, d)] }

/-- threshold of the amplitude cut for datum (i,j,k), as a square; `none` = no cut -/
def ampCutSq (s : Survey) (m : MinAmp) (i j k : Nat) : Option Rat :=
  match m with
  | .none => Option.none
  | .value q => some (q*q)
  | .halfNf => (s.noiseFloor.at i j k).map fun q => (q/2)*(q/2)

def addC (a b : Rat × Rat) : Rat × Rat := (a.1 + b.1, a.2 + b.2)

/-- `add_noise`; `offSq s r` is the squared source–receiver offset, `noise` what
`random_noise` returns (an oracle: the generated noise is data, not part of the model). -/
def addNoise (s : Survey) (minOffSq : Rat) (maxOffSq : Option Rat) (useOff : Bool) (m : MinAmp)
    (addTo : String) (offSq : Nat → Nat → Rat) (noise : A3 (Rat × Rat)) : Survey :=
  let base : A3 Val := match getData s addTo with
    | some d => d
    | Option.none => fun _ _ _ => some (0, 0)
  let hasStd : Bool := s.std.isSome || (match s.noiseFloor, s.relError with
    | .none, .none => false | _, _ => true)
  let out : A3 Val := fun i j k =>
    let cutAmp : Bool := match ampCutSq s m i j k, s.obs i j k with
      | some t, some d => decide (normSq d < t)
      | _, _ => false
    let cutOff : Bool := useOff && (decide (offSq i j < minOffSq) ||
      (match maxOffSq with | some mx => decide (mx < offSq i j) | Option.none => false))
    if cutAmp || cutOff then Option.none
    else match base i j k with
      | Option.none => Option.none
      | some d => if hasStd then (match stdSq s i j k with
                      | some _ => some (addC d (noise i j k))
                      | Option.none => Option.none)   -- NaN std ⇒ NaN noise
                  else some d
  putData s addTo out

/-! ### select -/

def idxOf (names : List String) (n : String) : Nat := names.findIdx (· = n)

def sel3 {α : Type} (a : A3 α) (is js ks : List Nat) : A3 α :=
  fun i j k => a (is.getD i 0) (js.getD j 0) (ks.getD k 0)

def Param.sel (p : Param) (is js ks : List Nat) : Param :=
  match p with
  | .array a => .array (sel3 a is js ks)
  | q => q

/-- restrict to the index lists (positions in the current survey) -/
def restrictTo (s : Survey) (is js ks : List Nat) : Survey :=
  { ns := is.length, nr := js.length, nf := ks.length
    srcN := is.map fun i => s.srcN.getD i ""
    recN := js.map fun i => s.recN.getD i ""
    freqN := ks.map fun i => s.freqN.getD i ""
    obs := sel3 s.obs is js ks
    extra := s.extra.map fun e => (e.1, sel3 e.2 is js ks)
    noiseFloor := s.noiseFloor.sel is js ks
    relError := s.relError.sel is js ks
    std := s.std.map fun a => sel3 a is js ks }

def anyFinite (s : Survey) : Bool :=
  (List.range s.ns).any fun i => (List.range s.nr).any fun j => (List.range s.nf).any fun k =>
    (s.obs i j k).isSome

/-- `Survey.select`: names (or all), then optional removal of all-NaN sources/receivers/freqs -/
def select (s : Survey) (srcs recs freqs : Option (List String)) (removeEmpty : Bool) : Survey :=
  let is := match srcs with | some l => l.map (idxOf s.srcN) | Option.none => List.range s.ns
  let js := match recs with | some l => l.map (idxOf s.recN) | Option.none => List.range s.nr
  let ks := match freqs with | some l => l.map (idxOf s.freqN) | Option.none => List.range s.nf
  let t := restrictTo s is js ks
  if removeEmpty && anyFinite t then
    let is2 := (List.range t.ns).filter fun i =>
      (List.range t.nr).any fun j => (List.range t.nf).any fun k => (t.obs i j k).isSome
    let js2 := (List.range t.nr).filter fun j =>
      (List.range t.ns).any fun i => (List.range t.nf).any fun k => (t.obs i j k).isSome
    let ks2 := (List.range t.nf).filter fun k =>
      (List.range t.ns).any fun i => (List.range t.nr).any fun j => (t.obs i j k).isSome
    restrictTo t is2 js2 ks2
  else t

/-! ### misfit -/

/-- terms of the misfit: finite observations (and finite synthetics) only -/
def misfitTerms (s : Survey) (syn : A3 Val) : List Rat :=
  (List.range s.ns).flatMap fun i => (List.range s.nr).flatMap fun j =>
    (List.range s.nf).filterMap fun k =>
      match s.obs i j k, syn i j k, stdSq s i j k with
      | some d, some y, some v => some (normSq (y.1 - d.1, y.2 - d.2) / v)
      | _, _, _ => Option.none

/-- `φ = ½ Σ |d_syn − d_obs|² / std²` -/
def misfit (s : Survey) (syn : A3 Val) : Rat := (misfitTerms s syn).foldl (· + ·) 0 / 2

end NoiseM
