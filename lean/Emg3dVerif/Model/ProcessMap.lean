/-
Model of `emg3d._multiprocessing.process_map` (order-preserving map over an executor whose
tasks finish in arbitrary order), of the task list / store-back loop of
`Simulation._compute/_bcompute/jvec`, and of the file names of the file-based mode.
Core Lean only.
-/
namespace PMap

/-- results as they become available: `(task index, result)` in completion order -/
def completions {α β : Type} (f : α → β) (xs : List α) (order : List Nat) (d : α) : List (Nat × β) :=
  order.map fun i => (i, f (xs.getD i d))

/-- `executor.map` / `tqdm…process_map` / sequential `map`: results are consumed in
*submission* order, whatever the completion order -/
def collectOrdered {β : Type} (n : Nat) (done : List (Nat × β)) : List (Option β) :=
  (List.range n).map fun i => (done.find? (·.1 == i)).map (·.2)

/-- an `as_completed`-style collector (NOT what the code does): results in completion order -/
def collectUnordered {β : Type} (done : List (Nat × β)) : List β := done.map (·.2)

/-- the task list: the source–frequency product, sources outermost -/
def srcfreq {S F : Type} (srcs : List S) (freqs : List F) : List (S × F) :=
  srcs.flatMap fun s => freqs.map fun f => (s, f)

/-- store-back loop: `for i, (src, freq) in enumerate(srcfreq): slot[src][freq] = out[i]` -/
def storeBack {S F β : Type} [DecidableEq S] [DecidableEq F] (pairs : List (S × F)) (out : List β)
    (s : S) (f : F) : Option β :=
  match pairs.findIdx? (fun p => p.1 = s ∧ p.2 = f) with
  | some i => out[i]?
  | none => none

/-- file name of a task in file-based mode -/
def fname (what src freq : String) : String := what ++ "_" ++ src ++ "_" ++ freq ++ ".h5"
def fnameOut (what src freq : String) : String := what ++ "_" ++ src ++ "_" ++ freq ++ "_out.h5"

end PMap
