/-
Control model of `emg3d.solver.solve / multigrid (level-0 loop) / krylov / _terminate`:
what the solver reports (exit status, message, iteration counts, error figures) as a function
of the residual norms of the successive fields and of the events of SciPy's Krylov solver.
The numerics (what a cycle does to the field) is an oracle: a list of residual norms.
Floating-point numbers are represented exactly (every finite double is a rational) with IEEE
comparison semantics.  Core Lean only.
-/
namespace SolveM

inductive FNum where
  | fin (q : Rat)
  | pinf
  | ninf
  | nan
deriving DecidableEq, Repr

namespace FNum
def lt : FNum → FNum → Bool
  | nan, _ => false
  | _, nan => false
  | fin a, fin b => decide (a < b)
  | ninf, ninf => false
  | ninf, _ => true
  | _, pinf => true
  | pinf, _ => false
  | fin _, ninf => false
def gt (a b : FNum) : Bool := lt b a
def ge : FNum → FNum → Bool
  | nan, _ => false
  | _, nan => false
  | a, b => !(lt a b)
def isFinite : FNum → Bool
  | fin _ => true
  | _ => false
end FNum

inductive Msg where
  | empty
  | converged
  | diverged
  | stagnated
  | maxit
  | sslError           -- "Error in <solver> (<i>)"
  | divergedZero       -- "DIVERGED (returned field is zero)"
  | stagnatedZero      -- "STAGNATED (returned field is zero)"
  | emptyZero          -- " (returned field is zero)" (abort without message: impossible)
deriving DecidableEq, Repr

def Msg.render : Msg → String
  | .empty => ""
  | .converged => "CONVERGED"
  | .diverged => "DIVERGED"
  | .stagnated => "STAGNATED"
  | .maxit => "MAX. ITERATION REACHED, NOT CONVERGED"
  | .sslError => "Error in sslsolver"
  | .divergedZero => "DIVERGED (returned field is zero)"
  | .stagnatedZero => "STAGNATED (returned field is zero)"
  | .emptyZero => " (returned field is zero)"

structure Cfg where
  tolRef : FNum      -- var.tol * var.l2_refe
  divRef : FNum      -- 10 * var.l2_refe
  maxit : Nat        -- var.maxit (already replaced by maxcycle under an sslsolver with cycle)
  maxcycle : Nat
  ssl : Bool         -- var.sslsolver is set
deriving Repr

/-- outcome of `_terminate`: finished?, new exit message (if it sets one), force-abort? -/
structure Term where
  finished : Bool
  msg : Option Msg
  abort : Bool

def terminate (cfg : Cfg) (l2last l2stag : FNum) (it : Nat) : Term :=
  if l2last.lt cfg.tolRef then ⟨true, some .converged, false⟩
  else if l2last.gt cfg.divRef || !l2last.isFinite then ⟨true, some .diverged, true⟩
  else if it > 2 && l2last.ge l2stag then ⟨true, some .stagnated, true⟩
  else if it == cfg.maxit then ⟨true, if cfg.ssl then none else some .maxit, false⟩
  else ⟨false, none, false⟩

/-- state of the level-0 loop of `multigrid` -/
structure MgSt where
  it : Nat
  l2last : FNum
  stag : List FNum        -- length maxcycle
  msg : Option Msg        -- message set by `_terminate` (none = untouched)
  raised : Bool           -- `_ConvergenceError` raised
  done : Bool
deriving Repr

/-- Python's `(it-1) % maxcycle` -/
def stagIdx (it mc : Nat) : Nat := if it = 0 then mc - 1 else (it - 1) % mc

/-- one pass through the loop body: `r` = residual norm of the field after the cycle -/
def mgStep (cfg : Cfg) (s : MgSt) (r : FNum) : MgSt :=
  if s.done then s else
  let stag := s.stag.set (stagIdx s.it cfg.maxcycle) s.l2last
  let it := s.it + 1
  let t := terminate cfg r (stag.getD (stagIdx it cfg.maxcycle) .nan) it
  { it := it, l2last := r, stag := stag,
    msg := if t.finished then (match t.msg with | some m => some m | none => s.msg) else s.msg,
    raised := t.finished && cfg.ssl && t.abort,
    done := t.finished }

def mgInit (cfg : Cfg) (r0 : FNum) : MgSt :=
  { it := 0, l2last := r0, stag := List.replicate cfg.maxcycle r0, msg := none, raised := false,
    done := false }

/-- run the level-0 loop on the oracle's residual list; returns the state and the number of
residuals consumed -/
def mgRun (cfg : Cfg) (r0 : FNum) (rs : List FNum) : MgSt :=
  rs.foldl (mgStep cfg) (mgInit cfg r0)

/-! ### Krylov path -/

inductive KEvent where
  | precond (inner : FNum) (r0 : FNum) (rs : List FNum)
      -- one multigrid-preconditioner application; `inner` = `var.l2` as left by the last
      -- completed coarse-level call (every level stores its final error in `var.l2`)
  | callback (r : FNum)                     -- SciPy calls back with iterate x: var.l2 = resid x
  | ret (info : Int) (rfinal : FNum)        -- SciPy returns (x, info); residual of returned field
deriving Repr

structure KSt where
  itMg : Nat
  itSsl : Nat
  l2 : FNum
  msg : Msg
  raised : Bool
  info : Option Int
deriving Repr

def kStep (cfg : Cfg) (s : KSt) (e : KEvent) : KSt :=
  if s.raised || s.info.isSome then s else
  match e with
  | .precond inner r0 rs =>
    let m := mgRun cfg r0 rs
    -- `var.l2 = l2_last` at the end of the level-0 call is skipped when `_ConvergenceError` is
    -- raised; `var.l2` then still holds what the last coarse-level call stored
    { s with itMg := s.itMg + m.it, l2 := if m.raised then inner else m.l2last,
             msg := (match m.msg with | some x => x | none => s.msg), raised := m.raised }
  | .callback r => { s with itSsl := s.itSsl + 1, l2 := r }
  | .ret info rf => { s with info := some info, l2 := rf }

/-! ### `solve` -/

structure Inp where
  fresh : Bool            -- no efield supplied
  zeroSource : Bool       -- l2_refe < 100 tiny
  refe : FNum             -- norm of the source
  rProvided : FNum        -- residual norm of the supplied field after PEC (if supplied)
  cycle : Bool            -- var.cycle is not None
  cfg : Cfg
  mgR0 : FNum             -- plain multigrid: residual at entry and after each cycle
  mgRs : List FNum
  events : List KEvent
deriving Repr

structure Out where
  exit : Nat
  msg : Msg
  itMg : Nat
  itSsl : Nat
  absErr : FNum
  ranSolver : Bool        -- multigrid or krylov was entered
  zeroField : Bool        -- the (supplied or fresh) field is set to zero
  returned : Bool         -- do_return
deriving Repr

def finishMsg (s : KSt) : Msg :=
  if s.raised then
    (match s.msg with
     | .diverged => .divergedZero | .stagnated => .stagnatedZero | _ => .emptyZero)
  else match s.info with
    | some i => if i < 0 then (if s.msg == .empty || s.msg == .converged then .sslError else s.msg)
                else if i > 0 then .maxit else .converged
    | none => s.msg

def solve (inp : Inp) : Out :=
  -- supplied field already good enough?
  let good := !inp.fresh && inp.rProvided.lt inp.cfg.tolRef
  let l2a : FNum := if inp.fresh then .fin 1 else inp.rProvided
  if inp.zeroSource then
    { exit := 0, msg := .converged, itMg := 0, itSsl := 0, absErr := .fin 0, ranSolver := false,
      zeroField := true, returned := inp.fresh }
  else if good then
    { exit := 0, msg := .converged, itMg := 0, itSsl := 0, absErr := l2a, ranSolver := false,
      zeroField := false, returned := inp.fresh }
  else if inp.cfg.ssl then
    let s := inp.events.foldl (kStep inp.cfg) ⟨0, 0, l2a, .empty, false, none⟩
    let m := finishMsg s
    { exit := if m == .converged then 0 else 1, msg := m, itMg := s.itMg, itSsl := s.itSsl,
      absErr := s.l2, ranSolver := true, zeroField := false, returned := inp.fresh }
  else if inp.cycle then
    let m := mgRun inp.cfg inp.mgR0 inp.mgRs
    let msg := match m.msg with | some x => x | none => Msg.empty
    { exit := if msg == .converged then 0 else 1, msg := msg, itMg := m.it, itSsl := 0,
      absErr := m.l2last, ranSolver := true, zeroField := false, returned := inp.fresh }
  else
    { exit := 1, msg := .empty, itMg := 0, itSsl := 0, absErr := l2a, ranSolver := false,
      zeroField := false, returned := inp.fresh }

end SolveM
