/-
Control model of the multigrid hierarchy and cycling (emg3d/solver.py):
`MGParameters._max_level`, `_semicoarsening`, `_linerelaxation`, `_solver_and_cycle`,
`_current_sc_dir`, `_current_lr_dir`, the grid part of `restriction`, and the recursion
of `multigrid()` reduced to its control state.  Core Lean only.

The model emits the list of *events* the real solver performs (smoother kernel calls,
restrictions, prolongations, recursion entries, end-of-cycle direction updates); the
harness records the same events from the real code and the two lists must be identical.
-/
namespace MGH

/-- number of times `n` can be halved while even and > 2 (the `while` loop of `_max_level`) -/
def halvings (n : Nat) : Nat :=
  if _h : n % 2 = 0 ∧ n > 2 then 1 + halvings (n / 2) else 0
termination_by n
decreasing_by omega

abbrev Shape := Nat × Nat × Nat

/-- per-direction number of levels, limited by the user's `clevel` (`none` = negative input) -/
def lim (user : Option Nat) (c : Nat) : Nat :=
  match user with
  | none => c
  | some u => if u < c then u else c

def clevelDirs (user : Option Nat) (s : Shape) : Nat × Nat × Nat :=
  (lim user (halvings s.1), lim user (halvings s.2.1), lim user (halvings s.2.2))

/-- `var.clevel[sc]` -/
def table (c : Nat × Nat × Nat) (sc : Nat) : Nat :=
  match sc with
  | 0 => max c.1 (max c.2.1 c.2.2)
  | 1 => max c.2.1 c.2.2
  | 2 => max c.1 c.2.2
  | _ => max c.1 c.2.1

/-- header information `_repr_clevel['shape_cells']` -/
def reprShape (user : Option Nat) (s : Shape) : Shape :=
  let c := clevelDirs user s
  (s.1 / 2 ^ c.1, s.2.1 / 2 ^ c.2.1, s.2.2 / 2 ^ c.2.2)

/-- a direction cannot be halved on this level -/
def blocked (n : Nat) (isSc : Bool) : Bool := n % 2 != 0 || n < 3 || isSc

/-- `_current_sc_dir` -/
def currentScDir (sc : Nat) (s : Shape) : Nat :=
  let x := blocked s.1 (sc == 1); let y := blocked s.2.1 (sc == 2); let z := blocked s.2.2 (sc == 3)
  if x then (if y then 6 else if z then 5 else 1)
  else if y then (if z then 4 else 2)
  else if z then 3 else 0

/-- coarse shape produced by `restriction` for the *current* semicoarsening code -/
def coarsen (csc : Nat) (s : Shape) : Shape :=
  let rx := if csc == 1 || csc == 5 || csc == 6 then 1 else 2
  let ry := if csc == 2 || csc == 4 || csc == 6 then 1 else 2
  let rz := if csc == 3 || csc == 4 || csc == 5 then 1 else 2
  -- np.diff(nodes[::r]) has ceil((n+1)/r) - 1 entries
  ((s.1 + 1 + (rx - 1)) / rx - 1, (s.2.1 + 1 + (ry - 1)) / ry - 1, (s.2.2 + 1 + (rz - 1)) / rz - 1)

/-- `_current_lr_dir` -/
def currentLrDir (lr : Nat) (s : Shape) : Nat :=
  let c := lr
  let c := if s.1 == 2 then (if c == 1 then 0 else if c == 5 then 3 else if c == 6 then 2 else if c == 7 then 4 else c) else c
  let c := if s.2.1 == 2 then (if c == 2 then 0 else if c == 4 then 3 else if c == 6 then 1 else if c == 7 then 5 else c) else c
  let c := if s.2.2 == 2 then (if c == 3 then 0 else if c == 4 then 2 else if c == 5 then 1 else if c == 7 then 6 else c) else c
  c

/-- which kernels `smoothing` calls for a current line-relaxation code: (point, x, y, z) -/
def lrX (c : Nat) : Bool := c == 1 || c == 5 || c == 6 || c == 7
def lrY (c : Nat) : Bool := c == 2 || c == 4 || c == 6 || c == 7
def lrZ (c : Nat) : Bool := c == 3 || c == 4 || c == 5 || c == 7

inductive Ev where
  | enter (level newCycmax : Nat) (s : Shape)
  | smooth (level : Nat) (s : Shape) (nu : Nat) (clr : Nat)
  | restrict (level : Nat) (s : Shape) (csc : Nat) (cs : Shape)
  | prolong (level : Nat) (s : Shape) (csc : Nat)
  | cycleEnd (it : Nat) (sc lr : Nat)
deriving Repr, BEq, DecidableEq

structure Cfg where
  cycmax : Nat      -- 1 for V, 2 for W/F  (`var.cycmax`)
  isF : Bool
  nuInit : Nat
  nuPre : Nat
  nuCoarse : Nat
  nuPost : Nat
deriving Repr

def pre (cfg : Cfg) (level : Nat) (s : Shape) (lr : Nat) : List Ev :=
  if cfg.nuPre > 0 then [Ev.smooth level s cfg.nuPre (currentLrDir lr s)] else []
def post (cfg : Cfg) (level : Nat) (s : Shape) (lr : Nat) : List Ev :=
  if cfg.nuPost > 0 then [Ev.smooth level s cfg.nuPost (currentLrDir lr s)] else []

/-- The recursive call `multigrid(..., level, new_cycmax)` for `level ≥ 1`; `fuel = D - level`
where `D = var.clevel[var.sc_dir]`.  -/
def passes (cfg : Cfg) (sc lr : Nat) : (fuel : Nat) → (level newCycmax : Nat) → Shape → List Ev
  | 0, level, newCycmax, s =>
      [Ev.enter level newCycmax s, Ev.smooth level s cfg.nuCoarse (currentLrDir lr s)]
  | fuel+1, level, newCycmax, s =>
    let cycmax := if newCycmax == 0 || !cfg.isF then cfg.cycmax else newCycmax
    let csc := currentScDir sc s
    let cs := coarsen csc s
    let one := fun (it : Nat) =>
      pre cfg level s lr ++ [Ev.restrict level s csc cs] ++
      passes cfg sc lr fuel (level+1) (cycmax - it) cs ++
      [Ev.prolong level s csc] ++ post cfg level s lr
    Ev.enter level newCycmax s :: (List.range cycmax).flatMap one

/-- one fine-grid iteration (body of the `while` loop at level 0);
`cycmax0` is the level-0 value of `cycmax` handed down as `new_cycmax`. -/
def fineIter (cfg : Cfg) (D sc lr cycmax0 : Nat) (s : Shape) : List Ev :=
  match D with
  | 0 => [Ev.smooth 0 s cfg.nuCoarse (currentLrDir lr s)]
  | D'+1 =>
    let csc := currentScDir sc s
    let cs := coarsen csc s
    pre cfg 0 s lr ++ [Ev.restrict 0 s csc cs] ++
    passes cfg sc lr D' 1 cycmax0 cs ++
    [Ev.prolong 0 s csc] ++ post cfg 0 s lr

/-- cyclic pattern access -/
def pat (p : List Nat) (k : Nat) : Nat := p.getD (k % p.length) 0

structure Run where
  cfg : Cfg
  user : Option Nat
  shape : Shape
  scPat : List Nat     -- raw_sc_cycle (length 1 = constant)
  lrPat : List Nat
  ncyc : Nat           -- number of fine-grid cycles until `_terminate` says stop (≥ 1)
  k0 : Nat := 0        -- position in the direction patterns at entry (preconditioner calls)

/-- level-0 `cycmax` at entry -/
def cycmaxEntry (cfg : Cfg) (D : Nat) : Nat := if D == 0 then 1 else cfg.cycmax

/-- The fine-grid loop: cycle `k` (0-based) with the directions of that cycle.
`cm` is the current level-0 `cycmax`.  After the cycle, directions advance (if they cycle)
and — if the semicoarsening direction cycles — `cycmax` is recomputed for the new
direction.  -/
def fineLoop (r : Run) : (n : Nat) → (k : Nat) → (it : Nat) → (cm : Nat) → List Ev
  | 0, _, _, _ => []
  | n+1, k, it, cm =>
    let c := clevelDirs r.user r.shape
    let sc := pat r.scPat k
    let lr := pat r.lrPat k
    let D := table c sc
    let sc' := if r.scPat.length > 1 then pat r.scPat (k+1) else sc
    let lr' := if r.lrPat.length > 1 then pat r.lrPat (k+1) else lr
    let cm' := if r.scPat.length > 1 then cycmaxEntry r.cfg (table c sc') else cm
    fineIter r.cfg D sc lr cm r.shape ++ [Ev.cycleEnd (it+1) sc' lr'] ++ fineLoop r n (k+1) (it+1) cm'

/-- complete event trace of one `multigrid()` call at level 0 -/
def mgTrace (r : Run) : List Ev :=
  let c := clevelDirs r.user r.shape
  let sc0 := pat r.scPat r.k0
  let lr0 := pat r.lrPat r.k0
  let cm := cycmaxEntry r.cfg (table c sc0)
  [Ev.enter 0 0 r.shape] ++
  (if r.cfg.nuInit > 0 then [Ev.smooth 0 r.shape r.cfg.nuInit (currentLrDir lr0 r.shape)] else []) ++
  fineLoop r r.ncyc r.k0 0 cm

/-! ### rendering for the line protocol -/

def showShape (s : Shape) : String := s!"{s.1} {s.2.1} {s.2.2}"

def kernels (clr : Nat) : String :=
  if clr == 0 then "g" else
    (if lrX clr then "x" else "") ++ (if lrY clr then "y" else "") ++ (if lrZ clr then "z" else "")

def Ev.render : Ev → String
  | .enter l n s => s!"E {l} {n} {showShape s}"
  | .smooth l s nu clr => s!"S {l} {showShape s} {nu} {kernels clr}"
  | .restrict l s csc cs => s!"R {l} {showShape s} {csc} {showShape cs}"
  | .prolong l s csc => s!"P {l} {showShape s} {csc}"
  | .cycleEnd it sc lr => s!"C {it} {sc} {lr}"

end MGH
