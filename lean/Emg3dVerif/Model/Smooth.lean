import Emg3dVerif.Model.Amat
import Emg3dVerif.Model.Mat
import Emg3dVerif.Model.Hier
/-
Model of the smoothers `emg3d.core.gauss_seidel`, `gauss_seidel_x/_y/_z` and of
`emg3d.solver.smoothing`: **block Gauss–Seidel relaxation of the operator `amat`**.

Each kernel visits blocks of unknowns (the six edges at a node; all edges of a grid line and
the transverse edges attached to it) in a fixed order and replaces the block's unknowns by the
solution of the block's own equations `(A e)_r = s_r, r ∈ block`.  The model builds each block
system *from the operator* (columns = operator applied to unit fields), solves it exactly and
checks the result; it does not copy the kernels' hand-derived coefficients — that they agree is
what the exact correspondence establishes.  No Mathlib.
-/
namespace Emg

inductive Comp where
  | x | y | z
deriving DecidableEq, Repr

structure Edge where
  c : Comp
  i : Nat
  j : Nat
  k : Nat
deriving DecidableEq, Repr

variable {K : Type} [Add K] [Sub K] [Mul K] [Div K] [Neg K] [OfNat K 0] [OfNat K 1] [OfNat K 2]
  [OfNat K 4] [DecidableEq K]

def EF.get (e : EF K) (d : Edge) : K :=
  match d.c with
  | .x => e.x d.i d.j d.k
  | .y => e.y d.i d.j d.k
  | .z => e.z d.i d.j d.k

def EF.set (e : EF K) (d : Edge) (v : K) : EF K :=
  match d.c with
  | .x => { e with x := fun i j k => if i = d.i ∧ j = d.j ∧ k = d.k then v else e.x i j k }
  | .y => { e with y := fun i j k => if i = d.i ∧ j = d.j ∧ k = d.k then v else e.y i j k }
  | .z => { e with z := fun i j k => if i = d.i ∧ j = d.j ∧ k = d.k then v else e.z i j k }

def EF.setAll (e : EF K) : List Edge → List K → EF K
  | d :: ds, v :: vs => (e.set d v).setAll ds vs
  | _, _ => e

def zeroEF : EF K := ⟨fun _ _ _ => 0, fun _ _ _ => 0, fun _ _ _ => 0⟩
def unitEF (d : Edge) : EF K := (zeroEF (K := K)).set d 1

/-- tabulate a field on the grid's edge boxes (extensionally the identity) -/
def matEF (g : Grid K) (e : EF K) : EF K :=
  { x := (mat3 g.nx (g.ny+1) (g.nz+1) e.x).f
    y := (mat3 (g.nx+1) g.ny (g.nz+1) e.y).f
    z := (mat3 (g.nx+1) (g.ny+1) g.nz e.z).f }

/-- row `r` of `A e` -/
def amatAt (g : Grid K) (m : VM K) (e : EF K) (r : Edge) : K := (amat g m e).get r

/-- block matrix `A_BB`: column `c` is the operator applied to the unit field of edge `c` -/
def blockMatrix (g : Grid K) (m : VM K) (B : List Edge) : List (List K) :=
  let cols := B.map fun c => matEF g (unitEF c)
  B.map fun r => cols.map fun u => amatAt g m u r

/-- right-hand side `s_B − (A e⁰)_B`, `e⁰` = current field with the block's unknowns zeroed -/
def blockRhs (g : Grid K) (m : VM K) (s e : EF K) (B : List Edge) : List K :=
  let e0 := matEF g (e.setAll B (B.map fun _ => 0))
  B.map fun r => s.get r - amatAt g m e0 r

/-- Gauss–Jordan elimination (first non-zero pivot); `none` if singular.  Its result is
*checked* by `relaxBlock`, so nothing is assumed about it. -/
def gaussSolve (M : List (List K)) (b : List K) : Option (List K) := Id.run do
  let n := b.length
  let mut A : Array (Array K) := ((M.zip b).map fun (row, bi) => row.toArray.push bi).toArray
  for c in [0:n] do
    let mut p := n
    for r in [c:n] do
      if p == n && (A.getD r #[]).getD c 0 ≠ 0 then p := r
    if p == n then return none
    let rowp := A.getD p #[]
    let rowc := A.getD c #[]
    A := (A.setIfInBounds p rowc).setIfInBounds c rowp
    let piv := rowp.getD c 0
    for r in [0:n] do
      if r ≠ c then
        let rowr := A.getD r #[]
        let f := rowr.getD c 0 / piv
        if f ≠ 0 then
          A := A.setIfInBounds r (Array.ofFn (n := n+1) fun q => rowr.getD q.val 0 - f * rowp.getD q.val 0)
  return some ((List.range n).map fun i => (A.getD i #[]).getD n 0 / (A.getD i #[]).getD i 0)

/-- the block's equations hold for `e` -/
def blockSolved (g : Grid K) (m : VM K) (s e : EF K) (B : List Edge) : Bool :=
  B.all fun r => decide (amatAt g m e r = s.get r)

/-- relax one block; the flag says whether the block system could be solved (and the solution
verified).  On failure the field is returned unchanged. -/
def relaxBlock (g : Grid K) (m : VM K) (s e : EF K) (B : List Edge) : EF K × Bool :=
  match gaussSolve (blockMatrix g m B) (blockRhs g m s e B) with
  | none => (e, false)
  | some x =>
    let e' := matEF g (e.setAll B x)
    if x.length = B.length ∧ blockSolved g m s e' B then (e', true) else (e, false)

/-- relax a list of blocks in order -/
def relaxAll (g : Grid K) (m : VM K) (s : EF K) : EF K × Bool → List (List Edge) → EF K × Bool
  | st, [] => st
  | (e, ok), B :: Bs =>
    let r := relaxBlock g m s e B
    relaxAll g m s (r.1, ok && r.2) Bs

/-! ### blocks and visiting order of the four kernels -/

/-- loop index sequence `for ih in range(1, n): i = n-ih if back else ih` -/
def idxSeq (back : Bool) (n : Nat) : List Nat :=
  (List.range (n-1)).map fun h => if back then n - (h+1) else h+1

def nodeBlock (ix iy iz : Nat) : List Edge :=
  [⟨.x, ix-1, iy, iz⟩, ⟨.x, ix, iy, iz⟩, ⟨.y, ix, iy-1, iz⟩, ⟨.y, ix, iy, iz⟩,
   ⟨.z, ix, iy, iz-1⟩, ⟨.z, ix, iy, iz⟩]

def lineBlockX (nx iy iz : Nat) : List Edge :=
  (List.range nx).flatMap fun ixm =>
    ⟨.x, ixm, iy, iz⟩ :: (if ixm + 1 < nx then
      [⟨.y, ixm+1, iy-1, iz⟩, ⟨.y, ixm+1, iy, iz⟩, ⟨.z, ixm+1, iy, iz-1⟩, ⟨.z, ixm+1, iy, iz⟩] else [])

def lineBlockY (ny ix iz : Nat) : List Edge :=
  (List.range ny).flatMap fun iym =>
    ⟨.y, ix, iym, iz⟩ :: (if iym + 1 < ny then
      [⟨.x, ix-1, iym+1, iz⟩, ⟨.x, ix, iym+1, iz⟩, ⟨.z, ix, iym+1, iz-1⟩, ⟨.z, ix, iym+1, iz⟩] else [])

def lineBlockZ (nz ix iy : Nat) : List Edge :=
  (List.range nz).flatMap fun izm =>
    ⟨.z, ix, iy, izm⟩ :: (if izm + 1 < nz then
      [⟨.x, ix-1, iy, izm+1⟩, ⟨.x, ix, iy, izm+1⟩, ⟨.y, ix, iy-1, izm+1⟩, ⟨.y, ix, iy, izm+1⟩] else [])

/-- kernel: 0 = point-wise, 1/2/3 = line relaxation along x/y/z.  Blocks of one sweep. -/
def sweepBlocks (kernel : Nat) (nx ny nz : Nat) (back : Bool) : List (List Edge) :=
  match kernel with
  | 0 => (idxSeq back nz).flatMap fun iz => (idxSeq back ny).flatMap fun iy =>
           (idxSeq back nx).map fun ix => nodeBlock ix iy iz
  | 1 => (idxSeq back nz).flatMap fun iz => (idxSeq back ny).map fun iy => lineBlockX nx iy iz
  | 2 => (idxSeq back nz).flatMap fun iz => (idxSeq back nx).map fun ix => lineBlockY ny ix iz
  | _ => (idxSeq back ny).flatMap fun iy => (idxSeq back nx).map fun ix => lineBlockZ nz ix iy

/-- `nu` sweeps of a kernel: sweep number `t = 1, 2, …` runs with `iback = t mod 2` -/
def kernelBlocks (kernel nx ny nz nu : Nat) : List (List Edge) :=
  (List.range nu).flatMap fun t => sweepBlocks kernel nx ny nz ((t+1) % 2 == 1)

def runKernel (g : Grid K) (m : VM K) (s : EF K) (kernel nu : Nat) (st : EF K × Bool) : EF K × Bool :=
  relaxAll g m s st (kernelBlocks kernel g.nx g.ny g.nz nu)

/-- kernels called by `emg3d.solver.smoothing` for a current line-relaxation code, in order -/
def kernelsOf (c : Nat) : List Nat :=
  (if c == 0 then [0] else []) ++ (if MGH.lrX c then [1] else []) ++
  (if MGH.lrY c then [2] else []) ++ (if MGH.lrZ c then [3] else [])

/-- all blocks visited by one call of `smoothing`, in order -/
def smoothingBlocks (nx ny nz nu lrDir : Nat) : List (List Edge) :=
  (kernelsOf (MGH.currentLrDir lrDir (nx, ny, nz))).flatMap fun kernel =>
    kernelBlocks kernel nx ny nz nu

/-- `emg3d.solver.smoothing`: adapt the line direction to the grid, then call the kernels
(each with `nu` sweeps) one after the other -/
def smoothing (g : Grid K) (m : VM K) (s e : EF K) (nu lrDir : Nat) : EF K × Bool :=
  relaxAll g m s (e, true) (smoothingBlocks g.nx g.ny g.nz nu lrDir)

end Emg
