/-
Model of the glue of `Simulation.gradient` / `jvec` / `jtvec`: data weights, residual and
misfit with missing data, strengths of the adjoint sources, the distribution of edge values to
the adjacent cells (`interp_edges_to_vol_averages`), the collection of the three components of
the raw gradient according to the anisotropy case and, for `jvec`, the stacking of the model
vector.  Generic scalar; no Mathlib.
-/
namespace Grad

inductive Case where
  | isotropic | hti | vti | triaxial
deriving DecidableEq, Repr

def Case.ncomp : Case → Nat
  | .isotropic => 1
  | .hti => 2
  | .vti => 2
  | .triaxial => 3

section
variable {K : Type} [Add K] [OfNat K 0]

/-- `gradient`: collect the raw x/y/z gradients into the components of the model -/
def collect (c : Case) (gx gy gz : K) : List K :=
  match c with
  | .isotropic => [gx + gy + gz]
  | .hti => [gx + gz, gy]
  | .vti => [gx + gy, gz]
  | .triaxial => [gx, gy, gz]

/-- `jvec`: the x/y/z values used for a model vector with the components of the model -/
def stack (c : Case) (v : List K) : K × K × K :=
  match c, v with
  | .isotropic, [a] => (a, a, a)
  | .hti, [a, b] => (a, b, a)
  | .vti, [a, b] => (a, a, b)
  | .triaxial, [a, b, d] => (a, b, d)
  | _, _ => (0, 0, 0)

end

/-! ## edges → cells (`interp_edges_to_vol_averages`) -/
section
variable {K : Type} [Add K] [Mul K] [Div K] [OfNat K 0] [OfNat K 4]

def sumTo : Nat → (Nat → K) → K
  | 0, _ => 0
  | n+1, f => sumTo n f + f n

/-- `1` if the clamped neighbour index of node `n` (lower: `max(0, n-1)`, upper:
`min(N-1, n)`) is cell `c`, counted with multiplicity -/
def hits (N n c : Nat) : Nat :=
  (if (n - 1) = c then 1 else 0) + (if min (N - 1) n = c then 1 else 0)

def times (m : Nat) (x : K) : K :=
  match m with
  | 0 => 0
  | m+1 => times m x + x

/-- x-component: cell `(i,j,k)` receives `V/4 · ex[i, jn, kn]` from the edges `(i, jn, kn)` whose
clamped neighbours in y and z are `j`, `k` -/
def toVolX (ny nz : Nat) (vol ex : Nat → Nat → Nat → K) (i j k : Nat) : K :=
  sumTo (ny + 1) fun jn => sumTo (nz + 1) fun kn =>
    times (hits ny jn j * hits nz kn k) (vol i j k * ex i jn kn / 4)

def toVolY (nx nz : Nat) (vol ey : Nat → Nat → Nat → K) (i j k : Nat) : K :=
  sumTo (nx + 1) fun inn => sumTo (nz + 1) fun kn =>
    times (hits nx inn i * hits nz kn k) (vol i j k * ey inn j kn / 4)

def toVolZ (nx ny : Nat) (vol ez : Nat → Nat → Nat → K) (i j k : Nat) : K :=
  sumTo (nx + 1) fun inn => sumTo (ny + 1) fun jn =>
    times (hits nx inn i * hits ny jn j) (vol i j k * ez inn jn k / 4)

end
end Grad
