/-
Decision model of the parameter validation of `emg3d.models.Model`
(`_check_positive_finite`, setters): float *classes* of the values on the conductivity scale
and the accept / reject verdict; and the six mappings of `emg3d.maps`, generic in the number
type and its elementary functions (`Elem`): instantiated with `Float` in the driver (executed
against the code) and with `ℝ` in `Props/C14.lean` (where the theorems are proved).
Core Lean only.
-/
namespace MapsM

/-- the elementary functions used by the mappings -/
class Elem (α : Type) where
  ln : α → α        -- natural logarithm        (np.log)
  lg : α → α        -- base-10 logarithm        (np.log10)
  ex : α → α        -- exponential              (np.exp)
  p10 : α → α       -- 10**x
  ln10 : α          -- np.log(10)

inductive Mapping where
  | conductivity | lgConductivity | lnConductivity | resistivity | lgResistivity | lnResistivity
deriving DecidableEq, Repr

section
variable {α : Type} [Elem α] [Div α] [Mul α] [Neg α] [OfNat α 1]

/-- conductivity → mapped parameter -/
def forward : Mapping → α → α
  | .conductivity, s => s
  | .lgConductivity, s => Elem.lg s
  | .lnConductivity, s => Elem.ln s
  | .resistivity, s => 1 / s
  | .lgResistivity, s => Elem.lg (1 / s)
  | .lnResistivity, s => Elem.ln (1 / s)

/-- mapped parameter → conductivity -/
def backward : Mapping → α → α
  | .conductivity, x => x
  | .lgConductivity, x => Elem.p10 x
  | .lnConductivity, x => Elem.ex x
  | .resistivity, x => 1 / x
  | .lgResistivity, x => Elem.p10 (-x)
  | .lnResistivity, x => Elem.ex (-x)

/-- the factor by which `derivative_chain` multiplies the gradient -/
def chain : Mapping → α → α
  | .conductivity, _ => 1
  | .lgConductivity, x => backward .lgConductivity x * Elem.ln10
  | .lnConductivity, x => backward .lnConductivity x
  | .resistivity, x => -(backward .resistivity x * backward .resistivity x)
  | .lgResistivity, x => -(backward .lgResistivity x) * Elem.ln10
  | .lnResistivity, x => -(backward .lnResistivity x)
end

/-- class of a floating-point number -/
inductive Cls where
  | neg | zero | pos | pinf | ninf | nan
deriving DecidableEq, Repr

inductive Verdict where
  | ok
  | errNotSet          -- "Model was initiated without …; cannot set values."
  | errPositive        -- "… must be all bigger than zero."
  | errFinite          -- "… must be all finite."
deriving DecidableEq, Repr

/-- `x > 0` in IEEE arithmetic -/
def gtZero : Cls → Bool
  | .pos => true
  | .pinf => true
  | _ => false

def isFinite : Cls → Bool
  | .neg => true
  | .zero => true
  | .pos => true
  | _ => false

/-- `_check_positive_finite` on the classes of the mapped values; `unset` = the parameter was
initiated as `None` and something tries to assign to it -/
def check (unset : Bool) (mapped : List Cls) : Verdict :=
  if unset then .errNotSet
  else if !(mapped.all gtZero) then .errPositive
  else if !(mapped.all isFinite) then .errFinite
  else .ok

end MapsM
