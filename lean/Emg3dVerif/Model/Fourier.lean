/-
Model of the frequency bookkeeping of `emg3d.time.Fourier` and of the data flow of
`Fourier.interpolate`: required / coarse / computed frequencies, the three index groups, the
fill-in of the spectrum with the spline and the PCHIP interpolator as parameters.
Generic linear order for the frequencies, arbitrary value type; no Mathlib.
-/
namespace Fou

section
variable {K : Type} [LT K] [LE K] [DecidableLT K] [DecidableLE K] [DecidableEq K]

structure Cfg (K : Type) where
  req : List K                    -- freq_required (from the reference transform)
  fmin : K
  fmax : K
  inputFreq : Option (List K)
  everyX : Option Nat

/-- every `n`-th element, starting with the first (`a[::n]`) -/
def everyNth (n : Nat) (l : List K) : List K :=
  (l.zipIdx.filter (fun p => p.2 % n = 0)).map (·.1)

/-- `freq_coarse` -/
def coarse (c : Cfg K) : List K :=
  match c.everyX, c.inputFreq with
  | none, none => c.req
  | none, some f => f
  | some n, _ => everyNth n c.req

def inBand (c : Cfg K) (f : K) : Bool := decide (c.fmin ≤ f) && decide (f ≤ c.fmax)
def below (c : Cfg K) (f : K) : Bool := decide (f < c.fmin)
def above (c : Cfg K) (f : K) : Bool := decide (c.fmax < f)

/-- `ifreq_compute`, `freq_compute`, `ifreq_extrapolate`, `ifreq_interpolate` -/
def iCompute (c : Cfg K) : List Bool := (coarse c).map (inBand c)
def freqCompute (c : Cfg K) : List K := (coarse c).filter (inBand c)
def iExtrapolate (c : Cfg K) : List Bool := c.req.map (below c)
def freqExtrapolate (c : Cfg K) : List K := c.req.filter (below c)
def iInterpolate (c : Cfg K) : List Bool := c.req.map (inBand c)
def freqInterpolate (c : Cfg K) : List K := c.req.filter (inBand c)

/-- rank of position `i` among the in-band required frequencies -/
def rankIn (c : Cfg K) (i : Nat) : Nat := ((c.req.take i).filter (inBand c)).length

/-- `Fourier.interpolate`: `spline xs ys x` / `pchip xs ys x` evaluate the interpolant through
`(xs, ys)` at `x`; `lo` = the extra node (1e-100 Hz), `anchor v` = the value put there
(`Re v − 1e-100 i`), `zero` = 0+0j -/
def interpolate {V : Type} (c : Cfg K) (spline pchip : List K → List V → K → V) (lo : K)
    (anchor : V → V) (zero : V) (fdata : List V) : List V :=
  let fc := freqCompute c
  let direct := coarse c = c.req
  c.req.zipIdx.map fun (f, i) =>
    if inBand c f then
      (if direct then fdata.getD (rankIn c i) zero else spline fc fdata f)
    else if below c f then
      pchip (lo :: fc) (anchor (fdata.headD zero) :: fdata) f
    else zero

end
end Fou

namespace Fou
/-! ## the coarse-frequency options are mutually exclusive -/

/-- `(input_freq set?, every_x_freq set?)` and the operations that touch them -/
inductive CoarseOp where
  | init (inp ev : Bool)        -- constructor arguments given?
  | setInput (some : Bool)      -- `fourier.input_freq = …` (None or a value)
  | setEvery (some : Bool)      -- `fourier.every_x_freq = …`
deriving DecidableEq, Repr

/-- `_check_coarse_inputs(keep_inp_freq)` -/
def checkCoarse (keepInp : Bool) (s : Bool × Bool) : Bool × Bool :=
  if s.1 && s.2 then (if keepInp then (true, false) else (false, true)) else s

def coarseStep (s : Bool × Bool) : CoarseOp → Bool × Bool
  | .init i e => checkCoarse true (i, e)
  | .setInput b => checkCoarse true (b, s.2)
  | .setEvery b => checkCoarse false (s.1, b)

end Fou
