import Emg3dVerif.Model.Hier
import Emg3dVerif.Model.Smooth
import Emg3dVerif.Model.Restrict
/-
Model of one complete call of `emg3d.solver.multigrid`: the event trace of the cycling model
(`MGH.mgTrace`, tied to the code by the trace correspondence of C05) interpreted with the
operator models of C02 (`amat`, residual), C03 (`smoothing` kernels) and C04 (`restrict`,
`restrictParam`, `coarseGrid`, `prolong`).  The interpreter keeps the stack of levels the
recursion of `multigrid` keeps on the Python call stack.

Executable (driver op `mgrun`, exact Gaussian rationals) and the object of
`Props/Cycle.lean`.  No Mathlib.
-/
namespace Emg
open MGH

variable {K : Type} [Add K] [Sub K] [Mul K] [Div K] [Neg K] [OfNat K 0] [OfNat K 1] [OfNat K 2]
  [OfNat K 4] [DecidableEq K]

/-- what one level of the recursion holds: grid, volume-averaged model, source, field -/
structure Lvl (K : Type) where
  g : Grid K
  m : VM K
  s : EF K
  e : EF K

def EF.minus (a b : EF K) : EF K :=
  ⟨fun i j k => a.x i j k - b.x i j k, fun i j k => a.y i j k - b.y i j k,
   fun i j k => a.z i j k - b.z i j k⟩

/-- `solver.residual`: a copy of the source from which `core.amat_x` subtracts `A e` -/
def residual (g : Grid K) (m : VM K) (s e : EF K) : EF K := matEF g (s.minus (amat g m e))

/-- tabulate cell quantities (extensionally the identity) -/
def matVM (g : Grid K) (m : VM K) : VM K :=
  { etaX := (mat3 g.nx g.ny g.nz m.etaX).f, etaY := (mat3 g.nx g.ny g.nz m.etaY).f
    etaZ := (mat3 g.nx g.ny g.nz m.etaZ).f, zeta := (mat3 g.nx g.ny g.nz m.zeta).f }

/-- the coarse model of `solver.restriction`: every coefficient summed over the children -/
def coarseVM (csc : Nat) (g : Grid K) (m : VM K) : VM K :=
  matVM (coarseGrid csc g)
    { etaX := restrictParam csc g m.etaX, etaY := restrictParam csc g m.etaY
      etaZ := restrictParam csc g m.etaZ, zeta := restrictParam csc g m.zeta }

/-- `solver.smoothing` for an already adapted line-relaxation code (as carried by the trace) -/
def smoothingC (g : Grid K) (m : VM K) (s e : EF K) (nu clr : Nat) : EF K × Bool :=
  relaxAll g m s (e, true) ((kernelsOf clr).flatMap fun kernel => kernelBlocks kernel g.nx g.ny g.nz nu)

/-- the level a restriction creates: coarse grid, coarse model, restricted residual as source,
zero field -/
def coarseLvl (csc : Nat) (l : Lvl K) : Lvl K :=
  let cg := coarseGrid csc l.g
  { g := cg, m := coarseVM csc l.g l.m
    s := matEF cg (restrict csc l.g (residual l.g l.m l.s l.e)), e := zeroEF }

/-- one event of the trace, on the stack of levels (head = current level); the flag records
whether every block system met so far could be solved -/
def step : List (Lvl K) × Bool → Ev → List (Lvl K) × Bool
  | (l :: ls, ok), .smooth _ _ nu clr =>
      let r := smoothingC l.g l.m l.s l.e nu clr
      ({ l with e := r.1 } :: ls, ok && r.2)
  | (l :: ls, ok), .restrict _ _ csc _ => (coarseLvl csc l :: l :: ls, ok)
  | (c :: l :: ls, ok), .prolong _ _ csc =>
      ({ l with e := matEF l.g (prolong csc l.g l.e c.e) } :: ls, ok)
  | st, _ => st

def runTrace (st : List (Lvl K) × Bool) (evs : List Ev) : List (Lvl K) × Bool := evs.foldl step st

/-- a complete `multigrid` call (`r.ncyc` fine-grid cycles) on level `l` -/
def mgRun (r : Run) (l : Lvl K) : List (Lvl K) × Bool := runTrace ([l], true) (mgTrace r)

end Emg
