import Emg3dVerif.Model.Mat
/-
Model of `emg3d.core.solve`: pivot-free L D Lᵀ factorisation of a complex-symmetric matrix given
by its lower part, forward substitution, diagonal scaling, back substitution — written as the
recurrences of the function's docstring (un-banded: on a matrix that vanishes outside the band
they compute the same numbers as the banded loops, which the exact correspondence confirms).
Tables are materialised level by level (`mat1`/`mat2`, extensionally the identity).  No Mathlib.
-/
namespace Emg.LdltM
variable {K : Type} [Add K] [Sub K] [Mul K] [Div K] [OfNat K 0]

def sumTo : Nat → (Nat → K) → K
  | 0, _ => 0
  | n+1, f => sumTo n f + f n

/-- one more column of the factor: entry `(i,k)` is `D k` if `i = k`, `L i k` if `i > k` -/
def ldStep (a : Nat → Nat → K) (T : Nat → Nat → K) (m : Nat) : Nat → Nat → K := fun i k =>
  if k < m then T i k
  else if k = m ∧ m ≤ i then
    let d := a m m - sumTo m (fun p => T m p * T m p * T p p)
    if i = m then d
    else (a i m - sumTo m (fun p => T i p * T m p * T p p)) / d
  else 0

def ldTab (a : Nat → Nat → K) (n : Nat) : Nat → Mat2 K
  | 0 => ⟨#[], fun _ _ => 0⟩
  | m+1 => mat2 n n (ldStep a (ldTab a n m).f m)

/-- forward substitution `L y = b` -/
def fwStep (L : Nat → Nat → K) (b : Nat → K) (Y : Nat → K) (m : Nat) : Nat → K := fun i =>
  if i < m then Y i else b m - sumTo m (fun p => L m p * Y p)

def fwTab (L : Nat → Nat → K) (b : Nat → K) (n : Nat) : Nat → Mat1 K
  | 0 => ⟨#[], fun _ => 0⟩
  | m+1 => mat1 n (fwStep L b (fwTab L b n m).f m)

/-- back substitution `Lᵀ x = z`; after `m` steps the entries `i ≥ n − m` are final -/
def bkStep (L : Nat → Nat → K) (z : Nat → K) (n : Nat) (X : Nat → K) (m : Nat) : Nat → K := fun i =>
  let r := n - (m+1)
  if r < i then X i else z r - sumTo (n - (r+1)) (fun t => L (r+1+t) r * X (r+1+t))

def bkTab (L : Nat → Nat → K) (z : Nat → K) (n : Nat) : Nat → Mat1 K
  | 0 => ⟨#[], fun _ => 0⟩
  | m+1 => mat1 n (bkStep L z n (bkTab L z n m).f m)

/-- the solver: `a i j` (`j ≤ i`) is the lower part of the matrix -/
def solve (a : Nat → Nat → K) (b : Nat → K) (n : Nat) : Nat → K :=
  let T := (ldTab a n n).f
  let y := (fwTab T b n n).f
  let z := (mat1 n fun i => y i / T i i).f
  (bkTab T z n n).f

/-- pivots `D 0 … D (n−1)` -/
def pivots (a : Nat → Nat → K) (n : Nat) : List K :=
  let T := (ldTab a n n).f
  (List.range n).map fun j => T j j

/-- lower part from the banded storage of `core.solve`: `A(i,j) → amat[i+5j]`, `j ≤ i ≤ j+5` -/
def ofBanded (amat : Array K) (i j : Nat) : K :=
  if j ≤ i ∧ i ≤ j + 5 then amat.getD (i + 5*j) 0 else 0

/-- full symmetric matrix from its lower part -/
def full (a : Nat → Nat → K) (i j : Nat) : K := if j ≤ i then a i j else a j i

end Emg.LdltM
