/-
Model of `emg3d.core.amat_x` (the matrix-free system operator) and of the coefficient
formulas of `emg3d.models.VolumeModel`, and the specification they are compared with: the
finite-integration operator  curlᵀ M_face(V/μ_r) curl + s μ₀ M_edge(V(σ + s ε)).
No Mathlib; generic over the scalar (instantiated with a `Field` in proofs, with exact
Gaussian rationals `QI` in the driver).
-/
namespace Emg

abbrev F3 (K : Type) := Nat → Nat → Nat → K

structure Grid (K : Type) where
  nx : Nat
  ny : Nat
  nz : Nat
  hx : Nat → K
  hy : Nat → K
  hz : Nat → K

/-- volume-averaged coefficients `eta_x, eta_y, eta_z, zeta` (cell quantities) -/
structure VM (K : Type) where
  etaX : F3 K
  etaY : F3 K
  etaZ : F3 K
  zeta : F3 K

/-- an edge field: x-edges `(i<nx, j≤ny, k≤nz)`, y-edges, z-edges -/
structure EF (K : Type) where
  x : F3 K
  y : F3 K
  z : F3 K

variable {K : Type} [Add K] [Sub K] [Mul K] [Div K] [Neg K] [OfNat K 0] [OfNat K 2] [OfNat K 4]

/-! ### the kernel as coded -/
section coded
variable (g : Grid K) (m : VM K) (e : EF K)

-- 1. curl (names as in the code; `ixm = max 0 (ix-1)` is truncated subtraction)
def v1pp (ix iy iz : Nat) : K := (e.z ix (iy+1) iz - e.z ix iy iz)/g.hy iy - (e.y ix iy (iz+1) - e.y ix iy iz)/g.hz iz
def v1mp (ix iy iz : Nat) : K := (e.z ix iy iz - e.z ix (iy-1) iz)/g.hy (iy-1) - (e.y ix (iy-1) (iz+1) - e.y ix (iy-1) iz)/g.hz iz
def v1pm (ix iy iz : Nat) : K := (e.z ix (iy+1) (iz-1) - e.z ix iy (iz-1))/g.hy iy - (e.y ix iy iz - e.y ix iy (iz-1))/g.hz (iz-1)
def v2pp (ix iy iz : Nat) : K := (e.x ix iy (iz+1) - e.x ix iy iz)/g.hz iz - (e.z (ix+1) iy iz - e.z ix iy iz)/g.hx ix
def v2mp (ix iy iz : Nat) : K := (e.x (ix-1) iy (iz+1) - e.x (ix-1) iy iz)/g.hz iz - (e.z ix iy iz - e.z (ix-1) iy iz)/g.hx (ix-1)
def v2pm (ix iy iz : Nat) : K := (e.x ix iy iz - e.x ix iy (iz-1))/g.hz (iz-1) - (e.z (ix+1) iy (iz-1) - e.z ix iy (iz-1))/g.hx ix
def v3pp (ix iy iz : Nat) : K := (e.y (ix+1) iy iz - e.y ix iy iz)/g.hx ix - (e.x ix (iy+1) iz - e.x ix iy iz)/g.hy iy
def v3mp (ix iy iz : Nat) : K := (e.y ix iy iz - e.y (ix-1) iy iz)/g.hx (ix-1) - (e.x (ix-1) (iy+1) iz - e.x (ix-1) iy iz)/g.hy iy
def v3pm (ix iy iz : Nat) : K := (e.y (ix+1) (iy-1) iz - e.y ix (iy-1) iz)/g.hx ix - (e.x ix iy iz - e.x ix (iy-1) iz)/g.hy (iy-1)

-- 2. times (twice) the face average of zeta
def u1pp (ix iy iz : Nat) : K := v1pp g e ix iy iz * (m.zeta (ix-1) iy iz + m.zeta ix iy iz)
def u1mp (ix iy iz : Nat) : K := v1mp g e ix iy iz * (m.zeta (ix-1) (iy-1) iz + m.zeta ix (iy-1) iz)
def u1pm (ix iy iz : Nat) : K := v1pm g e ix iy iz * (m.zeta (ix-1) iy (iz-1) + m.zeta ix iy (iz-1))
def u2pp (ix iy iz : Nat) : K := v2pp g e ix iy iz * (m.zeta ix (iy-1) iz + m.zeta ix iy iz)
def u2mp (ix iy iz : Nat) : K := v2mp g e ix iy iz * (m.zeta (ix-1) (iy-1) iz + m.zeta (ix-1) iy iz)
def u2pm (ix iy iz : Nat) : K := v2pm g e ix iy iz * (m.zeta ix (iy-1) (iz-1) + m.zeta ix iy (iz-1))
def u3pp (ix iy iz : Nat) : K := v3pp g e ix iy iz * (m.zeta ix iy (iz-1) + m.zeta ix iy iz)
def u3mp (ix iy iz : Nat) : K := v3mp g e ix iy iz * (m.zeta (ix-1) iy (iz-1) + m.zeta (ix-1) iy iz)
def u3pm (ix iy iz : Nat) : K := v3pm g e ix iy iz * (m.zeta ix (iy-1) (iz-1) + m.zeta ix (iy-1) iz)

-- 3. second curl, with the PEC mask
def rrx (ix iy iz : Nat) : K :=
  if iy == 0 || iz == 0 then 0
  else u3pp g m e ix iy iz/g.hy iy - u3pm g m e ix iy iz/g.hy (iy-1) - u2pp g m e ix iy iz/g.hz iz + u2pm g m e ix iy iz/g.hz (iz-1)
def rry (ix iy iz : Nat) : K :=
  if ix == 0 || iz == 0 then 0
  else u1pp g m e ix iy iz/g.hz iz - u1pm g m e ix iy iz/g.hz (iz-1) - u3pp g m e ix iy iz/g.hx ix + u3mp g m e ix iy iz/g.hx (ix-1)
def rrz (ix iy iz : Nat) : K :=
  if ix == 0 || iy == 0 then 0
  else u2pp g m e ix iy iz/g.hx ix - u2mp g m e ix iy iz/g.hx (ix-1) - u1pp g m e ix iy iz/g.hy iy + u1mp g m e ix iy iz/g.hy (iy-1)

-- 4. (four times) the edge average of eta
def stx (ix iy iz : Nat) : K := m.etaX ix (iy-1) (iz-1) + m.etaX ix (iy-1) iz + m.etaX ix iy (iz-1) + m.etaX ix iy iz
def sty (ix iy iz : Nat) : K := m.etaY (ix-1) iy (iz-1) + m.etaY ix iy (iz-1) + m.etaY (ix-1) iy iz + m.etaY ix iy iz
def stz (ix iy iz : Nat) : K := m.etaZ (ix-1) (iy-1) iz + m.etaZ ix (iy-1) iz + m.etaZ (ix-1) iy iz + m.etaZ ix iy iz

/-- `A e`, as the kernel subtracts it from `r`: entries outside the loop range
`ix < nx, iy < ny, iz < nz` are never touched (value 0 here). -/
def amat : EF K :=
  { x := fun ix iy iz => if ix < g.nx && iy < g.ny && iz < g.nz then
            rrx g m e ix iy iz / 2 - stx m ix iy iz * e.x ix iy iz / 4 else 0
    y := fun ix iy iz => if ix < g.nx && iy < g.ny && iz < g.nz then
            rry g m e ix iy iz / 2 - sty m ix iy iz * e.y ix iy iz / 4 else 0
    z := fun ix iy iz => if ix < g.nx && iy < g.ny && iz < g.nz then
            rrz g m e ix iy iz / 2 - stz m ix iy iz * e.z ix iy iz / 4 else 0 }

end coded

/-! ### specification: finite-integration operator -/
section spec
variable (g : Grid K) (m : VM K) (e : EF K)

/-- discrete curl: circulation around a face divided by its area.
x-faces `(i ≤ nx, j < ny, k < nz)` etc. -/
def curlX (i j k : Nat) : K := (e.z i (j+1) k - e.z i j k)/g.hy j - (e.y i j (k+1) - e.y i j k)/g.hz k
def curlY (i j k : Nat) : K := (e.x i j (k+1) - e.x i j k)/g.hz k - (e.z (i+1) j k - e.z i j k)/g.hx i
def curlZ (i j k : Nat) : K := (e.y (i+1) j k - e.y i j k)/g.hx i - (e.x i (j+1) k - e.x i j k)/g.hy j

/-- face mass `M_face(V/μ_r)`: average of the two cells sharing the face -/
def mfX (i j k : Nat) : K := (m.zeta (i-1) j k + m.zeta i j k) / 2
def mfY (i j k : Nat) : K := (m.zeta i (j-1) k + m.zeta i j k) / 2
def mfZ (i j k : Nat) : K := (m.zeta i j (k-1) + m.zeta i j k) / 2

/-- flux `M_face curl e` -/
def fluxX (i j k : Nat) : K := mfX m i j k * curlX g e i j k
def fluxY (i j k : Nat) : K := mfY m i j k * curlY g e i j k
def fluxZ (i j k : Nat) : K := mfZ m i j k * curlZ g e i j k

/-- edge mass `M_edge`: average of the four cells sharing the edge (direction-dependent η) -/
def meX (i j k : Nat) : K := (m.etaX i (j-1) (k-1) + m.etaX i (j-1) k + m.etaX i j (k-1) + m.etaX i j k) / 4
def meY (i j k : Nat) : K := (m.etaY (i-1) j (k-1) + m.etaY i j (k-1) + m.etaY (i-1) j k + m.etaY i j k) / 4
def meZ (i j k : Nat) : K := (m.etaZ (i-1) (j-1) k + m.etaZ i (j-1) k + m.etaZ (i-1) j k + m.etaZ i j k) / 4

/-- `curlᵀ` applied to a face field `(wx, wy, wz)`: the four faces around an interior edge -/
def curlTX (wy wz : F3 K) (i j k : Nat) : K := wz i j k/g.hy j - wz i (j-1) k/g.hy (j-1) - wy i j k/g.hz k + wy i j (k-1)/g.hz (k-1)
def curlTY (wx wz : F3 K) (i j k : Nat) : K := wx i j k/g.hz k - wx i j (k-1)/g.hz (k-1) - wz i j k/g.hx i + wz (i-1) j k/g.hx (i-1)
def curlTZ (wx wy : F3 K) (i j k : Nat) : K := wy i j k/g.hx i - wy (i-1) j k/g.hx (i-1) - wx i j k/g.hy j + wx i (j-1) k/g.hy (j-1)

/-- the assembled operator on interior edges: `curlᵀ M_face curl e − M_edge(η) e`
(with `η = −s μ₀ V (σ + s ε)` this is `curlᵀ M_f curl + s μ₀ M_e(V(σ + s ε))`). -/
def fitX (i j k : Nat) : K := curlTX g (fluxY g m e) (fluxZ g m e) i j k - meX m i j k * e.x i j k
def fitY (i j k : Nat) : K := curlTY g (fluxX g m e) (fluxZ g m e) i j k - meY m i j k * e.y i j k
def fitZ (i j k : Nat) : K := curlTZ g (fluxX g m e) (fluxY g m e) i j k - meZ m i j k * e.z i j k

/-- discrete gradient of a node field -/
def grad (phi : F3 K) : EF K :=
  { x := fun i j k => (phi (i+1) j k - phi i j k)/g.hx i
    y := fun i j k => (phi i (j+1) k - phi i j k)/g.hy j
    z := fun i j k => (phi i j (k+1) - phi i j k)/g.hz k }

end spec

/-! ### VolumeModel coefficients -/

/-- `eta = -s μ₀ V (σ + s ε₀ ε_r)` written as the code does: `-iomega mu_0 (sigma + iomega eps_0 eps_r) vol` -/
def etaCoef (smu0 seps0 sigma epsr vol : K) : K := -smu0 * (sigma + seps0 * epsr) * vol
/-- `zeta = V / μ_r` -/
def zetaCoef (vol mur : K) : K := vol / mur

end Emg
