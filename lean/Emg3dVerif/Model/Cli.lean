/-
Model of `emg3d.cli.parser.parse_config_file` (structure: which key of which section is accepted,
with which parser type, where it ends up; terminal arguments before configuration before
defaults; file-name completion; errors for unknown keys), the documented option list of
`docs/manual/cli.rst`, and the keyword tables of the Python API the options are handed to.
Values stay raw strings tagged with their parser type (the typed conversion is compared by the
harness).  Core Lean only.
-/
namespace Cli

inductive Ty where
  | bool | int | float | str | listFloat | listOfLists | listStr
deriving DecidableEq, Repr

def Ty.name : Ty → String
  | .bool => "bool" | .int => "int" | .float => "float" | .str => "str"
  | .listFloat => "listfloat" | .listOfLists => "listoflists" | .listStr => "liststr"

/-- keys the parser accepts per section, with the parser type -/
def accepted : String → List (String × Ty)
  | "files" => [("path", .str), ("survey", .str), ("model", .str), ("output", .str),
      ("save", .str), ("load", .str), ("cache", .str)]
  | "simulation" => [("max_workers", .int), ("layered", .bool), ("gridding", .str),
      ("name", .str), ("file_dir", .str), ("receiver_interpolation", .str),
      ("min_offset", .float), ("mean_noise", .float), ("max_offset", .float), ("ntype", .str)]
  | "noise_opts" => [("min_offset", .float), ("max_offset", .float), ("mean_noise", .float),
      ("ntype", .str), ("add_noise", .bool)]
  | "layered" => [("method", .str), ("merge", .bool), ("radius", .float), ("minor", .float),
      ("factor", .float), ("check_foci", .bool)]
  | "solver_opts" => [("sslsolver", .bool), ("semicoarsening", .bool), ("linerelaxation", .bool),
      ("plain", .bool), ("cycle", .str), ("tol", .float), ("tol_gradient", .float),
      ("verb", .int), ("maxit", .int), ("nu_init", .int), ("nu_pre", .int), ("nu_coarse", .int),
      ("nu_post", .int), ("clevel", .int)]
  | "data" => [("sources", .listStr), ("receivers", .listStr), ("frequencies", .listStr),
      ("remove_empty", .bool)]
  | "gridding_opts" => [("properties", .listFloat), ("center", .listFloat),
      ("cell_number", .listFloat), ("min_width_pps", .listFloat), ("expand", .listFloat),
      ("domain", .listOfLists), ("distance", .listOfLists), ("stretching", .listOfLists),
      ("min_width_limits", .listOfLists), ("center_on_edge", .listOfLists),
      ("mapping", .str), ("vector", .str), ("frequency", .float), ("seasurface", .float),
      ("max_buffer", .float), ("lambda_factor", .float), ("verb", .int),
      ("lambda_from_center", .bool)]
  | _ => []

/-- sections in the order in which the parser checks them -/
def sections : List String :=
  ["files", "simulation", "noise_opts", "layered", "solver_opts", "data", "gridding_opts"]

/-- the options listed in `docs/manual/cli.rst` (re-extracted from the file on every run and
compared with this table by the harness) -/
def documented : List (String × String) :=
  [("files", "path"), ("files", "survey"), ("files", "model"), ("files", "output"),
   ("files", "save"), ("files", "load"), ("files", "cache"),
   ("simulation", "max_workers"), ("simulation", "gridding"), ("simulation", "name"),
   ("simulation", "file_dir"), ("simulation", "receiver_interpolation"), ("simulation", "layered"),
   ("solver_opts", "sslsolver"), ("solver_opts", "semicoarsening"),
   ("solver_opts", "linerelaxation"), ("solver_opts", "cycle"), ("solver_opts", "tol"),
   ("solver_opts", "tol_gradient"), ("solver_opts", "verb"), ("solver_opts", "maxit"),
   ("solver_opts", "nu_init"), ("solver_opts", "nu_pre"), ("solver_opts", "nu_coarse"),
   ("solver_opts", "nu_post"), ("solver_opts", "clevel"), ("solver_opts", "plain"),
   ("gridding_opts", "properties"), ("gridding_opts", "center"), ("gridding_opts", "cell_number"),
   ("gridding_opts", "min_width_pps"), ("gridding_opts", "domain"), ("gridding_opts", "distance"),
   ("gridding_opts", "stretching"), ("gridding_opts", "min_width_limits"),
   ("gridding_opts", "mapping"), ("gridding_opts", "vector"), ("gridding_opts", "frequency"),
   ("gridding_opts", "seasurface"), ("gridding_opts", "max_buffer"),
   ("gridding_opts", "lambda_factor"), ("gridding_opts", "verb"),
   ("gridding_opts", "lambda_from_center"),
   ("noise_opts", "add_noise"), ("noise_opts", "min_offset"), ("noise_opts", "max_offset"),
   ("noise_opts", "mean_noise"), ("noise_opts", "ntype"),
   ("data", "sources"), ("data", "receivers"), ("data", "frequencies"), ("data", "remove_empty"),
   ("layered", "method"), ("layered", "radius"), ("layered", "factor"), ("layered", "minor"),
   ("layered", "merge"), ("layered", "check_foci")]

/-- where a key ends up: the API callable and the keyword it is passed as -/
def destination : String → String → Option (String × String)
  | "files", _ => none                                   -- consumed by the CLI itself
  | "simulation", k =>
    if k ∈ ["min_offset", "mean_noise", "max_offset", "ntype"] then some ("add_noise", k)
    else some ("Simulation", k)
  | "noise_opts", k => if k = "add_noise" then some ("compute", k) else some ("add_noise", k)
  | "layered", k =>
    if k ∈ ["radius", "minor", "factor", "check_foci"] then some ("ellipse_indices", k)
    else some ("layered_opts", k)
  | "solver_opts", k => if k = "tol_gradient" then some ("Simulation", k) else some ("solve", k)
  | "data", k => some ("select", k)
  | "gridding_opts", k =>
    if k = "cell_number" then some ("gridding_opts", "cell_numbers")   -- renamed by `run`
    else if k = "expand" then some ("expand_grid_model", k)
    else some ("gridding_opts", k)
  | _, _ => none

/-- keyword tables of the API (re-extracted with `inspect` / from the sources on every run and
compared with these by the harness) -/
def apiKeywords : String → List String
  | "Simulation" => ["survey", "model", "max_workers", "gridding", "solver_opts", "verb", "name",
      "info", "gridding_opts", "receiver_interpolation", "file_dir", "tqdm_opts", "layered",
      "layered_opts", "tol_gradient"]
  | "solve" => ["sslsolver", "semicoarsening", "linerelaxation", "cycle", "tol", "verb", "maxit",
      "nu_init", "nu_pre", "nu_coarse", "nu_post", "clevel", "return_info", "log", "plain"]
  | "gridding_opts" => ["frequency", "properties", "center", "domain", "vector", "seasurface",
      "distance", "stretching", "min_width_limits", "min_width_pps", "lambda_factor",
      "max_buffer", "lambda_from_center", "mapping", "cell_numbers", "center_on_edge", "verb",
      "expand"]
  | "add_noise" => ["min_offset", "max_offset", "mean_noise", "ntype"]
  | "compute" => ["observed", "add_noise"]
  | "select" => ["sources", "receivers", "frequencies", "remove_empty"]
  | "layered_opts" => ["method", "ellipse", "merge"]
  | "ellipse_indices" => ["radius", "factor", "minor", "check_foci"]
  | "expand_grid_model" => ["expand"]
  | _ => []

/-! ## the parser -/

structure Input where
  term : List (String × String)             -- terminal arguments that were given (not None)
  flags : List String                       -- store_true flags that are set
  verbosity : Int
  cfg : List (String × String × String)     -- (section, key, value) in file order
  cwd : String
deriving Repr

def lookupT (i : Input) (k : String) : Option String := (i.term.find? (·.1 = k)).map (·.2)
def lookupC (i : Input) (s k : String) : Option String :=
  (i.cfg.find? (fun e => e.1 = s ∧ e.2.1 = k)).map (·.2.2)
def hasSection (i : Input) (s : String) : Bool := i.cfg.any (·.1 = s)

/-- first key of section `s` that the parser does not know -/
def unknownIn (i : Input) (s : String) : List String :=
  (i.cfg.filter (fun e => e.1 = s ∧ ¬ ((accepted s).any (·.1 = e.2.1)))).map (·.2.1)

/-- sections of the file the parser does not know -/
def unknownSections (i : Input) : List String :=
  ((i.cfg.map (·.1)).filter (fun s => s ∉ sections)).eraseDups

/-- terminal before configuration before default -/
def resolve (t c : Option String) (d : String) : String := t.getD (c.getD d)

/-- last path component / suffix handling of `pathlib` for simple names -/
def lastDot (s : List Char) : Option Nat :=
  let comp := (s.reverse.takeWhile (· ≠ '/')).reverse
  let off := s.length - comp.length
  match (List.range comp.length).reverse.find? (fun j => comp.getD j ' ' = '.') with
  | some j => if j = 0 then none else some (off + j)
  | none => none

def suffixOf (s : String) : String :=
  match lastDot s.toList with
  | some j => String.ofList (s.toList.drop j)
  | none => ""

def withSuffix (s suf : String) : String :=
  match lastDot s.toList with
  | some j => String.ofList (s.toList.take j) ++ suf
  | none => s ++ suf

def joinPath (dir name : String) : String :=
  if name.startsWith "/" then name
  else if dir.endsWith "/" then dir ++ name else dir ++ "/" ++ name

/-- complete a file name: join with the path, default suffix `.h5` -/
def complete (path name : String) : String :=
  let f := joinPath path name
  if suffixOf f ∈ [".h5", ".json", ".npz"] then f else withSuffix f ".h5"

structure Out where
  entries : List (String × String)          -- "where.key" ↦ "type:raw value"
deriving Repr

inductive Res where
  | ok (o : Out)
  | unexpected (sec : String) (keys : List String)
  | unknownSection (secs : List String)
deriving Repr

def function (i : Input) : String :=
  -- the loop keeps the last of forward / misfit / gradient that is set
  if "gradient" ∈ i.flags then "gradient"
  else if "misfit" ∈ i.flags then "misfit"
  else "forward"

def typed (s k raw : String) : String :=
  match (accepted s).find? (·.1 = k) with
  | some (_, t) => t.name ++ ":" ++ raw
  | none => "?:" ++ raw

/-- entries `prefix.key` for those keys of section `s` (from `keys`) that are set -/
def pick (i : Input) (s pre : String) (keys : List String) : List (String × String) :=
  keys.filterMap fun k => (lookupC i s k).map fun v => (pre ++ k, typed s k v)

/-- the first reason to reject the configuration: an unknown key (sections in the order in which
the parser treats them), then an unknown section -/
def problem (i : Input) : Option Res :=
  match sections.find? (fun s => unknownIn i s ≠ []) with
  | some s => some (.unexpected s (unknownIn i s))
  | none =>
    if unknownSections i ≠ [] then some (.unknownSection (unknownSections i)) else none

def absPath (i : Input) : String :=
  let path := resolve (lookupT i "path") (lookupC i "files" "path") "."
  if path = "." then i.cwd else path

/-- completed name of one of the files (`"False"` = not used) -/
def fileName (i : Input) (k d : String) : String :=
  let name := resolve (lookupT i k) (lookupC i "files" k) d
  if name = "" then (if d = "" then "False" else d) else complete (absPath i) name

def filesOut (i : Input) : List (String × String) :=
  let cache := fileName i "cache" ""
  let save := if cache ≠ "False" then cache else fileName i "save" ""
  let load := if cache ≠ "False" then cache else fileName i "load" ""
  let output := fileName i "output" "emg3d_out"
  [("files.survey", fileName i "survey" "survey"), ("files.model", fileName i "model" "model"),
   ("files.output", output), ("files.save", save), ("files.load", load),
   ("files.log", withSuffix output ".log")]

def simOut (i : Input) : List (String × String) :=
  (match lookupT i "nproc" with
   | some n => [("simulation_options.max_workers", "nproc:" ++ n)]
   | none => pick i "simulation" "simulation_options." ["max_workers"]) ++
  (if "layered" ∈ i.flags then [("simulation_options.layered", "bool:True")]
   else pick i "simulation" "simulation_options." ["layered"]) ++
  pick i "simulation" "simulation_options." ["gridding"] ++
  [("simulation_options.name",
    "str:" ++ (lookupC i "simulation" "name").getD "emg3d CLI run")] ++
  pick i "simulation" "simulation_options." ["file_dir"] ++
  (match lookupC i "simulation" "receiver_interpolation" with
   | some v => [("simulation_options.receiver_interpolation", "str:" ++ v)]
   | none => if function i = "gradient"
             then [("simulation_options.receiver_interpolation", "str:linear")] else [])

/-- noise options: `[simulation]` (deprecated) overridden by `[noise_opts]` -/
def noiseOut (i : Input) : List (String × String) :=
  ["min_offset", "max_offset", "mean_noise", "ntype", "add_noise"].filterMap fun k =>
    match lookupC i "noise_opts" k with
    | some v => some ("noise_kwargs." ++ k, typed "noise_opts" k v)
    | none => if k = "add_noise" then none
              else (lookupC i "simulation" k).map fun v =>
                ("noise_kwargs." ++ k, typed "simulation" k v)

def dataOut (i : Input) : List (String × String) :=
  (["sources", "receivers", "frequencies"].filterMap fun k =>
    match lookupC i "data" k with
    | some v => if v = "" then none else some ("data." ++ k, "liststr:" ++ v)
    | none => none) ++ pick i "data" "data." ["remove_empty"]

def termOut (i : Input) : List (String × String) :=
  let v := if i.verbosity < -1 then (-1 : Int) else if i.verbosity > 2 then 2 else i.verbosity
  [("term.function", function i), ("term.verbosity", toString v),
   ("term.dry_run", if "dry_run" ∈ i.flags then "True" else "False"),
   ("term.clean", if "clean" ∈ i.flags then "True" else "False")]

def build (i : Input) : Out :=
  ⟨filesOut i ++ simOut i ++ noiseOut i ++
   pick i "layered" "simulation_options.layered_opts." ["method", "merge"] ++
   pick i "layered" "simulation_options.layered_opts.ellipse."
     ["radius", "minor", "factor", "check_foci"] ++
   pick i "solver_opts" "simulation_options.solver_opts." ((accepted "solver_opts").map (·.1)) ++
   dataOut i ++
   pick i "gridding_opts" "simulation_options.gridding_opts."
     ((accepted "gridding_opts").map (·.1)) ++
   termOut i⟩

def parse (i : Input) : Res :=
  match problem i with
  | some r => r
  | none => .ok (build i)

/-- does the accepted key reach a keyword of the API? -/
def reachesApi (s k : String) : Bool :=
  match destination s k with
  | some (api, kw) => (apiKeywords api).contains kw
  | none => s == "files"

end Cli
