/-
Model of the tree functions of `emg3d.io`: `_dict_serialize`, `_dict_deserialize`,
`_nonetype_to_none`, `_dict_flatten`, `_dict_unflatten` (keys joined / split at '>'),
`_dict_dearray_decomp`, `_dict_array_comp` (key flags `__complex`, `__array-<dtype>` kept
structured), and `save` / `load` / `convert` for the three formats with the back ends
(h5py, np.savez / np.load, json) as identities on what they are given.

Dictionaries are *ordered* association lists (emg3d relies on the key order of the
`sources` / `receivers` / `frequencies` dictionaries).  Core Lean only.
-/
namespace IoT

abbrev Key := List Char

/-- leaves after canonicalisation by the harness -/
inductive Leaf where
  | none                               -- Python `None`
  | str (s : String)
  | bool (b : Bool)
  | num (kind : String) (v : String)   -- real / int / complex scalar (canonical text)
  | arr (dtype : String) (v : String)  -- array: dtype name, shape + digest of the bytes
deriving DecidableEq, Repr

mutual
/-- a value: a leaf, a dictionary, or an instance of a registered class (given by the
dictionary its `to_dict()` returns, which contains the key `__class__`) -/
inductive Tree where
  | leaf : Leaf → Tree
  | node : Forest → Tree
  | obj : Forest → Tree
inductive Forest where
  | nil : Forest
  | cons : Key → Tree → Forest → Forest
end

namespace Forest
def append : Forest → Forest → Forest
  | .nil, g => g
  | .cons k t r, g => .cons k t (append r g)
instance : Append Forest := ⟨append⟩

def keys : Forest → List Key
  | .nil => []
  | .cons k _ r => k :: keys r

def lookup (k : Key) : Forest → Option Tree
  | .nil => none
  | .cons k' t r => if k' = k then some t else lookup k r
end Forest

def classKey : Key := "__class__".toList
def noneType : String := "NoneType"

/-! ## serialisation -/
mutual
/-- `_dict_serialize`: objects become their `to_dict()` dictionary, `None` becomes 'NoneType' -/
def serT : Tree → Tree
  | .leaf .none => .leaf (.str noneType)
  | .leaf l => .leaf l
  | .node f => .node (serF f)
  | .obj f => .node (serF f)
def serF : Forest → Forest
  | .nil => .nil
  | .cons k t r => .cons k (serT t) (serF r)
end

mutual
/-- `_nonetype_to_none` -/
def nonT : Tree → Tree
  | .leaf (.str s) => if s = noneType then .leaf .none else .leaf (.str s)
  | .leaf l => .leaf l
  | .node f => .node (nonF f)
  | .obj f => .obj (nonF f)
def nonF : Forest → Forest
  | .nil => .nil
  | .cons k t r => .cons k (nonT t) (nonF r)
end

/-- registered class of a dictionary: the string under `__class__`, if it is a known class -/
def classOf (known : String → Bool) (f : Forest) : Option String :=
  match f.lookup classKey with
  | some (.leaf (.str c)) => if known c then some c else none
  | _ => none

mutual
/-- `_dict_deserialize`: a dictionary with a known `__class__` becomes the instance (`from_dict`,
which re-creates nested instances itself; the hypothesis that `from_dict` inverts `to_dict` is
checked per class by the harness), otherwise recursion.  An instance is represented by the
dictionary its `to_dict()` returns, nested instances included. -/
def desT (known : String → Bool) : Tree → Tree
  | .leaf l => .leaf l
  | .node f => if (classOf known f).isSome then .obj (desF known f) else .node (desF known f)
  | .obj f => .obj (desF known f)
def desF (known : String → Bool) : Forest → Forest
  | .nil => .nil
  | .cons k t r => .cons k (desT known t) (desF known r)
end

/-! ## flattening for `.npz` -/

def sep : Char := '>'

mutual
def flatT (pre : Key) : Tree → List (Key × Leaf)
  | .leaf l => [(pre, l)]
  | .node f => flatF (pre ++ [sep]) f
  | .obj f => flatF (pre ++ [sep]) f
/-- `_dict_flatten` (`pre` = key prefix including the trailing '>', empty at the top) -/
def flatF (pre : Key) : Forest → List (Key × Leaf)
  | .nil => []
  | .cons k t r => flatT (pre ++ k) t ++ flatF pre r
end

/-- `key.split('>')` -/
def splitSep : Key → List Key
  | [] => [[]]
  | c :: t =>
    if c = sep then [] :: splitSep t
    else match splitSep t with
      | [] => [[c]]
      | h :: r => (c :: h) :: r

/-- `tmp[k] = g(tmp.get(k))`, keeping the position of an existing key, appending a new one -/
def upd (k : Key) (g : Option Tree → Tree) : Forest → Forest
  | .nil => .cons k (g none) .nil
  | .cons k' t r => if k' = k then .cons k' (g (some t)) r else .cons k' t (upd k g r)

def subForest : Option Tree → Forest
  | some (.node g) => g
  | _ => .nil

/-- one iteration of the loop of `_dict_unflatten` -/
def insertPath : List Key → Leaf → Forest → Forest
  | [], _, f => f
  | [k], v, f => upd k (fun _ => .leaf v) f
  | k :: k2 :: rest, v, f => upd k (fun o => .node (insertPath (k2 :: rest) v (subForest o))) f

/-- `_dict_unflatten` -/
def unflatten (es : List (Key × Leaf)) : Forest :=
  es.foldl (fun acc e => insertPath (splitSep e.1) e.2 acc) .nil

/-! ## JSON: arrays to lists, complex to real pairs, key flags -/

/-- JSON-level leaf and the key flags `__complex`, `__array-<dtype>` -/
structure Flags where
  cplx : Bool
  arr : Option String
deriving DecidableEq, Repr

inductive JLeaf where
  | null
  | str (s : String)
  | bool (b : Bool)
  | num (v : String)
  | list (v : String)
deriving DecidableEq, Repr

mutual
inductive JTree where
  | leaf : Flags → JLeaf → JTree
  | node : JForest → JTree
inductive JForest where
  | nil : JForest
  | cons : Key → JTree → JForest → JForest
end

/-- leaf codec (`enc` in `_dict_dearray_decomp`, `dec` in `_dict_array_comp`) -/
structure Codec where
  enc : Leaf → Flags × JLeaf
  dec : Flags → JLeaf → Leaf

mutual
def dearrT (c : Codec) : Tree → JTree
  | .leaf l => .leaf (c.enc l).1 (c.enc l).2
  | .node f => .node (dearrF c f)
  | .obj f => .node (dearrF c f)
def dearrF (c : Codec) : Forest → JForest
  | .nil => .nil
  | .cons k t r => .cons k (dearrT c t) (dearrF c r)
end

mutual
def compT (c : Codec) : JTree → Tree
  | .leaf fl j => .leaf (c.dec fl j)
  | .node f => .node (compF c f)
def compF (c : Codec) : JForest → Forest
  | .nil => .nil
  | .cons k t r => .cons k (compT c t) (compF c r)
end

/-! ## save / load -/

inductive Fmt where
  | h5 | npz | json
deriving DecidableEq, Repr

/-- what ends up in the file (back ends are identities) -/
inductive File where
  | h5 (f : Forest)
  | npz (es : List (Key × Leaf))
  | json (f : JForest)

def save (c : Codec) (fmt : Fmt) (f : Forest) : File :=
  match fmt with
  | .h5 => .h5 (serF f)
  | .npz => .npz (flatF [] (serF f))
  | .json => .json (dearrF c (serF f))

def load (c : Codec) (known : String → Bool) (file : File) : Forest :=
  let raw := match file with
    | .h5 f => f
    | .npz es => unflatten es
    | .json f => compF c f
  desF known (nonF raw)

/-- `convert(ifname, ofname)` -/
def convert (c : Codec) (known : String → Bool) (file : File) (fmt : Fmt) : File :=
  save c fmt (load c known file)

end IoT
