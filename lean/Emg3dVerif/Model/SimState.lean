/-
Model of the caching logic of `emg3d.simulations.Simulation`: which stored quantity belongs to
which model, as a function of the history of public operations.  The numerics is abstract:
every computed quantity is tagged with the *version* of the model it was computed from (a
fresh simulation of model version `v` would report exactly the quantities tagged `v`).
Core Lean only.
-/
namespace SimM

/-- a value tagged with the model version(s) it was computed from -/
abbrev Ver := Nat

structure Sim where
  np : Nat                        -- number of source–frequency pairs
  ver : Ver                       -- version of the current model
  efield : List (Option Ver)      -- per pair: stored electric field
  syn : List (Option Ver)         -- per pair: stored synthetic data (none = NaN)
  computed : Bool                 -- `_computed`
  misfit : Option (List (Option Ver))         -- cached misfit: synthetic versions it used
  grad : Option (List (Option Ver) × List (Option Ver) × Option Nat)
      -- cached gradient: (field versions, synthetic versions of the residual, jtvec vector id)
  bfield : Bool                   -- back-propagated fields are stored
  residual : Option (List (Option Ver) × Option Nat)  -- data.residual: (syn versions, jtvec id)
  tolFwd : Bool                   -- solver_opts['tol'] currently holds the forward tolerance
deriving Repr, DecidableEq

inductive CleanWhat | computed | keepresults | all
deriving Repr, DecidableEq
inductive CopyWhat | computed | results | all | plain
deriving Repr, DecidableEq

inductive Op where
  | compute
  | misfit
  | gradient
  | jvec
  | jtvec (w : Nat)
  | getEfield (p : Nat)
  | getHfield (p : Nat)
  | clean (w : CleanWhat)
  | copy (w : CopyWhat)             -- copy / to_dict+from_dict / to_file+from_file
  | updateModel                     -- replace the model, then clean('computed')
deriving Repr, DecidableEq

/-- what an operation returns -/
inductive Ret where
  | none
  | misfit (syn : List (Option Ver))
  | gradient (ef syn : List (Option Ver)) (w : Option Nat)
  | jvec (ef : List (Option Ver))
  | field (v : Option Ver)
deriving Repr, DecidableEq

def fresh (np : Nat) (ver : Ver) : Sim :=
  { np := np, ver := ver, efield := List.replicate np none, syn := List.replicate np none,
    computed := false, misfit := none, grad := none, bfield := false, residual := none,
    tolFwd := true }

/-- compute the fields of all pairs that are not stored yet (a stored field is fed back to the
solver, which then has nothing to do); synthetic data are (re)written for all pairs -/
def doComputeAll (s : Sim) : Sim :=
  let ef := s.efield.map fun e => match e with | some v => some v | none => some s.ver
  { s with efield := ef, syn := ef, computed := true, tolFwd := true }

def doComputePair (s : Sim) (p : Nat) : Sim :=
  match s.efield.getD p none with
  | some _ => s
  | none => { s with efield := s.efield.set p (some s.ver), syn := s.syn.set p (some s.ver),
                     tolFwd := true }

def doMisfit (s : Sim) : Sim :=
  match s.misfit with
  | some _ => s
  | none =>
    let s1 := if s.computed then s else doComputeAll s
    { s1 with misfit := some s1.syn, residual := some (s1.syn, none) }

/-- `_ensure_efields`: fields cleaned away although results exist are recomputed -/
def ensureFields (s : Sim) : Sim := if s.efield.any (·.isNone) then doComputeAll s else s

def doGradient (s : Sim) : Sim :=
  match s.grad with
  | some _ => s
  | none =>
    let s1 := ensureFields (doMisfit s)
    let res : List (Option Ver) × Option Nat :=
      match s1.residual with | some r => r | none => (s1.syn, none)
    { s1 with grad := some (s1.efield, res.1, res.2), bfield := true, tolFwd := false }

def retMisfit (s : Sim) : Ret := match s.misfit with | some m => .misfit m | none => .none
def retGrad (s : Sim) : Ret :=
  match s.grad with | some g => .gradient g.1 g.2.1 g.2.2 | none => .none

def doClean (s : Sim) (w : CleanWhat) : Sim :=
  let s1 := { s with efield := List.replicate s.np none, bfield := false }
  match w with
  | .keepresults => s1
  | _ => { s1 with computed := false, syn := List.replicate s.np none, misfit := none,
                   grad := none, residual := none }

def step (s : Sim) (op : Op) : Sim × Ret :=
  match op with
  | .compute => (doComputeAll s, .none)
  | .misfit => let t := doMisfit s; (t, retMisfit t)
  | .gradient => let t := doGradient s; (t, retGrad t)
  | .jvec =>
    let t := ensureFields (doMisfit s)
    ({ t with tolFwd := false }, .jvec t.efield)
  | .jtvec w =>
    let t := doMisfit s
    let newRes : Option (List (Option Ver) × Option Nat) :=
      match t.residual with
      | some r => some (r.1, some w)
      | none => some (t.syn, some w)
    let t1 := { t with residual := newRes, grad := none, bfield := false }
    let t2 := doGradient t1
    ({ t2 with residual := t.residual, grad := none, bfield := false }, retGrad t2)
  | .getEfield p => let t := doComputePair s p; (t, .field (t.efield.getD p none))
  | .getHfield p => let t := doComputePair s p; (t, .field (t.efield.getD p none))
  | .clean w => (doClean s w, .none)
  | .copy w =>
    -- to_dict resets solver_opts['tol'] to the forward tolerance (on the original, too)
    let s0 := { s with tolFwd := true }
    match w with
    | .computed | .all => (s0, .none)
    | .results => ({ s0 with efield := List.replicate s.np none, bfield := false }, .none)
    | .plain => (fresh s.np s.ver, .none)
  | .updateModel =>
    ({ doClean s .computed with ver := s.ver + 1 }, .none)

def run (s : Sim) (ops : List Op) : Sim × List Ret :=
  ops.foldl (fun (acc : Sim × List Ret) op =>
    let (t, r) := step acc.1 op
    (t, acc.2 ++ [r])) (s, [])

end SimM
