import Emg3dVerif.Model.Amat
/-
Model of the grid-transfer operators of `emg3d`:
`core.restrict` + `core.restrict_weights` (+ `solver._get_restriction_weights`),
`solver.prolongation` / `RegularGridProlongator`, `solver._restrict_model_parameters` and the
coarse grid of `solver.restriction`.

Both transfers are tensor products of one-dimensional operators; per direction and field
component a direction is treated in one of three modes.  No Mathlib.
-/
namespace Emg

inductive Mode where
  | idn    -- direction not coarsened
  | node   -- coarsened, the component lives on nodes of this direction (across the edge)
  | cell   -- coarsened, the component lives on cells of this direction (along the edge)
deriving DecidableEq, Repr

variable {K : Type} [Add K] [Sub K] [Mul K] [Div K] [Neg K] [OfNat K 0] [OfNat K 1] [OfNat K 2]

/-- left / right restriction weights of coarse node `I` (`core.restrict_weights`, closed form in
the fine widths `h`, `n` fine cells).  At the first/last coarse node the formula with the half
dual cells of [MoSu94] gives `h 1 / h 0` and `h (n-2) / h (n-1)`. -/
def wl (h : Nat → K) (I : Nat) : K :=
  if I = 0 then h 1 / h 0 else h (2*I-2) / (h (2*I-2) + h (2*I-1))
def wr (h : Nat → K) (n : Nat) (I : Nat) : K :=
  if 2*I = n then h (n-2) / h (n-1) else h (2*I+1) / (h (2*I) + h (2*I+1))

/-- one-dimensional restriction (`n` fine cells in this direction) -/
def R1 (mode : Mode) (h : Nat → K) (n : Nat) (r : Nat → K) : Nat → K :=
  match mode with
  | .idn => r
  | .cell => fun I => r (2*I) + r (2*I+1)
  | .node => fun I => r (2*I) + wl h I * r (2*I-1) + wr h n I * r (min n (2*I+1))

/-- one-dimensional prolongation: identity / piecewise constant / linear -/
def P1 (mode : Mode) (h : Nat → K) (c : Nat → K) : Nat → K :=
  match mode with
  | .idn => c
  | .cell => fun i => c (i/2)
  | .node => fun j =>
      if j % 2 = 0 then c (j/2)
      else h j / (h (j-1) + h j) * c (j/2) + h (j-1) / (h (j-1) + h j) * c (j/2+1)

def coarsX (sc : Nat) : Bool := !(sc == 1 || sc == 5 || sc == 6)
def coarsY (sc : Nat) : Bool := !(sc == 2 || sc == 4 || sc == 6)
def coarsZ (sc : Nat) : Bool := !(sc == 3 || sc == 4 || sc == 5)
def along (c : Bool) : Mode := if c then .cell else .idn
def across (c : Bool) : Mode := if c then .node else .idn
def cN (c : Bool) (n : Nat) : Nat := if c then n / 2 else n

/-- three-dimensional tensor products -/
def R3 (mx my mz : Mode) (g : Grid K) (r : F3 K) : F3 K := fun I J L =>
  R1 mx g.hx g.nx (fun i => R1 my g.hy g.ny (fun j => R1 mz g.hz g.nz (fun k => r i j k) L) J) I
def P3 (mx my mz : Mode) (g : Grid K) (c : F3 K) : F3 K := fun i j k =>
  P1 mz g.hz (fun L => P1 my g.hy (fun J => P1 mx g.hx (fun I => c I J L) i) j) k

/-- the coarse grid of `solver.restriction`: every second node in the coarsened directions -/
def coarseGrid (sc : Nat) (g : Grid K) : Grid K :=
  { nx := cN (coarsX sc) g.nx, ny := cN (coarsY sc) g.ny, nz := cN (coarsZ sc) g.nz
    hx := if coarsX sc then fun I => g.hx (2*I) + g.hx (2*I+1) else g.hx
    hy := if coarsY sc then fun I => g.hy (2*I) + g.hy (2*I+1) else g.hy
    hz := if coarsZ sc then fun I => g.hz (2*I) + g.hz (2*I+1) else g.hz }

/-- `core.restrict` for current semicoarsening code `sc ∈ 0…6` (coarse arrays pre-set to 0;
x-edges are written for cell index `I < cnx`, all node indices, …) -/
def restrict (sc : Nat) (g : Grid K) (r : EF K) : EF K :=
  let cg := coarseGrid sc g
  let cx := coarsX sc; let cy := coarsY sc; let cz := coarsZ sc
  { x := fun I J L => if I < cg.nx ∧ J ≤ cg.ny ∧ L ≤ cg.nz
           then R3 (along cx) (across cy) (across cz) g r.x I J L else 0
    y := fun I J L => if I ≤ cg.nx ∧ J < cg.ny ∧ L ≤ cg.nz
           then R3 (across cx) (along cy) (across cz) g r.y I J L else 0
    z := fun I J L => if I ≤ cg.nx ∧ J ≤ cg.ny ∧ L < cg.nz
           then R3 (across cx) (across cy) (along cz) g r.z I J L else 0 }

/-- `solver.prolongation`: the interpolated coarse field is *added*, and only to edges whose
transverse node indices are interior (`[1:-1, 1:-1]`) -/
def prolong (sc : Nat) (g : Grid K) (e ce : EF K) : EF K :=
  let cx := coarsX sc; let cy := coarsY sc; let cz := coarsZ sc
  { x := fun i j k => if i < g.nx ∧ 1 ≤ j ∧ j < g.ny ∧ 1 ≤ k ∧ k < g.nz
           then e.x i j k + P3 (along cx) (across cy) (across cz) g ce.x i j k else e.x i j k
    y := fun i j k => if 1 ≤ i ∧ i < g.nx ∧ j < g.ny ∧ 1 ≤ k ∧ k < g.nz
           then e.y i j k + P3 (across cx) (along cy) (across cz) g ce.y i j k else e.y i j k
    z := fun i j k => if 1 ≤ i ∧ i < g.nx ∧ 1 ≤ j ∧ j < g.ny ∧ k < g.nz
           then e.z i j k + P3 (across cx) (across cy) (along cz) g ce.z i j k else e.z i j k }

/-- `_restrict_model_parameters`: each coarse cell value is the sum of its fine-cell children -/
def restrictParam (sc : Nat) (g : Grid K) (p : F3 K) : F3 K :=
  R3 (along (coarsX sc)) (along (coarsY sc)) (along (coarsZ sc)) g p

end Emg
