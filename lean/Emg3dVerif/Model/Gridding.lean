/-
Model of the one-dimensional automatic gridding of `emg3d.meshes`:
`_stretch`, the triple search loop and the pre- and post-processing of `origin_and_widths`
(domain selection, vector cut, centre part, computational domain), `_seasurface` (with the
`brentq` roots as inputs), `good_mg_cell_nr`.  Lists of widths, generic ordered scalar (the
driver uses `Rat`); no Mathlib.
-/
namespace Grd

section
variable {K : Type} [Add K] [Sub K] [Mul K] [OfNat K 0] [LT K] [LE K]
  [DecidableLT K] [DecidableLE K]

def sum : List K → K
  | [] => 0
  | a :: t => a + sum t

/-- `w·α, w·α², …, w·αⁿ` (`widths[0] * stretching**np.arange(1, nx+1)`) -/
def geo (w α : K) : Nat → List K
  | 0 => []
  | n+1 => (w * α) :: geo (w * α) α n

/-- running sums (`np.cumsum`) -/
def cumsFrom (acc : K) : List K → List K
  | [] => []
  | a :: t => (acc + a) :: cumsFrom (acc + a) t
def cums (l : List K) : List K := cumsFrom 0 l

/-- number of stretched cells needed on the left / right -/
def nLeft (e0 d0 : K) (sh : List K) : Nat :=
  if e0 ≤ d0 then 0 else ((cums sh).filter (fun c => decide (d0 < e0 - c))).length + 1
def nRight (e1 d1 : K) (sh : List K) : Nat :=
  if d1 ≤ e1 then 0 else ((cums sh).filter (fun c => decide (e1 + c < d1))).length + 1

/-- result of `_stretch`: new end points, widths, remaining cells (and the two counts) -/
structure SRes (K : Type) where
  x0 : K
  x1 : K
  ws : List K
  remain : Nat
  nl : Nat
  nr : Nat

/-- `_stretch(edges, widths, stretching, nx, domain, use_up)`; `none` = `(False, False, False)` -/
def stretch (e0 e1 : K) (widths : List K) (α : K) (nx : Nat) (d0 d1 : K) (useUp : Bool) :
    Option (SRes K) :=
  let shl := geo (widths.head?.getD 0) α nx
  let shr := geo (widths.getLast?.getD 0) α nx
  let nl := nLeft e0 d0 shl
  let nr := nRight e1 d1 shr
  let used := widths.length + nl + nr
  if e0 - sum (shl.take nl) ≤ d0 ∧ d1 ≤ e1 + sum (shr.take nr) ∧ used ≤ nx then
    let remain := nx - used
    let nl' := if useUp then nl + remain / 2 else nl
    let nr' := if useUp then nr + (remain + 1) / 2 else nr
    some { x0 := e0 - sum (shl.take nl')
           x1 := e1 + sum (shr.take nr')
           ws := (shl.take nl').reverse ++ widths ++ shr.take nr'
           remain := if useUp then 0 else remain
           nl := nl'
           nr := nr' }
  else none

/-! ## the search of `origin_and_widths` -/

/-- loop over the buffer stretchings `ca` (first success wins) -/
def searchCa (sd : SRes K) (nx : Nat) (c0 c1 : K) : List K → Option (K × SRes K)
  | [] => none
  | ca :: t =>
    match stretch sd.x0 sd.x1 sd.ws ca nx c0 c1 true with
    | some r => some (ca, r)
    | none => searchCa sd nx c0 c1 t

/-- loop over the survey-domain stretchings `sa`; `caOf sa` = the buffer candidates -/
def searchSa (e0 e1 : K) (widths : List K) (nx : Nat) (d0 d1 c0 c1 : K) (caOf : K → List K) :
    List K → Option (K × SRes K × K × SRes K)
  | [] => none
  | sa :: t =>
    match stretch e0 e1 widths sa nx d0 d1 false with
    | none => searchSa e0 e1 widths nx d0 d1 c0 c1 caOf t
    | some sd =>
      match searchCa sd nx c0 c1 (caOf sa) with
      | some (ca, r) => some (sa, sd, ca, r)
      | none => searchSa e0 e1 widths nx d0 d1 c0 c1 caOf t

structure Found (K : Type) where
  nx : Nat
  sa : K
  ca : K
  sd : SRes K
  res : SRes K

/-- loop over the cell numbers (ascending, unique) -/
def searchNx (e0 e1 : K) (widths : List K) (d0 d1 c0 c1 : K) (saL : List K) (caOf : K → List K) :
    List Nat → Option (Found K)
  | [] => none
  | nx :: t =>
    match searchSa e0 e1 widths nx d0 d1 c0 c1 caOf saL with
    | some (sa, sd, ca, r) => some { nx := nx, sa := sa, ca := ca, sd := sd, res := r }
    | none => searchNx e0 e1 widths d0 d1 c0 c1 saL caOf t

/-! ## pre-processing -/

/-- "Cut vector to domain": keep the last node `≤ d0` and the first node `≥ d1` -/
def cutVector (v : List K) (d0 d1 : K) : Option (List K) :=
  let iLo := (List.range v.length).filter (fun i => decide (v.getD i 0 ≤ d0))
  let v1 := if iLo.length > 1 then v.drop (iLo.getLast?.getD 0) else v
  let iHi := (List.range v1.length).filter (fun i => decide (d1 ≤ v1.getD i 0))
  let v2 := if iHi.length > 1 then v1.take (iHi.getD 1 0) else v1
  if v2.length < 3 then none else some v2

def diffs : List K → List K
  | a :: b :: t => (b - a) :: diffs (b :: t)
  | _ => []

end

section
variable {K : Type} [Add K] [Sub K] [Mul K] [Div K] [OfNat K 0] [OfNat K 2] [LT K] [LE K]
  [DecidableLT K] [DecidableLE K] [Max K] [Min K]

/-- centre part `(e0, e1, widths)`: from the (cut) vector, or three nodes `c-dmin, c, c+dmin`
(centre on an edge), or one cell around the centre -/
def centrePart (vector : Option (List K)) (centerOnEdge : Bool) (c dmin : K) : K × K × List K :=
  match vector with
  | some v => (v.head?.getD 0, v.getLast?.getD 0, diffs v)
  | none =>
    if centerOnEdge then (c - dmin, c + dmin, [dmin, dmin])
    else (c - dmin / 2, c + dmin / 2, [dmin])

/-- computational domain; `wl`, `wr` = `lambda_factor`·wavelength left / right -/
def compDomain (fromCenter : Bool) (d0 d1 c wl wr maxBuffer : K) : K × K :=
  if fromCenter then
    let inl := if d0 - c < 0 then c - d0 else d0 - c
    let inr := if d1 - c < 0 then c - d1 else d1 - c
    let bl := max 0 ((2 * wl - inl) / 2)
    let br := max 0 ((2 * wr - inr) / 2)
    (max (d0 - bl) (c - maxBuffer), min (d1 + br) (c + maxBuffer))
  else
    (d0 - min wl maxBuffer, d1 + min wr maxBuffer)

/-! ## sea surface -/

structure SeaRes (K : Type) where
  e0 : K
  e1 : K
  ws : List K
  usedRoots : Nat        -- number of `brentq` calls made

/-- loop over the width factors; `roots` = the results of the successive `brentq` calls,
`nOf δ w` = `int(floor(δ / w))` -/
def seaLoop (hasVector : Bool) (e0 e1 : K) (widths : List K) (center ss s0 s1 : K)
    (nOf : K → K → Nat) (amax : K) : List K → List K → Nat → SeaRes K
  | [], _, u => { e0 := e0, e1 := e1, ws := widths, usedRoots := u }
  | fact :: fs, roots, u =>
    let tdmin := if hasVector then widths.getLast?.getD 0 else fact * widths.head?.getD 0
    let cedge := if hasVector then e1 else center + tdmin / 2
    let delta := ss - cedge
    let n := nOf delta tdmin
    if n < 1 then seaLoop hasVector e0 e1 widths center ss s0 s1 nOf amax fs roots u
    else
      match roots with
      | [] => { e0 := e0, e1 := e1, ws := widths, usedRoots := u }   -- (no oracle value left)
      | alph :: rs =>
        if alph < min amax s1 then
          let hx := geo tdmin alph n
          let ws' := if hasVector then widths ++ hx else tdmin :: hx
          let e0' := if hasVector then e0 else center - tdmin / 2
          { e0 := e0', e1 := e0' + sum ws', ws := ws', usedRoots := u + 1 }
        else seaLoop hasVector e0 e1 widths center ss s0 s1 nOf amax fs rs (u + 1)

/-- `_seasurface` up to the final check; `frange` = candidate factors, `amaxF` = 1.1 resp. 1.25 -/
def seasurface (hasVector : Bool) (e0 e1 : K) (widths : List K) (center ss s0 s1 : K)
    (nOf : K → K → Nat) (amaxF : K) (frange roots : List K) : SeaRes K :=
  let w := widths.head?.getD 0
  let dist := if ss - e1 < 0 then e1 - ss else ss - e1
  if !hasVector ∧ dist ≤ w / 2 then
    { e0 := e0 + (ss - e1), e1 := e1 + (ss - e1), ws := widths, usedRoots := 0 }
  else seaLoop hasVector e0 e1 widths center ss s0 s1 nOf (amaxF * s0) frange roots 0

/-- nodes `e0, e0+w₁, e0+w₁+w₂, …` -/
def nodes (e0 : K) (ws : List K) : List K := e0 :: cumsFrom e0 ws

end

/-! ## good multigrid cell numbers -/

/-- `good_mg_cell_nr(max_nr, max_lowest, min_div)` -/
def goodMg (maxNr maxLowest minDiv : Nat) : List Nat :=
  let lowest := [2, 3, 5, 7, 9, 11, 13, 15, 17, 19].filter (· ≤ maxLowest)
  let all := lowest.flatMap fun p => (List.range (30 - minDiv)).map fun k => p * 2 ^ (minDiv + k)
  ((List.range (maxNr + 1)).filter fun n => all.contains n)

end Grd

namespace Grd
section
variable {K : Type} [Add K] [Sub K] [Mul K] [Div K] [OfNat K 0] [OfNat K 2] [LT K] [LE K]
  [DecidableLT K] [DecidableLE K] [Max K] [Min K]

/-- inputs of `origin_and_widths` after the physics (`dmin` = minimum cell width, `wl`/`wr` =
`lambda_factor`·wavelength of the left / right buffer property) -/
structure OawIn (K : Type) where
  center : K
  dmin : K
  centerOnEdge : Bool
  fromCenter : Bool
  wl : K
  wr : K
  maxBuffer : K
  s0 : K
  s1 : K
  domain : Option (K × K)
  distance : Option (K × K)
  vector : Option (List K)
  seasurface : Option K
  amaxF : K                 -- 1.1 (no vector) or 1.25 (vector)
  frange : List K           -- candidate width factors of `_seasurface`
  roots : List K            -- `brentq` results, in call order
  cellNumbers : List Nat    -- ascending, unique
  saL : List K
  caOf : K → List K

inductive OawErr where
  | needDomain              -- "At least one of `domain`/`distance`/`vector` must be provided."
  | seasurfaceBelowCenter   -- "The `seasurface` must be bigger than `center`."
deriving DecidableEq, Repr

structure OawOut (K : Type) where
  d0 : K
  d1 : K
  c0 : K
  c1 : K
  ce0 : K                   -- centre part after the sea-surface adjustment
  ce1 : K
  cws : List K
  vectorUsed : Option (List K)
  found : Option (Found K)

def absK (x : K) : K := if x < 0 then 0 - x else x

def oaw (nOf : K → K → Nat) (i : OawIn K) : Except OawErr (OawOut K) :=
  -- survey domain: domain > distance > vector
  let dom : Option (K × K) :=
    match i.domain with
    | some d => some d
    | none =>
      match i.distance with
      | some (a, b) => some (i.center - absK a, i.center + absK b)
      | none =>
        match i.vector with
        | some v => some (v.foldl min (v.head?.getD 0), v.foldl max (v.head?.getD 0))
        | none => none
  match dom with
  | none => .error .needDomain
  | some (d0, d1) =>
    let vec := match i.vector with
      | some v => cutVector v d0 d1
      | none => none
    match (match i.seasurface with
           | some ss => if ss ≤ i.center then none else some (max d1 ss)
           | none => some d1) with
    | none => .error .seasurfaceBelowCenter
    | some d1' =>
      let cp := centrePart vec i.centerOnEdge i.center i.dmin
      let hasVec := vec.isSome || i.centerOnEdge
      let sea : K × K × List K := match i.seasurface with
        | some ss =>
          let r := seasurface hasVec cp.1 cp.2.1 cp.2.2 i.center ss i.s0 i.s1 nOf i.amaxF
                     i.frange i.roots
          (r.e0, r.e1, r.ws)
        | none => cp
      let cd := compDomain i.fromCenter d0 d1' i.center i.wl i.wr i.maxBuffer
      .ok { d0 := d0, d1 := d1', c0 := cd.1, c1 := cd.2, ce0 := sea.1, ce1 := sea.2.1,
            cws := sea.2.2, vectorUsed := vec,
            found := searchNx sea.1 sea.2.1 sea.2.2 d0 d1' cd.1 cd.2 i.saL i.caOf i.cellNumbers }

end
end Grd
