/-
Number domains used by the executable models (no Mathlib).

`QI` : Gaussian rationals over core `Rat` — the exact counterpart of the complex
numbers the kernels work on.  Models are generic over notation classes; proofs
instantiate them with a `Field`, the driver with `Rat` / `QI`.
-/
namespace Emg

structure QI where
  re : Rat
  im : Rat
deriving DecidableEq, Repr, Inhabited

namespace QI
instance : Add QI := ⟨fun a b => ⟨a.re+b.re, a.im+b.im⟩⟩
instance : Sub QI := ⟨fun a b => ⟨a.re-b.re, a.im-b.im⟩⟩
instance : Neg QI := ⟨fun a => ⟨-a.re, -a.im⟩⟩
instance : Mul QI := ⟨fun a b => ⟨a.re*b.re - a.im*b.im, a.re*b.im + a.im*b.re⟩⟩
instance : Div QI := ⟨fun a b =>
  let d := b.re*b.re + b.im*b.im
  ⟨(a.re*b.re + a.im*b.im)/d, (a.im*b.re - a.re*b.im)/d⟩⟩
instance : OfNat QI n := ⟨⟨(n : Rat), 0⟩⟩
def ofRat (q : Rat) : QI := ⟨q, 0⟩
end QI

/-! ### text protocol: rationals as `num/den`, Gaussian rationals as `re,im` -/

def parseInt? (s : String) : Option Int := s.toInt?

def parseRat? (s : String) : Option Rat :=
  match s.splitOn "/" with
  | [n, d] => match n.toInt?, d.toNat? with
      | some n, some d => if d == 0 then none else some ((n : Rat) / (d : Rat))
      | _, _ => none
  | [n] => (n.toInt?).map (fun (z : Int) => (z : Rat))
  | _ => none

def parseQI? (s : String) : Option QI :=
  match s.splitOn "," with
  | [a, b] => match parseRat? a, parseRat? b with
      | some a, some b => some ⟨a, b⟩
      | _, _ => none
  | [a] => (parseRat? a).map QI.ofRat
  | _ => none

def showRat (q : Rat) : String := if q.den == 1 then toString q.num else s!"{q.num}/{q.den}"
def showQI (q : QI) : String := s!"{showRat q.re},{showRat q.im}"

def words (s : String) : List String := (s.trimAscii.toString.splitOn " ").filter (· ≠ "")

def parseRats? (ws : List String) : Option (Array Rat) := (ws.mapM parseRat?).map List.toArray
def parseQIs? (ws : List String) : Option (Array QI) := (ws.mapM parseQI?).map List.toArray
def parseNats? (ws : List String) : Option (Array Nat) := (ws.mapM String.toNat?).map List.toArray

end Emg
