/-
Model of the *string level* of the JSON key flags of `emg3d.io`:

* `_dict_dearray_decomp` appends `__complex` to the key of a complex value and then
  `__array-<dtype>` to the key of an array (`flagKey`);
* `_dict_array_comp` undoes it with Python's `in`, `str.rsplit(sep, 1)` and `str.replace`
  (`unflagKey`): `if '__array-' in key: key, dtype = key.rsplit('__array-', 1)`;
  `if '__complex' in key: key = key.replace('__complex', '')`.

`IoTree.lean` keeps the flags structured; this file is the glue below it.  Strings are lists of
characters; the three string functions are written out so that they can be executed (driver op
`jkey`) and compared with CPython on adversarial keys.  Core Lean only.
-/
namespace JKey

abbrev Str := List Char

def arrMark : Str := "__array-".toList
def cplxMark : Str := "__complex".toList

/-- `m in s` -/
def contains (m : Str) : Str → Bool
  | [] => m.isPrefixOf []
  | c :: s => m.isPrefixOf (c :: s) || contains m s

/-- `s.rsplit(m, 1)` for a separator that occurs: the parts before and after the occurrence
that starts rightmost; `none` if `m` does not occur -/
def rsplit1 (m : Str) : Str → Option (Str × Str)
  | [] => if m.isPrefixOf [] then some ([], []) else none
  | c :: s =>
    match rsplit1 m s with
    | some (b, a) => some (c :: b, a)
    | none => if m.isPrefixOf (c :: s) then some ([], (c :: s).drop m.length) else none

/-- `s.replace(m, '')` for non-empty `m`: all non-overlapping occurrences, found from the left,
are removed; `skip` characters of a found occurrence are still to be dropped -/
def removeAllAux (m : Str) : Nat → Str → Str
  | _, [] => []
  | skip + 1, _ :: s => removeAllAux m skip s
  | 0, c :: s => if m.isPrefixOf (c :: s) then removeAllAux m (m.length - 1) s
                 else c :: removeAllAux m 0 s

def removeAll (m : Str) (s : Str) : Str := removeAllAux m 0 s

/-- the key written to the file -/
def flagKey (k : Str) (cplx : Bool) (arr : Option Str) : Str :=
  let k1 := if cplx then k ++ cplxMark else k
  match arr with
  | some d => k1 ++ arrMark ++ d
  | none => k1

/-- the key and the flags recovered from a key read from the file -/
def unflagKey (s : Str) : Str × Bool × Option Str :=
  let (s1, arr) := if contains arrMark s then
      match rsplit1 arrMark s with
      | some (b, a) => (b, some a)
      | none => (s, none)
    else (s, none)
  if contains cplxMark s1 then (removeAll cplxMark s1, true, arr) else (s1, false, arr)

end JKey

/-! ## the shape of an array after `tolist()` / `np.asarray` -/
namespace JShape
/-- a JSON value as far as array shapes are concerned -/
inductive J where
  | num : J
  | arr : List J → J

/-- `ndarray.tolist()` of an array of the given shape -/
def nest : List Nat → J
  | [] => .num
  | n :: r => .arr (List.replicate n (nest r))

/-- the shape `np.asarray` infers from a (regular) nested list: lengths along the first
branch; an empty list ends the descent -/
def shapeOf : J → List Nat
  | .num => []
  | .arr [] => [0]
  | .arr (x :: xs) => (xs.length + 1) :: shapeOf x

/-- the shape cut after its first zero-length axis -/
def cut : List Nat → List Nat
  | [] => []
  | 0 :: _ => [0]
  | (n + 1) :: r => (n + 1) :: cut r
end JShape

