/-
Model of the layered (1-D) mode: `Model.extract_1d` (interpolation matrix, per-layer average,
merge of equal neighbours), the routing of (receiver, frequency) slots by the finite mask of the
observed data in `_multiprocessing.layered`, and the finite-difference gradient
`_fd_gradient`.  The selection mask of `ellipse_indices` and the 1-D reference modeller
(`empymod.bipole`) are inputs.  Generic scalar (the driver uses `Rat`); no Mathlib.
-/
namespace Lay

section
variable {K : Type} [Add K] [Mul K] [Div K] [OfNat K 0] [OfNat K 1]

def sumTo : Nat → (Nat → K) → K
  | 0, _ => 0
  | n+1, f => sumTo n f + f n

def total (nx ny : Nat) (f : Nat → Nat → K) : K := sumTo nx (fun i => sumTo ny (fun j => f i j))

/-- un-normalised weights: cell areas inside the index rectangle (`prism`), times the ellipse
mask (`cylinder`) -/
def pp (hx hy : Nat → K) (rect use : Nat → Nat → Bool) (cyl : Bool) (i j : Nat) : K :=
  if rect i j && (!cyl || use i j) then hx i * hy j else 0

/-- interpolation matrix of `extract_1d` for `prism` / `cylinder` -/
def imat (nx ny : Nat) (hx hy : Nat → K) (rect use : Nat → Nat → Bool) (cyl : Bool)
    (i j : Nat) : K :=
  pp hx hy rect use cyl i j / total nx ny (pp hx hy rect use cyl)

/-- interpolation matrix for `midpoint` (and the fall-back for an empty selection) -/
def midMat (i0 j0 : Nat) (i j : Nat) : K := if i = i0 ∧ j = j0 then 1 else 0

/-- weighted average of one layer -/
def avg (nx ny : Nat) (w : Nat → Nat → K) (v : Nat → Nat → K) : K :=
  total nx ny (fun i j => w i j * v i j)

/-- the gradient of the layered mode: `imat[..., None] * grad[None, :]` -/
def spread (w : Nat → Nat → K) (grad : Nat → K) (i j k : Nat) : K := w i j * grad k

end

/-! ## merge of equal neighbours -/
section
variable {K : Type} [DecidableEq K] [OfNat K 0]

/-- layer `k+1` differs from layer `k` in some property -/
def differs (props : List (Nat → K)) (k : Nat) : Bool := props.any (fun p => p k ≠ p (k+1))

/-- indices kept by `merge=True`: the first layer and every layer that differs from the one
below it -/
def mergeIdx (props : List (Nat → K)) (nz : Nat) : List Nat :=
  0 :: ((List.range (nz - 1)).filter (differs props)).map (· + 1)

/-- first layer of the run of equal layers that contains layer `k` -/
def startOf (props : List (Nat → K)) : Nat → Nat
  | 0 => 0
  | k+1 => if differs props k then k+1 else startOf props k

end

/-! ## routing of the (receiver, frequency) slots -/

/-- `fin r f`: the observed datum is finite (all `true` if there are no observed data).  The
frequencies handed to the reference modeller for receiver `r`, in order. -/
def usedFreqs (nf : Nat) (fin : Nat → Nat → Bool) (r : Nat) : List Nat :=
  (List.range nf).filter (fin r)

/-- rank of frequency `f` among the used ones -/
def rank (fin : Nat → Nat → Bool) (r f : Nat) : Nat := ((List.range f).filter (fin r)).length

/-- response array of the layered mode: `resp r fs` = result of the reference modeller for
receiver `r` with frequency indices `fs`; `none` = NaN -/
def responses {R : Type} (nf : Nat) (fin : Nat → Nat → Bool) (resp : Nat → List Nat → List R)
    (r f : Nat) : Option R :=
  if fin r f then (resp r (usedFreqs nf fin r))[rank fin r f]? else none

/-! ## finite-difference gradient -/
section
variable {K : Type} [Add K] [Sub K] [Mul K] [Div K]

/-- `_fd_gradient` per layer: perturb layer `iz` by the relative step, difference quotient -/
def fdGrad (cond : Nat → K) (rel : K) (misfitOf : (Nat → K) → K) (misfit : K) (iz : Nat) : K :=
  let delta := cond iz * rel
  (misfitOf (fun k => if k = iz then cond k + delta else cond k) - misfit) / delta

end
end Lay
