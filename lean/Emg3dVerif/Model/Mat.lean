/-
Materialisation of function-valued fields into tables that are computed once.
`mat3 n1 n2 n3 f` is extensionally the identity (`mat3_eq`), so the models can use it freely:
what is executed and what is proved about is the same definition.  No Mathlib.
-/
namespace Emg
abbrev F3' (K : Type) := Nat → Nat → Nat → K

structure Tab3 (K : Type) where
  a : Array (Array (Array K))

def Tab3.ofFn {K : Type} (n1 n2 n3 : Nat) (f : Nat → Nat → Nat → K) : Tab3 K :=
  ⟨Array.ofFn (n := n3) fun k => Array.ofFn (n := n2) fun j => Array.ofFn (n := n1) fun i => f i.val j.val k.val⟩

def Tab3.get? {K : Type} (t : Tab3 K) (i j k : Nat) : Option K :=
  match t.a[k]? with
  | none => none
  | some p => match p[j]? with
    | none => none
    | some r => r[i]?

structure Mat3 (K : Type) where
  t : Tab3 K
  f : Nat → Nat → Nat → K

/-- values inside the box `n1 × n2 × n3` come from a table computed once, others from `f` -/
def mat3 {K : Type} (n1 n2 n3 : Nat) (f : Nat → Nat → Nat → K) : Mat3 K :=
  let t := Tab3.ofFn n1 n2 n3 f
  ⟨t, fun i j k => match t.get? i j k with | some v => v | none => f i j k⟩

theorem Tab3.get?_ofFn {K : Type} (n1 n2 n3 : Nat) (f : Nat → Nat → Nat → K) (i j k : Nat) :
    (Tab3.ofFn n1 n2 n3 f).get? i j k = if k < n3 ∧ j < n2 ∧ i < n1 then some (f i j k) else none := by
  unfold Tab3.get? Tab3.ofFn
  by_cases hk : k < n3
  · by_cases hj : j < n2
    · by_cases hi : i < n1
      · simp [hk, hj, hi]
      · simp [hk, hj, hi]
    · simp [hk, hj]
  · simp [hk]

theorem mat3_eq {K : Type} (n1 n2 n3 : Nat) (f : Nat → Nat → Nat → K) : (mat3 n1 n2 n3 f).f = f := by
  funext i j k
  simp only [mat3, Tab3.get?_ofFn]
  split <;> rename_i h
  · split at h
    · injection h with h; exact h.symm
    · cases h
  · rfl

/-- one-dimensional version -/
structure Mat1 (K : Type) where
  a : Array K
  f : Nat → K

def mat1 {K : Type} (n : Nat) (f : Nat → K) : Mat1 K :=
  let a := Array.ofFn (n := n) fun i => f i.val
  ⟨a, fun i => match a[i]? with | some v => v | none => f i⟩

theorem mat1_eq {K : Type} (n : Nat) (f : Nat → K) : (mat1 n f).f = f := by
  funext i
  simp only [mat1]
  by_cases h : i < n
  · simp [h]
  · simp [h]

/-- two-dimensional version -/
structure Mat2 (K : Type) where
  a : Array (Array K)
  f : Nat → Nat → K

def mat2 {K : Type} (n1 n2 : Nat) (f : Nat → Nat → K) : Mat2 K :=
  let a := Array.ofFn (n := n1) fun i => Array.ofFn (n := n2) fun j => f i.val j.val
  ⟨a, fun i j => match a[i]? with
    | none => f i j
    | some r => match r[j]? with
      | none => f i j
      | some v => v⟩

theorem mat2_eq {K : Type} (n1 n2 : Nat) (f : Nat → Nat → K) : (mat2 n1 n2 f).f = f := by
  funext i j
  simp only [mat2]
  by_cases h1 : i < n1
  · by_cases h2 : j < n2
    · simp [h1, h2]
    · simp [h1, h2]
  · simp [h1]

end Emg
