/-
Model of `emg3d.maps.interp_volume_average` / `_volume_average_weights`: volume averaging of a
cell property from one tensor grid to another, as the closed form
  new[J] = (Σ_I Wx[jx,ix]·Wy[jy,iy]·Wz[jz,iz]·v[I]) / vol_out[J],
`W[j,i]` = length of the overlap of output cell `j` with input cell `i`, the first and last input
cell being extended to ∓∞ (nearest-value fill outside the input grid).  No Mathlib; generic
over an ordered scalar (the driver uses `Rat`).
-/
namespace VolAvg

variable {K : Type} [Add K] [Sub K] [Mul K] [Div K] [OfNat K 0] [Max K] [Min K]

/-- lower / upper end of input cell `i` (`n` input cells) after extension to the output range -/
def loE (xin xout : Nat → K) (i : Nat) : K := if i = 0 then min (xin 0) (xout 0) else xin i
def hiE (xin xout : Nat → K) (n m : Nat) (i : Nat) : K :=
  if i + 1 = n then max (xin n) (xout m) else xin (i+1)

/-- overlap of output cell `j` with (extended) input cell `i`; `n`, `m` = numbers of cells -/
def W (xin xout : Nat → K) (n m : Nat) (j i : Nat) : K :=
  max 0 (min (hiE xin xout n m i) (xout (j+1)) - max (loE xin xout i) (xout j))

def sumTo : Nat → (Nat → K) → K
  | 0, _ => 0
  | n+1, f => sumTo n f + f n

structure G1 (K : Type) where
  n : Nat
  x : Nat → K          -- nodes 0 … n

/-- three-dimensional volume average -/
def volAvg (gx gy gz ox oy oz : G1 K) (v : Nat → Nat → Nat → K) : Nat → Nat → Nat → K :=
  fun jx jy jz =>
    sumTo gx.n (fun ix => sumTo gy.n (fun iy => sumTo gz.n (fun iz =>
      W gx.x ox.x gx.n ox.n jx ix * W gy.x oy.x gy.n oy.n jy iy * W gz.x oz.x gz.n oz.n jz iz
        * v ix iy iz)))
    / ((ox.x (jx+1) - ox.x jx) * (oy.x (jy+1) - oy.x jy) * (oz.x (jz+1) - oz.x jz))

/-- one-dimensional version (used in the theorems; the 3-D map is its tensor product) -/
def volAvg1 (g o : G1 K) (v : Nat → K) : Nat → K :=
  fun j => sumTo g.n (fun i => W g.x o.x g.n o.n j i * v i) / (o.x (j+1) - o.x j)

end VolAvg
