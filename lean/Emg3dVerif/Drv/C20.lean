import Emg3dVerif.Model.Num
import Emg3dVerif.Model.Fourier
import Emg3dVerif.Drv.C13
open Emg Fou

namespace Drv20

def bits (l : List Bool) : String := " ".intercalate (l.map fun b => if b then "1" else "0")

def handle (ws : List String) : Option String :=
  match ws with
  | "fou" :: "|" :: rest =>
    match Drv13.splitOnTok "|" rest with
    | [req, band, inp, ev] => do
      let req ← parseRats? req
      let band ← parseRats? band
      let inp ← parseRats? inp
      let ev ← parseNats? ev
      if band.size != 2 then none else
      let c : Cfg Rat := {
        req := req.toList
        fmin := band[0]!
        fmax := band[1]!
        inputFreq := if inp.isEmpty then none else some inp.toList
        everyX := ev[0]? }
      -- data flow with symbolic interpolators
      let flow := interpolate (V := String) c (fun _ _ _ => "S") (fun _ _ _ => "P") 0 (fun v => v) "Z"
        ((List.range (freqCompute c).length).map fun j => "D" ++ toString j)
      some (" ".intercalate ((coarse c).map showRat) ++ " | " ++ bits (iCompute c) ++ " | " ++
        bits (iExtrapolate c) ++ " | " ++ bits (iInterpolate c) ++ " | " ++ " ".intercalate flow)
    | _ => none
  | _ => none

end Drv20
