import Emg3dVerif.Model.Cli
open Cli

namespace Drv18

def splitEq (s : String) : String × String :=
  match s.splitOn "=" with
  | [] => ("", "")
  | k :: r => (k, "=".intercalate r)

def parseInput (ws : List String) : Input :=
  ws.foldl (fun (i : Input) w =>
    if w.startsWith "v=" then { i with verbosity := ((w.drop 2).toString.toInt?).getD 0 }
    else if w.startsWith "cwd=" then { i with cwd := (w.drop 4).toString }
    else if w.startsWith "t." then
      let (k, v) := splitEq (w.drop 2).toString
      { i with term := i.term ++ [(k, v)] }
    else if w.startsWith "f." then { i with flags := i.flags ++ [(w.drop 2).toString] }
    else if w.startsWith "c." then
      let (sk, v) := splitEq (w.drop 2).toString
      match sk.splitOn "." with
      | [s, k] => { i with cfg := i.cfg ++ [(s, k, v)] }
      | _ => i
    else i)
    { term := [], flags := [], verbosity := 0, cfg := [], cwd := "/" }

def handle (ws : List String) : Option String :=
  match ws with
  | "cli" :: r =>
    some (match parse (parseInput r) with
      | .ok o => "ok\t" ++ "\t".intercalate (o.entries.map fun e => e.1 ++ "=" ++ e.2)
      | .unexpected s ks => "unexpected " ++ s ++ " " ++ " ".intercalate ks
      | .unknownSection ss => "unknown-section " ++ " ".intercalate ss)
  | ["cli-docs"] => some (" ".intercalate (documented.map fun d => d.1 ++ "." ++ d.2))
  | ["cli-accepted"] => some (" ".intercalate (sections.flatMap fun s =>
      (accepted s).map fun k => s ++ "." ++ k.1 ++ ":" ++ k.2.name))
  | ["cli-api", api] => some (" ".intercalate (apiKeywords api))
  | ["cli-dest"] => some (" ".intercalate (sections.flatMap fun s =>
      (accepted s).map fun k => s ++ "." ++ k.1 ++ "->" ++
        (match destination s k.1 with | some (a, kw) => a ++ "." ++ kw | none => "-")))
  | ["cli-complete", p, n] => some (complete p n)
  | _ => none

end Drv18
