import Emg3dVerif.Model.Num
import Emg3dVerif.Model.Smooth
import Emg3dVerif.Model.Ldlt
import Emg3dVerif.Drv.C02
open Emg

namespace Drv03

def parseS (nx ny nz : Nat) (secs : List (List String)) : Option (Drv02.Inp × EF QI) :=
  match secs with
  | [hx, hy, hz, etax, etay, etaz, zeta, ex, ey, ez, sx, sy, sz] => do
    let inp ← Drv02.parseInp nx ny nz [hx, hy, hz, etax, etay, etaz, zeta, ex, ey, ez]
    let sx ← parseQIs? sx; let sy ← parseQIs? sy; let sz ← parseQIs? sz
    if sx.size != nx*(ny+1)*(nz+1) || sy.size != (nx+1)*ny*(nz+1) || sz.size != (nx+1)*(ny+1)*nz then none
    else some (inp, { x := Drv02.arr3 sx nx (ny+1), y := Drv02.arr3 sy (nx+1) ny, z := Drv02.arr3 sz (nx+1) (ny+1) })
  | _ => none

def handle (ws : List String) : Option String :=
  match ws with
  | "gs" :: kernel :: nu :: nx :: ny :: nz :: "|" :: rest => do
    let nx ← nx.toNat?; let ny ← ny.toNat?; let nz ← nz.toNat?
    let (inp, s) ← parseS nx ny nz (Drv02.sections rest)
    let r := runKernel inp.g inp.m s (← kernel.toNat?) (← nu.toNat?) (inp.e, true)
    some ((if r.2 then "ok" else "fail") ++ " | " ++ Drv02.render r.1 nx ny nz)
  | "smoothing" :: lr :: nu :: nx :: ny :: nz :: "|" :: rest => do
    let nx ← nx.toNat?; let ny ← ny.toNat?; let nz ← nz.toNat?
    let (inp, s) ← parseS nx ny nz (Drv02.sections rest)
    let r := smoothing inp.g inp.m s inp.e (← nu.toNat?) (← lr.toNat?)
    some ((if r.2 then "ok" else "fail") ++ " | " ++ Drv02.render r.1 nx ny nz)
  | _ => none

end Drv03

namespace Drv03
open Emg.LdltM

/-- `ldlt n | amat (6n numbers) | b (n numbers)` → solution, and whether all pivots are non-zero -/
def handleLdlt (ws : List String) : Option String :=
  match ws with
  | "ldlt" :: n :: "|" :: rest => do
    let n ← n.toNat?
    match Drv02.sections rest with
    | [am, bv] =>
      let am ← parseQIs? am; let bv ← parseQIs? bv
      if am.size != 6*n || bv.size != n then none else
      let a := ofBanded am
      let x := solve a (fun i => bv.getD i 0) n
      let piv := pivots a n
      let ok := piv.all (fun d => decide (d ≠ 0))
      -- residual check A x = b inside the model (spec)
      let res := (List.range n).all fun i =>
        decide (sumTo n (fun j => full a i j * x j) = bv.getD i 0)
      some ((if ok then "pivots-ok" else "zero-pivot") ++ " " ++ (if res then "Ax=b" else "Ax!=b") ++ " | " ++
        " ".intercalate ((List.range n).map fun i => showQI (x i)))
    | _ => none
  | _ => none
end Drv03
