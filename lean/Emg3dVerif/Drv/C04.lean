import Emg3dVerif.Model.Num
import Emg3dVerif.Model.Restrict
import Emg3dVerif.Drv.C02
open Emg

namespace Drv04
open Drv02

def grid (nx ny nz : Nat) (hx hy hz : Array QI) : Grid QI :=
  { nx := nx, ny := ny, nz := nz, hx := arr1 hx, hy := arr1 hy, hz := arr1 hz }

def handle (ws : List String) : Option String :=
  match ws with
  | "restrict" :: sc :: nx :: ny :: nz :: "|" :: rest => do
    let sc ← sc.toNat?; let nx ← nx.toNat?; let ny ← ny.toNat?; let nz ← nz.toNat?
    match sections rest with
    | [hx, hy, hz, rx, ry, rz] =>
      let g := grid nx ny nz (← parseQIs? hx) (← parseQIs? hy) (← parseQIs? hz)
      let rx ← parseQIs? rx; let ry ← parseQIs? ry; let rz ← parseQIs? rz
      let r : EF QI := { x := arr3 rx nx (ny+1), y := arr3 ry (nx+1) ny, z := arr3 rz (nx+1) (ny+1) }
      let cg := coarseGrid sc g
      some (render (restrict sc g r) cg.nx cg.ny cg.nz)
    | _ => none
  | "prolong" :: sc :: nx :: ny :: nz :: "|" :: rest => do
    let sc ← sc.toNat?; let nx ← nx.toNat?; let ny ← ny.toNat?; let nz ← nz.toNat?
    match sections rest with
    | [hx, hy, hz, ex, ey, ez, cx, cy, cz] =>
      let g := grid nx ny nz (← parseQIs? hx) (← parseQIs? hy) (← parseQIs? hz)
      let cg := coarseGrid sc g
      let ex ← parseQIs? ex; let ey ← parseQIs? ey; let ez ← parseQIs? ez
      let cx ← parseQIs? cx; let cy ← parseQIs? cy; let cz ← parseQIs? cz
      let e : EF QI := { x := arr3 ex nx (ny+1), y := arr3 ey (nx+1) ny, z := arr3 ez (nx+1) (ny+1) }
      let ce : EF QI := { x := arr3 cx cg.nx (cg.ny+1), y := arr3 cy (cg.nx+1) cg.ny,
                          z := arr3 cz (cg.nx+1) (cg.ny+1) }
      some (render (prolong sc g e ce) nx ny nz)
    | _ => none
  | "rweights" :: n :: "|" :: h => do
    let n ← n.toNat?
    let h ← parseQIs? h
    let hf := arr1 h
    let N := n / 2
    let l := (List.range (N+1)).map fun I => showQI (wl hf I)
    let r := (List.range (N+1)).map fun I => showQI (wr hf n I)
    some (" ".intercalate l ++ " | " ++ " ".intercalate r)
  | "rparam" :: sc :: nx :: ny :: nz :: "|" :: p => do
    let sc ← sc.toNat?; let nx ← nx.toNat?; let ny ← ny.toNat?; let nz ← nz.toNat?
    let p ← parseQIs? p
    let g : Grid QI := { nx := nx, ny := ny, nz := nz, hx := fun _ => 1, hy := fun _ => 1, hz := fun _ => 1 }
    let cg := coarseGrid sc g
    some (" ".intercalate (flat3 (restrictParam sc g (arr3 p nx ny)) cg.nx cg.ny cg.nz))
  | "cgrid" :: sc :: nx :: ny :: nz :: "|" :: rest => do
    let sc ← sc.toNat?; let nx ← nx.toNat?; let ny ← ny.toNat?; let nz ← nz.toNat?
    match sections rest with
    | [hx, hy, hz] =>
      let g := grid nx ny nz (← parseQIs? hx) (← parseQIs? hy) (← parseQIs? hz)
      let cg := coarseGrid sc g
      some (s!"{cg.nx} {cg.ny} {cg.nz} | " ++
        " ".intercalate ((List.range cg.nx).map fun i => showQI (cg.hx i)) ++ " | " ++
        " ".intercalate ((List.range cg.ny).map fun i => showQI (cg.hy i)) ++ " | " ++
        " ".intercalate ((List.range cg.nz).map fun i => showQI (cg.hz i)))
    | _ => none
  | _ => none

end Drv04
