import Emg3dVerif.Model.Num
import Emg3dVerif.Model.Hier
open Emg MGH

namespace Drv05

def digits (s : String) : Option (List Nat) :=
  s.toList.mapM (fun c => if c.isDigit then some (c.toNat - '0'.toNat) else none)

def userOf (s : String) : Option (Option Nat) :=
  if s == "-1" then some none else (s.toNat?).map some

def handle (ws : List String) : Option String :=
  match ws with
  | ["mg", cyc, nx, ny, nz, user, scp, lrp, nui, nup, nuc, nupo, ncyc, k0] => do
    let nx ← nx.toNat?; let ny ← ny.toNat?; let nz ← nz.toNat?
    let user ← userOf user
    let scp ← digits scp; let lrp ← digits lrp
    let cfg : Cfg := { cycmax := if cyc == "V" then 1 else 2, isF := cyc == "F",
                       nuInit := ← nui.toNat?, nuPre := ← nup.toNat?, nuCoarse := ← nuc.toNat?,
                       nuPost := ← nupo.toNat? }
    let r : Run := { cfg := cfg, user := user, shape := (nx, ny, nz), scPat := scp, lrPat := lrp,
                     ncyc := ← ncyc.toNat?, k0 := ← k0.toNat? }
    if scp.isEmpty || lrp.isEmpty then none
    else some (" | ".intercalate ((mgTrace r).map Ev.render))
  | ["maxlevel", nx, ny, nz, user] => do
    let s : Shape := (← nx.toNat?, ← ny.toNat?, ← nz.toNat?)
    let user ← userOf user
    let c := clevelDirs user s
    let rs := reprShape user s
    some s!"{table c 0} {table c 1} {table c 2} {table c 3} {c.1} {c.2.1} {c.2.2} {showShape rs}"
  | ["scdir", sc, nx, ny, nz] => do
    some (toString (currentScDir (← sc.toNat?) (← nx.toNat?, ← ny.toNat?, ← nz.toNat?)))
  | ["lrdir", lr, nx, ny, nz] => do
    some (toString (currentLrDir (← lr.toNat?) (← nx.toNat?, ← ny.toNat?, ← nz.toNat?)))
  | ["coarsen", csc, nx, ny, nz] => do
    some (showShape (coarsen (← csc.toNat?) (← nx.toNat?, ← ny.toNat?, ← nz.toNat?)))
  | _ => none

end Drv05
