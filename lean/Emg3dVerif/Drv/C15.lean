import Emg3dVerif.Model.Num
import Emg3dVerif.Model.VolAvg
import Emg3dVerif.Drv.C13
open Emg VolAvg

namespace Drv15

def g1 (a : Array Rat) : G1 Rat := { n := a.size - 1, x := fun i => a.getD i 0 }

def handle (ws : List String) : Option String :=
  match ws with
  | "volavg" :: "|" :: rest =>
    match Drv13.splitOnTok "|" rest with
    | [xi, yi, zi, vals, xo, yo, zo] => do
      let xi ← parseRats? xi; let yi ← parseRats? yi; let zi ← parseRats? zi
      let xo ← parseRats? xo; let yo ← parseRats? yo; let zo ← parseRats? zo
      let vals ← parseRats? vals
      let nx := xi.size - 1; let ny := yi.size - 1
      if vals.size != nx * ny * (zi.size - 1) then none else
      let v : Nat → Nat → Nat → Rat := fun i j k => vals.getD (i + nx*(j + ny*k)) 0
      let r := volAvg (g1 xi) (g1 yi) (g1 zi) (g1 xo) (g1 yo) (g1 zo) v
      let out := (List.range (zo.size-1)).flatMap fun k => (List.range (yo.size-1)).flatMap fun j =>
        (List.range (xo.size-1)).map fun i => showRat (r i j k)
      some (" ".intercalate out)
    | _ => none
  | "vaw" :: "|" :: rest =>
    -- 1-D weights matrix W[j,i], row-major by j
    match Drv13.splitOnTok "|" rest with
    | [xi, xo] => do
      let xi ← parseRats? xi; let xo ← parseRats? xo
      let gi := g1 xi; let go := g1 xo
      let out := (List.range go.n).flatMap fun j => (List.range gi.n).map fun i =>
        showRat (W gi.x go.x gi.n go.n j i)
      some (" ".intercalate out)
    | _ => none
  | _ => none

end Drv15
