import Emg3dVerif.Model.Num
import Emg3dVerif.Model.Source
import Emg3dVerif.Drv.C02
open Emg Src

namespace Drv09

/-- `ecf nx ny nz | hx | hy | hz | zeta | ex | ey | ez` → H on faces (x: nx+1,ny,nz …) -/
def handle (ws : List String) : Option String :=
  match ws with
  | "ecf" :: nx :: ny :: nz :: "|" :: rest => do
    let nx ← nx.toNat?; let ny ← ny.toNat?; let nz ← nz.toNat?
    match Drv02.sections rest with
    | [hx, hy, hz, zeta, ex, ey, ez] =>
      let hx ← parseQIs? hx; let hy ← parseQIs? hy; let hz ← parseQIs? hz
      let zeta ← parseQIs? zeta
      let ex ← parseQIs? ex; let ey ← parseQIs? ey; let ez ← parseQIs? ez
      let g : Grid QI := { nx := nx, ny := ny, nz := nz, hx := Drv02.arr1 hx, hy := Drv02.arr1 hy,
                           hz := Drv02.arr1 hz }
      let e : EF QI := { x := Drv02.arr3 ex nx (ny+1), y := Drv02.arr3 ey (nx+1) ny,
                         z := Drv02.arr3 ez (nx+1) (ny+1) }
      let h := edgeCurlFactor g (Drv02.arr3 zeta nx ny) e
      some (" ".intercalate (Drv02.flat3 h.x (nx+1) ny nz) ++ " | " ++
            " ".intercalate (Drv02.flat3 h.y nx (ny+1) nz) ++ " | " ++
            " ".intercalate (Drv02.flat3 h.z nx ny (nz+1)))
    | _ => none
  | _ => none

end Drv09
