import Emg3dVerif.Model.Num
import Emg3dVerif.Model.Gridding
import Emg3dVerif.Drv.C13
open Emg Grd

namespace Drv16

def rats (ws : List String) : Option (List Rat) := (parseRats? ws).map Array.toList

def showL (l : List Rat) : String := " ".intercalate (l.map showRat)

def showS (r : SRes Rat) : String :=
  s!"{showRat r.x0} {showRat r.x1} {r.remain} {r.nl} {r.nr} | {showL r.ws}"

/-- `np.linspace(a, b, n)` in exact arithmetic -/
def linspace (a b : Rat) (n : Nat) : List Rat :=
  if n ≤ 1 then [a] else (List.range n).map fun (i : Nat) => a + (b - a) * (i : Rat) / ((n - 1 : Nat) : Rat)

def nOf (delta w : Rat) : Nat := (delta / w).floor.toNat

def pair (l : List Rat) : Option (Option (Rat × Rat)) :=
  match l with
  | [] => some none
  | [a, b] => some (some (a, b))
  | _ => none

def handle (ws : List String) : Option String :=
  match ws with
  | "stretch" :: "|" :: rest =>
    match Drv13.splitOnTok "|" rest with
    | [e, w, p] => do
      let e ← rats e; let w ← rats w
      match e, p with
      | [e0, e1], [al, nx, d0, d1, up] => do
        let al ← parseRat? al; let nx ← nx.toNat?; let d0 ← parseRat? d0; let d1 ← parseRat? d1
        some (match stretch e0 e1 w al nx d0 d1 (up == "1") with
          | some r => showS r
          | none => "none")
      | _, _ => none
    | _ => none
  | "goodmg" :: [a, b, c] => do
    let a ← a.toNat?; let b ← b.toNat?; let c ← c.toNat?
    some (" ".intercalate ((goodMg a b c).map toString))
  | "cutvec" :: "|" :: rest =>
    match Drv13.splitOnTok "|" rest with
    | [v, d] => do
      let v ← rats v; let d ← rats d
      match d with
      | [d0, d1] => some (match cutVector v d0 d1 with
          | some r => showL r | none => "none")
      | _ => none
    | _ => none
  | "compdom" :: fc :: rest => do
    let r ← rats rest
    match r with
    | [d0, d1, c, wl, wr, mb] =>
      let cd := compDomain (fc == "1") d0 d1 c wl wr mb
      some s!"{showRat cd.1} {showRat cd.2}"
    | _ => none
  | "search" :: "|" :: rest =>
    -- the triple search alone, on a given centre part / domains (the floats the code used)
    match Drv13.splitOnTok "|" rest with
    | [se, sw, sd, scn, sst] => do
      let e ← rats se; let w ← rats sw; let d ← rats sd
      let cn ← (parseNats? scn).map Array.toList
      match e, d, sst with
      | [e0, e1], [d0, d1, c0, c1], a0 :: a1 :: nsa :: ncas => do
        let a0 ← parseRat? a0; let a1 ← parseRat? a1
        let nsa ← nsa.toNat?
        let ncas ← (parseNats? ncas).map Array.toList
        let saL := linspace 1 a0 nsa
        let caOf : Rat → List Rat := fun sa =>
          match (saL.zip ncas).find? (fun p => p.1 == sa) with
          | some p => linspace sa a1 p.2
          | none => []
        match searchNx e0 e1 w d0 d1 c0 c1 saL caOf cn with
        | none => some "none"
        | some f =>
          let isa := (saL.findIdx? (· == f.sa)).getD 0
          let ica := ((caOf f.sa).findIdx? (· == f.ca)).getD 0
          some s!"{f.nx} {isa} {ica} {f.sd.ws.length} {showRat f.res.x0} | {showL f.res.ws}"
      | _, _, _ => none
    | _ => none
  | "oaw" :: "|" :: rest =>
    match Drv13.splitOnTok "|" rest with
    | [s1, sdom, sdist, svec, sss, sfr, sroots, scn, sn] => do
      match s1 with
      | [c, dmin, coe, fc, wl, wr, mb, a0, a1, amaxF] => do
        let c ← parseRat? c; let dmin ← parseRat? dmin; let wl ← parseRat? wl; let wr ← parseRat? wr
        let mb ← parseRat? mb; let a0 ← parseRat? a0; let a1 ← parseRat? a1
        let amaxF ← parseRat? amaxF
        let dom ← pair (← rats sdom); let dist ← pair (← rats sdist)
        let vec ← rats svec; let ss ← rats sss
        let fr ← rats sfr; let roots ← rats sroots
        let cn ← (parseNats? scn).map Array.toList
        let ns ← (parseNats? sn).map Array.toList
        let nsa := ns.headD 1
        let ncas := ns.drop 1
        let saL := linspace 1 a0 nsa
        let caOf : Rat → List Rat := fun sa =>
          match (saL.zip ncas).find? (fun p => p.1 == sa) with
          | some p => linspace sa a1 p.2
          | none => []
        let inp : OawIn Rat := {
          center := c
          dmin := dmin
          centerOnEdge := coe == "1"
          fromCenter := fc == "1"
          wl := wl
          wr := wr
          maxBuffer := mb
          s0 := a0
          s1 := a1
          domain := dom
          distance := dist
          vector := if vec.isEmpty then none else some vec
          seasurface := ss.head?
          amaxF := amaxF
          frange := fr
          roots := roots
          cellNumbers := cn
          saL := saL
          caOf := caOf }
        match oaw nOf inp with
        | .error .needDomain => some "err-domain"
        | .error .seasurfaceBelowCenter => some "err-seasurface"
        | .ok o =>
          let head := s!"{showRat o.d0} {showRat o.d1} {showRat o.c0} {showRat o.c1} | " ++
            s!"{showRat o.ce0} {showRat o.ce1} | {showL o.cws} | " ++
            (match o.vectorUsed with | some v => showL v | none => "novec")
          match o.found with
          | none => some (head ++ " | none")
          | some f =>
            let isa := (saL.findIdx? (· == f.sa)).getD 0
            let ica := ((caOf f.sa).findIdx? (· == f.ca)).getD 0
            some (head ++ s!" | {f.nx} {isa} {ica} {f.sd.ws.length} {showRat f.res.x0} | {showL f.res.ws}")
      | _ => none
    | _ => none
  | _ => none

end Drv16
