import Emg3dVerif.Model.Num
import Emg3dVerif.Model.Noise
open Emg NoiseM

namespace Drv13

def splitOnTok (tok : String) (ws : List String) : List (List String) :=
  let rec go (ws : List String) (cur : List String) (acc : List (List String)) : List (List String) :=
    match ws with
    | [] => (cur.reverse :: acc).reverse
    | w :: t => if w == tok then go t [] (cur.reverse :: acc) else go t (w :: cur) acc
  go ws [] []

def parseVal (s : String) : Option Val :=
  if s == "nan" then some none
  else match s.splitOn "," with
    | [a, b] => do some (some (← parseRat? a, ← parseRat? b))
    | _ => none

def showVal : Val → String
  | none => "nan"
  | some (a, b) => s!"{showRat a},{showRat b}"

/-- C-ordered 3-D array from a flat list -/
def arrC {α : Type} (d : α) (a : Array α) (n2 n3 : Nat) : A3 α := fun i j k => a.getD ((i*n2 + j)*n3 + k) d

def flatC {α : Type} (f : A3 α) (n1 n2 n3 : Nat) (sh : α → String) : String :=
  " ".intercalate ((List.range n1).flatMap fun i => (List.range n2).flatMap fun j =>
    (List.range n3).map fun k => sh (f i j k))

def showParam (s : Survey) : Param → String
  | .none => "none"
  | .scalar q => s!"s:{showRat q}"
  | .array a => "a:" ++ flatC a s.ns s.nr s.nf showRat

def render (s : Survey) : String :=
  s!"{s.ns} {s.nr} {s.nf} # {",".intercalate s.srcN} # {",".intercalate s.recN} # {",".intercalate s.freqN}" ++
  " # obs " ++ flatC s.obs s.ns s.nr s.nf showVal ++
  " # nf " ++ showParam s s.noiseFloor ++ " # re " ++ showParam s s.relError ++
  " # std " ++ (match s.std with | none => "none" | some a => flatC a s.ns s.nr s.nf showRat) ++
  " # ssq " ++ flatC (fun i j k => stdSq s i j k) s.ns s.nr s.nf
      (fun o => match o with | none => "none" | some q => showRat q) ++
  " # extra " ++ " ".intercalate (s.extra.map fun e => e.1 ++ "=" ++
      ",".intercalate ((List.range s.ns).flatMap fun i => (List.range s.nr).flatMap fun j =>
        (List.range s.nf).map fun k => (showVal (e.2 i j k)).replace "," ":"))

def parseNames (s : String) : Option (List String) :=
  if s == "*" then none else if s == "-" then some [] else some (s.splitOn ",")

def parseSetVal (ws : List String) : Option SetVal :=
  match ws with
  | ["none"] => some .none
  | d1 :: d2 :: d3 :: vals => do
    let d1 ← d1.toNat?; let d2 ← d2.toNat?; let d3 ← d3.toNat?
    let v ← parseRats? vals
    if v.size != d1*d2*d3 then none else some (.arr d1 d2 d3 (arrC 0 v d2 d3))
  | _ => none

def step (s : Survey) (op : List String) : Option (Survey × String) :=
  match op with
  | "setnf" :: rest => do
    let v ← parseSetVal rest
    match setNF s v with | some t => some (t, render t) | none => some (s, "error")
  | "setre" :: rest => do
    let v ← parseSetVal rest
    match setRE s v with | some t => some (t, render t) | none => some (s, "error")
  | ["setstd", "none"] => (setStd s none).map fun t => (t, render t)
  | "setstd" :: vals => do
    let v ← parseRats? vals
    if v.size != s.ns*s.nr*s.nf then none else
    match setStd s (some (arrC 0 v s.nr s.nf)) with | some t => some (t, render t) | none => some (s, "error")
  | ["copy"] => some (s, render s)
  | ["select", a, b, c, re] =>
    let t := select s (parseNames a) (parseNames b) (parseNames c) (re == "1")
    some (t, render t)
  | "addnoise" :: mino :: maxo :: useoff :: amp :: addTo :: "/" :: rest => do
    match splitOnTok "/" rest with
    | [offs, noise] =>
      let offs ← parseRats? offs
      let noise ← noise.mapM parseVal
      let noiseA := noise.toArray
      let minO ← parseRat? mino
      let maxO ← (if maxo == "inf" then some none else (parseRat? maxo).map some)
      let m ← (if amp == "half" then some MinAmp.halfNf else if amp == "none" then some MinAmp.none
               else match amp.splitOn ":" with | ["val", q] => (parseRat? q).map MinAmp.value | _ => none)
      let t := addNoise s minO maxO (useoff == "1") m addTo
        (fun i j => offs.getD (i*s.nr + j) 0)
        (fun i j k => match noiseA.getD ((i*s.nr + j)*s.nf + k) none with | some v => v | none => (0,0))
      some (t, render t)
    | _ => none
  | _ => none

def handle (ws : List String) : Option String :=
  match ws with
  | "survey" :: ns :: nr :: nf :: "|" :: rest => do
    let ns ← ns.toNat?; let nr ← nr.toNat?; let nf ← nf.toNat?
    match splitOnTok "||" rest with
    | [init, ops] =>
      match splitOnTok "|" init with
      | [[sn], [rn], [fn], obs] =>
        let obs ← obs.mapM parseVal
        if obs.length != ns*nr*nf then none else
        let srcs := sn.splitOn ","
        let recs := rn.splitOn ","
        let freqs := fn.splitOn ","
        let s0 : Survey := {
          ns := ns
          nr := nr
          nf := nf
          srcN := srcs
          recN := recs
          freqN := freqs
          obs := arrC none obs.toArray nr nf
          extra := []
          noiseFloor := Param.none
          relError := Param.none
          std := none }
        let opl := splitOnTok ";;" ops
        let rec run (s : Survey) (ops : List (List String)) (acc : List String) : Option (List String) :=
          match ops with
          | [] => some acc.reverse
          | op :: t => match step s op with
            | some (s', o) => run s' t (o :: acc)
            | none => some (("bad-op:" ++ " ".intercalate op) :: acc).reverse
        let outs ← run s0 opl [render s0]
        some (" ;; ".intercalate outs)
      | _ => none
    | _ => none
  | "misfit" :: ns :: nr :: nf :: "|" :: rest => do
    let ns ← ns.toNat?; let nr ← nr.toNat?; let nf ← nf.toNat?
    match splitOnTok "|" rest with
    | [obs, syn, nfp, rep, std] =>
      let obs ← obs.mapM parseVal
      let syn ← syn.mapM parseVal
      let s0 : Survey := {
        ns := ns
        nr := nr
        nf := nf
        srcN := []
        recN := []
        freqN := []
        obs := arrC none obs.toArray nr nf
        extra := []
        noiseFloor := Param.none
        relError := Param.none
        std := none }
      let s1 ← setNF s0 (← parseSetVal nfp)
      let s2 ← setRE s1 (← parseSetVal rep)
      let s3 ← (match std with
        | ["none"] => some s2
        | vals => do
          let v ← parseRats? vals
          setStd s2 (some (arrC 0 v nr nf)))
      some (showRat (misfit s3 (arrC none syn.toArray nr nf)))
    | _ => none
  | _ => none

end Drv13
