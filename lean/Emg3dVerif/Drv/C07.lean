import Emg3dVerif.Model.Num
import Emg3dVerif.Model.Gradient
import Emg3dVerif.Drv.C13
open Emg Grad

namespace Drv07

def parseCase (s : String) : Option Case :=
  match s with
  | "isotropic" => some .isotropic | "HTI" => some .hti | "VTI" => some .vti
  | "triaxial" => some .triaxial | _ => none

/-- Fortran-ordered 3-D array -/
def arr3 (a : Array Rat) (n1 n2 : Nat) : Nat → Nat → Nat → Rat :=
  fun i j k => a.getD (i + n1 * (j + n2 * k)) 0

def flat (f : Nat → Nat → Nat → Rat) (n1 n2 n3 : Nat) : String :=
  " ".intercalate ((List.range n3).flatMap fun k => (List.range n2).flatMap fun j =>
    (List.range n1).map fun i => showRat (f i j k))

def handle (ws : List String) : Option String :=
  match ws with
  | "tovol" :: nx :: ny :: nz :: "|" :: rest => do
    let nx ← nx.toNat?; let ny ← ny.toNat?; let nz ← nz.toNat?
    match Drv13.splitOnTok "|" rest with
    | [vol, ex, ey, ez] => do
      let vol ← parseRats? vol; let ex ← parseRats? ex
      let ey ← parseRats? ey; let ez ← parseRats? ez
      if vol.size != nx*ny*nz || ex.size != nx*(ny+1)*(nz+1) || ey.size != (nx+1)*ny*(nz+1)
         || ez.size != (nx+1)*(ny+1)*nz then none else
      let V := arr3 vol nx ny
      let ox := toVolX ny nz V (arr3 ex nx (ny+1))
      let oy := toVolY nx nz V (arr3 ey (nx+1) ny)
      let oz := toVolZ nx ny V (arr3 ez (nx+1) (ny+1))
      some (flat ox nx ny nz ++ " | " ++ flat oy nx ny nz ++ " | " ++ flat oz nx ny nz)
    | _ => none
  | "collect" :: c :: [gx, gy, gz] => do
    let c ← parseCase c
    let gx ← parseRat? gx; let gy ← parseRat? gy; let gz ← parseRat? gz
    some (" ".intercalate ((collect c gx gy gz).map showRat))
  | "stack" :: c :: v => do
    let c ← parseCase c
    let v ← (parseRats? v).map Array.toList
    let s := stack c v
    some s!"{showRat s.1} {showRat s.2.1} {showRat s.2.2}"
  | _ => none

end Drv07
