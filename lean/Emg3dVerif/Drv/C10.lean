import Emg3dVerif.Model.Num
import Emg3dVerif.Model.Source
import Emg3dVerif.Drv.C13
open Emg Src

namespace Drv10

def g1 (a : Array Rat) : Grid1 Rat := { n := a.size - 1, nodes := fun i => a.getD i 0 }

def flat (f : F3 Rat) (n1 n2 n3 : Nat) : String :=
  " ".intercalate ((List.range n3).flatMap fun k => (List.range n2).flatMap fun j =>
    (List.range n1).map fun i => showRat (f i j k))

def renderEF (e : EF Rat) (nx ny nz : Nat) : String :=
  flat e.x nx (ny+1) (nz+1) ++ " | " ++ flat e.y (nx+1) ny (nz+1) ++ " | " ++ flat e.z (nx+1) (ny+1) nz

def arr3 (a : Array Rat) (n1 n2 : Nat) : F3 Rat := fun i j k => a.getD (i + n1*(j + n2*k)) 0

def handle (ws : List String) : Option String :=
  match ws with
  | "pvec" :: "|" :: rest =>
    match Drv13.splitOnTok "|" rest with
    | [nx, ny, nz, [x, y, z, d0, d1, d2]] => do
      let gx := g1 (← parseRats? nx); let gy := g1 (← parseRats? ny); let gz := g1 (← parseRats? nz)
      let v := pointVector gx gy gz (← parseRat? x, ← parseRat? y, ← parseRat? z)
        (← parseRat? d0, ← parseRat? d1, ← parseRat? d2)
      some (renderEF v gx.n gy.n gz.n)
    | _ => none
  | "recv" :: "|" :: rest =>
    match Drv13.splitOnTok "|" rest with
    | [nx, ny, nz, ex, ey, ez, [x, y, z, d0, d1, d2]] => do
      let gx := g1 (← parseRats? nx); let gy := g1 (← parseRats? ny); let gz := g1 (← parseRats? nz)
      let ex ← parseRats? ex; let ey ← parseRats? ey; let ez ← parseRats? ez
      let e : EF Rat := { x := arr3 ex gx.n (gy.n+1), y := arr3 ey (gx.n+1) gy.n, z := arr3 ez (gx.n+1) (gy.n+1) }
      let p := (← parseRat? x, ← parseRat? y, ← parseRat? z)
      let d := (← parseRat? d0, ← parseRat? d1, ← parseRat? d2)
      some ((if receiverIsNaN gx gy gz p then "nan " else "ok ") ++ showRat (receiverLinear gx gy gz e p d))
    | _ => none
  | "dvec" :: "|" :: rest =>
    match Drv13.splitOnTok "|" rest with
    | [nx, ny, nz, [x0, y0, z0, x1, y1, z1]] => do
      let gx := g1 (← parseRats? nx); let gy := g1 (← parseRats? ny); let gz := g1 (← parseRats? nz)
      let s : Seg Rat := { p0 := (← parseRat? x0, ← parseRat? y0, ← parseRat? z0),
                           p1 := (← parseRat? x1, ← parseRat? y1, ← parseRat? z1) }
      some (renderEF (dipoleVector gx gy gz s) gx.n gy.n gz.n)
    | _ => none
  | _ => none

end Drv10
