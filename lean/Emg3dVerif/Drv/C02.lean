import Emg3dVerif.Model.Num
import Emg3dVerif.Model.Amat
open Emg

namespace Drv02

/-- split a token list at "|" -/
def sections (ws : List String) : List (List String) :=
  let rec go (ws : List String) (cur : List String) (acc : List (List String)) : List (List String) :=
    match ws with
    | [] => (cur.reverse :: acc).reverse
    | "|" :: t => go t [] (cur.reverse :: acc)
    | w :: t => go t (w :: cur) acc
  go ws [] []

/-- Fortran-ordered 3-D accessor, zero outside -/
def arr3 (a : Array QI) (n1 n2 : Nat) : F3 QI := fun i j k => a.getD (i + n1*(j + n2*k)) 0
def arr1 (a : Array QI) : Nat → QI := fun i => a.getD i 0

def flat3 (f : F3 QI) (n1 n2 n3 : Nat) : List String := Id.run do
  let mut out : Array String := #[]
  for k in [0:n3] do
    for j in [0:n2] do
      for i in [0:n1] do
        out := out.push (showQI (f i j k))
  return out.toList

structure Inp where
  g : Grid QI
  m : VM QI
  e : EF QI

def parseInp (nx ny nz : Nat) (secs : List (List String)) : Option Inp :=
  match secs with
  | [hx, hy, hz, etax, etay, etaz, zeta, ex, ey, ez] => do
    let hx ← parseQIs? hx; let hy ← parseQIs? hy; let hz ← parseQIs? hz
    let etax ← parseQIs? etax; let etay ← parseQIs? etay; let etaz ← parseQIs? etaz
    let zeta ← parseQIs? zeta
    let ex ← parseQIs? ex; let ey ← parseQIs? ey; let ez ← parseQIs? ez
    if hx.size != nx || hy.size != ny || hz.size != nz then none
    else if etax.size != nx*ny*nz || etay.size != nx*ny*nz || etaz.size != nx*ny*nz
        || zeta.size != nx*ny*nz then none
    else if ex.size != nx*(ny+1)*(nz+1) || ey.size != (nx+1)*ny*(nz+1)
        || ez.size != (nx+1)*(ny+1)*nz then none
    else some {
      g := { nx := nx, ny := ny, nz := nz, hx := arr1 hx, hy := arr1 hy, hz := arr1 hz }
      m := { etaX := arr3 etax nx ny, etaY := arr3 etay nx ny, etaZ := arr3 etaz nx ny,
             zeta := arr3 zeta nx ny }
      e := { x := arr3 ex nx (ny+1), y := arr3 ey (nx+1) ny, z := arr3 ez (nx+1) (ny+1) } }
  | _ => none

def render (r : EF QI) (nx ny nz : Nat) : String :=
  " ".intercalate (flat3 r.x nx (ny+1) (nz+1)) ++ " | " ++
  " ".intercalate (flat3 r.y (nx+1) ny (nz+1)) ++ " | " ++
  " ".intercalate (flat3 r.z (nx+1) (ny+1) nz)

def handle (ws : List String) : Option String :=
  match ws with
  | "amat" :: nx :: ny :: nz :: "|" :: rest => do
    let nx ← nx.toNat?; let ny ← ny.toNat?; let nz ← nz.toNat?
    let inp ← parseInp nx ny nz (sections rest)
    some (render (amat inp.g inp.m inp.e) nx ny nz)
  | "fit" :: nx :: ny :: nz :: "|" :: rest => do
    let nx ← nx.toNat?; let ny ← ny.toNat?; let nz ← nz.toNat?
    let inp ← parseInp nx ny nz (sections rest)
    let r : EF QI := { x := fitX inp.g inp.m inp.e, y := fitY inp.g inp.m inp.e, z := fitZ inp.g inp.m inp.e }
    some (render r nx ny nz)
  | ["eta", smu0, seps0, sigma, epsr, vol] => do
    some (showQI (etaCoef (← parseQI? smu0) (← parseQI? seps0) (← parseQI? sigma) (← parseQI? epsr) (← parseQI? vol)))
  | ["zeta", vol, mur] => do
    some (showQI (zetaCoef (← parseQI? vol) (← parseQI? mur)))
  | _ => none

end Drv02
