import Emg3dVerif.Model.Num
import Emg3dVerif.Model.Solve
open Emg SolveM

namespace Drv01

def parseF (s : String) : Option FNum :=
  if s == "inf" then some .pinf else if s == "-inf" then some .ninf else if s == "nan" then some .nan
  else (parseRat? s).map .fin

def showF : FNum → String
  | .fin q => showRat q
  | .pinf => "inf"
  | .ninf => "-inf"
  | .nan => "nan"

def parseB (s : String) : Option Bool := if s == "1" then some true else if s == "0" then some false else none

def parseEv (s : String) : Option KEvent :=
  match s.splitOn ":" with
  | "P" :: inner :: r0 :: rs => do some (.precond (← parseF inner) (← parseF r0) (← rs.mapM parseF))
  | ["C", r] => do some (.callback (← parseF r))
  | ["R", i, rf] => do some (.ret (← i.toInt?) (← parseF rf))
  | _ => none

def handle (ws : List String) : Option String :=
  match ws with
  | "solve" :: fresh :: zs :: cyc :: ssl :: maxit :: mc :: tolRef :: divRef :: refe :: rprov :: "|" :: rest => do
    let secs := Drv02Sections rest
    match secs with
    | [mg, evs] =>
      let cfg : Cfg := { tolRef := ← parseF tolRef, divRef := ← parseF divRef, maxit := ← maxit.toNat?,
                         maxcycle := ← mc.toNat?, ssl := ← parseB ssl }
      let (r0, rs) ← (match mg with
        | [] => some (FNum.nan, [])
        | r0 :: rs => do some (← parseF r0, ← rs.mapM parseF))
      let inp : Inp := { fresh := ← parseB fresh, zeroSource := ← parseB zs, refe := ← parseF refe,
                         rProvided := ← parseF rprov, cycle := ← parseB cyc, cfg := cfg,
                         mgR0 := r0, mgRs := rs, events := ← evs.mapM parseEv }
      let o := solve inp
      some s!"{o.exit} | {o.msg.render} | {o.itMg} {o.itSsl} | {showF o.absErr} | {if o.ranSolver then 1 else 0} {if o.zeroField then 1 else 0} {if o.returned then 1 else 0}"
    | _ => none
  | _ => none
where
  Drv02Sections (ws : List String) : List (List String) :=
    let rec go (ws : List String) (cur : List String) (acc : List (List String)) : List (List String) :=
      match ws with
      | [] => (cur.reverse :: acc).reverse
      | "|" :: t => go t [] (cur.reverse :: acc)
      | w :: t => go t (w :: cur) acc
    go ws [] []

end Drv01
