import Emg3dVerif.Model.SimState
open SimM

namespace Drv12

def showV : Option Ver → String
  | none => "-"
  | some v => toString v
def showVs (l : List (Option Ver)) : String := ",".intercalate (l.map showV)
def showW : Option Nat → String
  | none => "r"
  | some w => s!"w{w}"

def showRet : Ret → String
  | .none => "none"
  | .misfit s => s!"mis[{showVs s}]"
  | .gradient e s w => s!"grad[{showVs e}|{showVs s}|{showW w}]"
  | .jvec e => s!"jvec[{showVs e}]"
  | .field v => s!"field[{showV v}]"

def b (x : Bool) : String := if x then "1" else "0"

def showSim (s : Sim) : String :=
  s!"ver={s.ver} ef={showVs s.efield} syn={showVs s.syn} comp={b s.computed} " ++
  s!"mc={b s.misfit.isSome} gc={b s.grad.isSome} bf={b s.bfield} res={b s.residual.isSome} tol={b s.tolFwd}"

def parseOp (t : String) : Option Op :=
  match t.splitOn ":" with
  | ["compute"] => some .compute
  | ["misfit"] => some .misfit
  | ["gradient"] => some .gradient
  | ["jvec"] => some .jvec
  | ["jtvec", w] => w.toNat?.map .jtvec
  | ["ge", p] => p.toNat?.map .getEfield
  | ["gh", p] => p.toNat?.map .getHfield
  | ["clean", "computed"] => some (.clean .computed)
  | ["clean", "keepresults"] => some (.clean .keepresults)
  | ["clean", "all"] => some (.clean .all)
  | ["copy", "computed"] => some (.copy .computed)
  | ["copy", "results"] => some (.copy .results)
  | ["copy", "all"] => some (.copy .all)
  | ["copy", "plain"] => some (.copy .plain)
  | ["update"] => some .updateModel
  | _ => none

def handle (ws : List String) : Option String :=
  match ws with
  | "sim" :: np :: "|" :: ops => do
    let np ← np.toNat?
    let ops ← ops.mapM parseOp
    let rec go (s : Sim) (ops : List Op) (acc : List String) : List String :=
      match ops with
      | [] => acc.reverse
      | op :: t => let (s', r) := step s op; go s' t ((showRet r ++ " ; " ++ showSim s') :: acc)
    some (" ;; ".intercalate (go (fresh np 0) ops []))
  | _ => none

end Drv12
