import Emg3dVerif.Model.Maps
open MapsM

namespace Drv14

def parseCls (s : String) : Option Cls :=
  match s with
  | "neg" => some .neg | "zero" => some .zero | "pos" => some .pos
  | "pinf" => some .pinf | "ninf" => some .ninf | "nan" => some .nan
  | _ => none

instance : Elem Float where
  ln := Float.log
  lg := Float.log10
  ex := Float.exp
  p10 := fun x => Float.pow 10 x
  ln10 := Float.log 10

def parseMap (s : String) : Option Mapping :=
  match s with
  | "Conductivity" => some .conductivity | "LgConductivity" => some .lgConductivity
  | "LnConductivity" => some .lnConductivity | "Resistivity" => some .resistivity
  | "LgResistivity" => some .lgResistivity | "LnResistivity" => some .lnResistivity
  | _ => none

def bits (s : String) : Option Float := s.toNat?.map fun n => Float.ofBits n.toUInt64

def handle (ws : List String) : Option String :=
  match ws with
  | "validate" :: unset :: cls => do
    let cls ← cls.mapM parseCls
    some (match check (unset == "1") cls with
      | .ok => "ok" | .errNotSet => "not-set" | .errPositive => "positive" | .errFinite => "finite")
  | "map" :: m :: fn :: xs => do
    let m ← parseMap m
    let xs ← xs.mapM bits
    let f : Float → Float ← (match fn with
      | "forward" => some (forward m) | "backward" => some (backward m)
      | "chain" => some (chain m) | _ => none)
    some (" ".intercalate (xs.map fun x => toString (f x).toBits.toNat))
  | _ => none

end Drv14
