import Emg3dVerif.Model.IoTree
import Emg3dVerif.Model.JsonKey
open IoT

/-! Line protocol for the io tree model.  Tokens: `(` … `)` dictionary of `K<key> <tree>` pairs,
`{` … `}` instance (its `to_dict()`), leaves `N`, `S<text>`, `B0`/`B1`, `X<kind>:<v>`,
`A<dtype>:<v>`; keys and texts are given with '_' escapes by the harness (no spaces). -/
namespace Drv17

def parseLeaf (s : String) : Option Leaf :=
  if s == "N" then some .none
  else if s.startsWith "S" then some (.str (s.drop 1).toString)
  else if s == "B0" then some (.bool false)
  else if s == "B1" then some (.bool true)
  else if s.startsWith "X" then
    match ((s.drop 1).toString.splitOn ":") with
    | [k, v] => some (.num k v)
    | _ => none
  else if s.startsWith "A" then
    match ((s.drop 1).toString.splitOn ":") with
    | [k, v] => some (.arr k v)
    | _ => none
  else none

mutual
partial def parseTree : List String → Option (Tree × List String)
  | "(" :: r => do
    let (f, r) ← parseForest r
    match r with
    | ")" :: r => some (.node f, r)
    | _ => none
  | "{" :: r => do
    let (f, r) ← parseForest r
    match r with
    | "}" :: r => some (.obj f, r)
    | _ => none
  | t :: r => do
    let l ← parseLeaf t
    some (.leaf l, r)
  | [] => none
partial def parseForest : List String → Option (Forest × List String)
  | k :: r =>
    if k.startsWith "K" then do
      let (t, r) ← parseTree r
      let (f, r) ← parseForest r
      some (.cons (k.drop 1).toString.toList t f, r)
    else some (.nil, k :: r)
  | [] => some (.nil, [])
end

def showLeaf : Leaf → String
  | .none => "N"
  | .str s => "S" ++ s
  | .bool b => if b then "B1" else "B0"
  | .num k v => "X" ++ k ++ ":" ++ v
  | .arr k v => "A" ++ k ++ ":" ++ v

mutual
partial def showTree : Tree → String
  | .leaf l => showLeaf l
  | .node f => "( " ++ showForest f ++ ")"
  | .obj f => "{ " ++ showForest f ++ "}"
partial def showForest : Forest → String
  | .nil => ""
  | .cons k t r => "K" ++ String.ofList k ++ " " ++ showTree t ++ " " ++ showForest r
end

/-- flags of the JSON encoding by leaf kind (payloads are opaque) -/
def codec : Codec where
  enc := fun l => match l with
    | .num "complex" v => (⟨true, some "float64"⟩, .list ("c:" ++ v))
    | .arr "complex128" v => (⟨true, some "float64"⟩, .list ("C128:" ++ v))
    | .arr "complex64" v => (⟨true, some "float32"⟩, .list ("C64:" ++ v))
    | .arr d v => (⟨false, some d⟩, .list v)
    | .none => (⟨false, none⟩, .null)
    | .str s => (⟨false, none⟩, .str s)
    | .bool b => (⟨false, none⟩, .bool b)
    | .num k v => (⟨false, none⟩, .num (k ++ ":" ++ v))
  dec := fun _ _ => .none

mutual
partial def showJT : JTree → String
  | .leaf fl j =>
    "J" ++ (if fl.cplx then "c" else "-") ++ (match fl.arr with | some d => "a" ++ d | none => "-")
      ++ (match j with | .null => ":null" | .str _ => ":str" | .bool _ => ":bool" | .num _ => ":num"
                       | .list _ => ":list")
  | .node f => "( " ++ showJF f ++ ")"
partial def showJF : JForest → String
  | .nil => ""
  | .cons k t r => "K" ++ String.ofList k ++ " " ++ showJT t ++ " " ++ showJF r
end

def forestOf (ws : List String) : Option Forest := do
  let (t, r) ← parseTree ws
  if !r.isEmpty then none else
  match t with
  | .node f => some f
  | _ => none

partial def entries : List String → Option (List (Key × Leaf))
  | [] => some []
  | k :: l :: r =>
    if k.startsWith "K" then do
      let l ← parseLeaf l
      let rest ← entries r
      some (((k.drop 1).toString.toList, l) :: rest)
    else none
  | _ => none

/-- strings as dot-separated code points (`-` = empty) -/
def hexOf (s : List Char) : String :=
  if s.isEmpty then "-" else ".".intercalate (s.map fun c => toString c.toNat)
def ofHex (w : String) : Option (List Char) :=
  if w == "-" then some [] else (w.splitOn ".").mapM fun t => do
    let n ← t.toNat?
    some (Char.ofNat n)

def handle (ws : List String) : Option String :=
  match ws with
  | ["io", "jkey", k, c, d] => do
    -- flagged key, and what is recovered from it
    let k ← ofHex k
    let arr ← (if d == "none" then some none else (ofHex d).map some)
    let fk := JKey.flagKey k (c == "1") arr
    let r := JKey.unflagKey fk
    some (hexOf fk ++ " " ++ hexOf r.1 ++ " " ++ (if r.2.1 then "1" else "0") ++ " " ++
      (match r.2.2 with | some a => hexOf a | none => "none"))
  | "io" :: "jshape" :: dims => do
    -- shape of an array after tolist() / asarray
    let s ← dims.mapM fun d => d.toNat?
    some (" ".intercalate ((JShape.shapeOf (JShape.nest s)).map toString))
  | ["io", "junflag", k] => do
    let k ← ofHex k
    let r := JKey.unflagKey k
    some (hexOf r.1 ++ " " ++ (if r.2.1 then "1" else "0") ++ " " ++
      (match r.2.2 with | some a => hexOf a | none => "none"))
  | "io" :: "ser" :: r => do
    let f ← forestOf r
    some (showTree (.node (serF f)))
  | "io" :: "non" :: r => do
    let f ← forestOf r
    some (showTree (.node (nonF f)))
  | "io" :: "des" :: r => do
    let i ← r.idxOf? "|"
    let known := r.take i
    let f ← forestOf (r.drop (i+1))
    some (showTree (.node (desF (fun c => known.contains c) f)))
  | "io" :: "flat" :: r => do
    let f ← forestOf r
    some (" ".intercalate ((flatF [] f).map fun e => "K" ++ String.ofList e.1 ++ " " ++ showLeaf e.2))
  | "io" :: "unflat" :: r => do
    let es ← entries r
    some (showTree (.node (unflatten es)))
  | "io" :: "dearr" :: r => do
    let f ← forestOf r
    some ("( " ++ showJF (dearrF codec f) ++ ")")
  | "io" :: "load" :: fmt :: r => do
    -- load (save f) for the three formats, with the structural codec replaced by the identity
    let i ← r.idxOf? "|"
    let known := r.take i
    let f ← forestOf (r.drop (i+1))
    let kn : String → Bool := fun c => known.contains c
    let raw : Forest ← (match fmt with
      | "h5" => some (serF f)
      | "json" => some (serF f)
      | "npz" => some (unflatten (flatF [] (serF f)))
      | _ => none)
    some (showTree (.node (desF kn (nonF raw))))
  | _ => none

end Drv17
