import Emg3dVerif.Model.ProcessMap
open PMap

namespace Drv11

def handle (ws : List String) : Option String :=
  match ws with
  | "pmap" :: n :: "|" :: order => do
    let n ← n.toNat?
    let order ← order.mapM String.toNat?
    let xs := List.range n
    let r := collectOrdered n (completions (fun x => x) xs order 0)
    let u := collectUnordered (completions (fun x => x) xs order 0)
    some (" ".intercalate (r.map fun o => match o with | some v => toString v | none => "-") ++ " | " ++
          " ".intercalate (u.map toString))
  | ["fname", what, src, freq] => some (fname what src freq ++ " " ++ fnameOut what src freq)
  | "slots" :: "|" :: rest =>
    -- slots | s1 s2 … | f1 f2 … : the task list and the slot of each task
    let srcs := rest.takeWhile (· != "|")
    let freqs := (rest.dropWhile (· != "|")).drop 1
    match (some (srcs, freqs) : Option (List String × List String)) with
    | some (srcs, freqs) =>
      let pairs := srcfreq srcs freqs
      some (" ".intercalate (pairs.map fun p => p.1 ++ ":" ++ p.2))
    | _ => none
  | _ => none

end Drv11
