import Emg3dVerif.Model.Num
import Emg3dVerif.Model.Layered
import Emg3dVerif.Drv.C13
open Emg Lay

namespace Drv19

def handle (ws : List String) : Option String :=
  match ws with
  | "imat" :: "|" :: rest =>
    match Drv13.splitOnTok "|" rest with
    | [dims, hx, hy, rect, cyl, use] => do
      let dims ← parseNats? dims
      let hx ← parseRats? hx; let hy ← parseRats? hy
      let rect ← parseNats? rect
      let use ← parseNats? use
      if dims.size != 2 || rect.size != 4 then none else
      let nx := dims[0]!; let ny := dims[1]!
      if hx.size != nx || hy.size != ny || use.size != nx * ny then none else
      let inRect : Nat → Nat → Bool := fun i j =>
        rect[0]! ≤ i && i ≤ rect[1]! && rect[2]! ≤ j && j ≤ rect[3]!
      let useF : Nat → Nat → Bool := fun i j => use.getD (i * ny + j) 0 == 1
      let m := imat nx ny (fun i => hx.getD i 0) (fun j => hy.getD j 0) inRect useF (cyl == ["1"])
      some (" ".intercalate ((List.range nx).flatMap fun i => (List.range ny).map fun j =>
        showRat (m i j)))
    | _ => none
  | "merge" :: nz :: "|" :: rest => do
    let nz ← nz.toNat?
    let props ← (Drv13.splitOnTok "|" rest).mapM fun p => parseRats? p
    let fs : List (Nat → Rat) := props.map fun a => fun k => a.getD k 0
    some (" ".intercalate ((mergeIdx fs nz).map toString))
  | "lslots" :: nf :: nr :: bits => do
    let nf ← nf.toNat?; let nr ← nr.toNat?
    let b ← parseNats? bits
    if b.size != nf * nr then none else
    let fin : Nat → Nat → Bool := fun r f => b.getD (r * nf + f) 0 == 1
    some (" | ".intercalate ((List.range nr).map fun r =>
      " ".intercalate ((usedFreqs nf fin r).map toString)))
  | _ => none

end Drv19
