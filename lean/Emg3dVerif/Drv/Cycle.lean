import Emg3dVerif.Model.Num
import Emg3dVerif.Model.Cycle
import Emg3dVerif.Drv.C03
import Emg3dVerif.Drv.C05
open Emg MGH

namespace DrvCycle

/-- `mgrun <header of the `mg` op> | hx | hy | hz | eta_x | eta_y | eta_z | zeta | ex | ey | ez |
sx | sy | sz` → flag, number of levels left on the stack, final fine-grid field -/
def handle (ws : List String) : Option String :=
  match ws with
  | "mgrun" :: cyc :: nx :: ny :: nz :: user :: scp :: lrp :: nui :: nup :: nuc :: nupo :: ncyc ::
      k0 :: "|" :: rest => do
    let nx ← nx.toNat?; let ny ← ny.toNat?; let nz ← nz.toNat?
    let user ← Drv05.userOf user
    let scp ← Drv05.digits scp; let lrp ← Drv05.digits lrp
    let cfg : Cfg := { cycmax := if cyc == "V" then 1 else 2, isF := cyc == "F",
                       nuInit := ← nui.toNat?, nuPre := ← nup.toNat?, nuCoarse := ← nuc.toNat?,
                       nuPost := ← nupo.toNat? }
    let r : Run := { cfg := cfg, user := user, shape := (nx, ny, nz), scPat := scp, lrPat := lrp,
                     ncyc := ← ncyc.toNat?, k0 := ← k0.toNat? }
    if scp.isEmpty || lrp.isEmpty then none
    else
      let (inp, s) ← Drv03.parseS nx ny nz (Drv02.sections rest)
      let out := mgRun r { g := inp.g, m := inp.m, s := s, e := inp.e }
      match out.1 with
      | [l] => some ((if out.2 then "ok" else "fail") ++ " | " ++ Drv02.render l.e nx ny nz)
      | ls => some s!"stack {ls.length}"
  | _ => none

end DrvCycle
