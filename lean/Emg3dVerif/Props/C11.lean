import Emg3dVerif.Model.ProcessMap
import Mathlib.Data.List.Perm.Basic
import Mathlib.Data.List.Nodup
/-!
# C11 — survey results do not depend on worker count, scheduling or file-based mode

`PMap` models the collection logic of `process_map` and the slot bookkeeping of the
simulation (tied to the code by `harness/c11.py`: adversarial task latencies, 1…16 workers,
with/without progress bar; bit-identity of real simulations across execution settings).
-/
namespace PMap

theorem find_completion {α β : Type} (f : α → β) (xs : List α) (d : α) (order : List Nat) (i : Nat)
    (hi : i ∈ order) :
    ((completions f xs order d).find? (·.1 == i)).map (·.2) = some (f (xs.getD i d)) := by
  induction order with
  | nil => cases hi
  | cons j t ih =>
    simp only [completions, List.map_cons, List.find?_cons]
    by_cases hji : j = i
    · subst hji; simp
    · have : (j == i) = false := by simpa using hji
      simp only [this]
      have hit : i ∈ t := by
        rcases List.mem_cons.1 hi with h | h
        · exact absurd h.symm hji
        · exact h
      exact ih hit

/-- **For every completion order (and hence every worker count and scheduling) the returned
list is `inputs.map f`**: slot `i` of the result is the result of task `i`. -/
theorem process_map_order {α β : Type} (f : α → β) (xs : List α) (d : α) (order : List Nat)
    (hperm : order.Perm (List.range xs.length)) :
    collectOrdered xs.length (completions f xs order d) = (xs.map f).map some := by
  unfold collectOrdered
  rw [List.map_map]
  apply List.ext_getElem
  · simp
  · intro i h1 h2
    simp only [List.getElem_map, List.getElem_range]
    have hi : i < xs.length := by simpa using h1
    have hmem : i ∈ order := hperm.symm.subset (List.mem_range.2 hi)
    rw [find_completion f xs d order i hmem]
    simp [List.getD_eq_getElem?_getD, List.getElem?_eq_getElem hi]

/-- results are a deterministic function of the inputs: two runs with different completion
orders return the same list -/
theorem results_deterministic {α β : Type} (f : α → β) (xs : List α) (d : α) (o1 o2 : List Nat)
    (h1 : o1.Perm (List.range xs.length)) (h2 : o2.Perm (List.range xs.length)) :
    collectOrdered xs.length (completions f xs o1 d)
      = collectOrdered xs.length (completions f xs o2 d) := by
  rw [process_map_order f xs d o1 h1, process_map_order f xs d o2 h2]

/-- an `as_completed` collector would *not* have this property: two tasks finishing in reverse
order swap their results -/
theorem unordered_breaks_slots :
    collectUnordered (completions (fun x : Nat => x * 10) [1, 2] [1, 0] 0) ≠ [1, 2].map (· * 10) := by
  decide

/-- **every source–frequency slot receives the result of its own task** -/
theorem slots_get_own_result {S F β : Type} [DecidableEq S] [DecidableEq F]
    (pairs : List (S × F)) (hn : pairs.Nodup) (g : S × F → β) (s : S) (f : F)
    (h : (s, f) ∈ pairs) : storeBack pairs (pairs.map g) s f = some (g (s, f)) := by
  unfold storeBack
  induction pairs with
  | nil => cases h
  | cons p t ih =>
    by_cases hp : p = (s, f)
    · subst hp
      simp [List.findIdx?_cons]
    · have hne : ¬ (p.1 = s ∧ p.2 = f) := by
        intro hh; apply hp; cases p; simp_all
      have hmem : (s, f) ∈ t := by
        rcases List.mem_cons.1 h with h1 | h1
        · exact absurd h1.symm hp
        · exact h1
      have ih' := ih (List.nodup_cons.1 hn).2 hmem
      simp only [List.findIdx?_cons, hne, decide_false, Bool.false_eq_true, if_false]
      cases hf : t.findIdx? (fun p => decide (p.1 = s ∧ p.2 = f)) with
      | none => rw [hf] at ih'; cases ih'
      | some i =>
        rw [hf] at ih'
        show (match Option.map (fun i => i + 1) (some i) with
          | some i => (List.map g (p :: t))[i]?
          | none => none) = some (g (s, f))
        simpa using ih'

/-- the task list contains every pair exactly once -/
theorem srcfreq_nodup {S F : Type} (srcs : List S) (freqs : List F) (hs : srcs.Nodup)
    (hf : freqs.Nodup) : (srcfreq srcs freqs).Nodup := by
  unfold srcfreq
  induction srcs with
  | nil => simp
  | cons s t ih =>
    simp only [List.flatMap_cons]
    rw [List.nodup_append]
    refine ⟨?_, ih (List.nodup_cons.1 hs).2, ?_⟩
    · exact hf.map (fun a b h => by injection h)
    · intro a ha b hb hab
      subst hab
      obtain ⟨f1, _, rfl⟩ := List.mem_map.1 ha
      obtain ⟨s2, hs2, hb2⟩ := List.mem_flatMap.1 hb
      obtain ⟨f2, _, h2⟩ := List.mem_map.1 hb2
      injection h2 with h3 _
      subst h3
      exact (List.nodup_cons.1 hs).1 hs2

/-- file names of distinct tasks can collide when names contain `_` (known finding) -/
theorem file_names_collision_counterexample :
    fname "efield" "a_b" "c" = fname "efield" "a" "b_c" ∧ ("a_b", "c") ≠ ("a", "b_c") := by
  decide


theorem split_unique {α : Type} [DecidableEq α] (c : α) :
    ∀ (a a' b b' : List α), c ∉ a → c ∉ a' → a ++ c :: b = a' ++ c :: b' → a = a' ∧ b = b' := by
  intro a
  induction a with
  | nil =>
    intro a' b b' _ h' h
    cases a' with
    | nil => simp at h; exact ⟨rfl, h⟩
    | cons x t =>
      simp only [List.nil_append, List.cons_append, List.cons.injEq] at h
      exact absurd (h.1 ▸ List.mem_cons_self) h'
  | cons x t ih =>
    intro a' b b' h1 h' h
    cases a' with
    | nil =>
      simp only [List.nil_append, List.cons_append, List.cons.injEq] at h
      exact absurd (h.1.symm ▸ List.mem_cons_self) h1
    | cons y t' =>
      simp only [List.cons_append, List.cons.injEq] at h
      obtain ⟨rfl, h2⟩ := h
      have := ih t' b b' (fun hh => h1 (List.mem_cons_of_mem _ hh))
        (fun hh => h' (List.mem_cons_of_mem _ hh)) h2
      exact ⟨by rw [this.1], this.2⟩

/-- **file names are injective for names without `_`** (the default names `TxED-1`, `f-1`, …) -/
theorem file_names_injective_partial (what s s' f f' : String)
    (hs : '_' ∉ s.toList) (hs' : '_' ∉ s'.toList)
    (h : fname what s f = fname what s' f') : s = s' ∧ f = f' := by
  unfold fname at h
  have h1 : (what ++ "_" ++ s ++ "_" ++ f ++ ".h5").toList = (what ++ "_" ++ s' ++ "_" ++ f' ++ ".h5").toList := by
    rw [h]
  simp only [String.toList_append] at h1
  have h2 : s.toList ++ ("_".toList ++ (f.toList ++ ".h5".toList))
      = s'.toList ++ ("_".toList ++ (f'.toList ++ ".h5".toList)) := by
    have := List.append_cancel_left (as := what.toList ++ "_".toList) (by simpa [List.append_assoc] using h1)
    simpa [List.append_assoc] using this
  have h3 := split_unique '_' s.toList s'.toList (f.toList ++ ".h5".toList) (f'.toList ++ ".h5".toList)
    hs hs' (by simpa using h2)
  refine ⟨String.ext_iff.2 (by simpa using h3.1), ?_⟩
  have := List.append_cancel_right h3.2
  exact String.ext_iff.2 (by simpa using this)
end PMap
