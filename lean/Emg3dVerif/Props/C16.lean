import Emg3dVerif.Lemmas.Gridding
import Emg3dVerif.Lemmas.Hier
/-!
# C16 — automatic gridding meets its stated postconditions or fails loudly

Theorems about the model `Grd` (`Model/Gridding.lean`) of `emg3d.meshes._stretch`,
`origin_and_widths`, `_seasurface`, `good_mg_cell_nr`, over an arbitrary linearly ordered field.
-/
set_option linter.unusedSectionVars false
namespace Grd
variable {K : Type} [Field K] [LinearOrder K] [IsStrictOrderedRing K]

/-- what a successful `_stretch` returns, in closed form -/
theorem stretch_some {e0 e1 : K} {ws : List K} {α : K} {nx : Nat} {d0 d1 : K} {up : Bool}
    {r : SRes K} (h : stretch e0 e1 ws α nx d0 d1 up = some r) :
    ∃ nl nr nl' nr' : Nat,
      e0 - sum ((geo (ws.head?.getD 0) α nx).take nl) ≤ d0 ∧
      d1 ≤ e1 + sum ((geo (ws.getLast?.getD 0) α nx).take nr) ∧
      nl ≤ nl' ∧ nr ≤ nr' ∧ nl' ≤ nx ∧ nr' ≤ nx ∧
      ws.length + nl' + nr' + r.remain = nx ∧ (up = true → r.remain = 0) ∧
      r.x0 = e0 - sum (geo (ws.head?.getD 0) α nl') ∧
      r.x1 = e1 + sum (geo (ws.getLast?.getD 0) α nr') ∧
      r.ws = (geo (ws.head?.getD 0) α nl').reverse ++ ws ++ geo (ws.getLast?.getD 0) α nr' := by
  unfold stretch at h
  simp only at h
  split at h
  · rename_i hc
    obtain ⟨hc1, hc2, hc3⟩ := hc
    injection h with h
    subst h
    set nl := nLeft e0 d0 (geo (ws.head?.getD 0) α nx) with hnl
    set nr := nRight e1 d1 (geo (ws.getLast?.getD 0) α nx) with hnr
    cases up
    · refine ⟨nl, nr, nl, nr, hc1, hc2, le_refl _, le_refl _, by omega, by omega, ?_, by simp, ?_, ?_, ?_⟩
      · simp; omega
      · simp [geo_take, Nat.min_eq_left (show nl ≤ nx by omega)]
      · simp [geo_take, Nat.min_eq_left (show nr ≤ nx by omega)]
      · simp [geo_take, Nat.min_eq_left (show nl ≤ nx by omega),
          Nat.min_eq_left (show nr ≤ nx by omega)]
    · refine ⟨nl, nr, nl + (nx - (ws.length + nl + nr)) / 2,
        nr + (nx - (ws.length + nl + nr) + 1) / 2, hc1, hc2, by omega, by omega, by omega,
        by omega, ?_, by simp, ?_, ?_, ?_⟩
      · simp; omega
      · simp [geo_take, Nat.min_eq_left (show nl + (nx - (ws.length + nl + nr)) / 2 ≤ nx by omega)]
      · simp [geo_take,
          Nat.min_eq_left (show nr + (nx - (ws.length + nl + nr) + 1) / 2 ≤ nx by omega)]
      · simp [geo_take, Nat.min_eq_left (show nl + (nx - (ws.length + nl + nr)) / 2 ≤ nx by omega),
          Nat.min_eq_left (show nr + (nx - (ws.length + nl + nr) + 1) / 2 ≤ nx by omega)]
  · exact absurd h (by simp)

theorem head_pos {ws : List K} (hne : ws ≠ []) (hpos : ∀ w ∈ ws, 0 < w) :
    0 < ws.head?.getD 0 := by
  cases ws with
  | nil => exact absurd rfl hne
  | cons a t => simpa using hpos a (by simp)

theorem last_pos {ws : List K} (hne : ws ≠ []) (hpos : ∀ w ∈ ws, 0 < w) :
    0 < ws.getLast?.getD 0 := by
  have := List.getLast?_eq_some_getLast hne
  rw [this]
  simpa using hpos _ (List.getLast_mem hne)

section stretch
variable {e0 e1 : K} {ws : List K} {α : K} {nx : Nat} {d0 d1 : K} {up : Bool} {r : SRes K}

/-- **cell count**: the returned widths use `nx − remain` cells; all `nx` with `use_up` -/
theorem stretch_length (h : stretch e0 e1 ws α nx d0 d1 up = some r) :
    r.ws.length + r.remain = nx ∧ (up = true → r.ws.length = nx) := by
  obtain ⟨nl, nr, nl', nr', -, -, -, -, -, -, hlen, hup, -, -, hws⟩ := stretch_some h
  have : r.ws.length = ws.length + nl' + nr' := by rw [hws]; simp; omega
  refine ⟨by omega, fun hu => ?_⟩
  have := hup hu
  omega

/-- **coverage**: a returned grid reaches the domain on both sides -/
theorem stretch_covers (hα : 0 < α) (hne : ws ≠ []) (hpos : ∀ w ∈ ws, 0 < w)
    (h : stretch e0 e1 ws α nx d0 d1 up = some r) : r.x0 ≤ d0 ∧ d1 ≤ r.x1 := by
  obtain ⟨nl, nr, nl', nr', h0, h1, hl, hr, hln, hrn, -, -, hx0, hx1, -⟩ := stretch_some h
  have pl := geo_pos (head_pos hne hpos) hα nx
  have pr := geo_pos (last_pos hne hpos) hα nx
  have ml := sum_take_le (l := geo (ws.head?.getD 0) α nx) (fun x hx => (pl x hx).le) hl
  have mr := sum_take_le (l := geo (ws.getLast?.getD 0) α nx) (fun x hx => (pr x hx).le) hr
  rw [geo_take _ _ _ nl', Nat.min_eq_left hln] at ml
  rw [geo_take _ _ _ nr', Nat.min_eq_left hrn] at mr
  rw [hx0, hx1]
  constructor <;> linarith

/-- the grid only grows: the centre part stays inside -/
theorem stretch_outward (hα : 0 < α) (hne : ws ≠ []) (hpos : ∀ w ∈ ws, 0 < w)
    (h : stretch e0 e1 ws α nx d0 d1 up = some r) : r.x0 ≤ e0 ∧ e1 ≤ r.x1 := by
  obtain ⟨nl, nr, nl', nr', -, -, -, -, -, -, -, -, hx0, hx1, -⟩ := stretch_some h
  have pl := sum_nonneg (fun x hx => (geo_pos (head_pos hne hpos) hα nl' x hx).le)
  have pr := sum_nonneg (fun x hx => (geo_pos (last_pos hne hpos) hα nr' x hx).le)
  rw [hx0, hx1]
  constructor <;> linarith

/-- **extent**: origin plus the sum of the widths is the upper end -/
theorem stretch_extent (he : e1 = e0 + sum ws)
    (h : stretch e0 e1 ws α nx d0 d1 up = some r) : r.x1 = r.x0 + sum r.ws := by
  obtain ⟨nl, nr, nl', nr', -, -, -, -, -, -, -, -, hx0, hx1, hws⟩ := stretch_some h
  rw [hx0, hx1, hws, sum_append, sum_append, sum_reverse, he]
  ring

/-- **positivity** of all widths -/
theorem stretch_pos (hα : 0 < α) (hne : ws ≠ []) (hpos : ∀ w ∈ ws, 0 < w)
    (h : stretch e0 e1 ws α nx d0 d1 up = some r) : ∀ w ∈ r.ws, 0 < w := by
  obtain ⟨nl, nr, nl', nr', -, -, -, -, -, -, -, -, -, -, hws⟩ := stretch_some h
  intro w hw
  rw [hws] at hw
  simp only [List.mem_append, List.mem_reverse] at hw
  rcases hw with (hw | hw) | hw
  · exact geo_pos (head_pos hne hpos) hα _ w hw
  · exact hpos w hw
  · exact geo_pos (last_pos hne hpos) hα _ w hw

theorem stretch_ne_nil (hne : ws ≠ []) (h : stretch e0 e1 ws α nx d0 d1 up = some r) :
    r.ws ≠ [] := by
  obtain ⟨nl, nr, nl', nr', -, -, -, -, -, -, -, -, -, -, hws⟩ := stretch_some h
  rw [hws]; simp [hne]

/-- **stretching bound**: if neighbouring widths of the centre part differ by at most the factor
`β` and `1 ≤ α ≤ β`, the same holds for the whole returned grid (the new cells grow exactly by
`α`, also across the junctions) -/
theorem stretch_bounded {β : K} (h1 : 1 ≤ α) (h2 : α ≤ β) (hne : ws ≠ [])
    (hpos : ∀ w ∈ ws, 0 < w) (hc : ws.IsChain (Within β))
    (h : stretch e0 e1 ws α nx d0 d1 up = some r) : r.ws.IsChain (Within β) := by
  obtain ⟨nl, nr, nl', nr', -, -, -, -, -, -, -, -, -, -, hws⟩ := stretch_some h
  have hα : 0 < α := by linarith
  have hh := head_pos hne hpos
  have hl := last_pos hne hpos
  rw [hws]
  refine List.IsChain.append (List.IsChain.append ?_ hc ?_) (geo_chain hl h1 h2 _) ?_
  · exact isChain_reverse_symm (fun a b => Within.symm) (geo_chain hh h1 h2 _)
  · intro x hx y hy
    rw [List.getLast?_reverse] at hx
    rw [geo_head _ _ _ x hx]
    cases ws with
    | nil => exact absurd rfl hne
    | cons a t =>
      simp only [List.head?_cons, Option.mem_def, Option.some.injEq] at hy
      subst hy
      simpa using (within_mul hh h1 h2).symm
  · intro x hx y hy
    rw [geo_head _ _ _ y hy]
    have hx' : x ∈ (ws.getLast?) := by
      rw [List.getLast?_append_of_ne_nil _ hne] at hx
      exact hx
    have : ws.getLast?.getD 0 = x := by
      simp only [Option.mem_def] at hx'
      rw [hx']; rfl
    rw [← this]
    exact within_mul hl h1 h2

/-- **nodes are preserved**: every node of the centre part (provided vector, centre, sea surface)
is a node of the returned grid -/
theorem stretch_nodes (h : stretch e0 e1 ws α nx d0 d1 up = some r) :
    ∀ x ∈ nodes e0 ws, x ∈ nodes r.x0 r.ws := by
  obtain ⟨nl, nr, nl', nr', -, -, -, -, -, -, -, -, hx0, -, hws⟩ := stretch_some h
  intro x hx
  rw [hws, List.append_assoc]
  apply mem_nodes_append_right
  apply mem_nodes_append_left
  have : r.x0 + sum (geo (ws.head?.getD 0) α nl').reverse = e0 := by
    rw [hx0, sum_reverse]; ring
  rw [this]
  exact hx

end stretch

/-! ## the search -/
section search
variable {e0 e1 : K} {ws : List K} {d0 d1 c0 c1 : K} {caOf : K → List K}

theorem searchCa_some {sd : SRes K} {nx : Nat} {l : List K} {ca : K} {r : SRes K}
    (h : searchCa sd nx c0 c1 l = some (ca, r)) :
    ca ∈ l ∧ stretch sd.x0 sd.x1 sd.ws ca nx c0 c1 true = some r := by
  induction l with
  | nil => simp [searchCa] at h
  | cons a t ih =>
    simp only [searchCa] at h
    split at h
    · rename_i r' hr
      injection h with h
      injection h with h1 h2
      subst h1; subst h2
      exact ⟨by simp, hr⟩
    · obtain ⟨h1, h2⟩ := ih h
      exact ⟨List.mem_cons_of_mem _ h1, h2⟩

theorem searchCa_none {sd : SRes K} {nx : Nat} {l : List K} :
    searchCa sd nx c0 c1 l = none ↔ ∀ ca ∈ l, stretch sd.x0 sd.x1 sd.ws ca nx c0 c1 true = none := by
  induction l with
  | nil => simp [searchCa]
  | cons a t ih =>
    simp only [searchCa]
    split
    · rename_i r' hr
      simp only [reduceCtorEq, List.mem_cons, forall_eq_or_imp, false_iff, not_and]
      intro h; rw [hr] at h; exact absurd h (by simp)
    · rename_i hr
      rw [ih]
      simp [hr]

theorem searchSa_some {nx : Nat} {l : List K} {sa ca : K} {sd r : SRes K}
    (h : searchSa e0 e1 ws nx d0 d1 c0 c1 caOf l = some (sa, sd, ca, r)) :
    sa ∈ l ∧ stretch e0 e1 ws sa nx d0 d1 false = some sd ∧ ca ∈ caOf sa ∧
      stretch sd.x0 sd.x1 sd.ws ca nx c0 c1 true = some r := by
  induction l with
  | nil => simp [searchSa] at h
  | cons a t ih =>
    simp only [searchSa] at h
    split at h
    · obtain ⟨h1, h2⟩ := ih h
      exact ⟨List.mem_cons_of_mem _ h1, h2⟩
    · rename_i sd' hsd
      split at h
      · rename_i ca' r' hca
        injection h with h
        simp only [Prod.mk.injEq] at h
        obtain ⟨rfl, rfl, rfl, rfl⟩ := h
        obtain ⟨m1, m2⟩ := searchCa_some hca
        exact ⟨by simp, hsd, m1, m2⟩
      · obtain ⟨h1, h2⟩ := ih h
        exact ⟨List.mem_cons_of_mem _ h1, h2⟩

theorem searchSa_none {nx : Nat} {l : List K} :
    searchSa e0 e1 ws nx d0 d1 c0 c1 caOf l = none ↔
      ∀ sa ∈ l, ∀ sd, stretch e0 e1 ws sa nx d0 d1 false = some sd →
        ∀ ca ∈ caOf sa, stretch sd.x0 sd.x1 sd.ws ca nx c0 c1 true = none := by
  induction l with
  | nil => simp [searchSa]
  | cons a t ih =>
    simp only [searchSa]
    split
    · rename_i hsd
      rw [ih]
      simp [hsd]
    · rename_i sd' hsd
      split
      · rename_i ca' r' hca
        simp only [reduceCtorEq, List.mem_cons, forall_eq_or_imp, false_iff, not_and]
        intro hh
        obtain ⟨m1, m2⟩ := searchCa_some hca
        have := hh sd' hsd ca' m1
        rw [m2] at this; exact absurd this (by simp)
      · rename_i hca
        rw [ih]
        simp only [List.mem_cons, forall_eq_or_imp, hsd, Option.some.injEq, forall_eq',
          iff_and_self]
        intro _
        exact searchCa_none.1 hca

/-- **what a found grid is**: the cell number is one of the permitted ones, the two stretchings
are candidates, and the grid is the result of the two `_stretch` calls -/
theorem searchNx_some {saL : List K} {cn : List Nat} {f : Found K}
    (h : searchNx e0 e1 ws d0 d1 c0 c1 saL caOf cn = some f) :
    f.nx ∈ cn ∧ f.sa ∈ saL ∧ f.ca ∈ caOf f.sa ∧
      stretch e0 e1 ws f.sa f.nx d0 d1 false = some f.sd ∧
      stretch f.sd.x0 f.sd.x1 f.sd.ws f.ca f.nx c0 c1 true = some f.res := by
  induction cn with
  | nil => simp [searchNx] at h
  | cons n t ih =>
    simp only [searchNx] at h
    split at h
    · rename_i sa sd ca r hs
      injection h with h
      subst h
      obtain ⟨m1, m2, m3, m4⟩ := searchSa_some hs
      exact ⟨by simp, m1, m3, m2, m4⟩
    · obtain ⟨h1, h2⟩ := ih h
      exact ⟨List.mem_cons_of_mem _ h1, h2⟩

/-- **fails loudly exactly when no grid exists**: the search returns nothing iff no permitted
cell number admits a pair of candidate stretchings whose two `_stretch` steps both succeed -/
theorem search_none_iff {saL : List K} {cn : List Nat} :
    searchNx e0 e1 ws d0 d1 c0 c1 saL caOf cn = none ↔
      ∀ nx ∈ cn, ∀ sa ∈ saL, ∀ sd, stretch e0 e1 ws sa nx d0 d1 false = some sd →
        ∀ ca ∈ caOf sa, stretch sd.x0 sd.x1 sd.ws ca nx c0 c1 true = none := by
  induction cn with
  | nil => simp [searchNx]
  | cons n t ih =>
    simp only [searchNx]
    split
    · rename_i sa sd ca r hs
      simp only [reduceCtorEq, List.mem_cons, forall_eq_or_imp, false_iff, not_and]
      intro hh
      obtain ⟨m1, m2, m3, m4⟩ := searchSa_some hs
      have := hh sa m1 sd m2 ca m3
      rw [m4] at this; exact absurd this (by simp)
    · rename_i hs
      rw [ih]
      simp only [List.mem_cons, forall_eq_or_imp, iff_and_self]
      intro _
      exact searchSa_none.1 hs

/-- **postconditions of a found grid** (`β` = the larger permitted stretching factor, or the
ratio bound of a provided centre part if that is larger) -/
theorem search_post {β : K} {saL : List K} {cn : List Nat} {f : Found K}
    (hne : ws ≠ []) (hpos : ∀ w ∈ ws, 0 < w) (he : e1 = e0 + sum ws)
    (hc : ws.IsChain (Within β))
    (hsa : ∀ sa ∈ saL, 1 ≤ sa ∧ sa ≤ β) (hca : ∀ sa ∈ saL, ∀ ca ∈ caOf sa, 1 ≤ ca ∧ ca ≤ β)
    (h : searchNx e0 e1 ws d0 d1 c0 c1 saL caOf cn = some f) :
    f.nx ∈ cn ∧ f.res.ws.length = f.nx ∧
    (∀ w ∈ f.res.ws, 0 < w) ∧
    f.res.x0 ≤ d0 ∧ d1 ≤ f.res.x1 ∧ f.res.x0 ≤ c0 ∧ c1 ≤ f.res.x1 ∧
    f.res.x1 = f.res.x0 + sum f.res.ws ∧
    f.res.ws.IsChain (Within β) ∧
    (∀ x ∈ nodes e0 ws, x ∈ nodes f.res.x0 f.res.ws) := by
  obtain ⟨m1, m2, m3, s1, s2⟩ := searchNx_some h
  obtain ⟨a1, a2⟩ := hsa _ m2
  obtain ⟨b1, b2⟩ := hca _ m2 _ m3
  have hα1 : 0 < f.sa := by linarith
  have hα2 : 0 < f.ca := by linarith
  have sdne := stretch_ne_nil hne s1
  have sdpos := stretch_pos hα1 hne hpos s1
  have sdext := stretch_extent he s1
  have cov1 := stretch_covers hα1 hne hpos s1
  have cov2 := stretch_covers hα2 sdne sdpos s2
  have out2 := stretch_outward hα2 sdne sdpos s2
  refine ⟨m1, (stretch_length s2).2 rfl, stretch_pos hα2 sdne sdpos s2, ?_, ?_, cov2.1, cov2.2,
    stretch_extent sdext s2, ?_, ?_⟩
  · linarith [cov1.1, out2.1]
  · linarith [cov1.2, out2.2]
  · exact stretch_bounded b1 b2 sdne sdpos (stretch_bounded a1 a2 hne hpos hc s1) s2
  · intro x hx
    exact stretch_nodes s2 x (stretch_nodes s1 x hx)

end search

/-! ## pre-processing -/

theorem mem_drop_of_sorted {v : List K} (hs : v.Pairwise (· ≤ ·)) {k : Nat} (hk : k < v.length)
    {d0 x : K} (hv : v.getD k 0 ≤ d0) (hx : x ∈ v) (hd : d0 ≤ x) : x ∈ v.drop k := by
  obtain ⟨j, hj, rfl⟩ := List.mem_iff_getElem.1 hx
  rw [List.getD_eq_getElem?_getD, List.getElem?_eq_getElem hk, Option.getD_some] at hv
  by_cases hjk : k ≤ j
  · rw [List.mem_iff_getElem]
    refine ⟨j - k, by simp; omega, ?_⟩
    simp [List.getElem_drop, Nat.add_sub_cancel' hjk]
  · have hlt : j < k := by omega
    have := List.pairwise_iff_getElem.1 hs j k hj hk hlt
    have e : v[j] = v[k] := le_antisymm this (le_trans hv hd)
    rw [e, List.mem_iff_getElem]
    exact ⟨0, by simp; omega, by simp [List.getElem_drop]⟩

theorem mem_take_of_sorted {v : List K} (hs : v.Pairwise (· ≤ ·)) {i m : Nat} (hi : i < v.length)
    (him : i < m) {d1 x : K} (hv : d1 ≤ v.getD i 0) (hx : x ∈ v) (hd : x ≤ d1) : x ∈ v.take m := by
  obtain ⟨j, hj, rfl⟩ := List.mem_iff_getElem.1 hx
  rw [List.getD_eq_getElem?_getD, List.getElem?_eq_getElem hi, Option.getD_some] at hv
  by_cases hjm : j < m
  · rw [List.mem_iff_getElem]
    exact ⟨j, by simp; omega, by simp [List.getElem_take]⟩
  · have hlt : i < j := by omega
    have := List.pairwise_iff_getElem.1 hs i j hi hj hlt
    have e : v[j] = v[i] := le_antisymm (le_trans hd hv) this
    rw [e, List.mem_iff_getElem]
    exact ⟨i, by simp; omega, by simp [List.getElem_take]⟩

/-- **nodes of a provided vector inside the survey domain survive the cut** -/
theorem cutVector_keeps {v v' : List K} {d0 d1 : K} (hs : v.Pairwise (· ≤ ·))
    (h : cutVector v d0 d1 = some v') :
    (∀ x ∈ v, d0 ≤ x → x ≤ d1 → x ∈ v') ∧ 3 ≤ v'.length ∧ v'.Pairwise (· ≤ ·) ∧
      (∀ x ∈ v', x ∈ v) := by
  unfold cutVector at h
  simp only at h
  set iLo := (List.range v.length).filter (fun i => decide (v.getD i 0 ≤ d0)) with hiLo
  set v1 := if iLo.length > 1 then v.drop (iLo.getLast?.getD 0) else v with hv1
  set iHi := (List.range v1.length).filter (fun i => decide (d1 ≤ v1.getD i 0)) with hiHi
  set v2 := if iHi.length > 1 then v1.take (iHi.getD 1 0) else v1 with hv2
  split at h
  · exact absurd h (by simp)
  · rename_i hlen
    injection h with h
    subst h
    -- first cut
    have k1 : (∀ x ∈ v, d0 ≤ x → x ∈ v1) ∧ v1.Pairwise (· ≤ ·) ∧ ∀ x ∈ v1, x ∈ v := by
      rw [hv1]
      split
      · rename_i hl
        have hne : iLo ≠ [] := by intro e; rw [e] at hl; simp at hl
        have hm := List.getLast_mem hne
        have hg : iLo.getLast?.getD 0 = iLo.getLast hne := by
          rw [List.getLast?_eq_some_getLast hne]; rfl
        rw [hg]
        have hm' : iLo.getLast hne ∈
            (List.range v.length).filter (fun i => decide (v.getD i 0 ≤ d0)) := hm
        rw [List.mem_filter, List.mem_range] at hm'
        refine ⟨fun x hx hd => mem_drop_of_sorted hs hm'.1 (by simpa using hm'.2) hx hd,
          hs.sublist (List.drop_sublist _ _), fun x hx => List.mem_of_mem_drop hx⟩
      · exact ⟨fun x hx _ => hx, hs, fun x hx => hx⟩
    have k2 : (∀ x ∈ v1, x ≤ d1 → x ∈ v2) ∧ v2.Pairwise (· ≤ ·) ∧ ∀ x ∈ v2, x ∈ v1 := by
      rw [hv2]
      split
      · rename_i hl
        have hpw : iHi.Pairwise (· < ·) := by
          rw [hiHi]; exact List.Pairwise.filter _ List.pairwise_lt_range
        obtain ⟨i, m, rest, hi⟩ : ∃ i m rest, iHi = i :: m :: rest := by
          match hh : iHi with
          | [] => simp at hl
          | [_] => simp at hl
          | i :: m :: rest => exact ⟨i, m, rest, rfl⟩
        have him : i < m := by
          rw [hi] at hpw
          exact (List.pairwise_cons.1 hpw).1 m (by simp)
        have hmem : i ∈ (List.range v1.length).filter (fun i => decide (d1 ≤ v1.getD i 0)) := by
          show i ∈ iHi
          rw [hi]; simp
        rw [List.mem_filter, List.mem_range] at hmem
        have hg : iHi.getD 1 0 = m := by rw [hi]; rfl
        rw [hg]
        refine ⟨fun x hx hd => mem_take_of_sorted k1.2.1 hmem.1 him (by simpa using hmem.2) hx hd,
          k1.2.1.sublist (List.take_sublist _ _), fun x hx => List.mem_of_mem_take hx⟩
      · exact ⟨fun x hx _ => hx, k1.2.1, fun x hx => hx⟩
    refine ⟨fun x hx h0 h1 => k2.1 x (k1.1 x hx h0) h1, by omega, k2.2.1,
      fun x hx => k1.2.2 x (k2.2.2 x hx)⟩

/-- **computational domain, default**: survey domain plus `min(λ, max_buffer)` on each side; it
contains the survey domain -/
theorem compDomain_buffer (d0 d1 c wl wr mb : K) :
    compDomain false d0 d1 c wl wr mb = (d0 - min wl mb, d1 + min wr mb) := rfl

theorem compDomain_covers (d0 d1 c wl wr mb : K) (hl : 0 ≤ wl) (hr : 0 ≤ wr) (hm : 0 ≤ mb) :
    (compDomain false d0 d1 c wl wr mb).1 ≤ d0 ∧ d1 ≤ (compDomain false d0 d1 c wl wr mb).2 := by
  rw [compDomain_buffer]
  have := le_min hl hm
  have := le_min hr hm
  exact ⟨by show d0 - min wl mb ≤ d0; linarith, by show d1 ≤ d1 + min wr mb; linarith⟩

/-- **computational domain, `lambda_from_center`**: from the centre to the boundary and back to
the end of the survey domain it is two wavelengths (when that exceeds the survey domain), capped
at `max_buffer` from the centre -/
theorem compDomain_fromCenter (d0 d1 c wl wr mb : K) (h0 : d0 ≤ c) (h1 : c ≤ d1) :
    let b0 := d0 - max 0 ((2 * wl - (c - d0)) / 2)
    let b1 := d1 + max 0 ((2 * wr - (d1 - c)) / 2)
    compDomain true d0 d1 c wl wr mb = (max b0 (c - mb), min b1 (c + mb)) ∧
    b0 ≤ d0 ∧ d1 ≤ b1 ∧
    (c - d0 ≤ 2 * wl → (c - b0) + (d0 - b0) = 2 * wl) ∧
    (d1 - c ≤ 2 * wr → (b1 - c) + (b1 - d1) = 2 * wr) := by
  intro b0 b1
  refine ⟨?_, ?_, ?_, ?_, ?_⟩
  · unfold compDomain
    simp only [if_true]
    have e0 : (if d0 - c < 0 then c - d0 else d0 - c) = c - d0 := by
      split
      · rfl
      · have : d0 = c := le_antisymm h0 (by linarith)
        rw [this]
    have e1 : (if d1 - c < 0 then c - d1 else d1 - c) = d1 - c := by
      split
      · exfalso; linarith
      · rfl
    rw [e0, e1]
  · have := le_max_left (0:K) ((2 * wl - (c - d0)) / 2)
    show d0 - max 0 ((2 * wl - (c - d0)) / 2) ≤ d0
    linarith
  · have := le_max_left (0:K) ((2 * wr - (d1 - c)) / 2)
    show d1 ≤ d1 + max 0 ((2 * wr - (d1 - c)) / 2)
    linarith
  · intro h
    have : max 0 ((2 * wl - (c - d0)) / 2) = (2 * wl - (c - d0)) / 2 :=
      max_eq_right (by linarith)
    show c - (d0 - max 0 ((2 * wl - (c - d0)) / 2)) + (d0 - (d0 - max 0 ((2 * wl - (c - d0)) / 2)))
      = 2 * wl
    rw [this]; ring
  · intro h
    have : max 0 ((2 * wr - (d1 - c)) / 2) = (2 * wr - (d1 - c)) / 2 :=
      max_eq_right (by linarith)
    show d1 + max 0 ((2 * wr - (d1 - c)) / 2) - c + (d1 + max 0 ((2 * wr - (d1 - c)) / 2) - d1)
      = 2 * wr
    rw [this]; ring

/-! ## sea surface -/

/-- **sea surface within half a cell of the upper edge**: the centre cell is moved and the sea
surface becomes its upper node -/
theorem seasurface_shift_node {e0 e1 : K} {ws : List K} {center ss s0 s1 : K}
    {nOf : K → K → Nat} {amaxF : K} {frange roots : List K}
    (hclose : (if ss - e1 < 0 then e1 - ss else ss - e1) ≤ ws.head?.getD 0 / 2)
    (he : e1 = e0 + sum ws) :
    let r := seasurface false e0 e1 ws center ss s0 s1 nOf amaxF frange roots
    r.e1 = ss ∧ r.ws = ws ∧ r.e1 = r.e0 + sum r.ws ∧ ss ∈ nodes r.e0 r.ws := by
  intro r
  have hr : r = { e0 := e0 + (ss - e1), e1 := e1 + (ss - e1), ws := ws, usedRoots := 0 } := by
    show seasurface false e0 e1 ws center ss s0 s1 nOf amaxF frange roots = _
    unfold seasurface
    simp only [Bool.not_false, true_and]
    rw [if_pos hclose]
  have h1 : r.e1 = ss := by rw [hr]; ring
  have h3 : r.e1 = r.e0 + sum r.ws := by rw [hr]; simp only; rw [he]; ring
  refine ⟨h1, by rw [hr], h3, ?_⟩
  rw [← h1, h3]
  exact end_mem_nodes _ _

/-- the roots handed to the model solve the geometric-sum equation of their call
(`brentq` is exact) -/
def RootsExact (hasVector : Bool) (e1 : K) (widths : List K) (center ss : K) (nOf : K → K → Nat) :
    List K → List K → Prop
  | [], _ => True
  | fact :: fs, roots =>
    let tdmin := if hasVector then widths.getLast?.getD 0 else fact * widths.head?.getD 0
    let cedge := if hasVector then e1 else center + tdmin / 2
    let delta := ss - cedge
    let n := nOf delta tdmin
    if n < 1 then RootsExact hasVector e1 widths center ss nOf fs roots
    else
      match roots with
      | [] => True
      | alph :: rs => sum (geo tdmin alph n) = delta ∧
          RootsExact hasVector e1 widths center ss nOf fs rs

/-- **sea surface by extra cells**: whatever factor and root the loop adopts, the sea surface is
the upper node of the new centre part — or nothing was adopted and the centre part is unchanged
(the case in which the code warns) -/
theorem seasurface_root_node {hasVector : Bool} {e0 e1 : K} {ws : List K} {center ss s0 s1 : K}
    {nOf : K → K → Nat} {amax : K} (he : e1 = e0 + sum ws) (frange roots : List K) (u : Nat)
    (hr : RootsExact hasVector e1 ws center ss nOf frange roots) :
    let r := seaLoop hasVector e0 e1 ws center ss s0 s1 nOf amax frange roots u
    (r.e1 = ss ∧ r.e1 = r.e0 + sum r.ws ∧ ss ∈ nodes r.e0 r.ws) ∨
      (r.e0 = e0 ∧ r.e1 = e1 ∧ r.ws = ws) := by
  induction frange generalizing roots u with
  | nil => right; simp [seaLoop]
  | cons fact fs ih =>
    cases hasVector
    · simp only [seaLoop, RootsExact, Bool.false_eq_true, if_false] at hr ⊢
      by_cases hn : nOf (ss - (center + fact * ws.head?.getD 0 / 2)) (fact * ws.head?.getD 0) < 1
      · rw [if_pos hn] at hr ⊢; exact ih roots u hr
      · rw [if_neg hn] at hr ⊢
        cases roots with
        | nil => right; simp
        | cons alph rs =>
          simp only at hr ⊢
          by_cases ha : alph < min amax s1
          · rw [if_pos ha]; left
            have hs := hr.1
            have e : center - fact * ws.head?.getD 0 / 2 +
                sum (fact * ws.head?.getD 0 :: geo (fact * ws.head?.getD 0) alph
                  (nOf (ss - (center + fact * ws.head?.getD 0 / 2)) (fact * ws.head?.getD 0))) = ss := by
              rw [sum_cons, hs]; ring
            refine ⟨e, rfl, ?_⟩
            have := end_mem_nodes (center - fact * ws.head?.getD 0 / 2)
              (fact * ws.head?.getD 0 :: geo (fact * ws.head?.getD 0) alph
                (nOf (ss - (center + fact * ws.head?.getD 0 / 2)) (fact * ws.head?.getD 0)))
            rw [e] at this; exact this
          · rw [if_neg ha]; exact ih rs (u + 1) hr.2
    · simp only [seaLoop, RootsExact, if_true] at hr ⊢
      by_cases hn : nOf (ss - e1) (ws.getLast?.getD 0) < 1
      · rw [if_pos hn] at hr ⊢; exact ih roots u hr
      · rw [if_neg hn] at hr ⊢
        cases roots with
        | nil => right; simp
        | cons alph rs =>
          simp only at hr ⊢
          by_cases ha : alph < min amax s1
          · rw [if_pos ha]; left
            have hs := hr.1
            have e : e0 + sum (ws ++ geo (ws.getLast?.getD 0) alph
                (nOf (ss - e1) (ws.getLast?.getD 0))) = ss := by
              rw [sum_append, hs, he]; ring
            refine ⟨e, rfl, ?_⟩
            have := end_mem_nodes e0 (ws ++ geo (ws.getLast?.getD 0) alph
                (nOf (ss - e1) (ws.getLast?.getD 0)))
            rw [e] at this; exact this
          · rw [if_neg ha]; exact ih rs (u + 1) hr.2

/-! ## good multigrid cell numbers -/

/-- **permitted cell numbers**: exactly the numbers `p·2ᵏ ≤ max_nr` with `p ≤ max_lowest` one of
2, 3, 5, …, 19 and `min_div ≤ k < 30`, in ascending order without repetition -/
theorem goodMg_spec (M pl md n : Nat) :
    n ∈ goodMg M pl md ↔
      n ≤ M ∧ ∃ p ∈ [2, 3, 5, 7, 9, 11, 13, 15, 17, 19], p ≤ pl ∧ ∃ k, md ≤ k ∧ k < 30 ∧ n = p * 2 ^ k := by
  unfold goodMg
  simp only [List.mem_filter, List.mem_range, List.contains_iff_mem, List.mem_flatMap,
    List.mem_map, decide_eq_true_eq]
  constructor
  · rintro ⟨hM, p, ⟨hp, hpl⟩, k, hk, rfl⟩
    exact ⟨by omega, p, hp, hpl, md + k, by omega, by omega, rfl⟩
  · rintro ⟨hM, p, hp, hpl, k, hk1, hk2, rfl⟩
    exact ⟨by omega, p, ⟨hp, hpl⟩, k - md, by omega, by rw [Nat.add_sub_cancel' hk1]⟩

theorem goodMg_sorted (M pl md : Nat) : (goodMg M pl md).Pairwise (· < ·) := by
  unfold goodMg
  exact List.Pairwise.filter _ List.pairwise_lt_range

/-! ## `origin_and_widths` as a whole -/

theorem diffs_ok : ∀ {v : List K}, v.Pairwise (· < ·) → 2 ≤ v.length →
    diffs v ≠ [] ∧ (∀ w ∈ diffs v, 0 < w) ∧
      v.getLast?.getD 0 = v.head?.getD 0 + sum (diffs v)
  | [], _, h => by simp at h
  | [_], _, h => by simp at h
  | [a, b], hs, _ => by
    have : a < b := (List.pairwise_cons.1 hs).1 b (by simp)
    refine ⟨by simp [diffs], ?_, ?_⟩
    · intro w hw
      simp only [diffs, List.mem_singleton] at hw
      subst hw; linarith
    · simp [diffs]
  | a :: b :: c :: t, hs, _ => by
    have hab : a < b := (List.pairwise_cons.1 hs).1 b (by simp)
    obtain ⟨_, i2, i3⟩ := diffs_ok (v := b :: c :: t) (List.pairwise_cons.1 hs).2 (by simp)
    refine ⟨by simp [diffs], ?_, ?_⟩
    · intro w hw
      simp only [diffs, List.mem_cons] at hw
      rcases hw with rfl | hw
      · linarith
      · exact i2 w (by simpa [diffs] using hw)
    · have e : (a :: b :: c :: t).getLast?.getD 0 = (b :: c :: t).getLast?.getD 0 := by
        simp [List.getLast?_cons_cons]
      rw [e, i3]
      simp only [List.head?_cons, Option.getD_some, diffs, sum_cons]
      ring

/-- the centre part is well formed: non-empty, positive widths, end = start + Σ widths, and the
centre is a node (`center_on_edge`) or a cell centre -/
theorem centrePart_ok (vector : Option (List K)) (coe : Bool) (c dmin : K) (hd : 0 < dmin)
    (hv : ∀ v ∈ vector, v.Pairwise (· < ·) ∧ 2 ≤ v.length) :
    let cp := centrePart vector coe c dmin
    cp.2.2 ≠ [] ∧ (∀ w ∈ cp.2.2, 0 < w) ∧ cp.2.1 = cp.1 + sum cp.2.2 ∧
      (vector = none → coe = true → c ∈ nodes cp.1 cp.2.2) ∧
      (vector = none → coe = false → cp.2.2 = [dmin] ∧ c = cp.1 + dmin / 2) := by
  intro cp
  cases vector with
  | some v =>
    obtain ⟨h1, h2⟩ := hv v rfl
    obtain ⟨i1, i2, i3⟩ := diffs_ok h1 h2
    exact ⟨i1, i2, i3, by simp, by simp⟩
  | none =>
    cases coe
    · refine ⟨by simp [cp, centrePart], ?_, ?_, by simp, ?_⟩
      · intro w hw; simp [cp, centrePart] at hw; rw [hw]; exact hd
      · simp [cp, centrePart]; ring
      · intro _ _; refine ⟨by simp [cp, centrePart], ?_⟩
        simp [cp, centrePart]
    · refine ⟨by simp [cp, centrePart], ?_, ?_, ?_, by simp⟩
      · intro w hw; simp [cp, centrePart] at hw; rw [hw]; exact hd
      · simp [cp, centrePart]
      · intro _ _
        simp only [cp, centrePart, if_true, nodes, cumsFrom]
        simp

/-- structure of a successful `origin_and_widths` run -/
theorem oaw_ok {nOf : K → K → Nat} {i : OawIn K} {o : OawOut K} (h : oaw nOf i = .ok o) :
    o.found = searchNx o.ce0 o.ce1 o.cws o.d0 o.d1 o.c0 o.c1 i.saL i.caOf i.cellNumbers ∧
    (o.c0, o.c1) = compDomain i.fromCenter o.d0 o.d1 i.center i.wl i.wr i.maxBuffer ∧
    (∀ d ∈ i.domain, o.d0 = d.1 ∧ d.2 ≤ o.d1) ∧
    (∀ ss ∈ i.seasurface, i.center < ss ∧ ss ≤ o.d1) ∧
    (i.seasurface = none →
      (o.ce0, o.ce1, o.cws) = centrePart o.vectorUsed i.centerOnEdge i.center i.dmin) ∧
    (∀ v ∈ i.vector, o.vectorUsed = cutVector v o.d0
      (match i.domain with
       | some d => d.2
       | none => match i.distance with
         | some (_, b) => i.center + absK b
         | none => v.foldl max (v.head?.getD 0))) := by
  unfold oaw at h
  simp only at h
  split at h
  · exact absurd h (by simp)
  · rename_i d0 d1 hdom
    split at h
    · exact absurd h (by simp)
    · rename_i d1' hss
      injection h with h
      subst h
      refine ⟨rfl, rfl, ?_, ?_, ?_, ?_⟩
      · intro d hd
        simp only [Option.mem_def] at hd
        rw [hd] at hdom
        simp only [Option.some.injEq] at hdom
        subst hdom
        refine ⟨rfl, ?_⟩
        simp only
        cases hs : i.seasurface with
        | none => rw [hs] at hss; simp at hss; rw [← hss]
        | some ss =>
          rw [hs] at hss
          simp only at hss
          split at hss
          · exact absurd hss (by simp)
          · simp at hss; rw [← hss]; exact le_max_left _ _
      · intro ss hs
        simp only [Option.mem_def] at hs
        rw [hs] at hss
        simp only at hss
        split at hss
        · exact absurd hss (by simp)
        · rename_i hc
          simp at hss
          refine ⟨lt_of_not_ge hc, ?_⟩
          simp only; rw [← hss]; exact le_max_right _ _
      · intro hs
        simp only [hs]
      · intro v hv
        simp only [Option.mem_def] at hv
        simp only [hv]
        cases hd : i.domain with
        | some d => rw [hd] at hdom; simp at hdom; subst hdom; rfl
        | none =>
          rw [hd] at hdom
          cases hdi : i.distance with
          | some ab =>
            rw [hdi] at hdom; simp at hdom
            obtain ⟨a, b⟩ := ab
            simp at hdom
            simp [hdom.1, hdom.2]
          | none =>
            rw [hdi, hv] at hdom; simp at hdom
            simp [hdom.1, hdom.2]

/-- **C16, one direction**: whenever the model of `origin_and_widths` returns a grid, the number
of cells is one of the permitted ones, all widths are positive, the grid covers the survey domain
(extended to the sea surface) and the computational domain (survey domain plus the
wavelength-based buffer capped by `max_buffer`), origin plus widths gives the upper end,
neighbouring widths differ at most by the factor `β` that bounds the stretching candidates and the
centre part, and every node of the centre part (provided vector, centre, sea surface) is a node -/
theorem oaw_post {nOf : K → K → Nat} {i : OawIn K} {o : OawOut K} {f : Found K} {β : K}
    (h : oaw nOf i = .ok o) (hf : o.found = some f)
    (hcne : o.cws ≠ []) (hcpos : ∀ w ∈ o.cws, 0 < w) (hce : o.ce1 = o.ce0 + sum o.cws)
    (hcc : o.cws.IsChain (Within β))
    (hsa : ∀ sa ∈ i.saL, 1 ≤ sa ∧ sa ≤ β)
    (hca : ∀ sa ∈ i.saL, ∀ ca ∈ i.caOf sa, 1 ≤ ca ∧ ca ≤ β) :
    f.nx ∈ i.cellNumbers ∧ f.res.ws.length = f.nx ∧ (∀ w ∈ f.res.ws, 0 < w) ∧
    f.res.x0 ≤ o.d0 ∧ o.d1 ≤ f.res.x1 ∧ f.res.x0 ≤ o.c0 ∧ o.c1 ≤ f.res.x1 ∧
    f.res.x1 = f.res.x0 + sum f.res.ws ∧ f.res.ws.IsChain (Within β) ∧
    (∀ x ∈ nodes o.ce0 o.cws, x ∈ nodes f.res.x0 f.res.ws) ∧
    (o.c0, o.c1) = compDomain i.fromCenter o.d0 o.d1 i.center i.wl i.wr i.maxBuffer ∧
    (∀ d ∈ i.domain, o.d0 = d.1 ∧ d.2 ≤ o.d1) ∧ (∀ ss ∈ i.seasurface, ss ≤ o.d1) := by
  obtain ⟨k1, k2, k3, k4, -, -⟩ := oaw_ok h
  rw [k1] at hf
  obtain ⟨p1, p2, p3, p4, p5, p6, p7, p8, p9, p10⟩ := search_post hcne hcpos hce hcc hsa hca hf
  exact ⟨p1, p2, p3, p4, p5, p6, p7, p8, p9, p10, k2, k3, fun ss hs => (k4 ss hs).2⟩

/-- **fails loudly**: the model returns no grid exactly when no permitted cell number admits a
pair of candidate stretchings -/
theorem oaw_none_iff {nOf : K → K → Nat} {i : OawIn K} {o : OawOut K} (h : oaw nOf i = .ok o) :
    o.found = none ↔
      ∀ nx ∈ i.cellNumbers, ∀ sa ∈ i.saL, ∀ sd,
        stretch o.ce0 o.ce1 o.cws sa nx o.d0 o.d1 false = some sd →
          ∀ ca ∈ i.caOf sa, stretch sd.x0 sd.x1 sd.ws ca nx o.c0 o.c1 true = none := by
  rw [(oaw_ok h).1]
  exact search_none_iff

open MGH in
theorem halvings_mul_pow (p : Nat) (hp : p = 2 ∨ (p % 2 = 1 ∧ 3 ≤ p)) :
    ∀ k, halvings (p * 2 ^ k) = k
  | 0 => by
    rw [Nat.pow_zero, Nat.mul_one, halvings_zero_iff]
    rcases hp with rfl | ⟨h1, _⟩ <;> simp [canHalve] <;> omega
  | k+1 => by
    have hc : canHalve (p * 2 ^ (k+1)) = true := by
      have h4 : 2 * 2 ≤ p * 2 ^ (k+1) := by
        have : 2 ≤ p := by rcases hp with rfl | ⟨_, h⟩ <;> omega
        have : 2 ≤ 2 ^ (k+1) := by
          calc 2 = 2 ^ 1 := rfl
            _ ≤ 2 ^ (k+1) := Nat.pow_le_pow_right (by omega) (by omega)
        exact Nat.mul_le_mul ‹2 ≤ p› this
      have he : (p * 2 ^ (k+1)) % 2 = 0 := by
        rw [Nat.pow_succ, ← Nat.mul_assoc]; exact Nat.mul_mod_left _ _
      simp [canHalve]; omega
    rw [halvings_half _ hc]
    have : p * 2 ^ (k+1) / 2 = p * 2 ^ k := by
      rw [Nat.pow_succ, ← Nat.mul_assoc]; exact Nat.mul_div_cancel _ (by omega)
    rw [this, halvings_mul_pow p hp k]

open MGH in
/-- **link to the multigrid hierarchy (C05)**: every permitted cell number can be halved at least
`min_div` times -/
theorem goodMg_halvings (M pl md n : Nat) (h : n ∈ goodMg M pl md) : md ≤ halvings n := by
  obtain ⟨_, p, hp, _, k, hk1, _, rfl⟩ := (goodMg_spec M pl md n).1 h
  have hp' : p = 2 ∨ (p % 2 = 1 ∧ 3 ≤ p) := by
    simp only [List.mem_cons, List.not_mem_nil, or_false] at hp
    rcases hp with rfl | rfl | rfl | rfl | rfl | rfl | rfl | rfl | rfl | rfl <;> simp
  rw [halvings_mul_pow p hp' k]
  exact hk1


/-! non-vacuity: a concrete search that returns a grid (centre cell 100 m, survey domain ±300 m,
computational domain ±1000 m, 16 cells) -/
example : (searchNx (-50 : Rat) 50 [100] (-300) 300 (-1000) 1000 [1] (fun _ => [1, 3/2]) [8, 16]).isSome
    = true := by decide +kernel
example : (stretch (-50 : Rat) 50 [100] 1 8 (-300) 300 false).isSome = true := by decide +kernel
example : (stretch (-50 : Rat) 50 [100] 1 4 (-300) 300 false).isSome = false := by decide +kernel

end Grd
