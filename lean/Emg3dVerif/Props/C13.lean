import Emg3dVerif.Model.Noise
import Mathlib.Data.List.Perm.Basic
/-!
# C13 — misfit and data weights follow the documented noise model and stay untouched

`NoiseM` models the noise bookkeeping of `emg3d.surveys.Survey` and the data misfit (tied to the
code by the operation-sequence correspondence of `harness/c13.py`).
-/
namespace NoiseM

/-! ## standard deviation -/

/-- `ς² = ε_n² + (ε_r |d|)²` when both parameters are set and nothing was set explicitly -/
theorem std_formula (s : Survey) (i j k : Nat) (a r : Rat) (d : Rat × Rat)
    (hstd : s.std = none) (hn : s.noiseFloor.at i j k = some a) (hr : s.relError.at i j k = some r)
    (hd : s.obs i j k = some d) : stdSq s i j k = some (a*a + r*r*normSq d) := by
  simp [stdSq, hstd, hn, hr, hd]

/-- an explicitly set standard deviation has priority -/
theorem std_explicit_wins (s : Survey) (i j k : Nat) (a : A3 Rat) (h : s.std = some a) :
    stdSq s i j k = some (a i j k * a i j k) := by
  simp [stdSq, h]

/-- with nothing defined there is no standard deviation -/
theorem std_none (s : Survey) (i j k : Nat) (h : s.std = none) (hn : s.noiseFloor = .none)
    (hr : s.relError = .none) : stdSq s i j k = none := by
  simp [stdSq, h, hn, hr, Param.at]

/-! ## frame conditions: only the setters change the noise parameters -/

theorem putData_frame (s : Survey) (name : String) (d : A3 Val) :
    (putData s name d).noiseFloor = s.noiseFloor ∧ (putData s name d).relError = s.relError ∧
    (putData s name d).std = s.std := by
  unfold putData
  split
  · exact ⟨rfl, rfl, rfl⟩
  · split <;> exact ⟨rfl, rfl, rfl⟩

/-- **`add_noise` never changes noise floor, relative error or the explicit standard deviation**
(whatever cuts, target data set and noise) -/
theorem addNoise_frame (s : Survey) (minO : Rat) (maxO : Option Rat) (useOff : Bool) (m : MinAmp)
    (addTo : String) (offSq : Nat → Nat → Rat) (noise : A3 (Rat × Rat)) :
    (addNoise s minO maxO useOff m addTo offSq noise).noiseFloor = s.noiseFloor ∧
    (addNoise s minO maxO useOff m addTo offSq noise).relError = s.relError ∧
    (addNoise s minO maxO useOff m addTo offSq noise).std = s.std := by
  unfold addNoise
  exact putData_frame _ _ _

/-- noise added to another data set leaves the observed data alone -/
theorem addNoise_only_addTo (s : Survey) (minO : Rat) (maxO : Option Rat) (useOff : Bool)
    (m : MinAmp) (addTo : String) (offSq : Nat → Nat → Rat) (noise : A3 (Rat × Rat))
    (h : addTo ≠ "observed") :
    (addNoise s minO maxO useOff m addTo offSq noise).obs = s.obs := by
  unfold addNoise putData
  simp only [h, if_false]
  split <;> rfl

/-- a setter changes only its own parameter -/
theorem setNF_frame (s t : Survey) (v : SetVal) (h : setNF s v = some t) :
    t.relError = s.relError ∧ t.std = s.std ∧ t.obs = s.obs := by
  unfold setNF at h
  cases hp : mkParam v with
  | none => simp [hp] at h
  | some p => simp [hp] at h; subst h; exact ⟨rfl, rfl, rfl⟩

/-- non-positive values are rejected (state unchanged, error) -/
theorem setters_reject_nonpositive (d1 d2 d3 : Nat) (vals : A3 Rat)
    (h : allPos d1 d2 d3 vals = false) (s : Survey) :
    setNF s (.arr d1 d2 d3 vals) = none ∧ setRE s (.arr d1 d2 d3 vals) = none := by
  simp [setNF, setRE, mkParam, h]

/-! ## selection -/

/-- **a restriction contains exactly the chosen sub-cube**: data, explicit standard deviation
and array-valued noise parameters alike -/
theorem restrictTo_subcube (s : Survey) (is js ks : List Nat) (i j k : Nat) :
    (restrictTo s is js ks).obs i j k = s.obs (is.getD i 0) (js.getD j 0) (ks.getD k 0) ∧
    (restrictTo s is js ks).noiseFloor.at i j k
      = s.noiseFloor.at (is.getD i 0) (js.getD j 0) (ks.getD k 0) ∧
    (restrictTo s is js ks).relError.at i j k
      = s.relError.at (is.getD i 0) (js.getD j 0) (ks.getD k 0) ∧
    (restrictTo s is js ks).std.map (fun a => a i j k)
      = s.std.map (fun a => a (is.getD i 0) (js.getD j 0) (ks.getD k 0)) := by
  refine ⟨rfl, ?_, ?_, ?_⟩
  · cases h : s.noiseFloor <;> simp [restrictTo, Param.sel, Param.at, h, sel3]
  · cases h : s.relError <;> simp [restrictTo, Param.sel, Param.at, h, sel3]
  · cases h : s.std <;> simp [restrictTo, h, sel3]

/-- scalar (or unset) parameters are unchanged by a selection -/
theorem select_frame_scalar (s : Survey) (is js ks : List Nat) :
    (∀ q, s.noiseFloor = .scalar q → (restrictTo s is js ks).noiseFloor = .scalar q) ∧
    (s.noiseFloor = .none → (restrictTo s is js ks).noiseFloor = .none) ∧
    (∀ q, s.relError = .scalar q → (restrictTo s is js ks).relError = .scalar q) ∧
    (s.relError = .none → (restrictTo s is js ks).relError = .none) := by
  refine ⟨?_, ?_, ?_, ?_⟩ <;> intros <;> simp_all [restrictTo, Param.sel]

/-- `select` without removal of empty entries is the restriction to the named indices, in the
order in which the names were given -/
theorem select_is_subcube (s : Survey) (srcs recs freqs : List String) :
    select s (some srcs) (some recs) (some freqs) false
      = restrictTo s (srcs.map (idxOf s.srcN)) (recs.map (idxOf s.recN)) (freqs.map (idxOf s.freqN)) := by
  simp [select]

/-! ## misfit -/

/-- `φ = ½ Σ |d_syn − d_obs|²/ς²`, the sum running over the entries with finite observation,
finite synthetic datum and defined standard deviation -/
theorem misfit_formula (s : Survey) (syn : A3 Val) :
    misfit s syn = (misfitTerms s syn).foldl (· + ·) 0 / 2 := rfl

instance : RightCommutative (fun (a b : Rat) => a + b) := ⟨fun a b c => by
  show a + b + c = a + c + b
  rw [Rat.add_assoc, Rat.add_comm b c, ← Rat.add_assoc]⟩

/-- the misfit depends only on the multiset of terms … -/
theorem misfit_of_perm (s t : Survey) (syn syn' : A3 Val)
    (h : (misfitTerms s syn).Perm (misfitTerms t syn')) : misfit s syn = misfit t syn' := by
  unfold misfit
  rw [List.Perm.foldl_eq h]

theorem flatMap_range_getD {β : Type} (is : List Nat) (g : Nat → List β) :
    (List.range is.length).flatMap (fun i => g (is.getD i 0)) = is.flatMap g := by
  induction is with
  | nil => rfl
  | cons a t ih =>
    rw [List.length_cons, List.range_succ_eq_map, List.flatMap_cons, List.flatMap_map]
    simp only [List.getD_cons_zero, List.flatMap_cons]
    congr 1

/-- … hence it is **invariant under any reordering of the sources** (receivers and frequencies
alike): restricting survey and synthetic data to a permutation of the source indices does not
change it. -/
theorem misfit_perm_invariant (s : Survey) (syn : A3 Val) (is : List Nat)
    (hp : is.Perm (List.range s.ns)) :
    misfit (restrictTo s is (List.range s.nr) (List.range s.nf))
        (sel3 syn is (List.range s.nr) (List.range s.nf)) = misfit s syn := by
  apply misfit_of_perm
  have hlen : ∀ n, (List.range n).length = n := fun n => List.length_range
  have hget : ∀ n j, j < n → (List.range n).getD j 0 = j := by
    intro n j hj
    rw [List.getD_eq_getElem?_getD, List.getElem?_range hj]; rfl
  -- body of the outer flatMap for the original survey
  let g : Nat → List Rat := fun i => (List.range s.nr).flatMap fun j =>
    (List.range s.nf).filterMap fun k =>
      match s.obs i j k, syn i j k, stdSq s i j k with
      | some d, some y, some v => some (normSq (y.1 - d.1, y.2 - d.2) / v)
      | _, _, _ => Option.none
  have e2 : misfitTerms s syn = (List.range s.ns).flatMap g := rfl
  have e1 : misfitTerms (restrictTo s is (List.range s.nr) (List.range s.nf))
        (sel3 syn is (List.range s.nr) (List.range s.nf))
      = (List.range is.length).flatMap (fun i => g (is.getD i 0)) := by
    unfold misfitTerms
    show (List.range is.length).flatMap _ = _
    apply List.flatMap_congr
    intro i _
    show (List.range (List.range s.nr).length).flatMap _ = _
    rw [hlen]
    apply List.flatMap_congr
    intro j hj
    have hj' : j < s.nr := List.mem_range.1 hj
    show (List.range (List.range s.nf).length).filterMap _ = _
    rw [hlen]
    apply List.filterMap_congr
    intro k hk
    have hk' : k < s.nf := List.mem_range.1 hk
    have hs : stdSq (restrictTo s is (List.range s.nr) (List.range s.nf)) i j k
        = stdSq s (is.getD i 0) j k := by
      have h := restrictTo_subcube s is (List.range s.nr) (List.range s.nf) i j k
      rw [hget _ _ hj', hget _ _ hk'] at h
      unfold stdSq
      rw [h.1, h.2.1, h.2.2.1]
      cases hstd : s.std with
      | none => simp [restrictTo, hstd]
      | some a =>
        simp only [restrictTo, hstd, Option.map_some, sel3, hget _ _ hj', hget _ _ hk']
    rw [hs]
    simp only [restrictTo, sel3, hget _ _ hj', hget _ _ hk']
    rfl
  rw [e1, e2, flatMap_range_getD is g]
  exact List.Perm.flatMap_right g hp

end NoiseM
