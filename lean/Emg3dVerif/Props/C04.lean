import Emg3dVerif.Model.Restrict
import Emg3dVerif.Model.Smooth
import Emg3dVerif.Lemmas.Sbp
import Emg3dVerif.Props.C02
import Mathlib.Algebra.Order.Field.Basic
import Mathlib.Tactic.Positivity
import Mathlib.Tactic.FieldSimp
/-!
# C04 — restriction is the transpose of prolongation; the coarse model conserves volumes

`Emg.restrict`, `Emg.prolong`, `Emg.restrictParam`, `Emg.coarseGrid` model the grid transfer
of `emg3d` (tied to the code by `harness/c04.py`).  All theorems hold for arbitrary grid sizes
(even in the coarsened directions), arbitrary widths and fields, all seven patterns.
-/
open Finset
namespace Emg
variable {K : Type} [Field K]

/-! ## one dimension -/

/-- interior restriction weights are the linear-interpolation weights of the odd fine nodes -/
theorem wl_interior_eq_prolong_weight (h : ℕ → K) (I : ℕ) (hI : 1 ≤ I) :
    wl h I = h (2*I-1-1) / (h (2*I-1-1) + h (2*I-1)) := by
  have : I ≠ 0 := by omega
  simp only [wl, this, if_false]
  have e : 2*I-1-1 = 2*I-2 := by omega
  rw [e]

theorem wr_interior_eq_prolong_weight (h : ℕ → K) (n I : ℕ) (hI : 2*I ≠ n) :
    wr h n I = h (2*I+1) / (h (2*I+1-1) + h (2*I+1)) := by
  simp only [wr, hI, if_false, Nat.add_sub_cancel]

def crange (m : Mode) (N : ℕ) : ℕ := match m with | .idn => N | .node => N+1 | .cell => N
def frange (m : Mode) (N : ℕ) : ℕ := match m with | .idn => N | .node => 2*N+1 | .cell => 2*N

/-- piecewise-constant prolongation is the transpose of "sum of the two children" -/
theorem adj1_cell (h : ℕ → K) (n N : ℕ) (r c : ℕ → K) :
    ∑ I ∈ range N, R1 .cell h n r I * c I = ∑ i ∈ range (2*N), r i * P1 .cell h c i := by
  induction N with
  | zero => simp
  | succ N ih =>
    rw [sum_range_succ, ih, show 2*(N+1) = 2*N+1+1 by ring, sum_range_succ, sum_range_succ]
    simp only [R1, P1]
    have e1 : (2*N)/2 = N := by omega
    have e2 : (2*N+1)/2 = N := by omega
    rw [e1, e2]; ring

/-- interior form of the node restriction stencil -/
def stencil (h : ℕ → K) (r : ℕ → K) (I : ℕ) : K :=
  r (2*I) + h (2*I-2) / (h (2*I-2) + h (2*I-1)) * r (2*I-1)
    + h (2*I+1) / (h (2*I) + h (2*I+1)) * r (2*I+1)

theorem adj1_node_general (h : ℕ → K) (r c : ℕ → K) (N : ℕ) :
    ∑ j ∈ range (2*N+1), r j * P1 .node h c j
      = ∑ I ∈ range (N+1), stencil h r I * c I
        - h (2*0-2) / (h (2*0-2) + h (2*0-1)) * r (2*0-1) * c 0
        - h (2*N+1) / (h (2*N) + h (2*N+1)) * r (2*N+1) * c N := by
  induction N with
  | zero => simp [stencil, P1]; ring
  | succ N ih =>
    rw [show 2*(N+1)+1 = 2*N+1+1+1 by ring, sum_range_succ, sum_range_succ, ih,
      sum_range_succ _ (N+1)]
    simp only [stencil, P1]
    have e1 : (2*N+1) % 2 = 1 := by omega
    have e2 : (2*N+1+1) % 2 = 0 := by omega
    have e3 : (2*N+1)/2 = N := by omega
    have e4 : (2*N+1+1)/2 = N+1 := by omega
    have e5 : 2*(N+1) = 2*N+1+1 := by ring
    have e6 : 2*N+1-1 = 2*N := by omega
    have e7 : 2*N+1+1-2 = 2*N := by omega
    have e8 : 2*N+1+1-1 = 2*N+1 := by omega
    simp only [e1, e2, e3, e4, e5, e6, e7, e8, one_ne_zero, if_false, if_true]
    ring

/-- **linear interpolation is the transpose of the three-point restriction stencil**
(coarse values vanishing at the two boundary nodes) -/
theorem adj1_node (h : ℕ → K) (N : ℕ) (r c : ℕ → K) (h0 : c 0 = 0) (hN : c N = 0) :
    ∑ I ∈ range (N+1), R1 .node h (2*N) r I * c I
      = ∑ j ∈ range (2*N+1), r j * P1 .node h c j := by
  rw [adj1_node_general, h0, hN]
  simp only [mul_zero, sub_zero]
  apply sum_congr rfl
  intro I hI
  have hI' : I < N+1 := mem_range.1 hI
  by_cases hz : I = 0
  · subst hz; rw [h0]; ring
  · by_cases hn : I = N
    · subst hn; rw [hN]; ring
    · have h2 : 2*I ≠ 2*N := by omega
      have h3 : min (2*N) (2*I+1) = 2*I+1 := by omega
      simp only [R1, wl, wr, stencil, hz, h2, if_false, h3]

theorem P1_zero (m : Mode) (h : ℕ → K) (i : ℕ) : P1 m h (fun _ => (0:K)) i = 0 := by
  cases m <;> simp [P1]

/-- one-dimensional adjointness for every mode; for `.node` the coarse values must vanish at
the first and last node; for `.idn` the two ranges coincide. -/
theorem adj1 (m : Mode) (h : ℕ → K) (n N : ℕ) (hn : m = .node → n = 2*N) (r c : ℕ → K)
    (hc : m = .node → c 0 = 0 ∧ c N = 0) :
    ∑ I ∈ range (crange m N), R1 m h n r I * c I
      = ∑ i ∈ range (frange m N), r i * P1 m h c i := by
  cases m with
  | idn => simp [crange, frange, R1, P1]
  | node => rw [hn rfl]; exact adj1_node h N r c (hc rfl).1 (hc rfl).2
  | cell => exact adj1_cell h n N r c

/-! ## three dimensions -/

/-- Generic tensor-product statement: restriction and prolongation of one scalar array with
per-direction modes are transposes of each other.  `Nx Ny Nz` are the coarse sizes in the
coarsened directions (number of entries in the others). -/
theorem adj3 (mx my mz : Mode) (g : Grid K) (Nx Ny Nz : ℕ)
    (hgx : mx = .node → g.nx = 2*Nx) (hgy : my = .node → g.ny = 2*Ny)
    (hgz : mz = .node → g.nz = 2*Nz) (r c : F3 K)
    (hcx : mx = .node → ∀ J L, c 0 J L = 0 ∧ c Nx J L = 0)
    (hcy : my = .node → ∀ I L, c I 0 L = 0 ∧ c I Ny L = 0)
    (hcz : mz = .node → ∀ I J, c I J 0 = 0 ∧ c I J Nz = 0) :
    S3 (crange mx Nx) (crange my Ny) (crange mz Nz) (fun I J L => R3 mx my mz g r I J L * c I J L)
      = S3 (frange mx Nx) (frange my Ny) (frange mz Nz) (fun i j k => r i j k * P3 mx my mz g c i j k) := by
  unfold S3 R3 P3
  -- x
  have sx : ∀ (F : ℕ → ℕ → ℕ → K),
      ∑ I ∈ range (crange mx Nx), ∑ J ∈ range (crange my Ny), ∑ L ∈ range (crange mz Nz),
        R1 mx g.hx g.nx (fun i => F i J L) I * c I J L
      = ∑ i ∈ range (frange mx Nx), ∑ J ∈ range (crange my Ny), ∑ L ∈ range (crange mz Nz),
        F i J L * P1 mx g.hx (fun I => c I J L) i := by
    intro F
    rw [sum_comm]
    conv_rhs => rw [sum_comm]
    apply sum_congr rfl; intro J _
    rw [sum_comm]
    conv_rhs => rw [sum_comm]
    apply sum_congr rfl; intro L _
    exact adj1 mx g.hx g.nx Nx hgx (fun i => F i J L) (fun I => c I J L) (fun hm => hcx hm J L)
  rw [sx (fun i J L => R1 my g.hy g.ny (fun j => R1 mz g.hz g.nz (fun k => r i j k) L) J)]
  apply sum_congr rfl; intro i _
  -- y
  have sy : ∀ (F : ℕ → ℕ → K) (c' : ℕ → ℕ → K), (my = .node → ∀ L, c' 0 L = 0 ∧ c' Ny L = 0) →
      ∑ J ∈ range (crange my Ny), ∑ L ∈ range (crange mz Nz),
        R1 my g.hy g.ny (fun j => F j L) J * c' J L
      = ∑ j ∈ range (frange my Ny), ∑ L ∈ range (crange mz Nz),
        F j L * P1 my g.hy (fun J => c' J L) j := by
    intro F c' hc'
    rw [sum_comm]
    conv_rhs => rw [sum_comm]
    apply sum_congr rfl; intro L _
    exact adj1 my g.hy g.ny Ny hgy (fun j => F j L) (fun J => c' J L) (fun hm => hc' hm L)
  rw [sy (fun j L => R1 mz g.hz g.nz (fun k => r i j k) L)
    (fun J L => P1 mx g.hx (fun I => c I J L) i)
    (fun hm L => by
      have h1 : (fun I => c I 0 L) = fun _ => 0 := by funext I; exact (hcy hm I L).1
      have h2 : (fun I => c I Ny L) = fun _ => 0 := by funext I; exact (hcy hm I L).2
      simp only [h1, h2, P1_zero, and_self])]
  apply sum_congr rfl; intro j _
  -- z
  exact adj1 mz g.hz g.nz Nz hgz (fun k => r i j k)
    (fun L => P1 my g.hy (fun J => P1 mx g.hx (fun I => c I J L) i) j)
    (fun hm => by
      have h1 : (fun J => P1 mx g.hx (fun I => c I J 0) i) = fun _ => 0 := by
        funext J
        have : (fun I => c I J 0) = fun _ => 0 := by funext I; exact (hcz hm I J).1
        rw [this, P1_zero]
      have h2 : (fun J => P1 mx g.hx (fun I => c I J Nz) i) = fun _ => 0 := by
        funext J
        have : (fun I => c I J Nz) = fun _ => 0 := by funext I; exact (hcz hm I J).2
        rw [this, P1_zero]
      simp only [h1, h2, P1_zero, and_self])


theorem adj3' (mx my mz : Mode) (g : Grid K) (Nx Ny Nz a1 a2 a3 b1 b2 b3 : ℕ)
    (ha1 : a1 = crange mx Nx) (ha2 : a2 = crange my Ny) (ha3 : a3 = crange mz Nz)
    (hb1 : b1 = frange mx Nx) (hb2 : b2 = frange my Ny) (hb3 : b3 = frange mz Nz)
    (hgx : mx = .node → g.nx = 2*Nx) (hgy : my = .node → g.ny = 2*Ny)
    (hgz : mz = .node → g.nz = 2*Nz) (r c : F3 K)
    (hcx : mx = .node → ∀ J L, c 0 J L = 0 ∧ c Nx J L = 0)
    (hcy : my = .node → ∀ I L, c I 0 L = 0 ∧ c I Ny L = 0)
    (hcz : mz = .node → ∀ I J, c I J 0 = 0 ∧ c I J Nz = 0) :
    S3 a1 a2 a3 (fun I J L => R3 mx my mz g r I J L * c I J L)
      = S3 b1 b2 b3 (fun i j k => r i j k * P3 mx my mz g c i j k) := by
  subst ha1 ha2 ha3 hb1 hb2 hb3
  exact adj3 mx my mz g Nx Ny Nz hgx hgy hgz r c hcx hcy hcz

/-- the grid can be coarsened with pattern `sc` -/
def Coarsenable (sc : ℕ) (g : Grid K) : Prop :=
  (coarsX sc = true → g.nx % 2 = 0) ∧ (coarsY sc = true → g.ny % 2 = 0) ∧
  (coarsZ sc = true → g.nz % 2 = 0)

/-- coarse edge field with vanishing tangential components on the coarse boundary -/
def CPEC (cg : Grid K) (c : EF K) : Prop := PEC cg c

theorem S3_congr_mem' (n1 n2 n3 : ℕ) (f h : ℕ → ℕ → ℕ → K)
    (e : ∀ i j k, i < n1 → j < n2 → k < n3 → f i j k = h i j k) :
    S3 n1 n2 n3 f = S3 n1 n2 n3 h := by
  unfold S3
  exact sum_congr rfl fun i hi => sum_congr rfl fun j hj => sum_congr rfl fun k hk =>
    e i j k (mem_range.1 hi) (mem_range.1 hj) (mem_range.1 hk)

/-- **Restriction = prolongationᵀ, x-edges**: for every fine residual `r` and every coarse
field `c` with vanishing tangential boundary values, `⟨restrict r, c⟩_coarse = ⟨r, P c⟩_fine`
(all seven patterns). -/
theorem restrict_transpose_prolong_x (sc : ℕ) (g : Grid K) (hg : Coarsenable sc g) (r c : EF K)
    (hc : PEC (coarseGrid sc g) c) :
    S3 (coarseGrid sc g).nx ((coarseGrid sc g).ny+1) ((coarseGrid sc g).nz+1)
        (fun I J L => (restrict sc g r).x I J L * c.x I J L)
      = S3 g.nx (g.ny+1) (g.nz+1)
        (fun i j k => r.x i j k *
          P3 (along (coarsX sc)) (across (coarsY sc)) (across (coarsZ sc)) g c.x i j k) := by
  have e : S3 (coarseGrid sc g).nx ((coarseGrid sc g).ny+1) ((coarseGrid sc g).nz+1)
        (fun I J L => (restrict sc g r).x I J L * c.x I J L)
      = S3 (coarseGrid sc g).nx ((coarseGrid sc g).ny+1) ((coarseGrid sc g).nz+1)
        (fun I J L => R3 (along (coarsX sc)) (across (coarsY sc)) (across (coarsZ sc)) g r.x I J L
          * c.x I J L) := by
    apply S3_congr_mem'; intro I J L hI hJ hL
    have : I < (coarseGrid sc g).nx ∧ J ≤ (coarseGrid sc g).ny ∧ L ≤ (coarseGrid sc g).nz := by omega
    simp only [restrict, this, and_self, if_true]
  rw [e]
  obtain ⟨hgx, hgy, hgz⟩ := hg
  cases hx : coarsX sc <;> cases hy : coarsY sc <;> cases hz : coarsZ sc <;>
    simp only [hx, hy, hz, forall_const, Bool.false_eq_true, IsEmpty.forall_iff] at hgx hgy hgz <;>
    simp only [along, across, Bool.false_eq_true, if_false, if_true] <;>
    refine adj3' _ _ _ g (coarseGrid sc g).nx
      (if coarsY sc then (coarseGrid sc g).ny else (coarseGrid sc g).ny + 1)
      (if coarsZ sc then (coarseGrid sc g).nz else (coarseGrid sc g).nz + 1)
      _ _ _ _ _ _ ?_ ?_ ?_ ?_ ?_ ?_ ?_ ?_ ?_ r.x c.x ?_ ?_ ?_ <;>
    simp only [coarseGrid, cN, hx, hy, hz, crange, frange, if_true, if_false, Bool.false_eq_true,
      reduceCtorEq, IsEmpty.forall_iff, forall_const] <;>
    first
      | omega
      | (intro a b; first
          | exact ⟨hc.x_j0 a b, by simpa [coarseGrid, cN, hx, hy, hz] using hc.x_jn a b⟩
          | exact ⟨hc.x_k0 a b, by simpa [coarseGrid, cN, hx, hy, hz] using hc.x_kn a b⟩)


/-- **Restriction = prolongationᵀ, y-edges.** -/
theorem restrict_transpose_prolong_y (sc : ℕ) (g : Grid K) (hg : Coarsenable sc g) (r c : EF K)
    (hc : PEC (coarseGrid sc g) c) :
    S3 ((coarseGrid sc g).nx+1) (coarseGrid sc g).ny ((coarseGrid sc g).nz+1)
        (fun I J L => (restrict sc g r).y I J L * c.y I J L)
      = S3 (g.nx+1) g.ny (g.nz+1)
        (fun i j k => r.y i j k *
          P3 (across (coarsX sc)) (along (coarsY sc)) (across (coarsZ sc)) g c.y i j k) := by
  have e : S3 ((coarseGrid sc g).nx+1) (coarseGrid sc g).ny ((coarseGrid sc g).nz+1)
        (fun I J L => (restrict sc g r).y I J L * c.y I J L)
      = S3 ((coarseGrid sc g).nx+1) (coarseGrid sc g).ny ((coarseGrid sc g).nz+1)
        (fun I J L => R3 (across (coarsX sc)) (along (coarsY sc)) (across (coarsZ sc)) g r.y I J L
          * c.y I J L) := by
    apply S3_congr_mem'; intro I J L hI hJ hL
    have : I ≤ (coarseGrid sc g).nx ∧ J < (coarseGrid sc g).ny ∧ L ≤ (coarseGrid sc g).nz := by omega
    simp only [restrict, this, and_self, if_true]
  rw [e]
  obtain ⟨hgx, hgy, hgz⟩ := hg
  cases hx : coarsX sc <;> cases hy : coarsY sc <;> cases hz : coarsZ sc <;>
    simp only [hx, hy, hz, forall_const, Bool.false_eq_true, IsEmpty.forall_iff] at hgx hgy hgz <;>
    simp only [along, across, Bool.false_eq_true, if_false, if_true] <;>
    refine adj3' _ _ _ g
      (if coarsX sc then (coarseGrid sc g).nx else (coarseGrid sc g).nx + 1)
      (coarseGrid sc g).ny
      (if coarsZ sc then (coarseGrid sc g).nz else (coarseGrid sc g).nz + 1)
      _ _ _ _ _ _ ?_ ?_ ?_ ?_ ?_ ?_ ?_ ?_ ?_ r.y c.y ?_ ?_ ?_ <;>
    simp only [coarseGrid, cN, hx, hy, hz, crange, frange, if_true, if_false, Bool.false_eq_true,
      reduceCtorEq, IsEmpty.forall_iff, forall_const] <;>
    first
      | omega
      | (intro a b; first
          | exact ⟨hc.y_i0 a b, by simpa [coarseGrid, cN, hx, hy, hz] using hc.y_in a b⟩
          | exact ⟨hc.y_k0 a b, by simpa [coarseGrid, cN, hx, hy, hz] using hc.y_kn a b⟩)

/-- **Restriction = prolongationᵀ, z-edges.** -/
theorem restrict_transpose_prolong_z (sc : ℕ) (g : Grid K) (hg : Coarsenable sc g) (r c : EF K)
    (hc : PEC (coarseGrid sc g) c) :
    S3 ((coarseGrid sc g).nx+1) ((coarseGrid sc g).ny+1) (coarseGrid sc g).nz
        (fun I J L => (restrict sc g r).z I J L * c.z I J L)
      = S3 (g.nx+1) (g.ny+1) g.nz
        (fun i j k => r.z i j k *
          P3 (across (coarsX sc)) (across (coarsY sc)) (along (coarsZ sc)) g c.z i j k) := by
  have e : S3 ((coarseGrid sc g).nx+1) ((coarseGrid sc g).ny+1) (coarseGrid sc g).nz
        (fun I J L => (restrict sc g r).z I J L * c.z I J L)
      = S3 ((coarseGrid sc g).nx+1) ((coarseGrid sc g).ny+1) (coarseGrid sc g).nz
        (fun I J L => R3 (across (coarsX sc)) (across (coarsY sc)) (along (coarsZ sc)) g r.z I J L
          * c.z I J L) := by
    apply S3_congr_mem'; intro I J L hI hJ hL
    have : I ≤ (coarseGrid sc g).nx ∧ J ≤ (coarseGrid sc g).ny ∧ L < (coarseGrid sc g).nz := by omega
    simp only [restrict, this, and_self, if_true]
  rw [e]
  obtain ⟨hgx, hgy, hgz⟩ := hg
  cases hx : coarsX sc <;> cases hy : coarsY sc <;> cases hz : coarsZ sc <;>
    simp only [hx, hy, hz, forall_const, Bool.false_eq_true, IsEmpty.forall_iff] at hgx hgy hgz <;>
    simp only [along, across, Bool.false_eq_true, if_false, if_true] <;>
    refine adj3' _ _ _ g
      (if coarsX sc then (coarseGrid sc g).nx else (coarseGrid sc g).nx + 1)
      (if coarsY sc then (coarseGrid sc g).ny else (coarseGrid sc g).ny + 1)
      (coarseGrid sc g).nz
      _ _ _ _ _ _ ?_ ?_ ?_ ?_ ?_ ?_ ?_ ?_ ?_ r.z c.z ?_ ?_ ?_ <;>
    simp only [coarseGrid, cN, hx, hy, hz, crange, frange, if_true, if_false, Bool.false_eq_true,
      reduceCtorEq, IsEmpty.forall_iff, forall_const] <;>
    first
      | omega
      | (intro a b; first
          | exact ⟨hc.z_i0 a b, by simpa [coarseGrid, cN, hx, hy, hz] using hc.z_in a b⟩
          | exact ⟨hc.z_j0 a b, by simpa [coarseGrid, cN, hx, hy, hz] using hc.z_jn a b⟩)

/-! ## prolongation: adds, keeps the boundary, convex weights -/

/-- prolongation *adds* the interpolated correction to the fine field -/
theorem prolong_adds (sc : ℕ) (g : Grid K) (e ce : EF K) (i j k : ℕ) :
    (prolong sc g e ce).x i j k = e.x i j k + (prolong sc g zeroEF ce).x i j k ∧
    (prolong sc g e ce).y i j k = e.y i j k + (prolong sc g zeroEF ce).y i j k ∧
    (prolong sc g e ce).z i j k = e.z i j k + (prolong sc g zeroEF ce).z i j k := by
  refine ⟨?_, ?_, ?_⟩ <;> simp only [prolong, zeroEF] <;> split <;> simp

/-- tangential boundary edges of the fine field are never touched by the prolongation -/
theorem prolong_keeps_boundary (sc : ℕ) (g : Grid K) (e ce : EF K) (i j k : ℕ) :
    ((j = 0 ∨ g.ny ≤ j ∨ k = 0 ∨ g.nz ≤ k) → (prolong sc g e ce).x i j k = e.x i j k) ∧
    ((i = 0 ∨ g.nx ≤ i ∨ k = 0 ∨ g.nz ≤ k) → (prolong sc g e ce).y i j k = e.y i j k) ∧
    ((i = 0 ∨ g.nx ≤ i ∨ j = 0 ∨ g.ny ≤ j) → (prolong sc g e ce).z i j k = e.z i j k) := by
  refine ⟨fun h => ?_, fun h => ?_, fun h => ?_⟩ <;> simp only [prolong] <;> split <;>
    first | rfl | (exfalso; omega)

end Emg

namespace Emg
variable {K : Type} [Field K] [LinearOrder K] [IsStrictOrderedRing K]

/-- the two linear-interpolation weights of an odd fine node are non-negative … -/
theorem P1_node_weights_nonneg (h : ℕ → K) (hpos : ∀ i, 0 < h i) (j : ℕ) :
    0 ≤ h j / (h (j-1) + h j) ∧ 0 ≤ h (j-1) / (h (j-1) + h j) := by
  have h1 := hpos j; have h2 := hpos (j-1)
  constructor <;> positivity

/-- … and sum to one -/
theorem P1_node_weights_sum_one (h : ℕ → K) (hpos : ∀ i, 0 < h i) (j : ℕ) :
    h j / (h (j-1) + h j) + h (j-1) / (h (j-1) + h j) = 1 := by
  have h1 := hpos j; have h2 := hpos (j-1)
  have : h (j-1) + h j ≠ 0 := by positivity
  field_simp; ring

theorem P1_const (m : Mode) (h : ℕ → K) (hpos : ∀ i, 0 < h i) (i : ℕ) :
    P1 m h (fun _ => (1:K)) i = 1 := by
  cases m with
  | idn => rfl
  | cell => rfl
  | node =>
    simp only [P1]
    split
    · rfl
    · have := P1_node_weights_sum_one h hpos i
      rw [mul_one, mul_one]; exact this

/-- **the prolongation weights of every fine edge sum to one** (constants are reproduced) -/
theorem P3_const (mx my mz : Mode) (g : Grid K) (hx : ∀ i, 0 < g.hx i) (hy : ∀ i, 0 < g.hy i)
    (hz : ∀ i, 0 < g.hz i) (i j k : ℕ) : P3 mx my mz g (fun _ _ _ => (1:K)) i j k = 1 := by
  simp only [P3, P1_const mx g.hx hx, P1_const my g.hy hy, P1_const mz g.hz hz]

end Emg

namespace Emg
variable {K : Type} [Field K]

/-! ## coarse grid and coarse model -/

/-- position of node `k`: origin + sum of the first `k` widths -/
def nodePos (x0 : K) (h : ℕ → K) (k : ℕ) : K := x0 + ∑ i ∈ range k, h i

/-- **the coarse grid consists of every second node in a coarsened direction** -/
theorem coarse_nodes_every_second (x0 : K) (h : ℕ → K) (I : ℕ) :
    nodePos x0 (fun J => h (2*J) + h (2*J+1)) I = nodePos x0 h (2*I) := by
  unfold nodePos
  congr 1
  induction I with
  | zero => simp
  | succ I ih =>
    rw [sum_range_succ, ih, show 2*(I+1) = 2*I+1+1 by ring, sum_range_succ, sum_range_succ]
    ring

theorem coarseGrid_widths (sc : ℕ) (g : Grid K) :
    (coarsX sc = true → (coarseGrid sc g).hx = fun I => g.hx (2*I) + g.hx (2*I+1)) ∧
    (coarsX sc = false → (coarseGrid sc g).hx = g.hx) := by
  constructor <;> intro h <;> simp [coarseGrid, h]

/-- **each coarse material parameter is the sum of its fine-cell children** (written out for
full coarsening: eight children; semicoarsening patterns give four or two by the same unfolding) -/
theorem restrictParam_children (g : Grid K) (p : F3 K) (I J L : ℕ) :
    restrictParam 0 g p I J L
      = p (2*I) (2*J) (2*L) + p (2*I+1) (2*J) (2*L) + p (2*I) (2*J+1) (2*L) + p (2*I+1) (2*J+1) (2*L)
      + p (2*I) (2*J) (2*L+1) + p (2*I+1) (2*J) (2*L+1) + p (2*I) (2*J+1) (2*L+1)
      + p (2*I+1) (2*J+1) (2*L+1) ∧
    restrictParam 4 g p I J L = p (2*I) J L + p (2*I+1) J L ∧
    restrictParam 1 g p I J L
      = p I (2*J) (2*L) + p I (2*J+1) (2*L) + p I (2*J) (2*L+1) + p I (2*J+1) (2*L+1) := by
  refine ⟨?_, ?_, ?_⟩ <;>
    simp [restrictParam, R3, R1, along, coarsX, coarsY, coarsZ] <;> ring

/-- **volume-weighted parameters are conserved by the model restriction**: the sum over the
coarse grid equals the sum over the fine grid, for all seven patterns. -/
theorem restrictParam_conserves (sc : ℕ) (g : Grid K) (hg : Coarsenable sc g) (p : F3 K) :
    S3 (coarseGrid sc g).nx (coarseGrid sc g).ny (coarseGrid sc g).nz (restrictParam sc g p)
      = S3 g.nx g.ny g.nz p := by
  have h := adj3' (along (coarsX sc)) (along (coarsY sc)) (along (coarsZ sc)) g
    (coarseGrid sc g).nx (coarseGrid sc g).ny (coarseGrid sc g).nz
    (coarseGrid sc g).nx (coarseGrid sc g).ny (coarseGrid sc g).nz g.nx g.ny g.nz
  obtain ⟨hgx, hgy, hgz⟩ := hg
  have key : S3 (coarseGrid sc g).nx (coarseGrid sc g).ny (coarseGrid sc g).nz
        (fun I J L => R3 (along (coarsX sc)) (along (coarsY sc)) (along (coarsZ sc)) g p I J L
          * (fun _ _ _ => (1:K)) I J L)
      = S3 g.nx g.ny g.nz (fun i j k => p i j k *
          P3 (along (coarsX sc)) (along (coarsY sc)) (along (coarsZ sc)) g (fun _ _ _ => (1:K)) i j k) := by
    cases hx : coarsX sc <;> cases hy : coarsY sc <;> cases hz : coarsZ sc <;>
      simp only [hx, hy, hz, forall_const, Bool.false_eq_true, IsEmpty.forall_iff] at hgx hgy hgz <;>
      simp only [along, Bool.false_eq_true, if_false, if_true] <;>
      refine adj3' _ _ _ g (coarseGrid sc g).nx (coarseGrid sc g).ny (coarseGrid sc g).nz
        _ _ _ _ _ _ ?_ ?_ ?_ ?_ ?_ ?_ ?_ ?_ ?_ p _ ?_ ?_ ?_ <;>
      simp only [coarseGrid, cN, hx, hy, hz, crange, frange, if_true, if_false, Bool.false_eq_true,
        reduceCtorEq, IsEmpty.forall_iff, forall_const] <;>
      omega
  have hP : ∀ i j k, P3 (along (coarsX sc)) (along (coarsY sc)) (along (coarsZ sc)) g
      (fun _ _ _ => (1:K)) i j k = 1 := by
    intro i j k
    cases hx : coarsX sc <;> cases hy : coarsY sc <;> cases hz : coarsZ sc <;>
      simp [P3, P1, along]
  simp only [hP, mul_one] at key
  exact key

/-- the dual-cell formulation of the restriction weights (Eq. 9 of the reference, as coded
with nodes, cell centres and half dual cells) reduces to the closed form used by the model -/
theorem restrict_weights_closed_form (x a b : K) (hab : a + b ≠ 0) (h2 : (2:K) ≠ 0) :
    ((x + a + b/2) - (x + (a + b)/2)) / ((a + b)/2) = a / (a + b) ∧
    ((x + (a + b)/2) - (x + a/2)) / ((a + b)/2) = b / (a + b) := by
  constructor <;> field_simp <;> ring

end Emg

