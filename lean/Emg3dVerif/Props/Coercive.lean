import Emg3dVerif.Props.Cycle
import Mathlib.Data.Complex.Basic
import Mathlib.Data.Complex.BigOperators
import Mathlib.Algebra.Order.BigOperators.Group.Finset
import Mathlib.Tactic.Linarith
import Mathlib.Tactic.Positivity
set_option linter.unusedSectionVars false
/-!
# Every block system of every smoother is non-singular for physical models

The fixed-point and linearity theorems of C03 (and `mgRun_fixed`) assume `AllInj g m`: the
block systems the smoothers solve are non-singular — the solver's documented precondition.
Here the precondition is *proved* for the models the solver is made for, over `ℂ`:

* real cell widths,
* `ζ = V/μ_r` real and non-negative,
* every `η` of the grid's cells in one open half-plane `a·Re η + b·Im η < 0` with `a ≥ 0`
  — frequency domain (`s = iω`, `η = −iωμ₀(σ + iωε)V`, `Im η < 0`): `(a, b) = (0, 1)`;
  Laplace domain (`s > 0`, `η = −sμ₀(σ + sε)V < 0`): `(a, b) = (1, 0)`.

The argument is the energy identity of C02 (`edgeDot_fit`, summation by parts): for a field
`d` supported on a block whose block rows vanish, `0 = ⟨A d, d̄⟩ = Σ_faces ζ̄|curl d|² −
Σ_edges η̄|d|²`; the half-plane functional of the right-hand side is a sum of non-negative
terms, so every `|d_e|²` vanishes.  The class of models is closed under the coarsening of
`solver.restriction` (sums of children), so the whole hierarchy is covered.
-/
namespace Emg
open Complex Finset MGH

/-- component-wise complex conjugate -/
noncomputable def conjEF (d : EF ℂ) : EF ℂ :=
  ⟨fun i j k => (starRingEnd ℂ) (d.x i j k), fun i j k => (starRingEnd ℂ) (d.y i j k),
   fun i j k => (starRingEnd ℂ) (d.z i j k)⟩

/-- the physical models: real widths, real non-negative `ζ`, all `η` of the grid's cells in the
open half-plane `a Re + b Im < 0` -/
structure Phys (g : Grid ℂ) (m : VM ℂ) (a b : ℝ) : Prop where
  ha : 0 ≤ a
  hx : ∀ i, (starRingEnd ℂ) (g.hx i) = g.hx i
  hy : ∀ i, (starRingEnd ℂ) (g.hy i) = g.hy i
  hz : ∀ i, (starRingEnd ℂ) (g.hz i) = g.hz i
  zeta_im : ∀ i j k, (m.zeta i j k).im = 0
  zeta_re : ∀ i j k, 0 ≤ (m.zeta i j k).re
  etaX : ∀ i j k, i < g.nx → j < g.ny → k < g.nz → a * (m.etaX i j k).re + b * (m.etaX i j k).im < 0
  etaY : ∀ i j k, i < g.nx → j < g.ny → k < g.nz → a * (m.etaY i j k).re + b * (m.etaY i j k).im < 0
  etaZ : ∀ i j k, i < g.nx → j < g.ny → k < g.nz → a * (m.etaZ i j k).re + b * (m.etaZ i j k).im < 0

/-- the half-plane functional, additive -/
def Lw (a b : ℝ) : ℂ →+ ℝ :=
  { toFun := fun z => a * z.re + b * z.im
    map_zero' := by simp
    map_add' := by intro x y; simp only [add_re, add_im]; ring }

theorem Lw_apply (a b : ℝ) (z : ℂ) : Lw a b z = a * z.re + b * z.im := rfl

theorem Lw_S3 (a b : ℝ) (n1 n2 n3 : ℕ) (f : ℕ → ℕ → ℕ → ℂ) :
    Lw a b (S3 n1 n2 n3 f) = ∑ i ∈ range n1, ∑ j ∈ range n2, ∑ k ∈ range n3, Lw a b (f i j k) := by
  simp only [S3, map_sum]

/-- `r · c · c̄` with real `r`: real, equal to `r |c|²` -/
theorem Lw_real_mul_conj (a b : ℝ) (r c : ℂ) (hr : r.im = 0) :
    Lw a b (r * c * (starRingEnd ℂ) c) = a * (r.re * normSq c) := by
  have : r * c * (starRingEnd ℂ) c = r * (normSq c : ℂ) := by rw [mul_assoc, mul_conj]
  rw [this, Lw_apply]
  simp [hr]

theorem Lw_mul_conj (a b : ℝ) (e c : ℂ) :
    Lw a b (e * c * (starRingEnd ℂ) c) = (a * e.re + b * e.im) * normSq c := by
  have : e * c * (starRingEnd ℂ) c = e * (normSq c : ℂ) := by rw [mul_assoc, mul_conj]
  rw [this, Lw_apply]
  simp
  ring

section energy
variable {g : Grid ℂ} {m : VM ℂ} {a b : ℝ}

theorem curlX_conj (h : Phys g m a b) (d : EF ℂ) (i j k : ℕ) :
    curlX g (conjEF d) i j k = (starRingEnd ℂ) (curlX g d i j k) := by
  simp only [curlX, conjEF, map_sub, map_div₀, h.hy, h.hz]

theorem curlY_conj (h : Phys g m a b) (d : EF ℂ) (i j k : ℕ) :
    curlY g (conjEF d) i j k = (starRingEnd ℂ) (curlY g d i j k) := by
  simp only [curlY, conjEF, map_sub, map_div₀, h.hx, h.hz]

theorem curlZ_conj (h : Phys g m a b) (d : EF ℂ) (i j k : ℕ) :
    curlZ g (conjEF d) i j k = (starRingEnd ℂ) (curlZ g d i j k) := by
  simp only [curlZ, conjEF, map_sub, map_div₀, h.hx, h.hy]

theorem PEC_conj (d : EF ℂ) (hd : PEC g d) : PEC g (conjEF d) := by
  constructor <;> intros <;> simp only [conjEF] <;>
    first
    | rw [hd.x_j0, map_zero] | rw [hd.x_jn, map_zero] | rw [hd.x_k0, map_zero]
    | rw [hd.x_kn, map_zero] | rw [hd.y_i0, map_zero] | rw [hd.y_in, map_zero]
    | rw [hd.y_k0, map_zero] | rw [hd.y_kn, map_zero] | rw [hd.z_i0, map_zero]
    | rw [hd.z_in, map_zero] | rw [hd.z_j0, map_zero] | rw [hd.z_jn, map_zero]

theorem mf_real (h : Phys g m a b) :
    (∀ i j k, (mfX m i j k).im = 0 ∧ 0 ≤ (mfX m i j k).re) ∧
    (∀ i j k, (mfY m i j k).im = 0 ∧ 0 ≤ (mfY m i j k).re) ∧
    (∀ i j k, (mfZ m i j k).im = 0 ∧ 0 ≤ (mfZ m i j k).re) := by
  have two : (2 : ℂ) = ((2 : ℝ) : ℂ) := by norm_num
  refine ⟨fun i j k => ?_, fun i j k => ?_, fun i j k => ?_⟩
  · simp only [mfX, two, div_ofReal_im, div_ofReal_re, add_im, add_re, h.zeta_im]
    exact ⟨by simp, div_nonneg (add_nonneg (h.zeta_re _ _ _) (h.zeta_re _ _ _)) (by norm_num)⟩
  · simp only [mfY, two, div_ofReal_im, div_ofReal_re, add_im, add_re, h.zeta_im]
    exact ⟨by simp, div_nonneg (add_nonneg (h.zeta_re _ _ _) (h.zeta_re _ _ _)) (by norm_num)⟩
  · simp only [mfZ, two, div_ofReal_im, div_ofReal_re, add_im, add_re, h.zeta_im]
    exact ⟨by simp, div_nonneg (add_nonneg (h.zeta_re _ _ _) (h.zeta_re _ _ _)) (by norm_num)⟩

/-- the edge average of `η` stays in the half-plane on interior edges -/
theorem meX_half (h : Phys g m a b) (i j k : ℕ) (hi : i < g.nx) (hj : 1 ≤ j ∧ j < g.ny)
    (hk : 1 ≤ k ∧ k < g.nz) : a * (meX m i j k).re + b * (meX m i j k).im < 0 := by
  have four : (4 : ℂ) = ((4 : ℝ) : ℂ) := by norm_num
  have h1 := h.etaX i (j-1) (k-1) hi (by omega) (by omega)
  have h2 := h.etaX i (j-1) k hi (by omega) hk.2
  have h3 := h.etaX i j (k-1) hi hj.2 (by omega)
  have h4 := h.etaX i j k hi hj.2 hk.2
  simp only [meX, four, div_ofReal_im, div_ofReal_re, add_im, add_re]
  linarith

theorem meY_half (h : Phys g m a b) (i j k : ℕ) (hi : 1 ≤ i ∧ i < g.nx) (hj : j < g.ny)
    (hk : 1 ≤ k ∧ k < g.nz) : a * (meY m i j k).re + b * (meY m i j k).im < 0 := by
  have four : (4 : ℂ) = ((4 : ℝ) : ℂ) := by norm_num
  have h1 := h.etaY (i-1) j (k-1) (by omega) hj (by omega)
  have h2 := h.etaY i j (k-1) hi.2 hj (by omega)
  have h3 := h.etaY (i-1) j k (by omega) hj hk.2
  have h4 := h.etaY i j k hi.2 hj hk.2
  simp only [meY, four, div_ofReal_im, div_ofReal_re, add_im, add_re]
  linarith

theorem meZ_half (h : Phys g m a b) (i j k : ℕ) (hi : 1 ≤ i ∧ i < g.nx) (hj : 1 ≤ j ∧ j < g.ny)
    (hk : k < g.nz) : a * (meZ m i j k).re + b * (meZ m i j k).im < 0 := by
  have four : (4 : ℂ) = ((4 : ℝ) : ℂ) := by norm_num
  have h1 := h.etaZ (i-1) (j-1) k (by omega) (by omega) hk
  have h2 := h.etaZ i (j-1) k hi.2 (by omega) hk
  have h3 := h.etaZ (i-1) j k (by omega) hj.2 hk
  have h4 := h.etaZ i j k hi.2 hj.2 hk
  simp only [meZ, four, div_ofReal_im, div_ofReal_re, add_im, add_re]
  linarith

end energy

/-- a triple sum of non-negative terms that is `≤ 0` has only zero terms -/
theorem sum3_zero (n1 n2 n3 : ℕ) (f : ℕ → ℕ → ℕ → ℝ)
    (hf : ∀ i j k, i < n1 → j < n2 → k < n3 → 0 ≤ f i j k)
    (hs : ∑ i ∈ range n1, ∑ j ∈ range n2, ∑ k ∈ range n3, f i j k ≤ 0) :
    ∀ i j k, i < n1 → j < n2 → k < n3 → f i j k = 0 := by
  have h3 : ∀ i ∈ range n1, ∀ j ∈ range n2, 0 ≤ ∑ k ∈ range n3, f i j k := fun i hi j hj =>
    sum_nonneg fun k hk => hf i j k (mem_range.1 hi) (mem_range.1 hj) (mem_range.1 hk)
  have h2 : ∀ i ∈ range n1, 0 ≤ ∑ j ∈ range n2, ∑ k ∈ range n3, f i j k := fun i hi =>
    sum_nonneg (h3 i hi)
  have e1 : ∑ i ∈ range n1, ∑ j ∈ range n2, ∑ k ∈ range n3, f i j k = 0 :=
    le_antisymm hs (sum_nonneg h2)
  intro i j k hi hj hk
  have a1 := (sum_eq_zero_iff_of_nonneg h2).1 e1 i (mem_range.2 hi)
  have a2 := (sum_eq_zero_iff_of_nonneg (h3 i (mem_range.2 hi))).1 a1 j (mem_range.2 hj)
  exact (sum_eq_zero_iff_of_nonneg fun k hk =>
    hf i j k hi hj (mem_range.1 hk)).1 a2 k (mem_range.2 hk)

section main
variable {g : Grid ℂ} {m : VM ℂ} {a b : ℝ}

/-- `Lw` of the face term of the energy identity: non-negative -/
theorem Lw_face_nonneg (h : Phys g m a b) (d : EF ℂ) :
    0 ≤ Lw a b (faceDot g (fluxX g m d) (fluxY g m d) (fluxZ g m d)
      (curlX g (conjEF d)) (curlY g (conjEF d)) (curlZ g (conjEF d))) := by
  obtain ⟨hX, hY, hZ⟩ := mf_real h
  simp only [faceDot, map_add, Lw_S3, fluxX, fluxY, fluxZ, curlX_conj h, curlY_conj h,
    curlZ_conj h]
  refine add_nonneg (add_nonneg ?_ ?_) ?_ <;>
    refine sum_nonneg fun i _ => sum_nonneg fun j _ => sum_nonneg fun k _ => ?_
  · rw [Lw_real_mul_conj a b _ _ (hX i j k).1]
    exact mul_nonneg h.ha (mul_nonneg (hX i j k).2 (normSq_nonneg _))
  · rw [Lw_real_mul_conj a b _ _ (hY i j k).1]
    exact mul_nonneg h.ha (mul_nonneg (hY i j k).2 (normSq_nonneg _))
  · rw [Lw_real_mul_conj a b _ _ (hZ i j k).1]
    exact mul_nonneg h.ha (mul_nonneg (hZ i j k).2 (normSq_nonneg _))

/-- **Coercivity**: a field that vanishes outside the interior edges and whose image under the
operator is orthogonal to it edge by edge (`(A d)_q · conj d_q = 0`) is zero. -/
theorem energy_zero (h : Phys g m a b) (d : EF ℂ)
    (hni : ∀ q, ¬ Interior g.nx g.ny g.nz q → d.get q = 0)
    (hterm : ∀ q : Edge, (amat g m d).get q * (conjEF d).get q = 0) : ∀ q, d.get q = 0 := by
  -- d has vanishing tangential boundary values
  have hpec : PEC g d := by
    constructor <;> intros
    · exact hni ⟨.x, _, 0, _⟩ (by simp [Interior])
    · exact hni ⟨.x, _, g.ny, _⟩ (by simp [Interior])
    · exact hni ⟨.x, _, _, 0⟩ (by simp [Interior])
    · exact hni ⟨.x, _, _, g.nz⟩ (by simp [Interior])
    · exact hni ⟨.y, 0, _, _⟩ (by simp [Interior])
    · exact hni ⟨.y, g.nx, _, _⟩ (by simp [Interior])
    · exact hni ⟨.y, _, _, 0⟩ (by simp [Interior])
    · exact hni ⟨.y, _, _, g.nz⟩ (by simp [Interior])
    · exact hni ⟨.z, 0, _, _⟩ (by simp [Interior])
    · exact hni ⟨.z, g.nx, _, _⟩ (by simp [Interior])
    · exact hni ⟨.z, _, 0, _⟩ (by simp [Interior])
    · exact hni ⟨.z, _, g.ny, _⟩ (by simp [Interior])
  have hE : edgeDot g (amat g m d) (conjEF d) = 0 := by
    simp only [edgeDot, S3]
    have ex : ∀ i j k, (amat g m d).x i j k * (conjEF d).x i j k = 0 :=
      fun i j k => hterm ⟨.x, i, j, k⟩
    have ey : ∀ i j k, (amat g m d).y i j k * (conjEF d).y i j k = 0 :=
      fun i j k => hterm ⟨.y, i, j, k⟩
    have ez : ∀ i j k, (amat g m d).z i j k * (conjEF d).z i j k = 0 :=
      fun i j k => hterm ⟨.z, i, j, k⟩
    simp only [ex, ey, ez, sum_const_zero, add_zero]
  -- energy identity
  have hen := edgeDot_fit g m d (conjEF d) (PEC_conj d hpec)
  rw [← edgeDot_amat_eq_fit g m d (conjEF d) (PEC_conj d hpec), hE] at hen
  have hL := congrArg (Lw a b) hen
  rw [map_zero, map_sub] at hL
  have hF := Lw_face_nonneg h d
  -- the mass term, as a sum of the weighted |d_e|²
  have hM : Lw a b (massDot g m d (conjEF d)) =
      (∑ i ∈ range g.nx, ∑ j ∈ range (g.ny+1), ∑ k ∈ range (g.nz+1),
        (a * (meX m i j k).re + b * (meX m i j k).im) * normSq (d.x i j k)) +
      (∑ i ∈ range (g.nx+1), ∑ j ∈ range g.ny, ∑ k ∈ range (g.nz+1),
        (a * (meY m i j k).re + b * (meY m i j k).im) * normSq (d.y i j k)) +
      (∑ i ∈ range (g.nx+1), ∑ j ∈ range (g.ny+1), ∑ k ∈ range g.nz,
        (a * (meZ m i j k).re + b * (meZ m i j k).im) * normSq (d.z i j k)) := by
    simp only [massDot, map_add, Lw_S3, conjEF, Lw_mul_conj]
  -- non-negative summands
  let fx : ℕ → ℕ → ℕ → ℝ := fun i j k =>
    -((a * (meX m i j k).re + b * (meX m i j k).im) * normSq (d.x i j k))
  let fy : ℕ → ℕ → ℕ → ℝ := fun i j k =>
    -((a * (meY m i j k).re + b * (meY m i j k).im) * normSq (d.y i j k))
  let fz : ℕ → ℕ → ℕ → ℝ := fun i j k =>
    -((a * (meZ m i j k).re + b * (meZ m i j k).im) * normSq (d.z i j k))
  have hfx : ∀ i j k, i < g.nx → j < g.ny+1 → k < g.nz+1 → 0 ≤ fx i j k := by
    intro i j k hi hj hk
    by_cases hin : 1 ≤ j ∧ j < g.ny ∧ 1 ≤ k ∧ k < g.nz
    · have := meX_half h i j k hi ⟨hin.1, hin.2.1⟩ ⟨hin.2.2.1, hin.2.2.2⟩
      have hn := normSq_nonneg (d.x i j k)
      simp only [fx]; nlinarith
    · have : d.x i j k = 0 := hni ⟨.x, i, j, k⟩ (by simp only [Interior]; omega)
      simp only [fx, this, map_zero, mul_zero, neg_zero, le_refl]
  have hfy : ∀ i j k, i < g.nx+1 → j < g.ny → k < g.nz+1 → 0 ≤ fy i j k := by
    intro i j k hi hj hk
    by_cases hin : 1 ≤ i ∧ i < g.nx ∧ 1 ≤ k ∧ k < g.nz
    · have := meY_half h i j k ⟨hin.1, hin.2.1⟩ hj ⟨hin.2.2.1, hin.2.2.2⟩
      have hn := normSq_nonneg (d.y i j k)
      simp only [fy]; nlinarith
    · have : d.y i j k = 0 := hni ⟨.y, i, j, k⟩ (by simp only [Interior]; omega)
      simp only [fy, this, map_zero, mul_zero, neg_zero, le_refl]
  have hfz : ∀ i j k, i < g.nx+1 → j < g.ny+1 → k < g.nz → 0 ≤ fz i j k := by
    intro i j k hi hj hk
    by_cases hin : 1 ≤ i ∧ i < g.nx ∧ 1 ≤ j ∧ j < g.ny
    · have := meZ_half h i j k ⟨hin.1, hin.2.1⟩ ⟨hin.2.2.1, hin.2.2.2⟩ hk
      have hn := normSq_nonneg (d.z i j k)
      simp only [fz]; nlinarith
    · have : d.z i j k = 0 := hni ⟨.z, i, j, k⟩ (by simp only [Interior]; omega)
      simp only [fz, this, map_zero, mul_zero, neg_zero, le_refl]
  have sx := sum_nonneg fun i (hi : i ∈ range g.nx) => sum_nonneg fun j (hj : j ∈ range (g.ny+1)) =>
    sum_nonneg fun k (hk : k ∈ range (g.nz+1)) =>
      hfx i j k (mem_range.1 hi) (mem_range.1 hj) (mem_range.1 hk)
  have sy := sum_nonneg fun i (hi : i ∈ range (g.nx+1)) => sum_nonneg fun j (hj : j ∈ range g.ny) =>
    sum_nonneg fun k (hk : k ∈ range (g.nz+1)) =>
      hfy i j k (mem_range.1 hi) (mem_range.1 hj) (mem_range.1 hk)
  have sz := sum_nonneg fun i (hi : i ∈ range (g.nx+1)) => sum_nonneg fun j (hj : j ∈ range (g.ny+1)) =>
    sum_nonneg fun k (hk : k ∈ range g.nz) =>
      hfz i j k (mem_range.1 hi) (mem_range.1 hj) (mem_range.1 hk)
  have htot : (∑ i ∈ range g.nx, ∑ j ∈ range (g.ny+1), ∑ k ∈ range (g.nz+1), fx i j k) +
      (∑ i ∈ range (g.nx+1), ∑ j ∈ range g.ny, ∑ k ∈ range (g.nz+1), fy i j k) +
      (∑ i ∈ range (g.nx+1), ∑ j ∈ range (g.ny+1), ∑ k ∈ range g.nz, fz i j k) ≤ 0 := by
    simp only [fx, fy, fz, sum_neg_distrib]
    rw [hM] at hL
    linarith
  have zx := sum3_zero _ _ _ fx hfx (by linarith)
  have zy := sum3_zero _ _ _ fy hfy (by linarith)
  have zz := sum3_zero _ _ _ fz hfz (by linarith)
  -- conclusion, edge by edge
  intro q
  by_cases hq : Interior g.nx g.ny g.nz q
  · obtain ⟨c, i, j, k⟩ := q
    cases c
    · simp only [Interior] at hq
      have hz0 := zx i j k hq.1 (by omega) (by omega)
      have hc := meX_half h i j k hq.1 ⟨hq.2.1, hq.2.2.1⟩ ⟨hq.2.2.2.1, hq.2.2.2.2⟩
      simp only [fx, neg_eq_zero, mul_eq_zero] at hz0
      rcases hz0 with h0 | h0
      · exact absurd h0 (ne_of_lt hc)
      · simpa [EF.get] using normSq_eq_zero.1 h0
    · simp only [Interior] at hq
      have hz0 := zy i j k (by omega) hq.2.2.1 (by omega)
      have hc := meY_half h i j k ⟨hq.1, hq.2.1⟩ hq.2.2.1 ⟨hq.2.2.2.1, hq.2.2.2.2⟩
      simp only [fy, neg_eq_zero, mul_eq_zero] at hz0
      rcases hz0 with h0 | h0
      · exact absurd h0 (ne_of_lt hc)
      · simpa [EF.get] using normSq_eq_zero.1 h0
    · simp only [Interior] at hq
      have hz0 := zz i j k (by omega) (by omega) hq.2.2.2.2
      have hc := meZ_half h i j k ⟨hq.1, hq.2.1⟩ ⟨hq.2.2.1, hq.2.2.2.1⟩ hq.2.2.2.2
      simp only [fz, neg_eq_zero, mul_eq_zero] at hz0
      rcases hz0 with h0 | h0
      · exact absurd h0 (ne_of_lt hc)
      · simpa [EF.get] using normSq_eq_zero.1 h0
  · exact hni q hq

theorem conjEF_get_zero (d : EF ℂ) (q : Edge) (h0 : d.get q = 0) : (conjEF d).get q = 0 := by
  obtain ⟨c, i, j, k⟩ := q
  cases c <;> simp only [EF.get, conjEF] at h0 ⊢ <;> rw [h0, map_zero]

/-- **Non-singularity of every block of interior edges**, for physical models. -/
theorem blockInj_phys (h : Phys g m a b) (B : List Edge)
    (hB : ∀ q ∈ B, Interior g.nx g.ny g.nz q) : BlockInj g m B := by
  intro d hsupp hrows
  refine energy_zero h d (fun q hq => hsupp q (fun hm => hq (hB q hm))) ?_
  intro q
  by_cases hq : q ∈ B
  · have := hrows q hq
    unfold amatAt at this
    rw [this, zero_mul]
  · rw [conjEF_get_zero d q (hsupp q hq), mul_zero]

/-- **The discretised system has at most one solution**: two fields with vanishing tangential
boundary values that satisfy all interior equations for the same source coincide. -/
theorem solution_unique_phys (h : Phys g m a b) (s e1 e2 : EF ℂ)
    (h1 : ∀ q, Interior g.nx g.ny g.nz q → amatAt g m e1 q = s.get q)
    (h2 : ∀ q, Interior g.nx g.ny g.nz q → amatAt g m e2 q = s.get q)
    (b1 : ∀ q, ¬ Interior g.nx g.ny g.nz q → e1.get q = 0)
    (b2 : ∀ q, ¬ Interior g.nx g.ny g.nz q → e2.get q = 0) : e1 = e2 := by
  have hd : ∀ q, (e1.sub e2).get q = 0 := by
    refine energy_zero h (e1.sub e2) (fun q hq => ?_) (fun q => ?_)
    · rw [EF.get_sub, b1 q hq, b2 q hq, sub_zero]
    · by_cases hq : Interior g.nx g.ny g.nz q
      · have := amatAt_sub g m e1 e2 q
        unfold amatAt at this h1 h2
        rw [this, h1 q hq, h2 q hq, sub_self, zero_mul]
      · rw [conjEF_get_zero _ q (by rw [EF.get_sub, b1 q hq, b2 q hq, sub_zero]), mul_zero]
  apply EF.ext_get
  intro q
  have := hd q
  rw [EF.get_sub] at this
  exact sub_eq_zero.1 this

/-- **All block systems of all smoothers are non-singular** for physical models. -/
theorem allInj_phys (h : Phys g m a b) : AllInj g m :=
  fun kernel nu B hB => blockInj_phys h B (kernelBlocks_interior kernel g.nx g.ny g.nz nu B hB)

end main

/-! ## the class of physical models is closed under the coarsening of `solver.restriction` -/

section closure
variable {g : Grid ℂ} {m : VM ℂ} {a b : ℝ}

theorem restrictParam_closed (P : ℂ → Prop) (hadd : ∀ x y, P x → P y → P (x + y)) (csc : ℕ)
    (g : Grid ℂ) (f : F3 ℂ) (hf : ∀ i j k, i < g.nx → j < g.ny → k < g.nz → P (f i j k))
    (I J L : ℕ) (hI : I < (coarseGrid csc g).nx) (hJ : J < (coarseGrid csc g).ny)
    (hL : L < (coarseGrid csc g).nz) : P (restrictParam csc g f I J L) := by
  simp only [restrictParam, R3]
  cases hx : coarsX csc <;> cases hy : coarsY csc <;> cases hz : coarsZ csc <;>
    simp only [coarseGrid, cN, hx, hy, hz, if_true, if_false, Bool.false_eq_true] at hI hJ hL <;>
    simp only [along, R1, if_true, if_false, Bool.false_eq_true] <;>
    (repeat' apply hadd) <;> apply hf <;> omega

theorem restrictParam_closed_all (P : ℂ → Prop) (hadd : ∀ x y, P x → P y → P (x + y)) (csc : ℕ)
    (g : Grid ℂ) (f : F3 ℂ) (hf : ∀ i j k, P (f i j k)) (I J L : ℕ) :
    P (restrictParam csc g f I J L) := by
  simp only [restrictParam, R3]
  cases hx : coarsX csc <;> cases hy : coarsY csc <;> cases hz : coarsZ csc <;>
    simp only [along, R1, if_true, if_false, Bool.false_eq_true] <;>
    (repeat' apply hadd) <;> apply hf

theorem half_add (a b : ℝ) (x y : ℂ) (hx : a * x.re + b * x.im < 0) (hy : a * y.re + b * y.im < 0) :
    a * (x + y).re + b * (x + y).im < 0 := by
  simp only [add_re, add_im]; linarith

theorem Phys.coarse (h : Phys g m a b) (csc : ℕ) :
    Phys (coarseGrid csc g) (coarseVM csc g m) a b := by
  have hv : coarseVM csc g m =
      { etaX := restrictParam csc g m.etaX, etaY := restrictParam csc g m.etaY
        etaZ := restrictParam csc g m.etaZ, zeta := restrictParam csc g m.zeta } := by
    unfold coarseVM; rw [matVM_eq]
  rw [hv]
  refine ⟨h.ha, ?_, ?_, ?_, ?_, ?_, ?_, ?_, ?_⟩
  · intro i; simp only [coarseGrid]; split <;> simp only [map_add, h.hx]
  · intro i; simp only [coarseGrid]; split <;> simp only [map_add, h.hy]
  · intro i; simp only [coarseGrid]; split <;> simp only [map_add, h.hz]
  · exact restrictParam_closed_all (fun z => z.im = 0)
      (fun x y hx hy => by simp only [add_im, hx, hy, add_zero]) csc g _ h.zeta_im
  · exact restrictParam_closed_all (fun z => 0 ≤ z.re)
      (fun x y hx hy => by simp only [add_re]; exact add_nonneg hx hy) csc g _ h.zeta_re
  · exact restrictParam_closed (fun z => a * z.re + b * z.im < 0) (half_add a b) csc g _ h.etaX
  · exact restrictParam_closed (fun z => a * z.re + b * z.im < 0) (half_add a b) csc g _ h.etaY
  · exact restrictParam_closed (fun z => a * z.re + b * z.im < 0) (half_add a b) csc g _ h.etaZ

theorem Phys.reach {g0 : Grid ℂ} {m0 : VM ℂ} (h : Phys g0 m0 a b) {g : Grid ℂ} {m : VM ℂ}
    (hr : Reach g0 m0 g m) : Phys g m a b := by
  induction hr with
  | base => exact h
  | step csc _ ih => exact ih.coarse csc

end closure

/-! ## the unconditional statements -/

/-- **C03, unconditional**: every smoothing variant leaves an exact solution of a physical
model unchanged. -/
theorem smoother_fixed_point_phys {g : Grid ℂ} {m : VM ℂ} {a b : ℝ} (h : Phys g m a b)
    (s e : EF ℂ) (nu lr : ℕ)
    (hsol : ∀ d, Interior g.nx g.ny g.nz d → amatAt g m e d = s.get d) :
    (smoothing g m s e nu lr).1 = e :=
  smoother_fixed_point g m s e nu lr (allInj_phys h) hsol

theorem kernel_fixed_point_phys {g : Grid ℂ} {m : VM ℂ} {a b : ℝ} (h : Phys g m a b)
    (s e : EF ℂ) (kernel nu : ℕ) (ok : Bool)
    (hsol : ∀ d, Interior g.nx g.ny g.nz d → amatAt g m e d = s.get d) :
    (runKernel g m s kernel nu (e, ok)).1 = e :=
  kernel_fixed_point g m s e kernel nu ok (allInj_phys h) hsol

/-- **The complete multigrid call, unconditional**: for a physical model on the fine grid —
hence on every grid of the hierarchy — any cycle returns an exact solution unchanged. -/
theorem mgRun_fixed_phys (r : Run) (l0 : Lvl ℂ) {a b : ℝ} (h : Phys l0.g l0.m a b)
    (hS : Solved l0) : ∃ zs, (mgRun r l0).1 = zs ++ [l0] ∧ ∀ z ∈ zs, z.e = zeroEF :=
  mgRun_fixed r l0 hS (fun _ _ hr => allInj_phys (h.reach hr))

/-- … and the call ends with exactly the fine level it was given (balanced trace). -/
theorem mgRun_fixed_exact_phys (r : Run) (l0 : Lvl ℂ) {a b : ℝ} (h : Phys l0.g l0.m a b)
    (hS : Solved l0) : (mgRun r l0).1 = [l0] :=
  mgRun_fixed_exact r l0 hS (fun _ _ hr => allInj_phys (h.reach hr))

/-! ## non-vacuity: the frequency-domain and the Laplace-domain half-planes -/

example : Phys (⟨2, 2, 2, fun _ => 1, fun _ => 1, fun _ => 1⟩ : Grid ℂ)
    ⟨fun _ _ _ => -Complex.I, fun _ _ _ => 1 - 2 * Complex.I, fun _ _ _ => -3 * Complex.I,
     fun _ _ _ => 1⟩ 0 1 := by
  constructor <;> intros <;> simp

example : Phys (⟨4, 2, 6, fun _ => 1, fun _ => 2, fun _ => 3⟩ : Grid ℂ)
    ⟨fun _ _ _ => -1, fun _ _ _ => -2, fun _ _ _ => -1, fun _ _ _ => 1⟩ 1 0 := by
  constructor <;> intros <;> simp [Complex.conj_ofNat]

end Emg
