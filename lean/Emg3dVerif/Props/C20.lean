import Emg3dVerif.Model.Fourier
import Mathlib.Order.Basic
import Mathlib.Order.Lattice
import Mathlib.Data.List.Basic
/-!
# C20 — the time-domain helper partitions and fills frequencies consistently

Theorems about the model `Fou` of `emg3d.time.Fourier`.
-/
namespace Fou
variable {K : Type} [LinearOrder K]

/-- **three disjoint groups that cover everything**: for `fmin ≤ fmax` every frequency is in
exactly one of: below the band (extrapolated), in the band (taken / interpolated), above (zero) -/
theorem three_way_partition (c : Cfg K) (h : c.fmin ≤ c.fmax) (f : K) :
    (below c f = true ∧ inBand c f = false ∧ above c f = false) ∨
    (below c f = false ∧ inBand c f = true ∧ above c f = false) ∨
    (below c f = false ∧ inBand c f = false ∧ above c f = true) := by
  unfold below inBand above
  rcases lt_or_ge f c.fmin with h1 | h1
  · left
    have : ¬ c.fmin ≤ f := not_le.2 h1
    have : ¬ c.fmax < f := not_lt.2 (le_trans h1.le h)
    simp [*]
  · rcases le_or_gt f c.fmax with h2 | h2
    · right; left
      have : ¬ f < c.fmin := not_lt.2 h1
      have : ¬ c.fmax < f := not_lt.2 h2
      simp [*]
    · right; right
      have : ¬ f < c.fmin := not_lt.2 h1
      have : ¬ f ≤ c.fmax := not_le.2 h2
      simp [*]

/-- the hypothesis is needed: with `fmax < fmin` a frequency in between is in two groups -/
theorem partition_needs_order (c : Cfg K) (f : K) (h1 : c.fmax < f) (h2 : f < c.fmin) :
    below c f = true ∧ above c f = true := by
  unfold below above
  simp [h1, h2]

/-- **computed frequencies lie in the requested band** and are frequencies of the coarse set -/
theorem computed_in_band (c : Cfg K) :
    ∀ f ∈ freqCompute c, c.fmin ≤ f ∧ f ≤ c.fmax ∧ f ∈ coarse c := by
  intro f hf
  unfold freqCompute at hf
  rw [List.mem_filter] at hf
  unfold inBand at hf
  simp only [Bool.and_eq_true, decide_eq_true_eq] at hf
  exact ⟨hf.2.1, hf.2.2, hf.1⟩

/-- without coarse-frequency options the model is computed at the required in-band frequencies -/
theorem compute_eq_interpolate (c : Cfg K) (h1 : c.everyX = none) (h2 : c.inputFreq = none) :
    freqCompute c = freqInterpolate c := by
  unfold freqCompute freqInterpolate coarse
  simp [h1, h2]

/-- data are only taken over unchanged if the computed frequencies *are* the required in-band
frequencies -/
theorem direct_frequencies_coincide (c : Cfg K) (h : coarse c = c.req) :
    freqCompute c = freqInterpolate c := by
  unfold freqCompute freqInterpolate
  rw [h]

/-- `every_x_freq` takes a sub-sequence of the required frequencies -/
theorem everyX_sublist (c : Cfg K) (n : Nat) (h : c.everyX = some n) :
    (coarse c).Sublist c.req := by
  unfold coarse
  simp only [h]
  unfold everyNth
  have : c.req = (c.req.zipIdx).map (·.1) := by simp [List.zipIdx_map_fst]
  conv_rhs => rw [this]
  exact (List.filter_sublist).map _

section interp
variable {V : Type} (c : Cfg K) (spline pchip : List K → List V → K → V) (lo : K)
  (anchor : V → V) (zero : V) (fdata : List V)

theorem interpolate_length :
    (interpolate c spline pchip lo anchor zero fdata).length = c.req.length := by
  simp [interpolate]

/-- value written at position `i` of the required frequencies -/
theorem interpolate_get (i : Nat) (hi : i < c.req.length) :
    (interpolate c spline pchip lo anchor zero fdata)[i]? =
      some (if inBand c c.req[i] then
              (if coarse c = c.req then fdata.getD (rankIn c i) zero
               else spline (freqCompute c) fdata c.req[i])
            else if below c c.req[i] then
              pchip (lo :: freqCompute c) (anchor (fdata.headD zero) :: fdata) c.req[i]
            else zero) := by
  unfold interpolate
  simp only [List.getElem?_map, List.getElem?_zipIdx, List.getElem?_eq_getElem hi,
    Option.map_some, Nat.zero_add]

/-- **above the band the spectrum is zero** -/
theorem above_band_zero (h : c.fmin ≤ c.fmax) (i : Nat) (hi : i < c.req.length)
    (ha : above c c.req[i] = true) :
    (interpolate c spline pchip lo anchor zero fdata)[i]? = some zero := by
  rw [interpolate_get c spline pchip lo anchor zero fdata i hi]
  rcases three_way_partition c h c.req[i] with ⟨_, _, h3⟩ | ⟨_, _, h3⟩ | ⟨h1, h2, _⟩
  · rw [h3] at ha; exact absurd ha (by simp)
  · rw [h3] at ha; exact absurd ha (by simp)
  · simp [h1, h2]

/-- **pass-through**: if the coarse set is the required set, the supplied data are copied
unchanged to the in-band positions, in order -/
theorem passthrough (hd : coarse c = c.req) (i : Nat) (hi : i < c.req.length)
    (hb : inBand c c.req[i] = true) :
    (interpolate c spline pchip lo anchor zero fdata)[i]? =
      some (fdata.getD (rankIn c i) zero) := by
  rw [interpolate_get c spline pchip lo anchor zero fdata i hi]
  simp [hb, hd]

/-- in the spline branch a required frequency that coincides with a computed one gets the
supplied datum, provided the spline interpolates its nodes -/
theorem spline_coincident (hd : coarse c ≠ c.req)
    (hs : ∀ (xs : List K) (ys : List V) (j : Nat) (hx : j < xs.length) (hy : j < ys.length),
      spline xs ys xs[j] = ys[j])
    (i : Nat) (hi : i < c.req.length) (hb : inBand c c.req[i] = true)
    (j : Nat) (hj : j < (freqCompute c).length) (hjd : j < fdata.length)
    (he : (freqCompute c)[j] = c.req[i]) :
    (interpolate c spline pchip lo anchor zero fdata)[i]? = some fdata[j] := by
  rw [interpolate_get c spline pchip lo anchor zero fdata i hi]
  simp only [hb, if_true, hd, if_false]
  rw [← he, hs (freqCompute c) fdata j hj hjd]

/-- **below the band** the value is the PCHIP interpolant through the computed data extended by
the anchor at the lowest frequency -/
theorem extrapolated (h : c.fmin ≤ c.fmax) (i : Nat) (hi : i < c.req.length)
    (hb : below c c.req[i] = true) :
    (interpolate c spline pchip lo anchor zero fdata)[i]? =
      some (pchip (lo :: freqCompute c) (anchor (fdata.headD zero) :: fdata) c.req[i]) := by
  rw [interpolate_get c spline pchip lo anchor zero fdata i hi]
  rcases three_way_partition c h c.req[i] with ⟨_, h2, _⟩ | ⟨h1, _, _⟩ | ⟨h1, _, _⟩
  · simp [h2, hb]
  · rw [h1] at hb; exact absurd hb (by simp)
  · rw [h1] at hb; exact absurd hb (by simp)

end interp

/-- **shape of the extrapolation, real part**: the anchor has the real part of the lowest computed
datum, so the first interval is flat; an interpolant that is constant on a flat first interval
(PCHIP is) keeps the real part at the lowest computed value for every extrapolated frequency -/
theorem extrapolation_real_part {R : Type} (c : Cfg K) (pchipR : List K → List R → K → R)
    (lo : K) (fc0 : K) (fcs : List K) (r0 : R) (rs : List R) (f : K)
    (hfc : freqCompute c = fc0 :: fcs)
    (hflat : ∀ (x0 x1 : K) (xs : List K) (y : R) (ys : List R) (x : K),
      x0 ≤ x → x ≤ x1 → pchipR (x0 :: x1 :: xs) (y :: y :: ys) x = y)
    (hlo : lo ≤ f) (hb : below c f = true) :
    pchipR (lo :: freqCompute c) (r0 :: r0 :: rs) f = r0 := by
  rw [hfc]
  apply hflat
  · exact hlo
  · have h0 := (computed_in_band c fc0 (by rw [hfc]; simp)).1
    unfold below at hb
    simp only [decide_eq_true_eq] at hb
    exact le_trans hb.le h0

end Fou

namespace Fou

theorem coarseStep_excl (s : Bool × Bool) (op : CoarseOp) :
    ¬ ((coarseStep s op).1 = true ∧ (coarseStep s op).2 = true) := by
  cases op <;> simp only [coarseStep, checkCoarse] <;> split <;> (try split) <;> simp_all

/-- **`input_freq` and `every_x_freq` are never both in effect**, after any sequence of
constructor / setter operations; the one set last wins (the constructor keeps `input_freq`) -/
theorem coarse_options_exclusive (ops : List CoarseOp) (s0 : Bool × Bool)
    (h0 : ¬ (s0.1 = true ∧ s0.2 = true)) :
    ¬ ((ops.foldl coarseStep s0).1 = true ∧ (ops.foldl coarseStep s0).2 = true) := by
  induction ops generalizing s0 with
  | nil => simpa using h0
  | cons op t ih => exact ih _ (coarseStep_excl s0 op)

theorem setEvery_wins (s : Bool × Bool) : coarseStep s (.setEvery true) = (false, true) ∨
    coarseStep s (.setEvery true) = (s.1, true) ∧ s.1 = false := by
  simp only [coarseStep, checkCoarse]
  cases h : s.1 <;> simp

theorem setInput_wins (s : Bool × Bool) : (coarseStep s (.setInput true)).1 = true ∧
    (coarseStep s (.setInput true)).2 = false ∨ (coarseStep s (.setInput true)) = (true, s.2) := by
  simp only [coarseStep, checkCoarse]
  cases h : s.2 <;> simp

end Fou
