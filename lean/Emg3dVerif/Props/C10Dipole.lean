import Emg3dVerif.Props.C10
import Emg3dVerif.Props.C09
/-!
# C10, finite dipoles — the coded cell loop of `_dipole_vector` injects exactly the nominal moment

`Src.dipole_moment` proves `dipole_moment_stmt` (left as a statement in `Props/C10.lean`) for every
grid with strictly increasing nodes and every segment inside it that does not lie in an upper
boundary face (`DirOK`, the known finding `dipole-in-upper-boundary-face`):

* Stage B — the sum over all edges of a component is the sum over the contributing cells of
  `(bilinear weights) · length` (`S3_pickX/Y/Z`), and the weights sum to one;
* Stage C — the guard of the code (`0 ≤ r ≤ 1` in all directions, `al ≠ ar`) accepts exactly the
  cells with a non-empty parametric intersection, so a cell contributes `max 0 (ar − al)`
  (`lenOf_eq`, `no_gap`);
* Stage D — the cell box of each direction covers the segment and its clipping intervals are, up
  to order, the consecutive intervals of a monotone sequence covering `[0, 1]` (`dir_breaks`);
  the three-dimensional tiling identity (`tiling_3d`) then gives total length one (`lenOf_sum`).
-/
open Finset
namespace Src
variable {K : Type} [Field K] [LinearOrder K] [IsStrictOrderedRing K]

def boxOf (g : Grid1 K) (a b : K) : List Nat :=
  (List.range (min (cellIdx g (max a b) + 1) g.n)).filter (· ≥ cellIdx g (min a b))

def segCells (gx gy gz : Grid1 K) (s : Seg K) : List (Nat × Nat × Nat) :=
  (boxOf gz s.p0.2.2 s.p1.2.2).flatMap fun iz =>
  (boxOf gy s.p0.2.1 s.p1.2.1).flatMap fun iy =>
  (boxOf gx s.p0.1 s.p1.1).map fun ix => (ix, iy, iz)

def segContribs (gx gy gz : Grid1 K) (s : Seg K) :
    List ((Nat × Nat × Nat) × (K × (K × K × K) × (K × K × K))) :=
  (segCells gx gy gz s).filterMap fun c =>
    (cellContribution gx gy gz s c.1 c.2.1 c.2.2).map fun r => (c, r)

def pickX (c : Nat × Nat × Nat) (r : K × (K × K × K) × (K × K × K)) (i j k : Nat) : K :=
  if i = c.1 then
    (if j = c.2.1 then (if k = c.2.2 then r.2.2.2.1*r.2.2.2.2*r.1 else if k = c.2.2+1 then r.2.2.2.1*r.2.1.2.2*r.1 else 0)
     else if j = c.2.1+1 then (if k = c.2.2 then r.2.1.2.1*r.2.2.2.2*r.1 else if k = c.2.2+1 then r.2.1.2.1*r.2.1.2.2*r.1 else 0)
     else 0) else 0

set_option linter.unusedSectionVars false
set_option linter.unusedSimpArgs false

theorem segVector_x (gx gy gz : Grid1 K) (s : Seg K) (i j k : Nat) :
    (segVector gx gy gz s).x i j k =
      (segContribs gx gy gz s).foldl (fun a cr => a + pickX cr.1 cr.2 i j k) 0 := by
  rfl

theorem foldl_add_eq_sum' {α : Type} (l : List α) (f : α → K) (a0 : K) :
    l.foldl (fun a x => a + f x) a0 = a0 + (l.map f).sum := by
  induction l generalizing a0 with
  | nil => simp
  | cons x t ih => simp only [List.foldl_cons, List.map_cons, List.sum_cons, ih]; ring

theorem S3_list_sum {α : Type} (n1 n2 n3 : ℕ) (l : List α) (f : α → ℕ → ℕ → ℕ → K) :
    Emg.S3 n1 n2 n3 (fun i j k => (l.map (fun x => f x i j k)).sum) =
      (l.map (fun x => Emg.S3 n1 n2 n3 (f x))).sum := by
  induction l with
  | nil => simp [Emg.S3]
  | cons x t ih =>
    simp only [List.map_cons, List.sum_cons]
    rw [Emg.S3_add, ih]

/-- the four x-edges of a cell, summed over the whole edge grid -/
theorem S3_pickX (nx ny nz : ℕ) (c : ℕ × ℕ × ℕ) (r : K × (K × K × K) × (K × K × K))
    (h1 : c.1 < nx) (h2 : c.2.1 < ny) (h3 : c.2.2 < nz) :
    Emg.S3 nx (ny+1) (nz+1) (pickX c r) =
      (r.2.2.2.1*r.2.2.2.2 + r.2.2.2.1*r.2.1.2.2 + r.2.1.2.1*r.2.2.2.2 + r.2.1.2.1*r.2.1.2.2) * r.1 := by
  unfold Emg.S3 pickX
  have inner : ∀ (a b : K), ∑ k ∈ range (nz+1),
      (if k = c.2.2 then a else if k = c.2.2+1 then b else 0) = a + b :=
    fun a b => sum_two (nz+1) c.2.2 (c.2.2+1) a b (by omega) (by omega) (by omega)
  have mid : ∀ (g h : ℕ → K), ∑ j ∈ range (ny+1),
      (if j = c.2.1 then ∑ k ∈ range (nz+1), g k else if j = c.2.1+1 then ∑ k ∈ range (nz+1), h k
        else ∑ k ∈ range (nz+1), (0:K)) =
      ∑ k ∈ range (nz+1), g k + ∑ k ∈ range (nz+1), h k := by
    intro g h
    simp only [sum_const_zero]
    exact sum_two (ny+1) c.2.1 (c.2.1+1) _ _ (by omega) (by omega) (by omega)
  have push : ∀ i, (∑ j ∈ range (ny+1), ∑ k ∈ range (nz+1),
      (if i = c.1 then
        (if j = c.2.1 then (if k = c.2.2 then r.2.2.2.1*r.2.2.2.2*r.1 else if k = c.2.2+1 then r.2.2.2.1*r.2.1.2.2*r.1 else 0)
         else if j = c.2.1+1 then (if k = c.2.2 then r.2.1.2.1*r.2.2.2.2*r.1 else if k = c.2.2+1 then r.2.1.2.1*r.2.1.2.2*r.1 else 0)
         else 0) else 0)) =
      if i = c.1 then (r.2.2.2.1*r.2.2.2.2*r.1 + r.2.2.2.1*r.2.1.2.2*r.1) +
        (r.2.1.2.1*r.2.2.2.2*r.1 + r.2.1.2.1*r.2.1.2.2*r.1) else 0 := by
    intro i
    by_cases hi : i = c.1
    · simp only [hi, if_true]
      have : ∀ j, (∑ k ∈ range (nz+1),
          (if j = c.2.1 then (if k = c.2.2 then r.2.2.2.1*r.2.2.2.2*r.1 else if k = c.2.2+1 then r.2.2.2.1*r.2.1.2.2*r.1 else 0)
           else if j = c.2.1+1 then (if k = c.2.2 then r.2.1.2.1*r.2.2.2.2*r.1 else if k = c.2.2+1 then r.2.1.2.1*r.2.1.2.2*r.1 else 0)
           else 0)) =
          (if j = c.2.1 then ∑ k ∈ range (nz+1), (if k = c.2.2 then r.2.2.2.1*r.2.2.2.2*r.1 else if k = c.2.2+1 then r.2.2.2.1*r.2.1.2.2*r.1 else 0)
           else if j = c.2.1+1 then ∑ k ∈ range (nz+1), (if k = c.2.2 then r.2.1.2.1*r.2.2.2.2*r.1 else if k = c.2.2+1 then r.2.1.2.1*r.2.1.2.2*r.1 else 0)
           else ∑ k ∈ range (nz+1), (0:K)) := by
        intro j
        split
        · rfl
        · split <;> rfl
      simp only [this]
      rw [mid, inner, inner]
    · simp [hi]
  simp only [push]
  rw [sum_ite_eq' (range nx) c.1]
  simp only [mem_range, h1, if_true]
  ring

theorem segVector_sum_x (gx gy gz : Grid1 K) (s : Seg K)
    (hb : ∀ cr ∈ segContribs gx gy gz s, cr.1.1 < gx.n ∧ cr.1.2.1 < gy.n ∧ cr.1.2.2 < gz.n) :
    Emg.S3 gx.n (gy.n+1) (gz.n+1) (segVector gx gy gz s).x =
      ((segContribs gx gy gz s).map fun cr =>
        (cr.2.2.2.2.1*cr.2.2.2.2.2 + cr.2.2.2.2.1*cr.2.2.1.2.2 + cr.2.2.1.2.1*cr.2.2.2.2.2 +
          cr.2.2.1.2.1*cr.2.2.1.2.2) * cr.2.1).sum := by
  have e : (segVector gx gy gz s).x = fun i j k =>
      ((segContribs gx gy gz s).map (fun cr => pickX cr.1 cr.2 i j k)).sum := by
    funext i j k
    rw [segVector_x, foldl_add_eq_sum', zero_add]
  rw [e, S3_list_sum]
  congr 1
  apply List.map_congr_left
  intro cr hcr
  obtain ⟨h1, h2, h3⟩ := hb cr hcr
  exact S3_pickX gx.n gy.n gz.n cr.1 cr.2 h1 h2 h3

/-! ### the clipping interval with `(0, 1)` for a degenerate direction -/

def LH (g : Grid1 K) (a b : K) (i : Nat) : K × K :=
  match clipDir g a b i with
  | some p => p
  | none => (0, 1)

theorem clip_eq (gx gy gz : Grid1 K) (s : Seg K) (ix iy iz : Nat) :
    clip gx gy gz s ix iy iz =
      (max (max (max 0 (LH gx s.p0.1 s.p1.1 ix).1) (LH gy s.p0.2.1 s.p1.2.1 iy).1)
          (LH gz s.p0.2.2 s.p1.2.2 iz).1,
       min (min (min 1 (LH gx s.p0.1 s.p1.1 ix).2) (LH gy s.p0.2.1 s.p1.2.1 iy).2)
          (LH gz s.p0.2.2 s.p1.2.2 iz).2) := by
  unfold clip LH
  simp only [List.foldl_cons, List.foldl_nil]
  cases clipDir gx s.p0.1 s.p1.1 ix <;> cases clipDir gy s.p0.2.1 s.p1.2.1 iy <;>
    cases clipDir gz s.p0.2.2 s.p1.2.2 iz <;> simp

theorem LH_nondeg_lt (g : Grid1 K) (a b : K) (i : Nat) (hab : a < b)
    (hi : g.nodes i < g.nodes (i+1)) :
    LH g a b i = ((g.nodes i - a)/(b - a), (g.nodes (i+1) - a)/(b - a)) := by
  unfold LH clipDir
  have hd : 0 < b - a := sub_pos.2 hab
  have ht : (g.nodes i - a)/(b - a) ≤ (g.nodes (i+1) - a)/(b - a) :=
    div_le_div_of_nonneg_right (by linarith) hd.le
  simp [hab, min_eq_left ht, max_eq_right ht]

theorem LH_nondeg_gt (g : Grid1 K) (a b : K) (i : Nat) (hab : b < a)
    (hi : g.nodes i < g.nodes (i+1)) :
    LH g a b i = ((g.nodes (i+1) - a)/(b - a), (g.nodes i - a)/(b - a)) := by
  unfold LH clipDir
  have hd : b - a < 0 := sub_neg.2 hab
  have ht : (g.nodes (i+1) - a)/(b - a) ≤ (g.nodes i - a)/(b - a) :=
    div_le_div_of_nonpos_of_le hd.le (by linarith)
  simp [hab, min_eq_right ht, max_eq_left ht]

theorem LH_deg (g : Grid1 K) (a : K) (i : Nat) : LH g a a i = (0, 1) := by
  unfold LH clipDir
  simp

/-- in a non-degenerate direction the relative position of the point at parameter `m` lies in
`[0,1]` iff `m` lies in the clipping interval of that direction -/
theorem r_unit_iff (g : Grid1 K) (a b m : K) (i : Nat) (hab : a < b ∨ b < a)
    (hi : g.nodes i < g.nodes (i+1)) :
    (0 ≤ (a + m*(b - a) - g.nodes i)/(g.nodes (i+1) - g.nodes i) ∧
      (a + m*(b - a) - g.nodes i)/(g.nodes (i+1) - g.nodes i) ≤ 1) ↔
    ((LH g a b i).1 ≤ m ∧ m ≤ (LH g a b i).2) := by
  have hh : 0 < g.nodes (i+1) - g.nodes i := sub_pos.2 hi
  have e1 : 0 ≤ (a + m*(b - a) - g.nodes i)/(g.nodes (i+1) - g.nodes i) ↔
      g.nodes i ≤ a + m*(b - a) := by
    rw [le_div_iff₀ hh]; constructor <;> intro h <;> linarith
  have e2 : (a + m*(b - a) - g.nodes i)/(g.nodes (i+1) - g.nodes i) ≤ 1 ↔
      a + m*(b - a) ≤ g.nodes (i+1) := by
    rw [div_le_one hh]; constructor <;> intro h <;> linarith
  rw [e1, e2]
  rcases hab with hab | hab
  · rw [LH_nondeg_lt g a b i hab hi]
    have hd : 0 < b - a := sub_pos.2 hab
    simp only
    rw [div_le_iff₀ hd, le_div_iff₀ hd]
    constructor <;> rintro ⟨h1, h2⟩ <;> constructor <;> linarith
  · rw [LH_nondeg_gt g a b i hab hi]
    have hd : 0 < a - b := sub_pos.2 hab
    have n1 : (g.nodes (i+1) - a)/(b - a) = (a - g.nodes (i+1))/(a - b) := by
      rw [← neg_sub a (g.nodes (i+1)), ← neg_sub a b, neg_div_neg_eq]
    have n2 : (g.nodes i - a)/(b - a) = (a - g.nodes i)/(a - b) := by
      rw [← neg_sub a (g.nodes i), ← neg_sub a b, neg_div_neg_eq]
    simp only [n1, n2]
    rw [div_le_iff₀ hd, le_div_iff₀ hd]
    constructor <;> rintro ⟨h1, h2⟩ <;> constructor <;> nlinarith

/-- relative position of the point at parameter `m` in cell `i` lies in `[0, 1]` -/
abbrev Rok (g : Grid1 K) (a b m : K) (i : Nat) : Prop :=
  0 ≤ (a + m*(b - a) - g.nodes i)/(g.nodes (i+1) - g.nodes i) ∧
    (a + m*(b - a) - g.nodes i)/(g.nodes (i+1) - g.nodes i) ≤ 1

theorem Rok_imp (g : Grid1 K) (a b m : K) (i : Nat) (hi : g.nodes i < g.nodes (i+1))
    (h : Rok g a b m i) :
    ((LH g a b i).1 ≤ m ∧ m ≤ (LH g a b i).2) ∨ ((LH g a b i).1 = 0 ∧ (LH g a b i).2 = 1) := by
  rcases lt_trichotomy a b with hab | hab | hab
  · left; exact (r_unit_iff g a b m i (Or.inl hab) hi).1 h
  · right; subst hab; rw [LH_deg]; exact ⟨rfl, rfl⟩
  · left; exact (r_unit_iff g a b m i (Or.inr hab) hi).1 h

theorem Rok_of (g : Grid1 K) (a b m : K) (i : Nat) (hi : g.nodes i < g.nodes (i+1))
    (hdeg : a = b → g.nodes i ≤ a ∧ a ≤ g.nodes (i+1))
    (h : (LH g a b i).1 ≤ m ∧ m ≤ (LH g a b i).2) : Rok g a b m i := by
  rcases lt_trichotomy a b with hab | hab | hab
  · exact (r_unit_iff g a b m i (Or.inl hab) hi).2 h
  · subst hab
    obtain ⟨h1, h2⟩ := hdeg rfl
    have hh : 0 < g.nodes (i+1) - g.nodes i := sub_pos.2 hi
    unfold Rok
    rw [sub_self, mul_zero, add_zero]
    constructor
    · exact div_nonneg (by linarith) hh.le
    · rw [div_le_one hh]; linarith
  · exact (r_unit_iff g a b m i (Or.inr hab) hi).2 h

theorem no_gap (L1 H1 L2 H2 L3 H3 m : K)
    (h1 : (L1 ≤ m ∧ m ≤ H1) ∨ (L1 = 0 ∧ H1 = 1))
    (h2 : (L2 ≤ m ∧ m ≤ H2) ∨ (L2 = 0 ∧ H2 = 1))
    (h3 : (L3 ≤ m ∧ m ≤ H3) ∨ (L3 = 0 ∧ H3 = 1))
    (hm : m = (max (max (max 0 L1) L2) L3 + min (min (min 1 H1) H2) H3)/2) :
    ¬ (min (min (min 1 H1) H2) H3 < max (max (max 0 L1) L2) L3) := by
  intro hlt
  set al := max (max (max 0 L1) L2) L3
  set ar := min (min (min 1 H1) H2) H3
  have hma : m < al := by rw [hm]; linarith
  have ham : ar < m := by rw [hm]; linarith
  have b1 : L1 ≤ max 0 m := by
    rcases h1 with ⟨h, _⟩ | ⟨h, _⟩
    · exact le_trans h (le_max_right _ _)
    · rw [h]; exact le_max_left _ _
  have b2 : L2 ≤ max 0 m := by
    rcases h2 with ⟨h, _⟩ | ⟨h, _⟩
    · exact le_trans h (le_max_right _ _)
    · rw [h]; exact le_max_left _ _
  have b3 : L3 ≤ max 0 m := by
    rcases h3 with ⟨h, _⟩ | ⟨h, _⟩
    · exact le_trans h (le_max_right _ _)
    · rw [h]; exact le_max_left _ _
  have c1 : min 1 m ≤ H1 := by
    rcases h1 with ⟨_, h⟩ | ⟨_, h⟩
    · exact le_trans (min_le_right _ _) h
    · rw [h]; exact min_le_left _ _
  have c2 : min 1 m ≤ H2 := by
    rcases h2 with ⟨_, h⟩ | ⟨_, h⟩
    · exact le_trans (min_le_right _ _) h
    · rw [h]; exact min_le_left _ _
  have c3 : min 1 m ≤ H3 := by
    rcases h3 with ⟨_, h⟩ | ⟨_, h⟩
    · exact le_trans (min_le_right _ _) h
    · rw [h]; exact min_le_left _ _
  have hal : al ≤ max 0 m :=
    max_le (max_le (max_le (le_max_left _ _) b1) b2) b3
  have har : min 1 m ≤ ar :=
    le_min (le_min (le_min (min_le_left _ _) c1) c2) c3
  rcases le_or_gt 0 m with hm0 | hm0
  · rw [max_eq_right hm0] at hal; linarith
  · have : min 1 m = m := min_eq_right (by linarith)
    rw [this] at har; linarith

/-- clipped parametric length contributed by a cell (0 if the code's guard rejects it) -/
def lenOf (gx gy gz : Grid1 K) (s : Seg K) (c : Nat × Nat × Nat) : K :=
  match cellContribution gx gy gz s c.1 c.2.1 c.2.2 with
  | some r => r.1
  | none => 0

theorem cellContribution_some_weights (gx gy gz : Grid1 K) (s : Seg K) (ix iy iz : Nat)
    (r : K × (K × K × K) × (K × K × K))
    (h : cellContribution gx gy gz s ix iy iz = some r) :
    r.2.2 = (1 - r.2.1.1, 1 - r.2.1.2.1, 1 - r.2.1.2.2) := by
  unfold cellContribution at h
  simp only at h
  split at h
  · injection h with h; rw [← h]
  · exact absurd h (by simp)

/-- **the guard is harmless**: a cell contributes exactly the length of its (possibly empty)
intersection with the segment, in parameter space -/
theorem lenOf_eq (gx gy gz : Grid1 K) (s : Seg K) (ix iy iz : Nat)
    (hx : gx.nodes ix < gx.nodes (ix+1)) (hy : gy.nodes iy < gy.nodes (iy+1))
    (hz : gz.nodes iz < gz.nodes (iz+1))
    (dx : s.p0.1 = s.p1.1 → gx.nodes ix ≤ s.p0.1 ∧ s.p0.1 ≤ gx.nodes (ix+1))
    (dy : s.p0.2.1 = s.p1.2.1 → gy.nodes iy ≤ s.p0.2.1 ∧ s.p0.2.1 ≤ gy.nodes (iy+1))
    (dz : s.p0.2.2 = s.p1.2.2 → gz.nodes iz ≤ s.p0.2.2 ∧ s.p0.2.2 ≤ gz.nodes (iz+1)) :
    lenOf gx gy gz s (ix, iy, iz) =
      max 0 ((clip gx gy gz s ix iy iz).2 - (clip gx gy gz s ix iy iz).1) := by
  set al := (clip gx gy gz s ix iy iz).1 with hal
  set ar := (clip gx gy gz s ix iy iz).2 with har
  set mid := (al + ar)/2 with hmid
  -- the guard, direction by direction
  have hok : cellContribution gx gy gz s ix iy iz =
      if (Rok gx s.p0.1 s.p1.1 mid ix ∧ Rok gy s.p0.2.1 s.p1.2.1 mid iy ∧
          Rok gz s.p0.2.2 s.p1.2.2 mid iz ∧ (al < ar ∨ ar < al))
      then some (if al < ar then ar - al else al - ar,
        ((s.p0.1 + mid*(s.p1.1 - s.p0.1) - gx.nodes ix)/(gx.nodes (ix+1) - gx.nodes ix),
         (s.p0.2.1 + mid*(s.p1.2.1 - s.p0.2.1) - gy.nodes iy)/(gy.nodes (iy+1) - gy.nodes iy),
         (s.p0.2.2 + mid*(s.p1.2.2 - s.p0.2.2) - gz.nodes iz)/(gz.nodes (iz+1) - gz.nodes iz)),
        (1 - (s.p0.1 + mid*(s.p1.1 - s.p0.1) - gx.nodes ix)/(gx.nodes (ix+1) - gx.nodes ix),
         1 - (s.p0.2.1 + mid*(s.p1.2.1 - s.p0.2.1) - gy.nodes iy)/(gy.nodes (iy+1) - gy.nodes iy),
         1 - (s.p0.2.2 + mid*(s.p1.2.2 - s.p0.2.2) - gz.nodes iz)/(gz.nodes (iz+1) - gz.nodes iz)))
      else none := by
    unfold cellContribution Rok
    simp only [and_assoc]
    rfl
  have hclip := clip_eq gx gy gz s ix iy iz
  have hal' : al = max (max (max 0 (LH gx s.p0.1 s.p1.1 ix).1) (LH gy s.p0.2.1 s.p1.2.1 iy).1)
      (LH gz s.p0.2.2 s.p1.2.2 iz).1 := by rw [hal, hclip]
  have har' : ar = min (min (min 1 (LH gx s.p0.1 s.p1.1 ix).2) (LH gy s.p0.2.1 s.p1.2.1 iy).2)
      (LH gz s.p0.2.2 s.p1.2.2 iz).2 := by rw [har, hclip]
  unfold lenOf
  simp only
  rw [hok]
  rcases lt_trichotomy al ar with h | h | h
  · -- proper intersection: the mid point lies in the cell in every direction
    have hm1 : al < mid := by rw [hmid]; linarith
    have hm2 : mid < ar := by rw [hmid]; linarith
    have lx : (LH gx s.p0.1 s.p1.1 ix).1 ≤ al := by
      rw [hal']; exact le_trans (le_trans (le_max_right _ _) (le_max_left _ _)) (le_max_left _ _)
    have ly : (LH gy s.p0.2.1 s.p1.2.1 iy).1 ≤ al := by
      rw [hal']; exact le_trans (le_max_right _ _) (le_max_left _ _)
    have lz : (LH gz s.p0.2.2 s.p1.2.2 iz).1 ≤ al := by
      rw [hal']; exact le_max_right _ _
    have ux : ar ≤ (LH gx s.p0.1 s.p1.1 ix).2 := by
      rw [har']; exact le_trans (min_le_left _ _) (le_trans (min_le_left _ _) (min_le_right _ _))
    have uy : ar ≤ (LH gy s.p0.2.1 s.p1.2.1 iy).2 := by
      rw [har']; exact le_trans (min_le_left _ _) (min_le_right _ _)
    have uz : ar ≤ (LH gz s.p0.2.2 s.p1.2.2 iz).2 := by
      rw [har']; exact min_le_right _ _
    have rx := Rok_of gx s.p0.1 s.p1.1 mid ix hx dx ⟨by linarith, by linarith⟩
    have ry := Rok_of gy s.p0.2.1 s.p1.2.1 mid iy hy dy ⟨by linarith, by linarith⟩
    have rz := Rok_of gz s.p0.2.2 s.p1.2.2 mid iz hz dz ⟨by linarith, by linarith⟩
    rw [if_pos ⟨rx, ry, rz, Or.inl h⟩]
    simp only [if_pos h]
    rw [max_eq_right (by linarith)]
  · rw [if_neg (by rintro ⟨_, _, _, h' | h'⟩ <;> linarith)]
    rw [h, sub_self, max_self]
  · have : ¬ (Rok gx s.p0.1 s.p1.1 mid ix ∧ Rok gy s.p0.2.1 s.p1.2.1 mid iy ∧
        Rok gz s.p0.2.2 s.p1.2.2 mid iz ∧ (al < ar ∨ ar < al)) := by
      rintro ⟨rx, ry, rz, _⟩
      have := no_gap _ _ _ _ _ _ mid (Rok_imp gx _ _ mid ix hx rx) (Rok_imp gy _ _ mid iy hy ry)
        (Rok_imp gz _ _ mid iz hz rz) (by rw [hmid, hal', har'])
      rw [← hal', ← har'] at this
      exact this h
    rw [if_neg this]
    rw [max_eq_left (by linarith)]

/-! ### one direction: the cell box covers the segment -/

structure DirOK (g : Grid1 K) (a b : K) : Prop where
  pos : 1 ≤ g.n
  mono : StrictMonoOn g.nodes (g.n+1)
  lo : g.nodes 0 ≤ min a b
  hi : max a b ≤ g.nodes g.n
  notTop : min a b < g.nodes g.n

theorem cellIdx_bracket (g : Grid1 K) (v : K) (hn : 1 ≤ g.n) (hm : StrictMonoOn g.nodes (g.n+1))
    (h0 : g.nodes 0 ≤ v) (h1 : v < g.nodes g.n) :
    cellIdx g v < g.n ∧ g.nodes (cellIdx g v) ≤ v ∧ v < g.nodes (cellIdx g v + 1) := by
  have := whereIdx_bracket g.nodes (g.n+1) v hm (by omega) h0 (by simpa using h1)
  unfold cellIdx
  exact ⟨by omega, this.2.1, this.2.2⟩

theorem cellIdx_top (g : Grid1 K) (v : K) (hm : StrictMonoOn g.nodes (g.n+1))
    (h1 : g.nodes g.n ≤ v) : cellIdx g v = g.n := by
  unfold cellIdx whereIdx
  have : (List.range (g.n+1)).find? (fun i => decide (v < g.nodes i)) = none := by
    rw [List.find?_range_eq_none]
    intro i hi
    rw [Bool.not_eq_true', decide_eq_false_iff_not, not_lt]
    rcases Nat.lt_or_ge i g.n with h | h
    · exact le_trans (le_of_lt (hm i g.n h (by omega))) h1
    · have : i = g.n := by omega
      rw [this]; exact h1
  rw [this]; simp

theorem mem_boxOf (g : Grid1 K) (a b : K) (j : Nat) :
    j ∈ boxOf g a b ↔ cellIdx g (min a b) ≤ j ∧ j < min (cellIdx g (max a b) + 1) g.n := by
  unfold boxOf
  rw [List.mem_filter, List.mem_range]
  simp only [ge_iff_le, decide_eq_true_eq]
  exact and_comm

theorem boxOf_eq (g : Grid1 K) (a b : K) :
    boxOf g a b = (List.range (min (cellIdx g (max a b) + 1) g.n - cellIdx g (min a b))).map
      (fun i => cellIdx g (min a b) + i) := by
  unfold boxOf
  generalize min (cellIdx g (max a b) + 1) g.n = hi
  generalize cellIdx g (min a b) = lo
  induction hi with
  | zero => simp
  | succ h ih =>
    rw [List.range_succ, List.filter_append, ih]
    by_cases hl : lo ≤ h
    · have : h + 1 - lo = (h - lo) + 1 := by omega
      rw [this, List.range_succ, List.map_append]
      simp [hl]
    · have : h + 1 - lo = 0 := by omega
      have h2 : h - lo = 0 := by omega
      simp [this, h2, hl]

theorem strictMono_le (g : Grid1 K) (hm : StrictMonoOn g.nodes (g.n+1)) {i j : Nat} (hij : i ≤ j)
    (hj : j ≤ g.n) : g.nodes i ≤ g.nodes j := by
  rcases Nat.lt_or_ge i j with h | h
  · exact le_of_lt (hm i j h (by omega))
  · have : i = j := by omega
    rw [this]

/-- facts about the cell box of one direction -/
theorem box_facts (g : Grid1 K) (a b : K) (h : DirOK g a b) :
    cellIdx g (min a b) < min (cellIdx g (max a b) + 1) g.n ∧
    min (cellIdx g (max a b) + 1) g.n ≤ g.n ∧
    g.nodes (cellIdx g (min a b)) ≤ min a b ∧
    max a b ≤ g.nodes (min (cellIdx g (max a b) + 1) g.n) ∧
    (a = b → min (cellIdx g (max a b) + 1) g.n = cellIdx g (min a b) + 1 ∧
      g.nodes (cellIdx g (min a b)) ≤ a ∧ a ≤ g.nodes (cellIdx g (min a b) + 1)) := by
  obtain ⟨l1, l2, l3⟩ := cellIdx_bracket g (min a b) h.pos h.mono h.lo h.notTop
  have hle : min a b ≤ max a b := le_trans (min_le_left _ _) (le_max_left _ _)
  rcases lt_or_ge (max a b) (g.nodes g.n) with ht | ht
  · obtain ⟨u1, u2, u3⟩ := cellIdx_bracket g (max a b) h.pos h.mono (le_trans h.lo hle) ht
    have hhi : min (cellIdx g (max a b) + 1) g.n = cellIdx g (max a b) + 1 :=
      Nat.min_eq_left (by omega)
    have hlo_le : cellIdx g (min a b) ≤ cellIdx g (max a b) := by
      by_contra hc
      have hc' : cellIdx g (max a b) + 1 ≤ cellIdx g (min a b) := by omega
      have := strictMono_le g h.mono hc' (by omega : cellIdx g (min a b) ≤ g.n)
      linarith
    rw [hhi]
    refine ⟨by omega, by omega, l2, le_of_lt u3, ?_⟩
    intro hab
    have e1 : min a b = a := by rw [hab, min_self]
    have e2 : max a b = a := by rw [hab, max_self]
    rw [e2]
    rw [e1] at l2 l3
    rw [e1]
    exact ⟨rfl, l2, le_of_lt l3⟩
  · have htop : cellIdx g (max a b) = g.n := cellIdx_top g _ h.mono ht
    have hhi : min (cellIdx g (max a b) + 1) g.n = g.n := by
      rw [htop]; exact Nat.min_eq_right (by omega)
    rw [hhi]
    refine ⟨by omega, le_refl _, l2, h.hi, ?_⟩
    intro hab
    have e1 : min a b = a := by rw [hab, min_self]
    have e2 : max a b = a := by rw [hab, max_self]
    have := h.notTop
    rw [e1] at this
    rw [e2] at ht
    linarith

theorem perm_reflect {α : Type} (m : ℕ) (P : ℕ → α) :
    List.Perm ((List.range m).map (fun i => P (m - 1 - i))) ((List.range m).map P) := by
  induction m with
  | zero => simp
  | succ m ih =>
    rw [List.range_succ_eq_map, List.map_cons, List.map_map]
    have e : (List.range m).map ((fun i => P (m + 1 - 1 - i)) ∘ Nat.succ) =
        (List.range m).map (fun i => P (m - 1 - i)) := by
      apply List.map_congr_left
      intro i _
      simp only [Function.comp]
      congr 1
      omega
    rw [e]
    have e2 : (List.map P (0 :: List.map Nat.succ (List.range m))) = List.map P (List.range (m+1)) := by
      rw [← List.range_succ_eq_map]
    rw [e2, List.range_succ, List.map_append, List.map_singleton]
    have : P (m + 1 - 1 - 0) = P m := by simp
    rw [this]
    exact (List.Perm.cons _ ih).trans (List.perm_append_singleton _ _).symm

/-- **break points of one direction**: the clipping intervals of the cells of the box are, up to
order, the consecutive intervals of a monotone sequence that covers `[0, 1]` -/
theorem dir_breaks (g : Grid1 K) (a b : K) (h : DirOK g a b) :
    ∃ (X : ℕ → K) (m : ℕ), (∀ i < m, X i ≤ X (i+1)) ∧ X 0 ≤ 0 ∧ 1 ≤ X m ∧
      List.Perm ((boxOf g a b).map (fun j => LH g a b j))
        ((List.range m).map (fun i => (X i, X (i+1)))) := by
  obtain ⟨f1, f2, f3, f4, f5⟩ := box_facts g a b h
  have hbox := boxOf_eq g a b
  set lo := cellIdx g (min a b) with hlo
  set hi := min (cellIdx g (max a b) + 1) g.n with hhi
  have hstep : ∀ j, j < g.n → g.nodes j < g.nodes (j+1) :=
    fun j hj => h.mono j (j+1) (by omega) (by omega)
  rcases lt_trichotomy a b with hab | hab | hab
  · -- increasing
    have hd : 0 < b - a := sub_pos.2 hab
    refine ⟨fun i => (g.nodes (lo + i) - a)/(b - a), hi - lo, ?_, ?_, ?_, ?_⟩
    · intro i hi'
      apply div_le_div_of_nonneg_right _ hd.le
      have := hstep (lo + i) (by omega)
      rw [← Nat.add_assoc]; linarith
    · simp only [Nat.add_zero]
      apply div_nonpos_of_nonpos_of_nonneg _ hd.le
      rw [min_eq_left hab.le] at f3; linarith
    · show 1 ≤ (g.nodes (lo + (hi - lo)) - a)/(b - a)
      rw [Nat.add_sub_cancel' f1.le, le_div_iff₀ hd]
      rw [max_eq_right hab.le] at f4; linarith
    · rw [hbox, List.map_map]
      apply List.Perm.of_eq
      apply List.map_congr_left
      intro i hi'
      rw [List.mem_range] at hi'
      simp only [Function.comp]
      rw [LH_nondeg_lt g a b (lo + i) hab (hstep _ (by omega)), Nat.add_assoc]
  · -- degenerate: one cell, no clipping
    subst hab
    obtain ⟨g1, _, _⟩ := f5 rfl
    refine ⟨fun i => (i : K), 1, ?_, ?_, ?_, ?_⟩
    · intro i hi'; simp
    · simp
    · simp
    · rw [hbox, g1]
      simp [LH_deg]
  · -- decreasing: reverse the order of the cells
    have hd : b - a < 0 := sub_neg.2 hab
    refine ⟨fun i => (g.nodes (hi - i) - a)/(b - a), hi - lo, ?_, ?_, ?_, ?_⟩
    · intro i hi'
      apply div_le_div_of_nonpos_of_le hd.le
      have := hstep (hi - (i+1)) (by omega)
      have e : hi - (i+1) + 1 = hi - i := by omega
      rw [e] at this; linarith
    · simp only [Nat.sub_zero]
      apply div_nonpos_of_nonneg_of_nonpos _ hd.le
      rw [max_eq_left hab.le] at f4; linarith
    · show 1 ≤ (g.nodes (hi - (hi - lo)) - a)/(b - a)
      have e : hi - (hi - lo) = lo := by omega
      rw [e, le_div_iff_of_neg hd]
      rw [min_eq_right hab.le] at f3; linarith
    · rw [hbox, List.map_map]
      have e : (List.range (hi - lo)).map ((fun j => LH g a b j) ∘ fun i => lo + i) =
          (List.range (hi - lo)).map (fun i =>
            (fun i' => ((g.nodes (hi - i') - a)/(b - a), (g.nodes (hi - (i'+1)) - a)/(b - a)))
              (hi - lo - 1 - i)) := by
        apply List.map_congr_left
        intro i hi'
        rw [List.mem_range] at hi'
        simp only [Function.comp]
        rw [LH_nondeg_gt g a b (lo + i) hab (hstep _ (by omega))]
        have e1 : hi - (hi - lo - 1 - i) = lo + i + 1 := by omega
        have e2 : hi - (hi - lo - 1 - i + 1) = lo + i := by omega
        rw [e1, e2]
      rw [e]
      exact perm_reflect (hi - lo)
        (fun i' => ((g.nodes (hi - i') - a)/(b - a), (g.nodes (hi - (i'+1)) - a)/(b - a)))

/-! ### assembling the three directions -/

def Fclip (p q r : K × K) : K :=
  max 0 (min (min (min 1 p.2) q.2) r.2 - max (max (max 0 p.1) q.1) r.1)

theorem list_range_sum (n : ℕ) (f : ℕ → K) :
    ((List.range n).map f).sum = ∑ i ∈ range n, f i := by
  induction n with
  | zero => simp
  | succ n ih => rw [List.range_succ, List.map_append, List.sum_append, ih, sum_range_succ]; simp

theorem perm_sum (l : List (K × K)) (X : ℕ → K) (m : ℕ)
    (hp : List.Perm l ((List.range m).map (fun i => (X i, X (i+1))))) (g : K × K → K) :
    (l.map g).sum = ∑ i ∈ range m, g (X i, X (i+1)) := by
  rw [(hp.map g).sum_eq, List.map_map, list_range_sum]
  rfl

theorem box_tiling (lx ly lz : List (K × K)) (X Y Z : ℕ → K) (nx ny nz : ℕ)
    (px : List.Perm lx ((List.range nx).map (fun i => (X i, X (i+1)))))
    (py : List.Perm ly ((List.range ny).map (fun i => (Y i, Y (i+1)))))
    (pz : List.Perm lz ((List.range nz).map (fun i => (Z i, Z (i+1)))))
    (hX : ∀ i < nx, X i ≤ X (i+1)) (hY : ∀ i < ny, Y i ≤ Y (i+1)) (hZ : ∀ i < nz, Z i ≤ Z (i+1))
    (hX0 : X 0 ≤ 0) (hX1 : 1 ≤ X nx) (hY0 : Y 0 ≤ 0) (hY1 : 1 ≤ Y ny)
    (hZ0 : Z 0 ≤ 0) (hZ1 : 1 ≤ Z nz) :
    (lz.map fun r => (ly.map fun q => (lx.map fun p => Fclip p q r).sum).sum).sum = 1 := by
  have e1 : ∀ q r, (lx.map fun p => Fclip p q r).sum = ∑ i ∈ range nx, Fclip (X i, X (i+1)) q r :=
    fun q r => perm_sum lx X nx px (fun p => Fclip p q r)
  simp only [e1]
  have e2 : ∀ r, (ly.map fun q => ∑ i ∈ range nx, Fclip (X i, X (i+1)) q r).sum =
      ∑ j ∈ range ny, ∑ i ∈ range nx, Fclip (X i, X (i+1)) (Y j, Y (j+1)) r :=
    fun r => perm_sum ly Y ny py (fun q => ∑ i ∈ range nx, Fclip (X i, X (i+1)) q r)
  simp only [e2]
  rw [perm_sum lz Z nz pz
    (fun r => ∑ j ∈ range ny, ∑ i ∈ range nx, Fclip (X i, X (i+1)) (Y j, Y (j+1)) r)]
  rw [← tiling_3d X Y Z nx ny nz hX hY hZ hX0 hX1 hY0 hY1 hZ0 hZ1]
  apply sum_congr rfl; intro k _
  apply sum_congr rfl; intro j _
  apply sum_congr rfl; intro i _
  unfold Fclip
  simp only
  congr 2
  · rw [min_comm (min (min 1 (X (i+1))) (Y (j+1))), min_comm (min 1 (X (i+1))), min_comm 1,
      min_comm (Z (k+1)) (min (Y (j+1)) (min (X (i+1)) 1))]
    simp only [min_assoc, min_comm, min_left_comm]
  · simp only [max_assoc, max_comm, max_left_comm]

/-! ### the y- and z-components -/

def pickY (c : Nat × Nat × Nat) (r : K × (K × K × K) × (K × K × K)) (i j k : Nat) : K :=
  if j = c.2.1 then
    (if i = c.1 then (if k = c.2.2 then r.2.2.1*r.2.2.2.2*r.1 else if k = c.2.2+1 then r.2.2.1*r.2.1.2.2*r.1 else 0)
     else if i = c.1+1 then (if k = c.2.2 then r.2.1.1*r.2.2.2.2*r.1 else if k = c.2.2+1 then r.2.1.1*r.2.1.2.2*r.1 else 0)
     else 0) else 0

def pickZ (c : Nat × Nat × Nat) (r : K × (K × K × K) × (K × K × K)) (i j k : Nat) : K :=
  if k = c.2.2 then
    (if i = c.1 then (if j = c.2.1 then r.2.2.1*r.2.2.2.1*r.1 else if j = c.2.1+1 then r.2.2.1*r.2.1.2.1*r.1 else 0)
     else if i = c.1+1 then (if j = c.2.1 then r.2.1.1*r.2.2.2.1*r.1 else if j = c.2.1+1 then r.2.1.1*r.2.1.2.1*r.1 else 0)
     else 0) else 0

theorem segVector_y (gx gy gz : Grid1 K) (s : Seg K) (i j k : Nat) :
    (segVector gx gy gz s).y i j k =
      (segContribs gx gy gz s).foldl (fun a cr => a + pickY cr.1 cr.2 i j k) 0 := by
  rfl

theorem segVector_z (gx gy gz : Grid1 K) (s : Seg K) (i j k : Nat) :
    (segVector gx gy gz s).z i j k =
      (segContribs gx gy gz s).foldl (fun a cr => a + pickZ cr.1 cr.2 i j k) 0 := by
  rfl

theorem sum_single (n a : ℕ) (x : K) (ha : a < n) :
    ∑ i ∈ range n, (if i = a then x else 0) = x := by
  rw [sum_ite_eq' (range n) a (fun _ => x)]; simp [ha]

theorem S3_pickY (nx ny nz : ℕ) (c : ℕ × ℕ × ℕ) (r : K × (K × K × K) × (K × K × K))
    (h1 : c.1 < nx) (h2 : c.2.1 < ny) (h3 : c.2.2 < nz) :
    Emg.S3 (nx+1) ny (nz+1) (pickY c r) =
      (r.2.2.1*r.2.2.2.2 + r.2.2.1*r.2.1.2.2 + r.2.1.1*r.2.2.2.2 + r.2.1.1*r.2.1.2.2) * r.1 := by
  unfold Emg.S3 pickY
  have inner : ∀ (a b : K), ∑ k ∈ range (nz+1),
      (if k = c.2.2 then a else if k = c.2.2+1 then b else 0) = a + b :=
    fun a b => sum_two (nz+1) c.2.2 (c.2.2+1) a b (by omega) (by omega) (by omega)
  have push : ∀ i, (∑ j ∈ range ny, ∑ k ∈ range (nz+1),
      (if j = c.2.1 then
        (if i = c.1 then (if k = c.2.2 then r.2.2.1*r.2.2.2.2*r.1 else if k = c.2.2+1 then r.2.2.1*r.2.1.2.2*r.1 else 0)
         else if i = c.1+1 then (if k = c.2.2 then r.2.1.1*r.2.2.2.2*r.1 else if k = c.2.2+1 then r.2.1.1*r.2.1.2.2*r.1 else 0)
         else 0) else 0)) =
      if i = c.1 then r.2.2.1*r.2.2.2.2*r.1 + r.2.2.1*r.2.1.2.2*r.1
      else if i = c.1+1 then r.2.1.1*r.2.2.2.2*r.1 + r.2.1.1*r.2.1.2.2*r.1 else 0 := by
    intro i
    have : ∀ j, (∑ k ∈ range (nz+1),
        (if j = c.2.1 then
          (if i = c.1 then (if k = c.2.2 then r.2.2.1*r.2.2.2.2*r.1 else if k = c.2.2+1 then r.2.2.1*r.2.1.2.2*r.1 else 0)
           else if i = c.1+1 then (if k = c.2.2 then r.2.1.1*r.2.2.2.2*r.1 else if k = c.2.2+1 then r.2.1.1*r.2.1.2.2*r.1 else 0)
           else 0) else 0)) =
        (if j = c.2.1 then
          (if i = c.1 then r.2.2.1*r.2.2.2.2*r.1 + r.2.2.1*r.2.1.2.2*r.1
           else if i = c.1+1 then r.2.1.1*r.2.2.2.2*r.1 + r.2.1.1*r.2.1.2.2*r.1 else 0) else 0) := by
      intro j
      by_cases hj : j = c.2.1
      · simp only [hj, if_true]
        by_cases hi : i = c.1
        · simp only [hi, if_true]; exact inner _ _
        · by_cases hi2 : i = c.1+1
          · simp only [hi2, if_true]
            have : ¬ (c.1 + 1 = c.1) := by omega
            simp only [this, if_false]; exact inner _ _
          · simp [hi, hi2]
      · simp [hj]
    simp only [this]
    exact sum_single ny c.2.1 _ h2
  simp only [push]
  rw [sum_two (nx+1) c.1 (c.1+1) _ _ (by omega) (by omega) (by omega)]
  ring

theorem S3_pickZ (nx ny nz : ℕ) (c : ℕ × ℕ × ℕ) (r : K × (K × K × K) × (K × K × K))
    (h1 : c.1 < nx) (h2 : c.2.1 < ny) (h3 : c.2.2 < nz) :
    Emg.S3 (nx+1) (ny+1) nz (pickZ c r) =
      (r.2.2.1*r.2.2.2.1 + r.2.2.1*r.2.1.2.1 + r.2.1.1*r.2.2.2.1 + r.2.1.1*r.2.1.2.1) * r.1 := by
  unfold Emg.S3 pickZ
  have push : ∀ i j, (∑ k ∈ range nz,
      (if k = c.2.2 then
        (if i = c.1 then (if j = c.2.1 then r.2.2.1*r.2.2.2.1*r.1 else if j = c.2.1+1 then r.2.2.1*r.2.1.2.1*r.1 else 0)
         else if i = c.1+1 then (if j = c.2.1 then r.2.1.1*r.2.2.2.1*r.1 else if j = c.2.1+1 then r.2.1.1*r.2.1.2.1*r.1 else 0)
         else 0) else 0)) =
      (if i = c.1 then (if j = c.2.1 then r.2.2.1*r.2.2.2.1*r.1 else if j = c.2.1+1 then r.2.2.1*r.2.1.2.1*r.1 else 0)
       else if i = c.1+1 then (if j = c.2.1 then r.2.1.1*r.2.2.2.1*r.1 else if j = c.2.1+1 then r.2.1.1*r.2.1.2.1*r.1 else 0)
       else 0) := fun i j => sum_single nz c.2.2 _ h3
  simp only [push]
  have mid : ∀ i, (∑ j ∈ range (ny+1),
      (if i = c.1 then (if j = c.2.1 then r.2.2.1*r.2.2.2.1*r.1 else if j = c.2.1+1 then r.2.2.1*r.2.1.2.1*r.1 else 0)
       else if i = c.1+1 then (if j = c.2.1 then r.2.1.1*r.2.2.2.1*r.1 else if j = c.2.1+1 then r.2.1.1*r.2.1.2.1*r.1 else 0)
       else 0)) =
      (if i = c.1 then r.2.2.1*r.2.2.2.1*r.1 + r.2.2.1*r.2.1.2.1*r.1
       else if i = c.1+1 then r.2.1.1*r.2.2.2.1*r.1 + r.2.1.1*r.2.1.2.1*r.1 else 0) := by
    intro i
    by_cases hi : i = c.1
    · simp only [hi, if_true]
      exact sum_two (ny+1) c.2.1 (c.2.1+1) _ _ (by omega) (by omega) (by omega)
    · by_cases hi2 : i = c.1+1
      · simp only [hi2, if_true]
        have : ¬ (c.1 + 1 = c.1) := by omega
        simp only [this, if_false]
        exact sum_two (ny+1) c.2.1 (c.2.1+1) _ _ (by omega) (by omega) (by omega)
      · simp [hi, hi2]
  simp only [mid]
  rw [sum_two (nx+1) c.1 (c.1+1) _ _ (by omega) (by omega) (by omega)]
  ring

/-! ### final assembly -/

theorem mem_segCells (gx gy gz : Grid1 K) (s : Seg K) (c : Nat × Nat × Nat) :
    c ∈ segCells gx gy gz s ↔
      c.1 ∈ boxOf gx s.p0.1 s.p1.1 ∧ c.2.1 ∈ boxOf gy s.p0.2.1 s.p1.2.1 ∧
      c.2.2 ∈ boxOf gz s.p0.2.2 s.p1.2.2 := by
  unfold segCells
  simp only [List.mem_flatMap, List.mem_map]
  constructor
  · rintro ⟨iz, hz, iy, hy, ix, hx, rfl⟩
    exact ⟨hx, hy, hz⟩
  · rintro ⟨hx, hy, hz⟩
    exact ⟨c.2.2, hz, c.2.1, hy, c.1, hx, rfl⟩

theorem segCells_sum (gx gy gz : Grid1 K) (s : Seg K) (G : Nat × Nat × Nat → K) :
    ((segCells gx gy gz s).map G).sum =
      ((boxOf gz s.p0.2.2 s.p1.2.2).map fun iz =>
        ((boxOf gy s.p0.2.1 s.p1.2.1).map fun iy =>
          ((boxOf gx s.p0.1 s.p1.1).map fun ix => G (ix, iy, iz)).sum).sum).sum := by
  unfold segCells
  have flat : ∀ {α β : Type} (l : List α) (f : α → List β) (g : β → K),
      ((l.flatMap f).map g).sum = (l.map fun a => ((f a).map g).sum).sum := by
    intro α β l f g
    induction l with
    | nil => simp
    | cons a t ih => simp [List.flatMap_cons, List.sum_append, ih]
  rw [flat]
  congr 1
  apply List.map_congr_left
  intro iz _
  rw [flat]
  congr 1
  apply List.map_congr_left
  intro iy _
  rw [List.map_map]
  rfl

/-- sum over the contributing cells of (weights · length) = sum over all cells of the box of the
length the cell contributes (weights sum to one) -/
theorem contribs_sum (gx gy gz : Grid1 K) (s : Seg K)
    (W : (Nat × Nat × Nat) × (K × (K × K × K) × (K × K × K)) → K)
    (hW : ∀ c r, r.2.2 = (1 - r.2.1.1, 1 - r.2.1.2.1, 1 - r.2.1.2.2) → W (c, r) = r.1) :
    ((segContribs gx gy gz s).map W).sum = ((segCells gx gy gz s).map (lenOf gx gy gz s)).sum := by
  unfold segContribs
  generalize segCells gx gy gz s = l
  induction l with
  | nil => simp
  | cons c t ih =>
    rw [List.filterMap_cons, List.map_cons, List.sum_cons, ← ih]
    unfold lenOf
    cases hcc : cellContribution gx gy gz s c.1 c.2.1 c.2.2 with
    | none => simp
    | some r =>
      simp only [Option.map_some, List.map_cons, List.sum_cons]
      rw [hW c r (cellContribution_some_weights gx gy gz s _ _ _ r hcc)]

/-- **the clipped lengths of all cells of the box sum to one** -/
theorem lenOf_sum (gx gy gz : Grid1 K) (s : Seg K) (hx : DirOK gx s.p0.1 s.p1.1)
    (hy : DirOK gy s.p0.2.1 s.p1.2.1) (hz : DirOK gz s.p0.2.2 s.p1.2.2) :
    ((segCells gx gy gz s).map (lenOf gx gy gz s)).sum = 1 := by
  -- every cell contributes the length of its intersection
  have hG : ∀ c ∈ segCells gx gy gz s, lenOf gx gy gz s c =
      Fclip (LH gx s.p0.1 s.p1.1 c.1) (LH gy s.p0.2.1 s.p1.2.1 c.2.1)
        (LH gz s.p0.2.2 s.p1.2.2 c.2.2) := by
    intro c hc
    obtain ⟨mx, my, mz⟩ := (mem_segCells gx gy gz s c).1 hc
    have dir : ∀ (g : Grid1 K) (a b : K) (h : DirOK g a b) (j : Nat), j ∈ boxOf g a b →
        g.nodes j < g.nodes (j+1) ∧ (a = b → g.nodes j ≤ a ∧ a ≤ g.nodes (j+1)) := by
      intro g a b h j hj
      obtain ⟨f1, f2, f3, f4, f5⟩ := box_facts g a b h
      rw [mem_boxOf] at hj
      refine ⟨h.mono j (j+1) (by omega) (by omega), ?_⟩
      intro hab
      obtain ⟨g1, g2, g3⟩ := f5 hab
      have : j = cellIdx g (min a b) := by omega
      rw [this]; exact ⟨g2, g3⟩
    obtain ⟨sx, dx⟩ := dir gx _ _ hx c.1 mx
    obtain ⟨sy, dy⟩ := dir gy _ _ hy c.2.1 my
    obtain ⟨sz, dz⟩ := dir gz _ _ hz c.2.2 mz
    have := lenOf_eq gx gy gz s c.1 c.2.1 c.2.2 sx sy sz dx dy dz
    rw [show (c.1, c.2.1, c.2.2) = c from rfl] at this
    rw [this, clip_eq]
    rfl
  rw [List.map_congr_left hG]
  rw [segCells_sum gx gy gz s (fun c => Fclip (LH gx s.p0.1 s.p1.1 c.1)
    (LH gy s.p0.2.1 s.p1.2.1 c.2.1) (LH gz s.p0.2.2 s.p1.2.2 c.2.2))]
  obtain ⟨X, nx, hX, hX0, hX1, px⟩ := dir_breaks gx _ _ hx
  obtain ⟨Y, ny, hY, hY0, hY1, py⟩ := dir_breaks gy _ _ hy
  obtain ⟨Z, nz, hZ, hZ0, hZ1, pz⟩ := dir_breaks gz _ _ hz
  have := box_tiling _ _ _ X Y Z nx ny nz px py pz hX hY hZ hX0 hX1 hY0 hY1 hZ0 hZ1
  simp only [List.map_map] at this
  exact this

theorem contribs_in_range (gx gy gz : Grid1 K) (s : Seg K) (hx : DirOK gx s.p0.1 s.p1.1)
    (hy : DirOK gy s.p0.2.1 s.p1.2.1) (hz : DirOK gz s.p0.2.2 s.p1.2.2) :
    ∀ cr ∈ segContribs gx gy gz s, cr.1.1 < gx.n ∧ cr.1.2.1 < gy.n ∧ cr.1.2.2 < gz.n := by
  intro cr hcr
  unfold segContribs at hcr
  rw [List.mem_filterMap] at hcr
  obtain ⟨c, hc, hmap⟩ := hcr
  cases hcc : cellContribution gx gy gz s c.1 c.2.1 c.2.2 with
  | none => rw [hcc] at hmap; simp at hmap
  | some r =>
    rw [hcc] at hmap
    simp only [Option.map_some, Option.some.injEq] at hmap
    rw [← hmap]
    obtain ⟨mx, my, mz⟩ := (mem_segCells gx gy gz s c).1 hc
    rw [mem_boxOf] at mx my mz
    have bx := (box_facts gx _ _ hx).2.1
    have by' := (box_facts gy _ _ hy).2.1
    have bz := (box_facts gz _ _ hz).2.1
    exact ⟨lt_of_lt_of_le mx.2 bx, lt_of_lt_of_le my.2 by', lt_of_lt_of_le mz.2 bz⟩

/-- **the un-scaled vector of a segment sums to one in every component** -/
theorem segVector_sums (gx gy gz : Grid1 K) (s : Seg K) (hx : DirOK gx s.p0.1 s.p1.1)
    (hy : DirOK gy s.p0.2.1 s.p1.2.1) (hz : DirOK gz s.p0.2.2 s.p1.2.2) :
    Emg.S3 gx.n (gy.n+1) (gz.n+1) (segVector gx gy gz s).x = 1 ∧
    Emg.S3 (gx.n+1) gy.n (gz.n+1) (segVector gx gy gz s).y = 1 ∧
    Emg.S3 (gx.n+1) (gy.n+1) gz.n (segVector gx gy gz s).z = 1 := by
  have hb := contribs_in_range gx gy gz s hx hy hz
  have hl := lenOf_sum gx gy gz s hx hy hz
  refine ⟨?_, ?_, ?_⟩
  · have e : (segVector gx gy gz s).x = fun i j k =>
        ((segContribs gx gy gz s).map (fun cr => pickX cr.1 cr.2 i j k)).sum := by
      funext i j k
      rw [segVector_x, foldl_add_eq_sum', zero_add]
    rw [e, S3_list_sum, ← hl, ← contribs_sum gx gy gz s
      (fun cr => (cr.2.2.2.2.1*cr.2.2.2.2.2 + cr.2.2.2.2.1*cr.2.2.1.2.2 + cr.2.2.1.2.1*cr.2.2.2.2.2 +
        cr.2.2.1.2.1*cr.2.2.1.2.2) * cr.2.1)
      (by intro c r hr; simp only [hr]; ring)]
    congr 1
    apply List.map_congr_left
    intro cr hcr
    obtain ⟨h1, h2, h3⟩ := hb cr hcr
    exact S3_pickX gx.n gy.n gz.n cr.1 cr.2 h1 h2 h3
  · have e : (segVector gx gy gz s).y = fun i j k =>
        ((segContribs gx gy gz s).map (fun cr => pickY cr.1 cr.2 i j k)).sum := by
      funext i j k
      rw [segVector_y, foldl_add_eq_sum', zero_add]
    rw [e, S3_list_sum, ← hl, ← contribs_sum gx gy gz s
      (fun cr => (cr.2.2.2.1*cr.2.2.2.2.2 + cr.2.2.2.1*cr.2.2.1.2.2 + cr.2.2.1.1*cr.2.2.2.2.2 +
        cr.2.2.1.1*cr.2.2.1.2.2) * cr.2.1)
      (by intro c r hr; simp only [hr]; ring)]
    congr 1
    apply List.map_congr_left
    intro cr hcr
    obtain ⟨h1, h2, h3⟩ := hb cr hcr
    exact S3_pickY gx.n gy.n gz.n cr.1 cr.2 h1 h2 h3
  · have e : (segVector gx gy gz s).z = fun i j k =>
        ((segContribs gx gy gz s).map (fun cr => pickZ cr.1 cr.2 i j k)).sum := by
      funext i j k
      rw [segVector_z, foldl_add_eq_sum', zero_add]
    rw [e, S3_list_sum, ← hl, ← contribs_sum gx gy gz s
      (fun cr => (cr.2.2.2.1*cr.2.2.2.2.1 + cr.2.2.2.1*cr.2.2.1.2.1 + cr.2.2.1.1*cr.2.2.2.2.1 +
        cr.2.2.1.1*cr.2.2.1.2.1) * cr.2.1)
      (by intro c r hr; simp only [hr]; ring)]
    congr 1
    apply List.map_congr_left
    intro cr hcr
    obtain ⟨h1, h2, h3⟩ := hb cr hcr
    exact S3_pickZ gx.n gy.n gz.n cr.1 cr.2 h1 h2 h3

theorem S3_mul_const (n1 n2 n3 : ℕ) (f : ℕ → ℕ → ℕ → K) (c : K) :
    Emg.S3 n1 n2 n3 (fun i j k => f i j k * c) = Emg.S3 n1 n2 n3 f * c := by
  unfold Emg.S3
  simp only [sum_mul]

/-- **C10, finite dipoles**: every Cartesian component of the dipole vector of a segment inside the
grid (not lying in an upper boundary face) sums to the corresponding component of
`p1 − p0` — the source injects exactly its nominal moment -/
theorem dipole_moment (gx gy gz : Grid1 K) (s : Seg K) (hx : DirOK gx s.p0.1 s.p1.1)
    (hy : DirOK gy s.p0.2.1 s.p1.2.1) (hz : DirOK gz s.p0.2.2 s.p1.2.2) :
    dipole_moment_stmt gx gy gz s := by
  obtain ⟨sx, sy, sz⟩ := segVector_sums gx gy gz s hx hy hz
  unfold dipole_moment_stmt dipoleVector
  simp only
  refine ⟨?_, ?_, ?_⟩
  · rw [S3_mul_const, sx, one_mul]
  · rw [S3_mul_const, sy, one_mul]
  · rw [S3_mul_const, sz, one_mul]

end Src
