import Emg3dVerif.Props.C15
import Mathlib.Analysis.SpecialFunctions.Pow.Real
import Mathlib.Analysis.SpecialFunctions.Log.Base
/-! C15, log mode: averaging log₁₀-values gives the same model for resistivity and conductivity -/
namespace VolAvg

theorem volAvg1_neg (g o : G1 ℝ) (v : ℕ → ℝ) (j : ℕ) :
    volAvg1 g o (fun i => - v i) j = - volAvg1 g o v j := by
  have := volAvg1_linear g o v v (-1) 0 j
  simp only [neg_mul, one_mul, zero_mul, add_zero] at this
  exact this

/-- **In log mode the result is the same whether the model is given as resistivity or as
conductivity**: `10^{avg(log₁₀ (1/ρ))} = 1 / 10^{avg(log₁₀ ρ)}`. -/
theorem log_mode_rho_sigma (g o : G1 ℝ) (rho : ℕ → ℝ) (j : ℕ) :
    (10:ℝ) ^ (volAvg1 g o (fun i => Real.logb 10 (1 / rho i)) j)
      = 1 / (10:ℝ) ^ (volAvg1 g o (fun i => Real.logb 10 (rho i)) j) := by
  have e : (fun i => Real.logb 10 (1 / rho i)) = fun i => - Real.logb 10 (rho i) := by
    funext i; rw [one_div, Real.logb_inv]
  rw [e, volAvg1_neg, Real.rpow_neg (by norm_num), one_div]

end VolAvg
