import Emg3dVerif.Props.SmoothEnergy
set_option linter.unusedSectionVars false
/-!
# Laplace domain: a sweep strictly reduces the energy norm of every non-zero error (C06, part)

`SmoothEnergy.lean` shows that no block relaxation increases the energy norm of the error.
Here: for strictly dissipative Laplace-domain models (`η < 0` in every cell) the energy form is
positive *definite* on PEC fields (`energy_eq_zero`), and a list of solved block relaxations
that covers all interior edges — one point-wise sweep, one sweep of any line kernel, hence
every call of `solver.smoothing` with at least one sweep — leaves the energy norm unchanged
**only if the error is already zero** (`relaxAll_energy_lt`, `kernel_energy_lt`).  So the
smoother alone is a strictly decreasing iteration on every level: the reason why
`solver.smoothing` can be used "as direct solver" on the coarsest grid.

(The value of the contraction factor is not a statement about the model; see C06.)
-/
namespace Emg
open Finset MGH
variable {K : Type} [Field K] [LinearOrder K] [IsStrictOrderedRing K]

/-- strictly dissipative Laplace-domain models: `ζ ≥ 0`, every `η` of the grid's cells `< 0` -/
structure PhysRS (g : Grid K) (m : VM K) : Prop where
  zeta : ∀ i j k, 0 ≤ m.zeta i j k
  etaX : ∀ i j k, i < g.nx → j < g.ny → k < g.nz → m.etaX i j k < 0
  etaY : ∀ i j k, i < g.nx → j < g.ny → k < g.nz → m.etaY i j k < 0
  etaZ : ∀ i j k, i < g.nx → j < g.ny → k < g.nz → m.etaZ i j k < 0

theorem PhysRS.toPhysR {g : Grid K} {m : VM K} (h : PhysRS g m) : PhysR g m :=
  ⟨h.zeta, fun i j k a b c => (h.etaX i j k a b c).le, fun i j k a b c => (h.etaY i j k a b c).le,
   fun i j k a b c => (h.etaZ i j k a b c).le⟩

theorem S3_eq_zero_of_nonpos (n1 n2 n3 : ℕ) (f : ℕ → ℕ → ℕ → K)
    (hf : ∀ i j k, i < n1 → j < n2 → k < n3 → f i j k ≤ 0) (hs : 0 ≤ S3 n1 n2 n3 f) :
    ∀ i j k, i < n1 → j < n2 → k < n3 → f i j k = 0 := by
  unfold S3 at hs
  have h3 : ∀ i ∈ range n1, ∀ j ∈ range n2, ∑ k ∈ range n3, f i j k ≤ 0 := fun i hi j hj =>
    sum_nonpos fun k hk => hf i j k (mem_range.1 hi) (mem_range.1 hj) (mem_range.1 hk)
  have h2 : ∀ i ∈ range n1, ∑ j ∈ range n2, ∑ k ∈ range n3, f i j k ≤ 0 := fun i hi =>
    sum_nonpos (h3 i hi)
  have e1 : ∑ i ∈ range n1, ∑ j ∈ range n2, ∑ k ∈ range n3, f i j k = 0 :=
    le_antisymm (sum_nonpos h2) hs
  intro i j k hi hj hk
  have a1 := (sum_eq_zero_iff_of_nonpos h2).1 e1 i (mem_range.2 hi)
  have a2 := (sum_eq_zero_iff_of_nonpos (h3 i (mem_range.2 hi))).1 a1 j (mem_range.2 hj)
  exact (sum_eq_zero_iff_of_nonpos fun k hk =>
    hf i j k hi hj (mem_range.1 hk)).1 a2 k (mem_range.2 hk)

section
variable {g : Grid K} {m : VM K}

theorem face_nonneg (h : PhysR g m) (u : EF K) :
    0 ≤ faceDot g (fluxX g m u) (fluxY g m u) (fluxZ g m u) (curlX g u) (curlY g u) (curlZ g u) := by
  have two : (0:K) < 2 := by norm_num
  unfold faceDot
  refine add_nonneg (add_nonneg ?_ ?_) ?_ <;> refine S3_nonneg _ _ _ _ fun i j k _ _ _ => ?_
  · unfold fluxX; rw [mul_assoc]
    exact mul_nonneg (by unfold mfX; exact div_nonneg (add_nonneg (h.zeta _ _ _) (h.zeta _ _ _)) two.le)
      (mul_self_nonneg _)
  · unfold fluxY; rw [mul_assoc]
    exact mul_nonneg (by unfold mfY; exact div_nonneg (add_nonneg (h.zeta _ _ _) (h.zeta _ _ _)) two.le)
      (mul_self_nonneg _)
  · unfold fluxZ; rw [mul_assoc]
    exact mul_nonneg (by unfold mfZ; exact div_nonneg (add_nonneg (h.zeta _ _ _) (h.zeta _ _ _)) two.le)
      (mul_self_nonneg _)

/-- the edge averages of `η` are negative on interior edges -/
theorem meX_neg (h : PhysRS g m) (i j k : ℕ) (hi : i < g.nx) (hj : 1 ≤ j ∧ j < g.ny)
    (hk : 1 ≤ k ∧ k < g.nz) : meX m i j k < 0 := by
  have four : (0:K) < 4 := by norm_num
  have h1 := h.etaX i (j-1) (k-1) hi (by omega) (by omega)
  have h2 := h.etaX i (j-1) k hi (by omega) hk.2
  have h3 := h.etaX i j (k-1) hi hj.2 (by omega)
  have h4 := h.etaX i j k hi hj.2 hk.2
  unfold meX
  exact div_neg_of_neg_of_pos (by linarith) four

theorem meY_neg (h : PhysRS g m) (i j k : ℕ) (hi : 1 ≤ i ∧ i < g.nx) (hj : j < g.ny)
    (hk : 1 ≤ k ∧ k < g.nz) : meY m i j k < 0 := by
  have four : (0:K) < 4 := by norm_num
  have h1 := h.etaY (i-1) j (k-1) (by omega) hj (by omega)
  have h2 := h.etaY i j (k-1) hi.2 hj (by omega)
  have h3 := h.etaY (i-1) j k (by omega) hj hk.2
  have h4 := h.etaY i j k hi.2 hj hk.2
  unfold meY
  exact div_neg_of_neg_of_pos (by linarith) four

theorem meZ_neg (h : PhysRS g m) (i j k : ℕ) (hi : 1 ≤ i ∧ i < g.nx) (hj : 1 ≤ j ∧ j < g.ny)
    (hk : k < g.nz) : meZ m i j k < 0 := by
  have four : (0:K) < 4 := by norm_num
  have h1 := h.etaZ (i-1) (j-1) k (by omega) (by omega) hk
  have h2 := h.etaZ i (j-1) k hi.2 (by omega) hk
  have h3 := h.etaZ (i-1) j k (by omega) hj.2 hk
  have h4 := h.etaZ i j k hi.2 hj.2 hk
  unfold meZ
  exact div_neg_of_neg_of_pos (by linarith) four

/-- the three edge sums of the mass term, each non-positive term by term -/
theorem massX_term (h : PhysRS g m) (u : EF K) (hu : PEC g u) (i j k : ℕ) (hi : i < g.nx)
    (hj : j < g.ny + 1) (hk : k < g.nz + 1) : meX m i j k * u.x i j k * u.x i j k ≤ 0 := by
  by_cases hin : 1 ≤ j ∧ j < g.ny ∧ 1 ≤ k ∧ k < g.nz
  · rw [mul_assoc]
    exact mul_nonpos_of_nonpos_of_nonneg (meX_neg h i j k hi ⟨hin.1, hin.2.1⟩ hin.2.2).le
      (mul_self_nonneg _)
  · have : u.x i j k = 0 := by
      by_cases hj0 : j = 0
      · subst hj0; exact hu.x_j0 i k
      by_cases hjn : j = g.ny
      · subst hjn; exact hu.x_jn i k
      by_cases hk0 : k = 0
      · subst hk0; exact hu.x_k0 i j
      have hkn : k = g.nz := by omega
      subst hkn; exact hu.x_kn i j
    rw [this]; simp

theorem massY_term (h : PhysRS g m) (u : EF K) (hu : PEC g u) (i j k : ℕ) (hi : i < g.nx + 1)
    (hj : j < g.ny) (hk : k < g.nz + 1) : meY m i j k * u.y i j k * u.y i j k ≤ 0 := by
  by_cases hin : 1 ≤ i ∧ i < g.nx ∧ 1 ≤ k ∧ k < g.nz
  · rw [mul_assoc]
    exact mul_nonpos_of_nonpos_of_nonneg (meY_neg h i j k ⟨hin.1, hin.2.1⟩ hj hin.2.2).le
      (mul_self_nonneg _)
  · have : u.y i j k = 0 := by
      by_cases hi0 : i = 0
      · subst hi0; exact hu.y_i0 j k
      by_cases hin' : i = g.nx
      · subst hin'; exact hu.y_in j k
      by_cases hk0 : k = 0
      · subst hk0; exact hu.y_k0 i j
      have hkn : k = g.nz := by omega
      subst hkn; exact hu.y_kn i j
    rw [this]; simp

theorem massZ_term (h : PhysRS g m) (u : EF K) (hu : PEC g u) (i j k : ℕ) (hi : i < g.nx + 1)
    (hj : j < g.ny + 1) (hk : k < g.nz) : meZ m i j k * u.z i j k * u.z i j k ≤ 0 := by
  by_cases hin : 1 ≤ i ∧ i < g.nx ∧ 1 ≤ j ∧ j < g.ny
  · rw [mul_assoc]
    exact mul_nonpos_of_nonpos_of_nonneg (meZ_neg h i j k ⟨hin.1, hin.2.1⟩ hin.2.2 hk).le
      (mul_self_nonneg _)
  · have : u.z i j k = 0 := by
      by_cases hi0 : i = 0
      · subst hi0; exact hu.z_i0 j k
      by_cases hin' : i = g.nx
      · subst hin'; exact hu.z_in j k
      by_cases hj0 : j = 0
      · subst hj0; exact hu.z_j0 i k
      have hjn : j = g.ny := by omega
      subst hjn; exact hu.z_jn i k
    rw [this]; simp

/-- **positive definiteness**: a PEC field of energy `≤ 0` vanishes on every interior edge -/
theorem energy_eq_zero (h : PhysRS g m) (u : EF K) (hu : PEC g u) (hE : energy g m u ≤ 0) :
    ∀ q, Interior g.nx g.ny g.nz q → u.get q = 0 := by
  rw [energy_eq u hu] at hE
  have hface := face_nonneg h.toPhysR u
  have hX := S3_nonpos _ _ _ _ (massX_term h u hu)
  have hY := S3_nonpos _ _ _ _ (massY_term h u hu)
  have hZ := S3_nonpos _ _ _ _ (massZ_term h u hu)
  have hm : 0 ≤ massDot g m u u := by linarith
  unfold massDot at hm
  have zX := S3_eq_zero_of_nonpos _ _ _ _ (massX_term h u hu) (by linarith)
  have zY := S3_eq_zero_of_nonpos _ _ _ _ (massY_term h u hu) (by linarith)
  have zZ := S3_eq_zero_of_nonpos _ _ _ _ (massZ_term h u hu) (by linarith)
  intro q hq
  obtain ⟨c, i, j, k⟩ := q
  cases c <;> simp only [Interior] at hq <;> simp only [EF.get]
  · have := zX i j k hq.1 (by omega) (by omega)
    rw [mul_assoc] at this
    rcases mul_eq_zero.1 this with h0 | h0
    · exact absurd h0 (meX_neg h i j k hq.1 ⟨hq.2.1, hq.2.2.1⟩ hq.2.2.2).ne
    · exact mul_self_eq_zero.1 h0
  · have := zY i j k (by omega) hq.2.2.1 (by omega)
    rw [mul_assoc] at this
    rcases mul_eq_zero.1 this with h0 | h0
    · exact absurd h0 (meY_neg h i j k ⟨hq.1, hq.2.1⟩ hq.2.2.1 hq.2.2.2).ne
    · exact mul_self_eq_zero.1 h0
  · have := zZ i j k (by omega) (by omega) hq.2.2.2.2
    rw [mul_assoc] at this
    rcases mul_eq_zero.1 this with h0 | h0
    · exact absurd h0 (meZ_neg h i j k ⟨hq.1, hq.2.1⟩ ⟨hq.2.2.1, hq.2.2.2.1⟩ hq.2.2.2.2).ne
    · exact mul_self_eq_zero.1 h0

/-- a PEC field whose image under the operator vanishes on all interior edges has energy 0 -/
theorem energy_of_homogeneous (u : EF K) (hu : PEC g u)
    (hA : ∀ q, Interior g.nx g.ny g.nz q → amatAt g m u q = 0) : energy g m u = 0 := by
  unfold energy edgeDot
  rw [S3_zero _ _ _ (fun i j k => (amat g m u).x i j k * u.x i j k) ?_,
    S3_zero _ _ _ (fun i j k => (amat g m u).y i j k * u.y i j k) ?_,
    S3_zero _ _ _ (fun i j k => (amat g m u).z i j k * u.z i j k) ?_]
  · ring
  · intro i j k hi hj hk
    by_cases hin : 1 ≤ i ∧ i < g.nx ∧ 1 ≤ j ∧ j < g.ny
    · have := hA ⟨.z, i, j, k⟩ (by simp only [Interior]; omega)
      unfold amatAt at this
      simp only [EF.get] at this
      rw [this, zero_mul]
    · have : u.z i j k = 0 := by
        by_cases hi0 : i = 0
        · subst hi0; exact hu.z_i0 j k
        by_cases hin' : i = g.nx
        · subst hin'; exact hu.z_in j k
        by_cases hj0 : j = 0
        · subst hj0; exact hu.z_j0 i k
        have hjn : j = g.ny := by omega
        subst hjn; exact hu.z_jn i k
      rw [this, mul_zero]
  · intro i j k hi hj hk
    by_cases hin : 1 ≤ i ∧ i < g.nx ∧ 1 ≤ k ∧ k < g.nz
    · have := hA ⟨.y, i, j, k⟩ (by simp only [Interior]; omega)
      unfold amatAt at this
      simp only [EF.get] at this
      rw [this, zero_mul]
    · have : u.y i j k = 0 := by
        by_cases hi0 : i = 0
        · subst hi0; exact hu.y_i0 j k
        by_cases hin' : i = g.nx
        · subst hin'; exact hu.y_in j k
        by_cases hk0 : k = 0
        · subst hk0; exact hu.y_k0 i j
        have hkn : k = g.nz := by omega
        subst hkn; exact hu.y_kn i j
      rw [this, mul_zero]
  · intro i j k hi hj hk
    by_cases hin : 1 ≤ j ∧ j < g.ny ∧ 1 ≤ k ∧ k < g.nz
    · have := hA ⟨.x, i, j, k⟩ (by simp only [Interior]; omega)
      unfold amatAt at this
      simp only [EF.get] at this
      rw [this, zero_mul]
    · have : u.x i j k = 0 := by
        by_cases hj0 : j = 0
        · subst hj0; exact hu.x_j0 i k
        by_cases hjn : j = g.ny
        · subst hjn; exact hu.x_jn i k
        by_cases hk0 : k = 0
        · subst hk0; exact hu.x_k0 i j
        have hkn : k = g.nz := by omega
        subst hkn; exact hu.x_kn i j
      rw [this, mul_zero]

end

/-! ## a list of solved blocks that does not reduce the energy changes nothing -/
section
variable (g : Grid K) (m : VM K)

/-- one solved block: if the energy norm of the error did not decrease, the field is unchanged
(and therefore already satisfied the block's equations) -/
theorem relaxBlock_stationary (h : PhysRS g m) (s e estar : EF K) (B : List Edge)
    (hB : ∀ q ∈ B, Interior g.nx g.ny g.nz q) (he : PEC g e) (hs : PEC g estar)
    (hsol : ∀ q, Interior g.nx g.ny g.nz q → amatAt g m estar q = s.get q)
    (hok : (relaxBlock g m s e B).2 = true)
    (hE : energy g m (e.sub estar) ≤ energy g m ((relaxBlock g m s e B).1.sub estar)) :
    (relaxBlock g m s e B).1 = e ∧ ∀ r ∈ B, amatAt g m e r = s.get r := by
  have hframe : ∀ q, q ∉ B → (relaxBlock g m s e B).1.get q = e.get q :=
    fun q hq => relaxBlock_frame g m s e B q hq
  have hpe' : PEC g (relaxBlock g m s e B).1 :=
    pec_of_frame g e _ (fun q hq => hframe q (fun hqB => hq (hB q hqB))) he
  have hsplit := relaxBlock_energy g m s e estar B hB he hs hsol hok
  have hc : energy g m (e.sub (relaxBlock g m s e B).1) ≤ 0 := by linarith
  have hz := energy_eq_zero h _ (PEC.sub he hpe') hc
  have heq : (relaxBlock g m s e B).1 = e := by
    apply EF.ext_get
    intro q
    by_cases hq : q ∈ B
    · have := hz q (hB q hq)
      rw [EF.get_sub] at this
      exact (sub_eq_zero.1 this).symm
    · exact hframe q hq
  refine ⟨heq, fun r hr => ?_⟩
  have := relaxBlock_solves g m s e B hok r hr
  rwa [heq] at this

theorem relaxAll_stationary (h : PhysRS g m) (s estar : EF K) (hs : PEC g estar)
    (hsol : ∀ q, Interior g.nx g.ny g.nz q → amatAt g m estar q = s.get q)
    (Bs : List (List Edge)) (hBs : ∀ B ∈ Bs, ∀ q ∈ B, Interior g.nx g.ny g.nz q) :
    ∀ st : EF K × Bool, PEC g st.1 → (relaxAll g m s st Bs).2 = true →
      energy g m (st.1.sub estar) ≤ energy g m ((relaxAll g m s st Bs).1.sub estar) →
      ∀ B ∈ Bs, ∀ r ∈ B, amatAt g m st.1 r = s.get r := by
  induction Bs with
  | nil => intro st _ _ _ B hB; cases hB
  | cons B Bs ih =>
    intro st hst hok hE
    obtain ⟨e, ok⟩ := st
    simp only [relaxAll] at hok hE
    have hBint := hBs B List.mem_cons_self
    have hBsint : ∀ C ∈ Bs, ∀ q ∈ C, Interior g.nx g.ny g.nz q :=
      fun C hC => hBs C (List.mem_cons_of_mem _ hC)
    have h1 := relaxBlock_energy_le g m h.toPhysR s e estar B hBint hst hs hsol
    have hmid := relaxAll_energy_le g m h.toPhysR s estar hs hsol Bs hBsint
      ((relaxBlock g m s e B).1, ok && (relaxBlock g m s e B).2) h1.2
    have hflag := relaxAll_flag g m s Bs _ hok
    simp only [Bool.and_eq_true] at hflag
    have hstat := relaxBlock_stationary g m h s e estar B hBint hst hs hsol hflag.2
      (le_trans hE hmid)
    have hrest := ih hBsint ((relaxBlock g m s e B).1, ok && (relaxBlock g m s e B).2) h1.2 hok
      (le_trans (le_of_eq (by rw [hstat.1])) hE)
    intro C hC r hr
    rcases List.mem_cons.mp hC with rfl | hC
    · exact hstat.2 r hr
    · have := hrest C hC r hr
      simp only [hstat.1] at this
      exact this

/-- **a list of solved block relaxations that covers the interior strictly reduces the energy
norm of every non-zero error** -/
theorem relaxAll_energy_lt (h : PhysRS g m) (s estar : EF K) (hs : PEC g estar)
    (hsol : ∀ q, Interior g.nx g.ny g.nz q → amatAt g m estar q = s.get q)
    (Bs : List (List Edge)) (hBs : ∀ B ∈ Bs, ∀ q ∈ B, Interior g.nx g.ny g.nz q)
    (hcov : ∀ q, Interior g.nx g.ny g.nz q → ∃ B ∈ Bs, q ∈ B)
    (st : EF K × Bool) (hst : PEC g st.1) (hok : (relaxAll g m s st Bs).2 = true)
    (hne : ∃ q, Interior g.nx g.ny g.nz q ∧ st.1.get q ≠ estar.get q) :
    energy g m ((relaxAll g m s st Bs).1.sub estar) < energy g m (st.1.sub estar) := by
  by_contra hlt
  have hE := not_lt.1 hlt
  have heqs := relaxAll_stationary g m h s estar hs hsol Bs hBs st hst hok hE
  have hd : ∀ q, Interior g.nx g.ny g.nz q → amatAt g m (st.1.sub estar) q = 0 := by
    intro q hq
    obtain ⟨B, hB, hqB⟩ := hcov q hq
    rw [amatAt_sub, heqs B hB q hqB, hsol q hq, sub_self]
  have hzero := energy_eq_zero h _ (PEC.sub hst hs)
    (le_of_eq (energy_of_homogeneous _ (PEC.sub hst hs) hd))
  obtain ⟨q, hq, hne⟩ := hne
  have := hzero q hq
  rw [EF.get_sub] at this
  exact hne (sub_eq_zero.1 this)

end

/-! ## one sweep of every kernel covers the interior -/

theorem idxSeq_mem (back : Bool) (n i : ℕ) (h1 : 1 ≤ i) (h2 : i < n) : i ∈ idxSeq back n := by
  simp only [idxSeq, List.mem_map, List.mem_range]
  cases back
  · exact ⟨i - 1, by omega, by simp; omega⟩
  · exact ⟨n - 1 - i, by omega, by simp; omega⟩

/-- the point-wise kernel: every interior edge belongs to the block of one of its end nodes -/
theorem sweep0_cover (nx ny nz : ℕ) (hx : 2 ≤ nx) (hy : 2 ≤ ny) (hz : 2 ≤ nz) (back : Bool)
    (q : Edge) (hq : Interior nx ny nz q) :
    ∃ B ∈ sweepBlocks 0 nx ny nz back, q ∈ B := by
  obtain ⟨c, i, j, k⟩ := q
  simp only [sweepBlocks, List.mem_flatMap, List.mem_map]
  cases c <;> simp only [Interior] at hq
  · -- x-edge (i, j, k): node (i+1, j, k) if it is interior, else node (i, j, k)
    by_cases hi : i + 1 < nx
    · exact ⟨_, ⟨k, idxSeq_mem _ _ _ hq.2.2.2.1 hq.2.2.2.2, j, idxSeq_mem _ _ _ hq.2.1 hq.2.2.1,
        i + 1, idxSeq_mem _ _ _ (by omega) hi, rfl⟩, by simp [nodeBlock]⟩
    · by_cases hi0 : 1 ≤ i
      · exact ⟨_, ⟨k, idxSeq_mem _ _ _ hq.2.2.2.1 hq.2.2.2.2, j, idxSeq_mem _ _ _ hq.2.1 hq.2.2.1,
          i, idxSeq_mem _ _ _ hi0 hq.1, rfl⟩, by simp [nodeBlock]⟩
      · exfalso; omega
  · by_cases hj : j + 1 < ny
    · exact ⟨_, ⟨k, idxSeq_mem _ _ _ hq.2.2.2.1 hq.2.2.2.2, j + 1, idxSeq_mem _ _ _ (by omega) hj,
        i, idxSeq_mem _ _ _ hq.1 hq.2.1, rfl⟩, by simp [nodeBlock]⟩
    · by_cases hj0 : 1 ≤ j
      · exact ⟨_, ⟨k, idxSeq_mem _ _ _ hq.2.2.2.1 hq.2.2.2.2, j, idxSeq_mem _ _ _ hj0 hq.2.2.1,
          i, idxSeq_mem _ _ _ hq.1 hq.2.1, rfl⟩, by simp [nodeBlock]⟩
      · exfalso; omega
  · by_cases hk : k + 1 < nz
    · exact ⟨_, ⟨k + 1, idxSeq_mem _ _ _ (by omega) hk, j, idxSeq_mem _ _ _ hq.2.2.1 hq.2.2.2.1,
        i, idxSeq_mem _ _ _ hq.1 hq.2.1, rfl⟩, by simp [nodeBlock]⟩
    · by_cases hk0 : 1 ≤ k
      · exact ⟨_, ⟨k, idxSeq_mem _ _ _ hk0 hq.2.2.2.2, j, idxSeq_mem _ _ _ hq.2.2.1 hq.2.2.2.1,
          i, idxSeq_mem _ _ _ hq.1 hq.2.1, rfl⟩, by simp [nodeBlock]⟩
      · exfalso; omega


/-- line relaxation along x: the line through an x-edge, or the line through the neighbouring
node for a transverse edge -/
theorem sweep1_cover (nx ny nz : ℕ) (_hx : 2 ≤ nx) (hy : 2 ≤ ny) (hz : 2 ≤ nz) (back : Bool)
    (q : Edge) (hq : Interior nx ny nz q) :
    ∃ B ∈ sweepBlocks 1 nx ny nz back, q ∈ B := by
  obtain ⟨c, i, j, k⟩ := q
  simp only [sweepBlocks, List.mem_flatMap, List.mem_map]
  cases c <;> simp only [Interior] at hq
  · refine ⟨_, ⟨k, idxSeq_mem _ _ _ hq.2.2.2.1 hq.2.2.2.2, j, idxSeq_mem _ _ _ hq.2.1 hq.2.2.1,
      rfl⟩, ?_⟩
    exact List.mem_flatMap.2 ⟨i, List.mem_range.2 hq.1, List.mem_cons_self⟩
  · obtain ⟨i', rfl⟩ : ∃ i', i = i' + 1 := ⟨i - 1, by omega⟩
    by_cases hj : j + 1 < ny
    · refine ⟨_, ⟨k, idxSeq_mem _ _ _ hq.2.2.2.1 hq.2.2.2.2, j + 1,
        idxSeq_mem _ _ _ (by omega) hj, rfl⟩, ?_⟩
      refine List.mem_flatMap.2 ⟨i', List.mem_range.2 (by omega), ?_⟩
      rw [if_pos hq.2.1]; simp
    · refine ⟨_, ⟨k, idxSeq_mem _ _ _ hq.2.2.2.1 hq.2.2.2.2, j,
        idxSeq_mem _ _ _ (by omega) hq.2.2.1, rfl⟩, ?_⟩
      refine List.mem_flatMap.2 ⟨i', List.mem_range.2 (by omega), ?_⟩
      rw [if_pos hq.2.1]; simp
  · obtain ⟨i', rfl⟩ : ∃ i', i = i' + 1 := ⟨i - 1, by omega⟩
    by_cases hk : k + 1 < nz
    · refine ⟨_, ⟨k + 1, idxSeq_mem _ _ _ (by omega) hk, j,
        idxSeq_mem _ _ _ hq.2.2.1 hq.2.2.2.1, rfl⟩, ?_⟩
      refine List.mem_flatMap.2 ⟨i', List.mem_range.2 (by omega), ?_⟩
      rw [if_pos hq.2.1]; simp
    · refine ⟨_, ⟨k, idxSeq_mem _ _ _ (by omega) hq.2.2.2.2, j,
        idxSeq_mem _ _ _ hq.2.2.1 hq.2.2.2.1, rfl⟩, ?_⟩
      refine List.mem_flatMap.2 ⟨i', List.mem_range.2 (by omega), ?_⟩
      rw [if_pos hq.2.1]; simp


theorem sweep2_cover (nx ny nz : ℕ) (hx : 2 ≤ nx) (_hy : 2 ≤ ny) (hz : 2 ≤ nz) (back : Bool)
    (q : Edge) (hq : Interior nx ny nz q) :
    ∃ B ∈ sweepBlocks 2 nx ny nz back, q ∈ B := by
  obtain ⟨c, i, j, k⟩ := q
  simp only [sweepBlocks, List.mem_flatMap, List.mem_map]
  cases c <;> simp only [Interior] at hq
  · obtain ⟨j', rfl⟩ : ∃ j', j = j' + 1 := ⟨j - 1, by omega⟩
    by_cases hi : i + 1 < nx
    · refine ⟨_, ⟨k, idxSeq_mem _ _ _ hq.2.2.2.1 hq.2.2.2.2, i + 1,
        idxSeq_mem _ _ _ (by omega) hi, rfl⟩, ?_⟩
      refine List.mem_flatMap.2 ⟨j', List.mem_range.2 (by omega), ?_⟩
      rw [if_pos hq.2.2.1]; simp
    · refine ⟨_, ⟨k, idxSeq_mem _ _ _ hq.2.2.2.1 hq.2.2.2.2, i,
        idxSeq_mem _ _ _ (by omega) hq.1, rfl⟩, ?_⟩
      refine List.mem_flatMap.2 ⟨j', List.mem_range.2 (by omega), ?_⟩
      rw [if_pos hq.2.2.1]; simp
  · refine ⟨_, ⟨k, idxSeq_mem _ _ _ hq.2.2.2.1 hq.2.2.2.2, i, idxSeq_mem _ _ _ hq.1 hq.2.1,
      rfl⟩, ?_⟩
    exact List.mem_flatMap.2 ⟨j, List.mem_range.2 hq.2.2.1, List.mem_cons_self⟩
  · obtain ⟨j', rfl⟩ : ∃ j', j = j' + 1 := ⟨j - 1, by omega⟩
    by_cases hk : k + 1 < nz
    · refine ⟨_, ⟨k + 1, idxSeq_mem _ _ _ (by omega) hk, i,
        idxSeq_mem _ _ _ hq.1 hq.2.1, rfl⟩, ?_⟩
      refine List.mem_flatMap.2 ⟨j', List.mem_range.2 (by omega), ?_⟩
      rw [if_pos hq.2.2.2.1]; simp
    · refine ⟨_, ⟨k, idxSeq_mem _ _ _ (by omega) hq.2.2.2.2, i,
        idxSeq_mem _ _ _ hq.1 hq.2.1, rfl⟩, ?_⟩
      refine List.mem_flatMap.2 ⟨j', List.mem_range.2 (by omega), ?_⟩
      rw [if_pos hq.2.2.2.1]; simp

theorem sweep3_cover (nx ny nz : ℕ) (hx : 2 ≤ nx) (hy : 2 ≤ ny) (_hz : 2 ≤ nz) (back : Bool)
    (q : Edge) (hq : Interior nx ny nz q) :
    ∃ B ∈ sweepBlocks 3 nx ny nz back, q ∈ B := by
  obtain ⟨c, i, j, k⟩ := q
  simp only [sweepBlocks, List.mem_flatMap, List.mem_map]
  cases c <;> simp only [Interior] at hq
  · obtain ⟨k', rfl⟩ : ∃ k', k = k' + 1 := ⟨k - 1, by omega⟩
    by_cases hi : i + 1 < nx
    · refine ⟨_, ⟨j, idxSeq_mem _ _ _ hq.2.1 hq.2.2.1, i + 1,
        idxSeq_mem _ _ _ (by omega) hi, rfl⟩, ?_⟩
      refine List.mem_flatMap.2 ⟨k', List.mem_range.2 (by omega), ?_⟩
      rw [if_pos hq.2.2.2.2]; simp
    · refine ⟨_, ⟨j, idxSeq_mem _ _ _ hq.2.1 hq.2.2.1, i,
        idxSeq_mem _ _ _ (by omega) hq.1, rfl⟩, ?_⟩
      refine List.mem_flatMap.2 ⟨k', List.mem_range.2 (by omega), ?_⟩
      rw [if_pos hq.2.2.2.2]; simp
  · obtain ⟨k', rfl⟩ : ∃ k', k = k' + 1 := ⟨k - 1, by omega⟩
    by_cases hj : j + 1 < ny
    · refine ⟨_, ⟨j + 1, idxSeq_mem _ _ _ (by omega) hj, i,
        idxSeq_mem _ _ _ hq.1 hq.2.1, rfl⟩, ?_⟩
      refine List.mem_flatMap.2 ⟨k', List.mem_range.2 (by omega), ?_⟩
      rw [if_pos hq.2.2.2.2]; simp
    · refine ⟨_, ⟨j, idxSeq_mem _ _ _ (by omega) hq.2.2.1, i,
        idxSeq_mem _ _ _ hq.1 hq.2.1, rfl⟩, ?_⟩
      refine List.mem_flatMap.2 ⟨k', List.mem_range.2 (by omega), ?_⟩
      rw [if_pos hq.2.2.2.2]; simp
  · refine ⟨_, ⟨j, idxSeq_mem _ _ _ hq.2.2.1 hq.2.2.2.1, i, idxSeq_mem _ _ _ hq.1 hq.2.1,
      rfl⟩, ?_⟩
    exact List.mem_flatMap.2 ⟨k, List.mem_range.2 hq.2.2.2.2, List.mem_cons_self⟩

/-- one sweep of any of the four kernels covers the interior -/
theorem kernelBlocks_cover (kernel nx ny nz nu : ℕ) (hk : kernel ≤ 3) (hnu : 1 ≤ nu)
    (hx : 2 ≤ nx) (hy : 2 ≤ ny) (hz : 2 ≤ nz) (q : Edge) (hq : Interior nx ny nz q) :
    ∃ B ∈ kernelBlocks kernel nx ny nz nu, q ∈ B := by
  have hsw : ∃ B ∈ sweepBlocks kernel nx ny nz ((0+1) % 2 == 1), q ∈ B := by
    interval_cases kernel
    · exact sweep0_cover nx ny nz hx hy hz _ q hq
    · exact sweep1_cover nx ny nz hx hy hz _ q hq
    · exact sweep2_cover nx ny nz hx hy hz _ q hq
    · exact sweep3_cover nx ny nz hx hy hz _ q hq
  obtain ⟨B, hB, hqB⟩ := hsw
  exact ⟨B, List.mem_flatMap.2 ⟨0, List.mem_range.2 (by omega), hB⟩, hqB⟩

/-- **Laplace domain, strictly dissipative model, at least two cells per direction: a call of
any smoothing kernel with at least one sweep, all of whose block systems were solved, strictly
reduces the energy norm of every non-zero error.** -/
theorem kernel_energy_lt {g : Grid K} {m : VM K} (h : PhysRS g m) (s e estar : EF K)
    (kernel nu : ℕ) (hk : kernel ≤ 3) (hnu : 1 ≤ nu)
    (hx : 2 ≤ g.nx) (hy : 2 ≤ g.ny) (hz : 2 ≤ g.nz) (he : PEC g e) (hs : PEC g estar)
    (hsol : ∀ q, Interior g.nx g.ny g.nz q → amatAt g m estar q = s.get q)
    (hok : (runKernel g m s kernel nu (e, true)).2 = true)
    (hne : ∃ q, Interior g.nx g.ny g.nz q ∧ e.get q ≠ estar.get q) :
    energy g m ((runKernel g m s kernel nu (e, true)).1.sub estar) < energy g m (e.sub estar) := by
  unfold runKernel at hok ⊢
  exact relaxAll_energy_lt g m h s estar hs hsol _ (kernelBlocks_interior _ _ _ _ _)
    (kernelBlocks_cover kernel g.nx g.ny g.nz nu hk hnu hx hy hz) (e, true) he hok hne

/-- … and so does `solver.smoothing` for every line-relaxation code `≤ 7` -/
theorem smoothing_energy_lt {g : Grid K} {m : VM K} (h : PhysRS g m) (s e estar : EF K)
    (nu lrDir : ℕ) (hlr : lrDir ≤ 7) (hnu : 1 ≤ nu)
    (hx : 2 ≤ g.nx) (hy : 2 ≤ g.ny) (hz : 2 ≤ g.nz) (he : PEC g e) (hs : PEC g estar)
    (hsol : ∀ q, Interior g.nx g.ny g.nz q → amatAt g m estar q = s.get q)
    (hok : (smoothing g m s e nu lrDir).2 = true)
    (hne : ∃ q, Interior g.nx g.ny g.nz q ∧ e.get q ≠ estar.get q) :
    energy g m ((smoothing g m s e nu lrDir).1.sub estar) < energy g m (e.sub estar) := by
  unfold smoothing at hok ⊢
  refine relaxAll_energy_lt g m h s estar hs hsol _ (smoothingBlocks_interior _ _ _ _ _) ?_
    (e, true) he hok hne
  intro q hq
  -- the first kernel `smoothing` calls already covers the interior
  have hne' : kernelsOf (currentLrDir lrDir (g.nx, g.ny, g.nz)) ≠ [] := by
    have e : currentLrDir lrDir (g.nx, g.ny, g.nz)
        = lrAdapt lrDir (g.nx == 2) (g.ny == 2) (g.nz == 2) := rfl
    rw [e]
    generalize (g.nx == 2) = b1
    generalize (g.ny == 2) = b2
    generalize (g.nz == 2) = b3
    interval_cases lrDir <;> cases b1 <;> cases b2 <;> cases b3 <;> decide
  obtain ⟨kernel, hkm⟩ := List.exists_mem_of_ne_nil _ hne'
  have hk3 : kernel ≤ 3 := by
    simp only [kernelsOf, List.mem_append] at hkm
    rcases hkm with ((hkm | hkm) | hkm) | hkm <;> split at hkm <;> simp_all
  obtain ⟨B, hB, hqB⟩ := kernelBlocks_cover kernel g.nx g.ny g.nz nu hk3 hnu hx hy hz q hq
  exact ⟨B, List.mem_flatMap.2 ⟨kernel, hkm, hB⟩, hqB⟩

/-! ## every level of the hierarchy -/

/-- the strictly dissipative class is closed under the coarsening of `solver.restriction` -/
theorem PhysRS.coarse {g : Grid K} {m : VM K} (h : PhysRS g m) (csc : ℕ) :
    PhysRS (coarseGrid csc g) (coarseVM csc g m) := by
  have hv : coarseVM csc g m =
      { etaX := restrictParam csc g m.etaX, etaY := restrictParam csc g m.etaY
        etaZ := restrictParam csc g m.etaZ, zeta := restrictParam csc g m.zeta } := by
    unfold coarseVM; rw [matVM_eq]
  rw [hv]
  refine ⟨?_, ?_, ?_, ?_⟩
  · exact restrictParam_closed_allK (fun z => 0 ≤ z) (fun x y hx hy => add_nonneg hx hy) csc g _ h.zeta
  · exact restrictParam_closedK (fun z => z < 0) (fun x y hx hy => add_neg hx hy) csc g _ h.etaX
  · exact restrictParam_closedK (fun z => z < 0) (fun x y hx hy => add_neg hx hy) csc g _ h.etaY
  · exact restrictParam_closedK (fun z => z < 0) (fun x y hx hy => add_neg hx hy) csc g _ h.etaZ

theorem PhysRS.reach {g0 : Grid K} {m0 : VM K} (h : PhysRS g0 m0) {g : Grid K} {m : VM K}
    (hr : Reach g0 m0 g m) : PhysRS g m := by
  induction hr with
  | base => exact h
  | step csc _ ih => exact ih.coarse csc

/-- **on every level the recursion can reach, a smoothing call of the cycle** (already adapted
code `clr` with at least one kernel, at least one sweep, solved blocks, at least two cells per
direction) **strictly reduces the energy norm of that level's non-zero error** -/
theorem smoothingC_energy_lt_reach {g0 : Grid K} {m0 : VM K} (h : PhysRS g0 m0)
    {g : Grid K} {m : VM K} (hr : Reach g0 m0 g m) (s e estar : EF K) (nu clr : ℕ)
    (hk : ∃ kernel ∈ kernelsOf clr, kernel ≤ 3) (hnu : 1 ≤ nu)
    (hx : 2 ≤ g.nx) (hy : 2 ≤ g.ny) (hz : 2 ≤ g.nz) (he : PEC g e) (hs : PEC g estar)
    (hsol : ∀ q, Interior g.nx g.ny g.nz q → amatAt g m estar q = s.get q)
    (hok : (smoothingC g m s e nu clr).2 = true)
    (hne : ∃ q, Interior g.nx g.ny g.nz q ∧ e.get q ≠ estar.get q) :
    energy g m ((smoothingC g m s e nu clr).1.sub estar) < energy g m (e.sub estar) := by
  unfold smoothingC at hok ⊢
  refine relaxAll_energy_lt g m (h.reach hr) s estar hs hsol _ (fun B hB => ?_) ?_
    (e, true) he hok hne
  · simp only [List.mem_flatMap] at hB
    obtain ⟨kernel, _, hB⟩ := hB
    exact kernelBlocks_interior _ _ _ _ _ B hB
  · intro q hq
    obtain ⟨kernel, hkm, hk3⟩ := hk
    obtain ⟨B, hB, hqB⟩ := kernelBlocks_cover kernel g.nx g.ny g.nz nu hk3 hnu hx hy hz q hq
    exact ⟨B, List.mem_flatMap.2 ⟨kernel, hkm, hB⟩, hqB⟩

/-- non-vacuity: a strictly dissipative Laplace-domain model on a 2×2×2 grid over ℚ -/
example : PhysRS (K := ℚ) ⟨2, 2, 2, fun _ => 1, fun _ => 1, fun _ => 1⟩
    ⟨fun _ _ _ => -1, fun _ _ _ => -2, fun _ _ _ => -3, fun _ _ _ => 1⟩ := by
  constructor <;> intros <;> norm_num

end Emg
