import Emg3dVerif.Lemmas.Adjoint
import Emg3dVerif.Model.Gradient
import Emg3dVerif.Props.C08
import Mathlib.Algebra.Order.Field.Basic
import Mathlib.Tactic.Linarith
/-!
# C07 — the adjoint-state gradient is the derivative of the data misfit

* matrix level (over ℂ): expansion of the misfit, finite differences = `t·⟨g, v⟩ + t²·ρ`;
* glue (`Model/Gradient.lean`, any commutative ring / field): distribution of edge values to
  cells is the transpose of the cell → edge averaging, anisotropy collection is the transpose of
  the stacking used by `jvec`.
-/
open Matrix BigOperators

namespace Adj
variable {E C D : Type} [Fintype E] [Fintype C] [Fintype D] [DecidableEq E]

/-- the misfit `½ Σ wᵢ |dᵢ − obsᵢ|²` (weight 0 for missing data) -/
noncomputable def misfit (wt : D → ℝ) (obs d : D → ℂ) : ℝ :=
  (1/2) * ∑ i, wt i * Complex.normSq (d i - obs i)

/-- change of the misfit when the data change by `Δ` -/
theorem misfit_expansion (wt : D → ℝ) (obs d Δ : D → ℂ) :
    misfit wt obs (fun i => d i + Δ i) - misfit wt obs d =
      (∑ i, wt i * (star (d i - obs i) * Δ i).re) +
      (1/2) * ∑ i, wt i * Complex.normSq (Δ i) := by
  unfold misfit
  rw [← mul_sub, ← Finset.sum_sub_distrib, Finset.mul_sum, Finset.mul_sum, ← Finset.sum_add_distrib]
  apply Finset.sum_congr rfl
  intro i _
  have : d i + Δ i - obs i = (d i - obs i) + Δ i := by ring
  rw [this, Complex.normSq_add]
  have h2 : ((d i - obs i) * (starRingEnd ℂ) (Δ i)).re = (star (d i - obs i) * Δ i).re := by
    simp [Complex.mul_re]
    ring
  rw [h2]
  ring

/-- **the gradient is the derivative of the misfit.**  With `A_t = A + t·diag(c·G v)`, data
`d_t = P A_t⁻¹ s`, residual `r = d − obs`, the gradient `g = jtvec (−c) … (w ⊙ r)` (the adjoint
pipeline applied to the weighted residual) satisfies

`φ(σ + t v) − φ(σ) = t · ⟨g, v⟩ + t² · ρ(t)`

with `ρ` written out (regular at `t = 0`): central differences converge at second order. -/
theorem gradient_is_derivative {A B Ainv Binv : Matrix E E ℂ} (c : ℂ) (G : Matrix E C ℂ)
    (v : C → ℝ) (t : ℝ) (P : Matrix D E ℂ) (s : E → ℂ) (wt : D → ℝ) (obs : D → ℂ)
    (hs : Ainvᵀ = Ainv) (hA : Ainv * A = 1) (hB : B * Binv = 1)
    (hBA : B = A + (t : ℂ) • Matrix.diagonal (fun ed => c * (G *ᵥ (fun c => (v c : ℂ))) ed)) :
    let d := P *ᵥ (Ainv *ᵥ s)
    let dt := P *ᵥ (Binv *ᵥ s)
    let r := fun i => d i - obs i
    let J := jvec (-c) P Ainv (Ainv *ᵥ s) G v
    let R := P *ᵥ ((Ainv * Matrix.diagonal (fun ed => c * (G *ᵥ (fun c => (v c : ℂ))) ed) *
        Ainv * Matrix.diagonal (fun ed => c * (G *ᵥ (fun c => (v c : ℂ))) ed) * Binv) *ᵥ s)
    let g := jtvec (-c) P Ainv (Ainv *ᵥ s) G (fun i => (wt i : ℂ) * r i)
    misfit wt obs dt - misfit wt obs d =
      t * (∑ cc, g cc * v cc) +
      t * t * ((∑ i, wt i * (star (r i) * R i).re) +
        (1/2) * ∑ i, wt i * Complex.normSq (J i + (t : ℂ) * R i)) := by
  intro d dt r J R g
  have hd : dt = fun i => d i + ((t : ℂ) * J i + ((t : ℂ) * (t : ℂ)) * R i) := by
    have := jvec_is_derivative c G v (t : ℂ) P s hA hB hBA
    funext i
    have hi := congrFun this i
    simp only [Pi.sub_apply, Pi.add_apply, Pi.smul_apply, smul_eq_mul] at hi
    show dt i = d i + ((t : ℂ) * J i + ((t : ℂ) * (t : ℂ)) * R i)
    linear_combination hi
  rw [hd, misfit_expansion]
  have hadj := jtvec_adjoint (-c) P Ainv hs (Ainv *ᵥ s) G v (fun i => (wt i : ℂ) * r i)
  have h1 : ∀ i, wt i * (star (d i - obs i) * ((t : ℂ) * J i + (t : ℂ) * (t : ℂ) * R i)).re =
      t * (star ((wt i : ℂ) * r i) * J i).re + t * t * (wt i * (star (r i) * R i).re) := by
    intro i
    simp only [r, star_mul', Complex.star_def, Complex.conj_ofReal, Complex.mul_re,
      Complex.ofReal_re, Complex.ofReal_im, Complex.mul_im, Complex.conj_re, Complex.conj_im,
      Complex.sub_re, Complex.sub_im, Complex.add_re, Complex.add_im]
    ring
  have h2 : ∀ i, Complex.normSq ((t : ℂ) * J i + (t : ℂ) * (t : ℂ) * R i) =
      t * t * Complex.normSq (J i + (t : ℂ) * R i) := by
    intro i
    have : (t : ℂ) * J i + (t : ℂ) * (t : ℂ) * R i = (t : ℂ) * (J i + (t : ℂ) * R i) := by ring
    rw [this, Complex.normSq_mul, Complex.normSq_ofReal]
  simp only [h1, h2, Finset.sum_add_distrib, ← Finset.mul_sum]
  rw [← Complex.re_sum] at *
  rw [hadj]
  simp only [Finset.mul_sum]
  rw [mul_add, Finset.mul_sum, Finset.mul_sum, ← add_assoc]
  congr 1
  apply Finset.sum_congr rfl
  intro i _
  ring

end Adj

/-! ## glue -/
namespace Grad
variable {K : Type} [Field K]

def dot : List K → List K → K
  | a :: s, b :: t => a * b + dot s t
  | _, _ => 0

/-- **anisotropy cases**: collecting the raw x/y/z gradients (`gradient`) is the transpose of
the stacking of a model vector to x/y/z values (`jvec`); the number of components follows the
case -/
theorem collect_stack_adjoint (c : Case) (gx gy gz : K) (v : List K) (hv : v.length = c.ncomp) :
    dot (collect c gx gy gz) v =
      gx * (stack c v).1 + gy * (stack c v).2.1 + gz * (stack c v).2.2 ∧
    (collect c gx gy gz).length = c.ncomp := by
  cases c
  · match v, hv with
    | [a], _ => simp [collect, stack, dot, Case.ncomp]; ring
  · match v, hv with
    | [a, b], _ => simp [collect, stack, dot, Case.ncomp]; ring
  · match v, hv with
    | [a, b], _ => simp [collect, stack, dot, Case.ncomp]; ring
  · match v, hv with
    | [a, b, d], _ => simp [collect, stack, dot, Case.ncomp]; ring

theorem sumTo_add (n : Nat) (f g : Nat → K) :
    sumTo n (fun i => f i + g i) = sumTo n f + sumTo n g := by
  induction n with
  | zero => simp [sumTo]
  | succ n ih => simp only [sumTo, ih]; ring

theorem sumTo_mul_left (n : Nat) (f : Nat → K) (c : K) :
    sumTo n (fun i => c * f i) = c * sumTo n f := by
  induction n with
  | zero => simp [sumTo]
  | succ n ih => simp only [sumTo, ih]; ring

theorem sumTo_zero' (n : Nat) : sumTo n (fun _ => (0 : K)) = 0 := by
  induction n with
  | zero => rfl
  | succ n ih => simp [sumTo, ih]

theorem sumTo_comm (n m : Nat) (f : Nat → Nat → K) :
    sumTo n (fun i => sumTo m (fun j => f i j)) = sumTo m (fun j => sumTo n (fun i => f i j)) := by
  induction n with
  | zero => simp [sumTo, sumTo_zero']
  | succ n ih => simp only [sumTo, ih, sumTo_add]

theorem times_mul (m : Nat) (x y : K) : y * times m x = times m (y * x) := by
  induction m with
  | zero => simp [times]
  | succ m ih => simp only [times, mul_add, ih]

/-- cell → edge averaging that `interp_edges_to_vol_averages` transposes (x-component): edge
`(i, jn, kn)` gets `V/4 · v` from its (clamped) adjacent cells -/
def avgX (ny nz : Nat) (vol v : Nat → Nat → Nat → K) (i jn kn : Nat) : K :=
  sumTo ny fun j => sumTo nz fun k =>
    times (hits ny jn j * hits nz kn k) (vol i j k * v i j k / 4)

/-- **edges → cells is the transpose of cells → edges** (x-component; y and z alike): for every
cell vector `v` and edge field `ex`, `Σ_cells v · toVolX(ex) = Σ_edges ex · avgX(v)` -/
theorem toVolX_adjoint (ny nz : Nat) (vol v ex : Nat → Nat → Nat → K) (i : Nat) :
    sumTo ny (fun j => sumTo nz (fun k => v i j k * toVolX ny nz vol ex i j k)) =
    sumTo (ny + 1) (fun jn => sumTo (nz + 1) (fun kn => ex i jn kn * avgX ny nz vol v i jn kn)) := by
  unfold toVolX avgX
  simp only [← sumTo_mul_left, times_mul]
  -- bring the sums into the same order: j, k, jn, kn  →  jn, kn, j, k
  have e1 : ∀ j, sumTo nz (fun k => sumTo (ny + 1) fun jn => sumTo (nz + 1) fun kn =>
      times (hits ny jn j * hits nz kn k) (v i j k * (vol i j k * ex i jn kn / 4))) =
      sumTo (ny + 1) fun jn => sumTo nz fun k => sumTo (nz + 1) fun kn =>
      times (hits ny jn j * hits nz kn k) (v i j k * (vol i j k * ex i jn kn / 4)) :=
    fun j => sumTo_comm nz (ny + 1) _
  simp only [e1]
  rw [sumTo_comm ny (ny + 1)]
  congr 1
  funext jn
  have e2 : ∀ j, sumTo nz (fun k => sumTo (nz + 1) fun kn =>
      times (hits ny jn j * hits nz kn k) (v i j k * (vol i j k * ex i jn kn / 4))) =
      sumTo (nz + 1) fun kn => sumTo nz fun k =>
      times (hits ny jn j * hits nz kn k) (v i j k * (vol i j k * ex i jn kn / 4)) :=
    fun j => sumTo_comm nz (nz + 1) _
  simp only [e2]
  rw [sumTo_comm ny (nz + 1)]
  congr 1
  funext kn
  congr 1
  funext j
  congr 1
  funext k
  congr 1
  ring

theorem times_zero' (m : Nat) : times m (0 : K) = 0 := by
  induction m with
  | zero => rfl
  | succ m ih => simp [times, ih]

theorem times_mul_nat (a b : Nat) (x : K) : times (a * b) x = times a (times b x) := by
  induction a with
  | zero => simp [times]
  | succ a ih =>
    have : (a + 1) * b = a * b + b := by ring
    rw [this]
    have add : ∀ m n : Nat, times (m + n) x = times m x + times n x := by
      intro m n
      induction n with
      | zero => simp [times]
      | succ n ihn => rw [← Nat.add_assoc]; simp only [times, ihn]; ring
    rw [add, ih]
    simp [times]

theorem times_add_val (m : Nat) (x y : K) : times m (x + y) = times m x + times m y := by
  induction m with
  | zero => simp [times]
  | succ m ih => simp only [times, ih]; ring

theorem times_sumTo (m n : Nat) (f : Nat → K) :
    times m (sumTo n f) = sumTo n (fun i => times m (f i)) := by
  induction n with
  | zero => simp [sumTo, times_zero']
  | succ n ih => simp only [sumTo, times_add_val, ih]

/-- an interior node `0 < n < N` has exactly the two neighbours `n-1` and `n` -/
theorem hits_interior (N n c : Nat) (h0 : 0 < n) (h1 : n < N) :
    hits N n c = (if c = n - 1 then 1 else 0) + (if c = n then 1 else 0) := by
  unfold hits
  have : min (N - 1) n = n := by omega
  rw [this]
  congr 1 <;> (split <;> split <;> first | rfl | omega)

theorem sumTo_ite_eq (N a : Nat) (g : Nat → K) (ha : a < N) :
    sumTo N (fun c => if c = a then g c else 0) = g a := by
  induction N with
  | zero => omega
  | succ N ih =>
    simp only [sumTo]
    by_cases h : a = N
    · subst h
      have : sumTo a (fun c => if c = a then g c else 0) = 0 := by
        have : ∀ M, M ≤ a → sumTo M (fun c => if c = a then g c else (0:K)) = 0 := by
          intro M hM
          induction M with
          | zero => rfl
          | succ M ihM =>
            simp only [sumTo]
            rw [ihM (by omega)]
            have : M ≠ a := by omega
            simp [this]
        exact this a (le_refl _)
      rw [this]; simp
    · rw [ih (by omega)]
      have : N ≠ a := fun e => h e.symm
      simp [this]

/-- one-dimensional gather over an interior node: the two adjacent cells -/
theorem sumTo_hits (N n : Nat) (g : Nat → K) (h0 : 0 < n) (h1 : n < N) :
    sumTo N (fun c => times (hits N n c) (g c)) = g (n - 1) + g n := by
  have e : ∀ c, times (hits N n c) (g c) =
      (if c = n - 1 then g c else 0) + (if c = n then g c else 0) := by
    intro c
    rw [hits_interior N n c h0 h1]
    by_cases a : c = n - 1
    · have b : n - 1 ≠ n := by omega
      subst a
      simp [b, times]
    · by_cases b : c = n
      · subst b
        have a' : ¬ c = c - 1 := a
        simp [a', times]
      · simp [a, b, times]
  simp only [e, sumTo_add]
  rw [sumTo_ite_eq N (n-1) g (by omega), sumTo_ite_eq N n g h1]

/-- **link to the operator of C02**: for an interior x-edge the transpose of the edges → cells
distribution is the four-cell average `¼ Σ V·v` over the cells sharing the edge — the pattern
with which `σ` enters the system matrix (`M_edge(η)`, C02) -/
theorem avgX_interior (ny nz : Nat) (vol v : Nat → Nat → Nat → K) (i jn kn : Nat)
    (hj0 : 0 < jn) (hj1 : jn < ny) (hk0 : 0 < kn) (hk1 : kn < nz) :
    avgX ny nz vol v i jn kn =
      vol i (jn-1) (kn-1) * v i (jn-1) (kn-1) / 4 + vol i (jn-1) kn * v i (jn-1) kn / 4 +
      (vol i jn (kn-1) * v i jn (kn-1) / 4 + vol i jn kn * v i jn kn / 4) := by
  unfold avgX
  have inner : ∀ j, sumTo nz (fun k => times (hits ny jn j * hits nz kn k)
      (vol i j k * v i j k / 4)) =
      times (hits ny jn j) (vol i j (kn-1) * v i j (kn-1) / 4 + vol i j kn * v i j kn / 4) := by
    intro j
    simp only [times_mul_nat]
    rw [← times_sumTo, sumTo_hits nz kn _ hk0 hk1]
  simp only [inner]
  rw [sumTo_hits ny jn _ hj0 hj1]


end Grad
