import Emg3dVerif.Model.Layered
import Mathlib.Algebra.Order.Field.Basic
import Mathlib.Tactic.Ring
import Mathlib.Tactic.Linarith
import Mathlib.Tactic.Positivity
import Mathlib.Analysis.SpecialFunctions.Pow.Real
import Mathlib.Analysis.SpecialFunctions.Log.Base
/-!
# C19 — layered mode agrees with the 1-D reference modeller

Theorems about the model `Lay` of `Model.extract_1d`, the slot routing of
`_multiprocessing.layered` and `_fd_gradient`.
-/
set_option linter.unusedSectionVars false
namespace Lay

section field
variable {K : Type} [Field K] [LinearOrder K] [IsStrictOrderedRing K]

theorem sumTo_add (n : Nat) (f g : Nat → K) :
    sumTo n (fun i => f i + g i) = sumTo n f + sumTo n g := by
  induction n with
  | zero => simp [sumTo]
  | succ n ih => simp only [sumTo, ih]; ring

theorem sumTo_mul_right (n : Nat) (f : Nat → K) (c : K) :
    sumTo n (fun i => f i * c) = sumTo n f * c := by
  induction n with
  | zero => simp [sumTo]
  | succ n ih => simp only [sumTo, ih]; ring

theorem sumTo_div (n : Nat) (f : Nat → K) (c : K) :
    sumTo n (fun i => f i / c) = sumTo n f / c := by
  simp only [div_eq_mul_inv]; exact sumTo_mul_right n f c⁻¹

theorem sumTo_nonneg (n : Nat) (f : Nat → K) (h : ∀ i, 0 ≤ f i) : 0 ≤ sumTo n f := by
  induction n with
  | zero => simp [sumTo]
  | succ n ih => simp only [sumTo]; linarith [h n]

theorem sumTo_congr (n : Nat) (f g : Nat → K) (h : ∀ i, i < n → f i = g i) :
    sumTo n f = sumTo n g := by
  induction n with
  | zero => rfl
  | succ n ih =>
    simp only [sumTo]
    rw [ih (fun i hi => h i (by omega)), h n (by omega)]

theorem total_mul_right (nx ny : Nat) (f : Nat → Nat → K) (c : K) :
    total nx ny (fun i j => f i j * c) = total nx ny f * c := by
  unfold total
  simp only [sumTo_mul_right]

theorem total_div (nx ny : Nat) (f : Nat → Nat → K) (c : K) :
    total nx ny (fun i j => f i j / c) = total nx ny f / c := by
  unfold total
  simp only [sumTo_div]

theorem pp_nonneg (hx hy : Nat → K) (rect use : Nat → Nat → Bool) (cyl : Bool)
    (h1 : ∀ i, 0 ≤ hx i) (h2 : ∀ j, 0 ≤ hy j) (i j : Nat) : 0 ≤ pp hx hy rect use cyl i j := by
  unfold pp
  split
  · exact mul_nonneg (h1 i) (h2 j)
  · exact le_refl _

/-- **extraction weights are non-negative** -/
theorem imat_nonneg (nx ny : Nat) (hx hy : Nat → K) (rect use : Nat → Nat → Bool) (cyl : Bool)
    (h1 : ∀ i, 0 ≤ hx i) (h2 : ∀ j, 0 ≤ hy j) (i j : Nat) :
    0 ≤ imat nx ny hx hy rect use cyl i j := by
  unfold imat
  apply div_nonneg (pp_nonneg hx hy rect use cyl h1 h2 i j)
  unfold total
  exact sumTo_nonneg _ _ (fun i => sumTo_nonneg _ _ (fun j => pp_nonneg hx hy rect use cyl h1 h2 i j))

/-- **extraction weights sum to one** (whenever the selection is not empty) -/
theorem imat_sum_one (nx ny : Nat) (hx hy : Nat → K) (rect use : Nat → Nat → Bool) (cyl : Bool)
    (ht : total nx ny (pp hx hy rect use cyl) ≠ 0) :
    total nx ny (imat nx ny hx hy rect use cyl) = 1 := by
  unfold imat
  rw [total_div]
  exact div_self ht

theorem sumTo_single (n : Nat) (j0 : Nat) (c : K) (h : j0 < n) :
    sumTo n (fun j => if j = j0 then c else 0) = c := by
  induction n with
  | zero => omega
  | succ n ih =>
    simp only [sumTo]
    by_cases hj : j0 = n
    · subst hj
      have : sumTo j0 (fun j => if j = j0 then c else 0) = 0 := by
        rw [sumTo_congr j0 _ (fun _ => (0:K)) (fun i hi => by simp; omega)]
        clear ih h
        induction j0 with
        | zero => rfl
        | succ m ihm => simp [sumTo, ihm]
      rw [this]; simp
    · rw [ih (by omega)]
      have : (if n = j0 then c else 0) = 0 := by simp; omega
      rw [this]; ring

/-- the midpoint weights sum to one as well -/
theorem midMat_sum_one (nx ny i0 j0 : Nat) (hi : i0 < nx) (hj : j0 < ny) :
    total nx ny (midMat (K := K) i0 j0) = 1 := by
  unfold total midMat
  have inner : ∀ i, sumTo ny (fun j => if i = i0 ∧ j = j0 then (1:K) else 0) =
      if i = i0 then 1 else 0 := by
    intro i
    by_cases h : i = i0
    · simp only [h, true_and, if_true]
      exact sumTo_single ny j0 1 hj
    · simp only [h, false_and, if_false]
      clear hj
      induction ny with
      | zero => rfl
      | succ m ihm => simp [sumTo, ihm]
  simp only [inner]
  exact sumTo_single nx i0 1 hi

/-- **a laterally invariant layer is reproduced** by every extraction method: any weights that
sum to one return the layer value -/
theorem avg_const (nx ny : Nat) (w : Nat → Nat → K) (c : K) (hw : total nx ny w = 1) :
    avg nx ny w (fun _ _ => c) = c := by
  unfold avg
  rw [total_mul_right, hw, one_mul]

/-- **the layered gradient, summed over a layer, is the gradient of that layer** -/
theorem spread_layer_sum (nx ny : Nat) (w : Nat → Nat → K) (grad : Nat → K) (k : Nat)
    (hw : total nx ny w = 1) : total nx ny (fun i j => spread w grad i j k) = grad k := by
  unfold spread
  rw [total_mul_right, hw, one_mul]

/-- … and that gradient is the difference quotient of the misfit under a uniform relative
perturbation of the layer -/
theorem fdGrad_quotient (cond : Nat → K) (rel : K) (misfitOf : (Nat → K) → K) (iz : Nat) :
    fdGrad cond rel misfitOf (misfitOf cond) iz =
      (misfitOf (fun k => if k = iz then cond k * (1 + rel) else cond k) - misfitOf cond)
        / (cond iz * rel) := by
  unfold fdGrad
  have : (fun k => if k = iz then cond k + cond iz * rel else cond k) =
      (fun k => if k = iz then cond k * (1 + rel) else cond k) := by
    funext k
    by_cases h : k = iz
    · simp only [h, if_true]; ring
    · simp only [h, if_false]
  simp only [this]

end field

/-! ## log-scale averaging (mappings that are not logarithmic) -/

/-- for the linear mappings the layer value is `10^(Σ w·log₁₀ v)`: again the layer value itself
for a laterally invariant (positive) layer -/
theorem logavg_const (nx ny : Nat) (w : Nat → Nat → ℝ) (c : ℝ) (hc : 0 < c)
    (hw : total nx ny w = 1) :
    (10:ℝ) ^ (avg nx ny w (fun _ _ => Real.logb 10 c)) = c := by
  rw [avg_const nx ny w _ hw]
  exact Real.rpow_logb (by norm_num) (by norm_num) hc

/-! ## merge -/
section merge
variable {K : Type} [DecidableEq K] [OfNat K 0]

/-- **merging keeps the layering**: every layer has, in every property, the value of the first
layer of its run of equal layers … -/
theorem merge_value (props : List (Nat → K)) (p : Nat → K) (hp : p ∈ props) :
    ∀ k, p k = p (startOf props k)
  | 0 => rfl
  | k+1 => by
    simp only [startOf]
    split
    · rfl
    · rename_i h
      have hk : p k = p (k+1) := by
        have : ¬ (differs props k = true) := h
        unfold differs at this
        simp only [List.any_eq_true, not_exists, not_and] at this
        have := this p hp
        simpa using this
      rw [← hk]
      exact merge_value props p hp k

/-- … and that first layer is one of the layers kept by the merge -/
theorem startOf_mem (props : List (Nat → K)) (nz : Nat) :
    ∀ k, k < nz → startOf props k ∈ mergeIdx props nz
  | 0, _ => by simp [startOf, mergeIdx]
  | k+1, h => by
    simp only [startOf]
    split
    · rename_i hd
      unfold mergeIdx
      simp only [List.mem_cons, List.mem_map, List.mem_filter, List.mem_range]
      right
      exact ⟨k, ⟨by omega, hd⟩, rfl⟩
    · exact startOf_mem props nz k (by omega)

theorem startOf_le (props : List (Nat → K)) : ∀ k, startOf props k ≤ k
  | 0 => le_refl _
  | k+1 => by
    simp only [startOf]
    split
    · exact le_refl _
    · exact Nat.le_succ_of_le (startOf_le props k)

/-- a kept index other than the first really is a change: no two merged layers are equal in all
properties -/
theorem mergeIdx_changes (props : List (Nat → K)) (nz m : Nat) (hm : m + 1 ∈ mergeIdx props nz) :
    ∃ p ∈ props, p m ≠ p (m+1) := by
  unfold mergeIdx at hm
  simp only [List.mem_cons, Nat.add_eq_zero_iff, Nat.succ_ne_zero, and_false, false_or,
    List.mem_map, List.mem_filter, List.mem_range] at hm
  obtain ⟨k, ⟨_, hd⟩, hk⟩ := hm
  have : k = m := by omega
  subst this
  unfold differs at hd
  simp only [List.any_eq_true] at hd
  obtain ⟨p, hp, h⟩ := hd
  exact ⟨p, hp, by simpa using h⟩

end merge

/-! ## slots -/

theorem rank_lt {nf : Nat} (fin : Nat → Nat → Bool) (r f : Nat) (hf : f < nf) (h : fin r f = true) :
    rank fin r f < (usedFreqs nf fin r).length := by
  unfold rank usedFreqs
  have e : List.range nf = List.range f ++ (f :: (List.range' (f+1) (nf - f - 1))) := by
    rw [List.range_eq_range', List.range_eq_range']
    have : nf = f + (1 + (nf - f - 1)) := by omega
    conv_lhs => rw [this]
    rw [← List.range'_append_1, Nat.zero_add]
    congr 1
    rw [Nat.add_comm 1, List.range'_succ]
  rw [e, List.filter_append, List.length_append, List.filter_cons]
  simp [h]

/-- **a slot is written exactly for the finite observed data** (all slots if there are none),
provided the reference modeller returns one value per requested frequency -/
theorem slots_written_iff_finite {R : Type} (nf : Nat) (fin : Nat → Nat → Bool)
    (resp : Nat → List Nat → List R) (hlen : ∀ r fs, (resp r fs).length = fs.length)
    (r f : Nat) (hf : f < nf) :
    (responses nf fin resp r f).isSome = fin r f := by
  unfold responses
  by_cases h : fin r f = true
  · simp only [h, if_true]
    have := rank_lt fin r f hf h
    rw [← hlen r] at this
    simp [List.getElem?_eq_getElem this]
  · have h' : fin r f = false := by simpa using h
    simp [h']

/-- the frequencies handed to the reference modeller are exactly the finite ones, in order -/
theorem usedFreqs_spec (nf : Nat) (fin : Nat → Nat → Bool) (r f : Nat) :
    f ∈ usedFreqs nf fin r ↔ f < nf ∧ fin r f = true := by
  unfold usedFreqs
  simp [List.mem_filter]

end Lay
