import Emg3dVerif.Props.C06
import Emg3dVerif.Props.CyclePEC
import Mathlib.Algebra.Order.Field.Basic
import Mathlib.Algebra.Order.BigOperators.Group.Finset
import Mathlib.Tactic.Linarith
import Mathlib.Tactic.Positivity
set_option linter.unusedSectionVars false
/-!
# Laplace domain: no smoother can increase the energy norm of the error (C06, part)

C06 asks for grid-independent convergence of the multigrid cycle.  The rate itself is a property
of floating-point numerics on families of problems and is measured (harness/c06.py); what *can*
be proved about the model, for every grid, model, start field and relaxation pattern, is the
part of the classical convergence argument that rests on the smoother:

in the Laplace domain (`s > 0`: all `η = −sμ₀(σ + sε)V ≤ 0` real, `ζ = V/μ_r ≥ 0`) the operator
is symmetric (C02, `amat_symmetric`) and positive semi-definite (`energy_nonneg`, from the
energy identity `edgeDot_fit`), and every block relaxation — point-wise or along a line, forward
or backward, solvable block or not — is an `A`-orthogonal projection of the error:

* `relaxBlock_energy`: `‖e − e*‖²_A = ‖e' − e*‖²_A + ‖e − e'‖²_A` when the block is solved,
* `smoothingC_energy_le`, `smoothing_energy_le`: hence **no call of `solver.smoothing`, with any
  line-relaxation code and any number of sweeps, increases the energy norm of the error**.

Stated over any linearly ordered field (ℚ: the driver's arithmetic; ℝ: the Laplace-domain
solver, which runs on real arrays).  The frequency domain is complex-symmetric and not
Hermitian; no such statement holds there (and none is claimed).

Tie to the code: the smoother model is tied to `emg3d.core.gauss_seidel*` by the exact
correspondence of C03; `harness/c06.py`, suite `energy`, observes the statement on the jitted
kernels (float64, Laplace domain).
-/
namespace Emg
open Finset MGH
variable {K : Type} [Field K] [LinearOrder K] [IsStrictOrderedRing K]

/-- Laplace-domain models: `ζ ≥ 0`, every `η` of the grid's cells `≤ 0` -/
structure PhysR (g : Grid K) (m : VM K) : Prop where
  zeta : ∀ i j k, 0 ≤ m.zeta i j k
  etaX : ∀ i j k, i < g.nx → j < g.ny → k < g.nz → m.etaX i j k ≤ 0
  etaY : ∀ i j k, i < g.nx → j < g.ny → k < g.nz → m.etaY i j k ≤ 0
  etaZ : ∀ i j k, i < g.nx → j < g.ny → k < g.nz → m.etaZ i j k ≤ 0

/-- the energy `⟨A u, u⟩` -/
def energy (g : Grid K) (m : VM K) (u : EF K) : K := edgeDot g (amat g m u) u

theorem S3_nonneg (n1 n2 n3 : ℕ) (f : ℕ → ℕ → ℕ → K)
    (hf : ∀ i j k, i < n1 → j < n2 → k < n3 → 0 ≤ f i j k) : 0 ≤ S3 n1 n2 n3 f := by
  unfold S3
  exact sum_nonneg fun i hi => sum_nonneg fun j hj => sum_nonneg fun k hk =>
    hf i j k (mem_range.1 hi) (mem_range.1 hj) (mem_range.1 hk)

theorem S3_nonpos (n1 n2 n3 : ℕ) (f : ℕ → ℕ → ℕ → K)
    (hf : ∀ i j k, i < n1 → j < n2 → k < n3 → f i j k ≤ 0) : S3 n1 n2 n3 f ≤ 0 := by
  unfold S3
  exact sum_nonpos fun i hi => sum_nonpos fun j hj => sum_nonpos fun k hk =>
    hf i j k (mem_range.1 hi) (mem_range.1 hj) (mem_range.1 hk)

theorem S3_zero (n1 n2 n3 : ℕ) (f : ℕ → ℕ → ℕ → K)
    (hf : ∀ i j k, i < n1 → j < n2 → k < n3 → f i j k = 0) : S3 n1 n2 n3 f = 0 := by
  unfold S3
  exact sum_eq_zero fun i hi => sum_eq_zero fun j hj => sum_eq_zero fun k hk =>
    hf i j k (mem_range.1 hi) (mem_range.1 hj) (mem_range.1 hk)

section
variable {g : Grid K} {m : VM K}

theorem energy_eq (u : EF K) (hu : PEC g u) :
    energy g m u = faceDot g (fluxX g m u) (fluxY g m u) (fluxZ g m u)
      (curlX g u) (curlY g u) (curlZ g u) - massDot g m u u := by
  unfold energy
  rw [edgeDot_amat_eq_fit g m u u hu, edgeDot_fit g m u u hu]

theorem massDot_nonpos (h : PhysR g m) (u : EF K) (hu : PEC g u) : massDot g m u u ≤ 0 := by
  have four : (0:K) < 4 := by norm_num
  unfold massDot
  refine add_nonpos (add_nonpos ?_ ?_) ?_ <;> refine S3_nonpos _ _ _ _ fun i j k hi hj hk => ?_
  · by_cases hin : 1 ≤ j ∧ j < g.ny ∧ 1 ≤ k ∧ k < g.nz
    · have h1 := h.etaX i (j-1) (k-1) hi (by omega) (by omega)
      have h2 := h.etaX i (j-1) k hi (by omega) hin.2.2.2
      have h3 := h.etaX i j (k-1) hi hin.2.1 (by omega)
      have h4 := h.etaX i j k hi hin.2.1 hin.2.2.2
      have hme : meX m i j k ≤ 0 := by
        unfold meX
        exact div_nonpos_of_nonpos_of_nonneg (by linarith) four.le
      rw [mul_assoc]
      exact mul_nonpos_of_nonpos_of_nonneg hme (mul_self_nonneg _)
    · have : u.x i j k = 0 := by
        by_cases hj0 : j = 0
        · subst hj0; exact hu.x_j0 i k
        by_cases hjn : j = g.ny
        · subst hjn; exact hu.x_jn i k
        by_cases hk0 : k = 0
        · subst hk0; exact hu.x_k0 i j
        have hkn : k = g.nz := by omega
        subst hkn; exact hu.x_kn i j
      rw [this]; simp
  · by_cases hin : 1 ≤ i ∧ i < g.nx ∧ 1 ≤ k ∧ k < g.nz
    · have h1 := h.etaY (i-1) j (k-1) (by omega) hj (by omega)
      have h2 := h.etaY i j (k-1) hin.2.1 hj (by omega)
      have h3 := h.etaY (i-1) j k (by omega) hj hin.2.2.2
      have h4 := h.etaY i j k hin.2.1 hj hin.2.2.2
      have hme : meY m i j k ≤ 0 := by
        unfold meY
        exact div_nonpos_of_nonpos_of_nonneg (by linarith) four.le
      rw [mul_assoc]
      exact mul_nonpos_of_nonpos_of_nonneg hme (mul_self_nonneg _)
    · have : u.y i j k = 0 := by
        by_cases hi0 : i = 0
        · subst hi0; exact hu.y_i0 j k
        by_cases hin' : i = g.nx
        · subst hin'; exact hu.y_in j k
        by_cases hk0 : k = 0
        · subst hk0; exact hu.y_k0 i j
        have hkn : k = g.nz := by omega
        subst hkn; exact hu.y_kn i j
      rw [this]; simp
  · by_cases hin : 1 ≤ i ∧ i < g.nx ∧ 1 ≤ j ∧ j < g.ny
    · have h1 := h.etaZ (i-1) (j-1) k (by omega) (by omega) hk
      have h2 := h.etaZ i (j-1) k hin.2.1 (by omega) hk
      have h3 := h.etaZ (i-1) j k (by omega) hin.2.2.2 hk
      have h4 := h.etaZ i j k hin.2.1 hin.2.2.2 hk
      have hme : meZ m i j k ≤ 0 := by
        unfold meZ
        exact div_nonpos_of_nonpos_of_nonneg (by linarith) four.le
      rw [mul_assoc]
      exact mul_nonpos_of_nonpos_of_nonneg hme (mul_self_nonneg _)
    · have : u.z i j k = 0 := by
        by_cases hi0 : i = 0
        · subst hi0; exact hu.z_i0 j k
        by_cases hin' : i = g.nx
        · subst hin'; exact hu.z_in j k
        by_cases hj0 : j = 0
        · subst hj0; exact hu.z_j0 i k
        have hjn : j = g.ny := by omega
        subst hjn; exact hu.z_jn i k
      rw [this]; simp

/-- **the operator is positive semi-definite on PEC fields** (Laplace domain) -/
theorem energy_nonneg (h : PhysR g m) (u : EF K) (hu : PEC g u) : 0 ≤ energy g m u := by
  rw [energy_eq u hu]
  have two : (0:K) < 2 := by norm_num
  have hface : 0 ≤ faceDot g (fluxX g m u) (fluxY g m u) (fluxZ g m u)
      (curlX g u) (curlY g u) (curlZ g u) := by
    unfold faceDot
    refine add_nonneg (add_nonneg ?_ ?_) ?_ <;> refine S3_nonneg _ _ _ _ fun i j k _ _ _ => ?_
    · unfold fluxX; rw [mul_assoc]
      exact mul_nonneg (by unfold mfX; exact div_nonneg (add_nonneg (h.zeta _ _ _) (h.zeta _ _ _)) two.le)
        (mul_self_nonneg _)
    · unfold fluxY; rw [mul_assoc]
      exact mul_nonneg (by unfold mfY; exact div_nonneg (add_nonneg (h.zeta _ _ _) (h.zeta _ _ _)) two.le)
        (mul_self_nonneg _)
    · unfold fluxZ; rw [mul_assoc]
      exact mul_nonneg (by unfold mfZ; exact div_nonneg (add_nonneg (h.zeta _ _ _) (h.zeta _ _ _)) two.le)
        (mul_self_nonneg _)
  linarith [massDot_nonpos h u hu]

/-! ## bilinearity -/

theorem edgeDot_add_left (a b c : EF K) : edgeDot g (a.add b) c = edgeDot g a c + edgeDot g b c := by
  simp only [edgeDot, EF.add, add_mul, S3_add]
  ring

theorem edgeDot_add_right (a b c : EF K) : edgeDot g c (a.add b) = edgeDot g c a + edgeDot g c b := by
  rw [edgeDot_comm, edgeDot_add_left, edgeDot_comm g a, edgeDot_comm g b]

theorem amat_add_ef (a b : EF K) : amat g m (a.add b) = (amat g m a).add (amat g m b) := by
  apply EF.ext_get
  intro d
  rw [EF.get_add]
  exact amatAt_add g m a b d

theorem PEC.add {a b : EF K} (ha : PEC g a) (hb : PEC g b) : PEC g (a.add b) := by
  constructor <;> intros <;> simp only [EF.add] <;>
    first
    | rw [ha.x_j0, hb.x_j0, add_zero] | rw [ha.x_jn, hb.x_jn, add_zero]
    | rw [ha.x_k0, hb.x_k0, add_zero] | rw [ha.x_kn, hb.x_kn, add_zero]
    | rw [ha.y_i0, hb.y_i0, add_zero] | rw [ha.y_in, hb.y_in, add_zero]
    | rw [ha.y_k0, hb.y_k0, add_zero] | rw [ha.y_kn, hb.y_kn, add_zero]
    | rw [ha.z_i0, hb.z_i0, add_zero] | rw [ha.z_in, hb.z_in, add_zero]
    | rw [ha.z_j0, hb.z_j0, add_zero] | rw [ha.z_jn, hb.z_jn, add_zero]

theorem PEC.smul {a : EF K} (c : K) (ha : PEC g a) : PEC g (EF.smul c a) := by
  constructor <;> intros <;> simp only [EF.smul] <;>
    first
    | rw [ha.x_j0, mul_zero] | rw [ha.x_jn, mul_zero] | rw [ha.x_k0, mul_zero]
    | rw [ha.x_kn, mul_zero] | rw [ha.y_i0, mul_zero] | rw [ha.y_in, mul_zero]
    | rw [ha.y_k0, mul_zero] | rw [ha.y_kn, mul_zero] | rw [ha.z_i0, mul_zero]
    | rw [ha.z_in, mul_zero] | rw [ha.z_j0, mul_zero] | rw [ha.z_jn, mul_zero]

theorem PEC.sub {a b : EF K} (ha : PEC g a) (hb : PEC g b) : PEC g (a.sub b) :=
  PEC.add ha (PEC.smul (-1) hb)

/-- Pythagoras in the energy form: `A`-orthogonal summands -/
theorem energy_add (u c : EF K) (hu : PEC g u) (hc : PEC g c)
    (horth : edgeDot g (amat g m u) c = 0) :
    energy g m (u.add c) = energy g m u + energy g m c := by
  unfold energy
  rw [amat_add_ef, edgeDot_add_left, edgeDot_add_right, edgeDot_add_right,
    amat_symmetric g m c u hc hu, edgeDot_comm g c (amat g m u), horth]
  ring

/-- the pairing of two fields vanishes when, on every edge, one of the two does -/
theorem edgeDot_zero_of_pointwise (a b : EF K) (h : ∀ q : Edge, a.get q * b.get q = 0) :
    edgeDot g a b = 0 := by
  unfold edgeDot
  rw [S3_zero _ _ _ (fun i j k => a.x i j k * b.x i j k) fun i j k _ _ _ => h ⟨.x, i, j, k⟩,
    S3_zero _ _ _ (fun i j k => a.y i j k * b.y i j k) fun i j k _ _ _ => h ⟨.y, i, j, k⟩,
    S3_zero _ _ _ (fun i j k => a.z i j k * b.z i j k) fun i j k _ _ _ => h ⟨.z, i, j, k⟩]
  ring

end

/-! ## one block, a list of blocks, `smoothing` -/
section
variable (g : Grid K) (m : VM K)

theorem relaxBlock_false (s e : EF K) (B : List Edge)
    (h : (relaxBlock g m s e B).2 = false) : (relaxBlock g m s e B).1 = e := by
  unfold relaxBlock at h ⊢
  revert h
  cases gaussSolve (blockMatrix g m B) (blockRhs g m s e B) with
  | none => intro _; rfl
  | some x =>
    intro h
    simp only at h ⊢
    by_cases hc : x.length = B.length ∧ blockSolved g m s (matEF g (e.setAll B x)) B = true
    · rw [if_pos hc] at h; simp at h
    · rw [if_neg hc]

/-- **a solved block relaxation is an `A`-orthogonal projection of the error**:
`‖e − e*‖²_A = ‖e' − e*‖²_A + ‖e − e'‖²_A` -/
theorem relaxBlock_energy (s e estar : EF K) (B : List Edge)
    (hB : ∀ q ∈ B, Interior g.nx g.ny g.nz q) (he : PEC g e) (hs : PEC g estar)
    (hsol : ∀ q, Interior g.nx g.ny g.nz q → amatAt g m estar q = s.get q)
    (hok : (relaxBlock g m s e B).2 = true) :
    energy g m (e.sub estar) = energy g m ((relaxBlock g m s e B).1.sub estar)
      + energy g m (e.sub (relaxBlock g m s e B).1) := by
  set e' := (relaxBlock g m s e B).1 with he'
  have hframe : ∀ q, q ∉ B → e'.get q = e.get q := fun q hq => relaxBlock_frame g m s e B q hq
  have hpe' : PEC g e' :=
    pec_of_frame g e e' (fun q hq => hframe q (fun hqB => hq (hB q hqB))) he
  have hsolve := relaxBlock_solves g m s e B hok
  have hdecomp : e.sub estar = (e'.sub estar).add (e.sub e') := by
    apply EF.ext_get
    intro q
    simp only [EF.get_add, EF.get_sub]
    ring
  rw [hdecomp]
  refine energy_add _ _ (PEC.sub hpe' hs) (PEC.sub he hpe') ?_
  refine edgeDot_zero_of_pointwise _ _ fun q => ?_
  by_cases hq : q ∈ B
  · have h1 : (amat g m (e'.sub estar)).get q = 0 := by
      have := amatAt_sub g m e' estar q
      unfold amatAt at this
      rw [this]
      have a1 := hsolve q hq
      have a2 := hsol q (hB q hq)
      unfold amatAt at a1 a2
      rw [a1, a2, sub_self]
    rw [h1, zero_mul]
  · rw [EF.get_sub, hframe q hq, sub_self, mul_zero]

/-- **one block relaxation never increases the energy norm of the error** (solved or not) -/
theorem relaxBlock_energy_le (h : PhysR g m) (s e estar : EF K) (B : List Edge)
    (hB : ∀ q ∈ B, Interior g.nx g.ny g.nz q) (he : PEC g e) (hs : PEC g estar)
    (hsol : ∀ q, Interior g.nx g.ny g.nz q → amatAt g m estar q = s.get q) :
    energy g m ((relaxBlock g m s e B).1.sub estar) ≤ energy g m (e.sub estar) ∧
      PEC g (relaxBlock g m s e B).1 := by
  have hpe' : PEC g (relaxBlock g m s e B).1 :=
    pec_of_frame g e _ (fun q hq => relaxBlock_frame g m s e B q (fun hqB => hq (hB q hqB))) he
  refine ⟨?_, hpe'⟩
  cases hok : (relaxBlock g m s e B).2 with
  | false => rw [relaxBlock_false g m s e B hok]
  | true =>
    rw [relaxBlock_energy g m s e estar B hB he hs hsol hok]
    have := energy_nonneg h (e.sub (relaxBlock g m s e B).1) (PEC.sub he hpe')
    linarith

theorem relaxAll_energy_le (h : PhysR g m) (s estar : EF K) (hs : PEC g estar)
    (hsol : ∀ q, Interior g.nx g.ny g.nz q → amatAt g m estar q = s.get q)
    (Bs : List (List Edge)) (hBs : ∀ B ∈ Bs, ∀ q ∈ B, Interior g.nx g.ny g.nz q) :
    ∀ st : EF K × Bool, PEC g st.1 →
      energy g m ((relaxAll g m s st Bs).1.sub estar) ≤ energy g m (st.1.sub estar) := by
  induction Bs with
  | nil => intro st _; exact le_refl _
  | cons B Bs ih =>
    intro st hst
    obtain ⟨e, ok⟩ := st
    simp only [relaxAll]
    have h1 := relaxBlock_energy_le g m h s e estar B (hBs B List.mem_cons_self) hst hs hsol
    exact le_trans (ih (fun C hC => hBs C (List.mem_cons_of_mem _ hC)) _ h1.2) h1.1

/-- **Laplace domain: no call of `solver.smoothing` increases the energy norm of the error** —
every (adapted) line-relaxation code, every number of sweeps, every grid, every model with
`ζ ≥ 0 ≥ η`, every source with exact solution `e*`, every PEC start field. -/
theorem smoothingC_energy_le (h : PhysR g m) (s e estar : EF K) (nu clr : ℕ)
    (he : PEC g e) (hs : PEC g estar)
    (hsol : ∀ q, Interior g.nx g.ny g.nz q → amatAt g m estar q = s.get q) :
    energy g m ((smoothingC g m s e nu clr).1.sub estar) ≤ energy g m (e.sub estar) := by
  unfold smoothingC
  refine relaxAll_energy_le g m h s estar hs hsol _ (fun B hB => ?_) (e, true) he
  simp only [List.mem_flatMap] at hB
  obtain ⟨kernel, _, hB⟩ := hB
  exact kernelBlocks_interior _ _ _ _ _ B hB

/-- … the same for `smoothing` with the user's code `lrDir` (adapted to the grid inside) -/
theorem smoothing_energy_le (h : PhysR g m) (s e estar : EF K) (nu lrDir : ℕ)
    (he : PEC g e) (hs : PEC g estar)
    (hsol : ∀ q, Interior g.nx g.ny g.nz q → amatAt g m estar q = s.get q) :
    energy g m ((smoothing g m s e nu lrDir).1.sub estar) ≤ energy g m (e.sub estar) := by
  unfold smoothing
  exact relaxAll_energy_le g m h s estar hs hsol _
    (smoothingBlocks_interior _ _ _ _ _) (e, true) he

/-- a single kernel call (`gauss_seidel`, `gauss_seidel_x/y/z`) -/
theorem kernel_energy_le (h : PhysR g m) (s e estar : EF K) (kernel nu : ℕ) (ok : Bool)
    (he : PEC g e) (hs : PEC g estar)
    (hsol : ∀ q, Interior g.nx g.ny g.nz q → amatAt g m estar q = s.get q) :
    energy g m ((runKernel g m s kernel nu (e, ok)).1.sub estar) ≤ energy g m (e.sub estar) := by
  unfold runKernel
  exact relaxAll_energy_le g m h s estar hs hsol _
    (kernelBlocks_interior _ _ _ _ _) (e, ok) he

end

/-! ## the whole hierarchy: the class of Laplace-domain models is closed under coarsening -/
section closure
variable {g : Grid K} {m : VM K}

theorem restrictParam_closedK (P : K → Prop) (hadd : ∀ x y, P x → P y → P (x + y)) (csc : ℕ)
    (g : Grid K) (f : F3 K) (hf : ∀ i j k, i < g.nx → j < g.ny → k < g.nz → P (f i j k))
    (I J L : ℕ) (hI : I < (coarseGrid csc g).nx) (hJ : J < (coarseGrid csc g).ny)
    (hL : L < (coarseGrid csc g).nz) : P (restrictParam csc g f I J L) := by
  simp only [restrictParam, R3]
  cases hx : coarsX csc <;> cases hy : coarsY csc <;> cases hz : coarsZ csc <;>
    simp only [coarseGrid, cN, hx, hy, hz, if_true, if_false, Bool.false_eq_true] at hI hJ hL <;>
    simp only [along, R1, if_true, if_false, Bool.false_eq_true] <;>
    (repeat' apply hadd) <;> apply hf <;> omega

theorem restrictParam_closed_allK (P : K → Prop) (hadd : ∀ x y, P x → P y → P (x + y)) (csc : ℕ)
    (g : Grid K) (f : F3 K) (hf : ∀ i j k, P (f i j k)) (I J L : ℕ) :
    P (restrictParam csc g f I J L) := by
  simp only [restrictParam, R3]
  cases hx : coarsX csc <;> cases hy : coarsY csc <;> cases hz : coarsZ csc <;>
    simp only [along, R1, if_true, if_false, Bool.false_eq_true] <;>
    (repeat' apply hadd) <;> apply hf

/-- the coarse model of `solver.restriction` (sums over the children) is again a Laplace-domain
model -/
theorem PhysR.coarse (h : PhysR g m) (csc : ℕ) : PhysR (coarseGrid csc g) (coarseVM csc g m) := by
  have hv : coarseVM csc g m =
      { etaX := restrictParam csc g m.etaX, etaY := restrictParam csc g m.etaY
        etaZ := restrictParam csc g m.etaZ, zeta := restrictParam csc g m.zeta } := by
    unfold coarseVM; rw [matVM_eq]
  rw [hv]
  refine ⟨?_, ?_, ?_, ?_⟩
  · exact restrictParam_closed_allK (fun z => 0 ≤ z) (fun x y hx hy => add_nonneg hx hy) csc g _ h.zeta
  · exact restrictParam_closedK (fun z => z ≤ 0) (fun x y hx hy => add_nonpos hx hy) csc g _ h.etaX
  · exact restrictParam_closedK (fun z => z ≤ 0) (fun x y hx hy => add_nonpos hx hy) csc g _ h.etaY
  · exact restrictParam_closedK (fun z => z ≤ 0) (fun x y hx hy => add_nonpos hx hy) csc g _ h.etaZ

theorem PhysR.reach {g0 : Grid K} {m0 : VM K} (h : PhysR g0 m0) {g : Grid K} {m : VM K}
    (hr : Reach g0 m0 g m) : PhysR g m := by
  induction hr with
  | base => exact h
  | step csc _ ih => exact ih.coarse csc

/-- **on every level the recursion can reach** — every semicoarsening pattern, every depth —
smoothing does not increase the energy norm of that level's error -/
theorem smoothingC_energy_le_reach {g0 : Grid K} {m0 : VM K} (h : PhysR g0 m0)
    {g : Grid K} {m : VM K} (hr : Reach g0 m0 g m) (s e estar : EF K) (nu clr : ℕ)
    (he : PEC g e) (hs : PEC g estar)
    (hsol : ∀ q, Interior g.nx g.ny g.nz q → amatAt g m estar q = s.get q) :
    energy g m ((smoothingC g m s e nu clr).1.sub estar) ≤ energy g m (e.sub estar) :=
  smoothingC_energy_le g m (h.reach hr) s e estar nu clr he hs hsol

end closure

/-! ## non-vacuity -/

/-- a Laplace-domain model on a 2×2×2 grid over ℚ -/
example : PhysR (K := ℚ) ⟨2, 2, 2, fun _ => 1, fun _ => 1, fun _ => 1⟩
    ⟨fun _ _ _ => -1, fun _ _ _ => -2, fun _ _ _ => -3, fun _ _ _ => 1⟩ := by
  constructor <;> intros <;> norm_num

end Emg
