import Emg3dVerif.Props.C01
import Emg3dVerif.Props.Cycle
set_option linter.unusedSectionVars false
/-!
# The complete multigrid call never writes a tangential boundary value (C01, clause PEC)

C01 states that the field a successful solve returns has zero tangential components on the
domain boundary.  `solve()` zeroes them once in a field supplied by the caller; this file
proves that nothing `multigrid` does afterwards can bring them back — for **every** event
list (every cycle type, semicoarsening / line-relaxation pattern, smoothing counts, number of
cycles), every grid, model, source and start field:

* `runTrace_frame` / `mgRun_frame`: the call returns the one level it was given — same grid,
  model and source — with a field that agrees with the start field on every edge outside the
  interior index range (tangential boundary edges and everything out of range);
* `mgRun_pec`: hence a PEC start field gives a PEC result;
* `runTrace_allPec`: every coarse-grid field created on the way is PEC on its own grid.

The statements need no hypothesis on the block systems: a singular block leaves the field
unchanged (flag `false`), which is also a frame.

Tie to the code: `harness/c03.py`, suite `cycle` (`solver.multigrid` against `Emg.mgRun` on all
edges, boundary included) and `harness/c01.py` (PEC of the returned field of real solves).
-/
namespace Emg
open MGH
variable {K : Type} [Field K] [DecidableEq K]

/-- a field that agrees with a PEC field outside the interior edges is PEC -/
theorem pec_of_frame (g : Grid K) (e e' : EF K)
    (h : ∀ q, ¬ Interior g.nx g.ny g.nz q → e'.get q = e.get q) (hp : PEC g e) : PEC g e' where
  x_j0 i k := (h ⟨.x, i, 0, k⟩ (by simp [Interior])).trans (hp.x_j0 i k)
  x_jn i k := (h ⟨.x, i, g.ny, k⟩ (by simp [Interior])).trans (hp.x_jn i k)
  x_k0 i j := (h ⟨.x, i, j, 0⟩ (by simp [Interior])).trans (hp.x_k0 i j)
  x_kn i j := (h ⟨.x, i, j, g.nz⟩ (by simp [Interior])).trans (hp.x_kn i j)
  y_i0 j k := (h ⟨.y, 0, j, k⟩ (by simp [Interior])).trans (hp.y_i0 j k)
  y_in j k := (h ⟨.y, g.nx, j, k⟩ (by simp [Interior])).trans (hp.y_in j k)
  y_k0 i j := (h ⟨.y, i, j, 0⟩ (by simp [Interior])).trans (hp.y_k0 i j)
  y_kn i j := (h ⟨.y, i, j, g.nz⟩ (by simp [Interior])).trans (hp.y_kn i j)
  z_i0 j k := (h ⟨.z, 0, j, k⟩ (by simp [Interior])).trans (hp.z_i0 j k)
  z_in j k := (h ⟨.z, g.nx, j, k⟩ (by simp [Interior])).trans (hp.z_in j k)
  z_j0 i k := (h ⟨.z, i, 0, k⟩ (by simp [Interior])).trans (hp.z_j0 i k)
  z_jn i k := (h ⟨.z, i, g.ny, k⟩ (by simp [Interior])).trans (hp.z_jn i k)

theorem pec_zero (g : Grid K) : PEC g (zeroEF : EF K) := by
  constructor <;> intros <;> rfl

/-- `solver.smoothing` (any adapted code, any number of sweeps, solvable blocks or not) writes
interior edges only -/
theorem smoothingC_frame (g : Grid K) (m : VM K) (s e : EF K) (nu clr : ℕ) (q : Edge)
    (hq : ¬ Interior g.nx g.ny g.nz q) : (smoothingC g m s e nu clr).1.get q = e.get q := by
  unfold smoothingC
  refine relaxAll_frame g m s q _ (fun B hB hqB => hq ?_) _
  simp only [List.mem_flatMap] at hB
  obtain ⟨kernel, _, hB⟩ := hB
  exact kernelBlocks_interior _ _ _ _ _ B hB q hqB

/-- `solver.prolongation` adds the interpolated correction to interior edges only -/
theorem prolong_frame (csc : ℕ) (g : Grid K) (e ce : EF K) (q : Edge)
    (hq : ¬ Interior g.nx g.ny g.nz q) : (prolong csc g e ce).get q = e.get q := by
  obtain ⟨c, i, j, k⟩ := q
  cases c <;> simp only [Interior] at hq <;> simp only [EF.get, prolong] <;> rw [if_neg] <;>
    intro h <;> exact hq (by omega)

/-! ## all levels are PEC -/

def AllPec (st : List (Lvl K) × Bool) : Prop := ∀ l ∈ st.1, PEC l.g l.e

theorem step_allPec (st : List (Lvl K) × Bool) (ev : Ev) (h : AllPec st) : AllPec (step st ev) := by
  obtain ⟨stack, ok⟩ := st
  cases ev with
  | enter a b c => cases stack <;> exact h
  | cycleEnd a b c => cases stack <;> exact h
  | smooth lev sh nu clr =>
    cases stack with
    | nil => exact h
    | cons l ls =>
      intro y hy
      simp only [step] at hy
      rcases List.mem_cons.mp hy with rfl | hy
      · exact pec_of_frame l.g l.e _ (smoothingC_frame l.g l.m l.s l.e nu clr)
          (h l List.mem_cons_self)
      · exact h y (List.mem_cons_of_mem _ hy)
  | restrict lev sh csc cs =>
    cases stack with
    | nil => exact h
    | cons l ls =>
      intro y hy
      simp only [step] at hy
      rcases List.mem_cons.mp hy with rfl | hy
      · exact pec_zero _
      · exact h y hy
  | prolong lev sh csc =>
    cases stack with
    | nil => exact h
    | cons c ls =>
      cases ls with
      | nil => exact h
      | cons l ls =>
        intro y hy
        simp only [step] at hy
        rcases List.mem_cons.mp hy with rfl | hy
        · refine pec_of_frame l.g l.e _ (fun q hq => ?_)
            (h l (List.mem_cons_of_mem _ List.mem_cons_self))
          simp only [matEF_eq]
          exact prolong_frame csc l.g l.e c.e q hq
        · exact h y (List.mem_cons_of_mem _ (List.mem_cons_of_mem _ hy))

/-- **Every level of every event list is PEC on its own grid**, coarse-grid fields included. -/
theorem runTrace_allPec (evs : List Ev) : ∀ st : List (Lvl K) × Bool, AllPec st →
    AllPec (runTrace st evs) := by
  induction evs with
  | nil => intro st h; exact h
  | cons ev evs ih =>
    intro st h
    simp only [runTrace, List.foldl_cons]
    exact ih _ (step_allPec st ev h)

/-! ## the fine level: same grid, model, source; frame on the field -/

/-- the bottom of the stack is the level the call was given, with a field that agrees with the
start field outside the interior -/
def BaseFrame (l0 : Lvl K) (st : List (Lvl K) × Bool) : Prop :=
  ∃ zs e', st.1 = zs ++ [{ l0 with e := e' }] ∧
    ∀ q, ¬ Interior l0.g.nx l0.g.ny l0.g.nz q → e'.get q = l0.e.get q

theorem step_baseFrame (l0 : Lvl K) (st : List (Lvl K) × Bool) (ev : Ev)
    (h : BaseFrame l0 st) : BaseFrame l0 (step st ev) := by
  obtain ⟨stack, ok⟩ := st
  obtain ⟨zs, e', hst, hf⟩ := h
  simp only at hst
  subst hst
  cases ev with
  | enter a b c =>
    cases zs with
    | nil => exact ⟨[], e', rfl, hf⟩
    | cons z zs => exact ⟨z :: zs, e', rfl, hf⟩
  | cycleEnd a b c =>
    cases zs with
    | nil => exact ⟨[], e', rfl, hf⟩
    | cons z zs => exact ⟨z :: zs, e', rfl, hf⟩
  | smooth lev sh nu clr =>
    cases zs with
    | nil =>
      refine ⟨[], (smoothingC l0.g l0.m l0.s e' nu clr).1, rfl, fun q hq => ?_⟩
      exact (smoothingC_frame l0.g l0.m l0.s e' nu clr q hq).trans (hf q hq)
    | cons z zs => exact ⟨_ :: zs, e', rfl, hf⟩
  | restrict lev sh csc cs =>
    cases zs with
    | nil => exact ⟨[coarseLvl csc { l0 with e := e' }], e', rfl, hf⟩
    | cons z zs => exact ⟨coarseLvl csc z :: z :: zs, e', rfl, hf⟩
  | prolong lev sh csc =>
    cases zs with
    | nil => exact ⟨[], e', rfl, hf⟩
    | cons c zs =>
      cases zs with
      | nil =>
        refine ⟨[], matEF l0.g (prolong csc l0.g e' c.e), rfl, fun q hq => ?_⟩
        rw [matEF_eq]
        exact (prolong_frame csc l0.g e' c.e q hq).trans (hf q hq)
      | cons z zs => exact ⟨_ :: zs, e', rfl, hf⟩

theorem runTrace_frame (l0 : Lvl K) (evs : List Ev) : ∀ st : List (Lvl K) × Bool,
    BaseFrame l0 st → BaseFrame l0 (runTrace st evs) := by
  induction evs with
  | nil => intro st h; exact h
  | cons ev evs ih =>
    intro st h
    simp only [runTrace, List.foldl_cons]
    exact ih _ (step_baseFrame l0 st ev h)

/-- **One complete `multigrid` call returns the level it was given — same grid, model and
source — and its field agrees with the start field on every edge outside the interior**:
tangential boundary values are never written, whatever the configuration and the input. -/
theorem mgRun_frame (r : Run) (l0 : Lvl K) :
    ∃ e', (mgRun r l0).1 = [{ l0 with e := e' }] ∧
      ∀ q, ¬ Interior l0.g.nx l0.g.ny l0.g.nz q → e'.get q = l0.e.get q := by
  obtain ⟨zs, e', h1, h2⟩ := runTrace_frame l0 (mgTrace r) ([l0], true)
    ⟨[], l0.e, rfl, fun _ _ => rfl⟩
  have hlen := lenPres_mgTrace (K := K) r ([l0], true) (by simp)
  unfold mgRun
  rw [h1] at hlen
  cases zs with
  | nil => exact ⟨e', h1, h2⟩
  | cons z zs => simp at hlen

/-- **C01, clause PEC, for plain multigrid**: a start field with zero tangential boundary
components (what `solve()` establishes before calling `multigrid`) gives a result with zero
tangential boundary components. -/
theorem mgRun_pec (r : Run) (l0 : Lvl K) (hp : PEC l0.g l0.e) :
    ∃ e', (mgRun r l0).1 = [{ l0 with e := e' }] ∧ PEC l0.g e' := by
  obtain ⟨e', h1, h2⟩ := mgRun_frame r l0
  exact ⟨e', h1, pec_of_frame l0.g l0.e e' h2 hp⟩

/-- … and a tangential boundary value the caller left in the field would still be there
(which is why `solve()` has to zero it: the contrapositive of `mgRun_pec`) -/
theorem mgRun_keeps_boundary_value (r : Run) (l0 : Lvl K) (q : Edge)
    (hq : ¬ Interior l0.g.nx l0.g.ny l0.g.nz q) (hne : l0.e.get q ≠ 0) :
    ∃ e', (mgRun r l0).1 = [{ l0 with e := e' }] ∧ e'.get q ≠ 0 := by
  obtain ⟨e', h1, h2⟩ := mgRun_frame r l0
  exact ⟨e', h1, by rw [h2 q hq]; exact hne⟩

/-- non-vacuity: the zero field on any grid is PEC, so `mgRun_pec` applies to every fresh solve -/
example (r : Run) (g : Grid K) (m : VM K) (s : EF K) :
    ∃ e', (mgRun r ⟨g, m, s, zeroEF⟩).1 = [⟨g, m, s, e'⟩] ∧ PEC g e' :=
  mgRun_pec r ⟨g, m, s, zeroEF⟩ (pec_zero g)

end Emg
