import Emg3dVerif.Lemmas.Smooth
import Emg3dVerif.Lemmas.Ldlt
import Emg3dVerif.Props.C05
set_option linter.unusedSectionVars false
/-!
# C03 — every smoother is a consistent relaxation of the same linear system

`Emg.smoothing` / `Emg.runKernel` model `emg3d.solver.smoothing` and the four kernels
`core.gauss_seidel(_x/_y/_z)` as block Gauss–Seidel relaxation of the operator `Emg.amat`
(the operator of C02).  The tie to the code is the exact-arithmetic correspondence of
`harness/c03.py`: the kernels' Python source, run on exact Gaussian rationals, produces the
same fields as the model, entry by entry.

Hypothesis `BlockInj`: the block systems are non-singular (the solver's documented
precondition); the model's success flag witnesses solvability on every executed case.
-/
namespace Emg
variable {K : Type} [Field K] [DecidableEq K]

/-- interior edges inside the kernels' index range (everything except tangential boundary
edges) -/
def Interior (nx ny nz : Nat) (d : Edge) : Prop :=
  match d.c with
  | .x => d.i < nx ∧ 1 ≤ d.j ∧ d.j < ny ∧ 1 ≤ d.k ∧ d.k < nz
  | .y => 1 ≤ d.i ∧ d.i < nx ∧ d.j < ny ∧ 1 ≤ d.k ∧ d.k < nz
  | .z => 1 ≤ d.i ∧ d.i < nx ∧ 1 ≤ d.j ∧ d.j < ny ∧ d.k < nz

theorem mem_idxSeq (back : Bool) (n i : Nat) (h : i ∈ idxSeq back n) : 1 ≤ i ∧ i < n := by
  simp only [idxSeq, List.mem_map, List.mem_range] at h
  obtain ⟨a, ha, rfl⟩ := h
  split <;> omega

theorem nodeBlock_interior (nx ny nz ix iy iz : Nat) (hx : 1 ≤ ix ∧ ix < nx)
    (hy : 1 ≤ iy ∧ iy < ny) (hz : 1 ≤ iz ∧ iz < nz) :
    ∀ d ∈ nodeBlock ix iy iz, Interior nx ny nz d := by
  intro d hd
  simp only [nodeBlock, List.mem_cons, List.mem_nil_iff, or_false] at hd
  rcases hd with rfl | rfl | rfl | rfl | rfl | rfl <;> simp only [Interior] <;> omega

theorem lineBlockX_interior (nx ny nz iy iz : Nat) (hy : 1 ≤ iy ∧ iy < ny) (hz : 1 ≤ iz ∧ iz < nz) :
    ∀ d ∈ lineBlockX nx iy iz, Interior nx ny nz d := by
  intro d hd
  simp only [lineBlockX, List.mem_flatMap, List.mem_range, List.mem_cons] at hd
  obtain ⟨a, ha, hd⟩ := hd
  rcases hd with rfl | hd
  · simp only [Interior]; omega
  · split at hd
    · simp only [List.mem_cons, List.mem_nil_iff, or_false] at hd
      rcases hd with rfl | rfl | rfl | rfl <;> simp only [Interior] <;> omega
    · simp at hd

theorem lineBlockY_interior (nx ny nz ix iz : Nat) (hx : 1 ≤ ix ∧ ix < nx) (hz : 1 ≤ iz ∧ iz < nz) :
    ∀ d ∈ lineBlockY ny ix iz, Interior nx ny nz d := by
  intro d hd
  simp only [lineBlockY, List.mem_flatMap, List.mem_range, List.mem_cons] at hd
  obtain ⟨a, ha, hd⟩ := hd
  rcases hd with rfl | hd
  · simp only [Interior]; omega
  · split at hd
    · simp only [List.mem_cons, List.mem_nil_iff, or_false] at hd
      rcases hd with rfl | rfl | rfl | rfl <;> simp only [Interior] <;> omega
    · simp at hd

theorem lineBlockZ_interior (nx ny nz ix iy : Nat) (hx : 1 ≤ ix ∧ ix < nx) (hy : 1 ≤ iy ∧ iy < ny) :
    ∀ d ∈ lineBlockZ nz ix iy, Interior nx ny nz d := by
  intro d hd
  simp only [lineBlockZ, List.mem_flatMap, List.mem_range, List.mem_cons] at hd
  obtain ⟨a, ha, hd⟩ := hd
  rcases hd with rfl | hd
  · simp only [Interior]; omega
  · split at hd
    · simp only [List.mem_cons, List.mem_nil_iff, or_false] at hd
      rcases hd with rfl | rfl | rfl | rfl <;> simp only [Interior] <;> omega
    · simp at hd

theorem sweepBlocks_interior (kernel nx ny nz : Nat) (back : Bool) :
    ∀ B ∈ sweepBlocks kernel nx ny nz back, ∀ d ∈ B, Interior nx ny nz d := by
  intro B hB
  unfold sweepBlocks at hB
  split at hB
  · simp only [List.mem_flatMap, List.mem_map] at hB
    obtain ⟨iz, hz, iy, hy, ix, hx, rfl⟩ := hB
    exact nodeBlock_interior nx ny nz ix iy iz (mem_idxSeq _ _ _ hx) (mem_idxSeq _ _ _ hy)
      (mem_idxSeq _ _ _ hz)
  · simp only [List.mem_flatMap, List.mem_map] at hB
    obtain ⟨iz, hz, iy, hy, rfl⟩ := hB
    exact lineBlockX_interior nx ny nz iy iz (mem_idxSeq _ _ _ hy) (mem_idxSeq _ _ _ hz)
  · simp only [List.mem_flatMap, List.mem_map] at hB
    obtain ⟨iz, hz, ix, hx, rfl⟩ := hB
    exact lineBlockY_interior nx ny nz ix iz (mem_idxSeq _ _ _ hx) (mem_idxSeq _ _ _ hz)
  · simp only [List.mem_flatMap, List.mem_map] at hB
    obtain ⟨iy, hy, ix, hx, rfl⟩ := hB
    exact lineBlockZ_interior nx ny nz ix iy (mem_idxSeq _ _ _ hx) (mem_idxSeq _ _ _ hy)

theorem kernelBlocks_interior (kernel nx ny nz nu : Nat) :
    ∀ B ∈ kernelBlocks kernel nx ny nz nu, ∀ d ∈ B, Interior nx ny nz d := by
  intro B hB
  simp only [kernelBlocks, List.mem_flatMap] at hB
  obtain ⟨t, _, hB⟩ := hB
  exact sweepBlocks_interior kernel nx ny nz _ B hB

theorem smoothingBlocks_interior (nx ny nz nu lr : Nat) :
    ∀ B ∈ smoothingBlocks nx ny nz nu lr, ∀ d ∈ B, Interior nx ny nz d := by
  intro B hB
  simp only [smoothingBlocks, List.mem_flatMap] at hB
  obtain ⟨kernel, _, hB⟩ := hB
  exact kernelBlocks_interior kernel nx ny nz nu B hB

/-- every block system met by any smoothing variant on this grid/model is non-singular -/
def AllInj (g : Grid K) (m : VM K) : Prop :=
  ∀ kernel nu, ∀ B ∈ kernelBlocks kernel g.nx g.ny g.nz nu, BlockInj g m B

theorem AllInj.smoothing {g : Grid K} {m : VM K} (h : AllInj g m) (nu lr : Nat) :
    ∀ B ∈ smoothingBlocks g.nx g.ny g.nz nu lr, BlockInj g m B := by
  intro B hB
  simp only [smoothingBlocks, List.mem_flatMap] at hB
  obtain ⟨kernel, _, hB⟩ := hB
  exact h kernel nu B hB

/-! ## the four clauses, for every kernel and for `smoothing` with every code -/

/-- **Tangential boundary values are never written** (nor anything else outside the interior
edges), by any kernel, any sweep count. -/
theorem kernel_keeps_boundary (g : Grid K) (m : VM K) (s e : EF K) (kernel nu : Nat) (ok : Bool)
    (q : Edge) (hq : ¬ Interior g.nx g.ny g.nz q) :
    (runKernel g m s kernel nu (e, ok)).1.get q = e.get q :=
  relaxAll_frame g m s q _ (fun B hB hqB => hq (kernelBlocks_interior _ _ _ _ _ B hB q hqB)) _

theorem smoothing_keeps_boundary (g : Grid K) (m : VM K) (s e : EF K) (nu lr : Nat)
    (q : Edge) (hq : ¬ Interior g.nx g.ny g.nz q) :
    (smoothing g m s e nu lr).1.get q = e.get q :=
  relaxAll_frame g m s q _ (fun B hB hqB => hq (smoothingBlocks_interior _ _ _ _ _ B hB q hqB)) _

/-- **A field that solves the system exactly is left unchanged** — every kernel, forward and
backward ordering, any number of sweeps. -/
theorem kernel_fixed_point (g : Grid K) (m : VM K) (s e : EF K) (kernel nu : Nat) (ok : Bool)
    (hinj : AllInj g m)
    (hsol : ∀ d, Interior g.nx g.ny g.nz d → amatAt g m e d = s.get d) :
    (runKernel g m s kernel nu (e, ok)).1 = e :=
  relaxAll_fixed g m s e _ (hinj kernel nu)
    (fun B hB r hr => hsol r (kernelBlocks_interior _ _ _ _ _ B hB r hr)) ok

theorem smoother_fixed_point (g : Grid K) (m : VM K) (s e : EF K) (nu lr : Nat)
    (hinj : AllInj g m)
    (hsol : ∀ d, Interior g.nx g.ny g.nz d → amatAt g m e d = s.get d) :
    (smoothing g m s e nu lr).1 = e :=
  relaxAll_fixed g m s e _ (hinj.smoothing nu lr)
    (fun B hB r hr => hsol r (smoothingBlocks_interior _ _ _ _ _ B hB r hr)) true

/-- **The equations of the block relaxed last are satisfied exactly afterwards.** -/
theorem smoother_last_block_solved (g : Grid K) (m : VM K) (s e : EF K) (nu lr : Nat)
    (Bs : List (List Edge)) (B : List Edge)
    (hB : smoothingBlocks g.nx g.ny g.nz nu lr = Bs ++ [B])
    (hok : (smoothing g m s e nu lr).2 = true) :
    ∀ r ∈ B, amatAt g m (smoothing g m s e nu lr).1 r = s.get r := by
  unfold smoothing at hok ⊢
  rw [hB] at hok ⊢
  exact relaxAll_last_solved g m s Bs B _ hok

theorem kernel_last_block_solved (g : Grid K) (m : VM K) (s : EF K) (kernel nu : Nat)
    (st : EF K × Bool) (Bs : List (List Edge)) (B : List Edge)
    (hB : kernelBlocks kernel g.nx g.ny g.nz nu = Bs ++ [B])
    (hok : (runKernel g m s kernel nu st).2 = true) :
    ∀ r ∈ B, amatAt g m (runKernel g m s kernel nu st).1 r = s.get r := by
  unfold runKernel at hok ⊢
  rw [hB] at hok ⊢
  exact relaxAll_last_solved g m s Bs B _ hok

/-- **The result is a linear (hence affine) function of (field, source)**: sums … -/
theorem smoother_add (g : Grid K) (m : VM K) (s1 s2 e1 e2 : EF K) (nu lr : Nat) (hinj : AllInj g m)
    (h1 : (smoothing g m s1 e1 nu lr).2 = true) (h2 : (smoothing g m s2 e2 nu lr).2 = true)
    (h12 : (smoothing g m (s1.add s2) (e1.add e2) nu lr).2 = true) :
    (smoothing g m (s1.add s2) (e1.add e2) nu lr).1
      = (smoothing g m s1 e1 nu lr).1.add (smoothing g m s2 e2 nu lr).1 :=
  relaxAll_add g m s1 s2 _ (hinj.smoothing nu lr) e1 e2 true true true h1 h2 h12

/-- … and scalar multiples. -/
theorem smoother_smul (g : Grid K) (m : VM K) (c : K) (s e : EF K) (nu lr : Nat) (hinj : AllInj g m)
    (h1 : (smoothing g m s e nu lr).2 = true)
    (hc : (smoothing g m (EF.smul c s) (EF.smul c e) nu lr).2 = true) :
    (smoothing g m (EF.smul c s) (EF.smul c e) nu lr).1 = EF.smul c (smoothing g m s e nu lr).1 :=
  relaxAll_smul g m c s _ (hinj.smoothing nu lr) e true true h1 hc

theorem kernel_add (g : Grid K) (m : VM K) (s1 s2 e1 e2 : EF K) (kernel nu : Nat) (hinj : AllInj g m)
    (h1 : (runKernel g m s1 kernel nu (e1, true)).2 = true)
    (h2 : (runKernel g m s2 kernel nu (e2, true)).2 = true)
    (h12 : (runKernel g m (s1.add s2) kernel nu (e1.add e2, true)).2 = true) :
    (runKernel g m (s1.add s2) kernel nu (e1.add e2, true)).1
      = (runKernel g m s1 kernel nu (e1, true)).1.add (runKernel g m s2 kernel nu (e2, true)).1 :=
  relaxAll_add g m s1 s2 _ (hinj kernel nu) e1 e2 true true true h1 h2 h12

/-- **Line relaxation is never applied along a two-cell direction**: the kernels selected by
`smoothing` for code `lr ≤ 7`. -/
theorem smoothing_no_two_cell_line (nx ny nz lr : Nat) (hlr : lr ≤ 7) :
    (1 ∈ kernelsOf (MGH.currentLrDir lr (nx, ny, nz)) → nx ≠ 2) ∧
    (2 ∈ kernelsOf (MGH.currentLrDir lr (nx, ny, nz)) → ny ≠ 2) ∧
    (3 ∈ kernelsOf (MGH.currentLrDir lr (nx, ny, nz)) → nz ≠ 2) := by
  have h := MGH.no_line_relaxation_on_two_cells lr hlr (nx, ny, nz)
  refine ⟨fun hk => h.1 ?_, fun hk => h.2.1 ?_, fun hk => h.2.2 ?_⟩ <;>
  · simp only [kernelsOf, List.mem_append] at hk
    rcases hk with ((hk | hk) | hk) | hk <;> split at hk <;> simp_all

/-! ## the banded symmetric solver -/

/-- **`core.solve` (model `LdltM.solve` on the banded storage `A(i,j) → amat[i+5j]`) returns the
exact solution of the banded symmetric system it is given**, for every number of unknowns,
provided no pivot vanishes (the function's documented precondition). -/
theorem solveBanded_exact (amat : Array K) (b : Nat → K) (n : Nat)
    (hp : ∀ d ∈ LdltM.pivots (LdltM.ofBanded amat) n, d ≠ 0) (i : Nat) (hi : i < n) :
    LdltM.sumTo n (fun j => LdltM.full (LdltM.ofBanded amat) i j *
      LdltM.solve (LdltM.ofBanded amat) b n j) = b i :=
  Ldlt.model_solve_exact _ b n hp i hi

end Emg
