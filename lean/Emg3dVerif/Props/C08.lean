import Emg3dVerif.Lemmas.Adjoint
/-!
# C08 — `J v` is the data derivative, `Jᵀ` its exact adjoint

Matrix-level theorems (Mathlib, over ℂ) about the specification `Adj` of `Simulation.jvec` /
`jtvec`; the pipeline glue (anisotropy stacking and collection) is in `Props/C07.lean`.
-/
open Matrix BigOperators

namespace Adj
variable {E C C' D : Type} [Fintype E] [Fintype C] [Fintype C'] [Fintype D] [DecidableEq E]

/-- **`Jᵀ` is the exact adjoint of `J`**: `Re⟨w, J v⟩ = ⟨Jᵀ w, v⟩` for every real model vector `v`
and complex data vector `w`, for any receiver matrix `P`, forward field `e`, averaging matrix `G` —
given only that the inverse system matrix is (complex-)symmetric (C02) -/
theorem jtvec_adjoint (k : ℂ) (P : Matrix D E ℂ) (Ainv : Matrix E E ℂ) (hs : Ainvᵀ = Ainv)
    (e : E → ℂ) (G : Matrix E C ℂ) (v : C → ℝ) (w : D → ℂ) :
    (∑ i, star (w i) * jvec k P Ainv e G v i).re = ∑ c, jtvec k P Ainv e G w c * v c := by
  rw [pairing_complex k P Ainv hs e G v w, Complex.re_sum]
  apply Finset.sum_congr rfl
  intro c _
  simp [jtvec, Complex.mul_re]

/-- the inverse of a symmetric matrix is symmetric -/
theorem inv_symm {A Ainv : Matrix E E ℂ} (hA : Aᵀ = A) (h1 : A * Ainv = 1) (h2 : Ainv * A = 1) :
    Ainvᵀ = Ainv := by
  have e1 : Ainvᵀ * A = 1 := by
    have := congrArg Matrix.transpose h1
    rw [Matrix.transpose_mul, hA, Matrix.transpose_one] at this
    exact this
  calc Ainvᵀ = Ainvᵀ * (A * Ainv) := by rw [h1, Matrix.mul_one]
    _ = (Ainvᵀ * A) * Ainv := by rw [Matrix.mul_assoc]
    _ = Ainv := by rw [e1, Matrix.one_mul]

theorem jtvecC_comp_grid (k : ℂ) (P : Matrix D E ℂ) (Ainv : Matrix E E ℂ) (e : E → ℂ)
    (G : Matrix E C' ℂ) (V : Matrix C' C ℝ) (w : D → ℂ) (c : C) :
    jtvecC k P Ainv e (G * V.map (fun x => (x : ℂ))) w c =
      ∑ c', (V c' c : ℂ) * jtvecC k P Ainv e G w c' := by
  set b : E → ℂ := Ainv *ᵥ (Pᵀ *ᵥ (fun i => star (w i))) with hb
  have h1 : ∀ ed, (G * V.map (fun x => (x : ℂ))) ed c = ∑ j, G ed j * (V j c : ℂ) := by
    intro ed; rfl
  simp only [jtvecC, h1, Finset.mul_sum, Finset.sum_mul]
  rw [Finset.sum_comm]
  apply Finset.sum_congr rfl
  intro c' _
  apply Finset.sum_congr rfl
  intro ed _
  ring

/-- **other gridding modes**: if the model vector is first volume-averaged to the computational
grid (`V`) and the gradient is brought back with the transposed averaging (`Vᵀ`, what
`_interp_volume_average_adj` does), the pair is still exactly adjoint: `jtvec` with `G V` is
`Vᵀ` applied to `jtvec` with `G` -/
theorem jtvec_comp_grid (k : ℂ) (P : Matrix D E ℂ) (Ainv : Matrix E E ℂ) (e : E → ℂ)
    (G : Matrix E C' ℂ) (V : Matrix C' C ℝ) (w : D → ℂ) (c : C) :
    jtvec k P Ainv e (G * V.map (fun x => (x : ℂ))) w c =
      ∑ c', V c' c * jtvec k P Ainv e G w c' := by
  unfold jtvec
  rw [jtvecC_comp_grid, Complex.re_sum]
  apply Finset.sum_congr rfl
  intro c' _
  rw [Complex.re_ofReal_mul]

/-- … and `jvec` on the computational grid is `jvec` with `G V` -/
theorem jvec_comp_grid (k : ℂ) (P : Matrix D E ℂ) (Ainv : Matrix E E ℂ) (e : E → ℂ)
    (G : Matrix E C' ℂ) (V : Matrix C' C ℝ) (v : C → ℝ) :
    jvec k P Ainv e G (V *ᵥ v) = jvec k P Ainv e (G * V.map (fun x => (x : ℂ))) v := by
  unfold jvec
  congr 3
  funext ed
  congr 1
  have : (fun c => ((V *ᵥ v) c : ℂ)) = (V.map (fun x => (x : ℂ))) *ᵥ (fun c => (v c : ℂ)) := by
    funext c'
    simp [Matrix.mulVec, dotProduct]
  rw [this, Matrix.mulVec_mulVec]

/-- **`J v` is the derivative of the data**: for `A_t = A + t·diag(c·G v)` (both invertible),
`d(σ + t v) − d(σ) = t · J v + t² · (remainder, written out)` with `J = jvec` for `k = −c` -/
theorem jvec_is_derivative {A B Ainv Binv : Matrix E E ℂ} (c : ℂ) (G : Matrix E C ℂ)
    (v : C → ℝ) (t : ℂ) (P : Matrix D E ℂ) (s : E → ℂ)
    (hA : Ainv * A = 1) (hB : B * Binv = 1)
    (hBA : B = A + t • Matrix.diagonal (fun ed => c * (G *ᵥ (fun c => (v c : ℂ))) ed)) :
    P *ᵥ (Binv *ᵥ s) - P *ᵥ (Ainv *ᵥ s) =
      t • jvec (-c) P Ainv (Ainv *ᵥ s) G v +
      (t * t) • (P *ᵥ ((Ainv * Matrix.diagonal (fun ed => c * (G *ᵥ (fun c => (v c : ℂ))) ed) *
        Ainv * Matrix.diagonal (fun ed => c * (G *ᵥ (fun c => (v c : ℂ))) ed) * Binv) *ᵥ s)) := by
  set DA := Matrix.diagonal (fun ed => c * (G *ᵥ (fun c => (v c : ℂ))) ed) with hDA
  have r2 := resolvent2 hA hB hBA
  have hj : jvec (-c) P Ainv (Ainv *ᵥ s) G v = - (P *ᵥ ((Ainv * DA * Ainv) *ᵥ s)) := by
    unfold jvec
    have hd : DA *ᵥ (Ainv *ᵥ s) =
        c • (fun ed => (Ainv *ᵥ s) ed * (G *ᵥ (fun c => (v c : ℂ))) ed) := by
      funext ed
      rw [hDA, Matrix.mulVec_diagonal]
      simp only [Pi.smul_apply, smul_eq_mul]
      ring
    rw [← Matrix.mulVec_mulVec, ← Matrix.mulVec_mulVec, hd, Matrix.mulVec_smul,
      Matrix.mulVec_smul, neg_smul]
  rw [hj]
  conv_lhs => rw [r2]
  simp only [Matrix.add_mulVec, Matrix.sub_mulVec, Matrix.smul_mulVec, Matrix.mulVec_add,
    Matrix.mulVec_sub, Matrix.mulVec_smul]
  simp only [smul_neg]
  abel

end Adj
