import Emg3dVerif.Model.SimState
/-!
# C12 — simulation results are a function of (model, survey), not of the call history

`SimM.step` models the caches of `emg3d.simulations.Simulation` (tied to the code by the
operation-sequence correspondence of `harness/c12.py`, where every real value is identified
bit for bit with the value a *fresh* simulation of some model version reports).  The theorems
say: after any history of public operations every stored or returned quantity belongs to the
*current* model version — i.e. equals what a fresh simulation reports.
-/
namespace SimM

def AllV (l : List (Option Ver)) (v : Ver) : Prop := ∀ x ∈ l, x = some v
def AllVN (l : List (Option Ver)) (v : Ver) : Prop := ∀ x ∈ l, x = none ∨ x = some v

/-- coherence of the caches with the current model; `tag` is the vector currently stored in
`data.residual` (`none` = the data residual itself) -/
structure CoherentW (tag : Option Nat) (s : Sim) : Prop where
  ef : AllVN s.efield s.ver
  syn : AllVN s.syn s.ver
  comp : s.computed = true → AllV s.syn s.ver
  mis : ∀ m, s.misfit = some m → AllV m s.ver ∧ s.computed = true
  grad : ∀ e sy w, s.grad = some (e, sy, w) → AllV e s.ver ∧ AllV sy s.ver ∧ w = tag
  res : ∀ sy w, s.residual = some (sy, w) → AllV sy s.ver ∧ w = tag
  resMis : s.misfit.isSome = true → s.residual.isSome = true

abbrev Coherent (s : Sim) : Prop := CoherentW none s

/-- a returned value belongs to model version `v` -/
def RetOk (v : Ver) : Ret → Prop
  | .none => True
  | .misfit m => AllV m v
  | .gradient e sy _ => AllV e v ∧ AllV sy v
  | .jvec e => AllV e v
  | .field x => x = some v ∨ True

theorem AllVN_replicate (n : Nat) (v : Ver) : AllVN (List.replicate n none) v := by
  intro x hx; left; exact (List.mem_replicate.1 hx).2

theorem AllV_of_AllVN_noNone (l : List (Option Ver)) (v : Ver) (h : AllVN l v)
    (hn : l.any (·.isNone) = false) : AllV l v := by
  intro x hx
  rcases h x hx with h1 | h1
  · exfalso
    have : l.any (·.isNone) = true := List.any_eq_true.2 ⟨x, hx, by simp [h1]⟩
    rw [hn] at this; cases this
  · exact h1

theorem AllV.toN {l : List (Option Ver)} {v : Ver} (h : AllV l v) : AllVN l v :=
  fun x hx => Or.inr (h x hx)

theorem fill_AllV (l : List (Option Ver)) (v : Ver) (h : AllVN l v) :
    AllV (l.map fun e => match e with | some w => some w | none => some v) v := by
  intro x hx
  obtain ⟨y, hy, rfl⟩ := List.mem_map.1 hx
  rcases h y hy with h1 | h1 <;> simp [h1]

theorem Coherent_fresh (np : Nat) (v : Ver) : Coherent (fresh np v) := by
  constructor <;> simp [fresh, AllVN_replicate] <;> intros <;> simp_all

theorem doComputeAll_coh (tag : Option Nat) (s : Sim) (h : CoherentW tag s) :
    CoherentW tag (doComputeAll s) ∧ AllV (doComputeAll s).efield s.ver ∧
    AllV (doComputeAll s).syn s.ver ∧ (doComputeAll s).computed = true := by
  have hf := fill_AllV s.efield s.ver h.ef
  refine ⟨?_, hf, hf, rfl⟩
  constructor
  · exact hf.toN
  · exact hf.toN
  · intro _; exact hf
  · intro m hm; exact ⟨(h.mis m hm).1, rfl⟩
  · exact h.grad
  · exact h.res
  · exact h.resMis

theorem doComputePair_coh (tag : Option Nat) (s : Sim) (p : Nat) (h : CoherentW tag s) :
    (doComputePair s p).ver = s.ver ∧ CoherentW tag (doComputePair s p) := by
  unfold doComputePair
  split
  · exact ⟨rfl, h⟩
  · refine ⟨rfl, ?_⟩
    have hset : ∀ (l : List (Option Ver)), AllVN l s.ver → AllVN (l.set p (some s.ver)) s.ver := by
      intro l hl x hx
      rcases List.mem_or_eq_of_mem_set hx with h1 | h1
      · exact hl x h1
      · right; exact h1
    have hset' : ∀ (l : List (Option Ver)), AllV l s.ver → AllV (l.set p (some s.ver)) s.ver := by
      intro l hl x hx
      rcases List.mem_or_eq_of_mem_set hx with h1 | h1
      · exact hl x h1
      · exact h1
    constructor
    · exact hset _ h.ef
    · exact hset _ h.syn
    · intro hcomp; exact hset' _ (h.comp hcomp)
    · exact h.mis
    · exact h.grad
    · exact h.res
    · exact h.resMis

theorem doMisfit_coh (s : Sim) (h : Coherent s) :
    Coherent (doMisfit s) ∧ (doMisfit s).ver = s.ver ∧ (doMisfit s).misfit.isSome = true := by
  cases hm : s.misfit with
  | some m =>
    have e : doMisfit s = s := by simp [doMisfit, hm]
    rw [e]; exact ⟨h, rfl, by simp [hm]⟩
  | none =>
    by_cases hc : s.computed = true
    · have hs := h.comp hc
      have e : doMisfit s = { s with misfit := some s.syn, residual := some (s.syn, none) } := by
        simp [doMisfit, hm, hc]
      rw [e]
      refine ⟨?_, rfl, rfl⟩
      exact {
        ef := h.ef
        syn := h.syn
        comp := fun _ => hs
        mis := fun m hm' => by
          simp only [Option.some.injEq] at hm'; subst hm'; exact ⟨hs, hc⟩
        grad := h.grad
        res := fun sy w hr => by
          simp only [Option.some.injEq, Prod.mk.injEq] at hr
          obtain ⟨rfl, rfl⟩ := hr; exact ⟨hs, rfl⟩
        resMis := fun _ => rfl }
    · have hc' : s.computed = false := by simpa using hc
      obtain ⟨hcoh, _, hs, hcomp⟩ := doComputeAll_coh none s h
      have e : doMisfit s =
          { doComputeAll s with
            misfit := some (doComputeAll s).syn
            residual := some ((doComputeAll s).syn, none) } := by
        simp [doMisfit, hm, hc']
      rw [e]
      refine ⟨?_, rfl, rfl⟩
      exact {
        ef := hcoh.ef
        syn := hcoh.syn
        comp := fun _ => hs
        mis := fun m hm' => by
          simp only [Option.some.injEq] at hm'; subst hm'; exact ⟨hs, hcomp⟩
        grad := hcoh.grad
        res := fun sy w hr => by
          simp only [Option.some.injEq, Prod.mk.injEq] at hr
          obtain ⟨rfl, rfl⟩ := hr; exact ⟨hs, rfl⟩
        resMis := fun _ => rfl }

theorem doMisfit_cached (s : Sim) (h : s.misfit.isSome = true) : doMisfit s = s := by
  unfold doMisfit
  cases hm : s.misfit with
  | some m => rfl
  | none => simp [hm] at h

theorem ensureFields_coh (tag : Option Nat) (s : Sim) (h : CoherentW tag s) :
    CoherentW tag (ensureFields s) ∧ (ensureFields s).ver = s.ver ∧
    AllV (ensureFields s).efield s.ver ∧ (ensureFields s).misfit = s.misfit ∧
    (ensureFields s).residual = s.residual ∧ (ensureFields s).grad = s.grad := by
  by_cases hany : s.efield.any (·.isNone) = true
  · have e : ensureFields s = doComputeAll s := by simp only [ensureFields, hany, if_true]
    rw [e]
    obtain ⟨hcoh, hef, _, _⟩ := doComputeAll_coh tag s h
    exact ⟨hcoh, rfl, hef, rfl, rfl, rfl⟩
  · have hany' : s.efield.any (·.isNone) = false := Bool.eq_false_iff.2 hany
    have e : ensureFields s = s := by simp only [ensureFields, hany', Bool.false_eq_true, if_false]
    rw [e]
    exact ⟨h, rfl, AllV_of_AllVN_noNone _ _ h.ef hany', rfl, rfl, rfl⟩

/-- `gradient` with the misfit cached and vector `tag` stored in the residual -/
theorem doGradient_coh (tag : Option Nat) (s : Sim) (h : CoherentW tag s)
    (hm : s.misfit.isSome = true) :
    CoherentW tag (doGradient s) ∧ (doGradient s).ver = s.ver ∧
    (doGradient s).grad.isSome = true ∧ (doGradient s).misfit = s.misfit ∧
    (doGradient s).residual = s.residual := by
  cases hg : s.grad with
  | some g =>
    have e : doGradient s = s := by simp [doGradient, hg]
    rw [e]; exact ⟨h, rfl, by simp [hg], rfl, rfl⟩
  | none =>
    obtain ⟨hcoh, hver, hef, hmis, hres, _⟩ := ensureFields_coh tag s h
    obtain ⟨r, hr⟩ := Option.isSome_iff_exists.1 (h.resMis hm)
    obtain ⟨sy, w⟩ := r
    have hres' := h.res sy w hr
    have hr2 : (ensureFields s).residual = some (sy, w) := by rw [hres, hr]
    have e : doGradient s =
        { ensureFields s with
          grad := some ((ensureFields s).efield, sy, w)
          bfield := true
          tolFwd := false } := by
      simp [doGradient, hg, doMisfit_cached s hm, hr2]
    rw [e]
    refine ⟨?_, hver, rfl, hmis, hres⟩
    exact {
      ef := hcoh.ef
      syn := hcoh.syn
      comp := hcoh.comp
      mis := hcoh.mis
      grad := fun e' sy' w' hg' => by
        simp only [Option.some.injEq, Prod.mk.injEq] at hg'
        obtain ⟨rfl, rfl, rfl⟩ := hg'
        refine ⟨?_, ?_, hres'.2⟩
        · show AllV (ensureFields s).efield (ensureFields s).ver
          rw [hver]; exact hef
        · show AllV sy (ensureFields s).ver
          rw [hver]; exact hres'.1
      res := hcoh.res
      resMis := hcoh.resMis }

theorem doClean_coh (s : Sim) (w : CleanWhat) (h : Coherent s) : Coherent (doClean s w) := by
  cases w with
  | keepresults =>
    exact { ef := AllVN_replicate _ _, syn := h.syn, comp := h.comp, mis := h.mis, grad := h.grad,
            res := h.res, resMis := h.resMis }
  | computed =>
    exact { ef := AllVN_replicate _ _, syn := AllVN_replicate _ _
            comp := fun hc => by simp [doClean] at hc
            mis := fun m hm => by simp [doClean] at hm
            grad := fun e sy w hg => by simp [doClean] at hg
            res := fun sy w hr => by simp [doClean] at hr
            resMis := fun hm => by simp [doClean] at hm }
  | all =>
    exact { ef := AllVN_replicate _ _, syn := AllVN_replicate _ _
            comp := fun hc => by simp [doClean] at hc
            mis := fun m hm => by simp [doClean] at hm
            grad := fun e sy w hg => by simp [doClean] at hg
            res := fun sy w hr => by simp [doClean] at hr
            resMis := fun hm => by simp [doClean] at hm }

/-- coherence does not depend on the tolerance entry / on the stored b-fields -/
theorem CoherentW.withFlags {tag : Option Nat} {s : Sim} (h : CoherentW tag s) (b t : Bool) :
    CoherentW tag { s with bfield := b, tolFwd := t } :=
  { ef := h.ef, syn := h.syn, comp := h.comp, mis := h.mis, grad := h.grad, res := h.res,
    resMis := h.resMis }

theorem retMisfit_ok (s : Sim) (h : Coherent s) : RetOk s.ver (retMisfit s) := by
  unfold retMisfit
  cases hm : s.misfit with
  | none => trivial
  | some m => exact (h.mis m hm).1

theorem retGrad_ok (tag : Option Nat) (s : Sim) (h : CoherentW tag s) : RetOk s.ver (retGrad s) := by
  unfold retGrad
  cases hg : s.grad with
  | none => trivial
  | some g =>
    obtain ⟨e, sy, w⟩ := g
    have := h.grad e sy w hg
    exact ⟨this.1, this.2.1⟩

theorem doGradient_eq (s : Sim) (hg : s.grad = none) (h : Coherent s) :
    doGradient s = doGradient (doMisfit s) := by
  cases hms : s.misfit with
  | some m => rw [doMisfit_cached s (by simp [hms])]
  | none =>
    have hm := (doMisfit_coh s h).2.2
    have hgm : (doMisfit s).grad = none := by
      by_cases hc : s.computed = true
      · simp [doMisfit, hms, hc, hg]
      · have hc' : s.computed = false := Bool.eq_false_iff.2 hc
        simp [doMisfit, hms, hc', hg, doComputeAll]
    unfold doGradient
    simp only [hg, hgm]
    rw [doMisfit_cached (doMisfit s) hm]

/-- **Every public operation preserves coherence of all caches with the current model, and
what it returns belongs to the current model.** -/
theorem step_coherent (s : Sim) (op : Op) (h : Coherent s) :
    Coherent (step s op).1 ∧ RetOk (step s op).1.ver (step s op).2 := by
  cases op with
  | compute => exact ⟨(doComputeAll_coh none s h).1, trivial⟩
  | misfit =>
    obtain ⟨hc, _, _⟩ := doMisfit_coh s h
    exact ⟨hc, retMisfit_ok _ hc⟩
  | gradient =>
    obtain ⟨hc, hv, hm⟩ := doMisfit_coh s h
    show Coherent (doGradient s) ∧ RetOk (doGradient s).ver (retGrad (doGradient s))
    cases hg : s.grad with
    | some g =>
      have hd : doGradient s = s := by simp [doGradient, hg]
      rw [hd]; exact ⟨h, retGrad_ok none s h⟩
    | none =>
      rw [doGradient_eq s hg h]
      obtain ⟨hcg, _, _, _, _⟩ := doGradient_coh none (doMisfit s) hc hm
      exact ⟨hcg, retGrad_ok none _ hcg⟩
  | jvec =>
    obtain ⟨hc, hv, hm⟩ := doMisfit_coh s h
    obtain ⟨hce, hve, hef, _, _, _⟩ := ensureFields_coh none (doMisfit s) hc
    refine ⟨hce.withFlags _ _, ?_⟩
    show AllV (ensureFields (doMisfit s)).efield (ensureFields (doMisfit s)).ver
    rw [hve]; exact hef
  | jtvec w =>
    obtain ⟨hc, hv, hm⟩ := doMisfit_coh s h
    obtain ⟨r, hr⟩ := Option.isSome_iff_exists.1 (hc.resMis hm)
    obtain ⟨sy, w0⟩ := r
    have hres := hc.res sy w0 hr
    have ht1 : CoherentW (some w)
        { doMisfit s with residual := some (sy, some w), grad := none, bfield := false } :=
      { ef := hc.ef, syn := hc.syn, comp := hc.comp, mis := hc.mis
        grad := fun e sy' w' hg => by simp at hg
        res := fun sy' w' hr' => by
          simp only [Option.some.injEq, Prod.mk.injEq] at hr'
          obtain ⟨rfl, rfl⟩ := hr'; exact ⟨hres.1, rfl⟩
        resMis := fun _ => rfl }
    obtain ⟨hcg, hvg, hgs, hmg, hrg⟩ := doGradient_coh (some w) _ ht1 hm
    have e : step s (.jtvec w) =
        ({ doGradient { doMisfit s with residual := some (sy, some w), grad := none, bfield := false }
            with residual := some (sy, w0), grad := none, bfield := false },
         retGrad (doGradient
           { doMisfit s with residual := some (sy, some w), grad := none, bfield := false })) := by
      simp [step, hr]
    rw [e]
    refine ⟨?_, retGrad_ok (some w) _ hcg⟩
    exact {
      ef := hcg.ef
      syn := hcg.syn
      comp := hcg.comp
      mis := hcg.mis
      grad := fun e' sy' w' hg => by simp at hg
      res := fun sy' w' hr' => by
        simp only [Option.some.injEq, Prod.mk.injEq] at hr'
        obtain ⟨rfl, rfl⟩ := hr'
        refine ⟨?_, hres.2⟩
        show AllV sy (doGradient _).ver
        rw [hvg]; exact hres.1
      resMis := fun _ => rfl }
  | getEfield p =>
    obtain ⟨hv, hc⟩ := doComputePair_coh none s p h
    exact ⟨hc, Or.inr trivial⟩
  | getHfield p =>
    obtain ⟨hv, hc⟩ := doComputePair_coh none s p h
    exact ⟨hc, Or.inr trivial⟩
  | clean w => exact ⟨doClean_coh s w h, trivial⟩
  | copy w =>
    cases w with
    | computed => exact ⟨h.withFlags s.bfield true, trivial⟩
    | all => exact ⟨h.withFlags s.bfield true, trivial⟩
    | results =>
      exact ⟨{ ef := AllVN_replicate _ _, syn := h.syn, comp := h.comp, mis := h.mis,
               grad := h.grad, res := h.res, resMis := h.resMis }, trivial⟩
    | plain => exact ⟨Coherent_fresh _ _, trivial⟩
  | updateModel =>
    refine ⟨?_, trivial⟩
    show Coherent { doClean s .computed with ver := s.ver + 1 }
    exact { ef := AllVN_replicate _ _, syn := AllVN_replicate _ _
            comp := fun hc => by simp [doClean] at hc
            mis := fun m hm => by simp [doClean] at hm
            grad := fun e sy w hg => by simp [doClean] at hg
            res := fun sy w hr => by simp [doClean] at hr
            resMis := fun hm => by simp [doClean] at hm }

/-! ## histories -/

theorem run_fst (s : Sim) (ops : List Op) (op : Op) :
    (run s (ops ++ [op])).1 = (step (run s ops).1 op).1 := by
  unfold run
  rw [List.foldl_append]
  rfl

theorem run_coherent (s : Sim) (h : Coherent s) : ∀ ops, Coherent (run s ops).1 := by
  intro ops
  unfold run
  have : ∀ (ops : List Op) (acc : Sim × List Ret), Coherent acc.1 →
      Coherent (ops.foldl (fun (acc : Sim × List Ret) op =>
        let (t, r) := step acc.1 op
        (t, acc.2 ++ [r])) acc).1 := by
    intro ops
    induction ops with
    | nil => intro acc ha; exact ha
    | cons op ops ih =>
      intro acc ha
      simp only [List.foldl_cons]
      apply ih
      exact (step_coherent acc.1 op ha).1
  exact this ops (s, []) h

/-- **Results are a function of the current model, not of the history**: after *any* sequence
of public operations on a new simulation, whatever the next operation returns (misfit,
gradient, `jvec`, `jtvec`, a field) was computed from the current model only — it is what a
fresh simulation of that model returns. -/
theorem history_independent (np : Nat) (v0 : Ver) (ops : List Op) (op : Op) :
    RetOk (step (run (fresh np v0) ops).1 op).1.ver (step (run (fresh np v0) ops).1 op).2 :=
  (step_coherent _ op (run_coherent _ (Coherent_fresh np v0) ops)).2

/-- stored synthetic data are those of the current model, or NaN (not computed) -/
theorem synthetic_current_or_nan (np : Nat) (v0 : Ver) (ops : List Op) :
    AllVN (run (fresh np v0) ops).1.syn (run (fresh np v0) ops).1.ver :=
  (run_coherent _ (Coherent_fresh np v0) ops).syn

/-- the flag "computed" means: the data of *all* source–frequency pairs are current -/
theorem computed_means_all_pairs (np : Nat) (v0 : Ver) (ops : List Op)
    (h : (run (fresh np v0) ops).1.computed = true) :
    AllV (run (fresh np v0) ops).1.syn (run (fresh np v0) ops).1.ver :=
  (run_coherent _ (Coherent_fresh np v0) ops).comp h

/-- the shared tolerance entry holds the forward tolerance after every forward run and in every
serialised form (copy / dict / file) -/
theorem tol_switch_restored (s : Sim) (w : CopyWhat) :
    (step s (.copy w)).1.tolFwd = true ∧ (step s .compute).1.tolFwd = true := by
  cases w <;> simp [step, doComputeAll, fresh]

/-- a copy is determined by the state of the original at copy time (and the original keeps its
state, up to the tolerance entry being reset) -/
theorem copy_independent (s : Sim) :
    (step s (.copy .computed)).1 = { s with tolFwd := true } ∧
    (step s (.copy .all)).1 = { s with tolFwd := true } ∧
    (step s (.copy .plain)).1 = fresh s.np s.ver := by
  simp [step]

/-- `jtvec` leaves no trace: afterwards there is no cached gradient, no back-propagated field,
and residual and misfit are those of the data misfit again -/
theorem jtvec_leaves_no_trace (s : Sim) (w : Nat) (h : Coherent s) :
    (step s (.jtvec w)).1.grad = none ∧ (step s (.jtvec w)).1.bfield = false ∧
    (step s (.jtvec w)).1.residual = (doMisfit s).residual ∧
    (step s (.jtvec w)).1.misfit = (doMisfit s).misfit := by
  obtain ⟨hc, hv, hm⟩ := doMisfit_coh s h
  obtain ⟨r, hr⟩ := Option.isSome_iff_exists.1 (hc.resMis hm)
  obtain ⟨sy, w0⟩ := r
  have hres := hc.res sy w0 hr
  have ht1 : CoherentW (some w)
      { doMisfit s with residual := some (sy, some w), grad := none, bfield := false } :=
    { ef := hc.ef, syn := hc.syn, comp := hc.comp, mis := hc.mis
      grad := fun e sy' w' hg => by simp at hg
      res := fun sy' w' hr' => by
        simp only [Option.some.injEq, Prod.mk.injEq] at hr'
        obtain ⟨rfl, rfl⟩ := hr'; exact ⟨hres.1, rfl⟩
      resMis := fun _ => rfl }
  obtain ⟨_, _, _, hmg, _⟩ := doGradient_coh (some w) _ ht1 hm
  refine ⟨?_, ?_, ?_, ?_⟩ <;> simp only [step, hr]
  exact hmg

end SimM
