import Emg3dVerif.Model.Cli
/-!
# C18 — CLI ≡ Python API for every documented option

Theorems about the model `Cli` of the configuration parser.  The quantifiers over the option
tables are decided over the complete finite tables; the statements about unknown keys, unknown
sections and precedence hold for every input.
-/
namespace Cli

/-- **every documented option is accepted by the parser** -/
theorem documented_accepted :
    ∀ d ∈ documented, d.1 ∈ sections ∧ (accepted d.1).any (·.1 = d.2) = true := by
  decide

/-- **every accepted option reaches a keyword the API knows** (the `[files]` keys are consumed by
the CLI itself) -/
theorem accepted_reaches_api :
    ∀ s ∈ sections, ∀ k ∈ accepted s, reachesApi s k.1 = true := by
  decide

/-- no key is accepted twice in a section (the typed extraction is unambiguous) -/
theorem accepted_nodup : ∀ s ∈ sections, ((accepted s).map (·.1)).Nodup := by
  decide

theorem resolve_term (v : String) (c : Option String) (d : String) : resolve (some v) c d = v := rfl
theorem resolve_cfg (v d : String) : resolve none (some v) d = v := rfl
theorem resolve_default (d : String) : resolve none none d = d := rfl

/-- a result `ok` means no section had an unknown key and there was no unknown section -/
theorem parse_ok_clean {i : Input} {o : Out} (h : parse i = .ok o) :
    (∀ s ∈ sections, unknownIn i s = []) ∧ unknownSections i = [] ∧ o = build i := by
  unfold parse at h
  cases hp : problem i with
  | some r =>
    rw [hp] at h
    simp only at h
    unfold problem at hp
    split at hp
    · injection hp with hp; rw [← hp] at h; exact absurd h (by simp)
    · split at hp
      · injection hp with hp; rw [← hp] at h; exact absurd h (by simp)
      · exact absurd hp (by simp)
  | none =>
    rw [hp] at h
    simp only [Res.ok.injEq] at h
    unfold problem at hp
    split at hp
    · exact absurd hp (by simp)
    · rename_i hnone
      split at hp
      · exact absurd hp (by simp)
      · rename_i hu
        refine ⟨?_, by simpa using hu, h.symm⟩
        intro s hs
        have := List.find?_eq_none.1 hnone s hs
        simpa using this

/-- **unknown options are rejected**: a key that the parser does not know in one of its sections
makes the whole parse fail -/
theorem unknown_key_rejected (i : Input) (s k v : String) (hs : s ∈ sections)
    (hmem : (s, k, v) ∈ i.cfg) (hk : (accepted s).any (·.1 = k) = false) :
    ∀ o, parse i ≠ .ok o := by
  intro o h
  have := (parse_ok_clean h).1 s hs
  have hin : k ∈ unknownIn i s := by
    unfold unknownIn
    simp only [List.mem_map, List.mem_filter]
    exact ⟨(s, k, v), ⟨hmem, by simp [hk]⟩, rfl⟩
  rw [this] at hin
  exact absurd hin (by simp)

/-- **unknown sections are rejected** -/
theorem unknown_section_rejected (i : Input) (s k v : String) (hs : s ∉ sections)
    (hmem : (s, k, v) ∈ i.cfg) : ∀ o, parse i ≠ .ok o := by
  intro o h
  have := (parse_ok_clean h).2.1
  have hin : s ∈ unknownSections i := by
    unfold unknownSections
    rw [List.mem_eraseDups]
    simp only [List.mem_filter, List.mem_map]
    exact ⟨⟨(s, k, v), hmem, rfl⟩, by simpa using hs⟩
  rw [this] at hin
  exact absurd hin (by simp)

/-! ## precedence: terminal > configuration file > default -/

/-- **a file name given on the command line wins** over the one in `[files]` -/
theorem terminal_file_overrides (i : Input) (k d v : String) (ht : lookupT i k = some v)
    (hv : v ≠ "") : fileName i k d = complete (absPath i) v := by
  unfold fileName
  simp [ht, resolve, hv]

/-- without a command-line argument the configuration file is used, else the default -/
theorem config_file_used (i : Input) (k d v : String) (ht : lookupT i k = none)
    (hc : lookupC i "files" k = some v) (hv : v ≠ "") :
    fileName i k d = complete (absPath i) v := by
  unfold fileName
  simp [ht, hc, resolve, hv]

theorem default_file_used (i : Input) (k d : String) (ht : lookupT i k = none)
    (hc : lookupC i "files" k = none) (hd : d ≠ "") :
    fileName i k d = complete (absPath i) d := by
  unfold fileName
  simp [ht, hc, resolve, hd]

/-- **`--path` wins** over `path` in `[files]` (and both may be present) -/
theorem terminal_path_overrides (i : Input) (p : String) (ht : lookupT i "path" = some p)
    (hp : p ≠ ".") : absPath i = p := by
  unfold absPath
  simp [ht, resolve, hp]

/-- **`-n` wins** over `max_workers` in `[simulation]`: it is the (first and only) value of the
key -/
theorem terminal_nproc_overrides (i : Input) (n : String) (ht : lookupT i "nproc" = some n) :
    (build i).entries.find? (·.1 = "simulation_options.max_workers") =
      some ("simulation_options.max_workers", "nproc:" ++ n) := by
  unfold build filesOut simOut
  simp [ht]

/-- **`-l` wins** over `layered` in `[simulation]` -/
theorem terminal_layered_overrides (i : Input) (h : "layered" ∈ i.flags) :
    ("simulation_options.layered", "bool:True") ∈ (build i).entries := by
  unfold build simOut
  simp [h]

/-- **`cache` is a shortcut for `load` and `save`** (and overrules both) -/
theorem cache_is_load_and_save (i : Input) (h : fileName i "cache" "" ≠ "False") :
    ("files.save", fileName i "cache" "") ∈ (build i).entries ∧
    ("files.load", fileName i "cache" "") ∈ (build i).entries := by
  unfold build filesOut
  simp [h]

/-- the gradient needs linear receiver interpolation: default if the file does not say otherwise -/
theorem gradient_defaults_linear (i : Input) (hf : function i = "gradient")
    (hc : lookupC i "simulation" "receiver_interpolation" = none) :
    ("simulation_options.receiver_interpolation", "str:linear") ∈ (build i).entries := by
  unfold build simOut
  simp [hf, hc]

theorem explicit_interpolation_kept (i : Input) (v : String)
    (hc : lookupC i "simulation" "receiver_interpolation" = some v) :
    ("simulation_options.receiver_interpolation", "str:" ++ v) ∈ (build i).entries := by
  unfold build simOut
  simp [hc]

/-- `[noise_opts]` overrides the deprecated noise keys of `[simulation]` -/
theorem noise_opts_override (i : Input) (k v : String)
    (hk : k ∈ ["min_offset", "max_offset", "mean_noise", "ntype", "add_noise"])
    (hc : lookupC i "noise_opts" k = some v) :
    ("noise_kwargs." ++ k, typed "noise_opts" k v) ∈ noiseOut i := by
  unfold noiseOut
  simp only [List.mem_filterMap]
  exact ⟨k, hk, by simp [hc]⟩

/-- the function is forward unless `-m` or `-g` is given -/
theorem function_cases (i : Input) :
    function i = "forward" ∨ function i = "misfit" ∨ function i = "gradient" := by
  unfold function
  split
  · right; right; rfl
  · split
    · right; left; rfl
    · left; rfl

/-- non-vacuity: a configuration with documented keys only parses; an unknown key is rejected -/
def exampleOk : Input where
  term := [("nproc", "2")]
  flags := ["gradient"]
  verbosity := 1
  cfg := [("files", "path", "/data"), ("solver_opts", "tol", "1e-4"),
          ("gridding_opts", "cell_number", "8, 16")]
  cwd := "/home"

def exampleBad : Input where
  term := []
  flags := []
  verbosity := 0
  cfg := [("solver_opts", "tolerance", "1e-4")]
  cwd := "/"

example : (match parse exampleOk with | .ok _ => true | _ => false) = true := by decide
example : (match parse exampleBad with
    | .unexpected "solver_opts" ["tolerance"] => true | _ => false) = true := by decide

end Cli
