import Emg3dVerif.Model.Amat
import Emg3dVerif.Lemmas.Sbp
import Mathlib.Tactic.Ring
import Mathlib.Tactic.FieldSimp
import Mathlib.Tactic.LinearCombination
import Mathlib.Algebra.Field.Basic
/-!
# C02 — the matrix-free operator equals the finite-integration discretisation

`Emg.amat` is the model of `emg3d.core.amat_x` (tied to the code by the exact-arithmetic
correspondence of `harness/c02.py`); `Emg.fitX/Y/Z` is the explicitly assembled operator
`curlᵀ M_face(V/μ_r) curl − M_edge(η)` (`η = −s μ₀ V(σ + s ε)`).  Everything is proved over
an arbitrary field `K` (so in particular for real and complex Laplace parameters), for
arbitrary grid sizes, widths, coefficients and fields.
-/
namespace Emg
variable {K : Type} [Field K]

/-! ## operator = FIT assembly on interior edges -/

theorem amat_eq_fit_x (g : Grid K) (m : VM K) (e : EF K) (i j k : Nat)
    (hi : i < g.nx) (hj : j < g.ny) (hk : k < g.nz) (hj1 : 1 ≤ j) (hk1 : 1 ≤ k) :
    (amat g m e).x i j k = fitX g m e i j k := by
  obtain ⟨j, rfl⟩ : ∃ j', j = j' + 1 := ⟨j - 1, by omega⟩
  obtain ⟨k, rfl⟩ : ∃ k', k = k' + 1 := ⟨k - 1, by omega⟩
  have hr : (decide (i < g.nx) && decide (j+1 < g.ny) && decide (k+1 < g.nz)) = true := by simp [hi, hj, hk]
  have hc : ((j+1 == 0) || (k+1 == 0)) = false := by simp
  simp only [amat, hr, if_true, rrx, hc, Bool.false_eq_true, if_false,
    u3pp, u3pm, u2pp, u2pm, v3pp, v3pm, v2pp, v2pm, stx, fitX, curlTX, fluxY, fluxZ, mfY, mfZ,
    curlY, curlZ, meX, Nat.add_sub_cancel]
  ring

theorem amat_eq_fit_y (g : Grid K) (m : VM K) (e : EF K) (i j k : Nat)
    (hi : i < g.nx) (hj : j < g.ny) (hk : k < g.nz) (hi1 : 1 ≤ i) (hk1 : 1 ≤ k) :
    (amat g m e).y i j k = fitY g m e i j k := by
  obtain ⟨i, rfl⟩ : ∃ i', i = i' + 1 := ⟨i - 1, by omega⟩
  obtain ⟨k, rfl⟩ : ∃ k', k = k' + 1 := ⟨k - 1, by omega⟩
  have hr : (decide (i+1 < g.nx) && decide (j < g.ny) && decide (k+1 < g.nz)) = true := by simp [hi, hj, hk]
  have hc : ((i+1 == 0) || (k+1 == 0)) = false := by simp
  simp only [amat, hr, if_true, rry, hc, Bool.false_eq_true, if_false,
    u1pp, u1pm, u3pp, u3mp, v1pp, v1pm, v3pp, v3mp, sty, fitY, curlTY, fluxX, fluxZ, mfX, mfZ,
    curlX, curlZ, meY, Nat.add_sub_cancel]
  ring

theorem amat_eq_fit_z (g : Grid K) (m : VM K) (e : EF K) (i j k : Nat)
    (hi : i < g.nx) (hj : j < g.ny) (hk : k < g.nz) (hi1 : 1 ≤ i) (hj1 : 1 ≤ j) :
    (amat g m e).z i j k = fitZ g m e i j k := by
  obtain ⟨i, rfl⟩ : ∃ i', i = i' + 1 := ⟨i - 1, by omega⟩
  obtain ⟨j, rfl⟩ : ∃ j', j = j' + 1 := ⟨j - 1, by omega⟩
  have hr : (decide (i+1 < g.nx) && decide (j+1 < g.ny) && decide (k < g.nz)) = true := by simp [hi, hj, hk]
  have hc : ((i+1 == 0) || (j+1 == 0)) = false := by simp
  simp only [amat, hr, if_true, rrz, hc, Bool.false_eq_true, if_false,
    u2pp, u2mp, u1pp, u1mp, v2pp, v2mp, v1pp, v1mp, stz, fitZ, curlTZ, fluxX, fluxY, mfX, mfY,
    curlX, curlY, meZ, Nat.add_sub_cancel]
  ring

/-- near boundary faces (`j = 0` or `k = 0`): the curl-curl part is masked, only the σ-term
remains — it multiplies a tangential boundary value, which is zero for PEC fields -/
theorem amat_near_boundary_x (g : Grid K) (m : VM K) (e : EF K) (i j k : Nat)
    (hi : i < g.nx) (hj : j < g.ny) (hk : k < g.nz) (hb : j = 0 ∨ k = 0) :
    (amat g m e).x i j k = - (stx m i j k * e.x i j k / 4) := by
  have : (j == 0 || k == 0) = true := by
    rcases hb with h | h <;> simp [h]
  simp only [amat, hi, hj, hk, decide_true, Bool.and_self, if_true, rrx, this]
  ring

/-- far boundary faces are outside the kernel's loop range: never written -/
theorem amat_far_boundary_untouched (g : Grid K) (m : VM K) (e : EF K) (i j k : Nat)
    (hb : g.nx ≤ i ∨ g.ny ≤ j ∨ g.nz ≤ k) :
    (amat g m e).x i j k = 0 ∧ (amat g m e).y i j k = 0 ∧ (amat g m e).z i j k = 0 := by
  have : (decide (i < g.nx) && decide (j < g.ny) && decide (k < g.nz)) = false := by
    rcases hb with h | h | h
    · have : ¬ i < g.nx := by omega
      simp [this]
    · have : ¬ j < g.ny := by omega
      simp [this]
    · have : ¬ k < g.nz := by omega
      simp [this]
  simp only [amat, this]
  simp

/-! ## the curl-curl part annihilates discrete gradients -/

theorem curl_grad_zero (g : Grid K) (phi : F3 K) (i j k : Nat) :
    curlX g (grad g phi) i j k = 0 ∧ curlY g (grad g phi) i j k = 0 ∧
    curlZ g (grad g phi) i j k = 0 := by
  refine ⟨?_, ?_, ?_⟩ <;> simp only [curlX, curlY, curlZ, grad] <;> ring

theorem fit_curlcurl_annihilates_grad (g : Grid K) (m : VM K) (phi : F3 K) (i j k : Nat) :
    curlTX g (fluxY g m (grad g phi)) (fluxZ g m (grad g phi)) i j k = 0 ∧
    curlTY g (fluxX g m (grad g phi)) (fluxZ g m (grad g phi)) i j k = 0 ∧
    curlTZ g (fluxX g m (grad g phi)) (fluxY g m (grad g phi)) i j k = 0 := by
  have h := curl_grad_zero g phi
  refine ⟨?_, ?_, ?_⟩ <;>
    simp only [curlTX, curlTY, curlTZ, fluxX, fluxY, fluxZ, (h _ _ _).1, (h _ _ _).2.1, (h _ _ _).2.2,
      mul_zero, zero_div, sub_zero, add_zero]

/-- on interior edges the kernel applied to a gradient returns the mass term only -/
theorem amat_curlcurl_annihilates_grad (g : Grid K) (m : VM K) (phi : F3 K) (i j k : Nat)
    (hi : i < g.nx) (hj : j < g.ny) (hk : k < g.nz) (hj1 : 1 ≤ j) (hk1 : 1 ≤ k) :
    (amat g m (grad g phi)).x i j k = - (meX m i j k * (grad g phi).x i j k) := by
  rw [amat_eq_fit_x g m _ i j k hi hj hk hj1 hk1, fitX,
    (fit_curlcurl_annihilates_grad g m phi i j k).1]
  ring

/-! ## linearity -/

def EF.add (a b : EF K) : EF K :=
  { x := fun i j k => a.x i j k + b.x i j k, y := fun i j k => a.y i j k + b.y i j k,
    z := fun i j k => a.z i j k + b.z i j k }
def EF.smul (c : K) (a : EF K) : EF K :=
  { x := fun i j k => c * a.x i j k, y := fun i j k => c * a.y i j k, z := fun i j k => c * a.z i j k }

theorem amat_add (g : Grid K) (m : VM K) (a b : EF K) (i j k : Nat) :
    (amat g m (a.add b)).x i j k = (amat g m a).x i j k + (amat g m b).x i j k ∧
    (amat g m (a.add b)).y i j k = (amat g m a).y i j k + (amat g m b).y i j k ∧
    (amat g m (a.add b)).z i j k = (amat g m a).z i j k + (amat g m b).z i j k := by
  refine ⟨?_, ?_, ?_⟩ <;>
  · simp only [amat, rrx, rry, rrz, u1pp, u1mp, u1pm, u2pp, u2mp, u2pm, u3pp, u3mp, u3pm,
      v1pp, v1mp, v1pm, v2pp, v2mp, v2pm, v3pp, v3mp, v3pm, EF.add]
    split <;> [(split <;> ring); ring]

theorem amat_smul (g : Grid K) (m : VM K) (c : K) (a : EF K) (i j k : Nat) :
    (amat g m (EF.smul c a)).x i j k = c * (amat g m a).x i j k ∧
    (amat g m (EF.smul c a)).y i j k = c * (amat g m a).y i j k ∧
    (amat g m (EF.smul c a)).z i j k = c * (amat g m a).z i j k := by
  refine ⟨?_, ?_, ?_⟩ <;>
  · simp only [amat, rrx, rry, rrz, u1pp, u1mp, u1pm, u2pp, u2mp, u2pm, u3pp, u3mp, u3pm,
      v1pp, v1mp, v1pm, v2pp, v2mp, v2pm, v3pp, v3mp, v3pm, EF.smul]
    split <;> [(split <;> ring); ring]

/-! ## coefficients -/

/-- `eta = −s μ₀ V (σ + s ε₀ ε_r)`; without `ε_r` (diffusive approximation) `−s μ₀ V σ` -/
theorem eta_formula (s mu0 eps0 sigma epsr vol : K) :
    etaCoef (s * mu0) (s * eps0) sigma epsr vol = -(s * mu0 * vol * (sigma + s * eps0 * epsr)) ∧
    etaCoef (s * mu0) (s * eps0) sigma 0 vol = -(s * mu0 * vol * sigma) := by
  constructor <;> simp only [etaCoef] <;> ring

theorem zeta_formula (vol mur : K) (h : mur ≠ 0) : zetaCoef vol mur * mur = vol ∧ zetaCoef vol 1 = vol := by
  constructor
  · simp only [zetaCoef]; field_simp
  · simp [zetaCoef]


/-! ## complex symmetry: `curlᵀ` is the transpose of `curl` (discrete integration by parts) -/
open Finset

/-- vanishing tangential components on the domain boundary -/
structure PEC (g : Grid K) (e : EF K) : Prop where
  x_j0 : ∀ i k, e.x i 0 k = 0
  x_jn : ∀ i k, e.x i g.ny k = 0
  x_k0 : ∀ i j, e.x i j 0 = 0
  x_kn : ∀ i j, e.x i j g.nz = 0
  y_i0 : ∀ j k, e.y 0 j k = 0
  y_in : ∀ j k, e.y g.nx j k = 0
  y_k0 : ∀ i j, e.y i j 0 = 0
  y_kn : ∀ i j, e.y i j g.nz = 0
  z_i0 : ∀ j k, e.z 0 j k = 0
  z_in : ∀ j k, e.z g.nx j k = 0
  z_j0 : ∀ i k, e.z i 0 k = 0
  z_jn : ∀ i k, e.z i g.ny k = 0

/-- bilinear (no conjugation) inner product of two edge fields over all edges of the grid -/
def edgeDot (g : Grid K) (a b : EF K) : K :=
  S3 g.nx (g.ny+1) (g.nz+1) (fun i j k => a.x i j k * b.x i j k) +
  S3 (g.nx+1) g.ny (g.nz+1) (fun i j k => a.y i j k * b.y i j k) +
  S3 (g.nx+1) (g.ny+1) g.nz (fun i j k => a.z i j k * b.z i j k)

/-- inner product of two face fields over all faces of the grid -/
def faceDot (g : Grid K) (wx wy wz cx cy cz : F3 K) : K :=
  S3 (g.nx+1) g.ny g.nz (fun i j k => wx i j k * cx i j k) +
  S3 g.nx (g.ny+1) g.nz (fun i j k => wy i j k * cy i j k) +
  S3 g.nx g.ny (g.nz+1) (fun i j k => wz i j k * cz i j k)

def curlT (g : Grid K) (wx wy wz : F3 K) : EF K :=
  { x := curlTX g wy wz, y := curlTY g wx wz, z := curlTZ g wx wy }

/-- **`curlᵀ` is the transpose of `curl`** on fields with vanishing tangential boundary
values: discrete integration by parts in three dimensions. -/
theorem curlT_adjoint (g : Grid K) (wx wy wz : F3 K) (v : EF K) (hv : PEC g v) :
    edgeDot g (curlT g wx wy wz) v
      = faceDot g wx wy wz (curlX g v) (curlY g v) (curlZ g v) := by
  -- the six integrations by parts
  have hA := sbp3_j g.nx g.ny (g.nz+1) (fun i j k => wz i j k / g.hy j) v.x hv.x_j0 hv.x_jn
  have hB := sbp3_k g.nx (g.ny+1) g.nz (fun i j k => wy i j k / g.hz k) v.x hv.x_k0 hv.x_kn
  have hC := sbp3_k (g.nx+1) g.ny g.nz (fun i j k => wx i j k / g.hz k) v.y hv.y_k0 hv.y_kn
  have hD := sbp3_i g.nx g.ny (g.nz+1) (fun i j k => wz i j k / g.hx i) v.y hv.y_i0 hv.y_in
  have hE := sbp3_i g.nx (g.ny+1) g.nz (fun i j k => wy i j k / g.hx i) v.z hv.z_i0 hv.z_in
  have hF := sbp3_j (g.nx+1) g.ny g.nz (fun i j k => wx i j k / g.hy j) v.z hv.z_j0 hv.z_jn
  -- split the edge side
  have eX : S3 g.nx (g.ny+1) (g.nz+1) (fun i j k => (curlT g wx wy wz).x i j k * v.x i j k)
      = S3 g.nx (g.ny+1) (g.nz+1) (fun i j k => (wz i j k / g.hy j - wz i (j-1) k / g.hy (j-1)) * v.x i j k)
      - S3 g.nx (g.ny+1) (g.nz+1) (fun i j k => (wy i j k / g.hz k - wy i j (k-1) / g.hz (k-1)) * v.x i j k) := by
    rw [← S3_sub]; apply S3_congr; intro i j k; simp only [curlT, curlTX]; ring
  have eY : S3 (g.nx+1) g.ny (g.nz+1) (fun i j k => (curlT g wx wy wz).y i j k * v.y i j k)
      = S3 (g.nx+1) g.ny (g.nz+1) (fun i j k => (wx i j k / g.hz k - wx i j (k-1) / g.hz (k-1)) * v.y i j k)
      - S3 (g.nx+1) g.ny (g.nz+1) (fun i j k => (wz i j k / g.hx i - wz (i-1) j k / g.hx (i-1)) * v.y i j k) := by
    rw [← S3_sub]; apply S3_congr; intro i j k; simp only [curlT, curlTY]; ring
  have eZ : S3 (g.nx+1) (g.ny+1) g.nz (fun i j k => (curlT g wx wy wz).z i j k * v.z i j k)
      = S3 (g.nx+1) (g.ny+1) g.nz (fun i j k => (wy i j k / g.hx i - wy (i-1) j k / g.hx (i-1)) * v.z i j k)
      - S3 (g.nx+1) (g.ny+1) g.nz (fun i j k => (wx i j k / g.hy j - wx i (j-1) k / g.hy (j-1)) * v.z i j k) := by
    rw [← S3_sub]; apply S3_congr; intro i j k; simp only [curlT, curlTZ]; ring
  -- split the face side
  have fX : S3 (g.nx+1) g.ny g.nz (fun i j k => wx i j k * curlX g v i j k)
      = S3 (g.nx+1) g.ny g.nz (fun i j k => wx i j k / g.hy j * (v.z i (j+1) k - v.z i j k))
      - S3 (g.nx+1) g.ny g.nz (fun i j k => wx i j k / g.hz k * (v.y i j (k+1) - v.y i j k)) := by
    rw [← S3_sub]; apply S3_congr; intro i j k; simp only [curlX]; ring
  have fY : S3 g.nx (g.ny+1) g.nz (fun i j k => wy i j k * curlY g v i j k)
      = S3 g.nx (g.ny+1) g.nz (fun i j k => wy i j k / g.hz k * (v.x i j (k+1) - v.x i j k))
      - S3 g.nx (g.ny+1) g.nz (fun i j k => wy i j k / g.hx i * (v.z (i+1) j k - v.z i j k)) := by
    rw [← S3_sub]; apply S3_congr; intro i j k; simp only [curlY]; ring
  have fZ : S3 g.nx g.ny (g.nz+1) (fun i j k => wz i j k * curlZ g v i j k)
      = S3 g.nx g.ny (g.nz+1) (fun i j k => wz i j k / g.hx i * (v.y (i+1) j k - v.y i j k))
      - S3 g.nx g.ny (g.nz+1) (fun i j k => wz i j k / g.hy j * (v.x i (j+1) k - v.x i j k)) := by
    rw [← S3_sub]; apply S3_congr; intro i j k; simp only [curlZ]; ring
  simp only [edgeDot, faceDot]
  rw [eX, eY, eZ, fX, fY, fZ, hA, hB, hC, hD, hE, hF]
  ring



theorem S3_congr_mem (n1 n2 n3 : ℕ) (f h : ℕ → ℕ → ℕ → K)
    (e : ∀ i j k, i < n1 → j < n2 → k < n3 → f i j k = h i j k) :
    S3 n1 n2 n3 f = S3 n1 n2 n3 h := by
  unfold S3
  exact sum_congr rfl fun i hi => sum_congr rfl fun j hj => sum_congr rfl fun k hk =>
    e i j k (mem_range.1 hi) (mem_range.1 hj) (mem_range.1 hk)

def fit (g : Grid K) (m : VM K) (e : EF K) : EF K :=
  { x := fitX g m e, y := fitY g m e, z := fitZ g m e }

def massDot (g : Grid K) (m : VM K) (a b : EF K) : K :=
  S3 g.nx (g.ny+1) (g.nz+1) (fun i j k => meX m i j k * a.x i j k * b.x i j k) +
  S3 (g.nx+1) g.ny (g.nz+1) (fun i j k => meY m i j k * a.y i j k * b.y i j k) +
  S3 (g.nx+1) (g.ny+1) g.nz (fun i j k => meZ m i j k * a.z i j k * b.z i j k)

theorem edgeDot_fit (g : Grid K) (m : VM K) (u v : EF K) (hv : PEC g v) :
    edgeDot g (fit g m u) v
      = faceDot g (fluxX g m u) (fluxY g m u) (fluxZ g m u) (curlX g v) (curlY g v) (curlZ g v)
        - massDot g m u v := by
  rw [← curlT_adjoint g _ _ _ v hv]
  simp only [edgeDot, massDot, fit, curlT, fitX, fitY, fitZ]
  have e1 : ∀ (n1 n2 n3 : ℕ) (c me a b : F3 K),
      S3 n1 n2 n3 (fun i j k => (c i j k - me i j k * a i j k) * b i j k)
        = S3 n1 n2 n3 (fun i j k => c i j k * b i j k) - S3 n1 n2 n3 (fun i j k => me i j k * a i j k * b i j k) := by
    intro n1 n2 n3 c me a b
    rw [← S3_sub]; apply S3_congr; intro i j k; ring
  rw [e1, e1, e1]
  ring

theorem edgeDot_comm (g : Grid K) (a b : EF K) : edgeDot g a b = edgeDot g b a := by
  simp only [edgeDot]
  congr 1
  · congr 1 <;> (apply S3_congr; intro i j k; ring)
  · apply S3_congr; intro i j k; ring

/-- **The assembled finite-integration operator is complex-symmetric** (bilinear form without
conjugation) on fields with vanishing tangential boundary values. -/
theorem fit_symmetric (g : Grid K) (m : VM K) (u v : EF K) (hu : PEC g u) (hv : PEC g v) :
    edgeDot g (fit g m u) v = edgeDot g u (fit g m v) := by
  rw [edgeDot_comm g u, edgeDot_fit g m u v hv, edgeDot_fit g m v u hu]
  simp only [faceDot, massDot, fluxX, fluxY, fluxZ]
  congr 1
  · congr 1
    · congr 1 <;> (apply S3_congr; intro i j k; ring)
    · apply S3_congr; intro i j k; ring
  · congr 1
    · congr 1 <;> (apply S3_congr; intro i j k; ring)
    · apply S3_congr; intro i j k; ring

/-- the kernel and the assembled operator have the same pairing with PEC fields -/
theorem edgeDot_amat_eq_fit (g : Grid K) (m : VM K) (u v : EF K) (hv : PEC g v) :
    edgeDot g (amat g m u) v = edgeDot g (fit g m u) v := by
  simp only [edgeDot]
  congr 1
  · congr 1
    · apply S3_congr_mem; intro i j k hi hj hk
      by_cases h : 1 ≤ j ∧ j < g.ny ∧ 1 ≤ k ∧ k < g.nz
      · rw [amat_eq_fit_x g m u i j k hi h.2.1 h.2.2.2 h.1 h.2.2.1]; rfl
      · have : v.x i j k = 0 := by
          by_cases hj0 : j = 0
          · subst hj0; exact hv.x_j0 i k
          by_cases hjn : j = g.ny
          · subst hjn; exact hv.x_jn i k
          by_cases hk0 : k = 0
          · subst hk0; exact hv.x_k0 i j
          have hkn : k = g.nz := by omega
          subst hkn; exact hv.x_kn i j
        rw [this]; ring
    · apply S3_congr_mem; intro i j k hi hj hk
      by_cases h : 1 ≤ i ∧ i < g.nx ∧ 1 ≤ k ∧ k < g.nz
      · rw [amat_eq_fit_y g m u i j k h.2.1 hj h.2.2.2 h.1 h.2.2.1]; rfl
      · have : v.y i j k = 0 := by
          by_cases hi0 : i = 0
          · subst hi0; exact hv.y_i0 j k
          by_cases hin : i = g.nx
          · subst hin; exact hv.y_in j k
          by_cases hk0 : k = 0
          · subst hk0; exact hv.y_k0 i j
          have hkn : k = g.nz := by omega
          subst hkn; exact hv.y_kn i j
        rw [this]; ring
  · apply S3_congr_mem; intro i j k hi hj hk
    by_cases h : 1 ≤ i ∧ i < g.nx ∧ 1 ≤ j ∧ j < g.ny
    · rw [amat_eq_fit_z g m u i j k h.2.1 h.2.2.2 hk h.1 h.2.2.1]; rfl
    · have : v.z i j k = 0 := by
        by_cases hi0 : i = 0
        · subst hi0; exact hv.z_i0 j k
        by_cases hin : i = g.nx
        · subst hin; exact hv.z_in j k
        by_cases hj0 : j = 0
        · subst hj0; exact hv.z_j0 i k
        have hjn : j = g.ny := by omega
        subst hjn; exact hv.z_jn i k
      rw [this]; ring

/-- **The matrix-free operator is complex-symmetric** on PEC fields. -/
theorem amat_symmetric (g : Grid K) (m : VM K) (u v : EF K) (hu : PEC g u) (hv : PEC g v) :
    edgeDot g (amat g m u) v = edgeDot g u (amat g m v) := by
  rw [edgeDot_amat_eq_fit g m u v hv, fit_symmetric g m u v hu hv, edgeDot_comm g u,
    ← edgeDot_amat_eq_fit g m v u hu, edgeDot_comm]


/-! ## non-vacuity -/

/-- a non-zero PEC field on a 2×2×2 grid over ℚ -/
example : PEC (K := ℚ) ⟨2, 2, 2, fun _ => 1, fun _ => 1, fun _ => 1⟩
    ⟨fun _ j k => if j = 1 ∧ k = 1 then 1 else 0, fun _ _ _ => 0, fun _ _ _ => 0⟩ := by
  constructor <;> intros <;> simp

end Emg
