import Emg3dVerif.Props.Coercive
set_option linter.unusedSectionVars false
/-!
# C06 (structural part) — the multigrid call is a stationary *linear* iteration

What can be proved about "multigrid converges at a grid-size-independent rate": not the rate
(a quantitative statement of numerical analysis, measured by `harness/c06.py`), but that the
notion is well defined for this code:

* `runTrace_add`: one complete call is additive in (source, start field), for every event
  trace — provided every block system met is solved (flags; non-singularity is proved for
  physical models in `Coercive.lean`);
* `mg_error_propagation`: started from `e* + d` with `e*` the exact solution of the system
  with source `s`, the call returns `e* +` (what it returns for the error `d` with **zero
  source**): the error after a cycle depends on the error before, the grid, the model and
  the cycle parameters only — not on the source.  "Reduction factor per cycle" is therefore a
  property of (grid, model, cycle), which is what the measurement compares across grid sizes;
* with `mgRun_fixed_phys` and `solution_unique_phys` (Coercive): the limit, if the iteration
  converges, is *the* solution.
-/
namespace Emg
open MGH
variable {K : Type} [Field K] [DecidableEq K]

def Lvl.add (a b : Lvl K) : Lvl K := { g := a.g, m := a.m, s := a.s.add b.s, e := a.e.add b.e }

theorem EF.add_ext (a b c : EF K) (h : ∀ d, c.get d = a.get d + b.get d) : c = a.add b :=
  EF.ext_get _ _ fun d => by rw [h d, EF.get_add]

theorem zero_add_zero : (zeroEF : EF K).add zeroEF = zeroEF :=
  EF.ext_get _ _ fun d => by rw [EF.get_add, zeroEF_get]; ring

theorem add_zeroEF (a : EF K) : a.add zeroEF = a :=
  EF.ext_get _ _ fun d => by rw [EF.get_add, zeroEF_get]; ring

theorem residual_add (g : Grid K) (m : VM K) (s1 s2 e1 e2 : EF K) :
    residual g m (s1.add s2) (e1.add e2) = (residual g m s1 e1).add (residual g m s2 e2) := by
  simp only [residual_eq]
  apply EF.add_ext
  intro d
  simp only [EF.get_minus, EF.get_add]
  have := amatAt_add g m e1 e2 d
  unfold amatAt at this
  rw [this]; ring

theorem R1_add (mode : Mode) (h : ℕ → K) (n : ℕ) (r1 r2 : ℕ → K) (I : ℕ) :
    R1 mode h n (fun i => r1 i + r2 i) I = R1 mode h n r1 I + R1 mode h n r2 I := by
  cases mode <;> simp only [R1] <;> ring

theorem R3_add (mx my mz : Mode) (g : Grid K) (r1 r2 : F3 K) (I J L : ℕ) :
    R3 mx my mz g (fun i j k => r1 i j k + r2 i j k) I J L
      = R3 mx my mz g r1 I J L + R3 mx my mz g r2 I J L := by
  simp only [R3, R1_add]

theorem restrict_add (sc : ℕ) (g : Grid K) (a b : EF K) :
    restrict sc g (a.add b) = (restrict sc g a).add (restrict sc g b) := by
  apply EF.add_ext
  intro d
  obtain ⟨c, i, j, k⟩ := d
  cases c <;> simp only [EF.get, restrict, EF.add, R3_add] <;> split <;> ring

theorem P1_add (mode : Mode) (h : ℕ → K) (c1 c2 : ℕ → K) (i : ℕ) :
    P1 mode h (fun I => c1 I + c2 I) i = P1 mode h c1 i + P1 mode h c2 i := by
  cases mode <;> simp only [P1]
  · split <;> ring

theorem P3_add (mx my mz : Mode) (g : Grid K) (c1 c2 : F3 K) (i j k : ℕ) :
    P3 mx my mz g (fun I J L => c1 I J L + c2 I J L) i j k
      = P3 mx my mz g c1 i j k + P3 mx my mz g c2 i j k := by
  simp only [P3, P1_add]

theorem prolong_add (sc : ℕ) (g : Grid K) (e1 e2 c1 c2 : EF K) :
    prolong sc g (e1.add e2) (c1.add c2) = (prolong sc g e1 c1).add (prolong sc g e2 c2) := by
  apply EF.add_ext
  intro d
  obtain ⟨c, i, j, k⟩ := d
  cases c <;> simp only [EF.get, prolong, EF.add, P3_add] <;> split <;> ring

theorem smoothingC_add (g : Grid K) (m : VM K) (s1 s2 e1 e2 : EF K) (nu clr : ℕ)
    (hinj : AllInj g m)
    (h1 : (smoothingC g m s1 e1 nu clr).2 = true) (h2 : (smoothingC g m s2 e2 nu clr).2 = true)
    (h12 : (smoothingC g m (s1.add s2) (e1.add e2) nu clr).2 = true) :
    (smoothingC g m (s1.add s2) (e1.add e2) nu clr).1
      = (smoothingC g m s1 e1 nu clr).1.add (smoothingC g m s2 e2 nu clr).1 := by
  unfold smoothingC at *
  refine relaxAll_add g m s1 s2 _ ?_ e1 e2 true true true h1 h2 h12
  intro B hB
  simp only [List.mem_flatMap] at hB
  obtain ⟨kernel, _, hB⟩ := hB
  exact hinj kernel nu B hB

theorem coarseLvl_add (csc : ℕ) (a b : Lvl K) (hg : a.g = b.g) (hm : a.m = b.m) :
    coarseLvl csc (a.add b) = (coarseLvl csc a).add (coarseLvl csc b) := by
  cases a with | mk ag am as ae =>
  cases b with | mk bg bm bs be =>
  simp only at hg hm
  subst hg; subst hm
  simp only [coarseLvl, Lvl.add, matEF_eq, residual_add, restrict_add, zero_add_zero]

/-- three stacks in step: same grids and models, the third the sum of the first two -/
inductive Rel (g0 : Grid K) (m0 : VM K) : List (Lvl K) → List (Lvl K) → List (Lvl K) → Prop
  | nil : Rel g0 m0 [] [] []
  | cons {a b : Lvl K} {A B C : List (Lvl K)} :
      a.g = b.g → a.m = b.m → Reach g0 m0 a.g a.m → Rel g0 m0 A B C →
      Rel g0 m0 (a :: A) (b :: B) (a.add b :: C)

theorem step_flag (st : List (Lvl K) × Bool) (ev : Ev) (h : (step st ev).2 = true) :
    st.2 = true := by
  obtain ⟨stack, ok⟩ := st
  cases ev with
  | enter a b c => cases stack <;> exact h
  | cycleEnd a b c => cases stack <;> exact h
  | smooth lev sh nu clr =>
    cases stack with
    | nil => exact h
    | cons l ls =>
      simp only [step, Bool.and_eq_true] at h
      exact h.1
  | restrict lev sh csc cs => cases stack <;> exact h
  | prolong lev sh csc =>
    cases stack with
    | nil => exact h
    | cons c ls => cases ls <;> exact h

theorem runTrace_flag (evs : List Ev) : ∀ st : List (Lvl K) × Bool,
    (runTrace st evs).2 = true → st.2 = true := by
  induction evs with
  | nil => intro st h; exact h
  | cons ev evs ih =>
    intro st h
    simp only [runTrace, List.foldl_cons] at h
    exact step_flag st ev (ih _ h)

theorem step_add (g0 : Grid K) (m0 : VM K) (hInj : ∀ g m, Reach g0 m0 g m → AllInj g m)
    (A B C : List (Lvl K)) (o1 o2 o3 : Bool) (h : Rel g0 m0 A B C) (ev : Ev)
    (f1 : (step (A, o1) ev).2 = true) (f2 : (step (B, o2) ev).2 = true)
    (f3 : (step (C, o3) ev).2 = true) :
    Rel g0 m0 (step (A, o1) ev).1 (step (B, o2) ev).1 (step (C, o3) ev).1 := by
  cases ev with
  | enter a b c => cases h <;> first | exact Rel.nil | (rename_i h1 h2 h3 h4; exact Rel.cons h1 h2 h3 h4)
  | cycleEnd a b c => cases h <;> first | exact Rel.nil | (rename_i h1 h2 h3 h4; exact Rel.cons h1 h2 h3 h4)
  | smooth lev sh nu clr =>
    cases h with
    | nil => exact Rel.nil
    | @cons a b A' B' C' hg hm hr hrest =>
      simp only [step, Bool.and_eq_true] at f1 f2 f3 ⊢
      have hgb : (a.add b).g = a.g := rfl
      have hmb : (a.add b).m = a.m := rfl
      have key := smoothingC_add a.g a.m a.s b.s a.e b.e nu clr (hInj _ _ hr) f1.2
        (by rw [hg, hm]; exact f2.2) f3.2
      have : ({ (a.add b) with e := (smoothingC (a.add b).g (a.add b).m (a.add b).s (a.add b).e nu clr).1 } : Lvl K)
          = Lvl.add { a with e := (smoothingC a.g a.m a.s a.e nu clr).1 }
              { b with e := (smoothingC b.g b.m b.s b.e nu clr).1 } := by
        simp only [Lvl.add] at key ⊢
        rw [key, hg, hm]
      rw [this]
      exact Rel.cons hg hm hr hrest
  | restrict lev sh csc cs =>
    cases h with
    | nil => exact Rel.nil
    | @cons a b A' B' C' hg hm hr hrest =>
      simp only [step]
      rw [coarseLvl_add csc a b hg hm]
      refine Rel.cons ?_ ?_ (Reach.step csc hr) (Rel.cons hg hm hr hrest)
      · simp only [coarseLvl, hg]
      · simp only [coarseLvl, hg, hm]
  | prolong lev sh csc =>
    cases h with
    | nil => exact Rel.nil
    | @cons c1 c2 A' B' C' hg hm hr hrest =>
      cases hrest with
      | nil => exact Rel.cons hg hm hr Rel.nil
      | @cons a b A'' B'' C'' hg' hm' hr' hrest' =>
        simp only [step]
        have : ({ (a.add b) with e := matEF (a.add b).g (prolong csc (a.add b).g (a.add b).e (c1.add c2).e) } : Lvl K)
            = Lvl.add { a with e := matEF a.g (prolong csc a.g a.e c1.e) }
                { b with e := matEF b.g (prolong csc b.g b.e c2.e) } := by
          simp only [Lvl.add, matEF_eq, prolong_add, hg']
        rw [this]
        exact Rel.cons hg' hm' hr' hrest'

/-- **One complete multigrid call is additive in (source, start field)**, for every trace,
whenever all block systems met are solved. -/
theorem runTrace_add (g0 : Grid K) (m0 : VM K) (hInj : ∀ g m, Reach g0 m0 g m → AllInj g m)
    (evs : List Ev) : ∀ (A B C : List (Lvl K)) (o1 o2 o3 : Bool), Rel g0 m0 A B C →
    (runTrace (A, o1) evs).2 = true → (runTrace (B, o2) evs).2 = true →
    (runTrace (C, o3) evs).2 = true →
    Rel g0 m0 (runTrace (A, o1) evs).1 (runTrace (B, o2) evs).1 (runTrace (C, o3) evs).1 := by
  induction evs with
  | nil => intro A B C o1 o2 o3 h _ _ _; exact h
  | cons ev evs ih =>
    intro A B C o1 o2 o3 h f1 f2 f3
    simp only [runTrace, List.foldl_cons] at f1 f2 f3 ⊢
    have g1 := runTrace_flag evs _ f1
    have g2 := runTrace_flag evs _ f2
    have g3 := runTrace_flag evs _ f3
    have hs := step_add g0 m0 hInj A B C o1 o2 o3 h ev g1 g2 g3
    exact ih _ _ _ _ _ _ hs f1 f2 f3

/-- **Error propagation is independent of the source.**  `l0` holds an exact solution `e*` of
its system; started from `e* + d`, the call returns (level by level of whatever is left on the
stack) the sum of what it returns for `(s, e*)` — which is `(s, e*)` itself by
`mgRun_fixed` — and what it returns for the error `d` with zero source. -/
theorem mg_error_propagation (r : Run) (l0 : Lvl K) (d : EF K)
    (hInj : ∀ g m, Reach l0.g l0.m g m → AllInj g m)
    (f1 : (mgRun r l0).2 = true)
    (f2 : (mgRun r { l0 with s := zeroEF, e := d }).2 = true)
    (f3 : (mgRun r { l0 with e := l0.e.add d }).2 = true) :
    Rel l0.g l0.m (mgRun r l0).1 (mgRun r { l0 with s := zeroEF, e := d }).1
      (mgRun r { l0 with e := l0.e.add d }).1 := by
  have hrel : Rel l0.g l0.m [l0] [{ l0 with s := zeroEF, e := d }]
      [{ l0 with e := l0.e.add d }] := by
    have : ({ l0 with e := l0.e.add d } : Lvl K) = l0.add { l0 with s := zeroEF, e := d } := by
      simp only [Lvl.add, add_zeroEF]
    rw [this]
    exact Rel.cons rfl rfl Reach.base Rel.nil
  exact runTrace_add l0.g l0.m hInj (mgTrace r) _ _ _ true true true hrel f1 f2 f3

/-- for physical models the non-singularity hypothesis is discharged -/
theorem mg_error_propagation_phys (r : Run) (l0 : Lvl ℂ) (d : EF ℂ) {a b : ℝ}
    (h : Phys l0.g l0.m a b)
    (f1 : (mgRun r l0).2 = true)
    (f2 : (mgRun r { l0 with s := zeroEF, e := d }).2 = true)
    (f3 : (mgRun r { l0 with e := l0.e.add d }).2 = true) :
    Rel l0.g l0.m (mgRun r l0).1 (mgRun r { l0 with s := zeroEF, e := d }).1
      (mgRun r { l0 with e := l0.e.add d }).1 :=
  mg_error_propagation r l0 d (fun _ _ hr => allInj_phys (h.reach hr)) f1 f2 f3

end Emg
