import Emg3dVerif.Lemmas.Hier
/-!
# C05 — grid hierarchy and V/W/F cycling are well-formed

Property theorems about `MGH.mgTrace` (the control model of `emg3d.solver.multigrid`,
tied to the code by the event-trace correspondence of `harness/c05.py`).
All statements hold for every shape with at least two cells per direction, every
semicoarsening direction `sc ≤ 3`, every user limit, with no bound on sizes or depth.
-/
namespace MGH

/-- shape on level `l` as the recursion produces it: repeated `restriction` -/
def shapeAt (sc : Nat) (s : Shape) : Nat → Shape
  | 0 => s
  | l+1 => coarsen (currentScDir sc (shapeAt sc s l)) (shapeAt sc s l)

/-- closed form: every non-excluded direction halved `min l (halvings n)` times -/
def closedShape (sc : Nat) (s : Shape) (l : Nat) : Shape :=
  (dirAt (sc == 1) s.1 l, dirAt (sc == 2) s.2.1 l, dirAt (sc == 3) s.2.2 l)

def allBlocked (sc : Nat) (t : Shape) : Bool :=
  blocked t.1 (sc == 1) && blocked t.2.1 (sc == 2) && blocked t.2.2 (sc == 3)

def Ge2 (s : Shape) : Prop := 2 ≤ s.1 ∧ 2 ≤ s.2.1 ∧ 2 ≤ s.2.2

/-- `restriction` halves exactly the directions that are even, larger than two and not the
semicoarsening direction — provided at least one such direction exists (otherwise the code's
fall-through `c_sc_dir = 6` would halve z regardless). -/
theorem coarsen_of_unblocked (sc : Nat) (t : Shape) (h : allBlocked sc t = false) :
    coarsen (currentScDir sc t) t
      = (stepDir (sc == 1) t.1, stepDir (sc == 2) t.2.1, stepDir (sc == 3) t.2.2) := by
  obtain ⟨a, b, c⟩ := t
  simp only [coarsen, currentScDir, stepDir, allBlocked] at *
  cases hx : blocked a (sc == 1) <;> cases hy : blocked b (sc == 2) <;>
    cases hz : blocked c (sc == 3) <;> simp_all <;> omega

/-- below the coarsest level some direction can still be halved -/
theorem exists_unblocked (user : Option Nat) (sc : Nat) (s : Shape) (hs : Ge2 s) (hsc : sc ≤ 3)
    (l : Nat) (hl : l < table (clevelDirs user s) sc) :
    allBlocked sc (closedShape sc s l) = false := by
  obtain ⟨a, b, c⟩ := s
  obtain ⟨ha, hb, hc⟩ := hs
  simp only at ha hb hc
  have la := lim_le user (halvings a)
  have lb := lim_le user (halvings b)
  have lc := lim_le user (halvings c)
  have hsc' : sc = 0 ∨ sc = 1 ∨ sc = 2 ∨ sc = 3 := by omega
  rcases hsc' with rfl | rfl | rfl | rfl <;>
    simp only [table, clevelDirs] at hl <;>
    simp only [allBlocked, closedShape]
  · by_cases h1 : l < halvings a
    · simp [not_blocked_of_lt a l ha h1]
    · by_cases h2 : l < halvings b
      · simp [not_blocked_of_lt b l hb h2]
      · have h3 : l < halvings c := by omega
        simp [not_blocked_of_lt c l hc h3]
  · by_cases h2 : l < halvings b
    · simp [not_blocked_of_lt b l hb h2]
    · have h3 : l < halvings c := by omega
      simp [not_blocked_of_lt c l hc h3]
  · by_cases h1 : l < halvings a
    · simp [not_blocked_of_lt a l ha h1]
    · have h3 : l < halvings c := by omega
      simp [not_blocked_of_lt c l hc h3]
  · by_cases h1 : l < halvings a
    · simp [not_blocked_of_lt a l ha h1]
    · have h2 : l < halvings b := by omega
      simp [not_blocked_of_lt b l hb h2]

/-- **Descent invariant.**  On every level `l` up to the coarsest level `D = clevel[sc]` the
recursion's grid is the closed form: only directions that are even and larger than two, and
never the semicoarsening direction, have been halved; below `D` at least one direction is
halved (the degenerate "halve z anyway" branch is unreachable). -/
theorem descent_invariant (user : Option Nat) (sc : Nat) (s : Shape) (hs : Ge2 s) (hsc : sc ≤ 3) :
    ∀ l, l ≤ table (clevelDirs user s) sc →
      shapeAt sc s l = closedShape sc s l ∧
      (l < table (clevelDirs user s) sc → allBlocked sc (shapeAt sc s l) = false) := by
  intro l
  induction l with
  | zero =>
    intro h0
    have e : shapeAt sc s 0 = closedShape sc s 0 := by
      obtain ⟨a, b, c⟩ := s
      simp [shapeAt, closedShape, dirAt]
    exact ⟨e, fun hl => by rw [e]; exact exists_unblocked user sc s hs hsc 0 hl⟩
  | succ l ih =>
    intro hl
    have ⟨e, hb⟩ := ih (by omega)
    have hb' := hb (by omega)
    have e1 : shapeAt sc s (l+1) = closedShape sc s (l+1) := by
      show coarsen (currentScDir sc (shapeAt sc s l)) (shapeAt sc s l) = _
      rw [coarsen_of_unblocked sc _ hb', e]
      obtain ⟨a, b, c⟩ := s
      obtain ⟨ha, hb2, hc⟩ := hs
      simp only [closedShape]
      rw [stepDir_dirAt _ a l ha, stepDir_dirAt _ b l hb2, stepDir_dirAt _ c l hc]
    exact ⟨e1, fun hl' => by rw [e1]; exact exists_unblocked user sc s hs hsc (l+1) hl'⟩

/-- no level has fewer than two cells in any direction -/
theorem shapeAt_ge_two (user : Option Nat) (sc : Nat) (s : Shape) (hs : Ge2 s) (hsc : sc ≤ 3)
    (l : Nat) (hl : l ≤ table (clevelDirs user s) sc) : Ge2 (shapeAt sc s l) := by
  rw [(descent_invariant user sc s hs hsc l hl).1]
  obtain ⟨a, b, c⟩ := s
  obtain ⟨ha, hb, hc⟩ := hs
  exact ⟨dirAt_ge_two _ a l ha, dirAt_ge_two _ b l hb, dirAt_ge_two _ c l hc⟩

/-- what the header announces per direction: `n / 2^clevel_i`; the semicoarsening direction is
not coarsened at all -/
def announced (user : Option Nat) (sc : Nat) (s : Shape) : Shape :=
  let c := clevelDirs user s
  (if sc == 1 then s.1 else s.1 / 2 ^ c.1,
   if sc == 2 then s.2.1 else s.2.1 / 2 ^ c.2.1,
   if sc == 3 then s.2.2 else s.2.2 / 2 ^ c.2.2)

theorem min_table_eq (user : Option Nat) (h D : Nat) (hD1 : lim user h ≤ D)
    (hD2 : ∀ u, user = some u → D ≤ u) : min D h = lim user h := by
  unfold lim at *
  cases user with
  | none => simp at *; omega
  | some u =>
    have := hD2 u rfl
    simp only at hD1 ⊢
    split at hD1 <;> split <;> omega

theorem table_le_user (u : Nat) (s : Shape) (sc : Nat) :
    table (clevelDirs (some u) s) sc ≤ u := by
  have h : ∀ c, lim (some u) c ≤ u := by
    intro c; unfold lim; simp only; split <;> omega
  have h1 := h (halvings s.1); have h2 := h (halvings s.2.1); have h3 := h (halvings s.2.2)
  unfold table clevelDirs
  split <;> simp only <;> omega

/-- **The recursion bottoms out exactly at the announced coarsest grid.**  On level
`D = clevel[sc]` the grid is `n_i / 2^{clevel_i}` in every coarsened direction. -/
theorem bottom_exact (user : Option Nat) (sc : Nat) (s : Shape) (hs : Ge2 s) (hsc : sc ≤ 3) :
    shapeAt sc s (table (clevelDirs user s) sc) = announced user sc s := by
  rw [(descent_invariant user sc s hs hsc _ (Nat.le_refl _)).1]
  obtain ⟨a, b, c⟩ := s
  have hu : ∀ u, user = some u → table (clevelDirs user (a, b, c)) sc ≤ u := by
    intro u hu; subst hu; exact table_le_user u _ _
  have hsc' : sc = 0 ∨ sc = 1 ∨ sc = 2 ∨ sc = 3 := by omega
  rcases hsc' with rfl | rfl | rfl | rfl <;>
    simp only [closedShape, announced, dirAt, clevelDirs, table] at * <;> simp
  · refine ⟨?_, ?_, ?_⟩ <;> rw [min_table_eq user _ _ (by omega) hu]
  · refine ⟨?_, ?_⟩ <;> rw [min_table_eq user _ _ (by omega) hu]
  · refine ⟨?_, ?_⟩ <;> rw [min_table_eq user _ _ (by omega) hu]
  · refine ⟨?_, ?_⟩ <;> rw [min_table_eq user _ _ (by omega) hu]

/-- without semicoarsening the bottom grid is the "Coarsest grid" of the solver header -/
theorem bottom_matches_header (user : Option Nat) (s : Shape) (hs : Ge2 s) :
    shapeAt 0 s (table (clevelDirs user s) 0) = reprShape user s := by
  rw [bottom_exact user 0 s hs (by omega)]
  simp [announced, reprShape]


/-! ## Events of the recursion -/


def Ev.Good (sc lr D : Nat) (s0 : Shape) : Ev → Prop
  | .enter l _ s => l ≤ D ∧ s = shapeAt sc s0 l
  | .smooth l s _ clr => l ≤ D ∧ s = shapeAt sc s0 l ∧ clr = currentLrDir lr s
  | .restrict l s csc cs =>
      l < D ∧ s = shapeAt sc s0 l ∧ csc = currentScDir sc s ∧ cs = shapeAt sc s0 (l+1)
  | .prolong l s csc => l < D ∧ s = shapeAt sc s0 l ∧ csc = currentScDir sc s
  | .cycleEnd _ _ _ => True

theorem passes_good (cfg : Cfg) (sc lr D : Nat) (s0 : Shape) :
    ∀ fuel level nc, level + fuel = D →
      ∀ ev ∈ passes cfg sc lr fuel level nc (shapeAt sc s0 level), Ev.Good sc lr D s0 ev := by
  intro fuel
  induction fuel with
  | zero =>
    intro level nc h ev hev
    simp only [passes, List.mem_cons, List.mem_nil_iff, or_false] at hev
    rcases hev with rfl | rfl <;> simp [Ev.Good] <;> omega
  | succ fuel ih =>
    intro level nc h ev hev
    simp only [passes, List.mem_cons, List.mem_flatMap, List.mem_append, List.mem_range, pre, post,
      List.mem_nil_iff, or_false] at hev
    rcases hev with rfl | ⟨it, _, hev⟩
    · simp [Ev.Good]; omega
    · rcases hev with (((hev | hev) | hev) | hev) | hev
      · split at hev
        · simp only [List.mem_cons, List.mem_nil_iff, or_false] at hev
          subst hev; simp [Ev.Good]; omega
        · simp at hev
      · subst hev; simp [Ev.Good, shapeAt]; omega
      · exact ih (level+1) _ (by omega) ev hev
      · subst hev; simp [Ev.Good]; omega
      · split at hev
        · simp only [List.mem_cons, List.mem_nil_iff, or_false] at hev
          subst hev; simp [Ev.Good]; omega
        · simp at hev

/-! ## Level order of V, W and F cycles -/


def smoothLevels (l : List Ev) : List Nat :=
  l.filterMap (fun e => match e with | .smooth l _ _ _ => some l | _ => none)

def seqV : Nat → Nat → List Nat
  | 0, l => [l]
  | k+1, l => l :: seqV k (l+1) ++ [l]
def seqW : Nat → Nat → List Nat
  | 0, l => [l]
  | k+1, l => (l :: seqW k (l+1) ++ [l]) ++ (l :: seqW k (l+1) ++ [l])
def seqF : Nat → Nat → List Nat
  | 0, l => [l]
  | k+1, l => (l :: seqF k (l+1) ++ [l]) ++ (l :: seqV k (l+1) ++ [l])

theorem passes_levels_V (cfg : Cfg) (sc lr : Nat) (hc : cfg.cycmax = 1) (hF : cfg.isF = false)
    (h1 : cfg.nuPre > 0) (h2 : cfg.nuPost > 0) :
    ∀ fuel level nc s, smoothLevels (passes cfg sc lr fuel level nc s) = seqV fuel level := by
  intro fuel
  induction fuel with
  | zero => intro level nc s; simp [passes, smoothLevels, seqV]
  | succ fuel ih =>
    intro level nc s
    have ih' := fun l n t => ih l n t
    simp only [smoothLevels] at ih' ⊢
    simp [passes, hc, hF, pre, post, h1, h2, seqV, List.range_succ, List.filterMap_append, ih']

theorem passes_levels_W (cfg : Cfg) (sc lr : Nat) (hc : cfg.cycmax = 2) (hF : cfg.isF = false)
    (h1 : cfg.nuPre > 0) (h2 : cfg.nuPost > 0) :
    ∀ fuel level nc s, smoothLevels (passes cfg sc lr fuel level nc s) = seqW fuel level := by
  intro fuel
  induction fuel with
  | zero => intro level nc s; simp [passes, smoothLevels, seqW]
  | succ fuel ih =>
    intro level nc s
    have ih' := fun l n t => ih l n t
    simp only [smoothLevels] at ih' ⊢
    simp [passes, hc, hF, pre, post, h1, h2, seqW, List.range_succ, List.filterMap_append, ih']

theorem passes_levels_F (cfg : Cfg) (sc lr : Nat) (hF : cfg.isF = true)
    (h1 : cfg.nuPre > 0) (h2 : cfg.nuPost > 0) :
    ∀ fuel level s,
      smoothLevels (passes cfg sc lr fuel level 2 s) = seqF fuel level ∧
      smoothLevels (passes cfg sc lr fuel level 1 s) = seqV fuel level := by
  intro fuel
  induction fuel with
  | zero => intro level s; simp [passes, smoothLevels, seqF, seqV]
  | succ fuel ih =>
    intro level s
    have ihF := fun l t => (ih l t).1
    have ihV := fun l t => (ih l t).2
    simp only [smoothLevels] at ihF ihV ⊢
    constructor
    · simp [passes, hF, pre, post, h1, h2, seqF, List.range_succ, List.filterMap_append, ihF, ihV]
    · simp [passes, hF, pre, post, h1, h2, seqV, List.range_succ, List.filterMap_append, ihV]

theorem count_seqV (k : Nat) : ∀ l m, l + k = m → (seqV k l).count m = 1 := by
  induction k with
  | zero => intro l m h; simp at h; subst h; simp [seqV]
  | succ k ih =>
    intro l m h
    have hne : l ≠ m := by omega
    simp only [seqV, List.count_cons, List.count_append, List.count_nil]
    rw [ih (l+1) m (by omega)]
    simp [hne]

theorem count_seqW (k : Nat) : ∀ l m, l + k = m → (seqW k l).count m = 2 ^ k := by
  induction k with
  | zero => intro l m h; simp at h; subst h; simp [seqW]
  | succ k ih =>
    intro l m h
    have hne : l ≠ m := by omega
    simp only [seqW, List.count_cons, List.count_append, List.count_nil]
    rw [ih (l+1) m (by omega)]
    simp [hne, Nat.pow_succ]; omega

theorem count_seqF (k : Nat) : ∀ l m, l + k = m → (seqF k l).count m = k + 1 := by
  induction k with
  | zero => intro l m h; simp at h; subst h; simp [seqF]
  | succ k ih =>
    intro l m h
    have hne : l ≠ m := by omega
    simp only [seqF, List.count_cons, List.count_append, List.count_nil]
    rw [ih (l+1) m (by omega), count_seqV k (l+1) m (by omega)]
    simp [hne]


/-! ## One fine-grid cycle -/

theorem fineIter_good (cfg : Cfg) (sc lr cm D : Nat) (s0 : Shape) :
    ∀ ev ∈ fineIter cfg D sc lr cm s0, Ev.Good sc lr D s0 ev := by
  intro ev hev
  cases D with
  | zero =>
    simp only [fineIter, List.mem_cons, List.mem_nil_iff, or_false] at hev
    subst hev; simp [Ev.Good, shapeAt]
  | succ D' =>
    simp only [fineIter, List.mem_cons, List.mem_append, pre, post, List.mem_nil_iff, or_false] at hev
    rcases hev with (((hev | hev) | hev) | hev) | hev
    · split at hev
      · simp only [List.mem_cons, List.mem_nil_iff, or_false] at hev
        subst hev; simp [Ev.Good, shapeAt]
      · simp at hev
    · subst hev; simp [Ev.Good, shapeAt]
    · exact passes_good cfg sc lr (D'+1) s0 D' 1 cm (by omega) ev hev
    · subst hev; simp [Ev.Good, shapeAt]
    · split at hev
      · simp only [List.mem_cons, List.mem_nil_iff, or_false] at hev
        subst hev; simp [Ev.Good, shapeAt]
      · simp at hev

/-- the fine-grid cycle `k` (0-based position in the direction patterns) as it should be:
directions `pattern[k mod len]`, depth and level-0 `cycmax` belonging to *that* direction -/
def cycleOf (r : Run) (k : Nat) : List Ev :=
  let D := table (clevelDirs r.user r.shape) (pat r.scPat k)
  fineIter r.cfg D (pat r.scPat k) (pat r.lrPat k) (cycmaxEntry r.cfg D) r.shape

/-- specification of the fine-grid loop: no carried `cycmax`, no conditional advance -/
def cyclesSpec (r : Run) : Nat → Nat → Nat → List Ev
  | 0, _, _ => []
  | n+1, k, it =>
      cycleOf r k ++ [Ev.cycleEnd (it+1) (pat r.scPat (k+1)) (pat r.lrPat (k+1))] ++
      cyclesSpec r n (k+1) (it+1)

theorem pat_succ_of_short (p : List Nat) (h : ¬ p.length > 1) (k : Nat) : pat p (k+1) = pat p k := by
  unfold pat
  have : p.length = 0 ∨ p.length = 1 := by omega
  rcases this with h0 | h1
  · have : p = [] := List.length_eq_zero_iff.mp h0
    subst this; simp
  · rw [h1]; simp [Nat.mod_one]

/-- **Directions advance cyclically, exactly once per fine-grid cycle, and the cycle type is
re-evaluated for every direction**: the coded loop (carried `cycmax`, conditional `next()`)
equals the specification. -/
theorem cycmax_follows_direction (r : Run) : ∀ n k it,
    fineLoop r n k it (cycmaxEntry r.cfg (table (clevelDirs r.user r.shape) (pat r.scPat k)))
      = cyclesSpec r n k it := by
  intro n
  induction n with
  | zero => intro k it; rfl
  | succ n ih =>
    intro k it
    simp only [fineLoop, cyclesSpec, cycleOf]
    by_cases hs : r.scPat.length > 1 <;> by_cases hl : r.lrPat.length > 1 <;>
      simp only [hs, hl, if_true, if_false]
    · rw [ih]
    · rw [ih, pat_succ_of_short _ hl]
    · rw [← pat_succ_of_short _ hs k, ih, pat_succ_of_short _ hs k]
    · rw [← pat_succ_of_short _ hs k, ih, pat_succ_of_short _ hs k, pat_succ_of_short _ hl]

def cycleEnds (l : List Ev) : List Ev :=
  l.filter (fun e => match e with | .cycleEnd _ _ _ => true | _ => false)

def Ev.notCycleEnd : Ev → Bool
  | .cycleEnd _ _ _ => false
  | _ => true

theorem passes_mem_notCycleEnd (cfg : Cfg) (sc lr : Nat) : ∀ fuel level nc s,
    ∀ ev ∈ passes cfg sc lr fuel level nc s, ev.notCycleEnd = true := by
  intro fuel
  induction fuel with
  | zero =>
    intro level nc s ev hev
    simp only [passes, List.mem_cons, List.mem_nil_iff, or_false] at hev
    rcases hev with rfl | rfl <;> rfl
  | succ fuel ih =>
    intro level nc s ev hev
    simp only [passes, List.mem_cons, List.mem_flatMap, List.mem_append, List.mem_range, pre, post,
      List.mem_nil_iff, or_false] at hev
    rcases hev with rfl | ⟨it, _, hev⟩
    · rfl
    · rcases hev with (((hev | hev) | hev) | hev) | hev
      · split at hev
        · simp only [List.mem_cons, List.mem_nil_iff, or_false] at hev
          subst hev; rfl
        · simp at hev
      · subst hev; rfl
      · exact ih _ _ _ ev hev
      · subst hev; rfl
      · split at hev
        · simp only [List.mem_cons, List.mem_nil_iff, or_false] at hev
          subst hev; rfl
        · simp at hev

theorem passes_no_cycleEnd (cfg : Cfg) (sc lr : Nat) (fuel level nc : Nat) (s : Shape) :
    cycleEnds (passes cfg sc lr fuel level nc s) = [] := by
  unfold cycleEnds
  rw [List.filter_eq_nil_iff]
  intro ev hev
  have := passes_mem_notCycleEnd cfg sc lr fuel level nc s ev hev
  cases ev <;> simp_all [Ev.notCycleEnd]

theorem fineIter_no_cycleEnd (cfg : Cfg) (D sc lr cm : Nat) (s : Shape) :
    cycleEnds (fineIter cfg D sc lr cm s) = [] := by
  cases D with
  | zero => simp [fineIter, cycleEnds]
  | succ D' =>
    have hp := passes_no_cycleEnd cfg sc lr D' 1 cm (coarsen (currentScDir sc s) s)
    simp only [cycleEnds] at hp ⊢
    simp only [fineIter, List.filter_append, hp, pre, post]
    split <;> split <;> simp

theorem dirs_advance_spec (r : Run) : ∀ n k it,
    cycleEnds (cyclesSpec r n k it)
      = (List.range n).map (fun i =>
          Ev.cycleEnd (it+i+1) (pat r.scPat (k+i+1)) (pat r.lrPat (k+i+1))) := by
  intro n
  induction n with
  | zero => intro k it; simp [cyclesSpec, cycleEnds]
  | succ n ih =>
    intro k it
    have h1 := fineIter_no_cycleEnd r.cfg (table (clevelDirs r.user r.shape) (pat r.scPat k))
      (pat r.scPat k) (pat r.lrPat k)
      (cycmaxEntry r.cfg (table (clevelDirs r.user r.shape) (pat r.scPat k))) r.shape
    have ih' := ih (k+1) (it+1)
    simp only [cycleEnds] at h1 ih' ⊢
    simp only [cyclesSpec, cycleOf, List.filter_append, h1, ih', List.range_succ_eq_map, List.map_cons,
      List.map_map]
    simp only [List.filter_cons, List.filter_nil, if_true, List.nil_append, List.cons_append, Nat.add_zero]
    congr 1
    apply List.map_congr_left
    intro i _
    simp only [Function.comp]
    rw [show k + 1 + i + 1 = k + (i + 1) + 1 by omega, show it + 1 + i + 1 = it + (i + 1) + 1 by omega]

/-- the whole trace is: entry, optional initial smoothing, then the specified cycles -/
theorem mgTrace_eq_spec (r : Run) :
    mgTrace r = [Ev.enter 0 0 r.shape] ++
      (if r.cfg.nuInit > 0 then
        [Ev.smooth 0 r.shape r.cfg.nuInit (currentLrDir (pat r.lrPat r.k0) r.shape)] else []) ++
      cyclesSpec r r.ncyc r.k0 0 := by
  simp only [mgTrace]
  rw [cycmax_follows_direction]

/-- **Directions advance cyclically, exactly once per fine-grid cycle** (also when the
multigrid call is a preconditioner call entered at pattern position `k0`). -/
theorem dirs_advance_once_per_cycle (r : Run) :
    cycleEnds (mgTrace r) = (List.range r.ncyc).map (fun i =>
      Ev.cycleEnd (i+1) (pat r.scPat (r.k0+i+1)) (pat r.lrPat (r.k0+i+1))) := by
  rw [mgTrace_eq_spec]
  have h := dirs_advance_spec r r.ncyc r.k0 0
  simp only [cycleEnds] at h ⊢
  simp only [List.filter_append, h]
  split <;> simp

/-! ## Level order per fine-grid cycle -/

/-- documented V cycle from level 0 with coarsest level `D` -/
def cycV (D : Nat) : List Nat := seqV D 0
/-- documented W cycle: one descent from the finest grid, two on every coarser level -/
def cycW : Nat → List Nat
  | 0 => [0]
  | D+1 => 0 :: seqW D 1 ++ [0]
/-- documented F cycle: on every coarser level an F cycle followed by a V cycle -/
def cycF : Nat → List Nat
  | 0 => [0]
  | D+1 => 0 :: seqF D 1 ++ [0]

theorem smoothLevels_append (a b : List Ev) : smoothLevels (a ++ b) = smoothLevels a ++ smoothLevels b := by
  simp [smoothLevels, List.filterMap_append]

theorem cycle_levels_V (cfg : Cfg) (D sc lr cm : Nat) (s : Shape) (hc : cfg.cycmax = 1)
    (hF : cfg.isF = false) (h1 : cfg.nuPre > 0) (h2 : cfg.nuPost > 0) :
    smoothLevels (fineIter cfg D sc lr cm s) = cycV D := by
  cases D with
  | zero => simp [fineIter, smoothLevels, cycV, seqV]
  | succ D' =>
    have hp := passes_levels_V cfg sc lr hc hF h1 h2 D' 1 cm (coarsen (currentScDir sc s) s)
    simp only [fineIter, smoothLevels_append, hp, cycV, seqV]
    simp [smoothLevels, pre, post, h1, h2]

theorem cycle_levels_W (cfg : Cfg) (D sc lr cm : Nat) (s : Shape) (hc : cfg.cycmax = 2)
    (hF : cfg.isF = false) (h1 : cfg.nuPre > 0) (h2 : cfg.nuPost > 0) :
    smoothLevels (fineIter cfg D sc lr cm s) = cycW D := by
  cases D with
  | zero => simp [fineIter, smoothLevels, cycW]
  | succ D' =>
    have hp := passes_levels_W cfg sc lr hc hF h1 h2 D' 1 cm (coarsen (currentScDir sc s) s)
    simp only [fineIter, smoothLevels_append, hp, cycW]
    simp [smoothLevels, pre, post, h1, h2]

theorem cycle_levels_F (cfg : Cfg) (D sc lr : Nat) (s : Shape) (hc : cfg.cycmax = 2)
    (hF : cfg.isF = true) (h1 : cfg.nuPre > 0) (h2 : cfg.nuPost > 0) :
    smoothLevels (fineIter cfg D sc lr (cycmaxEntry cfg D) s) = cycF D := by
  cases D with
  | zero => simp [fineIter, smoothLevels, cycF]
  | succ D' =>
    have hp := (passes_levels_F cfg sc lr hF h1 h2 D' 1 (coarsen (currentScDir sc s) s)).1
    have hcm : cycmaxEntry cfg (D'+1) = 2 := by simp [cycmaxEntry, hc]
    simp only [fineIter, smoothLevels_append, hcm, hp, cycF]
    simp [smoothLevels, pre, post, h1, h2]

/-- number of visits of the coarsest level in one fine-grid cycle: V 1, W 2^(D-1), F D -/
theorem coarsest_visits_V (D : Nat) : (cycV D).count D = 1 := count_seqV D 0 D (by omega)

theorem coarsest_visits_W (D : Nat) : (cycW (D+1)).count (D+1) = 2 ^ D := by
  simp only [cycW, List.count_cons, List.count_append, List.count_nil]
  rw [count_seqW D 1 (D+1) (by omega)]; simp

theorem coarsest_visits_F (D : Nat) : (cycF (D+1)).count (D+1) = D + 1 := by
  simp only [cycF, List.count_cons, List.count_append, List.count_nil]
  rw [count_seqF D 1 (D+1) (by omega)]; simp

/-! ## Consequences for every event of the trace -/

def lrAdapt (c : Nat) (bx bY bz : Bool) : Nat :=
  let c := if bx then (if c == 1 then 0 else if c == 5 then 3 else if c == 6 then 2 else if c == 7 then 4 else c) else c
  let c := if bY then (if c == 2 then 0 else if c == 4 then 3 else if c == 6 then 1 else if c == 7 then 5 else c) else c
  let c := if bz then (if c == 3 then 0 else if c == 4 then 2 else if c == 5 then 1 else if c == 7 then 6 else c) else c
  c

theorem lrAdapt_table : ∀ (lr : Fin 8) (bx bY bz : Bool),
    (lrX (lrAdapt lr.val bx bY bz) = true → bx = false) ∧
    (lrY (lrAdapt lr.val bx bY bz) = true → bY = false) ∧
    (lrZ (lrAdapt lr.val bx bY bz) = true → bz = false) := by decide

/-- **Line relaxation is never applied along a two-cell direction** (`_current_lr_dir`, for every
admissible code 0…7 and every shape). -/
theorem no_line_relaxation_on_two_cells (lr : Nat) (hlr : lr ≤ 7) (s : Shape) :
    (lrX (currentLrDir lr s) = true → s.1 ≠ 2) ∧
    (lrY (currentLrDir lr s) = true → s.2.1 ≠ 2) ∧
    (lrZ (currentLrDir lr s) = true → s.2.2 ≠ 2) := by
  have h := lrAdapt_table ⟨lr, by omega⟩ (s.1 == 2) (s.2.1 == 2) (s.2.2 == 2)
  have e : currentLrDir lr s = lrAdapt lr (s.1 == 2) (s.2.1 == 2) (s.2.2 == 2) := rfl
  rw [e]
  simp only [beq_eq_false_iff_ne, ne_eq] at h
  exact h

def patOk (p : List Nat) (bound : Nat) : Prop := p ≠ [] ∧ ∀ x ∈ p, x ≤ bound

theorem pat_le (p : List Nat) (b : Nat) (h : patOk p b) (k : Nat) : pat p k ≤ b := by
  unfold pat
  have hl : 0 < p.length := List.length_pos_iff.mpr h.1
  have hk : k % p.length < p.length := Nat.mod_lt _ hl
  rw [List.getD_eq_getElem?_getD, List.getElem?_eq_getElem hk]
  exact h.2 _ (List.getElem_mem hk)

/-- every event of a cycle is one of the cycle `k` for some `k`, or a cycle end -/
theorem mem_cyclesSpec (r : Run) : ∀ n k it ev, ev ∈ cyclesSpec r n k it →
    (∃ j, ev ∈ cycleOf r j) ∨ (∃ a b c, ev = Ev.cycleEnd a b c) := by
  intro n
  induction n with
  | zero => intro k it ev h; simp [cyclesSpec] at h
  | succ n ih =>
    intro k it ev h
    simp only [cyclesSpec, List.mem_append, List.mem_cons, List.mem_nil_iff, or_false] at h
    rcases h with (h | h) | h
    · exact Or.inl ⟨k, h⟩
    · exact Or.inr ⟨_, _, _, h⟩
    · exact ih _ _ ev h

/-- **No smoothing call of any run applies line relaxation along a two-cell direction.** -/
theorem smooth_events_no_two_cell_line (r : Run) (hlr : patOk r.lrPat 7)
    (l : Nat) (s : Shape) (nu clr : Nat) (h : Ev.smooth l s nu clr ∈ mgTrace r) :
    (lrX clr = true → s.1 ≠ 2) ∧ (lrY clr = true → s.2.1 ≠ 2) ∧ (lrZ clr = true → s.2.2 ≠ 2) := by
  rw [mgTrace_eq_spec] at h
  simp only [List.mem_append, List.mem_cons, List.mem_nil_iff, or_false] at h
  rcases h with (h | h) | h
  · cases h
  · split at h
    · simp only [List.mem_cons, List.mem_nil_iff, or_false] at h
      injection h with _ h2 _ h4
      subst h2; subst h4
      exact no_line_relaxation_on_two_cells _ (pat_le _ _ hlr _) _
    · simp at h
  · rcases mem_cyclesSpec r _ _ _ _ h with ⟨j, hj⟩ | ⟨a, b, c, hc⟩
    · have g := fineIter_good r.cfg (pat r.scPat j) (pat r.lrPat j) _ _ r.shape _ hj
      simp only [Ev.Good] at g
      rw [g.2.2]
      exact no_line_relaxation_on_two_cells _ (pat_le _ _ hlr _) _
    · cases hc

/-- the shapes carried by an event -/
def Ev.shapes : Ev → List Shape
  | .enter _ _ s => [s]
  | .smooth _ s _ _ => [s]
  | .restrict _ s _ cs => [s, cs]
  | .prolong _ s _ => [s]
  | .cycleEnd _ _ _ => []

/-- **No level of any run has fewer than two cells in a direction** (grids of recursion entries,
smoothing calls, restrictions — fine and coarse side — and prolongations). -/
theorem trace_shapes_ge_two (r : Run) (hs : Ge2 r.shape) (hsc : patOk r.scPat 3)
    (ev : Ev) (h : ev ∈ mgTrace r) : ∀ t ∈ ev.shapes, Ge2 t := by
  rw [mgTrace_eq_spec] at h
  simp only [List.mem_append, List.mem_cons, List.mem_nil_iff, or_false] at h
  rcases h with (h | h) | h
  · subst h; simp [Ev.shapes, hs]
  · split at h
    · simp only [List.mem_cons, List.mem_nil_iff, or_false] at h
      subst h; simp [Ev.shapes, hs]
    · simp at h
  · rcases mem_cyclesSpec r _ _ _ _ h with ⟨j, hj⟩ | ⟨a, b, c, hc⟩
    · have g := fineIter_good r.cfg (pat r.scPat j) (pat r.lrPat j) _ _ r.shape _ hj
      have hscj := pat_le _ _ hsc j
      have key := fun l hl => shapeAt_ge_two r.user (pat r.scPat j) r.shape hs hscj l hl
      cases ev with
      | enter l n s => simp only [Ev.Good] at g; simp only [Ev.shapes, List.mem_cons, List.mem_nil_iff, or_false]; intro t ht; subst ht; rw [g.2]; exact key l g.1
      | smooth l s nu clr => simp only [Ev.Good] at g; simp only [Ev.shapes, List.mem_cons, List.mem_nil_iff, or_false]; intro t ht; subst ht; rw [g.2.1]; exact key l g.1
      | restrict l s csc cs =>
        simp only [Ev.Good] at g
        simp only [Ev.shapes, List.mem_cons, List.mem_nil_iff, or_false]
        intro t ht
        rcases ht with ht | ht
        · subst ht; rw [g.2.1]; exact key l (by omega)
        · subst ht; rw [g.2.2.2]; exact key (l+1) (by omega)
      | prolong l s csc => simp only [Ev.Good] at g; simp only [Ev.shapes, List.mem_cons, List.mem_nil_iff, or_false]; intro t ht; subst ht; rw [g.2.1]; exact key l (by omega)
      | cycleEnd a b c => simp [Ev.shapes]
    · subst hc; simp [Ev.shapes]

/-! ## Non-vacuity: a concrete run meets the hypotheses, and the model computes on it -/

def exRun : Run :=
  { cfg := { cycmax := 2, isF := true, nuInit := 0, nuPre := 2, nuCoarse := 1, nuPost := 2 },
    user := none, shape := (16, 3, 3), scPat := [1, 2, 3], lrPat := [0], ncyc := 2 }

example : Ge2 exRun.shape ∧ patOk exRun.scPat 3 ∧ patOk exRun.lrPat 7 := by
  refine ⟨by unfold Ge2; decide, ⟨by decide, by decide⟩, ⟨by decide, by decide⟩⟩
example : table (clevelDirs exRun.user exRun.shape) 2 = 3 := by decide +kernel
/-- second cycle of the example (direction 2, depth 3) is a genuine F cycle: 3 coarsest visits -/
example : (smoothLevels (cycleOf exRun 1)).count 3 = 3 := by decide +kernel
example : smoothLevels (cycleOf exRun 1) = cycF 3 := by decide +kernel

end MGH
