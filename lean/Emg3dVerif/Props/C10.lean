import Emg3dVerif.Model.Source
import Emg3dVerif.Props.C15
import Emg3dVerif.Lemmas.Sbp
/-!
# C10 — sources inject exactly their nominal moment in their nominal direction

`Src.pointVector`, `Src.dipoleVector` model `fields._point_vector` / `_dipole_vector`
(T-float correspondence in `harness/c10.py`); rotations are algebraic identities in
`(cos, sin)` pairs with `c² + s² = 1`.

Proved: point moment (all positions, incl. the extrapolating outer half cells and the last
interval), the partition-of-unity of the edge weights of a cell, the one-dimensional tiling
lemma (the clipped parametric lengths of the cells along a segment sum to one), all
conversion identities, and the three-dimensional tiling identity `tiling_3d` (the clipped
parametric lengths of all cells sum to one).  NOT proved (covered by the correspondence and by the
moment monitor on the real code): that the coded cell box and guard of `_dipole_vector` select
exactly the cells with a non-empty intersection (`dipole_moment_stmt`).
-/
open Finset
namespace Src
variable {K : Type} [Field K] [LinearOrder K] [IsStrictOrderedRing K]

theorem sum_two (n a b : ℕ) (x y : K) (ha : a < n) (hb : b < n) (hab : a ≠ b) :
    ∑ i ∈ range n, (if i = a then x else if i = b then y else 0) = x + y := by
  have : ∀ i ∈ range n, (if i = a then x else if i = b then y else (0:K))
      = (if i = a then x else 0) + (if i = b then y else 0) := by
    intro i _
    by_cases h1 : i = a
    · have : i ≠ b := fun h => hab (h1 ▸ h)
      simp [h1, this, hab]
    · simp [h1]
  rw [sum_congr rfl this, sum_add_distrib, sum_ite_eq' (range n) a (fun _ => x),
    sum_ite_eq' (range n) b (fun _ => y)]
  simp [ha, hb]

theorem whereIdx_lt (xx : ℕ → K) (n : ℕ) (c : K) (hn : 1 ≤ n) : whereIdx xx n c < n := by
  unfold whereIdx
  have : ((List.range n).find? fun i => decide (c < xx i)).getD n ≤ n := by
    cases h : (List.range n).find? fun i => decide (c < xx i) with
    | none => simp
    | some k =>
      have := List.mem_of_find?_eq_some h
      simp only [Option.getD_some]
      exact le_of_lt (List.mem_range.1 this)
  omega

/-- **the one-dimensional weights of a point source sum to one** — for every position: inside
an interval, before the first coordinate (extrapolation) and in the last interval -/
theorem w1_sum_one (xx : ℕ → K) (n : ℕ) (c : K) (hn : 1 ≤ n) :
    ∑ i ∈ range n, w1 xx n c i = 1 := by
  have hlt := whereIdx_lt xx n c hn
  unfold w1
  by_cases hlast : whereIdx xx n c + 1 = n
  · simp only [hlast, if_true]
    rw [sum_ite_eq' (range n) (whereIdx xx n c) (fun _ => (1:K))]
    simp [hlt]
  · simp only [hlast, if_false]
    rw [sum_two n (whereIdx xx n c + 1) (whereIdx xx n c) _ _ (by omega) hlt (by omega)]
    ring

theorem coordsOf_pos (comp dir : ℕ) (g : Grid1 K) (hg : 1 ≤ g.n) : 1 ≤ (coordsOf comp dir g).2 := by
  unfold coordsOf; split <;> simp <;> omega

/-- **a point source sums, per Cartesian component, to its unit direction** -/
theorem point_moment (gx gy gz : Grid1 K) (hx : 1 ≤ gx.n) (hy : 1 ≤ gy.n) (hz : 1 ≤ gz.n)
    (p d : K × K × K) :
    Emg.S3 gx.n (gy.n+1) (gz.n+1) (pointVector gx gy gz p d).x = d.1 ∧
    Emg.S3 (gx.n+1) gy.n (gz.n+1) (pointVector gx gy gz p d).y = d.2.1 ∧
    Emg.S3 (gx.n+1) (gy.n+1) gz.n (pointVector gx gy gz p d).z = d.2.2 := by
  have key : ∀ (a b c : ℕ → K) (n1 n2 n3 : ℕ) (f : K),
      ∑ i ∈ range n1, a i = 1 → ∑ j ∈ range n2, b j = 1 → ∑ k ∈ range n3, c k = 1 →
      Emg.S3 n1 n2 n3 (fun i j k => a i * b j * c k * f) = f := by
    intro a b c n1 n2 n3 f ha hb hc
    unfold Emg.S3
    have : ∀ i j, ∑ k ∈ range n3, a i * b j * c k * f = a i * b j * f := by
      intro i j
      rw [← sum_mul, ← mul_sum, hc, mul_one]
    simp only [this]
    have : ∀ i, ∑ j ∈ range n2, a i * b j * f = a i * f := by
      intro i
      rw [← sum_mul, ← mul_sum, hb, mul_one]
    simp only [this]
    rw [← sum_mul, ha, one_mul]
  refine ⟨?_, ?_, ?_⟩
  · exact key _ _ _ _ _ _ _
      (by simpa [coordsOf] using w1_sum_one gx.centers gx.n p.1 hx)
      (by simpa [coordsOf] using w1_sum_one gy.nodes (gy.n+1) p.2.1 (by omega))
      (by simpa [coordsOf] using w1_sum_one gz.nodes (gz.n+1) p.2.2 (by omega))
  · exact key _ _ _ _ _ _ _
      (by simpa [coordsOf] using w1_sum_one gx.nodes (gx.n+1) p.1 (by omega))
      (by simpa [coordsOf] using w1_sum_one gy.centers gy.n p.2.1 hy)
      (by simpa [coordsOf] using w1_sum_one gz.nodes (gz.n+1) p.2.2 (by omega))
  · exact key _ _ _ _ _ _ _
      (by simpa [coordsOf] using w1_sum_one gx.nodes (gx.n+1) p.1 (by omega))
      (by simpa [coordsOf] using w1_sum_one gy.nodes (gy.n+1) p.2.1 (by omega))
      (by simpa [coordsOf] using w1_sum_one gz.centers gz.n p.2.2 hz)

/-- partition of unity of the bilinear weights -/
theorem trilinear_partition (ry rz : K) :
    (1-ry)*(1-rz) + ry*(1-rz) + (1-ry)*rz + ry*rz = 1 := by ring

/-- the four x-edges of a contributing cell receive, together, exactly the clipped parametric
length of the segment in that cell -/
theorem cell_weights_sum_x (len rx ry rz : K) :
    (1-ry)*(1-rz)*len + ry*(1-rz)*len + (1-ry)*rz*len + ry*rz*len = len := by ring

/-- `Σ_k |[l,r] ∩ [b_k, b_{k+1}]| = |[l,r] ∩ [b_0, b_n]|` for a monotone sequence — also when
`[l, r]` is empty -/
theorem interval_union (b : ℕ → K) (n : ℕ) (l r : K) (hmono : ∀ i < n, b i ≤ b (i+1)) :
    ∑ k ∈ range n, max 0 (min (b (k+1)) r - max (b k) l) = max 0 (min (b n) r - max (b 0) l) := by
  have hle : b 0 ≤ b n := by
    have : ∀ m ≤ n, b 0 ≤ b m := by
      intro m hm
      induction m with
      | zero => exact le_rfl
      | succ m ih => exact le_trans (ih (by omega)) (hmono m (by omega))
    exact this n le_rfl
  rcases le_or_gt l r with hlr | hlr
  · have h : ∀ m ≤ n, ∑ i ∈ range m, max 0 (min (b (i+1)) r - max (b i) l)
        = VolAvg.clamp l r (b m) - VolAvg.clamp l r (b 0) := by
      intro m hm
      induction m with
      | zero => simp
      | succ m ih =>
        rw [sum_range_succ, ih (by omega),
          VolAvg.overlap_eq_clamp _ _ l r hlr (hmono m (by omega))]; ring
    rw [h n le_rfl, VolAvg.overlap_eq_clamp _ _ l r hlr hle]
  · have hz : ∀ x y : K, max 0 (min x r - max y l) = 0 := by
      intro x y
      apply max_eq_left
      have h1 : min x r ≤ r := min_le_right _ _
      have h2 : l ≤ max y l := le_max_right _ _
      linarith
    simp only [hz, sum_const_zero]

/-- **the clipped parametric lengths of the cells along a segment sum to one** (one direction;
`a < b` start and end coordinate, nodes `x 0 ≤ … ≤ x n` containing the segment) -/
theorem segments_tile_1d (x : ℕ → K) (n : ℕ) (a b : K) (hab : a < b)
    (hmono : ∀ i < n, x i ≤ x (i+1)) (h0 : x 0 ≤ a) (hn : b ≤ x n) :
    ∑ k ∈ range n, max 0 (min ((x (k+1) - a)/(b - a)) 1 - max ((x k - a)/(b - a)) 0) = 1 := by
  have hd : 0 < b - a := sub_pos.2 hab
  rw [interval_union (fun k => (x k - a)/(b - a)) n 0 1
    (fun i hi => div_le_div_of_nonneg_right (by linarith [hmono i hi]) (le_of_lt hd))]
  have h1 : (1:K) ≤ (x n - a)/(b - a) := by rw [le_div_iff₀ hd]; linarith
  have h2 : (x 0 - a)/(b - a) ≤ 0 := by
    apply div_nonpos_of_nonpos_of_nonneg <;> linarith
  rw [min_eq_right h1, max_eq_right h2]
  simp

/-- **three-dimensional tiling**: if the parameter break points of the cells along a segment are
monotone in each direction and cover `[0, 1]`, the clipped parametric lengths
`|[0,1] ∩ [X_i, X_{i+1}] ∩ [Y_j, Y_{j+1}] ∩ [Z_k, Z_{k+1}]|` of all cells sum to one — every
point of the segment is in exactly one cell (up to end points) -/
theorem tiling_3d (X Y Z : ℕ → K) (nx ny nz : ℕ)
    (hX : ∀ i < nx, X i ≤ X (i+1)) (hY : ∀ i < ny, Y i ≤ Y (i+1)) (hZ : ∀ i < nz, Z i ≤ Z (i+1))
    (hX0 : X 0 ≤ 0) (hX1 : 1 ≤ X nx) (hY0 : Y 0 ≤ 0) (hY1 : 1 ≤ Y ny)
    (hZ0 : Z 0 ≤ 0) (hZ1 : 1 ≤ Z nz) :
    ∑ k ∈ range nz, ∑ j ∈ range ny, ∑ i ∈ range nx,
      max 0 (min (X (i+1)) (min (Y (j+1)) (min (Z (k+1)) 1)) -
             max (X i) (max (Y j) (max (Z k) 0))) = 1 := by
  have inner : ∀ (l r : K), 0 ≤ l → r ≤ 1 →
      ∑ i ∈ range nx, max 0 (min (X (i+1)) r - max (X i) l) = max 0 (r - l) := by
    intro l r hl hr
    rw [interval_union X nx l r hX, min_eq_right (le_trans hr hX1), max_eq_right (le_trans hX0 hl)]
  have innerY : ∀ (l r : K), 0 ≤ l → r ≤ 1 →
      ∑ j ∈ range ny, max 0 (min (Y (j+1)) r - max (Y j) l) = max 0 (r - l) := by
    intro l r hl hr
    rw [interval_union Y ny l r hY, min_eq_right (le_trans hr hY1), max_eq_right (le_trans hY0 hl)]
  have step1 : ∀ k j, ∑ i ∈ range nx,
      max 0 (min (X (i+1)) (min (Y (j+1)) (min (Z (k+1)) 1)) - max (X i) (max (Y j) (max (Z k) 0)))
      = max 0 (min (Y (j+1)) (min (Z (k+1)) 1) - max (Y j) (max (Z k) 0)) := by
    intro k j
    apply inner
    · exact le_trans (le_max_right _ _) (le_max_right _ _)
    · exact le_trans (min_le_right _ _) (min_le_right _ _)
  have step2 : ∀ k, ∑ j ∈ range ny,
      max 0 (min (Y (j+1)) (min (Z (k+1)) 1) - max (Y j) (max (Z k) 0))
      = max 0 (min (Z (k+1)) 1 - max (Z k) 0) := by
    intro k
    apply innerY
    · exact le_max_right _ _
    · exact min_le_right _ _
  simp only [step1, step2]
  rw [interval_union Z nz 0 1 hZ, min_eq_right hZ1, max_eq_right hZ0]
  simp

/-- the full statement for finite dipoles (not proved here, see the header):
every Cartesian component of the dipole vector sums to `p1 − p0`. -/
def dipole_moment_stmt (gx gy gz : Grid1 K) (s : Seg K) : Prop :=
  Emg.S3 gx.n (gy.n+1) (gz.n+1) (dipoleVector gx gy gz s).x = s.p1.1 - s.p0.1 ∧
  Emg.S3 (gx.n+1) gy.n (gz.n+1) (dipoleVector gx gy gz s).y = s.p1.2.1 - s.p0.2.1 ∧
  Emg.S3 (gx.n+1) (gy.n+1) gz.n (dipoleVector gx gy gz s).z = s.p1.2.2 - s.p0.2.2

/-! ## rotations and conversions: identities in `(cos, sin)` pairs -/
section rot
variable {R : Type} [CommRing R]

/-- the rotation factors form a unit vector -/
theorem rotation_unit (ca sa ce se : R) (ha : ca^2 + sa^2 = 1) (he : ce^2 + se^2 = 1) :
    (ca*ce)^2 + (sa*ce)^2 + se^2 = 1 := by
  have : (ca*ce)^2 + (sa*ce)^2 + se^2 = (ca^2 + sa^2)*ce^2 + se^2 := by ring
  rw [this, ha, one_mul, he]

/-- centre ∓ half length × unit direction: the electrodes are `length` apart, along the
direction -/
theorem point_to_dipole_span (c d half : R) : (c + d*half) - (c - d*half) = d*(2*half) := by
  ring

/-- the square loop of a magnetic dipole `(az, el)`: both half diagonals are perpendicular to the
dipole direction and to each other, and have equal length — the loop is a closed planar
square whose plane is perpendicular to the dipole -/
theorem square_loop_closed_planar_perp (ca sa ce se h : R)
    (ha : ca^2 + sa^2 = 1) (he : ce^2 + se^2 = 1) :
    -- hor = (−sa, ca, 0)·h ; ver = (−ca·se, −sa·se, ce)·h ; d = (ca·ce, sa·ce, se)
    (-sa*h)*(ca*ce) + (ca*h)*(sa*ce) + 0*se = 0 ∧
    (-(ca*se)*h)*(ca*ce) + (-(sa*se)*h)*(sa*ce) + (ce*h)*se = 0 ∧
    (-sa*h)*(-(ca*se)*h) + (ca*h)*(-(sa*se)*h) + 0*(ce*h) = 0 ∧
    (-sa*h)^2 + (ca*h)^2 + 0^2 = h^2 ∧
    (-(ca*se)*h)^2 + (-(sa*se)*h)^2 + (ce*h)^2 = h^2 := by
  refine ⟨by ring, ?_, by ring, ?_, ?_⟩
  · have : (-(ca*se)*h)*(ca*ce) + (-(sa*se)*h)*(sa*ce) + (ce*h)*se
        = se*ce*h*(1 - (ca^2 + sa^2)) := by ring
    rw [this, ha]; ring
  · have : (-sa*h)^2 + (ca*h)^2 + 0^2 = (ca^2 + sa^2)*h^2 := by ring
    rw [this, ha, one_mul]
  · have : (-(ca*se)*h)^2 + (-(sa*se)*h)^2 + (ce*h)^2 = ((ca^2+sa^2)*se^2 + ce^2)*h^2 := by ring
    rw [this, ha, one_mul, add_comm, he, one_mul]

/-- side length² of the loop = 2·(half diagonal)² = area, when `h² = area/2` -/
theorem square_loop_area (hor1 hor2 hor3 ver1 ver2 ver3 h area : R)
    (hperp : hor1*ver1 + hor2*ver2 + hor3*ver3 = 0)
    (hh : hor1^2 + hor2^2 + hor3^2 = h^2) (hv : ver1^2 + ver2^2 + ver3^2 = h^2)
    (harea : 2*h^2 = area) :
    (ver1-hor1)^2 + (ver2-hor2)^2 + (ver3-hor3)^2 = area := by
  have : (ver1-hor1)^2 + (ver2-hor2)^2 + (ver3-hor3)^2
      = (hor1^2 + hor2^2 + hor3^2) + (ver1^2 + ver2^2 + ver3^2)
        - 2*(hor1*ver1 + hor2*ver2 + hor3*ver3) := by ring
  rw [this, hh, hv, hperp, ← harea]; ring

/-- consecutive sides `ver − hor`, `−hor − ver` have cross product `2h²·d = area·d`: the loop is
traversed right-handedly around the dipole direction -/
theorem square_loop_right_handed (ca sa ce se h : R) (ha : ca^2 + sa^2 = 1) :
    let hor := ((-sa)*h, ca*h, (0:R))
    let ver := (-(ca*se)*h, -(sa*se)*h, ce*h)
    let s1 := (ver.1 - hor.1, ver.2.1 - hor.2.1, ver.2.2 - hor.2.2)
    let s2 := (-hor.1 - ver.1, -hor.2.1 - ver.2.1, -hor.2.2 - ver.2.2)
    s1.2.1*s2.2.2 - s1.2.2*s2.2.1 = 2*h^2*(ca*ce) ∧
    s1.2.2*s2.1 - s1.1*s2.2.2 = 2*h^2*(sa*ce) ∧
    s1.1*s2.2.1 - s1.2.1*s2.1 = 2*h^2*se := by
  refine ⟨by ring, by ring, ?_⟩
  simp only
  have : (-(ca*se)*h - -sa*h)*(-(ca*h) - -(sa*se)*h) - (-(sa*se)*h - ca*h)*(-(-sa*h) - -(ca*se)*h)
      = 2*h^2*se*(ca^2 + sa^2) := by ring
  rw [this, ha]; ring

/-- `get_source_field`: vector × strength × (−s μ₀), linear in the strength -/
theorem source_field_scaling (v st1 st2 smu0 : R) :
    v*(st1 + st2)*(-smu0) = v*st1*(-smu0) + v*st2*(-smu0) := by ring

end rot
end Src
