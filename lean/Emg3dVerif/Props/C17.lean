import Emg3dVerif.Model.IoTree
/-!
# C17 — save and load round-trip every object in every file format

Theorems about the tree model `IoT` of `emg3d.io` (ordered dictionaries, leaves canonicalised).
Core Lean only.
-/
namespace IoT

/-! ## well-formedness (the documented limitations) -/

mutual
/-- no registered-class instance inside (what `to_dict()` returns, and what is in a file) -/
def PlainT : Tree → Prop
  | .leaf _ => True
  | .node f => PlainF f
  | .obj _ => False
def PlainF : Forest → Prop
  | .nil => True
  | .cons _ t r => PlainT t ∧ PlainF r
end

mutual
/-- the string 'NoneType' does not occur as a value -/
def NoNT_T : Tree → Prop
  | .leaf l => l ≠ .str noneType
  | .node f => NoNT_F f
  | .obj f => NoNT_F f
def NoNT_F : Forest → Prop
  | .nil => True
  | .cons _ t r => NoNT_T t ∧ NoNT_F r
end

mutual
/-- user dictionaries do not look like a registered class; instances do -/
def ClsT (known : String → Bool) : Tree → Prop
  | .leaf _ => True
  | .node f => classOf known f = none ∧ ClsF known f
  | .obj f => (classOf known f).isSome ∧ ClsF known f
def ClsF (known : String → Bool) : Forest → Prop
  | .nil => True
  | .cons _ t r => ClsT known t ∧ ClsF known r
end

/-! ## serialise / None handling / de-serialise -/

/-- the string stored under key `k`, if any -/
def strAt (k : Key) : Forest → Option String
  | .nil => none
  | .cons k' t r =>
    if k' = k then (match t with
      | .leaf (.str c) => some c
      | _ => none)
    else strAt k r

theorem classOf_eq_aux (known : String → Bool) : ∀ f : Forest,
    (match f.lookup classKey with
     | some (.leaf (.str c)) => if known c then some c else none
     | _ => none) = (strAt classKey f).bind (fun c => if known c then some c else none)
  | .nil => rfl
  | .cons k t r => by
    simp only [Forest.lookup, strAt]
    by_cases h : k = classKey
    · simp only [h, if_true]
      cases t with
      | leaf l => cases l <;> rfl
      | node f => rfl
      | obj f => rfl
    · simp only [h, if_false]
      exact classOf_eq_aux known r

theorem classOf_eq (known : String → Bool) (f : Forest) :
    classOf known f = (strAt classKey f).bind (fun c => if known c then some c else none) := by
  unfold classOf
  exact classOf_eq_aux known f

theorem strAt_non_ser (k : Key) : ∀ f : Forest, NoNT_F f → strAt k (nonF (serF f)) = strAt k f
  | .nil, _ => rfl
  | .cons k' t r, hn => by
    simp only [serF, nonF, strAt]
    by_cases h : k' = k
    · simp only [h, if_true]
      cases t with
      | leaf l =>
        cases l with
        | none => simp [serT, nonT]
        | str s =>
          have : s ≠ noneType := fun e => hn.1 (by rw [e])
          simp [serT, nonT, this]
        | bool b => simp [serT, nonT]
        | num k v => simp [serT, nonT]
        | arr d v => simp [serT, nonT]
      | node f => simp [serT, nonT]
      | obj f => simp [serT, nonT]
    · simp only [h, if_false]
      exact strAt_non_ser k r hn.2

theorem classOf_non_ser (known : String → Bool) (f : Forest) (hn : NoNT_F f) :
    classOf known (nonF (serF f)) = classOf known f := by
  rw [classOf_eq, classOf_eq, strAt_non_ser _ f hn]

mutual
theorem nonT_serT_plain : ∀ t : Tree, PlainT t → NoNT_T t → nonT (serT t) = t
  | .leaf l, _, hn => by
    cases l with
    | none => simp [serT, nonT]
    | str s =>
      have : s ≠ noneType := fun e => hn (by rw [e])
      simp [serT, nonT, this]
    | bool b => simp [serT, nonT]
    | num k v => simp [serT, nonT]
    | arr d v => simp [serT, nonT]
  | .node f, hp, hn => by
    simp only [serT, nonT]
    rw [nonF_serF_plain f hp hn]
  | .obj _, hp, _ => absurd hp (by simp [PlainT])
theorem nonF_serF_plain : ∀ f : Forest, PlainF f → NoNT_F f → nonF (serF f) = f
  | .nil, _, _ => rfl
  | .cons k t r, hp, hn => by
    simp only [serF, nonF]
    rw [nonT_serT_plain t hp.1 hn.1, nonF_serF_plain r hp.2 hn.2]
end

theorem classOf_plain_roundtrip (known : String → Bool) (f : Forest) (hp : PlainF f)
    (hn : NoNT_F f) : classOf known (nonF (serF f)) = classOf known f := by
  rw [nonF_serF_plain f hp hn]

mutual
/-- serialise, restore `None`, de-serialise: the identity on well-formed values -/
theorem des_non_ser_T (known : String → Bool) : ∀ t : Tree, NoNT_T t → ClsT known t →
    desT known (nonT (serT t)) = t
  | .leaf l, hn, _ => by
    cases l with
    | none => simp [serT, nonT, desT]
    | str s =>
      have : s ≠ noneType := fun e => hn (by rw [e])
      simp [serT, nonT, desT, this]
    | bool b => simp [serT, nonT, desT]
    | num k v => simp [serT, nonT, desT]
    | arr d v => simp [serT, nonT, desT]
  | .node f, hn, hc => by
    simp only [serT, nonT, desT]
    have hcls : classOf known (nonF (serF f)) = none := by
      rw [← hc.1]
      exact classOf_non_ser known f hn
    rw [hcls]
    simp only [Option.isSome_none, Bool.false_eq_true, if_false]
    rw [des_non_ser_F known f hn hc.2]
  | .obj f, hn, hc => by
    simp only [serT, nonT, desT]
    have hcls : classOf known (nonF (serF f)) = classOf known f := classOf_non_ser known f hn
    rw [hcls]
    simp only [hc.1, if_true]
    rw [des_non_ser_F known f hn hc.2]
theorem des_non_ser_F (known : String → Bool) : ∀ f : Forest, NoNT_F f → ClsF known f →
    desF known (nonF (serF f)) = f
  | .nil, _, _ => rfl
  | .cons k t r, hn, hc => by
    simp only [serF, nonF, desF]
    rw [des_non_ser_T known t hn.1 hc.1, des_non_ser_F known r hn.2 hc.2]
end

/-- **HDF5 / any order-preserving hierarchical back end**: `load ∘ save` is the identity -/
theorem load_save_h5 (c : Codec) (known : String → Bool) (f : Forest)
    (hn : NoNT_F f) (hc : ClsF known f) : load c known (save c .h5 f) = f := by
  simp only [save, load]
  exact des_non_ser_F known f hn hc

/-! ## JSON -/

mutual
theorem comp_dearr_T (c : Codec) (hc : ∀ l, c.dec (c.enc l).1 (c.enc l).2 = l) :
    ∀ t : Tree, PlainT t → compT c (dearrT c t) = t
  | .leaf l, _ => by simp [dearrT, compT, hc]
  | .node f, hp => by simp only [dearrT, compT]; rw [comp_dearr_F c hc f hp]
  | .obj _, hp => absurd hp (by simp [PlainT])
theorem comp_dearr_F (c : Codec) (hc : ∀ l, c.dec (c.enc l).1 (c.enc l).2 = l) :
    ∀ f : Forest, PlainF f → compF c (dearrF c f) = f
  | .nil, _ => rfl
  | .cons k t r, hp => by
    simp only [dearrF, compF]
    rw [comp_dearr_T c hc t hp.1, comp_dearr_F c hc r hp.2]
end

mutual
theorem serT_plain : ∀ t : Tree, PlainT (serT t)
  | .leaf l => by cases l <;> simp [serT, PlainT]
  | .node f => by simp only [serT, PlainT]; exact serF_plain f
  | .obj f => by simp only [serT, PlainT]; exact serF_plain f
theorem serF_plain : ∀ f : Forest, PlainF (serF f)
  | .nil => by simp [serF, PlainF]
  | .cons k t r => by simp only [serF, PlainF]; exact ⟨serT_plain t, serF_plain r⟩
end

/-- **JSON**: arrays to lists and back, complex to pairs and back, then as for HDF5 -/
theorem load_save_json (c : Codec) (hcod : ∀ l, c.dec (c.enc l).1 (c.enc l).2 = l)
    (known : String → Bool) (f : Forest) (hn : NoNT_F f) (hc : ClsF known f) :
    load c known (save c .json f) = f := by
  simp only [save, load]
  rw [comp_dearr_F c hcod _ (serF_plain f)]
  exact des_non_ser_F known f hn hc

/-! ## NumPy `.npz`: flatten / un-flatten -/

namespace Forest
theorem nil_append (g : Forest) : (Forest.nil ++ g : Forest) = g := rfl
theorem cons_append (k : Key) (t : Tree) (r g : Forest) :
    (Forest.cons k t r ++ g : Forest) = .cons k t (r ++ g) := rfl
theorem append_nil : ∀ f : Forest, (f ++ Forest.nil : Forest) = f
  | .nil => rfl
  | .cons k t r => by rw [cons_append, append_nil r]
theorem append_assoc : ∀ f g h : Forest, ((f ++ g) ++ h : Forest) = f ++ (g ++ h)
  | .nil, _, _ => rfl
  | .cons k t r, g, h => by rw [cons_append, cons_append, cons_append, append_assoc r g h]
theorem keys_append : ∀ f g : Forest, (f ++ g : Forest).keys = f.keys ++ g.keys
  | .nil, _ => rfl
  | .cons k t r, g => by rw [cons_append]; simp [keys, keys_append r g]
end Forest

mutual
/-- keys free of '>', unique per dictionary, no empty nested dictionary, no instance -/
def NpzT : Tree → Prop
  | .leaf _ => True
  | .node f => f ≠ .nil ∧ NpzF f
  | .obj _ => False
def NpzF : Forest → Prop
  | .nil => True
  | .cons k t r => sep ∉ k ∧ k ∉ r.keys ∧ NpzT t ∧ NpzF r
end

mutual
/-- flattened entries with their keys as paths -/
def pflatT : Tree → List (List Key × Leaf)
  | .leaf l => [([], l)]
  | .node f => pflatF f
  | .obj f => pflatF f
def pflatF : Forest → List (List Key × Leaf)
  | .nil => []
  | .cons k t r => (pflatT t).map (fun e => (k :: e.1, e.2)) ++ pflatF r
end

def joinP : List Key → Key
  | [] => []
  | [k] => k
  | k :: k2 :: p => k ++ sep :: joinP (k2 :: p)

def suffixP : List Key → Key
  | [] => []
  | k :: p => sep :: joinP (k :: p)

theorem joinP_cons (k : Key) (p : List Key) : joinP (k :: p) = k ++ suffixP p := by
  cases p with
  | nil => simp [joinP, suffixP]
  | cons k2 p => simp [joinP, suffixP]

theorem splitSep_nosep : ∀ k : Key, sep ∉ k → splitSep k = [k]
  | [], _ => rfl
  | c :: t, h => by
    have hc : c ≠ sep := fun e => h (by simp [e])
    have ht : sep ∉ t := fun e => h (by simp [e])
    simp [splitSep, hc, splitSep_nosep t ht]

theorem splitSep_append : ∀ (k rest : Key), sep ∉ k →
    splitSep (k ++ sep :: rest) = k :: splitSep rest
  | [], rest, _ => by simp [splitSep]
  | c :: t, rest, h => by
    have hc : c ≠ sep := fun e => h (by simp [e])
    have ht : sep ∉ t := fun e => h (by simp [e])
    simp [splitSep, hc, splitSep_append t rest ht]

/-- splitting a joined path gives the path back -/
theorem splitSep_joinP : ∀ p : List Key, p ≠ [] → (∀ k ∈ p, sep ∉ k) → splitSep (joinP p) = p
  | [], h, _ => absurd rfl h
  | [k], _, hk => by simpa [joinP] using splitSep_nosep k (hk k (by simp))
  | k :: k2 :: p, _, hk => by
    simp only [joinP]
    rw [splitSep_append k _ (hk k (by simp)),
      splitSep_joinP (k2 :: p) (by simp) (fun x hx => hk x (by simp [hx]))]

mutual
theorem flatT_eq (pre : Key) : ∀ t : Tree,
    flatT pre t = (pflatT t).map (fun e => (pre ++ suffixP e.1, e.2))
  | .leaf l => by simp [flatT, pflatT, suffixP]
  | .node f => by
    simp only [flatT, pflatT]
    rw [flatF_eq (pre ++ [sep]) f]
    apply List.map_congr_left
    intro e he
    obtain ⟨k, p, hp⟩ := pflatF_cons f e he
    rw [hp]; simp [suffixP]
  | .obj f => by
    simp only [flatT, pflatT]
    rw [flatF_eq (pre ++ [sep]) f]
    apply List.map_congr_left
    intro e he
    obtain ⟨k, p, hp⟩ := pflatF_cons f e he
    rw [hp]; simp [suffixP]
theorem flatF_eq (pre : Key) : ∀ f : Forest,
    flatF pre f = (pflatF f).map (fun e => (pre ++ joinP e.1, e.2))
  | .nil => rfl
  | .cons k t r => by
    simp only [flatF, pflatF, List.map_append, List.map_map]
    rw [flatT_eq (pre ++ k) t, flatF_eq pre r]
    congr 1
    apply List.map_congr_left
    intro e _
    simp [joinP_cons]
theorem pflatF_cons : ∀ (f : Forest) (e : List Key × Leaf), e ∈ pflatF f → ∃ k p, e.1 = k :: p
  | .nil, e, h => by simp [pflatF] at h
  | .cons k t r, e, h => by
    simp only [pflatF, List.mem_append, List.mem_map] at h
    rcases h with ⟨e', _, rfl⟩ | h
    · exact ⟨k, e'.1, rfl⟩
    · exact pflatF_cons r e h
end

mutual
theorem pflatT_nosep : ∀ t : Tree, NpzT t → ∀ e ∈ pflatT t, ∀ k ∈ e.1, sep ∉ k
  | .leaf l, _, e, he, k, hk => by
    simp only [pflatT, List.mem_singleton] at he
    subst he; simp at hk
  | .node f, h, e, he, k, hk => pflatF_nosep f h.2 e he k hk
  | .obj _, h, _, _, _, _ => absurd h (by simp [NpzT])
theorem pflatF_nosep : ∀ f : Forest, NpzF f → ∀ e ∈ pflatF f, ∀ k ∈ e.1, sep ∉ k
  | .nil, _, e, he, _, _ => by simp [pflatF] at he
  | .cons k0 t r, h, e, he, k, hk => by
    simp only [pflatF, List.mem_append, List.mem_map] at he
    rcases he with ⟨e', he', rfl⟩ | he
    · simp only [List.mem_cons] at hk
      rcases hk with rfl | hk
      · exact h.1
      · exact pflatT_nosep t h.2.2.1 e' he' k hk
    · exact pflatF_nosep r h.2.2.2 e he k hk
end

/-- insertion of path entries, the loop of `_dict_unflatten` on split keys -/
def insAll (h : Forest) (es : List (List Key × Leaf)) : Forest :=
  es.foldl (fun acc e => insertPath e.1 e.2 acc) h

theorem insAll_append (h : Forest) (a b : List (List Key × Leaf)) :
    insAll h (a ++ b) = insAll (insAll h a) b := by simp [insAll, List.foldl_append]

theorem unflatten_flat (f : Forest) (hf : NpzF f) : unflatten (flatF [] f) = insAll .nil (pflatF f) := by
  rw [flatF_eq]
  simp only [unflatten, insAll, List.foldl_map, List.nil_append]
  have key : ∀ (es : List (List Key × Leaf)) (acc : Forest),
      (∀ e ∈ es, e.1 ≠ [] ∧ ∀ k ∈ e.1, sep ∉ k) →
      es.foldl (fun acc e => insertPath (splitSep (joinP e.1)) e.2 acc) acc =
        es.foldl (fun acc e => insertPath e.1 e.2 acc) acc := by
    intro es
    induction es with
    | nil => intros; rfl
    | cons e es ih =>
      intro acc h
      simp only [List.foldl_cons]
      rw [splitSep_joinP e.1 (h e (by simp)).1 (h e (by simp)).2]
      exact ih _ (fun e' he' => h e' (by simp [he']))
  apply key
  intro e he
  obtain ⟨k, p, hp⟩ := pflatF_cons f e he
  exact ⟨by rw [hp]; simp, pflatF_nosep f hf e he⟩

theorem upd_miss (k : Key) (g : Option Tree → Tree) : ∀ acc : Forest, k ∉ acc.keys →
    upd k g acc = acc ++ Forest.cons k (g none) .nil
  | .nil, _ => rfl
  | .cons k' t r, h => by
    have hk : k' ≠ k := fun e => h (by simp [Forest.keys, e])
    have hr : k ∉ r.keys := fun e => h (by simp [Forest.keys, e])
    simp only [upd, hk, if_false, Forest.cons_append]
    rw [upd_miss k g r hr]

theorem upd_hit (k : Key) (g : Option Tree → Tree) (t : Tree) (rest : Forest) :
    ∀ acc : Forest, k ∉ acc.keys →
    upd k g (acc ++ Forest.cons k t rest) = acc ++ Forest.cons k (g (some t)) rest
  | .nil, _ => by simp [Forest.nil_append, upd]
  | .cons k' t' r, h => by
    have hk : k' ≠ k := fun e => h (by simp [Forest.keys, e])
    have hr : k ∉ r.keys := fun e => h (by simp [Forest.keys, e])
    simp only [Forest.cons_append, upd, hk, if_false]
    rw [upd_hit k g t rest r hr]

/-- entries below an existing dictionary `k` are inserted inside it -/
theorem insAll_lift (k : Key) (acc : Forest) (hk : k ∉ acc.keys) :
    ∀ (es : List (List Key × Leaf)) (h : Forest), (∀ e ∈ es, e.1 ≠ []) →
    insAll (acc ++ Forest.cons k (.node h) .nil) (es.map (fun e => (k :: e.1, e.2))) =
      acc ++ Forest.cons k (.node (insAll h es)) .nil
  | [], h, _ => rfl
  | e :: es, h, hne => by
    simp only [List.map_cons, insAll, List.foldl_cons]
    obtain ⟨p1, p2⟩ := e
    cases p1 with
    | nil => exact absurd rfl (hne (([] : List Key), p2) (by simp))
    | cons k2 rest =>
      simp only [insertPath]
      rw [upd_hit k _ _ .nil acc hk]
      simp only [subForest]
      exact insAll_lift k acc hk es _ (fun e' he' => hne e' (by simp [he']))

mutual
theorem insAll_tree (k : Key) : ∀ (t : Tree) (h : Forest), NpzT t → k ∉ h.keys →
    insAll h ((pflatT t).map (fun e => (k :: e.1, e.2))) = h ++ Forest.cons k t .nil
  | .leaf l, h, _, hk => by
    simp only [pflatT, List.map_cons, List.map_nil, insAll, List.foldl_cons, List.foldl_nil,
      insertPath]
    exact upd_miss k _ h hk
  | .node g, h, hw, hk => by
    simp only [pflatT]
    have hne : ∀ e ∈ pflatF g, e.1 ≠ [] := by
      intro e he
      obtain ⟨k', p, hp⟩ := pflatF_cons g e he
      rw [hp]; simp
    cases hes : pflatF g with
    | nil =>
      -- impossible: a non-empty well-formed dictionary has entries
      exact absurd hes (pflatF_ne_nil g hw.1 hw.2)
    | cons e es =>
      obtain ⟨p1, p2⟩ := e
      have hp1 : p1 ≠ [] := by
        have := hne (p1, p2) (by rw [hes]; simp)
        exact this
      cases p1 with
      | nil => exact absurd rfl hp1
      | cons k2 rest =>
        simp only [List.map_cons, insAll, List.foldl_cons, insertPath]
        rw [upd_miss k _ h hk]
        simp only [subForest]
        have hl := insAll_lift k h hk es (insertPath (k2 :: rest) p2 .nil)
          (fun e' he' => hne e' (by rw [hes]; simp [he']))
        simp only [insAll] at hl
        rw [hl]
        have hC := insAll_forest g .nil hw.2 (by intro x hx; simp [Forest.keys])
        rw [hes] at hC
        simp only [insAll, List.foldl_cons, Forest.nil_append] at hC
        rw [hC]
  | .obj _, _, hw, _ => absurd hw (by simp [NpzT])
theorem insAll_forest : ∀ (g h : Forest), NpzF g → (∀ x ∈ g.keys, x ∉ h.keys) →
    insAll h (pflatF g) = h ++ g
  | .nil, h, _, _ => by simp [pflatF, insAll, Forest.append_nil]
  | .cons k t r, h, hw, hd => by
    simp only [pflatF]
    rw [insAll_append, insAll_tree k t h hw.2.2.1 (hd k (by simp [Forest.keys]))]
    rw [insAll_forest r (h ++ Forest.cons k t .nil) hw.2.2.2 ?_]
    · rw [Forest.append_assoc]; rfl
    · intro x hx
      rw [Forest.keys_append]
      simp only [Forest.keys, List.mem_append, List.mem_cons, List.not_mem_nil, or_false, not_or]
      refine ⟨hd x (by simp [Forest.keys, hx]), ?_⟩
      intro e; rw [e] at hx; exact hw.2.1 hx
theorem pflatF_ne_nil : ∀ g : Forest, g ≠ .nil → NpzF g → pflatF g ≠ []
  | .nil, h, _ => absurd rfl h
  | .cons k t r, _, hw => by
    simp only [pflatF]
    intro e
    have := List.append_eq_nil_iff.1 e
    have h1 := List.map_eq_nil_iff.1 this.1
    exact pflatT_ne_nil t hw.2.2.1 h1
theorem pflatT_ne_nil : ∀ t : Tree, NpzT t → pflatT t ≠ []
  | .leaf l, _ => by simp [pflatT]
  | .node g, hw => by simp only [pflatT]; exact pflatF_ne_nil g hw.1 hw.2
  | .obj _, hw => absurd hw (by simp [NpzT])
end

/-- **un-flatten inverts flatten** (ordered, exact) for dictionaries whose keys are free of '>',
unique, and whose nested dictionaries are non-empty -/
theorem unflatten_flatten (f : Forest) (hf : NpzF f) : unflatten (flatF [] f) = f := by
  rw [unflatten_flat f hf, insAll_forest f .nil hf (by intro x _; simp [Forest.keys])]
  rfl

/-- **NumPy**: `load ∘ save` is the identity if additionally the serialised dictionary is
flattenable (`NpzF`) -/
theorem load_save_npz (c : Codec) (known : String → Bool) (f : Forest)
    (hn : NoNT_F f) (hc : ClsF known f) (hz : NpzF (serF f)) :
    load c known (save c .npz f) = f := by
  simp only [save, load]
  rw [unflatten_flatten _ hz]
  exact des_non_ser_F known f hn hc

/-- the `.npz` limitation: an empty nested dictionary disappears -/
theorem npz_empty_dict_lost :
    unflatten (flatF [] (Forest.cons "a".toList (.node .nil) .nil)) = .nil := by
  simp [flatF, flatT, unflatten]

/-- **convert** between any two formats preserves the content -/
theorem convert_preserves (c : Codec) (hcod : ∀ l, c.dec (c.enc l).1 (c.enc l).2 = l)
    (known : String → Bool) (f : Forest) (hn : NoNT_F f) (hc : ClsF known f)
    (hz : NpzF (serF f)) (a b : Fmt) :
    load c known (convert c known (save c a f) b) = f := by
  have la : load c known (save c a f) = f := by
    cases a
    · exact load_save_h5 c known f hn hc
    · exact load_save_npz c known f hn hc hz
    · exact load_save_json c hcod known f hn hc
  unfold convert
  rw [la]
  cases b
  · exact load_save_h5 c known f hn hc
  · exact load_save_npz c known f hn hc hz
  · exact load_save_json c hcod known f hn hc

end IoT
