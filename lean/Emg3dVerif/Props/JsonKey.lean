import Emg3dVerif.Props.C17
import Emg3dVerif.Model.JsonKey
/-!
# C17, glue: the key flags of the JSON format are recovered exactly

`unflag_flag`: for every key that contains neither marker (`__array-`, `__complex`), every dtype
name that does not contain `__array-`, and every combination of flags, what `_dict_array_comp`
recovers from the flagged key is the key and the flags — in particular for keys that *end with
underscores* (`x_`, `_`, `a__`), the case the pinned tree got wrong (`key.split('__')[-1]`;
repaired in 984e1da).  The hypotheses are sharp: `marker_in_key_is_misread` exhibits a key
containing a marker that is not recovered.

Strings are `List Char`; `rsplit1`, `contains`, `removeAll` are the executable models of
`str.rsplit(sep, 1)`, `in`, `str.replace(sep, '')` (driver op `jkey`, compared with CPython on
adversarial keys by `harness/c17.py`).  Core Lean only.
-/
namespace JKey

/-! ## prefixes -/

theorem isPrefixOf_self_append (m d : Str) : m.isPrefixOf (m ++ d) = true := by
  induction m with
  | nil => simp [List.isPrefixOf]
  | cons c m ih => simp [ih]

/-- a prefix test that succeeds on `u ++ w` with `u` shorter than the pattern continues on `w` -/
theorem prefix_split (m u w : Str) (h : m.isPrefixOf (u ++ w) = true) (hl : u.length ≤ m.length) :
    (m.drop u.length).isPrefixOf w = true ∧ u.isPrefixOf m = true := by
  induction u generalizing m with
  | nil => simpa using h
  | cons a u ih =>
    cases m with
    | nil => simp at hl
    | cons b m =>
      simp only [List.cons_append, List.isPrefixOf, Bool.and_eq_true] at h
      simp only [List.length_cons, Nat.add_le_add_iff_right] at hl
      have := ih m h.2 hl
      simp only [List.length_cons, List.drop_succ_cons, List.isPrefixOf, Bool.and_eq_true]
      refine ⟨this.1, ?_, this.2⟩
      have hb := h.1
      simp only [beq_iff_eq] at hb ⊢
      exact hb.symm

/-- … and with `u` at least as long as the pattern it succeeds on `u` alone -/
theorem prefix_long (m u w : Str) (h : m.isPrefixOf (u ++ w) = true) (hl : m.length ≤ u.length) :
    m.isPrefixOf u = true := by
  induction u generalizing m with
  | nil =>
    cases m with
    | nil => rfl
    | cons b m => simp at hl
  | cons a u ih =>
    cases m with
    | nil => simp [List.isPrefixOf]
    | cons b m =>
      simp only [List.cons_append, List.isPrefixOf, Bool.and_eq_true] at h ⊢
      simp only [List.length_cons, Nat.add_le_add_iff_right] at hl
      exact ⟨h.1, ih m h.2 hl⟩

/-! ## `in` -/

theorem contains_cons (m : Str) (c : Char) (s : Str) :
    contains m (c :: s) = (m.isPrefixOf (c :: s) || contains m s) := rfl

theorem contains_of_prefix (m s : Str) (h : m.isPrefixOf s = true) : contains m s = true := by
  cases s with
  | nil => simpa [contains] using h
  | cons c s => rw [contains_cons, h]; rfl

theorem contains_append_self (m k d : Str) : contains m (k ++ (m ++ d)) = true := by
  induction k with
  | nil => exact contains_of_prefix _ _ (isPrefixOf_self_append m d)
  | cons c k ih => rw [List.cons_append, contains_cons, ih]; simp

/-- no self-overlap: no proper non-empty suffix of `m` is a prefix of `m` -/
def NoBorder (m : Str) : Prop := ∀ j, 0 < j → j < m.length → (m.drop j).isPrefixOf m = false

/-- `m` cannot start in a non-empty proper suffix of itself and run into `w` -/
def NoStraddle (m w : Str) : Prop := ∀ j, 0 < j → j < m.length → (m.drop j).isPrefixOf w = false

/-- no occurrence in `k`, none in `w`, none across the seam: none in `k ++ w` -/
theorem contains_append_false (m k w : Str) (hk : contains m k = false) (hw : contains m w = false)
    (hs : NoStraddle m w) : contains m (k ++ w) = false := by
  induction k with
  | nil => simpa using hw
  | cons c k ih =>
    rw [contains_cons, Bool.or_eq_false_iff] at hk
    rw [List.cons_append, contains_cons, ih hk.2, Bool.or_false]
    cases hp : m.isPrefixOf (c :: (k ++ w)) with
    | false => rfl
    | true =>
      exfalso
      rw [← List.cons_append] at hp
      by_cases hl : m.length ≤ (c :: k).length
      · have := prefix_long m (c :: k) w hp hl
        rw [hk.1] at this; cases this
      · have hlt : (c :: k).length < m.length := Nat.lt_of_not_le hl
        have := (prefix_split m (c :: k) w hp (Nat.le_of_lt hlt)).1
        rw [hs (c :: k).length (by simp) hlt] at this; cases this

/-! ## `rsplit(sep, 1)` -/

theorem rsplit1_none (m s : Str) (h : contains m s = false) : rsplit1 m s = none := by
  induction s with
  | nil =>
    simp only [contains] at h
    simp [rsplit1, h]
  | cons c s ih =>
    rw [contains_cons, Bool.or_eq_false_iff] at h
    simp [rsplit1, ih h.2, h.1]

/-- the split is at the marker that was appended, whatever stands before it, provided the
marker does not occur again further right -/
theorem rsplit1_append (m k d : Str) (hm : m ≠ [])
    (hlater : contains m ((m ++ d).tail) = false) : rsplit1 m (k ++ (m ++ d)) = some (k, d) := by
  induction k with
  | nil =>
    cases m with
    | nil => exact absurd rfl hm
    | cons c m' =>
      simp only [List.nil_append, List.cons_append, List.tail_cons] at hlater ⊢
      have hp := isPrefixOf_self_append (c :: m') d
      simp only [List.cons_append] at hp
      simp [rsplit1, rsplit1_none _ _ hlater, hp]
  | cons c k ih => simp [rsplit1, ih]

/-! ## `replace(sep, '')` -/

theorem removeAllAux_skip (m : Str) : ∀ (s : Str) (n : Nat), s.length ≤ n → removeAllAux m n s = []
  | [], _, _ => by cases ‹Nat› <;> rfl
  | _ :: s, 0, h => by simp at h
  | _ :: s, n + 1, h => by
    simp only [removeAllAux]
    exact removeAllAux_skip m s n (by simpa using h)

/-- no occurrence of `m` in `k ++ m` starts inside `k` -/
def NoOccBefore (m : Str) : Str → Prop
  | [] => True
  | c :: k => m.isPrefixOf (c :: k ++ m) = false ∧ NoOccBefore m k

theorem noOccBefore_of (m k : Str) (hk : contains m k = false) (hb : NoBorder m) :
    NoOccBefore m k := by
  induction k with
  | nil => trivial
  | cons c k ih =>
    rw [contains_cons, Bool.or_eq_false_iff] at hk
    refine ⟨?_, ih hk.2⟩
    cases hp : m.isPrefixOf (c :: k ++ m) with
    | false => rfl
    | true =>
      exfalso
      by_cases hl : m.length ≤ (c :: k).length
      · have := prefix_long m (c :: k) m hp hl
        rw [hk.1] at this; cases this
      · have hlt : (c :: k).length < m.length := Nat.lt_of_not_le hl
        have := (prefix_split m (c :: k) m hp (Nat.le_of_lt hlt)).1
        rw [hb (c :: k).length (by simp) hlt] at this; cases this

theorem removeAll_append_self (m k : Str) (hm : m ≠ []) (h : NoOccBefore m k) :
    removeAll m (k ++ m) = k := by
  unfold removeAll
  induction k with
  | nil =>
    cases m with
    | nil => exact absurd rfl hm
    | cons c m' =>
      have hp : (c :: m').isPrefixOf (c :: m') = true := by simp
      simp only [List.nil_append, removeAllAux, hp, if_true]
      exact removeAllAux_skip _ m' _ (by simp)
  | cons c k ih =>
    obtain ⟨h1, h2⟩ := h
    simp only [List.cons_append] at h1 ⊢
    simp only [removeAllAux, h1]
    simp [ih h2]

/-! ## the two markers -/

theorem arrMark_ne : arrMark ≠ [] := by decide
theorem cplxMark_ne : cplxMark ≠ [] := by decide

theorem cplx_noBorder : NoBorder cplxMark := by
  intro j h0 hj
  have hl : cplxMark.length = 9 := by decide
  have key : ∀ i : Fin 9, 0 < i.val → (cplxMark.drop i.val).isPrefixOf cplxMark = false := by
    decide
  exact key ⟨j, hl ▸ hj⟩ h0

theorem arr_noStraddle_cplx : NoStraddle arrMark cplxMark := by
  intro j h0 hj
  have hl : arrMark.length = 8 := by decide
  have key : ∀ i : Fin 8, 0 < i.val → (arrMark.drop i.val).isPrefixOf cplxMark = false := by
    decide
  exact key ⟨j, hl ▸ hj⟩ h0

theorem arr_notin_cplx : contains arrMark cplxMark = false := by decide

/-- after the appended array marker the marker does not occur again (dtype names do not
contain it, and the marker does not overlap itself) -/
theorem arr_later (d : Str) (hd : contains arrMark d = false) :
    contains arrMark ((arrMark ++ d).tail) = false := by
  show contains arrMark ('_' :: 'a' :: 'r' :: 'r' :: 'a' :: 'y' :: '-' :: d) = false
  have hm : arrMark = ['_', '_', 'a', 'r', 'r', 'a', 'y', '-'] := by decide
  simp only [contains_cons, hm, List.isPrefixOf]
  rw [hm] at hd
  simpa using hd

/-! ## the theorem -/

/-- **`_dict_array_comp` recovers key and flags from what `_dict_dearray_decomp` wrote**, for
every key containing neither marker — keys ending with underscores included — and every dtype
name not containing `__array-`. -/
theorem unflag_flag (k : Str) (cplx : Bool) (arr : Option Str)
    (hk1 : contains arrMark k = false) (hk2 : contains cplxMark k = false)
    (hd : ∀ d, arr = some d → contains arrMark d = false) :
    unflagKey (flagKey k cplx arr) = (k, cplx, arr) := by
  have hrem : removeAll cplxMark (k ++ cplxMark) = k :=
    removeAll_append_self cplxMark k cplxMark_ne (noOccBefore_of _ _ hk2 cplx_noBorder)
  have hcc : contains cplxMark (k ++ cplxMark) = true := by
    have := contains_append_self cplxMark k []
    simpa using this
  have hac : contains arrMark (k ++ cplxMark) = false :=
    contains_append_false arrMark k cplxMark hk1 arr_notin_cplx arr_noStraddle_cplx
  cases arr with
  | none =>
    cases cplx with
    | false => simp [unflagKey, flagKey, hk1, hk2]
    | true => simp [unflagKey, flagKey, hac, hcc, hrem]
  | some d =>
    have hdd := hd d rfl
    have hlater := arr_later d hdd
    cases cplx with
    | false =>
      have h1 : contains arrMark (k ++ (arrMark ++ d)) = true := contains_append_self _ _ _
      have h2 := rsplit1_append arrMark k d arrMark_ne hlater
      simp [unflagKey, flagKey, List.append_assoc, h1, h2, hk2]
    | true =>
      have h1 : contains arrMark ((k ++ cplxMark) ++ (arrMark ++ d)) = true :=
        contains_append_self _ _ _
      have h2 := rsplit1_append arrMark (k ++ cplxMark) d arrMark_ne hlater
      simp [unflagKey, flagKey, List.append_assoc] at h1 h2 ⊢
      simp [h1, h2, hcc, hrem]

/-- non-vacuity, and the case of the repaired defect: keys ending with underscores -/
example : unflagKey (flagKey "x_".toList false (some "float64".toList))
    = ("x_".toList, false, some "float64".toList) := by decide
example : unflagKey (flagKey "_".toList true (some "float64".toList))
    = ("_".toList, true, some "float64".toList) := by decide

/-- the hypotheses are needed: a key that contains a marker is not recovered (a real value
stored under `a__complex` is read back as the complex entry `a`) -/
theorem marker_in_key_is_misread :
    unflagKey (flagKey "a__complex".toList false none) ≠ ("a__complex".toList, false, none) := by
  decide

end JKey

/-! ## array shapes through JSON -/
namespace JShape

/-- **what `.json` does to the shape of an array**: it is cut after the first zero-length axis -/
theorem shapeOf_nest : ∀ s : List Nat, shapeOf (nest s) = cut s
  | [] => rfl
  | 0 :: r => rfl
  | (n + 1) :: r => by
    simp only [nest, List.replicate_succ, shapeOf, cut, List.length_replicate]
    rw [shapeOf_nest r]

/-- shapes without a zero-length axis before the last one survive … -/
theorem roundtrip (s : List Nat) (h : cut s = s) : shapeOf (nest s) = s := by
  rw [shapeOf_nest, h]

/-- … `(0, 3)` and `(2, 0, 3)` do not (known finding `json-empty-array-shape`) -/
theorem empty_array_shape_lost :
    shapeOf (nest [0, 3]) = [0] ∧ shapeOf (nest [2, 0, 3]) = [2, 0] := by
  constructor <;> rfl

end JShape

