import Emg3dVerif.Props.C03
import Emg3dVerif.Props.C04
import Emg3dVerif.Model.Cycle
import Mathlib.Tactic.IntervalCases
import Mathlib.Tactic.NormNum
set_option linter.unusedSectionVars false
/-!
# The complete multigrid call is a consistent iteration (C03 at the level of `multigrid`)

`Emg.runTrace` interprets an event trace of the cycling model (C05) with the operator models
of C02 (residual), C03 (smoothers) and C04 (restriction, coarse model, prolongation).

`runTrace_fixed`: for **every** event list — every cycle type, every semicoarsening and
line-relaxation pattern, every number of cycles, every number of smoothing steps, well
bracketed or not — a fine-grid field that solves the system exactly is returned unchanged and
all coarse-grid corrections are exactly zero.  `mgRun_fixed` is the instance for the trace
`MGH.mgTrace` of one `multigrid` call.

Tie to the code: `harness/c03.py`, suite `cycle`: `solver.multigrid` (float64) against
`Emg.mgRun` (exact Gaussian rationals) on the same inputs.
-/
namespace Emg
open MGH
variable {K : Type} [Field K] [DecidableEq K]

theorem matVM_eq (g : Grid K) (m : VM K) : matVM g m = m := by
  cases m
  simp only [matVM, mat3_eq]

theorem residual_eq (g : Grid K) (m : VM K) (s e : EF K) :
    residual g m s e = s.minus (amat g m e) := matEF_eq _ _

/-- the operator applied to the zero field is zero -/
theorem amat_zero (g : Grid K) (m : VM K) : amat g m (zeroEF : EF K) = zeroEF := by
  apply EF.ext_get
  intro d
  obtain ⟨c, i, j, k⟩ := d
  cases c <;>
    simp [EF.get, amat, zeroEF, rrx, rry, rrz, u1pp, u1mp, u1pm, u2pp, u2mp, u2pm, u3pp, u3mp, u3pm,
      v1pp, v1mp, v1pm, v2pp, v2mp, v2pm, v3pp, v3mp, v3pm]

theorem amatAt_zero (g : Grid K) (m : VM K) (r : Edge) : amatAt g m (zeroEF : EF K) r = 0 := by
  unfold amatAt
  rw [amat_zero]
  obtain ⟨c, i, j, k⟩ := r
  cases c <;> rfl

theorem zeroEF_get (r : Edge) : (zeroEF : EF K).get r = 0 := by
  obtain ⟨c, i, j, k⟩ := r
  cases c <;> rfl

theorem sub_zero_zero : (zeroEF : EF K).minus zeroEF = zeroEF := by
  simp [EF.minus, zeroEF]

theorem R1_zero (mode : Mode) (h : ℕ → K) (n I : ℕ) : R1 mode h n (fun _ => (0:K)) I = 0 := by
  cases mode <;> simp [R1]

theorem restrict_zero (sc : ℕ) (g : Grid K) : restrict sc g (zeroEF : EF K) = zeroEF := by
  simp [restrict, R3, R1_zero, zeroEF]

theorem prolong_zero (sc : ℕ) (g : Grid K) (e : EF K) : prolong sc g e (zeroEF : EF K) = e := by
  cases e
  simp [prolong, P3, P1_zero, zeroEF]

/-- the level solves its system exactly: the interior equations hold, and source and field
vanish on all other (tangential boundary) edges -/
def Solved (l : Lvl K) : Prop :=
  (∀ d, Interior l.g.nx l.g.ny l.g.nz d → amatAt l.g l.m l.e d = l.s.get d) ∧
  (∀ d, ¬ Interior l.g.nx l.g.ny l.g.nz d → l.s.get d = 0 ∧ l.e.get d = 0)

theorem amat_near_boundary_y (g : Grid K) (m : VM K) (e : EF K) (i j k : Nat)
    (hi : i < g.nx) (hj : j < g.ny) (hk : k < g.nz) (hb : i = 0 ∨ k = 0) :
    (amat g m e).y i j k = - (sty m i j k * e.y i j k / 4) := by
  have : (i == 0 || k == 0) = true := by
    rcases hb with h | h <;> simp [h]
  simp only [amat, hi, hj, hk, decide_true, Bool.and_self, if_true, rry, this]
  ring

theorem amat_near_boundary_z (g : Grid K) (m : VM K) (e : EF K) (i j k : Nat)
    (hi : i < g.nx) (hj : j < g.ny) (hk : k < g.nz) (hb : i = 0 ∨ j = 0) :
    (amat g m e).z i j k = - (stz m i j k * e.z i j k / 4) := by
  have : (i == 0 || j == 0) = true := by
    rcases hb with h | h <;> simp [h]
  simp only [amat, hi, hj, hk, decide_true, Bool.and_self, if_true, rrz, this]
  ring

/-- on edges outside the interior the operator returns zero for a field that vanishes there -/
theorem amat_nonint (g : Grid K) (m : VM K) (e : EF K) (d : Edge)
    (hd : ¬ Interior g.nx g.ny g.nz d) (he : e.get d = 0) : (amat g m e).get d = 0 := by
  obtain ⟨c, i, j, k⟩ := d
  by_cases hr : i < g.nx ∧ j < g.ny ∧ k < g.nz
  · cases c <;> simp only [EF.get, Interior] at he hd ⊢
    · rw [amat_near_boundary_x g m e i j k hr.1 hr.2.1 hr.2.2 (by omega), he]; ring
    · rw [amat_near_boundary_y g m e i j k hr.1 hr.2.1 hr.2.2 (by omega), he]; ring
    · rw [amat_near_boundary_z g m e i j k hr.1 hr.2.1 hr.2.2 (by omega), he]; ring
  · have hb : g.nx ≤ i ∨ g.ny ≤ j ∨ g.nz ≤ k := by omega
    have := amat_far_boundary_untouched g m e i j k hb
    cases c <;> simp only [EF.get]
    · exact this.1
    · exact this.2.1
    · exact this.2.2

theorem EF.get_minus (a b : EF K) (d : Edge) : (a.minus b).get d = a.get d - b.get d := by
  obtain ⟨c, i, j, k⟩ := d
  cases c <;> rfl

/-- … then the residual `solver.residual` computes is zero on *every* edge -/
theorem residual_of_solved (l : Lvl K) (h : Solved l) : residual l.g l.m l.s l.e = zeroEF := by
  rw [residual_eq]
  apply EF.ext_get
  intro d
  rw [zeroEF_get, EF.get_minus]
  by_cases hd : Interior l.g.nx l.g.ny l.g.nz d
  · have := h.1 d hd
    unfold amatAt at this
    rw [this]; ring
  · obtain ⟨hs, he⟩ := h.2 d hd
    rw [hs, amat_nonint l.g l.m l.e d hd he]; ring

/-- grids and models the recursion can reach from the fine level -/
inductive Reach (g0 : Grid K) (m0 : VM K) : Grid K → VM K → Prop
  | base : Reach g0 m0 g0 m0
  | step (csc : ℕ) {g : Grid K} {m : VM K} :
      Reach g0 m0 g m → Reach g0 m0 (coarseGrid csc g) (coarseVM csc g m)

/-- a coarse level holding a zero problem with a zero field -/
def ZeroL (g0 : Grid K) (m0 : VM K) (z : Lvl K) : Prop :=
  z.s = zeroEF ∧ z.e = zeroEF ∧ Reach g0 m0 z.g z.m

theorem smoothingC_fixed (g : Grid K) (m : VM K) (s e : EF K) (nu clr : ℕ) (hinj : AllInj g m)
    (hsol : ∀ d, Interior g.nx g.ny g.nz d → amatAt g m e d = s.get d) :
    (smoothingC g m s e nu clr).1 = e := by
  unfold smoothingC
  apply relaxAll_fixed
  · intro B hB
    simp only [List.mem_flatMap] at hB
    obtain ⟨kernel, _, hB⟩ := hB
    exact hinj kernel nu B hB
  · intro B hB r hr
    simp only [List.mem_flatMap] at hB
    obtain ⟨kernel, _, hB⟩ := hB
    exact hsol r (kernelBlocks_interior _ _ _ _ _ B hB r hr)

theorem smoothingC_zero (g : Grid K) (m : VM K) (nu clr : ℕ) (hinj : AllInj g m) :
    (smoothingC g m (zeroEF : EF K) zeroEF nu clr).1 = zeroEF :=
  smoothingC_fixed g m _ _ nu clr hinj (fun d _ => by rw [amatAt_zero, zeroEF_get])

theorem coarseLvl_zero (g0 : Grid K) (m0 : VM K) (csc : ℕ) (l : Lvl K)
    (hres : residual l.g l.m l.s l.e = zeroEF) (hr : Reach g0 m0 l.g l.m) :
    ZeroL g0 m0 (coarseLvl csc l) := by
  refine ⟨?_, rfl, Reach.step csc hr⟩
  simp only [coarseLvl, hres, restrict_zero, matEF_eq]

theorem residual_zeroL (g0 : Grid K) (m0 : VM K) (z : Lvl K) (hz : ZeroL g0 m0 z) :
    residual z.g z.m z.s z.e = zeroEF := by
  rw [residual_eq, hz.1, hz.2.1, amat_zero, sub_zero_zero]

/-- the stack: zero levels above the unchanged fine level -/
def Inv (l0 : Lvl K) (st : List (Lvl K) × Bool) : Prop :=
  ∃ zs, st.1 = zs ++ [l0] ∧ ∀ z ∈ zs, ZeroL l0.g l0.m z

theorem step_inv (l0 : Lvl K) (hS : Solved l0)
    (hInj : ∀ g m, Reach l0.g l0.m g m → AllInj g m) (st : List (Lvl K) × Bool) (ev : Ev)
    (h : Inv l0 st) : Inv l0 (step st ev) := by
  obtain ⟨stack, ok⟩ := st
  obtain ⟨zs, hst, hz⟩ := h
  simp only at hst
  subst hst
  cases ev with
  | enter a b c => cases zs <;> exact ⟨_, rfl, hz⟩
  | cycleEnd a b c => cases zs <;> exact ⟨_, rfl, hz⟩
  | smooth lev sh nu clr =>
    cases zs with
    | nil =>
      refine ⟨[], ?_, hz⟩
      simp only [List.nil_append, step]
      rw [smoothingC_fixed l0.g l0.m l0.s l0.e nu clr (hInj _ _ Reach.base) hS.1]
    | cons z zs =>
      refine ⟨z :: zs, ?_, hz⟩
      have hzz := hz z List.mem_cons_self
      simp only [List.cons_append, step]
      have : (smoothingC z.g z.m z.s z.e nu clr).1 = z.e := by
        rw [hzz.1, hzz.2.1]
        exact smoothingC_zero z.g z.m nu clr (hInj _ _ hzz.2.2)
      rw [this]
  | restrict lev sh csc cs =>
    cases zs with
    | nil =>
      refine ⟨[coarseLvl csc l0], rfl, ?_⟩
      intro z hzm
      simp only [List.mem_singleton] at hzm
      subst hzm
      exact coarseLvl_zero _ _ csc l0 (residual_of_solved l0 hS) Reach.base
    | cons z zs =>
      refine ⟨coarseLvl csc z :: z :: zs, rfl, ?_⟩
      intro y hy
      rcases List.mem_cons.mp hy with rfl | hy
      · have hzz := hz z List.mem_cons_self
        exact coarseLvl_zero _ _ csc z (residual_zeroL _ _ z hzz) hzz.2.2
      · exact hz y hy
  | prolong lev sh csc =>
    cases zs with
    | nil => exact ⟨[], rfl, hz⟩
    | cons c zs =>
      have hc := hz c List.mem_cons_self
      cases zs with
      | nil =>
        refine ⟨[], ?_, fun z hzm => by cases hzm⟩
        simp only [List.cons_append, List.nil_append, step]
        rw [hc.2.1, prolong_zero, matEF_eq]
      | cons z zs =>
        refine ⟨z :: zs, ?_, fun y hy => hz y (List.mem_cons_of_mem _ hy)⟩
        simp only [List.cons_append, step]
        rw [hc.2.1, prolong_zero, matEF_eq]

/-- **Every event list leaves an exactly solved fine level unchanged** (and every coarse-grid
problem it creates is the zero problem with the zero solution). -/
theorem runTrace_fixed (l0 : Lvl K) (hS : Solved l0)
    (hInj : ∀ g m, Reach l0.g l0.m g m → AllInj g m) (evs : List Ev) :
    ∀ st, Inv l0 st → Inv l0 (runTrace st evs) := by
  induction evs with
  | nil => intro st h; exact h
  | cons ev evs ih =>
    intro st h
    simp only [runTrace, List.foldl_cons]
    exact ih _ (step_inv l0 hS hInj st ev h)

/-- **One complete `multigrid` call** — any cycle type, smoothing counts, semicoarsening and
line-relaxation patterns, number of cycles — **returns an exact solution unchanged.** -/
theorem mgRun_fixed (r : Run) (l0 : Lvl K) (hS : Solved l0)
    (hInj : ∀ g m, Reach l0.g l0.m g m → AllInj g m) :
    ∃ zs, (mgRun r l0).1 = zs ++ [l0] ∧ ∀ z ∈ zs, z.e = zeroEF :=
  let ⟨zs, h1, h2⟩ := runTrace_fixed l0 hS hInj (mgTrace r) ([l0], true) ⟨[], rfl, fun _ h => by cases h⟩
  ⟨zs, h1, fun z hz => (h2 z hz).2.1⟩

/-! ## the trace of a `multigrid` call is balanced: the stack returns to the fine level -/

theorem runTrace_append (st : List (Lvl K) × Bool) (a b : List Ev) :
    runTrace st (a ++ b) = runTrace (runTrace st a) b := by
  simp only [runTrace, List.foldl_append]

/-- an event list that leaves the depth of every non-empty stack unchanged -/
def LenPres (K : Type) [Field K] [DecidableEq K] (evs : List Ev) : Prop :=
  ∀ st : List (Lvl K) × Bool, 1 ≤ st.1.length → (runTrace st evs).1.length = st.1.length

theorem lenPres_nil : LenPres K [] := fun _ _ => rfl

theorem lenPres_append {a b : List Ev} (ha : LenPres K a) (hb : LenPres K b) :
    LenPres K (a ++ b) := by
  intro st h
  rw [runTrace_append, hb _ (by rw [ha st h]; exact h), ha st h]

theorem lenPres_single_flat (ev : Ev) (hev : (∀ l s c cs, ev ≠ .restrict l s c cs) ∧
    (∀ l s c, ev ≠ .prolong l s c)) : LenPres K [ev] := by
  intro st _
  obtain ⟨stack, ok⟩ := st
  cases ev with
  | enter a b c => cases stack <;> rfl
  | cycleEnd a b c => cases stack <;> rfl
  | smooth lev sh nu clr => cases stack <;> rfl
  | restrict l s c cs => exact absurd rfl (hev.1 l s c cs)
  | prolong l s c => exact absurd rfl (hev.2 l s c)

theorem lenPres_smooth (l : ℕ) (s : Shape) (nu clr : ℕ) : LenPres K [Ev.smooth l s nu clr] :=
  lenPres_single_flat _ ⟨fun _ _ _ _ h => (by cases h), fun _ _ _ h => (by cases h)⟩

theorem lenPres_enter (l n : ℕ) (s : Shape) : LenPres K [Ev.enter l n s] :=
  lenPres_single_flat _ ⟨fun _ _ _ _ h => (by cases h), fun _ _ _ h => (by cases h)⟩

theorem lenPres_cycleEnd (a b c : ℕ) : LenPres K [Ev.cycleEnd a b c] :=
  lenPres_single_flat _ ⟨fun _ _ _ _ h => (by cases h), fun _ _ _ h => (by cases h)⟩

/-- restriction, a balanced list, prolongation: balanced -/
theorem lenPres_bracket {B : List Ev} (hB : LenPres K B) (l1 : ℕ) (s1 : Shape) (c1 : ℕ)
    (cs : Shape) (l2 : ℕ) (s2 : Shape) (c2 : ℕ) :
    LenPres K ([Ev.restrict l1 s1 c1 cs] ++ B ++ [Ev.prolong l2 s2 c2]) := by
  intro st h
  obtain ⟨stack, ok⟩ := st
  cases stack with
  | nil => simp at h
  | cons l ls =>
    rw [runTrace_append, runTrace_append]
    have h1 : runTrace (l :: ls, ok) [Ev.restrict l1 s1 c1 cs] = (coarseLvl c1 l :: l :: ls, ok) := rfl
    rw [h1]
    have h2 := hB (coarseLvl c1 l :: l :: ls, ok) (by simp)
    generalize runTrace (coarseLvl c1 l :: l :: ls, ok) B = st2 at h2
    obtain ⟨stack2, ok2⟩ := st2
    simp only [List.length_cons] at h2
    cases stack2 with
    | nil => simp at h2
    | cons c rest =>
      cases rest with
      | nil => simp at h2
      | cons a rest' =>
        simp only [runTrace, List.foldl_cons, List.foldl_nil, step, List.length_cons] at h2 ⊢
        omega

theorem lenPres_flatMap {α : Type} (xs : List α) (f : α → List Ev) (h : ∀ x, LenPres K (f x)) :
    LenPres K (xs.flatMap f) := by
  induction xs with
  | nil => exact lenPres_nil
  | cons x xs ih => rw [List.flatMap_cons]; exact lenPres_append (h x) ih

theorem lenPres_pre (cfg : Cfg) (level : ℕ) (s : Shape) (lr : ℕ) : LenPres K (pre cfg level s lr) := by
  unfold pre; split
  · exact lenPres_smooth _ _ _ _
  · exact lenPres_nil

theorem lenPres_post (cfg : Cfg) (level : ℕ) (s : Shape) (lr : ℕ) : LenPres K (post cfg level s lr) := by
  unfold post; split
  · exact lenPres_smooth _ _ _ _
  · exact lenPres_nil

theorem lenPres_passes (cfg : Cfg) (sc lr : ℕ) : ∀ (fuel level nc : ℕ) (s : Shape),
    LenPres K (passes cfg sc lr fuel level nc s) := by
  intro fuel
  induction fuel with
  | zero =>
    intro level nc s
    simp only [passes]
    exact lenPres_append (a := [Ev.enter level nc s]) (lenPres_enter _ _ _) (lenPres_smooth _ _ _ _)
  | succ fuel ih =>
    intro level nc s
    simp only [passes]
    refine lenPres_append (a := [Ev.enter level nc s]) (lenPres_enter _ _ _) ?_
    refine lenPres_flatMap _ _ fun it => ?_
    have hb := lenPres_bracket (K := K) (ih (level+1) ((if (nc == 0 || !cfg.isF) = true then cfg.cycmax else nc) - it)
      (coarsen (currentScDir sc s) s)) level s (currentScDir sc s) (coarsen (currentScDir sc s) s)
      level s (currentScDir sc s)
    have := lenPres_append (lenPres_append (lenPres_pre (K := K) cfg level s lr) hb)
      (lenPres_post (K := K) cfg level s lr)
    simpa only [List.append_assoc] using this

theorem lenPres_fineIter (cfg : Cfg) (D sc lr cm : ℕ) (s : Shape) :
    LenPres K (fineIter cfg D sc lr cm s) := by
  cases D with
  | zero => exact lenPres_smooth _ _ _ _
  | succ D' =>
    simp only [fineIter]
    have hb := lenPres_bracket (K := K) (lenPres_passes cfg sc lr D' 1 cm
      (coarsen (currentScDir sc s) s)) 0 s (currentScDir sc s) (coarsen (currentScDir sc s) s)
      0 s (currentScDir sc s)
    have := lenPres_append (lenPres_append (lenPres_pre (K := K) cfg 0 s lr) hb)
      (lenPres_post (K := K) cfg 0 s lr)
    simpa only [List.append_assoc] using this

theorem lenPres_fineLoop (r : Run) : ∀ n k it cm, LenPres K (fineLoop r n k it cm) := by
  intro n
  induction n with
  | zero => intro k it cm; exact lenPres_nil
  | succ n ih =>
    intro k it cm
    simp only [fineLoop]
    exact lenPres_append (lenPres_append (lenPres_fineIter _ _ _ _ _ _) (lenPres_cycleEnd _ _ _))
      (ih _ _ _)

theorem lenPres_mgTrace (r : Run) : LenPres K (mgTrace r) := by
  simp only [mgTrace]
  refine lenPres_append (lenPres_append (lenPres_enter _ _ _) ?_) (lenPres_fineLoop r _ _ _ _)
  split
  · exact lenPres_smooth _ _ _ _
  · exact lenPres_nil

/-- **One complete `multigrid` call returns exactly the fine level it was given, with the
field unchanged, if that field solves the system** (the stack is back at depth one). -/
theorem mgRun_fixed_exact (r : Run) (l0 : Lvl K) (hS : Solved l0)
    (hInj : ∀ g m, Reach l0.g l0.m g m → AllInj g m) : (mgRun r l0).1 = [l0] := by
  obtain ⟨zs, h1, _⟩ := mgRun_fixed r l0 hS hInj
  have hlen := lenPres_mgTrace (K := K) r ([l0], true) (by simp)
  unfold mgRun at h1 ⊢
  rw [h1] at hlen
  simp only [List.length_append, List.length_cons, List.length_nil] at hlen
  have : zs = [] := List.length_eq_zero_iff.1 (by omega)
  rw [h1, this, List.nil_append]

/-! ## non-vacuity: a non-trivial exactly solved level (2×2×2 cells, triaxial coefficients) -/

namespace Ex
def g0 : Grid ℚ := ⟨2, 2, 2, fun _ => 1, fun _ => 1, fun _ => 1⟩
def m0 : VM ℚ := ⟨fun _ _ _ => -1, fun _ _ _ => -2, fun _ _ _ => -3, fun _ _ _ => 1⟩
def e0 : EF ℚ := ⟨fun i j k => if i = 0 ∧ j = 1 ∧ k = 1 then 1 else 0, fun _ _ _ => 0,
  fun i j k => if i = 1 ∧ j = 1 ∧ k = 0 then 2 else 0⟩
/-- `A e0` on the six interior edges (computed with the executable model), zero elsewhere -/
def s0 : EF ℚ :=
  ⟨fun i j k => if i = 0 ∧ j = 1 ∧ k = 1 then 3 else if i = 1 ∧ j = 1 ∧ k = 1 then 2 else 0,
   fun i j k => if i = 1 ∧ j = 0 ∧ k = 1 then -3 else if i = 1 ∧ j = 1 ∧ k = 1 then 3 else 0,
   fun i j k => if i = 1 ∧ j = 1 ∧ k = 0 then 13 else if i = 1 ∧ j = 1 ∧ k = 1 then 1 else 0⟩

example : Solved (⟨g0, m0, s0, e0⟩ : Lvl ℚ) := by
  constructor
  · intro d hd
    obtain ⟨c, i, j, k⟩ := d
    cases c <;> simp only [Interior, g0] at hd
    · obtain ⟨h1, h2, h3, h4, h5⟩ := hd
      have hj : j = 1 := by omega
      have hk : k = 1 := by omega
      subst hj; subst hk
      interval_cases i <;>
        norm_num [amatAt, amat, EF.get, g0, m0, e0, s0, rrx, stx, u3pp, u3pm, u2pp, u2pm, v3pp,
          v3pm, v2pp, v2pm]
    · obtain ⟨h1, h2, h3, h4, h5⟩ := hd
      have hi : i = 1 := by omega
      have hk : k = 1 := by omega
      subst hi; subst hk
      interval_cases j <;>
        norm_num [amatAt, amat, EF.get, g0, m0, e0, s0, rry, sty, u1pp, u1pm, u3pp, u3mp, v1pp,
          v1pm, v3pp, v3mp]
    · obtain ⟨h1, h2, h3, h4, h5⟩ := hd
      have hi : i = 1 := by omega
      have hj : j = 1 := by omega
      subst hi; subst hj
      interval_cases k <;>
        norm_num [amatAt, amat, EF.get, g0, m0, e0, s0, rrz, stz, u2pp, u2mp, u1pp, u1mp, v2pp,
          v2mp, v1pp, v1mp]
  · intro d hd
    obtain ⟨c, i, j, k⟩ := d
    cases c <;> simp only [Interior, g0] at hd <;> simp only [EF.get, s0, e0] <;>
      constructor <;> (repeat' split) <;> first | rfl | trivial | (exfalso; omega)
end Ex

end Emg
