import Emg3dVerif.Model.VolAvg
import Mathlib.Algebra.BigOperators.Intervals
import Mathlib.Algebra.BigOperators.Ring.Finset
import Mathlib.Algebra.Order.BigOperators.Ring.Finset
import Mathlib.Algebra.Order.Field.Basic
import Mathlib.Tactic.Ring
import Mathlib.Tactic.Linarith
import Mathlib.Tactic.FieldSimp
import Mathlib.Tactic.Positivity
import Mathlib.Order.Lattice
/-!
# C15 — volume averaging between grids conserves the integrated property

`VolAvg.volAvg` / `VolAvg.W` is the closed form of `emg3d.maps.interp_volume_average` (tied to
the code by the exact-rational correspondence of `harness/c15.py`).  One-dimensional theorems
over an arbitrary ordered field; the 3-D map is the tensor product of the 1-D maps.
-/
open Finset
namespace VolAvg
variable {K : Type} [Field K] [LinearOrder K] [IsStrictOrderedRing K]

theorem sumTo_eq (n : ℕ) (f : ℕ → K) : sumTo n f = ∑ i ∈ range n, f i := by
  induction n with
  | zero => simp [sumTo]
  | succ n ih => rw [sumTo, ih, sum_range_succ]

def clamp (l r x : K) : K := min (max x l) r

/-- overlap length of `[a, a']` with `[l, r]` as a difference of clamped end points -/
theorem overlap_eq_clamp (a a' l r : K) (hlr : l ≤ r) (hmono : a ≤ a') :
    max 0 (min a' r - max a l) = clamp l r a' - clamp l r a := by
  unfold clamp
  rcases le_total a' r with h1 | h1 <;> rcases le_total a l with h2 | h2 <;>
  rcases le_total a' l with h3 | h3 <;> rcases le_total a r with h4 | h4 <;>
  simp only [min_def, max_def] <;> split_ifs <;> linarith

/-- the overlaps of a partition `a 0 ≤ … ≤ a n` of a range containing `[l, r]` sum to `r − l` -/
theorem clamp_telescope (a : ℕ → K) (n : ℕ) (l r : K) (hlr : l ≤ r)
    (hmono : ∀ i < n, a i ≤ a (i+1)) (hl : a 0 ≤ l) (hr : r ≤ a n) :
    ∑ i ∈ range n, max 0 (min (a (i+1)) r - max (a i) l) = r - l := by
  have h : ∀ m ≤ n, ∑ i ∈ range m, max 0 (min (a (i+1)) r - max (a i) l)
      = clamp l r (a m) - clamp l r (a 0) := by
    intro m hm
    induction m with
    | zero => simp
    | succ m ih =>
      rw [sum_range_succ, ih (by omega), overlap_eq_clamp _ _ l r hlr (hmono m (by omega))]; ring
  rw [h n le_rfl]
  unfold clamp
  rw [max_eq_right hl, min_eq_left hlr, max_eq_left (le_trans hlr hr), min_eq_right hr]

/-- extended node sequence of the input grid -/
def aE (xin xout : ℕ → K) (n m : ℕ) (i : ℕ) : K :=
  if i = 0 then min (xin 0) (xout 0) else if i = n then max (xin n) (xout m) else xin i

theorem aE_zero (xin xout : ℕ → K) (n m : ℕ) : aE xin xout n m 0 = min (xin 0) (xout 0) := by
  simp [aE]
theorem aE_last (xin xout : ℕ → K) (n m : ℕ) (hn : n ≠ 0) :
    aE xin xout n m n = max (xin n) (xout m) := by
  simp [aE, hn]
theorem aE_mid (xin xout : ℕ → K) (n m i : ℕ) (h0 : i ≠ 0) (hn : i ≠ n) :
    aE xin xout n m i = xin i := by
  simp [aE, h0, hn]

theorem loE_eq (xin xout : ℕ → K) (n m i : ℕ) (hi : i < n) :
    loE xin xout i = aE xin xout n m i := by
  by_cases h0 : i = 0
  · subst h0; rw [aE_zero]; simp [loE]
  · rw [aE_mid _ _ _ _ _ h0 (by omega)]; simp [loE, h0]

theorem hiE_eq (xin xout : ℕ → K) (n m i : ℕ) (hi : i < n) :
    hiE xin xout n m i = aE xin xout n m (i+1) := by
  by_cases hn : i + 1 = n
  · rw [hn, aE_last _ _ _ _ (by omega)]; simp [hiE, hn]
  · rw [aE_mid _ _ _ _ _ (by omega) hn]; simp [hiE, hn]

theorem W_eq (xin xout : ℕ → K) (n m j i : ℕ) (hi : i < n) :
    W xin xout n m j i
      = max 0 (min (aE xin xout n m (i+1)) (xout (j+1)) - max (aE xin xout n m i) (xout j)) := by
  unfold W
  rw [loE_eq xin xout n m i hi, hiE_eq xin xout n m i hi]

def Mono (x : ℕ → K) (n : ℕ) : Prop := ∀ i < n, x i ≤ x (i+1)

theorem Mono.le {x : ℕ → K} {n : ℕ} (h : Mono x n) : ∀ i j, i ≤ j → j ≤ n → x i ≤ x j := by
  intro i j hij hj
  induction j with
  | zero => have : i = 0 := by omega
            subst this; exact le_rfl
  | succ j ih =>
    by_cases he : i = j + 1
    · subst he; exact le_rfl
    · exact le_trans (ih (by omega) (by omega)) (h j (by omega))

theorem aE_le_xin (xin xout : ℕ → K) (n m i : ℕ) (hi : i < n) : aE xin xout n m i ≤ xin i := by
  by_cases h0 : i = 0
  · subst h0; rw [aE_zero]; exact min_le_left _ _
  · rw [aE_mid _ _ _ _ _ h0 (by omega)]

theorem xin_le_aE (xin xout : ℕ → K) (n m i : ℕ) (h0 : i ≠ 0) (hi : i ≤ n) :
    xin i ≤ aE xin xout n m i := by
  by_cases hn : i = n
  · subst hn; rw [aE_last _ _ _ _ h0]; exact le_max_left _ _
  · rw [aE_mid _ _ _ _ _ h0 hn]

theorem aE_mono (xin xout : ℕ → K) (n m : ℕ) (hin : Mono xin n) :
    ∀ i < n, aE xin xout n m i ≤ aE xin xout n m (i+1) := by
  intro i hi
  exact le_trans (aE_le_xin xin xout n m i hi)
    (le_trans (hin i hi) (xin_le_aE xin xout n m (i+1) (by omega) (by omega)))

/-- **Row sums**: the weights of output cell `j` sum to its width — it is covered exactly once
by the (extended) input cells. -/
theorem weights_row_sum (xin xout : ℕ → K) (n m j : ℕ) (hn : 1 ≤ n) (hin : Mono xin n)
    (hout : Mono xout m) (hj : j < m) :
    ∑ i ∈ range n, W xin xout n m j i = xout (j+1) - xout j := by
  have e : ∑ i ∈ range n, W xin xout n m j i
      = ∑ i ∈ range n, max 0 (min (aE xin xout n m (i+1)) (xout (j+1))
          - max (aE xin xout n m i) (xout j)) :=
    sum_congr rfl fun i hi => W_eq xin xout n m j i (mem_range.1 hi)
  rw [e]
  apply clamp_telescope (aE xin xout n m) n (xout j) (xout (j+1)) (hout j hj)
    (aE_mono xin xout n m hin)
  · rw [aE_zero]
    exact le_trans (min_le_right _ _) (hout.le 0 j (by omega) (by omega))
  · rw [aE_last _ _ _ _ (by omega)]
    exact le_trans (hout.le (j+1) m (by omega) le_rfl) (le_max_right _ _)

theorem weights_nonneg (xin xout : ℕ → K) (n m j i : ℕ) : 0 ≤ W xin xout n m j i :=
  le_max_left _ _

/-- **Column sums** (grids covering the same range): every input cell is distributed completely
over the output cells. -/
theorem weights_col_sum (xin xout : ℕ → K) (n m i : ℕ) (hi : i < n) (hin : Mono xin n)
    (hout : Mono xout m) (h0 : xin 0 = xout 0) (hN : xin n = xout m) :
    ∑ j ∈ range m, W xin xout n m j i = xin (i+1) - xin i := by
  have hlo : loE xin xout i = xin i := by
    unfold loE; by_cases h : i = 0
    · subst h; simp [h0]
    · simp [h]
  have hhi : hiE xin xout n m i = xin (i+1) := by
    unfold hiE; by_cases h : i + 1 = n
    · simp [h, hN]
    · simp [h]
  have e : ∑ j ∈ range m, W xin xout n m j i
      = ∑ j ∈ range m, max 0 (min (xout (j+1)) (xin (i+1)) - max (xout j) (xin i)) := by
    apply sum_congr rfl; intro j _
    unfold W; rw [hlo, hhi, min_comm (xin (i+1)), max_comm (xin i)]
  rw [e]
  apply clamp_telescope xout m (xin i) (xin (i+1)) (hin i hi) hout
  · rw [← h0]; exact hin.le 0 i (by omega) (by omega)
  · rw [← hN]; exact hin.le (i+1) n (by omega) le_rfl


/-! ## the averaging map (one direction; the 3-D map is the tensor product) -/

theorem volAvg1_eq (g o : G1 K) (v : ℕ → K) (j : ℕ) :
    volAvg1 g o v j = (∑ i ∈ range g.n, W g.x o.x g.n o.n j i * v i) / (o.x (j+1) - o.x j) := by
  unfold volAvg1; rw [sumTo_eq]

/-- **linear** in the values -/
theorem volAvg1_linear (g o : G1 K) (v w : ℕ → K) (a b : K) (j : ℕ) :
    volAvg1 g o (fun i => a * v i + b * w i) j = a * volAvg1 g o v j + b * volAvg1 g o w j := by
  simp only [volAvg1_eq]
  rw [← mul_div_assoc, ← mul_div_assoc, ← add_div, mul_sum, mul_sum, ← sum_add_distrib]
  congr 1
  apply sum_congr rfl; intro i _; ring

/-- constants are reproduced (weights of a row sum to the cell width) -/
theorem volAvg1_const (g o : G1 K) (c : K) (j : ℕ) (hn : 1 ≤ g.n) (hin : Mono g.x g.n)
    (hout : Mono o.x o.n) (hj : j < o.n) (hpos : o.x j < o.x (j+1)) :
    volAvg1 g o (fun _ => c) j = c := by
  rw [volAvg1_eq, ← sum_mul, weights_row_sum g.x o.x g.n o.n j hn hin hout hj]
  have : o.x (j+1) - o.x j ≠ 0 := by linarith [sub_pos.2 hpos] |> ne_of_gt
  field_simp

/-- **the result never leaves the range of the input values** -/
theorem volAvg1_convex (g o : G1 K) (v : ℕ → K) (lo hi : K) (j : ℕ) (hn : 1 ≤ g.n)
    (hin : Mono g.x g.n) (hout : Mono o.x o.n) (hj : j < o.n) (hpos : o.x j < o.x (j+1))
    (hv : ∀ i < g.n, lo ≤ v i ∧ v i ≤ hi) :
    lo ≤ volAvg1 g o v j ∧ volAvg1 g o v j ≤ hi := by
  have hw := weights_row_sum g.x o.x g.n o.n j hn hin hout hj
  have hd : 0 < o.x (j+1) - o.x j := sub_pos.2 hpos
  rw [volAvg1_eq]
  constructor
  · rw [le_div_iff₀ hd, ← hw, mul_sum]
    apply sum_le_sum; intro i hi'
    rw [mul_comm]
    exact mul_le_mul_of_nonneg_left (hv i (mem_range.1 hi')).1 (weights_nonneg _ _ _ _ _ _)
  · rw [div_le_iff₀ hd, ← hw, mul_sum]
    apply sum_le_sum; intro i hi'
    rw [mul_comm hi]
    exact mul_le_mul_of_nonneg_left (hv i (mem_range.1 hi')).2 (weights_nonneg _ _ _ _ _ _)

/-- **conservation**: for grids covering the same range the integral of the property is the
same on both grids. -/
theorem volAvg1_conserves (g o : G1 K) (v : ℕ → K) (hin : Mono g.x g.n) (hout : Mono o.x o.n)
    (h0 : g.x 0 = o.x 0) (hN : g.x g.n = o.x o.n) (hpos : ∀ j < o.n, o.x j < o.x (j+1)) :
    ∑ j ∈ range o.n, (o.x (j+1) - o.x j) * volAvg1 g o v j
      = ∑ i ∈ range g.n, (g.x (i+1) - g.x i) * v i := by
  have e : ∀ j ∈ range o.n, (o.x (j+1) - o.x j) * volAvg1 g o v j
      = ∑ i ∈ range g.n, W g.x o.x g.n o.n j i * v i := by
    intro j hj
    have : o.x (j+1) - o.x j ≠ 0 := ne_of_gt (sub_pos.2 (hpos j (mem_range.1 hj)))
    rw [volAvg1_eq]; field_simp
  rw [sum_congr rfl e, sum_comm]
  apply sum_congr rfl; intro i hi
  rw [← sum_mul, weights_col_sum g.x o.x g.n o.n i (mem_range.1 hi) hin hout h0 hN]

/-- **cells outside the input grid take the nearest value**: an output cell entirely below the
first input node gets the value of the first input cell -/
theorem volAvg1_fills_nearest (g o : G1 K) (v : ℕ → K) (j : ℕ) (hn : 1 ≤ g.n) (hin : Mono g.x g.n)
    (hout : Mono o.x o.n) (hj : j < o.n) (hpos : o.x j < o.x (j+1)) (hleft : o.x (j+1) ≤ g.x 0) :
    volAvg1 g o v j = v 0 := by
  have hw := weights_row_sum g.x o.x g.n o.n j hn hin hout hj
  have hz : ∀ i ∈ range g.n, i ≠ 0 → W g.x o.x g.n o.n j i = 0 := by
    intro i hi h0
    unfold W
    have : loE g.x o.x i = g.x i := by simp [loE, h0]
    rw [this]
    apply max_eq_left
    have h1 : g.x 0 ≤ g.x i := hin.le 0 i (by omega) (le_of_lt (mem_range.1 hi))
    have h2 : min (hiE g.x o.x g.n o.n i) (o.x (j+1)) ≤ o.x (j+1) := min_le_right _ _
    have h3 : g.x i ≤ max (g.x i) (o.x j) := le_max_left _ _
    linarith
  have hsum : ∑ i ∈ range g.n, W g.x o.x g.n o.n j i = W g.x o.x g.n o.n j 0 :=
    sum_eq_single_of_mem 0 (mem_range.2 (by omega)) hz
  have hsum2 : ∑ i ∈ range g.n, W g.x o.x g.n o.n j i * v i = W g.x o.x g.n o.n j 0 * v 0 := by
    apply sum_eq_single_of_mem 0 (mem_range.2 (by omega))
    intro i hi h0; rw [hz i hi h0, zero_mul]
  rw [volAvg1_eq, hsum2, ← hsum, hw]
  have : o.x (j+1) - o.x j ≠ 0 := ne_of_gt (sub_pos.2 hpos)
  field_simp

/-- **identity between equal grids** -/
theorem volAvg1_identity (g : G1 K) (v : ℕ → K) (j : ℕ) (hj : j < g.n)
    (hstrict : ∀ i < g.n, g.x i < g.x (i+1)) : volAvg1 g g v j = v j := by
  have hin : Mono g.x g.n := fun i hi => le_of_lt (hstrict i hi)
  have hw := weights_row_sum g.x g.x g.n g.n j (by omega) hin hin hj
  have hz : ∀ i ∈ range g.n, i ≠ j → W g.x g.x g.n g.n j i = 0 := by
    intro i hi hne
    have hi' := mem_range.1 hi
    unfold W
    apply max_eq_left
    have hlo : g.x i ≤ loE g.x g.x i ∨ i = 0 := by
      by_cases h0 : i = 0
      · right; exact h0
      · left; simp [loE, h0]
    have hlo' : loE g.x g.x i = g.x i := by
      by_cases h0 : i = 0
      · subst h0; simp [loE]
      · simp [loE, h0]
    have hhi' : hiE g.x g.x g.n g.n i = g.x (i+1) := by
      by_cases hn : i + 1 = g.n
      · simp [hiE, hn]
      · simp [hiE, hn]
    rw [hlo', hhi']
    rcases Nat.lt_or_gt_of_ne hne with h | h
    · -- i < j : cell i ends before cell j starts
      have h1 : g.x (i+1) ≤ g.x j := hin.le (i+1) j (by omega) (by omega)
      have h2 : min (g.x (i+1)) (g.x (j+1)) ≤ g.x (i+1) := min_le_left _ _
      have h3 : g.x j ≤ max (g.x i) (g.x j) := le_max_right _ _
      linarith
    · have h1 : g.x (j+1) ≤ g.x i := hin.le (j+1) i (by omega) (by omega)
      have h2 : min (g.x (i+1)) (g.x (j+1)) ≤ g.x (j+1) := min_le_right _ _
      have h3 : g.x i ≤ max (g.x i) (g.x j) := le_max_left _ _
      linarith
  have hsum : ∑ i ∈ range g.n, W g.x g.x g.n g.n j i = W g.x g.x g.n g.n j j :=
    sum_eq_single_of_mem j (mem_range.2 hj) hz
  have hsum2 : ∑ i ∈ range g.n, W g.x g.x g.n g.n j i * v i = W g.x g.x g.n g.n j j * v j := by
    apply sum_eq_single_of_mem j (mem_range.2 hj)
    intro i hi h0; rw [hz i hi h0, zero_mul]
  rw [volAvg1_eq, hsum2, ← hsum, hw]
  have : g.x (j+1) - g.x j ≠ 0 := ne_of_gt (sub_pos.2 (hstrict j hj))
  field_simp


/-- **the 3-D map is the tensor product of the 1-D maps** (so the one-dimensional theorems
apply direction by direction) -/
theorem volAvg_eq_tensor (gx gy gz ox oy oz : G1 K) (v : ℕ → ℕ → ℕ → K) (jx jy jz : ℕ) :
    volAvg gx gy gz ox oy oz v jx jy jz
      = volAvg1 gx ox (fun ix => volAvg1 gy oy (fun iy =>
          volAvg1 gz oz (fun iz => v ix iy iz) jz) jy) jx := by
  simp only [volAvg, volAvg1, sumTo_eq, div_eq_mul_inv]
  simp only [mul_sum, sum_mul]
  apply sum_congr rfl; intro ix _
  apply sum_congr rfl; intro iy _
  apply sum_congr rfl; intro iz _
  rw [mul_inv, mul_inv]
  ring

end VolAvg
