import Emg3dVerif.Props.C10
import Emg3dVerif.Props.C02
/-!
# C09 — receiver sampling and point sources are exact transposes; reciprocity

`Src.receiverLinear` models `fields.get_receiver(method='linear')` with SciPy's interval rule,
`Src.pointVector` models `fields._point_vector` with emg3d's own interval rule (tied to the code
in `harness/c09.py` / `c10.py`).  The two rules pick different intervals when the position
coincides with a coordinate; the theorems show that the linear functionals coincide anyway.
-/
open Finset
namespace Src
variable {K : Type} [Field K] [LinearOrder K] [IsStrictOrderedRing K]

def StrictMonoOn (xx : ℕ → K) (n : ℕ) : Prop := ∀ i j, i < j → j < n → xx i < xx j

/-- value of the linear interpolant of `f` on interval `i` at `c` -/
def lin (xx : ℕ → K) (f : ℕ → K) (i : ℕ) (c : K) : K :=
  (1 - (c - xx i)/(xx (i+1) - xx i)) * f i + (c - xx i)/(xx (i+1) - xx i) * f (i+1)

/-- **the interval chosen at a coordinate does not matter**: two bracketing intervals give the
same interpolated value (linear interpolation is continuous) -/
theorem interp_interval_irrelevant (xx f : ℕ → K) (n i i' : ℕ) (c : K) (hs : StrictMonoOn xx n)
    (hi : i + 1 < n) (hi' : i' + 1 < n)
    (hb : xx i ≤ c ∧ c ≤ xx (i+1)) (hb' : xx i' ≤ c ∧ c ≤ xx (i'+1)) :
    lin xx f i c = lin xx f i' c := by
  rcases Nat.lt_trichotomy i i' with h | h | h
  · -- i < i' : c ≤ xx (i+1) ≤ xx i' ≤ c
    have h1 : xx (i+1) ≤ xx i' := by
      rcases Nat.lt_or_ge (i+1) i' with h2 | h2
      · exact le_of_lt (hs _ _ h2 (by omega))
      · have : i + 1 = i' := by omega
        rw [this]
    have hc : c = xx (i+1) := le_antisymm hb.2 (le_trans h1 hb'.1)
    have hii : i' = i + 1 := by
      by_contra hne
      have : i + 1 < i' := by omega
      have := hs _ _ this (by omega)
      linarith [hb'.1]
    subst hii
    have d1 : xx (i+1) - xx i ≠ 0 := ne_of_gt (sub_pos.2 (hs _ _ (by omega) (by omega)))
    have d2 : xx (i+1+1) - xx (i+1) ≠ 0 := ne_of_gt (sub_pos.2 (hs _ _ (by omega) (by omega)))
    unfold lin; rw [hc]; field_simp; ring
  · rw [h]
  · have h1 : xx (i'+1) ≤ xx i := by
      rcases Nat.lt_or_ge (i'+1) i with h2 | h2
      · exact le_of_lt (hs _ _ h2 (by omega))
      · have : i' + 1 = i := by omega
        rw [this]
    have hc : c = xx (i'+1) := le_antisymm hb'.2 (le_trans h1 hb.1)
    have hii : i = i' + 1 := by
      by_contra hne
      have : i' + 1 < i := by omega
      have := hs _ _ this (by omega)
      linarith [hb.1]
    subst hii
    have d1 : xx (i'+1) - xx i' ≠ 0 := ne_of_gt (sub_pos.2 (hs _ _ (by omega) (by omega)))
    have d2 : xx (i'+1+1) - xx (i'+1) ≠ 0 := ne_of_gt (sub_pos.2 (hs _ _ (by omega) (by omega)))
    unfold lin; rw [hc]; field_simp; ring

/-- emg3d's interval rule brackets the coordinate -/
theorem whereIdx_bracket (xx : ℕ → K) (n : ℕ) (c : K) (hs : StrictMonoOn xx n) (hn : 2 ≤ n)
    (h0 : xx 0 ≤ c) (h1 : c < xx (n-1)) :
    whereIdx xx n c + 1 < n ∧ xx (whereIdx xx n c) ≤ c ∧ c < xx (whereIdx xx n c + 1) := by
  unfold whereIdx
  cases hf : (List.range n).find? fun i => decide (c < xx i) with
  | none =>
    rw [List.find?_range_eq_none] at hf
    have := hf (n-1) (by omega)
    simp [h1] at this
  | some k =>
    rw [List.find?_range_eq_some] at hf
    obtain ⟨hk, hkn, hprev⟩ := hf
    have hkn' : k < n := List.mem_range.1 hkn
    have hk' : c < xx k := by simpa using hk
    have hk0 : k ≠ 0 := by
      intro h; subst h; linarith
    simp only [Option.getD_some]
    refine ⟨by omega, ?_, ?_⟩
    · have := hprev (k-1) (by omega)
      simp only [Bool.not_eq_true', decide_eq_false_iff_not, not_lt] at this
      exact this
    · have : k - 1 + 1 = k := by omega
      rw [this]; exact hk'

/-- SciPy's interval rule brackets the coordinate, too -/
theorem ssIdx_bracket (xx : ℕ → K) (n : ℕ) (c : K) (hs : StrictMonoOn xx n) (hn : 2 ≤ n)
    (h0 : xx 0 ≤ c) (h1 : c < xx (n-1)) :
    ssIdx xx n c + 1 < n ∧ xx (ssIdx xx n c) ≤ c ∧ c ≤ xx (ssIdx xx n c + 1) := by
  unfold ssIdx
  cases hf : (List.range n).find? fun i => decide (c ≤ xx i) with
  | none =>
    rw [List.find?_range_eq_none] at hf
    have := hf (n-1) (by omega)
    simp [le_of_lt h1] at this
  | some k =>
    rw [List.find?_range_eq_some] at hf
    obtain ⟨hk, hkn, hprev⟩ := hf
    have hkn' : k < n := List.mem_range.1 hkn
    have hk' : c ≤ xx k := by simpa using hk
    simp only [Option.getD_some]
    by_cases hk0 : k = 0
    · subst hk0
      have hc : c = xx 0 := le_antisymm hk' h0
      have : min (0 - 1) (n - 2) = 0 := by simp
      rw [this]
      refine ⟨by omega, by rw [hc], ?_⟩
      rw [hc]; exact le_of_lt (hs 0 1 (by omega) (by omega))
    · have hm : min (k - 1) (n - 2) = k - 1 := by omega
      rw [hm]
      have hp := hprev (k-1) (by omega)
      simp only [Bool.not_eq_true', decide_eq_false_iff_not, not_le] at hp
      have : k - 1 + 1 = k := by omega
      refine ⟨by omega, le_of_lt hp, ?_⟩
      rw [this]; exact hk'

theorem w1_functional (xx f : ℕ → K) (n : ℕ) (c : K) (hlt : whereIdx xx n c + 1 < n) :
    ∑ i ∈ range n, w1 xx n c i * f i = lin xx f (whereIdx xx n c) c := by
  unfold w1 lin
  have hne : whereIdx xx n c + 1 ≠ n := by omega
  simp only [hne, if_false]
  have : ∀ i ∈ range n,
      (if i = whereIdx xx n c + 1 then (c - xx (whereIdx xx n c)) / (xx (whereIdx xx n c + 1) - xx (whereIdx xx n c))
        else if i = whereIdx xx n c then 1 - (c - xx (whereIdx xx n c)) / (xx (whereIdx xx n c + 1) - xx (whereIdx xx n c))
        else 0) * f i
      = (if i = whereIdx xx n c + 1 then (c - xx (whereIdx xx n c)) / (xx (whereIdx xx n c + 1) - xx (whereIdx xx n c)) * f (whereIdx xx n c + 1)
        else if i = whereIdx xx n c then (1 - (c - xx (whereIdx xx n c)) / (xx (whereIdx xx n c + 1) - xx (whereIdx xx n c))) * f (whereIdx xx n c)
        else 0) := by
    intro i _
    split
    · next h => rw [h]
    · split
      · next h => rw [h]
      · simp
  rw [sum_congr rfl this, sum_two n _ _ _ _ hlt (by omega) (by omega)]
  ring

theorem w1s_functional (xx f : ℕ → K) (n : ℕ) (c : K) (hlt : ssIdx xx n c + 1 < n) :
    ∑ i ∈ range n, w1s xx n c i * f i = lin xx f (ssIdx xx n c) c := by
  unfold w1s lin
  have : ∀ i ∈ range n,
      (if i = ssIdx xx n c + 1 then (c - xx (ssIdx xx n c)) / (xx (ssIdx xx n c + 1) - xx (ssIdx xx n c))
        else if i = ssIdx xx n c then 1 - (c - xx (ssIdx xx n c)) / (xx (ssIdx xx n c + 1) - xx (ssIdx xx n c))
        else 0) * f i
      = (if i = ssIdx xx n c + 1 then (c - xx (ssIdx xx n c)) / (xx (ssIdx xx n c + 1) - xx (ssIdx xx n c)) * f (ssIdx xx n c + 1)
        else if i = ssIdx xx n c then (1 - (c - xx (ssIdx xx n c)) / (xx (ssIdx xx n c + 1) - xx (ssIdx xx n c))) * f (ssIdx xx n c)
        else 0) := by
    intro i _
    split
    · next h => rw [h]
    · split
      · next h => rw [h]
      · simp
  rw [sum_congr rfl this, sum_two n _ _ _ _ hlt (by omega) (by omega)]
  ring

/-- **one direction: SciPy's interpolation weights and emg3d's point-source weights define the
same linear functional**, for every coordinate `xx 0 ≤ c < xx (n−1)` (also on the nodes) -/
theorem w1s_eq_w1_functional (xx f : ℕ → K) (n : ℕ) (c : K) (hs : StrictMonoOn xx n) (hn : 2 ≤ n)
    (h0 : xx 0 ≤ c) (h1 : c < xx (n-1)) :
    ∑ i ∈ range n, w1s xx n c i * f i = ∑ i ∈ range n, w1 xx n c i * f i := by
  obtain ⟨a1, a2, a3⟩ := whereIdx_bracket xx n c hs hn h0 h1
  obtain ⟨b1, b2, b3⟩ := ssIdx_bracket xx n c hs hn h0 h1
  rw [w1_functional xx f n c a1, w1s_functional xx f n c b1]
  exact interp_interval_irrelevant xx f n _ _ c hs b1 a1 ⟨b2, b3⟩ ⟨a2, le_of_lt a3⟩


/-! ## three dimensions -/

theorem foldl_add_eq_sum (n : ℕ) (a : K) (f : ℕ → K) :
    (List.range n).foldl (fun acc k => acc + f k) a = a + ∑ k ∈ range n, f k := by
  induction n generalizing a with
  | zero => simp
  | succ n ih =>
    rw [List.range_succ, List.foldl_append, ih]
    simp [sum_range_succ, add_assoc]

theorem sum3_eq (n1 n2 n3 : ℕ) (f : ℕ → ℕ → ℕ → K) : sum3 n1 n2 n3 f = Emg.S3 n1 n2 n3 f := by
  unfold sum3 Emg.S3
  have h3 : ∀ (a : K) (i j : ℕ), (List.range n3).foldl (fun a k => a + f i j k) a
      = a + ∑ k ∈ range n3, f i j k := fun a i j => foldl_add_eq_sum n3 a (f i j)
  simp only [h3]
  have h2 : ∀ (a : K) (i : ℕ), (List.range n2).foldl (fun a j => a + ∑ k ∈ range n3, f i j k) a
      = a + ∑ j ∈ range n2, ∑ k ∈ range n3, f i j k :=
    fun a i => foldl_add_eq_sum n2 a (fun j => ∑ k ∈ range n3, f i j k)
  simp only [h2]
  rw [foldl_add_eq_sum n1 0 (fun i => ∑ j ∈ range n2, ∑ k ∈ range n3, f i j k), zero_add]

/-- replace the three weight functions by functionally equal ones -/
theorem tri_congr (n1 n2 n3 : ℕ) (a a' b b' c c' : ℕ → K) (f : ℕ → ℕ → ℕ → K)
    (ha : ∀ g : ℕ → K, ∑ i ∈ range n1, a i * g i = ∑ i ∈ range n1, a' i * g i)
    (hb : ∀ g : ℕ → K, ∑ j ∈ range n2, b j * g j = ∑ j ∈ range n2, b' j * g j)
    (hc : ∀ g : ℕ → K, ∑ k ∈ range n3, c k * g k = ∑ k ∈ range n3, c' k * g k) :
    Emg.S3 n1 n2 n3 (fun i j k => a i * b j * c k * f i j k)
      = Emg.S3 n1 n2 n3 (fun i j k => a' i * b' j * c' k * f i j k) := by
  unfold Emg.S3
  -- innermost
  have e1 : ∀ i j, ∑ k ∈ range n3, a i * b j * c k * f i j k
      = a i * (b j * ∑ k ∈ range n3, c' k * f i j k) := by
    intro i j
    rw [← hc (fun k => f i j k), mul_sum, mul_sum]
    apply sum_congr rfl; intro k _; ring
  simp only [e1]
  have e2 : ∀ i, ∑ j ∈ range n2, a i * (b j * ∑ k ∈ range n3, c' k * f i j k)
      = a i * ∑ j ∈ range n2, b' j * ∑ k ∈ range n3, c' k * f i j k := by
    intro i
    rw [← mul_sum, hb (fun j => ∑ k ∈ range n3, c' k * f i j k)]
  simp only [e2]
  rw [ha (fun i => ∑ j ∈ range n2, b' j * ∑ k ∈ range n3, c' k * f i j k)]
  apply sum_congr rfl; intro i _
  rw [mul_sum]
  apply sum_congr rfl; intro j _
  rw [mul_sum, mul_sum]
  apply sum_congr rfl; intro k _; ring

/-- grid direction with strictly increasing nodes -/
def GridOk (g : Grid1 K) : Prop := 2 ≤ g.n ∧ StrictMonoOn g.nodes (g.n + 1)

theorem centers_strict (g : Grid1 K) (h : GridOk g) : StrictMonoOn g.centers g.n := by
  intro i j hij hj
  unfold Grid1.centers
  have h1 : g.nodes i < g.nodes j := h.2 i j hij (by omega)
  have h2 : g.nodes (i+1) < g.nodes (j+1) := h.2 (i+1) (j+1) (by omega) (by omega)
  linarith

/-- position inside the second to second-last cell of this direction -/
def InSecond (g : Grid1 K) (c : K) : Prop := g.nodes 1 ≤ c ∧ c ≤ g.nodes (g.n - 1)

theorem dir_functional (comp dir : ℕ) (g : Grid1 K) (h : GridOk g) (c : K) (hc : InSecond g c)
    (f : ℕ → K) :
    ∑ i ∈ range (coordsOf comp dir g).2, w1s (coordsOf comp dir g).1 (coordsOf comp dir g).2 c i * f i
      = ∑ i ∈ range (coordsOf comp dir g).2, w1 (coordsOf comp dir g).1 (coordsOf comp dir g).2 c i * f i := by
  unfold coordsOf
  have hn := h.1
  by_cases hcd : comp = dir
  · simp only [hcd, if_true]
    apply w1s_eq_w1_functional g.centers f g.n c (centers_strict g h) h.1
    · unfold Grid1.centers
      have := h.2 0 1 (by omega) (by omega)
      linarith [hc.1]
    · have e : g.n - 1 + 1 = g.n := by omega
      have hcen : g.centers (g.n - 1) = (g.nodes (g.n - 1) + g.nodes g.n) / 2 := by
        unfold Grid1.centers; rw [e]
      rw [hcen]
      have := h.2 (g.n - 1) g.n (by omega) (by omega)
      linarith [hc.2]
  · simp only [hcd, if_false]
    apply w1s_eq_w1_functional g.nodes f (g.n + 1) c h.2 (by have := h.1; omega)
    · exact le_trans (le_of_lt (h.2 0 1 (by omega) (by have := h.1; omega))) hc.1
    · have : g.n + 1 - 1 = g.n := by omega
      rw [this]
      exact lt_of_le_of_lt hc.2 (h.2 (g.n - 1) g.n (by have := h.1; omega) (by omega))

/-- **Sampling a field with linear interpolation is the inner product of the field with the unit
point-source vector of the same position and orientation** — for every position inside the
second to second-last cell (also on nodes, edges, faces), every orientation and every field. -/
theorem receiver_eq_pointvector (gx gy gz : Grid1 K) (hx : GridOk gx) (hy : GridOk gy)
    (hz : GridOk gz) (e : Emg.EF K) (p d : K × K × K)
    (hpx : InSecond gx p.1) (hpy : InSecond gy p.2.1) (hpz : InSecond gz p.2.2) :
    receiverLinear gx gy gz e p d
      = Emg.S3 gx.n (gy.n+1) (gz.n+1) (fun i j k => (pointVector gx gy gz p d).x i j k * e.x i j k)
      + Emg.S3 (gx.n+1) gy.n (gz.n+1) (fun i j k => (pointVector gx gy gz p d).y i j k * e.y i j k)
      + Emg.S3 (gx.n+1) (gy.n+1) gz.n (fun i j k => (pointVector gx gy gz p d).z i j k * e.z i j k) := by
  unfold receiverLinear pointVector
  simp only [sum3_eq]
  have key : ∀ (c : ℕ) (f : Emg.F3 K) (dd : K),
      dd * Emg.S3 (coordsOf c 0 gx).2 (coordsOf c 1 gy).2 (coordsOf c 2 gz).2 (fun i j k =>
        w1s (coordsOf c 0 gx).1 (coordsOf c 0 gx).2 p.1 i * w1s (coordsOf c 1 gy).1 (coordsOf c 1 gy).2 p.2.1 j
          * w1s (coordsOf c 2 gz).1 (coordsOf c 2 gz).2 p.2.2 k * f i j k)
      = Emg.S3 (coordsOf c 0 gx).2 (coordsOf c 1 gy).2 (coordsOf c 2 gz).2 (fun i j k =>
        w1 (coordsOf c 0 gx).1 (coordsOf c 0 gx).2 p.1 i * w1 (coordsOf c 1 gy).1 (coordsOf c 1 gy).2 p.2.1 j
          * w1 (coordsOf c 2 gz).1 (coordsOf c 2 gz).2 p.2.2 k * dd * f i j k) := by
    intro c f dd
    rw [tri_congr _ _ _ _ _ _ _ _ _ f (dir_functional c 0 gx hx p.1 hpx)
      (dir_functional c 1 gy hy p.2.1 hpy) (dir_functional c 2 gz hz p.2.2 hpz)]
    unfold Emg.S3
    rw [mul_sum]; apply sum_congr rfl; intro i _
    rw [mul_sum]; apply sum_congr rfl; intro j _
    rw [mul_sum]; apply sum_congr rfl; intro k _; ring
  rw [key 0 e.x d.1, key 1 e.y d.2.1, key 2 e.z d.2.2]
  simp [coordsOf]

theorem S3_lin (n1 n2 n3 : ℕ) (w u v : ℕ → ℕ → ℕ → K) (a b : K) :
    Emg.S3 n1 n2 n3 (fun i j k => w i j k * (a * u i j k + b * v i j k))
      = a * Emg.S3 n1 n2 n3 (fun i j k => w i j k * u i j k)
        + b * Emg.S3 n1 n2 n3 (fun i j k => w i j k * v i j k) := by
  unfold Emg.S3
  simp only [mul_sum, ← sum_add_distrib]
  apply sum_congr rfl; intro i _
  apply sum_congr rfl; intro j _
  apply sum_congr rfl; intro k _; ring

/-- the receiver is a linear functional of the field -/
theorem receiver_linear (gx gy gz : Grid1 K) (e1 e2 : Emg.EF K) (a b : K) (p d : K × K × K) :
    receiverLinear gx gy gz
        ⟨fun i j k => a * e1.x i j k + b * e2.x i j k, fun i j k => a * e1.y i j k + b * e2.y i j k,
         fun i j k => a * e1.z i j k + b * e2.z i j k⟩ p d
      = a * receiverLinear gx gy gz e1 p d + b * receiverLinear gx gy gz e2 p d := by
  unfold receiverLinear
  simp only [sum3_eq, S3_lin]
  ring

/-- NaN policy: a receiver gets a number exactly when it lies in the second to second-last cell
in every direction -/
theorem nan_policy_second_cell (gx gy gz : Grid1 K) (p : K × K × K) :
    receiverIsNaN gx gy gz p = false ↔
      (InSecond gx p.1 ∧ InSecond gy p.2.1 ∧ InSecond gz p.2.2) := by
  unfold receiverIsNaN InSecond
  simp only [Bool.or_eq_false_iff, decide_eq_false_iff_not, not_lt]
  tauto


/-! ## magnetic receivers and reciprocity -/

/-- **discrete Faraday law**: with `ζ = V/(s μ₀)` (μ_r = 1) the edge-curl factor is
`(∇×E)/(s μ₀)` on every interior face -/
theorem edgeCurlFactor_is_faraday (g : Emg.Grid K) (smu : K) (e : Emg.EF K) (i j k : ℕ)
    (hi : i < g.nx) (hj : j < g.ny) (hk : k < g.nz) (hi0 : i ≠ 0) (hsmu : smu ≠ 0)
    (hx : g.hx (i-1) + g.hx i ≠ 0) (hy : g.hy j ≠ 0) (hz : g.hz k ≠ 0) :
    (edgeCurlFactor g (fun a b c => g.hx a * g.hy b * g.hz c / smu) e).x i j k
      = Emg.curlX g e i j k / smu := by
  simp only [edgeCurlFactor, hi, hj, hk, hi0, ne_eq, not_false_eq_true, and_self, if_true]
  field_simp

/-- **magnetic receiver = inner product with the magnetic point vector**: for any face weights
`w` (the interpolation weights of the receiver) and any PEC field,
`Σ_faces w·(∇×e) = Σ_edges (∇×ᵀ w)·e`; dividing by `s μ₀` gives the statement for `H`. -/
theorem magnetic_receiver_adjoint (g : Emg.Grid K) (wx wy wz : Emg.F3 K) (e : Emg.EF K)
    (he : Emg.PEC g e) :
    Emg.faceDot g wx wy wz (Emg.curlX g e) (Emg.curlY g e) (Emg.curlZ g e)
      = Emg.edgeDot g (Emg.curlT g wx wy wz) e :=
  (Emg.curlT_adjoint g wx wy wz e he).symm

/-- **reciprocity**: if `u` solves the system for source `ps` and `v` for source `pr` (both with
vanishing tangential boundary values), then `⟨pr, u⟩ = ⟨ps, v⟩` — exchanging a point source and
a point receiver of the same kind leaves the response unchanged. -/
theorem reciprocity (g : Emg.Grid K) (m : Emg.VM K) (u v ps pr : Emg.EF K)
    (hu : Emg.PEC g u) (hv : Emg.PEC g v)
    (hsu : Emg.amat g m u = ps) (hsv : Emg.amat g m v = pr) :
    Emg.edgeDot g pr u = Emg.edgeDot g ps v := by
  rw [← hsu, ← hsv, Emg.amat_symmetric g m v u hv hu, Emg.edgeDot_comm]

end Src
