import Emg3dVerif.Model.Solve
/-!
# C01 — reported solver success certifies the returned field (control half)

`SolveM.solve` models the bookkeeping of `emg3d.solver.solve / multigrid / krylov / _terminate`
(tied to the code by the trace correspondence of `harness/c01.py`).  The numerics is an oracle:
the theorems hold for *every* sequence of residual norms and every sequence of Krylov events,
i.e. whatever smoothers, transfer operators and SciPy compute.
-/
namespace SolveM

/-! ## `_terminate` -/

theorem terminate_converged_iff (cfg : Cfg) (l s : FNum) (it : Nat) :
    (terminate cfg l s it).msg = some .converged ↔ l.lt cfg.tolRef = true := by
  unfold terminate
  by_cases h : l.lt cfg.tolRef = true
  · simp [h]
  · simp only [h, Bool.false_eq_true, if_false, iff_false]
    split
    · simp
    · split
      · simp
      · split
        · split <;> simp
        · simp

theorem terminate_finished_of_maxit (cfg : Cfg) (l s : FNum) (it : Nat) (h : it = cfg.maxit) :
    (terminate cfg l s it).finished = true := by
  unfold terminate
  split
  · rfl
  · split
    · rfl
    · split
      · rfl
      · simp [h]

/-- a finished `_terminate` without "CONVERGED" always names a failure when no sslsolver is used -/
theorem terminate_failure_msg (cfg : Cfg) (hssl : cfg.ssl = false) (l s : FNum) (it : Nat)
    (hf : (terminate cfg l s it).finished = true) (hl : l.lt cfg.tolRef = false) :
    (terminate cfg l s it).msg = some .diverged ∨ (terminate cfg l s it).msg = some .stagnated ∨
    (terminate cfg l s it).msg = some .maxit := by
  unfold terminate at hf ⊢
  simp only [hl, Bool.false_eq_true, if_false] at hf ⊢
  split
  · simp
  · split
    · simp
    · split
      · simp [hssl]
      · rename_i h1 h2 h3; simp [h1, h2, h3] at hf

/-! ## the level-0 loop of `multigrid` -/

/-- bookkeeping invariant of the loop -/
structure MgInv (cfg : Cfg) (s : MgSt) : Prop where
  conv : s.msg = some .converged → s.l2last.lt cfg.tolRef = true ∧ s.done = true
  notdone : s.done = false → s.msg = none ∧ s.raised = false
  conv_of_lt : s.done = true → s.l2last.lt cfg.tolRef = true → s.msg = some .converged
  fail : cfg.ssl = false → s.done = true → s.l2last.lt cfg.tolRef = false →
    s.msg = some .diverged ∨ s.msg = some .stagnated ∨ s.msg = some .maxit
  raised_fail : s.raised = true → s.msg = some .diverged ∨ s.msg = some .stagnated
  its : 1 ≤ cfg.maxit → s.it ≤ cfg.maxit ∧ (s.done = false → s.it < cfg.maxit)

theorem mgInit_inv (cfg : Cfg) (r0 : FNum) : MgInv cfg (mgInit cfg r0) := by
  constructor <;> simp [mgInit] <;> omega

theorem terminate_abort_msg (cfg : Cfg) (l s : FNum) (it : Nat)
    (h : (terminate cfg l s it).abort = true) :
    (terminate cfg l s it).msg = some .diverged ∨ (terminate cfg l s it).msg = some .stagnated := by
  unfold terminate at h ⊢
  split
  · rename_i h1; simp [h1] at h
  · split
    · simp
    · split
      · simp
      · rename_i h1 h2 h3
        simp [h1, h2, h3] at h
        split at h <;> simp at h

theorem mgStep_inv (cfg : Cfg) (s : MgSt) (r : FNum) (h : MgInv cfg s) : MgInv cfg (mgStep cfg s r) := by
  unfold mgStep
  by_cases hd : s.done = true
  · simp only [hd, if_true]; exact h
  · have hd' : s.done = false := by simpa using hd
    have hm := (h.notdone hd').1
    simp only [hd', Bool.false_eq_true, if_false]
    generalize hstag : (s.stag.set (stagIdx s.it cfg.maxcycle) s.l2last) = stag
    generalize ht : terminate cfg r (stag.getD (stagIdx (s.it + 1) cfg.maxcycle) FNum.nan) (s.it + 1) = t
    have hconv := terminate_converged_iff cfg r (stag.getD (stagIdx (s.it + 1) cfg.maxcycle) FNum.nan) (s.it+1)
    rw [ht] at hconv
    by_cases hf : t.finished = true
    · constructor
      · intro hmsg
        simp only [hf, if_true, hm] at hmsg
        refine ⟨?_, by simp [hf]⟩
        cases htm : t.msg with
        | none => simp [htm] at hmsg
        | some m => simp [htm] at hmsg; rw [← hconv, htm, hmsg]
      · intro hnd; simp [hf] at hnd
      · intro _ hlt
        simp only [hf, if_true]
        have := hconv.2 hlt
        simp [this]
      · intro hssl _ hlt
        have hlt' : r.lt cfg.tolRef = false := hlt
        have := terminate_failure_msg cfg hssl r (stag.getD (stagIdx (s.it + 1) cfg.maxcycle) FNum.nan)
          (s.it+1) (by rw [ht]; exact hf) hlt'
        rw [ht] at this
        simp only [hf, if_true]
        rcases this with h1 | h1 | h1 <;> simp [h1]
      · intro hr
        simp only [hf, Bool.true_and, Bool.and_eq_true] at hr
        have := terminate_abort_msg cfg r (stag.getD (stagIdx (s.it + 1) cfg.maxcycle) FNum.nan)
          (s.it+1) (by rw [ht]; exact hr.2)
        rw [ht] at this
        simp only [hf, if_true]
        rcases this with h1 | h1 <;> simp [h1]
      · intro hmx
        have := (h.its hmx).2 hd'
        refine ⟨by simp; omega, ?_⟩
        intro hnd; simp [hf] at hnd
    · have hf' : t.finished = false := by simpa using hf
      constructor
      · intro hmsg; simp [hf', hm] at hmsg
      · intro _; simp [hf', hm]
      · intro hdn; simp [hf'] at hdn
      · intro _ hdn; simp [hf'] at hdn
      · intro hr; simp [hf'] at hr
      · intro hmx
        have hlt := (h.its hmx).2 hd'
        have hne : s.it + 1 ≠ cfg.maxit := by
          intro heq
          have := terminate_finished_of_maxit cfg r
            (stag.getD (stagIdx (s.it + 1) cfg.maxcycle) FNum.nan) (s.it+1) heq
          rw [ht] at this; simp [hf'] at this
        simp only
        exact ⟨by omega, fun _ => by omega⟩

theorem mgRun_inv (cfg : Cfg) (r0 : FNum) (rs : List FNum) : MgInv cfg (mgRun cfg r0 rs) := by
  unfold mgRun
  have : ∀ s, MgInv cfg s → MgInv cfg (rs.foldl (mgStep cfg) s) := by
    induction rs with
    | nil => intro s h; exact h
    | cons r rs ih => intro s h; exact ih _ (mgStep_inv cfg s r h)
  exact this _ (mgInit_inv cfg r0)

/-- the loop stops after at most `maxit` cycles (`maxit ≥ 1`) -/
theorem mg_terminates_within_maxit (cfg : Cfg) (r0 : FNum) (rs : List FNum) (h : 1 ≤ cfg.maxit) :
    (mgRun cfg r0 rs).it ≤ cfg.maxit ∧
    (cfg.maxit ≤ rs.length → (mgRun cfg r0 rs).done = true) := by
  refine ⟨((mgRun_inv cfg r0 rs).its h).1, ?_⟩
  intro hlen
  -- the iteration counter equals the number of consumed residuals while not done
  have key : ∀ (rs : List FNum) (s : MgSt), (rs.foldl (mgStep cfg) s).done = false →
      (rs.foldl (mgStep cfg) s).it = s.it + rs.length := by
    intro rs
    induction rs with
    | nil => intro s _; simp
    | cons r rs ih =>
      intro s hnd
      simp only [List.foldl_cons] at hnd ⊢
      have h1 := ih (mgStep cfg s r) hnd
      have hs : s.done = false := by
        cases hc' : s.done with
        | false => rfl
        | true =>
          have : ∀ (l : List FNum) (t : MgSt), t.done = true → (l.foldl (mgStep cfg) t).done = true := by
            intro l
            induction l with
            | nil => intro t ht; exact ht
            | cons a l ihl => intro t ht; simp only [List.foldl_cons]; apply ihl; simp [mgStep, ht]
          have h2 := this rs (mgStep cfg s r) (by simp [mgStep, hc'])
          rw [h2] at hnd; cases hnd
      have h3 : (mgStep cfg s r).it = s.it + 1 := by simp [mgStep, hs]
      rw [h1, h3]; simp; omega
  cases hnd : (mgRun cfg r0 rs).done with
  | true => rfl
  | false =>
  exfalso
  have h1 := key rs (mgInit cfg r0) hnd
  have h2 := ((mgRun_inv cfg r0 rs).its h).2 hnd
  unfold mgRun at h2
  rw [h1] at h2
  simp [mgInit] at h2
  omega

/-- the reported error is the residual of the last field: if the loop was still running before
the last recorded residual, `l2last` is that residual and `it` counts the cycles -/
theorem mgRun_last_residual (cfg : Cfg) (r0 : FNum) (rs : List FNum) (r : FNum)
    (h : (mgRun cfg r0 rs).done = false) :
    (mgRun cfg r0 (rs ++ [r])).l2last = r ∧ (mgRun cfg r0 (rs ++ [r])).it = (mgRun cfg r0 rs).it + 1 := by
  unfold mgRun at h ⊢
  rw [List.foldl_append]
  simp only [List.foldl_cons, List.foldl_nil]
  simp [mgStep, h]

/-! ## `solve` -/

/-- **exit status 0 ⇔ message "CONVERGED"**, on every path -/
theorem exit_zero_iff_converged (inp : Inp) : (solve inp).exit = 0 ↔ (solve inp).msg = .converged := by
  unfold solve
  simp only
  split
  · simp
  · split
    · simp
    · split
      · simp only
        split <;> simp_all
      · split
        · simp only
          split <;> simp_all
        · simp

/-- **plain multigrid: success certifies the field** — if exit status 0 is reported, the
reported absolute error is the residual norm of the last field and it is below `tol·‖s‖`
(IEEE comparison), whatever the cycles computed. -/
theorem mg_success_certifies (inp : Inp) (hz : inp.zeroSource = false)
    (hgood : (!inp.fresh && inp.rProvided.lt inp.cfg.tolRef) = false)
    (hssl : inp.cfg.ssl = false) (hcyc : inp.cycle = true) (hexit : (solve inp).exit = 0) :
    (solve inp).absErr = (mgRun inp.cfg inp.mgR0 inp.mgRs).l2last ∧
    (solve inp).absErr.lt inp.cfg.tolRef = true ∧
    (solve inp).itMg = (mgRun inp.cfg inp.mgR0 inp.mgRs).it := by
  have hmsg := (exit_zero_iff_converged inp).1 hexit
  unfold solve at hmsg ⊢
  simp only [hz, hgood, hssl, hcyc, Bool.false_eq_true, if_false, if_true] at hmsg ⊢
  refine ⟨trivial, ?_, trivial⟩
  have inv := mgRun_inv inp.cfg inp.mgR0 inp.mgRs
  cases hm : (mgRun inp.cfg inp.mgR0 inp.mgRs).msg with
  | none => simp [hm] at hmsg
  | some m =>
    simp only [hm] at hmsg
    subst hmsg
    exact (inv.conv hm).1

/-- **plain multigrid: a run that does not reach the tolerance is reported as a failure** with
an explanatory message -/
theorem mg_failure_is_reported (inp : Inp) (hz : inp.zeroSource = false)
    (hgood : (!inp.fresh && inp.rProvided.lt inp.cfg.tolRef) = false)
    (hssl : inp.cfg.ssl = false) (hcyc : inp.cycle = true)
    (hdone : (mgRun inp.cfg inp.mgR0 inp.mgRs).done = true)
    (hres : (mgRun inp.cfg inp.mgR0 inp.mgRs).l2last.lt inp.cfg.tolRef = false) :
    (solve inp).exit = 1 ∧
    ((solve inp).msg = .diverged ∨ (solve inp).msg = .stagnated ∨ (solve inp).msg = .maxit) := by
  have inv := mgRun_inv inp.cfg inp.mgR0 inp.mgRs
  have := inv.fail hssl hdone hres
  unfold solve
  simp only [hz, hgood, hssl, hcyc, Bool.false_eq_true, if_false, if_true]
  rcases this with h | h | h <;> simp [h]

/-- a supplied field that is already good enough: nothing is run, success is reported with the
error of that very field -/
theorem already_converged_noop (inp : Inp) (hz : inp.zeroSource = false) (hf : inp.fresh = false)
    (hlt : inp.rProvided.lt inp.cfg.tolRef = true) :
    (solve inp).exit = 0 ∧ (solve inp).msg = .converged ∧ (solve inp).itMg = 0 ∧
    (solve inp).itSsl = 0 ∧ (solve inp).absErr = inp.rProvided ∧ (solve inp).ranSolver = false := by
  unfold solve
  simp [hz, hf, hlt]

/-- **a zero source yields the zero field** (also written into a supplied field), error 0 -/
theorem zero_source_zero_field (inp : Inp) (hz : inp.zeroSource = true) :
    (solve inp).exit = 0 ∧ (solve inp).zeroField = true ∧ (solve inp).absErr = .fin 0 ∧
    (solve inp).ranSolver = false := by
  unfold solve
  simp [hz]

/-! ### Krylov -/

def kFinal (inp : Inp) : KSt :=
  inp.events.foldl (kStep inp.cfg)
    ⟨0, 0, if inp.fresh then .fin 1 else inp.rProvided, .empty, false, none⟩

theorem finishMsg_converged_iff (s : KSt) :
    finishMsg s = .converged ↔
      (s.raised = false ∧ ((s.info = some 0) ∨ (s.info = none ∧ s.msg = .converged))) := by
  unfold finishMsg
  cases hr : s.raised with
  | true =>
    simp only [if_true, Bool.true_eq_false, false_and, iff_false]
    cases s.msg <;> simp
  | false =>
    simp only [Bool.false_eq_true, if_false, true_and]
    cases hi : s.info with
    | none => simp
    | some i =>
      simp only
      by_cases h1 : i < 0
      · simp only [h1, if_true]
        have hne : i ≠ 0 := by omega
        cases hm : s.msg <;> simp [hne]
      · simp only [h1, if_false]
        by_cases h2 : i > 0
        · simp [h2]; omega
        · have : i = 0 := by omega
          subst this; simp

/-- an abort (`_ConvergenceError` raised in a preconditioner run) is always a reported failure -/
theorem krylov_abort_is_failure (inp : Inp) (hz : inp.zeroSource = false)
    (hgood : (!inp.fresh && inp.rProvided.lt inp.cfg.tolRef) = false) (hssl : inp.cfg.ssl = true)
    (hr : (kFinal inp).raised = true) : (solve inp).exit = 1 ∧ (solve inp).msg ≠ .converged := by
  unfold solve
  simp only [hz, hgood, hssl, Bool.false_eq_true, if_false, if_true]
  have : finishMsg (kFinal inp) ≠ .converged := by
    intro h
    have := (finishMsg_converged_iff _).1 h
    rw [hr] at this; simp at this
  unfold kFinal at this
  simp [this]

/-- state after the events `pre` -/
def kPre (inp : Inp) (pre : List KEvent) : KSt :=
  pre.foldl (kStep inp.cfg) ⟨0, 0, if inp.fresh then .fin 1 else inp.rProvided, .empty, false, none⟩

/-- **Krylov: the reported error is the residual of the returned field.**  If SciPy returns
(event `ret info r`) after events that neither aborted nor returned, `abs_error = r`. -/
theorem krylov_reports_returned_field (inp : Inp) (hz : inp.zeroSource = false)
    (hgood : (!inp.fresh && inp.rProvided.lt inp.cfg.tolRef) = false) (hssl : inp.cfg.ssl = true)
    (pre : List KEvent) (info : Int) (r : FNum) (hev : inp.events = pre ++ [.ret info r])
    (hpre : (kPre inp pre).raised = false ∧ (kPre inp pre).info = none) :
    (solve inp).absErr = r := by
  unfold solve
  simp only [hz, hgood, hssl, Bool.false_eq_true, if_false, if_true]
  rw [hev, List.foldl_append]
  simp only [List.foldl_cons, List.foldl_nil]
  obtain ⟨h1, h2⟩ := hpre
  unfold kPre at h1 h2
  simp [kStep, h1, h2]

/-- **Krylov: success ⇔ SciPy returned `info = 0` without abort** — for every `info`, negative
ones (breakdown) included: a "CONVERGED" left behind by `_terminate` in a preconditioner run
does not survive a negative info (the defect repaired in f9ccc85; before, the statement needed
the hypothesis `0 ≤ info`, and the excluded point was reachable). -/
theorem krylov_success_iff_info_zero (inp : Inp) (hz : inp.zeroSource = false)
    (hgood : (!inp.fresh && inp.rProvided.lt inp.cfg.tolRef) = false) (hssl : inp.cfg.ssl = true)
    (i : Int) (hinfo : (kFinal inp).info = some i) :
    (solve inp).exit = 0 ↔ ((kFinal inp).raised = false ∧ i = 0) := by
  rw [exit_zero_iff_converged]
  unfold solve
  simp only [hz, hgood, hssl, Bool.false_eq_true, if_false, if_true]
  show finishMsg (kFinal inp) = .converged ↔ _
  rw [finishMsg_converged_iff, hinfo]
  constructor
  · rintro ⟨hr, h⟩
    refine ⟨hr, ?_⟩
    rcases h with h | h
    · injection h
    · cases h.1
  · rintro ⟨hr, rfl⟩
    exact ⟨hr, Or.inl rfl⟩

/-- a breakdown of the Krylov solver (negative `info`) is always a reported failure -/
theorem krylov_breakdown_is_failure (inp : Inp) (hz : inp.zeroSource = false)
    (hgood : (!inp.fresh && inp.rProvided.lt inp.cfg.tolRef) = false) (hssl : inp.cfg.ssl = true)
    (i : Int) (hinfo : (kFinal inp).info = some i) (hneg : i < 0) :
    (solve inp).exit = 1 ∧ (solve inp).msg ≠ .converged := by
  unfold solve
  simp only [hz, hgood, hssl, Bool.false_eq_true, if_false, if_true]
  have : finishMsg (kFinal inp) ≠ .converged := by
    intro hc
    have h := (finishMsg_converged_iff _).1 hc
    rw [hinfo] at h
    rcases h.2 with h | h
    · injection h with h; omega
    · cases h.1
  unfold kFinal at this
  simp [this]

end SolveM
