import Emg3dVerif.Model.Maps
import Emg3dVerif.Model.Amat
import Mathlib.Analysis.SpecialFunctions.Pow.Real
import Mathlib.Analysis.SpecialFunctions.Log.Base
import Mathlib.Analysis.SpecialFunctions.Log.Deriv
import Mathlib.Analysis.SpecialFunctions.ExpDeriv
import Mathlib.Analysis.SpecialFunctions.Pow.Deriv
import Mathlib.Analysis.Calculus.Deriv.Inv
/-!
# C14 — the physical model is invariant under the property mapping; chain rule exact

The six mappings of `emg3d.maps` as real functions (`forward`: conductivity → parameter,
`backward`: parameter → conductivity, `chain`: the multiplier of `derivative_chain`), tied to
the code by the float correspondence of `harness/c14.py`; the accept/reject logic of the model
validation as a decision table over float classes.
-/
open Real
namespace MapsM

noncomputable instance : Elem ℝ where
  ln := Real.log
  lg := Real.logb 10
  ex := Real.exp
  p10 := fun x => (10:ℝ) ^ x
  ln10 := Real.log 10

@[simp] theorem ln_eq (x : ℝ) : Elem.ln x = Real.log x := rfl
@[simp] theorem lg_eq (x : ℝ) : Elem.lg x = Real.logb 10 x := rfl
@[simp] theorem ex_eq (x : ℝ) : Elem.ex x = Real.exp x := rfl
@[simp] theorem p10_eq (x : ℝ) : Elem.p10 x = (10:ℝ) ^ x := rfl
@[simp] theorem ln10_eq : (Elem.ln10 : ℝ) = Real.log 10 := rfl

/-- **mapping forth and back is the identity on positive conductivities** -/
theorem backward_forward (m : Mapping) (s : ℝ) (hs : 0 < s) : backward m (forward m s) = s := by
  have h10 : (0:ℝ) < 10 := by norm_num
  have h10' : (10:ℝ) ≠ 1 := by norm_num
  cases m <;> simp only [forward, backward, Elem.lg, Elem.ln, Elem.ex, Elem.p10]
  · exact rpow_logb h10 h10' hs
  · exact exp_log hs
  · rw [one_div, one_div, inv_inv]
  · rw [one_div, logb_inv, neg_neg]; exact rpow_logb h10 h10' hs
  · rw [one_div, log_inv, neg_neg]; exact exp_log hs

/-- **mapping back and forth is the identity** on the domain of the parameter -/
theorem forward_backward (m : Mapping) (x : ℝ) (hx : m = .resistivity ∨ m = .conductivity → 0 < x) :
    forward m (backward m x) = x := by
  have h10 : (0:ℝ) < 10 := by norm_num
  have h10' : (10:ℝ) ≠ 1 := by norm_num
  cases m <;> simp only [forward, backward, Elem.lg, Elem.ln, Elem.ex, Elem.p10]
  · exact logb_rpow h10 h10'
  · exact log_exp x
  · rw [one_div, one_div, inv_inv]
  · rw [one_div, ← rpow_neg (le_of_lt h10), neg_neg]; exact logb_rpow h10 h10'
  · rw [one_div, ← exp_neg, neg_neg]; exact log_exp x

/-- every parameter value maps back to a positive conductivity (for the reciprocal and identity
maps: every positive one) -/
theorem backward_pos (m : Mapping) (x : ℝ) (hx : m = .resistivity ∨ m = .conductivity → 0 < x) :
    0 < backward m x := by
  cases m <;> simp only [backward, Elem.ex, Elem.p10]
  · exact hx (Or.inr rfl)
  · exact rpow_pos_of_pos (by norm_num) x
  · exact exp_pos x
  · exact one_div_pos.2 (hx (Or.inl rfl))
  · exact rpow_pos_of_pos (by norm_num) _
  · exact exp_pos _

/-- **the gradient conversion factor is the derivative of the conductivity with respect to the
mapped parameter** -/
theorem chain_is_derivative (m : Mapping) (x : ℝ) (hx : m = .resistivity → x ≠ 0) :
    HasDerivAt (backward m) (chain m x) x := by
  cases m
  · have e : (backward .conductivity : ℝ → ℝ) = fun y => y := by funext y; simp [backward]
    rw [e]; simpa [chain] using hasDerivAt_id' x
  · have h := (hasDerivAt_id' x).const_rpow (a := (10:ℝ)) (by norm_num)
    have e : (backward .lgConductivity : ℝ → ℝ) = fun y => (10:ℝ) ^ y := by funext y; simp [backward]
    rw [e]
    convert h using 1
    simp only [chain, backward, p10_eq, ln10_eq]; ring
  · have e : (backward .lnConductivity : ℝ → ℝ) = fun y => exp y := by funext y; simp [backward]
    rw [e]; simpa [chain, backward] using Real.hasDerivAt_exp x
  · have h := hasDerivAt_inv (hx rfl)
    have e : (backward .resistivity : ℝ → ℝ) = fun y => y⁻¹ := by funext y; simp [backward]
    rw [e]
    exact h.congr_deriv (by simp only [chain, backward, one_div, inv_pow, sq, mul_inv])

  · have h := ((hasDerivAt_id' x).neg).const_rpow (a := (10:ℝ)) (by norm_num)
    have e : (backward .lgResistivity : ℝ → ℝ) = fun y => (10:ℝ) ^ (-y) := by funext y; simp [backward]
    rw [e]
    exact h.congr_deriv (by simp only [chain, backward, Pi.neg_apply, p10_eq, ex_eq, ln10_eq]; ring)

  · have h := ((hasDerivAt_id' x).neg).exp
    have e : (backward .lnResistivity : ℝ → ℝ) = fun y => exp (-y) := by funext y; simp [backward]
    rw [e]
    exact h.congr_deriv (by simp only [chain, backward, Pi.neg_apply, p10_eq, ex_eq, ln10_eq]; ring)


/-- **the solver coefficients do not depend on the parametrisation**: `VolumeModel`'s `η` computed
from the mapped parameter of any mapping equals the one computed from the conductivity -/
theorem eta_mapping_invariant (m : Mapping) (sigma smu0 seps0 epsr vol : ℝ) (hs : 0 < sigma) :
    Emg.etaCoef smu0 seps0 (backward m (forward m sigma)) epsr vol
      = Emg.etaCoef smu0 seps0 sigma epsr vol := by
  rw [backward_forward m sigma hs]

/-! ## validation -/

/-- **a parameter is accepted iff all its values are positive and finite on the conductivity
scale** (construction and assignment alike) -/
theorem accept_iff_pos_finite (mapped : List Cls) :
    check false mapped = .ok ↔ ∀ c ∈ mapped, c = .pos := by
  unfold check
  simp only [Bool.false_eq_true, if_false]
  constructor
  · intro h
    by_cases h1 : mapped.all gtZero = true
    · by_cases h2 : mapped.all isFinite = true
      · intro c hc
        have a := (List.all_eq_true.1 h1) c hc
        have b := (List.all_eq_true.1 h2) c hc
        cases c <;> simp_all [gtZero, isFinite]
      · simp [h1, h2] at h
    · simp [h1] at h
  · intro h
    have h1 : mapped.all gtZero = true := List.all_eq_true.2 fun c hc => by rw [h c hc]; rfl
    have h2 : mapped.all isFinite = true := List.all_eq_true.2 fun c hc => by rw [h c hc]; rfl
    simp [h1, h2]

/-- which error is raised: a value that is not `> 0` (negative, zero, −∞, NaN) gives the
"bigger than zero" error; otherwise an infinite value gives the "finite" error -/
theorem reject_reason (mapped : List Cls) :
    (check false mapped = .errPositive ↔ ∃ c ∈ mapped, c = .neg ∨ c = .zero ∨ c = .ninf ∨ c = .nan) ∧
    (check false mapped = .errFinite ↔
      (∀ c ∈ mapped, c = .pos ∨ c = .pinf) ∧ ∃ c ∈ mapped, c = .pinf) := by
  unfold check
  simp only [Bool.false_eq_true, if_false]
  constructor
  · constructor
    · intro h
      by_cases h1 : mapped.all gtZero = true
      · by_cases h2 : mapped.all isFinite = true <;> simp [h1, h2] at h
      · have : ∃ c ∈ mapped, gtZero c = false := by
          by_contra hc
          apply h1
          apply List.all_eq_true.2
          intro c hcm
          by_contra hg
          exact hc ⟨c, hcm, by simpa using hg⟩
        obtain ⟨c, hc, hg⟩ := this
        exact ⟨c, hc, by cases c <;> simp_all [gtZero]⟩
    · rintro ⟨c, hc, hcl⟩
      have : mapped.all gtZero = false := by
        apply Bool.eq_false_iff.2
        intro h
        have := (List.all_eq_true.1 h) c hc
        rcases hcl with h | h | h | h <;> simp [h, gtZero] at this
      simp [this]
  · constructor
    · intro h
      by_cases h1 : mapped.all gtZero = true
      · by_cases h2 : mapped.all isFinite = true
        · simp [h1, h2] at h
        · refine ⟨fun c hc => ?_, ?_⟩
          · have := (List.all_eq_true.1 h1) c hc
            cases c <;> simp_all [gtZero]
          · have : ∃ c ∈ mapped, isFinite c = false := by
              by_contra hc
              apply h2
              apply List.all_eq_true.2
              intro c hcm
              by_contra hg
              exact hc ⟨c, hcm, by simpa using hg⟩
            obtain ⟨c, hc, hg⟩ := this
            have hp := (List.all_eq_true.1 h1) c hc
            exact ⟨c, hc, by cases c <;> simp_all [gtZero, isFinite]⟩
      · simp [h1] at h
    · rintro ⟨hall, c, hc, hinf⟩
      have h1 : mapped.all gtZero = true := List.all_eq_true.2 fun d hd => by
        rcases hall d hd with h | h <;> rw [h] <;> rfl
      have h2 : mapped.all isFinite = false := by
        apply Bool.eq_false_iff.2
        intro h
        have := (List.all_eq_true.1 h) c hc
        simp [hinf, isFinite] at this
      simp [h1, h2]

/-- a parameter that was not given at construction cannot be set afterwards -/
theorem cannot_set_uninitialised (mapped : List Cls) : check true mapped = .errNotSet := rfl

end MapsM
