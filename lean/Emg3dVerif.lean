import Emg3dVerif.Model.Num
