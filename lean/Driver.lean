import Emg3dVerif.Model.Num
import Emg3dVerif.Drv.C05
import Emg3dVerif.Drv.C02
import Emg3dVerif.Drv.C03
import Emg3dVerif.Drv.C04
import Emg3dVerif.Drv.C01
import Emg3dVerif.Drv.C13
import Emg3dVerif.Drv.C12
import Emg3dVerif.Drv.C11
import Emg3dVerif.Drv.C15
import Emg3dVerif.Drv.C10
import Emg3dVerif.Drv.C09
import Emg3dVerif.Drv.C14
import Emg3dVerif.Drv.C16
import Emg3dVerif.Drv.C17
import Emg3dVerif.Drv.C18
import Emg3dVerif.Drv.C19
import Emg3dVerif.Drv.C20
import Emg3dVerif.Drv.C07
import Emg3dVerif.Drv.Cycle
open Emg

def handle (ws : List String) : String :=
  match ws with
  | [] => "bad-op"
  | w :: _ =>
    let r : Option String :=
      if w == "mg" || w == "maxlevel" || w == "scdir" || w == "lrdir" || w == "coarsen" then Drv05.handle ws
      else if w == "amat" || w == "fit" || w == "eta" || w == "zeta" then Drv02.handle ws
      else if w == "gs" || w == "smoothing" then Drv03.handle ws
      else if w == "ldlt" then Drv03.handleLdlt ws
      else if w == "mgrun" then DrvCycle.handle ws
      else if w == "restrict" || w == "prolong" || w == "rweights" || w == "rparam" || w == "cgrid" then Drv04.handle ws
      else if w == "solve" then Drv01.handle ws
      else if w == "survey" || w == "misfit" then Drv13.handle ws
      else if w == "sim" then Drv12.handle ws
      else if w == "pmap" || w == "fname" || w == "slots" then Drv11.handle ws
      else if w == "volavg" || w == "vaw" then Drv15.handle ws
      else if w == "pvec" || w == "recv" || w == "dvec" then Drv10.handle ws
      else if w == "ecf" then Drv09.handle ws
      else if w == "validate" || w == "map" then Drv14.handle ws
      else if w == "stretch" || w == "goodmg" || w == "cutvec" || w == "compdom" || w == "oaw" || w == "search" then Drv16.handle ws
      else if w == "io" then Drv17.handle ws
      else if w.startsWith "cli" then Drv18.handle ws
      else if w == "imat" || w == "merge" || w == "lslots" then Drv19.handle ws
      else if w == "fou" then Drv20.handle ws
      else if w == "tovol" || w == "collect" || w == "stack" then Drv07.handle ws
      else none
    r.getD "bad-op"

partial def loop (h : IO.FS.Stream) (out : IO.FS.Stream) : IO Unit := do
  let line ← h.getLine
  if line.isEmpty then return ()
  out.putStrLn (handle (words line))
  loop h out

def main : IO Unit := do
  loop (← IO.getStdin) (← IO.getStdout)
