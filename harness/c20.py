"""C20 — the time-domain helper partitions and fills frequencies consistently.

Suites
  book  : `emg3d.time.Fourier` for generated time vectors, bands, signals,
          transforms (dlf with several filters, lagged / splined / standard;
          fftlog) and coarse-frequency options: `freq_coarse`, the four index
          masks and the data flow of `interpolate` (which interpolator fills
          which required frequency; recorded by wrapping the SciPy classes)
          == Lean `Fou`; mutual exclusion of the options under setter
          sequences == `Fou.coarseStep`.
  fill  : `Fourier.interpolate` on random complex spectra: pass-through where
          computed and required frequencies coincide, zero above the band,
          below the band real part at the lowest computed value and imaginary
          part shrinking monotonically to zero; values == independent SciPy
          calls as the model prescribes them.
  hand  : `freq2time` with `empymod.model.tem` wrapped: it receives the filled
          spectrum, `freq_required`, times, signal, ft, ftarg; result == a
          direct call of the reference transform.
"""
import warnings
from fractions import Fraction as Fr

import numpy as np

from harness import common
from harness.exactnum import fmt_fr

THEOREMS = [
    'Fou.three_way_partition', 'Fou.partition_needs_order',
    'Fou.computed_in_band', 'Fou.compute_eq_interpolate',
    'Fou.direct_frequencies_coincide', 'Fou.everyX_sublist',
    'Fou.interpolate_get', 'Fou.above_band_zero', 'Fou.passthrough',
    'Fou.spline_coincident', 'Fou.extrapolated', 'Fou.extrapolation_real_part',
    'Fou.coarse_options_exclusive',
]


def fq(x):
    return fmt_fr(Fr(float(x)))


def gen_fourier(emg3d, rng, t):
    nt = int(rng.integers(3, 40))
    t0 = 10.0**rng.uniform(-3, 0)
    time = np.sort(t0*10.0**rng.uniform(0, 2.5, nt))
    if t % 7 == 0:
        time = np.logspace(-2, 1, nt)
    signal = int(rng.choice([-1, 0, 1]))
    kind = ['dlf-lagged', 'dlf-splined', 'dlf-lagged', 'fftlog'][t % 4]
    if kind == 'fftlog':
        ft, ftarg = 'fftlog', {'pts_per_dec': int(rng.choice([5, 10])),
                               'add_dec': [-2, 1], 'q': float(rng.choice([0, -0.6]))}
        if rng.random() < 0.5:
            ftarg = {}
    else:
        ft = 'dlf'
        filt = str(rng.choice(['key_81_2009', 'key_201_2012', 'key_241_2009',
                               'key_601_2009']))
        if filt.endswith('2012') and ft == 'cos':
            filt = 'key_201_2012'
        ppd = {'dlf-lagged': -1, 'dlf-splined': int(rng.choice([5, 10, 20])),
               'dlf-standard': 0}[kind]
        ftarg = {'dlf': filt, 'pts_per_dec': ppd}
        if kind == 'dlf-standard':
            time = time[:6]             # many frequencies otherwise
    kw = {}
    with warnings.catch_warnings():
        warnings.simplefilter('ignore')
        probe = emg3d.Fourier(time, 1e-3, 1e3, signal=signal, ft=ft,
                              ftarg=dict(ftarg), verb=0)
    fr = probe.freq_required
    # band: inside / partly outside / containing the required range
    lo, hi = np.log10(fr.min()), np.log10(fr.max())
    a, b = sorted(rng.uniform(lo-1, hi+1, 2))
    if b - a < 0.3:
        b = a + 0.3
    fmin, fmax = float(10.0**a), float(10.0**b)
    if t % 9 == 4:                      # band limits exactly on frequencies
        inb = fr[(fr > fr.min()) & (fr < fr.max())]
        if inb.size > 3:
            fmin, fmax = float(inb[1]), float(inb[-2])
    opt = ['none', 'every', 'input', 'input-same-size', 'none'][t % 5]
    if opt == 'every':
        kw['every_x_freq'] = int(rng.integers(2, 6))
    elif opt == 'input':
        n = int(rng.integers(4, 25))
        kw['input_freq'] = np.sort(10.0**rng.uniform(a-0.5, b+0.5, n))
    elif opt == 'input-same-size':
        # as many input frequencies as required ones, at other positions
        kw['input_freq'] = np.sort(fr*10.0**rng.uniform(-0.02, 0.02, fr.size))
    with warnings.catch_warnings():
        warnings.simplefilter('ignore')
        F = emg3d.Fourier(time, fmin, fmax, signal=signal, ft=ft,
                          ftarg=dict(ftarg), verb=0, **kw)
    return F, (kind, opt, signal)


class FlowRec:
    """Record which SciPy interpolator is evaluated at which frequencies."""

    def __init__(self, tmod):
        self.t = tmod
        self.calls = []

    def __enter__(self):
        ip = self.t.sp.interpolate
        self.oS, self.oP = ip.InterpolatedUnivariateSpline, ip.PchipInterpolator
        calls = self.calls
        oS, oP = self.oS, self.oP

        class S:
            def __init__(s, x, y, *a, **k):
                s.x, s.y = np.array(x), np.array(y)
                s.f = oS(x, y, *a, **k)

            def __call__(s, xn):
                calls.append(('S', s.x, s.y, np.array(xn)))
                return s.f(xn)

        class P:
            def __init__(s, x, y, *a, **k):
                s.x, s.y = np.array(x), np.array(y)
                s.f = oP(x, y, *a, **k)

            def __call__(s, xn):
                calls.append(('P', s.x, s.y, np.array(xn)))
                return s.f(xn)
        ip.InterpolatedUnivariateSpline = S
        ip.PchipInterpolator = P
        return self

    def __exit__(self, *a):
        ip = self.t.sp.interpolate
        ip.InterpolatedUnivariateSpline = self.oS
        ip.PchipInterpolator = self.oP


def suite_book(ctx):
    import emg3d
    rng = ctx.nprng('book')
    n = 160 if ctx.thorough else 50
    lines, meta = [], []
    bad = []
    nv0 = len(ctx.violations)
    for t in range(n):
        try:
            F, tag = gen_fourier(emg3d, rng, t)
        except Exception as e:      # noqa
            bad.append(('constructor', t, str(e)[:100]))
            continue
        fr = F.freq_required
        ev = F.every_x_freq
        inp = F.input_freq
        lines.append("fou | " + " ".join(fq(v) for v in fr) +
                     f" | {fq(F.fmin)} {fq(F.fmax)} | " +
                     (" ".join(fq(v) for v in inp) if inp is not None else "")
                     + " | " + (str(int(ev)) if ev is not None else ""))
        # data flow of interpolate on a random spectrum
        nc = F.freq_compute.size
        fdata = rng.standard_normal(nc) + 1j*rng.standard_normal(nc)
        flow, out, err = None, None, None
        if nc >= 4:
            with warnings.catch_warnings(), FlowRec(emg3d.time) as rec:
                warnings.simplefilter('ignore')
                try:
                    out = F.interpolate(fdata)
                except Exception as e:      # noqa
                    err = f'{type(e).__name__}: {e}'
            if err is None:
                flow = np.array(['?']*fr.size, dtype=object)
                flow[out == 0] = 'Z'
                for kind, x, y, xn in rec.calls:
                    for v in np.atleast_1d(xn):
                        vv = np.exp(v) if kind == 'S' else v
                        i = int(np.argmin(np.abs(fr-vv)))
                        flow[i] = kind
                # direct copies
                k = 0
                for i in np.nonzero(F.ifreq_interpolate)[0]:
                    if flow[i] == '?':
                        flow[i] = f'D{k}' if k < nc and out[i] == fdata[k] \
                            else 'X'
                    k += 1
        meta.append((F, tag, fdata, out, flow, err))
        # direct monitors (independent of the model)
        grp = (F.ifreq_extrapolate.astype(int) + F.ifreq_interpolate.astype(int)
               + (fr > F.fmax).astype(int))
        if np.any(grp != 1):
            bad.append(('partition', tag))
            ctx.violation('groups-not-a-partition',
                          f'Fourier {tag}: required frequencies in '
                          f'{sorted(set(grp.tolist()))} groups',
                          {'fmin': F.fmin, 'fmax': F.fmax})
        fc = F.freq_compute
        if fc.size and (fc.min() < F.fmin or fc.max() > F.fmax):
            bad.append(('band', tag))
            ctx.violation('computed-outside-band',
                          f'Fourier {tag}: freq_compute [{fc.min()}, '
                          f'{fc.max()}] outside [{F.fmin}, {F.fmax}]', {})
        ctx.count(key=('book', t, tag))
    out = common.run_driver(lines, timeout=600)
    stats = {}
    for (F, tag, fdata, res, flow, err), o in zip(meta, out):
        parts = [p.strip() for p in o.split('|')]
        co = np.array([float(Fr(x)) for x in parts[0].split()])
        ok = (co.shape == F.freq_coarse.shape and
              np.array_equal(co, F.freq_coarse) and
              parts[1].split() == [str(int(b)) for b in F.ifreq_compute] and
              parts[2].split() == [str(int(b)) for b in F.ifreq_extrapolate]
              and parts[3].split() == [str(int(b)) for b in F.ifreq_interpolate])
        if not ok:
            bad.append(('masks', tag))
            continue
        mflow = parts[4].split()
        stats[tag[1]] = stats.get(tag[1], 0) + 1
        if err is not None:
            # the model is total; the code may refuse (size mismatch) only in
            # the direct branch with input_freq
            if not ('D0' in mflow or any(x.startswith('D') for x in mflow)):
                bad.append(('interpolate raised', tag, err[:100]))
            continue
        if flow is None:
            continue
        if list(flow) != mflow:
            # direct copy of data that belong to other frequencies
            direct_wrong = any(x.startswith('D') for x in mflow) and \
                not np.array_equal(F.freq_compute, F.freq_interpolate)
            bad.append(('flow', tag, list(flow)[:12], mflow[:12]))
            if direct_wrong:
                pass
        # pass-through must only happen at coincident frequencies
        if any(x.startswith('D') for x in flow) and not np.array_equal(
                F.freq_compute, F.freq_interpolate):
            ctx.violation(
                'data-assigned-to-other-frequencies',
                f'Fourier {tag}: interpolate() copies the data computed at '
                f'{F.freq_compute[:3].tolist()}… unchanged to the required '
                f'frequencies {F.freq_interpolate[:3].tolist()}… (input_freq '
                f'has as many entries as freq_required, but other values)',
                {'fmin': F.fmin, 'fmax': F.fmax,
                 'input_freq': F.input_freq.tolist()[:50],
                 'freq_required': F.freq_required.tolist()[:50]})
    ctx.cov['option_cases'] = stats
    # setter sequences: mutual exclusion
    bad += setter_sequences(ctx, emg3d, rng)
    bad += setters_vs_fresh(ctx, emg3d, rng)
    ctx.oblige('correspondence: Fourier freq_coarse / index masks / data flow '
               'of interpolate (recorded SciPy calls) == Fou model; option '
               'setters == Fou.coarseStep', 'correspondence',
               not bad and not [v for v in ctx.violations[nv0:] if v['sig']
                                not in common.known_findings(ctx.pid)],
               str(bad[:2])[:600])
    ctx.samples.append({'fou_line': lines[0][:200], 'model': out[0][:200]})
    return bad


def setter_sequences(ctx, emg3d, rng):
    bad = []
    time = np.logspace(-2, 0, 8)
    for t in range(40 if ctx.thorough else 12):
        i0, e0 = bool(rng.integers(0, 2)), bool(rng.integers(0, 2))
        kw = {}
        if i0:
            kw['input_freq'] = np.logspace(-1, 1, 9)
        if e0:
            kw['every_x_freq'] = 3
        with warnings.catch_warnings():
            warnings.simplefilter('ignore')
            F = emg3d.Fourier(time, 0.1, 10.0, verb=0, **kw)
            st = (i0 and True, e0 and not i0) if (i0 and e0) else (i0, e0)
            for _ in range(int(rng.integers(1, 6))):
                op = int(rng.integers(0, 2))
                val = bool(rng.integers(0, 2))
                if op == 0:
                    F.input_freq = np.logspace(-1, 1, 7) if val else None
                    st = (val, st[1])
                    if st[0] and st[1]:
                        st = (True, False)
                else:
                    F.every_x_freq = 2 if val else None
                    st = (st[0], val)
                    if st[0] and st[1]:
                        st = (False, True)
                got = (F.input_freq is not None, F.every_x_freq is not None)
                if got != st or (got[0] and got[1]):
                    bad.append(('setters', t, got, st))
        ctx.count(key=('setters', t))
    return bad


def attrs(F):
    return (np.asarray(F.freq_required).tolist(),
            np.asarray(F.freq_coarse).tolist(),
            np.asarray(F.freq_compute).tolist(),
            np.asarray(F.freq_extrapolate).tolist(),
            np.asarray(F.freq_interpolate).tolist(),
            np.asarray(F.ifreq_compute).tolist(),
            np.asarray(F.ifreq_extrapolate).tolist(),
            np.asarray(F.ifreq_interpolate).tolist(),
            float(F.fmin), float(F.fmax), F.signal, F.ft,
            sorted((k, canon_arg(v)) for k, v in F.ftarg.items()))


def canon_arg(v):
    if hasattr(v, 'name') and hasattr(v, 'base'):
        return 'filter:' + str(v.name)
    if isinstance(v, np.ndarray):
        return repr(np.asarray(v).tolist())
    if isinstance(v, (list, tuple)):
        return repr([canon_arg(x) for x in v])
    if isinstance(v, (float, np.floating)):
        return repr(float(v))
    return repr(v)


def setters_vs_fresh(ctx, emg3d, rng):
    """An instance changed through its setters == a fresh instance."""
    bad = []
    for t in range(20 if ctx.thorough else 8):
        try:
            F, tag = gen_fourier(emg3d, rng, t)
            G, _ = gen_fourier(emg3d, rng, t + 1)
        except Exception:       # noqa
            continue
        def spec(fc, a):
            return a/(1+1j*fc/fc.mean()) + 0.01*a*np.cos(fc)

        with warnings.catch_warnings():
            warnings.simplefilter('ignore')
            # a first result on the old parameters, kept by the caller
            try:
                o1 = F.interpolate(spec(F.freq_compute, 2.0))
                o1c = o1.copy()
            except Exception:       # noqa
                o1 = o1c = None
            # move F to G's parameters through the documented setters
            # (in any order; the derived attributes are read in between)
            def set_coarse():
                F.every_x_freq = G.every_x_freq
                F.input_freq = G.input_freq
                if G.every_x_freq is not None:
                    F.every_x_freq = G.every_x_freq
            steps = [lambda: setattr(F, 'signal', G.signal),
                     lambda: F.fourier_arguments(G.ft, dict(G.ftarg)),
                     lambda: setattr(F, 'time', G.time),
                     lambda: setattr(F, 'fmin', G.fmin),
                     lambda: setattr(F, 'fmax', G.fmax),
                     set_coarse]
            order = [list(range(len(steps))), [0, 1, 2, 5, 4, 3],
                     [int(q) for q in rng.permutation(len(steps))]][t % 3]
            for q in order:
                steps[q]()
                try:
                    _ = (F.freq_compute, F.freq_extrapolate,
                         F.freq_interpolate)
                except Exception:       # noqa  (inconsistent intermediate)
                    pass
        a, b = attrs(F), attrs(G)
        if a != b:
            k = [i for i, (x, y) in enumerate(zip(a, b)) if x != y]
            bad.append(('setters-vs-fresh', tag, k))
            ctx.violation(
                'setter-state-differs-from-fresh',
                f'Fourier changed through its setters differs from a fresh '
                f'instance with the same parameters (attribute groups {k})',
                {'from': repr(tag), 'fmin': G.fmin, 'fmax': G.fmax})
        elif G.freq_compute.size >= 4:
            # the filled spectrum carries nothing over from earlier calls
            with warnings.catch_warnings():
                warnings.simplefilter('ignore')
                fd = spec(G.freq_compute, 1.0)
                fa = F.interpolate(fd.copy())
                fac = fa.copy()
                fb = G.interpolate(fd.copy())
                fa2 = F.interpolate(3.0*fd)
            if not np.array_equal(fa, fb):
                bad.append(('interpolate-after-setters', tag))
                ctx.violation(
                    'interpolate-carries-state',
                    f'Fourier moved by its setters from {tag}: interpolate() '
                    f'differs from a fresh instance on the same data (max '
                    f'|diff| {float(np.max(np.abs(fa-fb))):.3g})',
                    {'from': repr(tag), 'fmin': G.fmin, 'fmax': G.fmax})
            elif not np.array_equal(fa, fac) or (
                    o1 is not None and not np.array_equal(o1, o1c)):
                bad.append(('interpolate-overwrites-earlier-result', tag))
                ctx.violation(
                    'interpolate-carries-state',
                    f'Fourier {tag}: a later interpolate() call changed the '
                    f'array returned by an earlier one', {'from': repr(tag)})
            elif not np.allclose(fa2, 3.0*fb, rtol=1e-10, atol=0):
                bad.append(('interpolate-not-linear', tag))
            else:
                # ... also for spectra of the size of real CSEM data
                with warnings.catch_warnings():
                    warnings.simplefilter('ignore')
                    fa3 = F.interpolate(2.0**-60*fd)
                if not np.allclose(fa3, 2.0**-60*fb, rtol=1e-10, atol=0):
                    bad.append(('interpolate-not-linear (tiny)', tag))
                    ctx.violation(
                        'interpolate-not-scale-invariant',
                        f'Fourier {tag}: interpolate(2^-60 d) differs from '
                        f'2^-60 interpolate(d) (max rel. '
                        f'{float(np.max(np.abs(fa3/(2.0**-60*fb)-1))):.3g})',
                        {'from': repr(tag)})
        ctx.count(key=('setters-fresh', t))
    # the signal alone: switch-off <-> switch-on on the same instance
    import empymod
    time = np.logspace(-1, 1, 6)
    for s0, s1 in [(-1, 1), (1, -1), (0, 1), (0, -1), (1, 0)]:
        for ft, ftarg in [('dlf', {}), ('dlf', {'dlf': 'key_81_2009',
                                               'pts_per_dec': 10}),
                          ('fftlog', {})]:
            with warnings.catch_warnings():
                warnings.simplefilter('ignore')
                F = emg3d.Fourier(time, 1e-3, 1e2, signal=s0, ft=ft,
                                  ftarg=dict(ftarg), verb=0)
                F.signal = s1
                G = emg3d.Fourier(time, 1e-3, 1e2, signal=s1, ft=ft,
                                  ftarg=dict(ftarg), verb=0)
                if not np.array_equal(F.freq_compute, G.freq_compute):
                    bad.append(('signal-setter freq', s0, s1, ft))
                    continue
                fd = empymod.dipole([0, 0, 0.01], [900., 0, 0.01], [], [1],
                                    G.freq_compute, verb=0)
                a = F.freq2time(fd, 900.)
                b = G.freq2time(fd, 900.)
            # for the impulse response the sine / cosine kind is the user's
            # choice (both valid): compare loosely there
            tol = 1e-10 if s1 != 0 else 5e-2
            if not np.allclose(a, b, rtol=tol, atol=0):
                bad.append(('signal-setter', s0, s1, ft))
                ctx.violation(
                    'signal-setter-stale-transform',
                    f'Fourier(signal={s0}, ft={ft!r}); fourier.signal = {s1}: '
                    f'freq2time gives {a[:3].tolist()}…, a fresh '
                    f'Fourier(signal={s1}) gives {b[:3].tolist()}…',
                    {'signal_from': s0, 'signal_to': s1, 'ft': ft,
                     'ftarg': repr(ftarg)})
            ctx.count(key=('signal-setter', s0, s1, ft, repr(ftarg)))
    # the times alone, changed through an augmented assignment (`F.time *= 5`:
    # the stored array is edited in place and handed back to the setter) or
    # through the caller's array that the instance was built from
    for how in ('augmented', 'callers-array', 'new-array'):
        for ft, ftarg in [('dlf', {}), ('fftlog', {})]:
            t0 = np.logspace(-1, 1, 6)
            with warnings.catch_warnings():
                warnings.simplefilter('ignore')
                F = emg3d.Fourier(t0, 1e-3, 1e2, ft=ft, ftarg=dict(ftarg),
                                  verb=0)
                _ = F.freq_compute
                if how == 'augmented':
                    F.time *= 5
                elif how == 'callers-array':
                    t0 *= 5
                    F.time = t0
                else:
                    F.time = F.time*5
                G = emg3d.Fourier(np.logspace(-1, 1, 6)*5, 1e-3, 1e2, ft=ft,
                                  ftarg=dict(ftarg), verb=0)
            a, b = attrs(F), attrs(G)
            if a != b:
                k = [i for i, (x, y) in enumerate(zip(a, b)) if x != y]
                bad.append(('time-setter', how, ft, k))
                ctx.violation(
                    'setter-state-differs-from-fresh',
                    f'Fourier(ft={ft!r}) whose times were multiplied by 5 '
                    f'({how}) differs from a fresh instance with those times '
                    f'(attribute groups {k})', {'how': how, 'ft': ft})
            ctx.count(key=('time-setter', how, ft))
    return bad


def suite_fill(ctx):
    import emg3d
    import scipy.interpolate as si
    rng = ctx.nprng('fill')
    n = 120 if ctx.thorough else 40
    bad = []
    nv0 = len(ctx.violations)
    for t in range(n):
        try:
            F, tag = gen_fourier(emg3d, rng, t)
        except Exception:       # noqa
            continue
        fc = F.freq_compute
        if fc.size < 4:
            continue
        # smooth decaying spectrum plus noise
        fdata = (1/(1+1j*fc/fc.mean()))*rng.uniform(0.5, 2) + \
            0.05*(rng.standard_normal(fc.size)+1j*rng.standard_normal(fc.size))
        with warnings.catch_warnings():
            warnings.simplefilter('ignore')
            out = F.interpolate(fdata.copy())
        fr = F.freq_required
        ii, ie = F.ifreq_interpolate, F.ifreq_extrapolate
        # above the band: zero
        if np.any(out[fr > F.fmax] != 0):
            bad.append(('above', tag))
            ctx.violation('above-band-not-zero', f'Fourier {tag}: non-zero '
                          f'spectrum above fmax', {})
        # in the band: taken unchanged where frequencies coincide
        fi = fr[ii]
        for j, f in enumerate(fc):
            k = np.nonzero(fi == f)[0]
            if k.size:
                v = out[ii][k[0]]
                if abs(v-fdata[j]) > 1e-9*abs(fdata[j]):
                    bad.append(('coincident', tag, float(f)))
                    ctx.violation(
                        'coincident-data-changed',
                        f'Fourier {tag}: datum supplied at {f!r} Hz '
                        f'({fdata[j]!r}) comes back as {v!r}', {})
                    break
        # in the band, model prescription: direct copy or log-spline of the
        # computed data
        if not np.array_equal(F.freq_coarse, fr):
            ref = (si.InterpolatedUnivariateSpline(np.log(fc), fdata.real)(
                np.log(fi)) + 1j*si.InterpolatedUnivariateSpline(
                np.log(fc), fdata.imag)(np.log(fi)))
        else:
            ref = fdata
        if ref.shape != out[ii].shape or not np.allclose(out[ii], ref,
                                                        rtol=1e-12):
            bad.append(('in-band', tag))
        # below the band: PCHIP through (1e-100, Re d0 - 1e-100j), computed
        fe = fr[ie]
        if fe.size:
            xe = np.r_[1e-100, fc]
            de = np.r_[fdata[0].real-1e-100j, fdata]
            ref = si.PchipInterpolator(xe, de.real)(fe) + \
                1j*si.PchipInterpolator(xe, de.imag)(fe)
            if not np.allclose(out[ie], ref, rtol=1e-12, atol=1e-300):
                bad.append(('extrapolated', tag))
                ctx.violation(
                    'extrapolation-not-from-computed-data',
                    f'Fourier {tag}: values below fmin differ from the PCHIP '
                    f'interpolant through the computed data and the anchor '
                    f'at 1e-100 Hz (max rel. diff '
                    f'{np.max(np.abs(out[ie]-ref)/np.abs(ref)):.3g})', {})
            # shape: real part at the lowest computed value, imaginary part
            # monotone towards zero
            if not np.allclose(out[ie].real, fdata[0].real, rtol=1e-9):
                bad.append(('real-part', tag))
                ctx.violation(
                    'extrapolated-real-part-moves',
                    f'Fourier {tag}: real part below fmin ranges '
                    f'{out[ie].real.min()!r}..{out[ie].real.max()!r}, lowest '
                    f'computed value {fdata[0].real!r}', {})
            im = out[ie].imag
            s = np.sign(fdata[0].imag)
            order = np.argsort(fe)
            ims = im[order]*s
            if np.any(np.diff(ims) < -1e-12*abs(fdata[0].imag)) or \
                    np.any(ims < -1e-15) or \
                    np.any(ims > abs(fdata[0].imag)*(1+1e-9)):
                bad.append(('imag-part', tag))
                ctx.violation(
                    'extrapolated-imag-part-not-monotone',
                    f'Fourier {tag}: imaginary part below fmin is not '
                    f'monotone between 0 and {fdata[0].imag!r}', {})
        ctx.count(key=('fill', t, tag))
    ctx.oblige('monitor: interpolate(): zero above the band, coincident data '
               'unchanged, in-band == direct copy / log-spline of the '
               'computed data, below == PCHIP through computed data + anchor, '
               'real part constant, imaginary part monotone to zero',
               'monitor', not bad and len(ctx.violations) == nv0,
               str(bad[:2])[:400])
    return bad


def suite_hand(ctx):
    import emg3d
    import empymod
    rng = ctx.nprng('hand')
    n = 24 if ctx.thorough else 8
    bad = []
    nv0 = len(ctx.violations)
    for t in range(n):
        try:
            F, tag = gen_fourier(emg3d, rng, t)
        except Exception:       # noqa
            continue
        if F.freq_compute.size < 4:
            continue
        fc = F.freq_compute
        fdata = 1e-10/(1+1j*fc/fc.mean())
        off = float(rng.uniform(100, 5000))
        rec = {}
        orig = empymod.model.tem

        def wrapped(*a, **k):
            rec['a'], rec['k'] = a, k
            return orig(*a, **k)
        empymod.model.tem = wrapped
        try:
            with warnings.catch_warnings():
                warnings.simplefilter('ignore')
                filled = F.interpolate(fdata.copy())
                td = F.freq2time(fdata.copy(), off)
                ref, _ = orig(filled[:, None], np.array(off),
                              freq=F.freq_required, time=F.time,
                              signal=F.signal, ft=F.ft, ftarg=F.ftarg)
        finally:
            empymod.model.tem = orig
        k = rec.get('k', {})
        a = rec.get('a', ())
        ok = (len(a) >= 2 and np.array_equal(np.squeeze(a[0]), filled) and
              float(a[1]) == off and
              np.array_equal(k.get('freq'), F.freq_required) and
              np.array_equal(k.get('time'), F.time) and
              k.get('signal') == F.signal and k.get('ft') == F.ft and
              k.get('ftarg') is F.ftarg)
        if not ok:
            bad.append(('hand-over', tag))
        if not np.array_equal(np.squeeze(ref), td):
            bad.append(('result', tag))
            ctx.violation('time-domain-differs-from-reference',
                          f'Fourier {tag}: freq2time differs from the '
                          f'reference transform of the filled spectrum', {})
        ctx.count(key=('hand', t, tag))
    ctx.oblige('correspondence: freq2time hands the filled spectrum, '
               'freq_required, time, signal, ft, ftarg to empymod.model.tem; '
               'result == direct call', 'correspondence',
               not bad and len(ctx.violations) == nv0, str(bad[:2])[:300])
    return bad


def run(ctx):
    ctx.lean('Emg3dVerif.Props.C20', THEOREMS)
    ctx.assumptions += [
        'empymod.utils.check_time supplies freq_required; empymod.model.tem '
        'is the reference transform (uninterpreted)',
        'InterpolatedUnivariateSpline interpolates its nodes and '
        'PchipInterpolator is constant on a flat first interval and monotone '
        'on monotone data (hypotheses of spline_coincident / '
        'extrapolation_real_part; monitored on every generated spectrum)',
    ]
    b = []
    for s in (suite_book, suite_fill, suite_hand):
        b += s(ctx) or []
    if b and not ctx.violations:
        ctx.violation('model-correspondence-broken',
                      f'Fourier bookkeeping no longer matches the model '
                      f'({str(b[:1])[:300]})', {'first': str(b[:1])[:800]},
                      found_input=False)


def replay(ctx, rp):
    for s in (suite_book, suite_fill, suite_hand):
        s(ctx)
    for v in ctx.violations:
        print('replay:', v['sig'], v['what'][:200])
    return 1 if ctx.violations else 0
