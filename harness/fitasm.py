"""Independent assembly of the finite-integration operator
    A = C^T M_face(V/mu_r) C + s mu_0 M_edge(V (sigma + s eps_0 eps_r))
with SciPy sparse, from cell widths and cell properties only (nothing from
emg3d.core).  Used as the residual oracle of C01 and cross-checked against the
Lean specification `Emg.fitX/Y/Z` (see `selfcheck`)."""
import numpy as np
import scipy.sparse as sp
from scipy.constants import mu_0, epsilon_0


def _D(n):
    """(n x n+1) difference f[i+1]-f[i]."""
    return sp.diags([-np.ones(n), np.ones(n)], [0, 1], shape=(n, n+1))


def _I(n):
    return sp.identity(n)


def _k3(az, ay, ax):
    return sp.kron(az, sp.kron(ay, ax), format='csr')


def curl(hx, hy, hz):
    """Edge curl (circulation / face area); edges [ex, ey, ez], faces
    [fx, fy, fz], all Fortran ordered."""
    nx, ny, nz = len(hx), len(hy), len(hz)
    Gx = sp.diags(1/hx) @ _D(nx)
    Gy = sp.diags(1/hy) @ _D(ny)
    Gz = sp.diags(1/hz) @ _D(nz)
    # sizes: ex (nx, ny+1, nz+1), ey (nx+1, ny, nz+1), ez (nx+1, ny+1, nz)
    # faces: fx (nx+1, ny, nz), fy (nx, ny+1, nz), fz (nx, ny, nz+1)
    Z = None
    cx_ey = -_k3(Gz, _I(ny), _I(nx+1))
    cx_ez = _k3(_I(nz), Gy, _I(nx+1))
    cy_ex = _k3(Gz, _I(ny+1), _I(nx))
    cy_ez = -_k3(_I(nz), _I(ny+1), Gx)
    cz_ex = -_k3(_I(nz+1), Gy, _I(nx))
    cz_ey = _k3(_I(nz+1), _I(ny), Gx)
    return sp.bmat([[Z, cx_ey, cx_ez], [cy_ex, Z, cy_ez], [cz_ex, cz_ey, Z]],
                   format='csr')


def _avg_pad(a, axis):
    """Two-cell average along `axis` onto nodes (n+1 entries); at the two
    boundary nodes the single neighbouring cell value is used twice."""
    first = np.take(a, [0], axis=axis)
    last = np.take(a, [-1], axis=axis)
    ext = np.concatenate([first, a, last], axis=axis)
    n = a.shape[axis]
    lo = np.take(ext, range(0, n+1), axis=axis)
    hi = np.take(ext, range(1, n+2), axis=axis)
    return (lo + hi)/2


def assemble(hx, hy, hz, sig, s, mu_r=None, eps_r=None):
    """sig = (sig_x, sig_y, sig_z) cell arrays (nx, ny, nz)."""
    hx, hy, hz = (np.asarray(h, float) for h in (hx, hy, hz))
    nx, ny, nz = len(hx), len(hy), len(hz)
    V = hx[:, None, None]*hy[None, :, None]*hz[None, None, :]
    zeta = V if mu_r is None else V/mu_r
    C = curl(hx, hy, hz)
    mfx = _avg_pad(zeta, 0)
    mfy = _avg_pad(zeta, 1)
    mfz = _avg_pad(zeta, 2)
    Mf = sp.diags(np.r_[mfx.ravel('F'), mfy.ravel('F'), mfz.ravel('F')])
    me = []
    for d, sg in enumerate(sig):
        val = V*(sg + (s*epsilon_0*eps_r if eps_r is not None else 0))
        ax = [a for a in range(3) if a != d]
        val = _avg_pad(_avg_pad(val, ax[0]), ax[1])
        me.append(val.ravel('F'))
    Me = sp.diags(np.concatenate(me))
    return (C.T @ Mf @ C + s*mu_0*Me).tocsr()


def interior_mask(nx, ny, nz):
    mx = np.zeros((nx, ny+1, nz+1), bool)
    mx[:, 1:-1, 1:-1] = True
    my = np.zeros((nx+1, ny, nz+1), bool)
    my[1:-1, :, 1:-1] = True
    mz = np.zeros((nx+1, ny+1, nz), bool)
    mz[1:-1, 1:-1, :] = True
    return np.r_[mx.ravel('F'), my.ravel('F'), mz.ravel('F')]


def model_arrays(model, grid):
    """(sig_x, sig_y, sig_z), mu_r, eps_r as conductivities on `grid`."""
    shp = tuple(grid.shape_cells)

    def full(p):
        return np.broadcast_to(np.asarray(p, float), shp) if p is not None \
            else None
    sx = full(model.map.backward(model.property_x))
    sy = full(model.map.backward(model.property_y)) \
        if model.property_y is not None else sx
    sz = full(model.map.backward(model.property_z)) \
        if model.property_z is not None else sx
    return (sx, sy, sz), full(model.mu_r), full(model.epsilon_r)


def residual_norm(model, sfield, efield):
    """|| s - A e ||_2 over interior edges, A assembled here."""
    grid = model.grid
    hx, hy, hz = grid.h
    f = sfield._frequency
    s = 2j*np.pi*f if f > 0 else -f
    sig, mur, epsr = model_arrays(model, grid)
    A = assemble(hx, hy, hz, sig, s, mur, epsr)
    r = np.asarray(sfield.field) - A @ np.asarray(efield.field)
    m = interior_mask(*grid.shape_cells)
    return float(np.linalg.norm(r[m])), float(np.linalg.norm(r[~m]))
