"""C03 — every smoother is a consistent relaxation of the same linear system.

Suites
  exact   : the Python source of `gauss_seidel`, `gauss_seidel_x/_y/_z`, run on
            exact Gaussian rationals, must equal the Lean model `Emg.runKernel`
            (block Gauss-Seidel of the operator `amat`, block systems built from
            the operator and solved exactly) entry by entry; `solver.smoothing`
            dispatch (all codes 0..7, two-cell adaptation) vs `Emg.smoothing`.
  ldlt    : `core.solve.py_func` exact vs `LdltM.solve`, plus A x = b evaluated
            by the model (spec) and non-zero pivots.
  jit     : compiled kernels vs their own source run in float64.
  oracle  : (property, on the real code) exact fixed point, last block solved,
            linearity, boundary untouched — evaluated with the Lean operator.
"""
import warnings

import numpy as np

from harness import common, c02
from harness.exactnum import (Q, exact_fn, qarr, line, parse, fmt, to_complex)

THEOREMS = [
    'Emg.relaxBlock_solves', 'Emg.relaxBlock_fixed', 'Emg.relaxBlock_frame',
    'Emg.relaxBlock_add', 'Emg.relaxBlock_smul', 'Emg.block_unique',
    'Emg.relaxAll_last_solved', 'Emg.relaxAll_fixed', 'Emg.relaxAll_add',
    'Emg.relaxAll_smul', 'Emg.kernelBlocks_interior',
    'Emg.smoothingBlocks_interior',
    'Emg.kernel_keeps_boundary', 'Emg.smoothing_keeps_boundary',
    'Emg.kernel_fixed_point', 'Emg.smoother_fixed_point',
    'Emg.smoother_last_block_solved', 'Emg.kernel_last_block_solved',
    'Emg.smoother_add', 'Emg.smoother_smul', 'Emg.kernel_add',
    'Emg.smoothing_no_two_cell_line',
    'Emg.matEF_eq', 'Emg.mat3_eq',
    'Emg.Ldlt.solve_exact', 'Emg.Ldlt.model_solve_exact',
    'Emg.solveBanded_exact',
    # the complete multigrid call (Props/Cycle.lean)
    'Emg.residual_of_solved', 'Emg.amat_nonint', 'Emg.amat_zero',
    'Emg.restrict_zero', 'Emg.prolong_zero', 'Emg.smoothingC_fixed',
    'Emg.step_inv', 'Emg.runTrace_fixed', 'Emg.mgRun_fixed',
    'Emg.lenPres_mgTrace', 'Emg.mgRun_fixed_exact',
    # non-singular block systems for physical models (Props/Coercive.lean)
    'Emg.energy_zero', 'Emg.solution_unique_phys',
    'Emg.blockInj_phys', 'Emg.allInj_phys', 'Emg.Phys.coarse',
    'Emg.Phys.reach', 'Emg.smoother_fixed_point_phys',
    'Emg.kernel_fixed_point_phys', 'Emg.mgRun_fixed_phys',
    'Emg.mgRun_fixed_exact_phys',
]

KN = ['gauss_seidel', 'gauss_seidel_x', 'gauss_seidel_y', 'gauss_seidel_z']


def make_case(rng, shp, cplx=True, alias='triaxial', pec=True):
    c = c02.make_case(rng, shp, pec=pec, cplx=cplx, alias=alias)
    sx, sy, sz = c02.shapes_of(*shp)
    c['s'] = (qarr(sx, rng, cplx), qarr(sy, rng, cplx), qarr(sz, rng, cplx))
    return c


def op_line(op, c):
    nx, ny, nz = c['shape']
    parts = [c['hx'], c['hy'], c['hz'], *c['eta'], c['zeta'], *c['e'], *c['s']]
    return f"{op} {nx} {ny} {nz} | " + " | ".join(line(a) for a in parts)


def run_kernel_exact(core, k, c, nu):
    fn = exact_fn(core, KN[k])
    e = [a.copy() for a in c['e']]
    fn(*e, *c['s'], *c['eta'], c['zeta'], c['hx'], c['hy'], c['hz'], nu)
    return e


def c_lr_dir(lr, shp):
    """Independent statement of the two-cell rule: drop x/y/z from the set of
    line directions when that direction has two cells."""
    sets = {0: '', 1: 'x', 2: 'y', 3: 'z', 4: 'yz', 5: 'xz', 6: 'xy', 7: 'xyz'}
    d = ''.join(ch for ch, n in zip('xyz', shp) if ch in sets[lr] and n != 2)
    return d


def run_smoothing_exact(core, c, nu, lr):
    """What solver.smoothing does, with exact kernels: uses the *real*
    `_current_lr_dir` and the real dispatch by monkeypatching the kernels."""
    from emg3d import solver as S

    class G:
        pass

    class M:
        pass
    g = G()
    g.shape_cells = c['shape']
    g.h = [c['hx'], c['hy'], c['hz']]
    m = M()
    m.grid = g
    m.eta_x, m.eta_y, m.eta_z = c['eta']
    m.zeta = c['zeta']

    class F:
        pass
    sf, ef = F(), F()
    sf.fx, sf.fy, sf.fz = c['s']
    e = [a.copy() for a in c['e']]
    ef.fx, ef.fy, ef.fz = e
    saved = {n: getattr(core, n) for n in KN}
    called = []
    try:
        for k, n in enumerate(KN):
            def mk(k, n):
                fn = exact_fn(core, n)

                def f(*a):
                    called.append('gxyz'[k])
                    return fn(*a)
                return f
            setattr(core, n, mk(k, n))
        S.smoothing(m, sf, ef, nu, lr)
    finally:
        for n, f in saved.items():
            setattr(core, n, f)
    return e, ''.join(called)


def count_diff(got, exp):
    return sum(int(sum(a != b for a, b in zip(g.ravel(), m.ravel())))
               for g, m in zip(got, exp))


def suite_exact(ctx, core):
    rng = ctx.nprng('exact')
    shapes = [(3, 3, 3), (4, 3, 3), (3, 4, 3), (3, 3, 4), (2, 3, 4), (4, 2, 3),
              (3, 4, 2), (2, 2, 2), (2, 2, 3)]
    if ctx.thorough:
        shapes += [(4, 4, 3), (3, 4, 4), (4, 3, 4), (4, 4, 4), (5, 3, 3),
                   (3, 5, 3), (3, 3, 5), (2, 4, 4)]
    cases, lines = [], []
    t = 0
    for shp in shapes:
        for k in range(4):
            if k > 0 and shp[k-1] < 3:
                continue
            nus = (1, 2, 3, 4) if (ctx.thorough and max(shp) <= 3) else \
                ((1, 2) if (t % 3 == 0 or ctx.thorough) else (1 + t % 2,))
            for nu in nus:
                alias = ['iso', 'VTI', 'HTI', 'triaxial'][t % 4]
                c = make_case(rng, shp, cplx=bool(t % 5), alias=alias)
                cases.append((c, ('kernel', k), nu))
                lines.append(op_line(f"gs {k} {nu}", c))
            t += 1
    # sparse cases: zero source, the field non-zero on one or two interior
    # edges only (block right-hand sides that vanish exactly)
    for t2, shp in enumerate([(3, 3, 3), (4, 3, 3), (3, 3, 4), (2, 2, 2),
                              (3, 4, 3)]):
        for k in range(4):
            if k > 0 and shp[k-1] < 3:
                continue
            if not ctx.thorough and (t2 + k) % 2:
                continue
            c = make_case(rng, shp, cplx=True, alias='triaxial')
            zero = [np.full(a.shape, Q(0), dtype=object) for a in c['e']]
            masks = c02.interior_masks(shp)
            for _ in range(1 + (t2 + k) % 2):
                comp = int(rng.integers(0, 3))
                idx = np.argwhere(masks[comp])
                zero[comp][tuple(idx[int(rng.integers(0, len(idx)))])] = Q(1)
            c['e'] = tuple(zero)
            c['s'] = tuple(np.full(a.shape, Q(0), dtype=object)
                           for a in c['s'])
            c['alias'] = 'triaxial-sparse'
            nu = 1 + (t2 + k) % 2
            cases.append((c, ('kernel', k), nu))
            lines.append(op_line(f"gs {k} {nu}", c))
    # smoothing dispatch: all codes, incl. two-cell shapes
    for shp in [(3, 3, 3), (2, 3, 3), (3, 2, 3), (3, 3, 2), (2, 2, 3), (2, 3, 2),
                (3, 2, 2), (2, 2, 2)]:
        lrs = range(8) if (ctx.thorough or shp == (3, 3, 3)) else \
            [int(x) for x in rng.choice(8, 3, replace=False)]
        for lr in lrs:
            c = make_case(rng, shp, cplx=True)
            cases.append((c, ('smoothing', lr), 1))
            lines.append(op_line(f"smoothing {lr} 1", c))
    out = common.run_driver(lines, jobs=14)
    bad, fails, viol = [], 0, 0
    hist = {}
    for (c, what, nu), o in zip(cases, out):
        flag, rest = o.split(' | ', 1)
        exp = c02.parse_out(rest, c['shape'])
        try:
            if what[0] == 'kernel':
                got = run_kernel_exact(core, what[1], c, nu)
            else:
                got, called = run_smoothing_exact(core, c, nu, what[1])
                want = c_lr_dir(what[1], c['shape']) or 'g'
                if called != want:
                    ctx.violation(
                        'line-relaxation-dispatch',
                        f'smoothing(lr_dir={what[1]}) on shape {c["shape"]} '
                        f'called kernels "{called}", expected "{want}"',
                        {'shape': c['shape'], 'lr_dir': what[1]})
                    viol += 1
        except Exception as e:
            bad.append((c['shape'], what, nu, f'raised {type(e).__name__}: {e}'))
            continue
        if flag != 'ok':
            fails += 1
        nb = count_diff(got, exp)
        hist[str(what)] = hist.get(str(what), 0) + 1
        ctx.count(key=('exact', c['shape'], what, nu, c['alias']))
        if nb:
            bad.append((c['shape'], what, nu, f'{nb} entries differ'))
            # property oracle on this very case
            oracle_case(ctx, core, c, what, nu)
    ctx.cov['exact_cases'] = len(cases)
    ctx.cov['exact_histogram'] = hist
    ctx.cov['model_block_systems_unsolved'] = fails
    ctx.oblige('correspondence: smoother kernels (.py_func, exact) and '
               'solver.smoothing dispatch == Emg.runKernel / Emg.smoothing',
               'correspondence', not bad and not fails,
               f'{len(bad)} of {len(cases)} differ, {fails} model failures; '
               f'first: {bad[:2]}')
    ctx.samples.append({'smoother_case': str(cases[0][1:]),
                        'shape': cases[0][0]['shape'],
                        'model_output_head': out[0][:160]})
    return bad


def lean_amat(cases):
    """A e for (case, field) pairs via the Lean model/spec."""
    lines = []
    for c, e in cases:
        cc = dict(c, e=e)
        lines.append(c02.op_line('amat', cc))
    out = common.run_driver(lines, jobs=8)
    return [c02.parse_out(o, c['shape']) for o, (c, e) in zip(out, cases)]


def oracle_case(ctx, core, c, what, nu):
    """Evaluate the clauses of C03 on the real code for one configuration:
    build s := A e for a random PEC e (so e solves the system exactly) using
    the Lean operator, run the real smoother exactly, require e back; check
    boundary untouched and linearity."""
    rng = ctx.nprng(f'oracle-{c["shape"]}-{what}-{nu}')
    shp = c['shape']
    base = make_case(rng, shp, cplx=True, alias=c['alias'])
    for key in ('hx', 'hy', 'hz', 'eta', 'zeta'):
        base[key] = c[key]
    (Ae,) = lean_amat([(base, base['e'])])
    base['s'] = tuple(Ae)

    def run(cc):
        if what[0] == 'kernel':
            return run_kernel_exact(core, what[1], cc, nu)
        return run_smoothing_exact(core, cc, nu, what[1])[0]
    try:
        got = run(base)
    except Exception as e:
        ctx.violation('smoother-raises', f'{type(e).__name__}: {e}',
                      {'shape': shp, 'what': what, 'nu': nu})
        return True
    nb = count_diff(got, base['e'])
    if nb:
        ctx.violation(
            'exact-solution-moved',
            f'{what} nu={nu} on shape {shp} ({c["alias"]}): a field that '
            f'solves the system exactly is changed in {nb} entries',
            {'shape': shp, 'what': what, 'nu': nu, 'alias': c['alias'],
             'op_line': op_line('case', base)})
        return True
    # additive in (field, source): S(c + base) = S(c) + S(base), where
    # S(base) = base (just shown)
    got = run(c)
    c12 = dict(c, e=tuple(x + y for x, y in zip(c['e'], base['e'])),
               s=tuple(x + y for x, y in zip(c['s'], base['s'])))
    r12 = run(c12)
    if count_diff(r12, [x + y for x, y in zip(got, base['e'])]):
        ctx.violation(
            'not-linear',
            f'{what} nu={nu} on shape {shp} ({c["alias"]}): the smoother is '
            f'not additive in (field, source): S(u + v) != S(u) + S(v) for '
            f'the case at hand u and an exact solution v',
            {'shape': shp, 'what': what, 'nu': nu, 'alias': c['alias'],
             'op_line': op_line('case', c)})
        return True
    # boundary untouched / frame on the original (non-solution) case
    masks = c02.interior_masks(shp)
    for g, e0, mk in zip(got, c['e'], masks):
        neq = np.array([a != b for a, b in zip(g.ravel(), e0.ravel())]
                       ).reshape(g.shape)
        if (neq & ~mk).any():
            ctx.violation(
                'boundary-written',
                f'{what} nu={nu} on shape {shp}: tangential boundary entries '
                'were written', {'shape': shp, 'what': what, 'nu': nu})
            return True
    return False


def suite_oracle(ctx, core):
    """Property oracle on the real code, independent of the smoother model."""
    rng = ctx.nprng('oracle')
    n = 0
    todo = []
    for k in range(4):
        for nu in ((1, 2, 3) if ctx.thorough else (1 + k % 2,)):
            shp = [(3, 3, 3), (4, 3, 3), (3, 4, 3), (3, 3, 4)][k]
            todo.append((make_case(rng, shp, alias=['iso', 'VTI', 'HTI',
                                                    'triaxial'][(k+nu) % 4]),
                         ('kernel', k), nu))
    for lr in ([4, 7] if not ctx.thorough else range(8)):
        todo.append((make_case(rng, (3, 3, 3)), ('smoothing', lr), 1))
    nv = 0
    for c, what, nu in todo:
        nv += bool(oracle_case(ctx, core, c, what, nu))
        n += 1
        ctx.count(key=('oracle', c['shape'], what, nu))
    # last block solved + linearity for the point smoother and one line
    lin_bad = []
    for k in (0, 1 + int(rng.integers(0, 3))):
        shp = (3, 3, 3)
        c1, c2 = make_case(rng, shp), make_case(rng, shp)
        for key in ('hx', 'hy', 'hz', 'eta', 'zeta'):
            c2[key] = c1[key]
        c12 = dict(c1, e=tuple(a + b for a, b in zip(c1['e'], c2['e'])),
                   s=tuple(a + b for a, b in zip(c1['s'], c2['s'])))
        r1 = run_kernel_exact(core, k, c1, 2)
        r2 = run_kernel_exact(core, k, c2, 2)
        r12 = run_kernel_exact(core, k, c12, 2)
        if count_diff(r12, [a + b for a, b in zip(r1, r2)]):
            lin_bad.append(k)
            ctx.violation('not-linear', f'kernel {KN[k]} is not additive in '
                          '(field, source)', {'kernel': KN[k], 'shape': shp})
        # last block: backward sweep (nu=2) ends at node/line with smallest
        # indices; check all rows of that block with the Lean operator
        (A,) = lean_amat([(c1, tuple(r1))])
        rows = last_block_rows(k, shp)
        for comp, idx in rows:
            if A[comp][idx] != c1['s'][comp][idx]:
                ctx.violation(
                    'last-block-not-solved',
                    f'{KN[k]} nu=2 on {shp}: equation of edge '
                    f'{"xyz"[comp]}{idx} of the block relaxed last is not '
                    'satisfied', {'kernel': KN[k], 'shape': shp,
                                  'edge': ("xyz"[comp], idx)})
                break
        ctx.count(key=('oracle-lin', k))
    ctx.cov['oracle_cases'] = n + 2
    ctx.oblige('monitor: real smoothers (exact) leave exact solutions '
               'unchanged, keep the boundary, are additive, solve the last '
               'block', 'monitor', nv == 0 and not lin_bad, '')


def last_block_rows(k, shp):
    """Edges (component, index) of the block relaxed last by an even number of
    sweeps (ordering ends forward => last node/line has the largest indices)."""
    nx, ny, nz = shp
    # sweep 1: iback=1 (descending), sweep 2: iback=0 (ascending): last block
    # is at the largest interior indices.
    ix, iy, iz = nx-1, ny-1, nz-1
    if k == 0:
        return [(0, (ix-1, iy, iz)), (0, (ix, iy, iz)), (1, (ix, iy-1, iz)),
                (1, (ix, iy, iz)), (2, (ix, iy, iz-1)), (2, (ix, iy, iz))]
    if k == 1:
        return [(0, (i, iy, iz)) for i in range(nx)]
    if k == 2:
        return [(1, (ix, j, iz)) for j in range(ny)]
    return [(2, (ix, iy, kk)) for kk in range(nz)]


def suite_ldlt(ctx, core):
    rng = ctx.nprng('ldlt')
    solve = exact_fn(core, 'solve')
    ns = [1, 2, 3, 5, 6, 7, 8, 11, 16] + ([21, 26] if ctx.thorough else [])
    lines, exp = [], []
    for n in ns:
        for rep in range(2):
            am = qarr((6*n,), rng, bool(rep))
            if rep == 0:            # diagonally dominant: pivots cannot vanish
                for j in range(n):
                    am[6*j] = am[6*j] + Q(40 + j)
            b = qarr((n,), rng, True)
            # the system as it is, and scaled by 2^-80 / 2^+60 (cell sizes
            # fix no scale: the solver has to be invariant)
            from fractions import Fraction as Fr
            for sc_ in ([Fr(1)] if n > 8 else
                        [Fr(1), Fr(1, 2**80), Fr(2**60)]):
                ams = np.array([v*Q(sc_) for v in am], dtype=object)
                bs = np.array([v*Q(sc_) for v in b], dtype=object)
                lines.append(f"ldlt {n} | {line(ams)} | {line(bs)}")
                a2, b2 = ams.copy(), bs.copy()
                try:
                    solve(a2, b2)
                    exp.append(" ".join(fmt(v) for v in b2))
                except Exception as e:
                    exp.append(f'raised {type(e).__name__}')
                ctx.count(key=('ldlt', n, rep, str(sc_)))
    out = common.run_driver(lines, jobs=14)
    bad = []
    skipped = 0
    for ln, o, e in zip(lines, out, exp):
        flag, sol = o.split(' | ')
        if flag.startswith('zero-pivot'):
            skipped += 1        # outside the solver's documented precondition
            continue
        if sol != e:
            bad.append((ln.split()[1], 'code != model'))
            if 'Ax=b' in flag and 'pivots-ok' in flag:
                # the model's solution is the exact one: the code's is not
                ctx.violation(
                    'banded-solver-inexact',
                    f'core.solve on a banded system with n={ln.split()[1]} '
                    'does not return the exact solution',
                    {'op_line': ln, 'code_solution': e})
        if flag != 'pivots-ok Ax=b':
            bad.append((ln.split()[1], flag))
    ctx.cov['ldlt_cases'] = len(lines)
    ctx.cov['ldlt_cases_skipped_zero_pivot'] = skipped
    ctx.oblige('correspondence: core.solve.py_func (exact) == LdltM.solve; '
               'model-side check A x = b; pivots non-zero', 'correspondence',
               not bad, str(bad[:3]))
    return bad


def suite_jit(ctx, core):
    """Compiled kernels vs the same Python source in float64 (identical
    algorithm; only fastmath re-association differs)."""
    rng = ctx.nprng('jit')
    bad = []
    for k in range(4):
        for rep in range(3 if ctx.thorough else 1):
            shp = tuple(int(x) for x in rng.integers(3, 7, 3))
            h = [rng.uniform(0.5, 2.0, n) for n in shp]
            sx, sy, sz = c02.shapes_of(*shp)
            cplx = bool((k + rep) % 2)

            def rnd(s):
                a = rng.standard_normal(s)
                return a + 1j*rng.standard_normal(s) if cplx else a
            e = [np.asfortranarray(rnd(s)) for s in (sx, sy, sz)]
            s_ = [np.asfortranarray(rnd(s)) for s in (sx, sy, sz)]
            eta = [np.asfortranarray(-(3 + rng.uniform(0, 1, shp)) *
                                     (1j if cplx else 1.0)) for _ in range(3)]
            zeta = np.asfortranarray(rng.uniform(0.5, 2.0, shp))
            nu = 1 + (k + rep) % 3
            e1 = [a.copy() for a in e]
            e2 = [a.copy() for a in e]
            getattr(core, KN[k])(*e1, *s_, *eta, zeta, *h, nu)
            getattr(core, KN[k]).py_func(*e2, *s_, *eta, zeta, *h, nu)
            scale = max(np.abs(a).max() for a in e2)
            err = max(np.abs(a - b).max() for a, b in zip(e1, e2))
            if not err <= 1e-10*scale:
                bad.append((KN[k], shp, nu, err, scale))
            # the relaxation is invariant under a common scaling of the
            # system (coefficients and source) by a power of two
            for p2 in (-90, 70):
                e3 = [a.copy() for a in e]
                f_ = 2.0**p2
                getattr(core, KN[k])(*e3, *[a*f_ for a in s_],
                                     *[a*f_ for a in eta], zeta*f_, *h, nu)
                if not all(np.array_equal(a, b) for a, b in zip(e3, e1)):
                    bad.append((KN[k], shp, nu, 'scaling', p2))
                    ctx.violation(
                        'smoother-not-scale-invariant',
                        f'{KN[k]} (compiled) on shape {shp}, nu={nu}: scaling '
                        f'source, eta and zeta by 2^{p2} changes the relaxed '
                        f'field (max |diff| '
                        f'{max(float(np.abs(a-b).max()) for a, b in zip(e3, e1)):.3g})',
                        {'kernel': KN[k], 'shape': list(shp), 'power': p2})
                    break
            ctx.count(key=('jit', k, shp, nu))
    # the compiled banded solver is invariant under scaling by powers of two
    # (exact in binary floating point): tiny and huge systems
    for n in (1, 3, 6, 9):
        for cplx in (False, True):
            am = rng.standard_normal(6*n) + (1j*rng.standard_normal(6*n)
                                             if cplx else 0)
            am[::6] += 8.0
            bv = rng.standard_normal(n) + (1j*rng.standard_normal(n)
                                           if cplx else 0)
            ref = bv.copy()
            core.solve(am.copy(), ref)
            for p2 in (-80, -40, 60):
                x = bv*2.0**p2
                core.solve(am*2.0**p2, x)
                if not np.array_equal(x, ref):
                    bad.append(('solve not scale invariant', n, p2,
                                float(np.max(np.abs(x-ref)))))
                    ctx.violation(
                        'banded-solver-inexact',
                        f'core.solve (compiled, n={n}): the solution of the '
                        f'system scaled by 2^{p2} differs from the solution '
                        f'of the system itself by '
                        f'{float(np.max(np.abs(x-ref))):.3g} (scaling by a '
                        f'power of two is exact)', {'n': n, 'power': p2})
                    break
            ctx.count(key=('solve-scale', n, cplx))
    ctx.oblige('correspondence: compiled smoothers == their Python source '
               '(float64) within 1e-10 relative; compiled core.solve '
               'invariant under power-of-two scaling', 'correspondence',
               not bad, str(bad[:2]))
    return bad


# --------------------------------------------------------------------------
# The complete multigrid call: solver.multigrid vs Emg.mgRun
# --------------------------------------------------------------------------

def dyq(rng, shape, cplx=True, positive=False):
    """Exact array of small dyadic numbers (exactly representable floats)."""
    from fractions import Fraction as Fr
    a = np.empty(shape, dtype=object)
    for idx in np.ndindex(*shape):
        d = int(rng.choice([1, 2, 4]))
        if positive:
            a[idx] = Q(Fr(int(rng.integers(1, 9)), d), Fr(0))
        else:
            a[idx] = Q(Fr(int(rng.integers(-8, 9)), d),
                       Fr(int(rng.integers(-8, 9)), d) if cplx else Fr(0))
    return a


def set_pec(ex, ey, ez):
    z = Q(0)
    ex[:, 0, :] = z; ex[:, -1, :] = z; ex[:, :, 0] = z; ex[:, :, -1] = z
    ey[0, :, :] = z; ey[-1, :, :] = z; ey[:, :, 0] = z; ey[:, :, -1] = z
    ez[0, :, :] = z; ez[-1, :, :] = z; ez[:, 0, :] = z; ez[:, -1, :] = z


def cycle_case(rng, shp, alias, cplx=True):
    """Grid, coefficients (eta with negative real and imaginary parts, like
    -s mu0 sigma vol), PEC field and PEC source; all dyadic."""
    from fractions import Fraction as Fr
    sx, sy, sz = c02.shapes_of(*shp)
    e = [dyq(rng, s_, cplx) for s_ in (sx, sy, sz)]
    set_pec(*e)
    src = [dyq(rng, s_, cplx) for s_ in (sx, sy, sz)]
    set_pec(*src)

    def eta():
        a = np.empty(shp, dtype=object)
        for idx in np.ndindex(*shp):
            a[idx] = Q(-Fr(int(rng.integers(1, 9)), 2),
                       -Fr(int(rng.integers(1, 9)), 2) if cplx else Fr(0))
        return a
    etax = eta()
    etay = eta() if alias in ('HTI', 'triaxial') else etax
    etaz = eta() if alias in ('VTI', 'triaxial') else etax
    return dict(shape=shp, hx=dyq(rng, (shp[0],), positive=True),
                hy=dyq(rng, (shp[1],), positive=True),
                hz=dyq(rng, (shp[2],), positive=True),
                eta=(etax, etay, etaz), zeta=dyq(rng, shp, positive=True),
                e=tuple(e), s=tuple(src), alias=alias, cplx=cplx)


def real_multigrid(c, cfg):
    """`emg3d.solver.multigrid` itself, in float64, on the case's numbers."""
    import types
    import emg3d
    from emg3d import solver as S
    cplx = c['cplx']

    def arr(a):
        v = to_complex(a)
        return v if cplx else v.real.copy()
    grid = emg3d.TensorMesh([to_complex(c[k]).real for k in
                             ('hx', 'hy', 'hz')], (0, 0, 0))
    etas = [arr(a) for a in c['eta']]
    vm = types.SimpleNamespace(
        case=c['alias'], grid=grid, eta_x=etas[0],
        eta_y=etas[1] if c['eta'][1] is not c['eta'][0] else etas[0],
        eta_z=etas[2] if c['eta'][2] is not c['eta'][0] else etas[0],
        zeta=to_complex(c['zeta']).real.copy())
    freq = 1.0 if cplx else -1.0
    sf = emg3d.Field(grid, frequency=freq)
    ef = emg3d.Field(grid, frequency=freq)
    for f, src in ((sf, c['s']), (ef, c['e'])):
        f.fx[...] = arr(src[0])
        f.fy[...] = arr(src[1])
        f.fz[...] = arr(src[2])
    nus = cfg['nus']
    var = S.MGParameters(
        cycle=cfg['cycle'], sslsolver=False, semicoarsening=cfg['sc'],
        linerelaxation=cfg['lr'], shape_cells=grid.shape_cells, verb=-1,
        maxit=cfg['ncyc'], tol=1e-300, nu_init=nus[0], nu_pre=nus[1],
        nu_coarse=nus[2], nu_post=nus[3], clevel=cfg['clevel'])
    var.l2_refe = float(np.linalg.norm(sf.field)) or 1.0
    with warnings.catch_warnings():
        warnings.simplefilter('ignore')
        S.multigrid(vm, sf, ef, var)
    return ef.field.copy(), var.it


def cycle_line(c, cfg):
    from harness import c05
    shp = c['shape']
    scp = ''.join(map(str, c05.digits_of(cfg['sc'], [1, 2, 3])))
    lrp = ''.join(map(str, c05.digits_of(cfg['lr'], [4, 5, 6])))
    nus = cfg['nus']
    head = (f"mgrun {cfg['cycle']} {shp[0]} {shp[1]} {shp[2]} "
            f"{cfg['clevel']} {scp} {lrp} {nus[0]} {nus[1]} {nus[2]} {nus[3]} "
            f"{cfg['ncyc']} 0")
    parts = [c['hx'], c['hy'], c['hz'], *c['eta'], c['zeta'], *c['e'],
             *c['s']]
    return head + " | " + " | ".join(line(a) for a in parts)


def parse_field(out):
    secs = out.split(' | ')
    if secs[0] not in ('ok', 'fail'):
        return secs[0], None
    return secs[0], [[parse(w) for w in s_.split()] for s_ in secs[1:]]


def suite_cycle(ctx, core):
    from harness import c05
    rng = ctx.nprng('cycle')
    n = 14 if ctx.thorough else 6
    cases = []
    for t in range(n):
        big = ctx.thorough and t % 4 == 3
        pool = [2, 3, 4, 4, 6] if big else [2, 3, 3, 4, 4]
        shp = tuple(int(rng.choice(pool)) for _ in range(3))
        if big and sorted(shp)[1] > 4:
            shp = (shp[0], 4, 4)
        cfg = c05.gen_cfg(rng, 8, True)
        cfg['shape'] = list(shp)
        cfg['ncyc'] = 2 if (ctx.thorough and t % 5 == 0) else 1
        if not big:
            cfg['nus'] = [min(v, 1 + (t % 2)) for v in cfg['nus']]
        if sum(cfg['nus'][1:]) == 0:
            cfg['nus'][2] = 1
        alias = ['isotropic', 'HTI', 'VTI', 'triaxial'][t % 4]
        c = cycle_case(rng, shp, alias, cplx=(t % 5 != 4))
        fixed = t % 2 == 1
        if fixed:
            # exact solution: s := A e on the interior edges, zero elsewhere
            Ae = c02.run_py(core, c)
            masks = c02.interior_masks(shp)
            c['s'] = tuple(np.where(mk, a, Q(0)) for a, mk in zip(Ae, masks))
        cases.append((c, cfg, fixed))
    # the real solver first: the number of cycles it actually runs (it stops
    # early on divergence / stagnation) is an input of the model (as in C05)
    reals = []
    for c, cfg, _ in cases:
        got_it = real_multigrid(c, cfg)
        cfg['ncyc_asked'] = cfg['ncyc']
        cfg['ncyc'] = max(1, int(got_it[1]))
        reals.append(got_it)
    outs = common.run_driver([cycle_line(c, cfg) for c, cfg, _ in cases],
                             timeout=1500, jobs=min(8, len(cases)))
    bad, singular = [], 0
    worst = 0.0
    for (c, cfg, fixed), out, (got, it) in zip(cases, outs, reals):
        tag = (c['shape'], cfg['cycle'], cfg['sc'], cfg['lr'], cfg['clevel'],
               tuple(cfg['nus']), cfg['ncyc'], c['alias'], c['cplx'], fixed)
        flag, fld = parse_field(out)
        if fld is None:
            bad.append(('model', tag, out[:80]))
            continue
        if flag == 'fail':
            singular += 1
            continue
        exp = np.array([complex(v) for comp in fld for v in comp])
        scale = max(float(np.max(np.abs(exp))), 1e-300)
        d = float(np.max(np.abs(got-exp)))/scale
        worst = max(worst, d)
        if it < 1 or it > cfg['ncyc_asked'] or not d <= 1e-9:
            bad.append(('cycle', tag, d, it))
        if fixed:
            e0 = np.concatenate([np.array([v for v in a.ravel('F')],
                                          dtype=object) for a in c['e']])
            # the model returns the exact solution exactly (theorem
            # `mgRun_fixed`, executed: its hypotheses are met by this case)
            if [v for comp in fld for v in comp] != list(e0):
                bad.append(('model moved an exact solution', tag))
            ref = np.array([complex(v) for v in e0])
            dm = float(np.max(np.abs(got-ref)))/max(
                float(np.max(np.abs(ref))), 1e-300)
            if not dm <= 1e-9:
                ctx.violation(
                    'exact-solution-moved-by-cycle',
                    f'solver.multigrid {tag}: started from the exact solution '
                    f'of its system, the field returned differs from it by '
                    f'{dm:.3g} (relative)',
                    {'shape': list(c['shape']), 'cfg': {k: (v if not isinstance(
                        v, (np.integer,)) else int(v)) for k, v in cfg.items()},
                     'alias': c['alias']})
        ctx.count(key=('cycle', tag))
    ctx.cov['cycle_cases'] = len(cases)
    ctx.cov['cycle_singular_skipped'] = singular
    ctx.cov['cycle_worst_rel_diff'] = worst
    ctx.oblige('correspondence: solver.multigrid (float64; V/W/F, all '
               'semicoarsening / line-relaxation settings, smoothing counts, '
               'anisotropy cases, Laplace and frequency domain) == Emg.mgRun '
               '(exact), to 1e-9; exact solutions come back unchanged from '
               'both', 'correspondence', not bad, str(bad[:2])[:500])
    return bad


def suite_phys(ctx):
    """The hypothesis `Phys` of the unconditional theorems, on the real
    coefficients: `VolumeModel` (all mappings, anisotropy cases, mu_r,
    epsilon_r; frequency and Laplace domain) and the coarse models of
    `solver.restriction`."""
    import emg3d
    from emg3d import solver as S
    rng = ctx.nprng('phys')
    bad = []
    maps_ = ['Conductivity', 'LgConductivity', 'LnConductivity',
             'Resistivity', 'LgResistivity', 'LnResistivity']
    n = 24 if ctx.thorough else 8
    for t in range(n):
        shp = tuple(int(rng.choice([2, 4, 6, 8])) for _ in range(3))
        hs = [rng.uniform(0.5, 50.0, k) for k in shp]
        grid = emg3d.TensorMesh(hs, origin=tuple(rng.uniform(-100, 100, 3)))
        mp = getattr(emg3d.maps, 'Map' + maps_[t % 6])()
        case = ['isotropic', 'HTI', 'VTI', 'triaxial'][t % 4]
        props = {'property_x': mp.forward(10**rng.uniform(-4, 3, shp))}
        if case in ('HTI', 'triaxial'):
            props['property_y'] = mp.forward(10**rng.uniform(-4, 3, shp))
        if case in ('VTI', 'triaxial'):
            props['property_z'] = mp.forward(10**rng.uniform(-4, 3, shp))
        if t % 2:
            props['mu_r'] = 10**rng.uniform(-1, 2, shp)
        if t % 3 == 0:
            props['epsilon_r'] = 10**rng.uniform(0, 2, shp)
        model = emg3d.Model(grid, mapping=maps_[t % 6], **props)
        freq = float(10**rng.uniform(-3, 6))
        laplace = t % 4 == 3
        sf = emg3d.Field(grid, frequency=-freq if laplace else freq)
        vm = emg3d.models.VolumeModel(model, sf)
        levels = [('fine', vm)]
        res = emg3d.Field(grid, frequency=sf._frequency)
        for sc in (0, int(rng.integers(1, 7))):
            try:
                cm = S.restriction(vm, sf, res, S._current_sc_dir(sc, grid))[0]
                levels.append((f'coarse sc={sc}', cm))
            except Exception:     # noqa  (nothing to coarsen)
                pass
        for name, m_ in levels:
            ok = all(np.all(h > 0) for h in m_.grid.h)
            z = np.asarray(m_.zeta)
            ok &= bool(np.all(np.isreal(z)) and np.all(np.real(z) > 0))
            for comp in ('eta_x', 'eta_y', 'eta_z'):
                e_ = np.asarray(getattr(m_, comp))
                if laplace:
                    ok &= bool(np.all(np.imag(e_) == 0) and np.all(
                        np.real(e_) < 0))
                else:
                    ok &= bool(np.all(np.imag(e_) < 0))
            if not ok:
                bad.append((name, maps_[t % 6], case, laplace, freq))
        ctx.count(key=('phys', t, maps_[t % 6], case, laplace))
    ctx.oblige('monitor: the coefficients the solver works with satisfy the '
               'hypothesis Phys of the unconditional theorems (positive '
               'widths; zeta real > 0; Im eta < 0 in the frequency domain, '
               'eta real < 0 in the Laplace domain), on the fine grid and '
               'after solver.restriction', 'monitor', not bad, str(bad[:3]))
    return bad


def run(ctx):
    from emg3d import core
    ctx.lean('Emg3dVerif.Props.Coercive', THEOREMS)
    ctx.assumptions += [
        'BlockInj (non-singular block systems) is a hypothesis of the '
        'generic fixed-point and linearity theorems; it is PROVED for '
        'physical models over the complex numbers (allInj_phys: real widths, '
        'zeta >= 0, eta in an open half-plane - frequency or Laplace domain), '
        'the class being closed under coarsening (Phys.coarse); the model '
        'also reports per case that every block system was solved and '
        'verified; non-zero pivots of the pivot-free LDL^T remain a '
        'hypothesis of solveBanded_exact',
        'growth of rounding error in the pivot-free LDL^T is not covered',
    ]
    with warnings.catch_warnings():
        warnings.simplefilter('ignore')
        bad = suite_exact(ctx, core)
        bad_l = suite_ldlt(ctx, core)
        bad_j = suite_jit(ctx, core)
        suite_oracle(ctx, core)
        bad_c = suite_cycle(ctx, core)
        suite_phys(ctx)
    if (bad or bad_l or bad_j or bad_c) and not ctx.violations:
        what = (bad[:1] or bad_l[:1] or bad_j[:1] or bad_c[:1])
        ctx.violation(
            'model-correspondence-broken',
            'the smoothers / the multigrid call no longer compute the function of the Lean model '
            f'({str(what)[:300]}), but fixed point / boundary / linearity / '
            'last-block clauses still hold on every configuration tried',
            {'correspondence': 'smoothers', 'first': str(what)[:600]},
            found_input=False)


def replay(ctx, rp):
    from emg3d import core
    r = rp['replay']
    if 'shape' not in r or 'what' not in r:
        print('replay: no input recorded:', rp['what'])
        return 1
    rng = ctx.nprng('replay')
    c = make_case(rng, tuple(r['shape']), alias=r.get('alias', 'triaxial'))
    bad = oracle_case(ctx, core, c, tuple(r['what']), r['nu'])
    print('replay:', 'violated' if bad else 'holds on a fresh case of this '
          'configuration')
    return 1 if bad else 0
