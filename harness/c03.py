"""C03 — every smoother is a consistent relaxation of the same linear system.

Suites
  exact   : the Python source of `gauss_seidel`, `gauss_seidel_x/_y/_z`, run on
            exact Gaussian rationals, must equal the Lean model `Emg.runKernel`
            (block Gauss-Seidel of the operator `amat`, block systems built from
            the operator and solved exactly) entry by entry; `solver.smoothing`
            dispatch (all codes 0..7, two-cell adaptation) vs `Emg.smoothing`.
  ldlt    : `core.solve.py_func` exact vs `LdltM.solve`, plus A x = b evaluated
            by the model (spec) and non-zero pivots.
  jit     : compiled kernels vs their own source run in float64.
  oracle  : (property, on the real code) exact fixed point, last block solved,
            linearity, boundary untouched — evaluated with the Lean operator.
"""
import warnings

import numpy as np

from harness import common, c02
from harness.exactnum import (Q, exact_fn, qarr, line, parse, fmt, to_complex)

THEOREMS = [
    'Emg.relaxBlock_solves', 'Emg.relaxBlock_fixed', 'Emg.relaxBlock_frame',
    'Emg.relaxBlock_add', 'Emg.relaxBlock_smul', 'Emg.block_unique',
    'Emg.relaxAll_last_solved', 'Emg.relaxAll_fixed', 'Emg.relaxAll_add',
    'Emg.relaxAll_smul', 'Emg.kernelBlocks_interior',
    'Emg.smoothingBlocks_interior',
    'Emg.kernel_keeps_boundary', 'Emg.smoothing_keeps_boundary',
    'Emg.kernel_fixed_point', 'Emg.smoother_fixed_point',
    'Emg.smoother_last_block_solved', 'Emg.kernel_last_block_solved',
    'Emg.smoother_add', 'Emg.smoother_smul', 'Emg.kernel_add',
    'Emg.smoothing_no_two_cell_line',
    'Emg.matEF_eq', 'Emg.mat3_eq',
    'Emg.Ldlt.solve_exact', 'Emg.Ldlt.model_solve_exact',
    'Emg.solveBanded_exact',
]

KN = ['gauss_seidel', 'gauss_seidel_x', 'gauss_seidel_y', 'gauss_seidel_z']


def make_case(rng, shp, cplx=True, alias='triaxial', pec=True):
    c = c02.make_case(rng, shp, pec=pec, cplx=cplx, alias=alias)
    sx, sy, sz = c02.shapes_of(*shp)
    c['s'] = (qarr(sx, rng, cplx), qarr(sy, rng, cplx), qarr(sz, rng, cplx))
    return c


def op_line(op, c):
    nx, ny, nz = c['shape']
    parts = [c['hx'], c['hy'], c['hz'], *c['eta'], c['zeta'], *c['e'], *c['s']]
    return f"{op} {nx} {ny} {nz} | " + " | ".join(line(a) for a in parts)


def run_kernel_exact(core, k, c, nu):
    fn = exact_fn(core, KN[k])
    e = [a.copy() for a in c['e']]
    fn(*e, *c['s'], *c['eta'], c['zeta'], c['hx'], c['hy'], c['hz'], nu)
    return e


def c_lr_dir(lr, shp):
    """Independent statement of the two-cell rule: drop x/y/z from the set of
    line directions when that direction has two cells."""
    sets = {0: '', 1: 'x', 2: 'y', 3: 'z', 4: 'yz', 5: 'xz', 6: 'xy', 7: 'xyz'}
    d = ''.join(ch for ch, n in zip('xyz', shp) if ch in sets[lr] and n != 2)
    return d


def run_smoothing_exact(core, c, nu, lr):
    """What solver.smoothing does, with exact kernels: uses the *real*
    `_current_lr_dir` and the real dispatch by monkeypatching the kernels."""
    from emg3d import solver as S

    class G:
        pass

    class M:
        pass
    g = G()
    g.shape_cells = c['shape']
    g.h = [c['hx'], c['hy'], c['hz']]
    m = M()
    m.grid = g
    m.eta_x, m.eta_y, m.eta_z = c['eta']
    m.zeta = c['zeta']

    class F:
        pass
    sf, ef = F(), F()
    sf.fx, sf.fy, sf.fz = c['s']
    e = [a.copy() for a in c['e']]
    ef.fx, ef.fy, ef.fz = e
    saved = {n: getattr(core, n) for n in KN}
    called = []
    try:
        for k, n in enumerate(KN):
            def mk(k, n):
                fn = exact_fn(core, n)

                def f(*a):
                    called.append('gxyz'[k])
                    return fn(*a)
                return f
            setattr(core, n, mk(k, n))
        S.smoothing(m, sf, ef, nu, lr)
    finally:
        for n, f in saved.items():
            setattr(core, n, f)
    return e, ''.join(called)


def count_diff(got, exp):
    return sum(int(sum(a != b for a, b in zip(g.ravel(), m.ravel())))
               for g, m in zip(got, exp))


def suite_exact(ctx, core):
    rng = ctx.nprng('exact')
    shapes = [(3, 3, 3), (4, 3, 3), (3, 4, 3), (3, 3, 4), (2, 3, 4), (4, 2, 3),
              (3, 4, 2), (2, 2, 2), (2, 2, 3)]
    if ctx.thorough:
        shapes += [(4, 4, 3), (3, 4, 4), (4, 3, 4), (4, 4, 4), (5, 3, 3),
                   (3, 5, 3), (3, 3, 5), (2, 4, 4)]
    cases, lines = [], []
    t = 0
    for shp in shapes:
        for k in range(4):
            if k > 0 and shp[k-1] < 3:
                continue
            nus = (1, 2, 3, 4) if (ctx.thorough and max(shp) <= 3) else \
                ((1, 2) if (t % 3 == 0 or ctx.thorough) else (1 + t % 2,))
            for nu in nus:
                alias = ['iso', 'VTI', 'HTI', 'triaxial'][t % 4]
                c = make_case(rng, shp, cplx=bool(t % 5), alias=alias)
                cases.append((c, ('kernel', k), nu))
                lines.append(op_line(f"gs {k} {nu}", c))
            t += 1
    # smoothing dispatch: all codes, incl. two-cell shapes
    for shp in [(3, 3, 3), (2, 3, 3), (3, 2, 3), (3, 3, 2), (2, 2, 3), (2, 3, 2),
                (3, 2, 2), (2, 2, 2)]:
        lrs = range(8) if (ctx.thorough or shp == (3, 3, 3)) else \
            [int(x) for x in rng.choice(8, 3, replace=False)]
        for lr in lrs:
            c = make_case(rng, shp, cplx=True)
            cases.append((c, ('smoothing', lr), 1))
            lines.append(op_line(f"smoothing {lr} 1", c))
    out = common.run_driver(lines, jobs=14)
    bad, fails, viol = [], 0, 0
    hist = {}
    for (c, what, nu), o in zip(cases, out):
        flag, rest = o.split(' | ', 1)
        exp = c02.parse_out(rest, c['shape'])
        try:
            if what[0] == 'kernel':
                got = run_kernel_exact(core, what[1], c, nu)
            else:
                got, called = run_smoothing_exact(core, c, nu, what[1])
                want = c_lr_dir(what[1], c['shape']) or 'g'
                if called != want:
                    ctx.violation(
                        'line-relaxation-dispatch',
                        f'smoothing(lr_dir={what[1]}) on shape {c["shape"]} '
                        f'called kernels "{called}", expected "{want}"',
                        {'shape': c['shape'], 'lr_dir': what[1]})
                    viol += 1
        except Exception as e:
            bad.append((c['shape'], what, nu, f'raised {type(e).__name__}: {e}'))
            continue
        if flag != 'ok':
            fails += 1
        nb = count_diff(got, exp)
        hist[str(what)] = hist.get(str(what), 0) + 1
        ctx.count(key=('exact', c['shape'], what, nu, c['alias']))
        if nb:
            bad.append((c['shape'], what, nu, f'{nb} entries differ'))
            # property oracle on this very case
            oracle_case(ctx, core, c, what, nu)
    ctx.cov['exact_cases'] = len(cases)
    ctx.cov['exact_histogram'] = hist
    ctx.cov['model_block_systems_unsolved'] = fails
    ctx.oblige('correspondence: smoother kernels (.py_func, exact) and '
               'solver.smoothing dispatch == Emg.runKernel / Emg.smoothing',
               'correspondence', not bad and not fails,
               f'{len(bad)} of {len(cases)} differ, {fails} model failures; '
               f'first: {bad[:2]}')
    ctx.samples.append({'smoother_case': str(cases[0][1:]),
                        'shape': cases[0][0]['shape'],
                        'model_output_head': out[0][:160]})
    return bad


def lean_amat(cases):
    """A e for (case, field) pairs via the Lean model/spec."""
    lines = []
    for c, e in cases:
        cc = dict(c, e=e)
        lines.append(c02.op_line('amat', cc))
    out = common.run_driver(lines, jobs=8)
    return [c02.parse_out(o, c['shape']) for o, (c, e) in zip(out, cases)]


def oracle_case(ctx, core, c, what, nu):
    """Evaluate the clauses of C03 on the real code for one configuration:
    build s := A e for a random PEC e (so e solves the system exactly) using
    the Lean operator, run the real smoother exactly, require e back; check
    boundary untouched and linearity."""
    rng = ctx.nprng(f'oracle-{c["shape"]}-{what}-{nu}')
    shp = c['shape']
    base = make_case(rng, shp, cplx=True, alias=c['alias'])
    for key in ('hx', 'hy', 'hz', 'eta', 'zeta'):
        base[key] = c[key]
    (Ae,) = lean_amat([(base, base['e'])])
    base['s'] = tuple(Ae)

    def run(cc):
        if what[0] == 'kernel':
            return run_kernel_exact(core, what[1], cc, nu)
        return run_smoothing_exact(core, cc, nu, what[1])[0]
    try:
        got = run(base)
    except Exception as e:
        ctx.violation('smoother-raises', f'{type(e).__name__}: {e}',
                      {'shape': shp, 'what': what, 'nu': nu})
        return True
    nb = count_diff(got, base['e'])
    if nb:
        ctx.violation(
            'exact-solution-moved',
            f'{what} nu={nu} on shape {shp} ({c["alias"]}): a field that '
            f'solves the system exactly is changed in {nb} entries',
            {'shape': shp, 'what': what, 'nu': nu, 'alias': c['alias'],
             'op_line': op_line('case', base)})
        return True
    # boundary untouched / frame on the original (non-solution) case
    got = run(c)
    masks = c02.interior_masks(shp)
    for g, e0, mk in zip(got, c['e'], masks):
        neq = np.array([a != b for a, b in zip(g.ravel(), e0.ravel())]
                       ).reshape(g.shape)
        if (neq & ~mk).any():
            ctx.violation(
                'boundary-written',
                f'{what} nu={nu} on shape {shp}: tangential boundary entries '
                'were written', {'shape': shp, 'what': what, 'nu': nu})
            return True
    return False


def suite_oracle(ctx, core):
    """Property oracle on the real code, independent of the smoother model."""
    rng = ctx.nprng('oracle')
    n = 0
    todo = []
    for k in range(4):
        for nu in ((1, 2, 3) if ctx.thorough else (1 + k % 2,)):
            shp = [(3, 3, 3), (4, 3, 3), (3, 4, 3), (3, 3, 4)][k]
            todo.append((make_case(rng, shp, alias=['iso', 'VTI', 'HTI',
                                                    'triaxial'][(k+nu) % 4]),
                         ('kernel', k), nu))
    for lr in ([4, 7] if not ctx.thorough else range(8)):
        todo.append((make_case(rng, (3, 3, 3)), ('smoothing', lr), 1))
    nv = 0
    for c, what, nu in todo:
        nv += bool(oracle_case(ctx, core, c, what, nu))
        n += 1
        ctx.count(key=('oracle', c['shape'], what, nu))
    # last block solved + linearity for the point smoother and one line
    lin_bad = []
    for k in (0, 1 + int(rng.integers(0, 3))):
        shp = (3, 3, 3)
        c1, c2 = make_case(rng, shp), make_case(rng, shp)
        for key in ('hx', 'hy', 'hz', 'eta', 'zeta'):
            c2[key] = c1[key]
        c12 = dict(c1, e=tuple(a + b for a, b in zip(c1['e'], c2['e'])),
                   s=tuple(a + b for a, b in zip(c1['s'], c2['s'])))
        r1 = run_kernel_exact(core, k, c1, 2)
        r2 = run_kernel_exact(core, k, c2, 2)
        r12 = run_kernel_exact(core, k, c12, 2)
        if count_diff(r12, [a + b for a, b in zip(r1, r2)]):
            lin_bad.append(k)
            ctx.violation('not-linear', f'kernel {KN[k]} is not additive in '
                          '(field, source)', {'kernel': KN[k], 'shape': shp})
        # last block: backward sweep (nu=2) ends at node/line with smallest
        # indices; check all rows of that block with the Lean operator
        (A,) = lean_amat([(c1, tuple(r1))])
        rows = last_block_rows(k, shp)
        for comp, idx in rows:
            if A[comp][idx] != c1['s'][comp][idx]:
                ctx.violation(
                    'last-block-not-solved',
                    f'{KN[k]} nu=2 on {shp}: equation of edge '
                    f'{"xyz"[comp]}{idx} of the block relaxed last is not '
                    'satisfied', {'kernel': KN[k], 'shape': shp,
                                  'edge': ("xyz"[comp], idx)})
                break
        ctx.count(key=('oracle-lin', k))
    ctx.cov['oracle_cases'] = n + 2
    ctx.oblige('monitor: real smoothers (exact) leave exact solutions '
               'unchanged, keep the boundary, are additive, solve the last '
               'block', 'monitor', nv == 0 and not lin_bad, '')


def last_block_rows(k, shp):
    """Edges (component, index) of the block relaxed last by an even number of
    sweeps (ordering ends forward => last node/line has the largest indices)."""
    nx, ny, nz = shp
    # sweep 1: iback=1 (descending), sweep 2: iback=0 (ascending): last block
    # is at the largest interior indices.
    ix, iy, iz = nx-1, ny-1, nz-1
    if k == 0:
        return [(0, (ix-1, iy, iz)), (0, (ix, iy, iz)), (1, (ix, iy-1, iz)),
                (1, (ix, iy, iz)), (2, (ix, iy, iz-1)), (2, (ix, iy, iz))]
    if k == 1:
        return [(0, (i, iy, iz)) for i in range(nx)]
    if k == 2:
        return [(1, (ix, j, iz)) for j in range(ny)]
    return [(2, (ix, iy, kk)) for kk in range(nz)]


def suite_ldlt(ctx, core):
    rng = ctx.nprng('ldlt')
    solve = exact_fn(core, 'solve')
    ns = [1, 2, 3, 5, 6, 7, 8, 11, 16] + ([21, 26] if ctx.thorough else [])
    lines, exp = [], []
    for n in ns:
        for rep in range(2):
            am = qarr((6*n,), rng, bool(rep))
            if rep == 0:            # diagonally dominant: pivots cannot vanish
                for j in range(n):
                    am[6*j] = am[6*j] + Q(40 + j)
            b = qarr((n,), rng, True)
            lines.append(f"ldlt {n} | {line(am)} | {line(b)}")
            a2, b2 = am.copy(), b.copy()
            try:
                solve(a2, b2)
                exp.append(" ".join(fmt(v) for v in b2))
            except Exception as e:
                exp.append(f'raised {type(e).__name__}')
            ctx.count(key=('ldlt', n, rep))
    out = common.run_driver(lines, jobs=14)
    bad = []
    skipped = 0
    for ln, o, e in zip(lines, out, exp):
        flag, sol = o.split(' | ')
        if flag.startswith('zero-pivot'):
            skipped += 1        # outside the solver's documented precondition
            continue
        if sol != e:
            bad.append((ln.split()[1], 'code != model'))
            if 'Ax=b' in flag and 'pivots-ok' in flag:
                # the model's solution is the exact one: the code's is not
                ctx.violation(
                    'banded-solver-inexact',
                    f'core.solve on a banded system with n={ln.split()[1]} '
                    'does not return the exact solution',
                    {'op_line': ln, 'code_solution': e})
        if flag != 'pivots-ok Ax=b':
            bad.append((ln.split()[1], flag))
    ctx.cov['ldlt_cases'] = len(lines)
    ctx.cov['ldlt_cases_skipped_zero_pivot'] = skipped
    ctx.oblige('correspondence: core.solve.py_func (exact) == LdltM.solve; '
               'model-side check A x = b; pivots non-zero', 'correspondence',
               not bad, str(bad[:3]))
    return bad


def suite_jit(ctx, core):
    """Compiled kernels vs the same Python source in float64 (identical
    algorithm; only fastmath re-association differs)."""
    rng = ctx.nprng('jit')
    bad = []
    for k in range(4):
        for rep in range(3 if ctx.thorough else 1):
            shp = tuple(int(x) for x in rng.integers(3, 7, 3))
            h = [rng.uniform(0.5, 2.0, n) for n in shp]
            sx, sy, sz = c02.shapes_of(*shp)
            cplx = bool((k + rep) % 2)

            def rnd(s):
                a = rng.standard_normal(s)
                return a + 1j*rng.standard_normal(s) if cplx else a
            e = [np.asfortranarray(rnd(s)) for s in (sx, sy, sz)]
            s_ = [np.asfortranarray(rnd(s)) for s in (sx, sy, sz)]
            eta = [np.asfortranarray(-(3 + rng.uniform(0, 1, shp)) *
                                     (1j if cplx else 1.0)) for _ in range(3)]
            zeta = np.asfortranarray(rng.uniform(0.5, 2.0, shp))
            nu = 1 + (k + rep) % 3
            e1 = [a.copy() for a in e]
            e2 = [a.copy() for a in e]
            getattr(core, KN[k])(*e1, *s_, *eta, zeta, *h, nu)
            getattr(core, KN[k]).py_func(*e2, *s_, *eta, zeta, *h, nu)
            scale = max(np.abs(a).max() for a in e2)
            err = max(np.abs(a - b).max() for a, b in zip(e1, e2))
            if not err <= 1e-10*scale:
                bad.append((KN[k], shp, nu, err, scale))
            ctx.count(key=('jit', k, shp, nu))
    ctx.oblige('correspondence: compiled smoothers == their Python source '
               '(float64) within 1e-10 relative', 'correspondence', not bad,
               str(bad[:2]))
    return bad


def run(ctx):
    from emg3d import core
    ctx.lean('Emg3dVerif.Props.C03', THEOREMS)
    ctx.assumptions += [
        'BlockInj / non-zero pivots (non-singular block systems) is a '
        'hypothesis of the fixed-point and linearity theorems; the model '
        'reports per case that every block system was solved and verified',
        'growth of rounding error in the pivot-free LDL^T is not covered',
    ]
    with warnings.catch_warnings():
        warnings.simplefilter('ignore')
        bad = suite_exact(ctx, core)
        bad_l = suite_ldlt(ctx, core)
        bad_j = suite_jit(ctx, core)
        suite_oracle(ctx, core)
    if (bad or bad_l or bad_j) and not ctx.violations:
        what = (bad[:1] or bad_l[:1] or bad_j[:1])
        ctx.violation(
            'model-correspondence-broken',
            'the smoothers no longer compute the function of the Lean model '
            f'({str(what)[:300]}), but fixed point / boundary / linearity / '
            'last-block clauses still hold on every configuration tried',
            {'correspondence': 'smoothers', 'first': str(what)[:600]},
            found_input=False)


def replay(ctx, rp):
    from emg3d import core
    r = rp['replay']
    if 'shape' not in r or 'what' not in r:
        print('replay: no input recorded:', rp['what'])
        return 1
    rng = ctx.nprng('replay')
    c = make_case(rng, tuple(r['shape']), alias=r.get('alias', 'triaxial'))
    bad = oracle_case(ctx, core, c, tuple(r['what']), r['nu'])
    print('replay:', 'violated' if bad else 'holds on a fresh case of this '
          'configuration')
    return 1 if bad else 0
