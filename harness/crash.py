"""Called by ./check when the check process was killed by a signal raised inside
the code under test (a jitted kernel writing out of bounds aborts the
interpreter): the property is no longer shown to hold - report it."""
import os
import sys
import json
import time

from harness import common


def main():
    pid, rc, tier = sys.argv[1], int(sys.argv[2]), sys.argv[3]
    sig = {134: 'SIGABRT', 139: 'SIGSEGV', 138: 'SIGBUS', 136: 'SIGFPE',
           132: 'SIGILL'}.get(rc, f'exit {rc}')
    os.makedirs(os.path.join(common.VERIF, 'replay'), exist_ok=True)
    rp = os.path.join('replay', f'{pid}-crash.json')
    what = (f'the check process was terminated by {sig} while running the code '
            f'under test (typically a compiled kernel reading or writing out '
            f'of bounds); on the unchanged tree this does not happen')
    json.dump({'property': pid, 'sig': 'code-under-test-crashed', 'what': what,
               'replay': {'exit_status': rc, 'signal': sig},
               'found_input': False},
              open(os.path.join(common.VERIF, rp), 'w'), indent=1)
    ev = {'property_id': pid, 'tier': tier,
          'seed': int(os.environ.get('VERIF_SEED', '0')), 'level': 'proof',
          'coverage': {'evaluations': 0, 'distinct_nontrivial': 0,
                       'rule': 'none: the process died', 'samples': [what],
                       'obligations': 1, 'discharged': 0,
                       'checker_cmd': 'lake build', 'trusted_base': []},
          'assumptions': [], 'wall_s': 0.0, 'violations': 1,
          'written_at': time.strftime('%Y-%m-%dT%H:%M:%S')}
    # evidence/ describes /repo; a run pointed at another tree keeps its record
    # in the cache (as Ctx.write_evidence does)
    edir = os.path.join(common.VERIF, 'evidence') if common.REPO == '/repo' \
        else os.path.join(common.CACHE, 'evidence-other-tree')
    os.makedirs(edir, exist_ok=True)
    json.dump(ev, open(os.path.join(edir, f'{pid}.json'), 'w'), indent=1)
    print(f'VIOLATION property={pid} replay={rp} no-failing-input-found')
    print(f'  # code-under-test-crashed: {what}')
    return 1


if __name__ == '__main__':
    sys.exit(main())
