"""C14 — the physical model is invariant under the property mapping; the
chain rule is exact; invalid parameters are rejected.

Suites
  maps    : every `emg3d.maps.Map*` class: forward / backward /
            derivative_chain on conductivities over twelve decades == the Lean
            model `MapsM.forward/backward/chain` executed at `Float` (the same
            generic definitions the theorems instantiate at ℝ), few ulp;
            round trip; the factor against a finite difference of the class'
            own `backward`.
  coeff   : `VolumeModel` eta_x/eta_y/eta_z/zeta for the six parametrisations
            of one conductivity model == Lean `Emg.etaCoef` / `zetaCoef`
            evaluated exactly at the float inputs; all anisotropy cases,
            optional mu_r / epsilon_r, frequency and Laplace.
  validate: `Model(...)` and the setters on float-class representatives
            (negative, zero, -0.0, inf, -inf, nan, partly invalid arrays,
            uninitialised parameter) == decision model `MapsM.check`.
  results : fields of `emg3d.solve_source`, data, misfit and gradient of a
            `Simulation` for all six mappings: fields/data/misfit identical,
            gradient_m == gradient_conductivity * chain_m(x) (Lean factor).
  regrid  : `estimate_gridding_opts` and `Model.interpolate_to_grid` /
            automatic gridding give the same conductivities for all mappings.
"""
import math
import struct
import warnings
from fractions import Fraction as Fr

import numpy as np

from harness import common
from harness.exactnum import fmt_fr

THEOREMS = [
    'MapsM.backward_forward', 'MapsM.forward_backward', 'MapsM.backward_pos',
    'MapsM.chain_is_derivative', 'MapsM.eta_mapping_invariant',
    'MapsM.accept_iff_pos_finite', 'MapsM.reject_reason',
    'MapsM.cannot_set_uninitialised',
]

MAPS = ['Conductivity', 'LgConductivity', 'LnConductivity', 'Resistivity',
        'LgResistivity', 'LnResistivity']
EPS = 2.0**-52


def f2b(x):
    return struct.unpack('<Q', struct.pack('<d', float(x)))[0]


def b2f(n):
    return struct.unpack('<d', struct.pack('<Q', int(n)))[0]


def lean_map(calls):
    """calls: list of (mapname, fn, array) -> list of arrays (Lean Float)."""
    lines = [f"map {m} {fn} " + " ".join(str(f2b(v)) for v in np.ravel(x))
             for m, fn, x in calls]
    out = common.run_driver(lines, timeout=600)
    return [np.array([b2f(t) for t in o.split()]) for o in out]


def ulps(a, b):
    """error of a against b in units of eps*|b| (elementwise max)."""
    a, b = np.asarray(a, float), np.asarray(b, float)
    with np.errstate(all='ignore'):
        d = np.abs(a - b)/(EPS*np.maximum(np.abs(b), 1e-300))
    d = np.where((a == b) | (np.isnan(a) & np.isnan(b)), 0.0, d)
    return float(np.max(d)) if d.size else 0.0


def sigma_sample(rng, n):
    """Conductivities log-uniform over twelve decades plus special points."""
    s = 10.0**rng.uniform(-6, 6, n)
    sp = np.array([1e-6, 1e6, 1.0, 10.0, 0.1, 1/3, 3.0, 1e-3, 2.0**-10,
                   np.nextafter(1.0, 2), np.nextafter(1.0, 0), math.e,
                   1/math.e, 1e5, 12345.678, 0.3, 3.3])
    return np.r_[sp, s]


# --------------------------------------------------------------------------
def suite_maps(ctx):
    import emg3d
    rng = ctx.nprng('maps')
    bad = []
    names = sorted(n[3:] for n in dir(emg3d.maps)
                   if n.startswith('Map') and n != 'MapBase')
    ctx.cov['map_classes_in_code'] = names
    if sorted(MAPS) != names:
        bad.append(('set of mappings changed', names))
    n = 4000 if ctx.thorough else 600
    sig = sigma_sample(rng, n)
    calls, got = [], []
    with warnings.catch_warnings():
        warnings.simplefilter('ignore')
        for m in MAPS:
            if m not in names:
                continue
            mp = getattr(emg3d.maps, 'Map'+m)()
            x = np.asarray(mp.forward(sig.copy()), float)
            calls.append((m, 'forward', sig))
            got.append((m, 'forward', sig, x))
            # mapped values: from the conductivities and a regular sweep
            if m in ('Conductivity', 'Resistivity'):
                xs = np.r_[x, 10.0**rng.uniform(-6, 6, 50)]
            elif m.startswith('Lg'):
                xs = np.r_[x, rng.uniform(-6, 6, 50), 0.0, 1.0, -1.0, 6.0, -6.0]
            else:
                xs = np.r_[x, rng.uniform(-13.8, 13.8, 50), 0.0, 1.0, -1.0]
            b = np.asarray(mp.backward(xs.copy()), float)
            calls.append((m, 'backward', xs))
            got.append((m, 'backward', xs, b))
            # derivative_chain: in place on the gradient
            for shape in [(xs.size,), None]:
                g = rng.standard_normal(xs.size)*10.0**rng.integers(-3, 4)
                if shape is None:        # 3-D view of a larger array
                    k = (xs.size//4)*4
                    big = np.zeros((3, 2, 2, k//4))
                    big[1] = g[:k].reshape(2, 2, -1)
                    ret = mp.derivative_chain(big[1, ...],
                                              xs[:k].reshape(2, 2, -1))
                    gn, g0, xx = big[1].ravel(), g[:k], xs[:k]
                    if np.any(big[0]) or np.any(big[2]):
                        bad.append((m, 'derivative_chain wrote outside its '
                                       'gradient'))
                else:
                    gn = g.copy()
                    ret = mp.derivative_chain(gn, xs.copy())
                    g0, xx = g, xs
                if ret is not None:
                    gn = np.asarray(ret)
                with np.errstate(all='ignore'):
                    fac = gn/g0
                calls.append((m, 'chain', xx))
                got.append((m, 'chain', xx, fac))
            # round trips in the code
            rt = np.asarray(mp.backward(mp.forward(sig.copy())), float)
            u = ulps(rt, sig)
            lim = 8 + 4*np.max(np.abs(np.log(sig)))
            if u > lim:
                i = int(np.argmax(np.abs(rt-sig)/sig))
                bad.append((m, 'backward(forward(sigma)) != sigma',
                            float(sig[i]), float(rt[i]), u))
                ctx.violation(
                    'roundtrip-not-identity',
                    f'Map{m}: backward(forward({sig[i]!r})) = {rt[i]!r} '
                    f'({u:.3g} eps, limit {lim:.3g})',
                    {'mapping': m, 'sigma': float(sig[i]),
                     'roundtrip': float(rt[i])})
            # factor == d backward / dx by central differences of the code
            xs_fd = xs[np.abs(xs) > 1e-3] if m.endswith('esistivity') and \
                m[0] == 'R' else xs
            h = 1e-6*np.maximum(np.abs(xs_fd), 1.0) if m[0] == 'L' \
                else 1e-6*np.abs(xs_fd)
            fd = (np.asarray(mp.backward(xs_fd+h), float) -
                  np.asarray(mp.backward(xs_fd-h), float))/(2*h)
            g = np.ones(xs_fd.size)
            r = mp.derivative_chain(g, xs_fd.copy())
            g = g if r is None else np.asarray(r)
            rel = np.abs(g-fd)/np.abs(fd)
            if np.max(rel) > 1e-6:
                i = int(np.argmax(rel))
                bad.append((m, 'chain factor != finite difference',
                            float(xs_fd[i]), float(g[i]), float(fd[i])))
                ctx.violation(
                    'chain-factor-not-derivative',
                    f'Map{m}.derivative_chain at x={xs_fd[i]!r} multiplies by '
                    f'{g[i]!r}; d(backward)/dx by central difference = '
                    f'{fd[i]!r}',
                    {'mapping': m, 'x': float(xs_fd[i]),
                     'factor': float(g[i]), 'finite_difference': float(fd[i])})
            ctx.count(key=('maps', m), n=3*xs.size)
    exp = lean_map(calls)
    worst = {}
    for (m, fn, x, val), e in zip(got, exp):
        # libm vs NumPy SIMD kernels: <= 2 ulp each; pow/exp amplify the
        # argument's rounding by |x ln 10|.
        if fn == 'forward':
            with np.errstate(all='ignore'):
                d = np.abs(val-e)/EPS
            lim = 4*np.maximum(np.abs(e), 0.25)
            u = float(np.max(d/lim))*4
            limit = 4
        else:
            u = ulps(val, e)
            limit = 8
        worst[(m, fn)] = max(worst.get((m, fn), 0), u)
        if u > limit:
            with np.errstate(all='ignore'):
                i = int(np.nanargmax(np.abs(val-e)/np.maximum(np.abs(e), 1e-300)))
            bad.append((m, fn, float(x[i]), float(val[i]), float(e[i]), u))
    ctx.cov['maps_worst_ulp'] = {f'{m}.{fn}': round(u, 2)
                                 for (m, fn), u in worst.items()}
    ctx.oblige('correspondence: Map*.forward/backward/derivative_chain == '
               'Lean MapsM.forward/backward/chain at Float (<= 8 ulp), over '
               'twelve decades; round trip; factor vs finite difference',
               'correspondence', not bad, str(bad[:3]))
    ctx.samples.append({'map_call': calls[0][0] + ' ' + calls[0][1] +
                        f' {calls[0][2][0]!r} -> {exp[0][0]!r}'})
    return bad


# --------------------------------------------------------------------------
def fq(x):
    return fmt_fr(Fr(float(x)))


def world_grid(rng):
    import emg3d
    nx, ny, nz = (int(rng.choice([2, 3, 4])) for _ in range(3))
    hx = rng.uniform(5, 200, nx)
    hy = rng.uniform(5, 200, ny)
    hz = rng.uniform(5, 200, nz)
    return emg3d.TensorMesh([hx, hy, hz], rng.uniform(-500, 500, 3))


CASES = {'isotropic': ('x',), 'HTI': ('x', 'y'), 'VTI': ('x', 'z'),
         'triaxial': ('x', 'y', 'z')}


def suite_coeff(ctx):
    import emg3d
    rng = ctx.nprng('coeff')
    bad, lines, meta = [], [], []
    nv0 = len(ctx.violations)
    ncase = 48 if ctx.thorough else 12
    for t in range(ncase):
        grid = world_grid(rng)
        shp = grid.shape_cells
        case = list(CASES)[t % 4]
        sig = {d: 10.0**rng.uniform(-6, 6, shp) for d in CASES[case]}
        if t % 5 == 0:                       # constant parameter given as scalar
            sig['x'] = float(10.0**rng.uniform(-6, 6))
        mur = rng.uniform(0.5, 5, shp) if t % 3 == 1 else None
        epsr = 10.0**rng.uniform(0, 6, shp) if t % 3 == 2 or t % 4 == 3 else None
        freq = float(10.0**rng.uniform(-2, 3))
        if t % 2:
            freq = -freq                      # Laplace
        sfield = emg3d.fields.Field(grid, frequency=freq)
        vol = grid.cell_volumes.reshape(shp, order='F')
        res = {}
        for m in MAPS:
            mp = getattr(emg3d.maps, 'Map'+m)()
            with warnings.catch_warnings():
                warnings.simplefilter('ignore')
                kw = {'property_'+d: mp.forward(np.asarray(s).copy()) if
                      np.ndim(s) else float(mp.forward(s))
                      for d, s in sig.items()}
                model = emg3d.Model(grid, mapping=m, mu_r=mur, epsilon_r=epsr,
                                    **kw)
                if model.case != case:
                    bad.append(('case', m, model.case, case))
                vm = emg3d.models.VolumeModel(model, sfield)
            res[m] = {'eta_x': vm.eta_x, 'eta_y': vm.eta_y, 'eta_z': vm.eta_z,
                      'zeta': vm.zeta}
            ctx.count(key=('coeff', m, case, mur is None, epsr is None,
                           freq > 0))
        # Lean reference (exact at the float inputs) for a few cells
        cells = [tuple(int(rng.integers(0, n)) for n in shp) for _ in range(3)]
        smu0 = complex(sfield.smu0)
        seps0 = complex(sfield.sval)*8.8541878128e-12
        import scipy.constants as sc
        seps0 = complex(sfield.sval)*sc.epsilon_0
        for c in cells:
            for d in 'xyz':
                dd = d if d in sig else 'x'
                s = sig[dd][c] if np.ndim(sig[dd]) else sig[dd]
                e = epsr[c] if epsr is not None else 0.0
                lines.append(
                    f"eta {fq(smu0.real)},{fq(smu0.imag)} "
                    f"{fq(seps0.real)},{fq(seps0.imag)} {fq(s)},0 {fq(e)},0 "
                    f"{fq(vol[c])},0")
                meta.append((t, c, 'eta_'+d, res, case, freq))
            lines.append(f"zeta {fq(vol[c])},0 "
                         f"{fq(mur[c] if mur is not None else 1.0)},0")
            meta.append((t, c, 'zeta', res, case, freq))
    out = common.run_driver(lines, timeout=600)
    worst = 0.0
    for (t, c, key, res, case, freq), o in zip(meta, out):
        a, b = o.split(',')
        ref = complex(float(Fr(a)), float(Fr(b)))
        for m in MAPS:
            v = complex(np.asarray(res[m][key])[c])
            # relative to |ref|; round trip through the mapping: <= ~64 eps
            err = abs(v-ref)/max(abs(ref), 1e-300)/EPS
            worst = max(worst, err)
            if err > 256:
                bad.append((t, c, key, m, v, ref, err))
                ctx.violation(
                    'coefficients-depend-on-mapping',
                    f'VolumeModel.{key}{c} for mapping {m} ({case}, '
                    f'frequency {freq:g}) = {v!r}; from the conductivities '
                    f'(Lean etaCoef/zetaCoef): {ref!r}  [{err:.3g} eps]',
                    {'mapping': m, 'case': case, 'cell': c, 'key': key,
                     'value': str(v), 'reference': str(ref)})
    ctx.cov['coeff_worst_eps'] = round(worst, 2)
    ctx.oblige('correspondence: VolumeModel eta/zeta of all six '
               'parametrisations == Lean etaCoef/zetaCoef on the '
               'conductivities (256 eps), 4 cases x mu_r x epsilon_r x '
               'frequency/Laplace', 'correspondence',
               not bad and len(ctx.violations) == nv0, str(bad[:2]))
    return bad


# --------------------------------------------------------------------------
def cls_of(v):
    if math.isnan(v):
        return 'nan'
    if v == math.inf:
        return 'pinf'
    if v == -math.inf:
        return 'ninf'
    return 'pos' if v > 0 else ('neg' if v < 0 else 'zero')


def back_py(m, x):
    """Independent scalar evaluation of the conductivity of a mapped value
    (Python floats; IEEE semantics for division by zero)."""
    def p(b, e):
        try:
            return b**e
        except OverflowError:
            return math.inf

    def ex(e):
        try:
            return math.exp(e)
        except OverflowError:
            return math.inf
    if math.isnan(x):
        return x
    if m == 'Conductivity':
        return x
    if m == 'Resistivity':
        if x == 0:
            return math.copysign(math.inf, x)
        return 1.0/x
    if m == 'LgConductivity':
        return 0.0 if x == -math.inf else p(10.0, x)
    if m == 'LnConductivity':
        return ex(x)
    if m == 'LgResistivity':
        return 0.0 if x == math.inf else p(10.0, -x)
    if m == 'LnResistivity':
        return ex(-x)
    raise KeyError(m)


SPECIAL = [0.0, -0.0, -1.0, -1e-300, 1e-300, 1.0, 5e-324, 1e308, math.inf,
           -math.inf, math.nan, 400.0, -400.0, 800.0, -800.0, 2.5, -3.0]


def verdict_of(exc):
    if exc is None:
        return 'ok'
    s = str(exc)
    if 'cannot set values' in s:
        return 'not-set'
    if 'bigger than zero' in s:
        return 'positive'
    if 'finite' in s:
        return 'finite'
    return 'other:' + type(exc).__name__ + ':' + s[:80]


def suite_validate(ctx):
    import emg3d
    rng = ctx.nprng('validate')
    grid = emg3d.TensorMesh([[1., 2.], [1., 1.], [3.]], (0, 0, 0))
    shp = grid.shape_cells
    bad, lines, meta = [], [], []
    n = 450 if ctx.thorough else 150

    def attempt(fn):
        try:
            with warnings.catch_warnings():
                warnings.simplefilter('ignore')
                with np.errstate(all='ignore'):
                    fn()
        except ValueError as e:
            return e
        except Exception as e:      # noqa
            return e
        return None

    for t in range(n):
        m = MAPS[t % 6]
        name = ['property_x', 'property_y', 'property_z', 'mu_r',
                'epsilon_r'][(t//6) % 5]
        how = ['ctor', 'setter', 'setter-unset', 'ctor-scalar',
               'setter-inplace'][(t//30) % 5]
        # values: mostly valid with 0..2 special entries, or all special
        good = 10.0**rng.uniform(-3, 3, shp)
        if 'property' in name:
            mp = getattr(emg3d.maps, 'Map'+m)()
            vals = np.asarray(mp.forward(good), float)
        else:
            vals = good.copy()
        k = int(rng.choice([0, 1, 1, 2, 4]))
        idx = rng.choice(vals.size, size=min(k, vals.size), replace=False)
        flat = vals.ravel(order='F')
        for i in idx:
            flat[i] = SPECIAL[int(rng.integers(0, len(SPECIAL)))]
        vals = flat.reshape(shp, order='F')
        if how == 'ctor-scalar':
            vals = np.float64(SPECIAL[int(rng.integers(0, len(SPECIAL)))]
                              if rng.random() < 0.8 else flat[0])
        inp = vals.tolist() if rng.random() < 0.3 else vals
        if 'property' in name:
            classes = [cls_of(back_py(m, float(v))) for v in np.ravel(vals)]
        else:
            classes = [cls_of(float(v)) for v in np.ravel(vals)]
        base = {'property_x': 1.0 if m in ('Conductivity', 'Resistivity')
                else 0.0}
        if how in ('ctor', 'ctor-scalar'):
            kw = dict(base)
            kw[name] = inp
            exc = attempt(lambda: emg3d.Model(grid, mapping=m, **kw))
            unset = 0
        else:
            kw = dict(base)
            if how == 'setter':
                kw[name] = good if 'property' not in name else \
                    np.asarray(mp.forward(good), float)
            elif name == 'property_x':
                how = 'setter'
            if how == 'setter-inplace':
                # what an augmented assignment (`model.mu_r *= x`) does: the
                # model's own array, edited in place, is handed to the setter
                kw[name] = good if 'property' not in name else \
                    np.asarray(mp.forward(good), float)
            mod = emg3d.Model(grid, mapping=m, **kw)
            unset = int(how == 'setter-unset')
            before = None if unset else getattr(mod, name).copy()
            if how == 'setter-inplace':
                own = getattr(mod, name)
                own[...] = np.asarray(vals, float)
                inp = own
                before = own.copy()
            exc = attempt(lambda: setattr(mod, name, inp))
            # a rejected assignment leaves the model unchanged
            after = getattr(mod, name)
            if exc is not None and not unset and how != 'setter-inplace' \
                    and not np.array_equal(before, after, equal_nan=True):
                bad.append(('rejected assignment modified the model', m, name))
                ctx.violation('rejected-assignment-modified-model',
                              f'{m} {name}: setter raised but values changed',
                              {'mapping': m, 'name': name,
                               'values': np.ravel(vals).tolist()})
            if exc is not None and unset and after is not None:
                bad.append(('unset parameter became set', m, name))
        lines.append(f"validate {unset} " + " ".join(classes))
        meta.append((m, name, how, np.ravel(vals).tolist(), verdict_of(exc)))
        ctx.count(key=('validate', m, name, how, tuple(sorted(set(classes)))))
    out = common.run_driver(lines, timeout=600)
    kinds = {}
    for (m, name, how, vals, got), exp in zip(meta, out):
        kinds[exp] = kinds.get(exp, 0) + 1
        if got != exp:
            bad.append((m, name, how, vals, got, exp))
            if exp != 'ok' and got == 'ok':
                ctx.violation(
                    'invalid-parameter-accepted',
                    f'Model(mapping={m}) {how} {name}={vals} accepted; on the '
                    f'conductivity scale the values are not all positive and '
                    f'finite (expected error: {exp})',
                    {'mapping': m, 'name': name, 'how': how, 'values': vals,
                     'expected': exp})
            elif exp == 'ok':
                ctx.violation(
                    'valid-parameter-rejected',
                    f'Model(mapping={m}) {how} {name}={vals} rejected ({got}) '
                    f'although all values are positive and finite',
                    {'mapping': m, 'name': name, 'how': how, 'values': vals,
                     'got': got})
    # representation of the input: integer-typed / list / flat arrays are
    # stored as float64 arrays of the grid's shape, and later assignments
    # (setter, in place) keep their exact values
    for t in range(12 if ctx.thorough else 6):
        m = ['Resistivity', 'Conductivity'][t % 2]
        name = ['property_x', 'property_z', 'mu_r', 'epsilon_r',
                'property_y'][t % 5]
        ints = rng.integers(1, 200, shp)
        form = t % 3
        inp = [ints.astype(np.int64), ints.astype(np.int32).ravel('F'),
               ints.tolist()][form]
        newv = rng.uniform(0.3, 7.7, shp)
        kw = {'property_x': 1.0}
        kw[name] = inp
        try:
            mod = emg3d.Model(grid, mapping=m, **kw)
            stored = getattr(mod, name)
            ok1 = stored.dtype == np.float64 and stored.shape == shp and \
                np.array_equal(stored, ints.astype(float))
            setattr(mod, name, newv.copy())
            ok2 = np.array_equal(getattr(mod, name), newv)
            mod2 = emg3d.Model(grid, mapping=m, **kw)
            getattr(mod2, name)[...] = newv
            ok3 = np.array_equal(getattr(mod2, name), newv)
        except Exception as e:      # noqa
            ok1 = ok2 = ok3 = False
            stored = f'{type(e).__name__}: {e}'
        if not (ok1 and ok2 and ok3):
            bad.append(('representation', m, name, form))
            ctx.violation(
                'parameter-representation',
                f'Model(mapping={m}, {name}=<{["int64 array", "flat int32 array", "nested list of ints"][form]}>): '
                f'stored as float64 of the grid shape with the same values: '
                f'{ok1}; values kept by the setter: {ok2}; by an in-place '
                f'assignment: {ok3}',
                {'mapping': m, 'name': name, 'form': form})
        ctx.count(key=('representation', m, name, form))
    ctx.cov['validate_verdicts'] = kinds
    ctx.oblige('correspondence: Model constructor / setters == MapsM.check on '
               'the float classes of the conductivities (6 maps x 5 '
               'parameters x ctor/setter/unset/scalar)', 'correspondence',
               not bad, str(bad[:2]))
    return bad


# --------------------------------------------------------------------------
def suite_results(ctx):
    import emg3d
    rng = ctx.nprng('results')
    bad = []
    nv0 = len(ctx.violations)
    nworld = 3 if ctx.thorough else 1
    for w in range(nworld):
        case = list(CASES)[(ctx.seed + w + 3) % 4] if isinstance(ctx.seed, int) \
            else list(CASES)[(w + 3) % 4]
        hx = np.ones(8)*50.0
        grid = emg3d.TensorMesh([hx, hx, hx], (-200, -200, -200))
        shp = grid.shape_cells
        sig = {d: 10.0**rng.uniform(-2, 1, shp) for d in CASES[case]}
        mur = rng.uniform(0.8, 1.5, shp) if w % 2 else None
        epsr = None
        freq = 2.0 if w != 2 else -2.0
        src = emg3d.TxElectricDipole((-60., 10., 20., 30., 10.))
        recs = {'Rx-a': emg3d.RxElectricPoint((110., 60., 30., 0., 0.)),
                'Rx-b': emg3d.RxMagneticPoint((-40., -80., -50., 45., 10.))}
        survey = emg3d.Survey(sources={'Tx-1': src}, receivers=recs,
                              frequencies=[abs(freq)], noise_floor=1e-15,
                              relative_error=0.05)
        ref = {}
        for m in MAPS:
            mp = getattr(emg3d.maps, 'Map'+m)()
            kw = {'property_'+d: mp.forward(s.copy()) for d, s in sig.items()}
            with warnings.catch_warnings():
                warnings.simplefilter('ignore')
                model = emg3d.Model(grid, mapping=m, mu_r=mur, epsilon_r=epsr,
                                    **kw)
                ef = emg3d.solve_source(model, src, freq, plain=True,
                                        tol=1e-8, maxit=60, verb=0)
                r = {'ef': ef.field.copy()}
                if freq > 0:
                    sv = survey.copy()
                    sim = emg3d.Simulation(
                        survey=sv, model=model, gridding='same',
                        max_workers=1, receiver_interpolation='linear',
                        solver_opts={'plain': True, 'tol': 1e-8, 'maxit': 60},
                        verb=0, tqdm_opts=False)
                    sim.compute()
                    r['syn'] = sim.data.synthetic.data.copy()
                    sim.survey.data['observed'] = sim.data.synthetic*(
                        1.2+0.1j)
                    r['misfit'] = float(sim.misfit)
                    if mur is None:      # gradient is refused with mu_r
                        r['grad'] = np.array(sim.gradient, copy=True)
                        r['x'] = [np.asarray(kw['property_'+d])
                                  for d in CASES[case]]
            ref[m] = r
            ctx.count(key=('results', m, case, freq > 0, mur is None))
        base = ref['Conductivity']
        calls = []
        for m in MAPS:
            r = ref[m]
            for key in ['ef', 'syn', 'misfit']:
                if key not in r:
                    continue
                sc = np.max(np.abs(base[key]))
                err = float(np.max(np.abs(r[key]-base[key]))/sc)
                if err > 1e-8:
                    bad.append((m, key, err))
                    ctx.violation(
                        'results-depend-on-mapping',
                        f'{key} of the same conductivity model expressed as '
                        f'{m} differs from Conductivity by {err:.3g} '
                        f'(relative to max; {case})',
                        {'mapping': m, 'what': key, 'case': case,
                         'relative_difference': err, 'world': w})
            if 'grad' in r:
                for xi in r['x']:
                    calls.append((m, 'chain', xi.ravel(order='F')))
        facs = iter(lean_map(calls)) if calls else iter(())
        for m in MAPS:
            r = ref[m]
            if 'grad' not in r:
                continue
            g0 = base['grad'].reshape((-1,)+shp)
            g = r['grad'].reshape((-1,)+shp)
            for k in range(g.shape[0]):
                fac = next(facs).reshape(shp, order='F')
                exp = g0[k]*fac
                sc = np.max(np.abs(exp))
                err = float(np.max(np.abs(g[k]-exp))/sc)
                if err > 1e-7:
                    i = np.unravel_index(np.argmax(np.abs(g[k]-exp)), shp)
                    bad.append((m, 'gradient', k, err))
                    ctx.violation(
                        'gradient-chain-rule',
                        f'gradient w.r.t. {m} parameter (component {k}, cell '
                        f'{i}) = {g[k][i]!r}; gradient w.r.t. conductivity x '
                        f'd sigma/dx = {exp[i]!r} (rel. {err:.3g}; {case})',
                        {'mapping': m, 'component': k, 'cell': list(map(int, i)),
                         'case': case, 'world': w})
    ctx.oblige('correspondence: fields, data and misfit identical for all six '
               'parametrisations (1e-8); gradient_m == gradient_sigma x Lean '
               'chain factor (1e-7)', 'correspondence',
               not bad and len(ctx.violations) == nv0, str(bad[:2]))
    return bad


# --------------------------------------------------------------------------
def suite_regrid(ctx):
    import emg3d
    rng = ctx.nprng('regrid')
    bad = []
    nv0 = len(ctx.violations)
    for w in range(4 if ctx.thorough else 2):
        # layered / blocky model on a stretched grid
        hx = np.r_[200., 150, 100, 100, 100, 100, 150, 200]
        hz = np.r_[300., 200, 100, 100, 50, 50, 100, 200]
        grid = emg3d.TensorMesh([hx, hx, hz], (-550, -550, -900))
        shp = grid.shape_cells
        case = list(CASES)[(w + 1) % 4]
        sig = {}
        for d in CASES[case]:
            lay = 10.0**rng.uniform(-3, 1, shp[2])
            s = np.ones(shp)*lay[None, None, :]
            s[2:5, 3:6, 2:4] *= 10.0**rng.uniform(-1, 1)
            s *= 10.0**rng.uniform(-0.2, 0.2, shp)
            if w % 2:         # laterally constant, round values (0.1, 10, 1)
                # the two lowest layers: very resistive and distinct, but
                # closer than 1e-8 S/m (equal for an absolute tolerance in the
                # linear conductivity mapping only)
                s = np.ones(shp)*np.r_[3e-9, 8e-9, 10., 10., 1., 1., 0.1, 5.][
                    None, None, :]
                if d != 'x':
                    s[:, :, 2:] *= 2.0
            sig[d] = s
        mur = rng.uniform(0.8, 3.0, shp) if w % 2 == 0 else None
        epsr = 10.0**rng.uniform(0, 2, shp) if w % 2 == 0 else None
        src = emg3d.TxElectricDipole((-60., 10., -320., 30., 10.))
        rec = emg3d.RxElectricPoint((210., 60., -300., 0., 0.))
        survey = emg3d.Survey(sources=src, receivers=rec, frequencies=[1.0, 3.],
                              noise_floor=1e-15, relative_error=0.05)
        # coarser / shifted output grid for interpolate_to_grid
        ho = np.r_[250., 250, 200, 200, 250]
        gout = emg3d.TensorMesh([ho, ho, ho], (-600, -520, -950))
        res = {}
        for m in MAPS:
            mp = getattr(emg3d.maps, 'Map'+m)()
            kw = {'property_'+d: mp.forward(s.copy()) for d, s in sig.items()}
            with warnings.catch_warnings():
                warnings.simplefilter('ignore')
                model = emg3d.Model(grid, mapping=m, mu_r=mur, epsilon_r=epsr,
                                    **kw)
                go = emg3d.meshes.estimate_gridding_opts({}, model, survey)
                m2 = model.interpolate_to_grid(gout)
                r = {'properties': np.asarray(go['properties'], float),
                     'mapping': go['mapping'] if isinstance(go['mapping'], str)
                     else go['mapping'].name}
                for d in CASES[case]:
                    r['sigma_'+d] = np.asarray(
                        mp.backward(getattr(m2, 'property_'+d)), float)
                if mur is not None:
                    r['mu_r'] = m2.mu_r.copy()
                    r['epsilon_r'] = m2.epsilon_r.copy()
                # layered (1D) extraction, as used by layered computations
                for meth, mrg in [('midpoint', False), ('midpoint', True),
                                  ('cylinder', False), ('prism', True)]:
                    l1 = model.extract_1d(
                        meth, p0=(-100., 40.), p1=(120., -60.),
                        ellipse={'radius': 260.}, merge=mrg)
                    tag = f'1d-{meth}-{int(mrg)}'
                    r[tag+'-nodes_z'] = l1.grid.nodes_z.copy() - 2000.0
                    for d in CASES[case]:
                        r[f'{tag}-sigma_{d}'] = np.asarray(mp.backward(
                            getattr(l1, 'property_'+d)), float).ravel()
                    if mur is not None:
                        r[tag+'-mu_r'] = l1.mu_r.ravel().copy()
                        r[tag+'-epsilon_r'] = l1.epsilon_r.ravel().copy()
            res[m] = r
            ctx.count(key=('regrid', m, case, mur is None))
        base = res['Conductivity']
        for m in MAPS:
            for key, v in res[m].items():
                if key == 'mapping':
                    continue
                b = base[key]
                if key == 'properties':
                    # expressed on the mapping in go['mapping']; compare after
                    # conversion to conductivity
                    mpm = getattr(emg3d.maps, 'Map'+res[m]['mapping'])()
                    mpb = getattr(emg3d.maps, 'Map'+base['mapping'])()
                    v = np.asarray(mpm.backward(v), float)
                    b = np.asarray(mpb.backward(b), float)
                if v.shape != b.shape:
                    err = math.inf
                else:
                    err = float(np.max(np.abs(v-b)/np.abs(b)))
                if err > 1e-9:
                    sig_ = ('regrid-mu-eps-depend-on-mapping'
                            if key.endswith(('mu_r', 'epsilon_r'))
                            else 'extract-1d-depends-on-mapping'
                            if key.startswith('1d-')
                            else 'gridding-depends-on-mapping')
                    bad.append((m, key, err))
                    ctx.violation(
                        sig_,
                        f'{key} after '
                        f'{"estimate_gridding_opts" if key == "properties" else "Model.extract_1d" if key.startswith("1d-") else "Model.interpolate_to_grid"}'
                        f' for the same physical model expressed as {m} '
                        f'differs from Conductivity by {err:.3g} (relative; '
                        f'{case})',
                        {'mapping': m, 'what': key, 'case': case, 'world': w,
                         'value': v.ravel()[:8].tolist(),
                         'conductivity_mapping': b.ravel()[:8].tolist()})
    ctx.oblige('monitor: estimate_gridding_opts properties and '
               'Model.interpolate_to_grid give the same conductivities, mu_r, '
               'epsilon_r for all six parametrisations (1e-9)', 'monitor',
               not bad and len(ctx.violations) == nv0, str(bad[:2]))
    return bad


def suite_layered(ctx):
    """Layered (1-D) mode with default options: same data for all mappings."""
    import emg3d
    rng = ctx.nprng('layered')
    bad = []
    nv0 = len(ctx.violations)
    for w in range(2 if ctx.thorough else 1):
        hx = np.r_[400., 300, 200, 200, 300, 400]
        hz = np.r_[400., 300, 200, 100, 100]
        grid = emg3d.TensorMesh([hx, hx, hz], (-900, -900, -1100))
        shp = grid.shape_cells
        vti = bool(w % 2)
        sig = {}
        for d in (['x', 'z'] if vti else ['x']):
            lay = 10.0**rng.uniform(-0.5, 1.0, shp[2])
            s = np.ones(shp)*lay[None, None, :]
            s *= 10.0**rng.uniform(-0.6, 0.6, shp)      # lateral variation,
            sig[d] = s                                   # deepest layer too
        src = emg3d.TxElectricDipole((-150., 20., -250., 20., 5.))
        recs = {'Rx-a': emg3d.RxElectricPoint((350., 60., -200., 0., 0.)),
                'Rx-b': emg3d.RxMagneticPoint((-300., -380., -220., 45., 10.))}
        survey = emg3d.Survey(sources=src, receivers=recs,
                              frequencies=[8.0, 32.0], noise_floor=1e-17,
                              relative_error=0.05)
        res = {}
        for m in MAPS:
            mp = getattr(emg3d.maps, 'Map'+m)()
            with warnings.catch_warnings():
                warnings.simplefilter('ignore')
                model = emg3d.Model(grid, mapping=m, **{
                    'property_'+d: mp.forward(s.copy())
                    for d, s in sig.items()})
                for meth in ['cylinder', 'prism']:
                    sim = emg3d.Simulation(
                        survey=survey.copy(), model=model, layered=True,
                        layered_opts={'method': meth}, gridding='same',
                        max_workers=1, verb=-1, tqdm_opts=False)
                    sim.compute()
                    res[(m, meth)] = (
                        sim.data.synthetic.data.copy(),
                        dict(sim.layered_opts.get('ellipse', {})))
                # properties of the gridding options come in THEIR OWN
                # mapping: the default radius follows from them, whatever the
                # parametrisation of the model is
                for gm, gprops in (('Resistivity', [2.0, 0.5, 0.25]),
                                   ('LgConductivity', [0.3, -0.5])):
                    gmp = getattr(emg3d.maps, 'Map'+gm)()
                    simg = emg3d.Simulation(
                        survey=survey.copy(), model=model, layered=True,
                        layered_opts={'method': 'cylinder'},
                        gridding='single',
                        gridding_opts={'properties': gprops, 'mapping': gm},
                        max_workers=1, verb=-1, tqdm_opts=False)
                    got_r = simg.layered_opts['ellipse']['radius']
                    ind = -1 if len(gprops) < 3 else -2
                    want_r = emg3d.meshes.skin_depth(
                        8.0, float(gmp.backward(np.array(gprops[ind]))))
                    if not abs(got_r - want_r) <= 1e-9*want_r:
                        bad.append(('radius', m, gm, got_r, want_r))
                        ctx.violation(
                            'layered-radius-ignores-gridding-mapping',
                            f'layered default radius for a model in {m} with '
                            f'gridding_opts properties {gprops} given as {gm}: '
                            f'{got_r!r}, one skin depth of that property is '
                            f'{want_r!r}', {'model_mapping': m,
                                            'gridding_mapping': gm})
            ctx.count(key=('layered', m, vti))
        for (m, meth), (dat, ell) in res.items():
            b, bell = res[('Conductivity', meth)]
            err = float(np.max(np.abs(dat-b)/np.abs(b)))
            rad = abs(ell.get('radius', 0)-bell.get('radius', 0)) > \
                1e-9*abs(bell.get('radius', 1))
            if err > 1e-8 or rad:
                bad.append((m, meth, err))
                ctx.violation(
                    'layered-data-depend-on-mapping',
                    f'layered mode ({meth}, default options): data of the '
                    f'same conductivities expressed as {m} differ from '
                    f'Conductivity by {err:.3g} (ellipse {ell} vs {bell})',
                    {'mapping': m, 'method': meth, 'ellipse': repr(ell),
                     'ellipse_conductivity': repr(bell)})
    ctx.oblige('monitor: layered mode with default options gives the same '
               'data for all six parametrisations', 'monitor',
               not bad and len(ctx.violations) == nv0, str(bad[:2]))
    return bad


def run(ctx):
    ctx.lean('Emg3dVerif.Props.C14', THEOREMS)
    ctx.assumptions += [
        'NumPy log/log10/exp/power agree with the real functions to a few ulp '
        '(libm of the Lean runtime used as the executable reference)',
        'the theorems are about the maps over the reals; floating-point '
        'round trips are identities only up to the stated ulp bounds',
    ]
    b = []
    for s in (suite_maps, suite_coeff, suite_validate, suite_results,
              suite_regrid, suite_layered):
        b += s(ctx) or []
    if b and not ctx.violations:
        ctx.violation('model-correspondence-broken',
                      f'maps / validation no longer match the model '
                      f'({str(b[:1])[:300]}); invariance monitors found no '
                      'violation', {'first': str(b[:1])[:600]},
                      found_input=False)


def replay(ctx, rp):
    for s in (suite_maps, suite_coeff, suite_validate, suite_results,
              suite_regrid):
        s(ctx)
    for v in ctx.violations:
        print('replay:', v['sig'], v['what'][:200])
    return 1 if ctx.violations else 0
