"""C16 — automatic gridding meets its stated postconditions or fails loudly.

Suites
  exact  : the Python source of `meshes._stretch` executed on exact rationals
           == Lean `Grd.stretch` (widths, end points, counts, `False`).
  oaw    : `meshes.origin_and_widths` on generated parameter sets (frequency
           +/-, 1-3 properties in all six mappings, centre, domain / distance
           / vector, sea surface, stretching pairs, width limits, pps, buffer
           options, centre-on-edge, cell-number lists) with `_stretch` and
           `brentq` recorded == Lean `Grd.oaw` (domain, vector cut, centre
           part, computational domain, search result); sampled recorded
           `_stretch` calls == `Grd.stretch` at the same float arguments;
           near-ties of the float comparisons are counted and skipped.
  post   : the postconditions of the property evaluated directly on whatever
           `origin_and_widths` / `construct_mesh` return (wide ranges).
  route  : `construct_mesh` == three `origin_and_widths` calls with the
           per-direction parameters split as documented (every format).
  goodmg : `good_mg_cell_nr` == `Grd.goodMg` on a parameter grid.
"""
import math
import warnings
from fractions import Fraction as Fr

import numpy as np

from harness import common
from harness.exactnum import Q, exact_fn, fmt_fr

THEOREMS = [
    'Grd.stretch_length', 'Grd.stretch_covers', 'Grd.stretch_outward',
    'Grd.stretch_extent', 'Grd.stretch_pos', 'Grd.stretch_bounded',
    'Grd.stretch_nodes', 'Grd.searchNx_some', 'Grd.search_post',
    'Grd.search_none_iff', 'Grd.cutVector_keeps', 'Grd.compDomain_buffer',
    'Grd.compDomain_covers', 'Grd.compDomain_fromCenter',
    'Grd.seasurface_shift_node', 'Grd.seasurface_root_node',
    'Grd.goodMg_spec', 'Grd.goodMg_sorted', 'Grd.goodMg_halvings',
    'Grd.centrePart_ok',
    'Grd.oaw_ok', 'Grd.oaw_post', 'Grd.oaw_none_iff',
]

MAPS = ['Conductivity', 'LgConductivity', 'LnConductivity', 'Resistivity',
        'LgResistivity', 'LnResistivity']


def fq(x):
    return fmt_fr(Fr(float(x)))


def fql(a):
    return " ".join(fq(v) for v in np.ravel(a))


def rat(s):
    return Fr(s)


# --------------------------------------------------------------------------
def suite_exact(ctx):
    import emg3d
    rng = ctx.nprng('exact')
    f = exact_fn(emg3d.meshes, '_stretch', deps=(),
                 extra={'float': lambda x: x})
    lines, got = [], []
    n = 240 if ctx.thorough else 80
    for t in range(n):
        nw = int(rng.choice([1, 1, 2, 3, 5]))
        ws = [Fr(int(rng.integers(1, 40)), int(rng.integers(1, 4)))
              for _ in range(nw)]
        e0 = Fr(int(rng.integers(-50, 50)), int(rng.integers(1, 3)))
        e1 = e0 + sum(ws)
        al = Fr(int(rng.integers(8, 25)), 8) if t % 3 else Fr(1)
        if t % 11 == 0:
            al = Fr(int(rng.integers(4, 8)), 8)        # squeezing (alpha<1)
        nx = int(rng.integers(nw, 24))
        span = sum(ws)*int(rng.integers(1, 12))
        kind = t % 5
        if kind == 0:        # domain inside the centre part
            d0, d1 = e0 + sum(ws)/4, e1 - sum(ws)/4
        elif kind == 1:      # exact ties: domain on nodes of the uniform grid
            k1, k2 = int(rng.integers(0, 6)), int(rng.integers(0, 6))
            d0, d1 = e0 - ws[0]*k1, e1 + ws[-1]*k2
        elif kind == 2:      # one-sided
            d0, d1 = e0, e1 + span
        else:
            d0 = e0 - span*Fr(int(rng.integers(0, 9)), 8)
            d1 = e1 + span*Fr(int(rng.integers(0, 9)), 8)
        up = bool(rng.integers(0, 2))
        wa = np.empty(nw, dtype=object)
        for i, w in enumerate(ws):
            wa[i] = Q(w)
        ea = np.array([Q(e0), Q(e1)], dtype=object)
        r = f(ea, wa, Q(al), nx, [Q(d0), Q(d1)], up)
        if r[2] is False:
            g = 'none'
        else:
            g = (f"{fmt_fr(r[0][0].re)} {fmt_fr(r[0][1].re)} {int(r[2])} | " +
                 " ".join(fmt_fr(v.re) for v in r[1]))
        got.append(g)
        lines.append(f"stretch | {fmt_fr(e0)} {fmt_fr(e1)} | " +
                     " ".join(fmt_fr(w) for w in ws) +
                     f" | {fmt_fr(al)} {nx} {fmt_fr(d0)} {fmt_fr(d1)} "
                     f"{int(up)}")
        ctx.count(key=lines[-1])
    out = common.run_driver(lines, timeout=600)
    bad = []
    nnone = 0
    for ln, g, o in zip(lines, got, out):
        if o != 'none':
            a, b = o.split(' | ')
            a = a.split()
            o2 = f"{a[0]} {a[1]} {a[2]} | {b}"
        else:
            o2 = o
            nnone += 1
        if g != o2:
            bad.append((ln, g[:200], o2[:200]))
    ctx.cov['stretch_exact_cases'] = len(lines)
    ctx.cov['stretch_exact_none'] = nnone
    ctx.oblige('correspondence: _stretch source on exact rationals == '
               'Grd.stretch (edges, widths, remain / False)', 'correspondence',
               not bad, str(bad[:2]))
    ctx.samples.append({'stretch_case': lines[0], 'result': out[0][:200]})
    return bad


# --------------------------------------------------------------------------
class Rec:
    """Record `_stretch` and `brentq` calls of the real module."""

    def __init__(self, meshes):
        self.m = meshes
        self.stretch = []
        self.roots = []

    def __enter__(self):
        m = self.m
        self.o_s = m._stretch
        self.o_b = m.sp.optimize.brentq

        def s(edges, widths, stretching, nx, domain, use_up=False):
            r = self.o_s(edges, widths, stretching, nx, domain, use_up)
            self.stretch.append((
                [float(edges[0]), float(edges[1])],
                np.atleast_1d(np.asarray(widths, float)).copy(),
                float(stretching), int(nx),
                [float(domain[0]), float(domain[1])], bool(use_up), r))
            return r

        def b(f, a, c, *args, **kw):
            x = self.o_b(f, a, c, *args, **kw)
            self.roots.append(float(x))
            return x
        m._stretch = s
        m.sp.optimize.brentq = b
        return self

    def __exit__(self, *a):
        self.m._stretch = self.o_s
        self.m.sp.optimize.brentq = self.o_b


def gen_case(rng, wide=False):
    """One parameter set of origin_and_widths."""
    p = {}
    p['frequency'] = float(10.0**rng.uniform(-2, 2))
    if rng.random() < 0.25:
        p['frequency'] = -p['frequency']
    mapping = MAPS[int(rng.integers(0, 6))]
    nprop = int(rng.choice([1, 2, 3]))
    sig = 10.0**rng.uniform(-3, 1, nprop)
    if rng.random() < 0.3 and nprop > 1:
        sig[-1] = 1e-8                      # air
    p['mapping'] = mapping
    p['_sigma'] = sig
    center = float(np.round(rng.uniform(-2000, 2000), int(rng.integers(0, 3))))
    if wide and rng.random() < 0.15:
        center += 6731400.0         # far from the origin (UTM northing)
    p['center'] = center
    L = float(10.0**rng.uniform(2, 4))
    how = rng.choice(['domain', 'distance', 'vector', 'vector+domain',
                      'vector+distance'])
    if 'domain' in how:
        p['domain'] = [center - L*rng.uniform(0.05, 1),
                       center + L*rng.uniform(0.05, 1)]
        if rng.random() < 0.15:             # centre outside the domain
            p['domain'] = [center + 0.1*L, center + L]
    if 'distance' in how:
        p['distance'] = [L*rng.uniform(0.05, 1), L*rng.uniform(0.05, 1)]
        if rng.random() < 0.2:
            p['distance'][0] = -p['distance'][0]      # abs() is documented
    if 'vector' in how:
        nv = int(rng.integers(3, 12))
        h0 = L/20*rng.uniform(0.5, 2)
        hs = h0*np.cumprod(np.r_[1, rng.uniform(0.8, 1.25, nv-2)]) \
            if rng.random() < 0.6 else np.ones(nv-1)*h0
        v = center - h0*rng.uniform(0, nv-1) + np.r_[0, np.cumsum(hs)]
        p['vector'] = v
    st0 = float(rng.choice([1.0, 1.0, 1.02, 1.05, 1.1, 1.2]))
    st1 = float(rng.choice([1.3, 1.5, 1.5, 2.0]))
    p['stretching'] = [st0, st1]
    lim = rng.choice(['none', 'none', 'one', 'two'])
    if lim == 'one':
        p['min_width_limits'] = float(L/rng.uniform(10, 60))
    elif lim == 'two':
        a = float(L/rng.uniform(40, 200))
        p['min_width_limits'] = [a, a*float(rng.uniform(1.5, 8))]
    p['min_width_pps'] = float(rng.choice([3, 3, 2, 5, 10]))
    p['lambda_factor'] = float(rng.choice([1.0, 1.0, 0.5, 0.25, 2.0]))
    p['max_buffer'] = float(rng.choice([100000, 100000, 20000, 5000, 2000]))
    p['lambda_from_center'] = bool(rng.random() < 0.3)
    p['center_on_edge'] = bool(rng.random() < 0.5)
    cn = rng.choice(['default', 'small', 'tiny', 'odd'])
    if cn == 'small':
        p['cell_numbers'] = [8, 16, 24, 32, 40, 48, 64]
    elif cn == 'tiny':
        p['cell_numbers'] = [4, 8, 12]
    elif cn == 'odd':
        p['cell_numbers'] = [64, 20, 20, 32, 10]      # unsorted, duplicates
    if rng.random() < 0.3:
        top = p['domain'][1] if 'domain' in p else center + L
        p['seasurface'] = float(
            center + rng.choice([0.02, 0.1, 0.3, 0.7, 1.2])*abs(top-center)
            + 1e-3)
    if wide and rng.random() < 0.1:
        p['seasurface'] = center - 5.0          # must be rejected
    return p


def call_kwargs(emg3d, p):
    mp = getattr(emg3d.maps, 'Map'+p['mapping'])()
    kw = {k: v for k, v in p.items() if not k.startswith('_')}
    with warnings.catch_warnings():
        warnings.simplefilter('ignore')
        prop = np.asarray(mp.forward(p['_sigma'].copy()), float)
    kw['properties'] = prop.tolist() if prop.size > 1 else float(prop[0])
    return kw


MU0 = 4e-7*math.pi*(1 + 0)        # overwritten from scipy below


def physics(p):
    """Independent evaluation of skin depths, minimum width, wavelengths."""
    import scipy.constants as sc
    sig = p['_sigma']
    c3 = np.array([sig[0], sig[min(sig.size-1, 1)], sig[min(sig.size-1, 2)]])
    f = p['frequency']
    sd = 1/np.sqrt(math.pi*abs(f)*c3*sc.mu_0)
    if f < 0:
        sd = sd/math.sqrt(2*math.pi)
    dmin = sd[0]/p.get('min_width_pps', 3)
    lim = p.get('min_width_limits')
    if lim is not None:
        lim = np.atleast_1d(lim)
        dmin = float(lim[0]) if lim.size == 1 else \
            float(min(max(dmin, lim[0]), lim[1]))
    wl = p.get('lambda_factor', 1.0)*2*math.pi*sd[1:]
    return float(dmin), wl


def frange_of(p, dmin, has_vector):
    """Mirror of the candidate factors of `_seasurface`."""
    lim = p.get('min_width_limits')
    lsize = None if lim is None else np.atleast_1d(lim).size
    if has_vector or lsize == 1:
        return [1.0]
    fmin, fmax = 0.7, 1.3
    if lsize == 2:
        rl = np.asarray(lim, float)/dmin
        fmin, fmax = max(fmin, rl[0]), min(fmax, rl[1])
    fr = np.linspace(fmin, fmax, 13)
    fr = fr[np.argsort(abs(fr-1))]
    if fr[0] != 1.0:
        fr = np.r_[1.0, fr]
    return [float(v) for v in fr]


def margin(c):
    """Smallest relative distance of a float comparison in a recorded
    `_stretch` call from a tie."""
    (e, w, al, nx, d, up, r) = c
    sf = al**np.arange(1, nx+1)
    cl, cr = np.cumsum(w[0]*sf), np.cumsum(w[-1]*sf)
    sc = max(abs(d[0]), abs(d[1]), abs(e[0]), abs(e[1]), 1e-300)
    m = min(np.min(np.abs(e[0]-cl-d[0])), np.min(np.abs(e[1]+cr-d[1])),
            abs(e[0]-d[0]) if e[0] != d[0] else np.inf,
            abs(e[1]-d[1]) if e[1] != d[1] else np.inf)
    return float(m/sc)


def stretch_line(c):
    (e, w, al, nx, d, up, r) = c
    return (f"stretch | {fq(e[0])} {fq(e[1])} | {fql(w)} | {fq(al)} {nx} "
            f"{fq(d[0])} {fq(d[1])} {int(up)}")


def post_check(p, kw, x0, hx, warned, dmin, wl):
    """The postconditions of the property on a returned 1-D mesh; returns a
    list of (sig, text)."""
    out = []
    hx = np.asarray(hx, float)
    nodes = x0 + np.r_[0, np.cumsum(hx)]
    cn = np.unique(kw.get('cell_numbers', [
        16, 24, 32, 40, 48, 64, 80, 96, 128, 160, 192, 256, 320, 384, 512,
        640, 768, 1024]))
    if hx.size not in cn:
        out.append(('cell-number-not-permitted',
                    f'{hx.size} cells, permitted {cn.tolist()}'))
    if not np.all(hx > 0) or not np.all(np.isfinite(hx)):
        out.append(('width-not-positive', f'min width {hx.min()!r}'))
    c = p['center']
    vec = kw.get('vector')
    if 'domain' in kw:
        d = list(map(float, kw['domain']))
    elif 'distance' in kw:
        d = [c-abs(kw['distance'][0]), c+abs(kw['distance'][1])]
    else:
        d = [float(vec.min()), float(vec.max())]
    ss = kw.get('seasurface')
    if ss is not None:
        d[1] = max(d[1], ss)
    sc = max(abs(nodes[0]), abs(nodes[-1]), 1.0)
    tol = 1e-9*sc
    if nodes[0] > d[0]+tol or nodes[-1] < d[1]-tol:
        out.append(('survey-domain-not-covered',
                    f'mesh [{nodes[0]!r}, {nodes[-1]!r}] does not cover the '
                    f'survey domain {d}'))
    mb = kw.get('max_buffer', 100000)
    if kw.get('lambda_from_center', False):
        need = [max(d[0] - max(0.0, (2*wl[0]-abs(d[0]-c))/2), c-mb),
                min(d[1] + max(0.0, (2*wl[1]-abs(d[1]-c))/2), c+mb)]
    else:
        need = [d[0]-min(wl[0], mb), d[1]+min(wl[1], mb)]
    if nodes[0] > need[0]+tol or nodes[-1] < need[1]-tol:
        out.append(('buffer-not-covered',
                    f'mesh [{nodes[0]!r}, {nodes[-1]!r}] does not cover '
                    f'survey domain + buffer {need} (wavelengths {wl}, '
                    f'max_buffer {mb}, lambda_factor '
                    f'{kw.get("lambda_factor", 1.0)})'))
    # stretching: adjacent ratios outside the provided vector
    st = kw.get('stretching', [1.0, 1.5])
    smax = max(st)
    with np.errstate(all='ignore'):
        ratio = np.maximum(hx[1:]/hx[:-1], hx[:-1]/hx[1:])
    exempt = np.zeros(ratio.size, bool)
    if vec is not None:
        # cells (and their mutual ratios) inside the provided vector
        lo, hi = float(np.min(vec)), float(np.max(vec))
        inside = (nodes[:-1] >= lo-tol) & (nodes[1:] <= hi+tol)
        exempt = inside[1:] & inside[:-1]
    if np.any(ratio[~exempt] > smax*(1+1e-9)):
        i = int(np.argmax(np.where(exempt, 0, ratio)))
        out.append(('stretching-exceeded',
                    f'widths {hx[i]!r}, {hx[i+1]!r} (cells {i},{i+1}) have '
                    f'ratio {ratio[i]:.6g} > {smax}'))
    # centre
    if vec is None and ss is None:
        if kw.get('center_on_edge', True):
            if np.min(np.abs(nodes-c)) > tol:
                out.append(('centre-not-on-node',
                            f'centre {c!r} is not a node (nearest '
                            f'{nodes[np.argmin(np.abs(nodes-c))]!r})'))
        else:
            cc = (nodes[1:]+nodes[:-1])/2
            if np.min(np.abs(cc-c)) > tol:
                out.append(('centre-not-on-cell-centre',
                            f'centre {c!r} is not a cell centre'))
    # provided nodes inside the domain are nodes (if the vector is used: at
    # least two cells within the domain)
    if vec is not None:
        v = np.asarray(vec, float)
        # the cut is done before the sea surface extends the domain
        if 'domain' in kw:
            du = float(kw['domain'][1])
        elif 'distance' in kw:
            du = c+abs(kw['distance'][1])
        else:
            du = float(v.max())
        vin = v[(v >= d[0]) & (v <= du)]
        # vector used only if >= 3 nodes remain after the cut
        nlo = np.sum(v <= d[0])
        nhi = np.sum(v >= du)
        kept = v.size - max(nlo-1, 0) - max(nhi-1, 0)
        if kept >= 3:
            miss = [float(x) for x in vin
                    if np.min(np.abs(nodes-x)) > tol]
            if miss:
                out.append(('vector-node-dropped',
                            f'nodes {miss[:4]} of the provided vector lie in '
                            f'the survey domain but are not mesh nodes'))
    if ss is not None:
        isnode = np.min(np.abs(nodes-ss)) <= 1e-8 + 1e-5*np.min(np.abs(nodes-ss))
        if not isnode and not warned:
            out.append(('seasurface-not-node-no-warning',
                        f'sea surface {ss!r} is not a node and no warning '
                        f'was raised'))
    return out


def run_oaw(emg3d, kw, rec=True):
    """Call the real function; returns (kind, x0, hx, warned, Rec)."""
    m = emg3d.meshes
    r = Rec(m)
    with warnings.catch_warnings(record=True) as wl:
        warnings.simplefilter('always')
        try:
            if rec:
                with r:
                    x0, hx = m.origin_and_widths(**kw)
            else:
                x0, hx = m.origin_and_widths(**kw)
            kind = 'ok'
        except RuntimeError as e:
            kind, x0, hx = 'none', None, None
            if 'No suitable grid' not in str(e):
                kind = 'other:'+str(e)[:80]
        except ValueError as e:
            x0 = hx = None
            kind = ('err-seasurface' if 'seasurface' in str(e) else
                    'err-domain' if 'must be provided' in str(e) else
                    'other:'+str(e)[:80])
    warned = any('Seasurface is not' in str(w.message) for w in wl)
    return kind, x0, hx, warned, r


def suite_oaw(ctx):
    import emg3d
    rng = ctx.nprng('oaw')
    ncase = 160 if ctx.thorough else 48
    lines, meta, slines, smeta = [], [], [], []
    search_lines, search_meta = [], []
    bad = []
    nv0 = len(ctx.violations)
    stats = {'ok': 0, 'none': 0, 'err': 0, 'sea': 0, 'vector': 0,
             'near_tie_calls': 0, 'near_tie_cases': 0}
    for t in range(ncase):
        p = gen_case(rng, wide=True)
        if 'cell_numbers' not in p or max(p['cell_numbers']) > 64:
            # keep exact arithmetic affordable
            p['cell_numbers'] = [8, 16, 24, 32, 40, 48, 64]
        kw = call_kwargs(emg3d, p)
        kind, x0, hx, warned, rec = run_oaw(emg3d, kw)
        dmin, wl = physics(p)
        stats['ok' if kind == 'ok' else 'none' if kind == 'none'
              else 'err'] += 1
        # --- postconditions on the real result
        if kind == 'ok':
            for sig, txt in post_check(p, kw, x0, hx, warned, dmin, wl):
                bad.append((sig, txt))
                ctx.violation(sig, 'origin_and_widths: ' + txt,
                              {'kwargs': repr(kw)})
        # --- model line
        st = p['stretching']
        nsa = max(1, min(100, int((st[0]-1)/0.001)))
        sal = np.linspace(1.0, st[0], nsa)
        ncas = [max(1, min(100, int((st[1]-sa)/0.001))) for sa in sal]
        vec = p.get('vector')
        # does the model use a vector? (needed for frange / amax only)
        if 'domain' in p:
            d = p['domain']
        elif 'distance' in p:
            d = [p['center']-abs(p['distance'][0]),
                 p['center']+abs(p['distance'][1])]
        else:
            d = [vec.min(), vec.max()]
        has_vec = False
        if vec is not None:
            nlo, nhi = np.sum(vec <= d[0]), np.sum(vec >= d[1])
            has_vec = vec.size - max(nlo-1, 0) - max(nhi-1, 0) >= 3
        uses_vector = has_vec or p['center_on_edge']
        fr = frange_of(p, dmin, uses_vector)
        amax = 1.25 if uses_vector else 1.1
        if has_vec:
            stats['vector'] += 1
        if 'seasurface' in p:
            stats['sea'] += 1
        ln = ("oaw | " + " ".join([
            fq(p['center']), fq(dmin), str(int(p['center_on_edge'])),
            str(int(p['lambda_from_center'])), fq(wl[0]), fq(wl[1]),
            fq(p['max_buffer']), fq(st[0]), fq(st[1]), fq(amax)]) +
            " | " + (fql(p['domain']) if 'domain' in p else "") +
            " | " + (fql(p['distance']) if 'distance' in p else "") +
            " | " + (fql(vec) if vec is not None else "") +
            " | " + (fq(p['seasurface']) if 'seasurface' in p else "") +
            " | " + fql(fr) + " | " + fql(rec.roots) +
            # (no cell numbers: the search itself is compared through the
            # `search` op on the floats the code used)
            " |  | " + str(nsa) + " " + " ".join(map(str, ncas)))
        if 'seasurface' in p and (p['seasurface']-p['center'])/dmin > 80:
            # hundreds of exact powers of a float root: too expensive for the
            # exact model; the postcondition monitors above still apply
            stats['model_skipped_many_sea_cells'] = \
                stats.get('model_skipped_many_sea_cells', 0) + 1
            ctx.count(key=('oaw-monitor-only', t))
            continue
        lines.append(ln)
        # the triple search alone, on the floats the code used (centre part
        # after the sea-surface step, survey and computational domain)
        cs0 = rec.stretch
        cdl = [c for c in cs0 if c[5]]
        if len(cs0) > 12000:
            stats['search_skipped_expensive'] = \
                stats.get('search_skipped_expensive', 0) + 1
        elif cs0 and kind in ('ok', 'none'):
            f0 = cs0[0]
            cdom = cdl[0][4] if cdl else None
            if cdom is None:
                # no survey-domain step ever succeeded: the computational
                # domain was never used; any value will do
                cdom = f0[4]
            search_lines.append(
                f"search | {fq(f0[0][0])} {fq(f0[0][1])} | {fql(f0[1])} | "
                f"{fq(f0[4][0])} {fq(f0[4][1])} {fq(cdom[0])} {fq(cdom[1])} | "
                + " ".join(str(int(v)) for v in np.unique(p['cell_numbers']))
                + f" | {fq(st[0])} {fq(st[1])} {nsa} " + " ".join(map(str, ncas)))
            search_meta.append(len(lines)-1)
        meta.append((p, kw, kind, x0, hx, rec, sal, dmin, wl))
        # --- sampled recorded _stretch calls
        cs = rec.stretch
        idx = sorted(set(list(range(min(4, len(cs)))) +
                         list(range(max(0, len(cs)-4), len(cs))) +
                         [int(i) for i in rng.integers(0, max(len(cs), 1), 4)
                          if len(cs)]))
        for i in idx:
            if margin(cs[i]) < 1e-9:
                stats['near_tie_calls'] += 1
                continue
            slines.append(stretch_line(cs[i]))
            smeta.append((t, i, cs[i]))
        ctx.count(key=('oaw', kind, has_vec, 'seasurface' in p,
                       p['mapping'], p['frequency'] > 0, len(p['_sigma']),
                       p['lambda_from_center'], p['center_on_edge'],
                       tuple(st)))
    out = common.run_driver(lines + slines + search_lines, timeout=3000,
                            jobs=8)
    o1 = out[:len(lines)]
    o2 = out[len(lines):len(lines)+len(slines)]
    o3 = dict(zip(search_meta, out[len(lines)+len(slines):]))
    # per-call correspondence
    for (t, i, c), o in zip(smeta, o2):
        r = c[6]
        if o == 'none':
            ok = r[2] is False
        elif o == 'bad-op':
            ok = False
        else:
            a, b = o.split(' | ')
            a = a.split()
            ws = np.array([float(Fr(x)) for x in b.split()])
            ok = (r[2] is not False and int(r[2]) == int(a[2]) and
                  len(r[1]) == ws.size and
                  np.allclose(r[1], ws, rtol=1e-9, atol=0) and
                  abs(r[0][0]-float(Fr(a[0]))) <= 1e-9*max(1, abs(r[0][0])) and
                  abs(r[0][1]-float(Fr(a[1]))) <= 1e-9*max(1, abs(r[0][1])))
        if not ok:
            bad.append(('stretch-call', t, i, stretch_line(c)[:300], o[:200],
                        str(c[6])[:200]))
    # whole-function correspondence
    for ci, ((p, kw, kind, x0, hx, rec, sal, dmin, wl), o) in enumerate(
            zip(meta, o1)):
        if o in ('err-domain', 'err-seasurface'):
            if kind != o:
                bad.append(('error-kind', kind, o, repr(kw)[:300]))
            continue
        if o == 'bad-op':
            bad.append(('bad-op', repr(kw)[:300]))
            continue
        parts = [s.strip() for s in o.split('|')]
        if kind.startswith('err') or kind.startswith('other'):
            bad.append(('error-kind', kind, parts[4][:40], repr(kw)[:300]))
            continue
        d0, d1, c0, c1 = (float(Fr(x)) for x in parts[0].split())
        ce = [float(Fr(x)) for x in parts[1].split()]
        cws = np.array([float(Fr(x)) for x in parts[2].split()])
        # hypotheses of theorem oaw_post on the model's centre part (exact)
        cwq = [Fr(x) for x in parts[2].split()]
        ceq = [Fr(x) for x in parts[1].split()]
        hyp_ok = bool(cwq) and all(w > 0 for w in cwq) and \
            ceq[1] == ceq[0] + sum(cwq)
        stats['hyp_checked'] = stats.get('hyp_checked', 0) + 1
        if not hyp_ok:
            stats['hyp_failed'] = stats.get('hyp_failed', 0) + 1
        cs = rec.stretch
        mism = []
        if cs:
            f = cs[0]
            sc = max(abs(d0), abs(d1), 1.0)
            if not (abs(f[4][0]-d0) <= 1e-9*sc and abs(f[4][1]-d1) <= 1e-9*sc):
                mism.append(('domain', f[4], (d0, d1)))
            if not (np.allclose(f[0], ce, rtol=1e-9, atol=1e-9*sc) and
                    f[1].size == cws.size and np.allclose(f[1], cws, rtol=1e-9)):
                mism.append(('centre-part', f[0], f[1].tolist(), ce,
                             cws.tolist()))
            cd = [c for c in cs if c[5]]
            if cd:
                g = cd[0][4]
                scc = max(abs(c0), abs(c1), 1.0)
                if not (abs(g[0]-c0) <= 1e-9*scc and abs(g[1]-c1) <= 1e-9*scc):
                    mism.append(('comp-domain', g, (c0, c1)))
        # found grid: from the search on the code's own floats
        so = o3.get(ci)
        sparts = [x.strip() for x in so.split('|')] if so else ['none']
        if so is None:
            pass
        elif sparts[0] == 'none':
            if kind != 'none':
                mism.append(('found', kind, 'none'))
        else:
            parts = parts[:4] + sparts
            a = parts[4].split()
            nx, isa, ica, sdlen, mx0 = int(a[0]), int(a[1]), int(a[2]), \
                int(a[3]), float(Fr(a[4]))
            ws = np.array([float(Fr(x)) for x in parts[5].split()])
            if kind != 'ok':
                mism.append(('found', kind, (nx, isa, ica)))
            else:
                last = cs[-1]
                first = [c for c in cs if not c[5]][-1]
                csa, cca = first[2], last[2]
                msa = sal[isa] if isa < len(sal) else None
                if not (len(hx) == nx == ws.size and
                        abs(csa-msa) <= 1e-12 and
                        np.allclose(hx, ws, rtol=1e-9) and
                        abs(x0-mx0) <= 1e-9*max(1.0, abs(x0))):
                    mism.append(('found', (len(hx), csa, cca, x0),
                                 (nx, msa, ica, mx0)))
        if mism:
            # near-tie anywhere in the recorded calls explains an integer
            # decision difference
            if any(margin(c) < 1e-7 for c in cs) and \
                    all(m[0] == 'found' for m in mism):
                stats['near_tie_cases'] += 1
                continue
            bad.append(('oaw', mism[:2], repr(kw)[:400]))
    ctx.cov['oaw_stats'] = stats
    ctx.oblige('hypotheses of theorem oaw_post (centre part non-empty, '
               'positive, end = start + sum) hold on the model output of '
               'every executed case', 'monitor',
               stats.get('hyp_failed', 0) == 0,
               f"{stats.get('hyp_failed', 0)} of {stats.get('hyp_checked', 0)}")
    ctx.cov['stretch_calls_compared'] = len(slines)
    ctx.oblige('correspondence: origin_and_widths (domain, vector cut, centre '
               'part, sea surface, computational domain, search result) == '
               'Grd.oaw; recorded _stretch calls == Grd.stretch; '
               'postconditions hold on every returned mesh', 'correspondence',
               not bad and len(ctx.violations) == nv0, str(bad[:2])[:600])
    ctx.samples.append({'oaw_line': lines[0][:400], 'model': o1[0][:300]})
    return bad


# --------------------------------------------------------------------------
def suite_post(ctx):
    """Postconditions only, wide parameter ranges (default cell numbers)."""
    import emg3d
    rng = ctx.nprng('post')
    n = 600 if ctx.thorough else 150
    nv0 = len(ctx.violations)
    kinds = {}
    for t in range(n):
        p = gen_case(rng, wide=True)
        kw = call_kwargs(emg3d, p)
        kind, x0, hx, warned, _ = run_oaw(emg3d, kw, rec=False)
        kinds[kind] = kinds.get(kind, 0) + 1
        if kind.startswith('other'):
            ctx.violation('unexpected-error', f'origin_and_widths raised '
                          f'{kind}', {'kwargs': repr(kw)})
        if kind == 'err-seasurface' and not (
                'seasurface' in p and p['seasurface'] <= p['center']):
            ctx.violation('unexpected-error', 'seasurface rejected although '
                          'above the centre', {'kwargs': repr(kw)})
        if kind == 'ok':
            dmin, wl = physics(p)
            for sig, txt in post_check(p, kw, x0, hx, warned, dmin, wl):
                ctx.violation(sig, 'origin_and_widths: ' + txt,
                              {'kwargs': repr(kw)})
            # raise_error=False gives the same mesh
        if kind == 'none':
            with warnings.catch_warnings():
                warnings.simplefilter('ignore')
                r = emg3d.meshes.origin_and_widths(**kw, raise_error=False)
            if r[0] is not None or r[1] is not None:
                ctx.violation('no-mesh-not-none', 'raise_error=False did not '
                              'return (None, None)', {'kwargs': repr(kw)})
        ctx.count(key=('post', t, kind))
    ctx.cov['post_kinds'] = kinds
    ctx.oblige('monitor: every mesh returned by origin_and_widths meets the '
               'postconditions (cell number, positivity, survey domain, '
               'buffer, stretching, centre, vector nodes, sea surface)',
               'monitor', len(ctx.violations) == nv0, '')
    return []


# --------------------------------------------------------------------------
def suite_route(ctx):
    import emg3d
    rng = ctx.nprng('route')
    n = 120 if ctx.thorough else 30
    bad = []
    nv0 = len(ctx.violations)
    for t in range(n):
        ps = [gen_case(rng) for _ in range(3)]
        f = ps[0]['frequency']
        mapping = ps[0]['mapping']
        mp = getattr(emg3d.maps, 'Map'+mapping)()
        _ = rng.choice([1, 2, 3, 4, 7])
        npr = [7, 3, 4, 2, 1][t % 5]        # every format in every run
        sig = 10.0**rng.uniform(-3, 1, npr)
        with warnings.catch_warnings():
            warnings.simplefilter('ignore')
            prop = np.asarray(mp.forward(sig.copy()), float)
        # per-direction property triples as documented
        if npr == 1:
            tri = [[0, 0, 0]]*3
        elif npr == 2:
            tri = [[0, 1, 1]]*3
        elif npr == 3:
            tri = [[0, 2, 2], [0, 2, 2], [0, 1, 2]]
        elif npr == 4:
            tri = [[0, 1, 1], [0, 1, 1], [0, 2, 3]]
        else:
            tri = [[0, 1, 2], [0, 3, 4], [0, 5, 6]]
        center = tuple(p['center'] for p in ps)
        # domain / vector per direction in a random accepted format
        use_vec = [('vector' in p) for p in ps]
        for p in ps:
            if 'domain' not in p and 'distance' not in p and 'vector' not in p:
                p['domain'] = [p['center']-500, p['center']+500]
        fmt = str(rng.choice(['tuple', 'dict']))

        def pack(name):
            vals = [p.get(name) for p in ps]
            if all(v is None for v in vals):
                return None
            if fmt == 'dict':
                return {'x': vals[0], 'y': vals[1], 'z': vals[2]}
            return tuple(vals)
        kw = {'frequency': f, 'properties': prop.tolist() if npr > 1 else
              float(prop[0]), 'center': center, 'mapping': mapping}
        for name in ['domain', 'distance', 'vector']:
            v = pack(name)
            if v is not None:
                kw[name] = v
        # shared or per-direction options
        per = {}
        for name in ['stretching', 'min_width_limits', 'min_width_pps',
                     'center_on_edge']:
            mode = str(rng.choice(['shared', 'per', 'absent']))
            if name == 'center_on_edge' and mode == 'absent':
                mode = 'shared'
            if mode == 'shared':
                v = ps[0].get(name)
                if v is not None:
                    kw[name] = v
                per[name] = [v, v, v]
            elif mode == 'per':
                vals = [p.get(name) for p in ps]
                kw[name] = {'x': vals[0], 'y': vals[1], 'z': vals[2]} \
                    if fmt == 'dict' else tuple(vals)
                per[name] = vals
            else:
                per[name] = [None]*3
        for name in ['lambda_factor', 'max_buffer', 'lambda_from_center']:
            kw[name] = ps[0][name]
        kw['cell_numbers'] = [8, 16, 24, 32, 40, 48, 64, 80, 96, 128]
        ss = ps[2].get('seasurface')
        if ss is not None:
            kw['seasurface'] = ss
        with warnings.catch_warnings(record=True) as wl_mesh:
            warnings.simplefilter('always')
            try:
                mesh = emg3d.construct_mesh(**kw)
                got = [(float(mesh.origin[i]), np.asarray(mesh.h[i]))
                       for i in range(3)]
                gk = 'ok'
            except RuntimeError:
                got, gk = None, 'none'
            except ValueError as e:
                got, gk = None, 'err:'+str(e)[:60]
        with warnings.catch_warnings(record=True) as wl_dir:
            warnings.simplefilter('always')
            exp, ek = [], 'ok'
            for i in range(3):
                k1 = {'frequency': f, 'mapping': mapping,
                      'properties': [float(prop[j]) for j in tri[i]],
                      'center': center[i],
                      'cell_numbers': kw['cell_numbers'],
                      'lambda_factor': kw['lambda_factor'],
                      'max_buffer': kw['max_buffer'],
                      'lambda_from_center': kw['lambda_from_center'],
                      'raise_error': False}
                for name in ['domain', 'distance', 'vector']:
                    if ps[i].get(name) is not None:
                        k1[name] = ps[i][name]
                for name, vals in per.items():
                    if vals[i] is not None:
                        k1[name] = vals[i]
                if i == 2 and ss is not None:
                    k1['seasurface'] = ss
                try:
                    r = emg3d.meshes.origin_and_widths(**k1)
                except ValueError as e:
                    ek = 'err:'+str(e)[:60]
                    break
                if r[0] is None:
                    ek = 'none'
                exp.append(r)
        # the sea surface is a node of the returned mesh, or a warning says
        # it is not - also through construct_mesh
        def ss_warned(wl):
            return any(issubclass(w_.category, UserWarning) and
                       'easurface' in str(w_.message) for w_ in wl)
        if gk == 'ok' and ss is not None:
            nodes_z = got[2][0] + np.r_[0, np.cumsum(got[2][1])]
            is_node = bool(np.any(np.abs(nodes_z - ss) <=
                                  1e-9*max(1.0, abs(ss))))
            if not is_node and not ss_warned(wl_mesh):
                bad.append(('seasurface', repr(kw)[:300]))
                ctx.violation(
                    'seasurface-not-node-no-warning',
                    f'construct_mesh: sea surface {ss} is not a node of the '
                    f'mesh and no warning was raised (origin_and_widths for '
                    f'the z-direction warns: {ss_warned(wl_dir)})',
                    {'kwargs': repr(kw)})
        if gk != ek:
            bad.append((gk, ek, repr(kw)[:400]))
            ctx.violation('construct-mesh-routing',
                          f'construct_mesh: {gk}; per-direction '
                          f'origin_and_widths: {ek}', {'kwargs': repr(kw)})
        elif gk == 'ok':
            for i in range(3):
                if not (got[i][0] == exp[i][0] and
                        np.array_equal(got[i][1], exp[i][1])):
                    bad.append(('direction', i, repr(kw)[:400]))
                    ctx.violation(
                        'construct-mesh-routing',
                        f'construct_mesh direction {"xyz"[i]} differs from '
                        f'origin_and_widths with the documented '
                        f'per-direction parameters',
                        {'kwargs': repr(kw), 'direction': i})
        ctx.count(key=('route', t, gk, npr, fmt, tuple(use_vec)))
    # sea surfaces that cannot become a node: the warning must come through
    # construct_mesh (fixed configurations, jittered)
    for t in range(5):
        j = float(rng.uniform(-2, 2))
        base = dict(frequency=1.0, properties=[0.3, 1.0, 1e8])
        cfgs = [
            dict(center=(0, 0, -10.+j), seasurface=0.0, min_width_limits=50.,
                 domain=([-500, 500], [-500, 500], [-1000, -5])),
            dict(center=(0, 0, -10.+j), seasurface=0.0, min_width_limits=100.,
                 center_on_edge=True,
                 domain=([-500, 500], [-500, 500], [-1000, -5])),
            dict(center=(0, 0, -300.), seasurface=-30.0+j,
                 min_width_limits=100., stretching=[1.0, 1.5],
                 domain=([-500, 500], [-500, 500], [-1000, -100])),
            dict(center=(0, 0, -300.), seasurface=-30.0+j,
                 domain=([-500, 500], [-500, 500], None),
                 vector=(None, None, np.array([-1000., -700., -400., -100.]))),
            dict(center=(0, 0, -300.), seasurface=-95.0+j,
                 domain=([-500, 500], [-500, 500], None),
                 vector=(None, None, np.array([-1000., -700., -400., -100.]))),
        ]
        kw = {**base, **cfgs[t]}
        with warnings.catch_warnings(record=True) as wl_mesh:
            warnings.simplefilter('always')
            try:
                mesh = emg3d.construct_mesh(**kw)
            except Exception:      # noqa  (fails loudly: fine)
                continue
        ss = kw['seasurface']
        is_node = bool(np.any(np.abs(mesh.nodes_z - ss) <= 1e-9))
        warned = any(issubclass(w_.category, UserWarning) and
                     'easurface' in str(w_.message) for w_ in wl_mesh)
        if not is_node and not warned:
            bad.append(('seasurface', t))
            ctx.violation(
                'seasurface-not-node-no-warning',
                f'construct_mesh: sea surface {ss} is not a node of the mesh '
                f'(nearest {float(mesh.nodes_z[np.argmin(np.abs(mesh.nodes_z-ss))])}) '
                f'and no warning was raised', {'kwargs': repr(kw)})
        ctx.count(key=('route-seasurface', t, is_node, warned))
    ctx.oblige('correspondence: construct_mesh == per-direction '
               'origin_and_widths with parameters split as documented '
               '(properties of length 1,2,3,4,7; tuple/dict formats)',
               'correspondence', not bad and len(ctx.violations) == nv0,
               str(bad[:1])[:500])
    return bad


def suite_estimate(ctx):
    """estimate_gridding_opts: the estimated `properties` are, in the order
    construct_mesh documents ([source, x-, x+, y-, y+, z-, z+]), the property
    at the centre and the lowest conductivity of each outermost layer."""
    import emg3d
    rng = ctx.nprng('estimate')
    bad = []
    for t in range(12 if ctx.thorough else 6):
        shp = tuple(int(rng.integers(4, 8)) for _ in range(3))
        hs = [rng.uniform(50., 200., n) for n in shp]
        grid = emg3d.TensorMesh(hs, (-300., -250., -400.))
        mapping = MAPS[t % 6]
        mp = getattr(emg3d.maps, 'Map'+mapping)()
        comps = [['x'], ['x', 'y'], ['x', 'z'], ['x', 'y', 'z']][t % 4]
        sig = {}
        for d in comps:
            a = 10.0**rng.uniform(-1, 1, shp)
            # six faces with their own level (and variation within a face)
            for k, (sl, lvl) in enumerate([
                    ((0, slice(None), slice(None)), 1e-3),
                    ((-1, slice(None), slice(None)), 3e-3),
                    ((slice(None), 0, slice(None)), 1e-2),
                    ((slice(None), -1, slice(None)), 3e-2),
                    ((slice(None), slice(None), 0), 1e2),
                    ((slice(None), slice(None), -1), 1e-6)]):
                a[sl] = lvl*10.0**rng.uniform(0, 0.3, a[sl].shape)
            sig[d] = a
        with warnings.catch_warnings():
            warnings.simplefilter('ignore')
            model = emg3d.Model(grid, mapping=mapping, **{
                'property_'+d: mp.forward(v.copy()) for d, v in sig.items()})
            src = emg3d.TxElectricDipole(
                (float(grid.nodes_x[2])+5., float(grid.nodes_y[1])+7.,
                 float(grid.nodes_z[2])+3., 0., 0.))
            survey = emg3d.Survey(
                sources=src, receivers=emg3d.RxElectricPoint(
                    (float(grid.nodes_x[-2])-5., float(grid.nodes_y[-2])-5.,
                     float(grid.nodes_z[2])+3., 0., 0.)), frequencies=1.0)
            try:
                go = emg3d.meshes.estimate_gridding_opts({}, model, survey)
            except Exception as e:      # noqa
                bad.append(('raised', str(e)[:80]))
                continue

        def low(sl):
            return min(float(np.min(v[sl])) for v in sig.values())
        cen = go['center']
        ic = [int(np.argmin(np.abs(n - c))) for n, c in zip(
            (grid.nodes_x, grid.nodes_y, grid.nodes_z), cen)]
        exp_sig = [low((ic[0], ic[1], ic[2])),
                   low((0, slice(None), slice(None))),
                   low((-1, slice(None), slice(None))),
                   low((slice(None), 0, slice(None))),
                   low((slice(None), -1, slice(None))),
                   low((slice(None), slice(None), 0)),
                   low((slice(None), slice(None), -1))]
        got_sig = [float(mp.backward(np.array(float(v))))
                   for v in go['properties']]
        if len(got_sig) != 7 or not np.allclose(got_sig, exp_sig, rtol=1e-9):
            bad.append((mapping, comps, got_sig, exp_sig))
            ctx.violation(
                'estimated-properties-order',
                f'estimate_gridding_opts ({mapping}, components {comps}): '
                f'properties correspond to conductivities '
                f'{[float(f"{v:.4g}") for v in got_sig]}, documented '
                f'[centre, x-, x+, y-, y+, z-, z+] = '
                f'{[float(f"{v:.4g}") for v in exp_sig]}',
                {'mapping': mapping, 'components': comps})
        ctx.count(key=('estimate', t, mapping, tuple(comps)))
    ctx.oblige('monitor: estimate_gridding_opts returns the properties in the '
               'documented order [centre, x-, x+, y-, y+, z-, z+], each the '
               'lowest conductivity of its outermost layer', 'monitor',
               not bad, str(bad[:1])[:400])
    return bad


def suite_goodmg(ctx):
    import emg3d
    lines, got = [], []
    for mn in [0, 1, 7, 16, 100, 1024, 5000]:
        for ml in [1, 2, 3, 4, 5, 7, 8, 19]:
            for md in [0, 1, 3, 5]:
                lines.append(f"goodmg {mn} {ml} {md}")
                got.append(" ".join(str(int(v)) for v in
                                    emg3d.meshes.good_mg_cell_nr(mn, ml, md)))
                ctx.count(key=lines[-1])
    out = common.run_driver(lines, timeout=600)
    bad = [(ln, g[:80], o[:80]) for ln, g, o in zip(lines, got, out) if g != o]
    ctx.oblige('correspondence: good_mg_cell_nr == Grd.goodMg (224 parameter '
               'triples)', 'correspondence', not bad, str(bad[:2]))
    return bad


def run(ctx):
    ctx.lean('Emg3dVerif.Props.C16', THEOREMS)
    ctx.assumptions += [
        'scipy.optimize.brentq returns a root of the geometric-sum equation '
        '(its results enter the model as inputs; theorem '
        'seasurface_root_node assumes the root property)',
        'skin depth / wavelength / cell width are evaluated by independent '
        'float formulas in the harness (sqrt is not modelled)',
        'float comparisons within 1e-9 of a tie are skipped in the '
        'model comparison (counted in oaw_stats); the postcondition monitors '
        'apply to them all the same',
    ]
    b = []
    for s in (suite_exact, suite_goodmg, suite_oaw, suite_post, suite_route,
              suite_estimate):
        b += s(ctx) or []
    if b and not ctx.violations:
        ctx.violation('model-correspondence-broken',
                      f'gridding no longer matches the model '
                      f'({str(b[:1])[:300]}); the postcondition monitors '
                      'found no violating mesh',
                      {'first': str(b[:1])[:800]}, found_input=False)


def replay(ctx, rp):
    for s in (suite_oaw, suite_post, suite_route):
        s(ctx)
    for v in ctx.violations:
        print('replay:', v['sig'], v['what'][:200])
    return 1 if ctx.violations else 0
