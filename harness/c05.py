"""C05 — grid hierarchy and V/W/F cycling.

Correspondence: the event trace of the real `emg3d.solve` (recursion entries,
smoother kernel calls, restrictions, prolongations, end-of-cycle direction
updates; recorded by wrappers installed from here) must equal the event list
computed by the Lean model `MGH.mgTrace`, about which the theorems of
`Props/C05.lean` are proved.  Function level: `_max_level`, `_current_sc_dir`,
`_current_lr_dir`, `restriction`'s coarse shape — exhaustively.

Property oracle (used when something disagrees, and as a monitor on every real
trace): the clauses of the statement evaluated directly on the recorded trace.
"""
import itertools
import warnings
import numpy as np

from harness import common

THEOREMS = [
    'MGH.halvings_iter',
    'MGH.coarsen_of_unblocked',
    'MGH.descent_invariant',
    'MGH.bottom_exact',
    'MGH.bottom_matches_header',
    'MGH.no_line_relaxation_on_two_cells',
    'MGH.smooth_events_no_two_cell_line',
    'MGH.passes_levels_V',
    'MGH.passes_levels_W',
    'MGH.passes_levels_F',
    'MGH.cycle_levels_V',
    'MGH.cycle_levels_W',
    'MGH.cycle_levels_F',
    'MGH.coarsest_visits_V',
    'MGH.coarsest_visits_W',
    'MGH.coarsest_visits_F',
    'MGH.dirs_advance_once_per_cycle',
    'MGH.cycmax_follows_direction',
    'MGH.mgTrace_eq_spec',
    'MGH.shapeAt_ge_two',
    'MGH.trace_shapes_ge_two',
]


def _setup():
    import emg3d
    from emg3d import solver as S, core
    return emg3d, S, core


class Recorder:
    """Install wrappers on emg3d.solver / emg3d.core; record events."""

    def __init__(self, noop, ncyc_target=None):
        self.emg3d, self.S, self.core = _setup()
        self.noop = noop
        self.target = ncyc_target
        self.traces = []      # one list of events per level-0 multigrid call
        self.ncyc = []
        self.k = 0            # fine-grid cycles done so far (pattern position)
        self.k0 = []
        self.levels = []
        self.kern = []
        self.saved = {}

    def __enter__(self):
        S, core = self.S, self.core
        names_S = ['multigrid', 'smoothing', 'restriction', 'prolongation',
                   '_terminate']
        names_C = ['gauss_seidel', 'gauss_seidel_x', 'gauss_seidel_y',
                   'gauss_seidel_z', 'amat_x', 'restrict']
        for n in names_S:
            self.saved[('S', n)] = getattr(S, n)
        for n in names_C:
            self.saved[('C', n)] = getattr(core, n)
        rec = self

        def shp(grid):
            return ' '.join(str(int(x)) for x in grid.shape_cells)

        def multigrid(model, sfield, efield, var, **kw):
            level = kw.get('level', 0)
            if level == 0:
                rec.traces.append([])
                rec.ncyc.append(0)
                rec.k0.append(rec.k)
            rec.traces[-1].append(
                f"E {level} {kw.get('new_cycmax', 0)} {shp(model.grid)}")
            rec.levels.append(level)
            try:
                return rec.saved[('S', 'multigrid')](
                    model, sfield, efield, var, **kw)
            finally:
                rec.levels.pop()

        def smoothing(model, sfield, efield, nu, lr_dir):
            rec.kern = []
            rec.saved[('S', 'smoothing')](model, sfield, efield, nu, lr_dir)
            rec.traces[-1].append(
                f"S {rec.levels[-1]} {shp(model.grid)} {int(nu)} "
                f"{''.join(rec.kern)}")

        def restriction(model, sfield, residual, sc_dir):
            out = rec.saved[('S', 'restriction')](
                model, sfield, residual, sc_dir)
            rec.traces[-1].append(
                f"R {rec.levels[-1]} {shp(model.grid)} {int(sc_dir)} "
                f"{shp(out[0].grid)}")
            return out

        def prolongation(efield, cefield, sc_dir):
            rec.traces[-1].append(
                f"P {rec.levels[-1]} {shp(efield.grid)} {int(sc_dir)}")
            if not rec.noop:
                rec.saved[('S', 'prolongation')](efield, cefield, sc_dir)

        def _terminate(var, l2_last, l2_stag, it):
            rec.traces[-1].append(
                f"C {int(it)} {int(var.sc_dir)} {int(var.lr_dir)}")
            rec.ncyc[-1] += 1
            rec.k += 1
            if rec.noop:
                if it >= rec.target:
                    var.exit_message = 'CONVERGED'
                    return True
                return False
            return rec.saved[('S', '_terminate')](var, l2_last, l2_stag, it)

        def kernel(letter, name):
            orig = rec.saved[('C', name)]

            def f(*a):
                rec.kern.append(letter)
                if not rec.noop:
                    orig(*a)
            return f

        S.multigrid, S.smoothing = multigrid, smoothing
        S.restriction, S.prolongation = restriction, prolongation
        S._terminate = _terminate
        core.gauss_seidel = kernel('g', 'gauss_seidel')
        core.gauss_seidel_x = kernel('x', 'gauss_seidel_x')
        core.gauss_seidel_y = kernel('y', 'gauss_seidel_y')
        core.gauss_seidel_z = kernel('z', 'gauss_seidel_z')
        if self.noop:
            core.amat_x = lambda *a: None
            core.restrict = lambda *a: None
        return self

    def __exit__(self, *a):
        for (w, n), f in self.saved.items():
            setattr(self.S if w == 'S' else self.core, n, f)


_grid_cache = {}


def problem(shape, stretched=False):
    emg3d, S, core = _setup()
    key = (shape, stretched)
    if key not in _grid_cache:
        if stretched:
            hs = [1.0 + 0.25*np.arange(n) for n in shape]
        else:
            hs = [np.ones(n) for n in shape]
        grid = emg3d.TensorMesh(hs, origin=(0, 0, 0))
        model = emg3d.Model(grid, 1.0)
        sf = emg3d.Field(grid, frequency=1.0)
        sf.fx[0, 1 if shape[1] > 1 else 0, 1 if shape[2] > 1 else 0] = 1.0
        if len(_grid_cache) > 200:
            _grid_cache.clear()
        _grid_cache[key] = (grid, model, sf)
    return _grid_cache[key]


def digits_of(x, true_pat):
    if x is True:
        return true_pat
    return [int(c) for c in str(abs(int(x)))]


def real_run(cfg, noop):
    """Run the real solver for one configuration; return list of
    (op line for the model, observed trace string)."""
    emg3d, S, core = _setup()
    shape, cyc, sc, lr, clevel, nus, ncyc, ssl = (
        cfg['shape'], cfg['cycle'], cfg['sc'], cfg['lr'], cfg['clevel'],
        cfg['nus'], cfg['ncyc'], cfg.get('ssl', False))
    grid, model, sf = problem(tuple(shape), cfg.get('stretched', False))
    with Recorder(noop, ncyc) as rec, warnings.catch_warnings():
        warnings.simplefilter('ignore')
        emg3d.solve(model, sf, sslsolver=ssl, semicoarsening=sc,
                    linerelaxation=lr, cycle=cyc, verb=-1, maxit=ncyc,
                    clevel=clevel, nu_init=nus[0], nu_pre=nus[1],
                    nu_coarse=nus[2], nu_post=nus[3], tol=1e-30 if not ssl
                    else 1e-6)
    scp = ''.join(map(str, digits_of(sc, [1, 2, 3])))
    lrp = ''.join(map(str, digits_of(lr, [4, 5, 6])))
    out = []
    for tr, n, k0 in zip(rec.traces, rec.ncyc, rec.k0):
        line = (f"mg {cyc} {shape[0]} {shape[1]} {shape[2]} {clevel} {scp} "
                f"{lrp} {nus[0]} {nus[1]} {nus[2]} {nus[3]} {n} {k0}")
        out.append((line, ' | '.join(tr)))
    return out


# --------------------------------------------------------------------------
# Property oracle on a recorded trace (independent of the model)
# --------------------------------------------------------------------------

def halvings(n):
    c = 0
    while n % 2 == 0 and n > 2:
        c += 1
        n //= 2
    return c


def oracle(cfg, line, trace):
    """Check the clauses of C05 directly on an observed trace.
    Returns None or a description of the failing clause."""
    w = line.split()
    cyc, shape, clevel = w[1], tuple(map(int, w[2:5])), int(w[5])
    scp = [int(c) for c in w[6]]
    lrp = [int(c) for c in w[7]]
    nu_init, nu_pre, nu_post = int(w[8]), int(w[9]), int(w[11])
    k0 = int(w[13])
    hv = [halvings(n) for n in shape]
    cl = [h if clevel < 0 else min(h, clevel) for h in hv]
    evs = [e.split() for e in trace.split(' | ')]
    k = k0
    cur = []          # events of current cycle
    ncycle = 0
    for e in evs:
        if e[0] == 'C':
            sc = scp[k % len(scp)]
            lrd = lrp[k % len(lrp)]
            dirs = [i for i in range(3) if i + 1 != sc]
            D = max(cl[i] for i in dirs)
            exp_bottom = tuple(
                shape[i] // 2**cl[i] if i + 1 != sc else shape[i]
                for i in range(3))
            if ncycle == 0 and nu_init > 0:
                # initial smoothing precedes the first cycle
                i0 = next(i for i, x in enumerate(cur) if x[0] == 'S')
                cur = cur[:i0] + cur[i0+1:]
            msg = check_cycle(cur, cyc, shape, sc, lrd, D, exp_bottom,
                              nu_pre, nu_post)
            if msg:
                return f'cycle {k}: {msg}'
            # directions advance exactly once per fine-grid cycle
            nsc = scp[(k+1) % len(scp)]
            nlr = lrp[(k+1) % len(lrp)]
            if (int(e[2]), int(e[3])) != (nsc, nlr):
                return (f'cycle {k}: directions after cycle are sc={e[2]} '
                        f'lr={e[3]}, expected {nsc} {nlr}')
            cur = []
            k += 1
            ncycle += 1
        else:
            cur.append(e)
    return None


def check_cycle(evs, cyc, shape, sc, lrd, D, exp_bottom, nu_pre, nu_post):
    levels = []
    shapes = {0: shape}
    for e in evs:
        if e[0] == 'E':
            continue
        lvl = int(e[1])
        s = tuple(map(int, e[2:5]))
        if min(s) < 2:
            return f'level {lvl} has shape {s} (< 2 cells)'
        if e[0] == 'S':
            ker = e[6] if len(e) > 6 else ''
            for letter, n in zip('xyz', s):
                if letter in ker and n == 2:
                    return (f'line relaxation along {letter} on two-cell '
                            f'direction, shape {s}')
            levels.append(lvl)
            if lvl > D:
                return f'level {lvl} deeper than coarsest level {D}'
            if lvl == D and s != exp_bottom:
                return (f'coarsest level {D} has shape {s}, header implies '
                        f'{exp_bottom}')
        if e[0] == 'R':
            cs = tuple(map(int, e[6:9]))
            for i in range(3):
                if cs[i] != s[i]:
                    if not (s[i] % 2 == 0 and s[i] > 2 and cs[i] == s[i]//2):
                        return (f'direction {i} of shape {s} restricted to '
                                f'{cs}')
                    if i + 1 == sc:
                        return f'semicoarsening direction {sc} was coarsened'
            if cs == s:
                return f'restriction of {s} did not coarsen anything'
    if not levels:
        return 'no smoothing at all in a cycle'
    if max(levels) != D:
        return f'deepest level visited {max(levels)}, expected {D}'
    nvis = sum(1 for x in levels if x == D)
    if D == 0:
        exp = 1
    elif cyc == 'V':
        exp = 1
    elif cyc == 'W':
        exp = 2**(D-1)
    else:
        exp = D
    if nvis != exp:
        return (f'{cyc}-cycle with depth {D}: coarsest level visited {nvis} '
                f'times, documented order has {exp}')
    # documented order (only when pre- and post-smoothing are on, so that
    # every level visit is visible)
    if nu_pre > 0 and nu_post > 0 and D > 0:
        def V(d):
            return [d] if d == D else [d] + V(d+1) + [d]

        def W(d):
            return [d] if d == D else ([d] + W(d+1) + [d])*2

        def F(d):
            return [d] if d == D else [d] + F(d+1) + [d] + [d] + V(d+1) + [d]
        if cyc == 'V':
            exp_l = V(0)
        elif cyc == 'W':
            exp_l = [0] + (W(1) if D >= 1 else []) + [0]
        else:
            exp_l = [0] + (F(1) if D >= 1 else []) + [0]
        got = levels
        if got != exp_l:
            return f'level order {got} differs from documented {exp_l}'
    return None


# --------------------------------------------------------------------------

def gen_cfg(rng, maxn, real):
    pool_small = [2, 3, 4, 5, 6, 7, 8, 9, 10, 12, 14, 16, 18, 20, 24]
    if real:
        shape = [int(rng.choice([2, 3, 4, 5, 6, 8, 10, 12, 16])) for _ in '123']
    elif rng.random() < 0.5:
        shape = [int(rng.choice(pool_small)) for _ in '123']
    else:
        shape = [int(rng.integers(2, maxn+1)) for _ in '123']
    cyc = str(rng.choice(['V', 'W', 'F']))
    sc = rng.choice([0, 1, 2, 3, -1, -2, -3])
    if sc == -1:
        sc = True
    elif sc == -2:
        sc = int(''.join(str(int(d)) for d in rng.integers(
            0, 4, size=int(rng.integers(2, 5)))).lstrip('0') or '10')
    elif sc == -3:
        sc = int(rng.choice([1213, 12, 32, 123, 3210, 1020, 2030]))
    else:
        sc = int(sc)
    if isinstance(sc, int) and not isinstance(sc, bool) and 4 <= sc <= 9:
        sc = 12
    lr = rng.choice([0, 1, 2, 3, 4, 5, 6, 7, -1, -2])
    if lr == -1:
        lr = True
    elif lr == -2:
        # multi-digit pattern; digits 0 (point-wise) .. 7, first digit not 0
        lr = int(str(int(rng.integers(1, 8))) + ''.join(
            str(int(d)) for d in rng.integers(0, 8, size=int(
                rng.integers(1, 4)))))
    else:
        lr = int(lr)
    clevel = int(rng.choice([-1, -1, -1, 0, 1, 2, 3, 5]))
    nus = [int(rng.choice([0, 0, 1, 2])), int(rng.choice([0, 1, 2, 2])),
           int(rng.choice([0, 1, 2])), int(rng.choice([0, 1, 2, 2]))]
    ncyc = int(rng.integers(1, 6))
    return dict(shape=shape, cycle=cyc, sc=sc, lr=lr, clevel=clevel, nus=nus,
                ncyc=ncyc)


def function_level(ctx, nmax):
    """Exhaustive function-level comparison."""
    emg3d, S, core = _setup()
    lines, exp = [], []
    # _max_level: every n up to nmax in each single direction, all clevels.
    for n in range(2, nmax+1):
        for cl in [-1, 0, 1, 2, 3, 4, 5, 6, 7, 8, 9, 10, 11]:
            pos = n % 3
            shape = [6, 12, 10]
            shape[pos] = n
            with warnings.catch_warnings():
                warnings.simplefilter('ignore')
                var = S.MGParameters(
                    cycle='F', sslsolver=False, semicoarsening=False,
                    linerelaxation=False, shape_cells=tuple(shape), verb=0,
                    clevel=cl)
            lines.append(f'maxlevel {shape[0]} {shape[1]} {shape[2]} {cl}')
            c = var._repr_clevel['clevel']
            rs = var._repr_clevel['shape_cells']
            exp.append(' '.join(str(int(x)) for x in
                                [*var.clevel, *c, *rs]))
    nml = len(lines)

    class G:
        pass
    sizes = [2, 3, 4, 5, 6, 7, 8, 9, 10, 12, 16]
    for s in itertools.product(sizes, repeat=3):
        g = G()
        g.shape_cells = s
        for sc in range(4):
            lines.append(f'scdir {sc} {s[0]} {s[1]} {s[2]}')
            exp.append(str(int(S._current_sc_dir(sc, g))))
        for lr in range(8):
            lines.append(f'lrdir {lr} {s[0]} {s[1]} {s[2]}')
            exp.append(str(int(S._current_lr_dir(lr, g))))
    out = common.run_driver(lines)
    bad = [(l, o, e) for l, o, e in zip(lines, out, exp) if o != e]
    ctx.count(n=len(lines))
    for l in lines[::97]:
        ctx.count(key=('fn', l))
    ctx.cov['function_level_cases'] = len(lines)
    ctx.cov['function_level_maxlevel_cases'] = nml
    ctx.oblige(f'correspondence: _max_level (all n<= {nmax} x clevel), '
               '_current_sc_dir, _current_lr_dir (all codes x 11^3 shapes)',
               'correspondence', not bad,
               f'{len(bad)} of {len(lines)} differ; first: {bad[:2]}')
    return bad


def search_function_level(ctx, bad):
    """A function-level disagreement: look for a failing input of the
    property among solver runs that use the disagreeing shapes."""
    found = 0
    tried = 0
    rng = ctx.nprng('search')
    for (l, o, e) in bad[:40]:
        w = l.split()
        if w[0] == 'maxlevel':
            shape = [int(x) for x in w[1:4]]
            cl = int(w[4])
            scs = [0, 1, 2, 3]
            lrs = [0]
        else:
            shape = [int(x) for x in w[2:5]]
            cl = -1
            scs = [int(w[1])] if w[0] == 'scdir' else [0, 1, 2, 3]
            lrs = [int(w[1])] if w[0] == 'lrdir' else [0]
        shapes = [shape] + [[2*x for x in shape], [4*x for x in shape]]
        for shp in shapes:
            for sc in scs:
                for lr in lrs:
                    for cyc in ['F', 'V']:
                        cfg = dict(shape=shp, cycle=cyc, sc=sc, lr=lr,
                                   clevel=cl, nus=[0, 1, 1, 1], ncyc=2)
                        tried += 1
                        msg = run_and_check(ctx, cfg, noop=True,
                                            model_cmp=False)
                        if msg:
                            found += 1
                            if found >= 3:
                                return found
    if not found:
        ctx.violation('function-level-disagreement',
                      f'{len(bad)} function-level outputs differ from the '
                      f'model, e.g. {bad[0]}; no solver run violating the '
                      f'statement found in {tried} runs',
                      {'correspondence': 'function_level', 'first': bad[:5]},
                      found_input=False)
    return found


def run_and_check(ctx, cfg, noop, model_cmp=True, pending=None):
    """Run the real solver; evaluate the oracle on its trace.  Returns a
    message if the property is violated on this configuration."""
    try:
        runs = real_run(cfg, noop)
    except Exception as e:   # the real code raised on a valid configuration
        msg = f'solver raised {type(e).__name__}: {e}'
        ctx.violation('solver-raises', msg, {'config': cfg})
        return msg
    for line, trace in runs:
        msg = oracle(cfg, line, trace)
        if msg:
            ctx.violation('trace-violates-statement', msg,
                          {'config': cfg, 'model_op': line, 'trace': trace})
            return msg
        if pending is not None:
            pending.append((cfg, line, trace))
    return None


def run(ctx):
    ctx.lean('Emg3dVerif.Props.C05', THEOREMS)
    ctx.assumptions += [
        'kernels are replaced by no-ops for the large-shape traces: control '
        'flow depends on numerics only through _terminate, whose answers are '
        'scripted/recorded',
        'termination of the fine-grid loop is an oracle (number of cycles)',
    ]
    rng = ctx.nprng('cfg')
    bad_fn = function_level(ctx, 1024 if ctx.thorough else 256)
    if bad_fn:
        search_function_level(ctx, bad_fn)

    pending = []
    nviol0 = len(ctx.violations)
    # corpus first
    corpus = [
        dict(shape=[16, 3, 3], cycle='F', sc=True, lr=0, clevel=-1,
             nus=[0, 2, 1, 2], ncyc=3),
        dict(shape=[6, 10, 14], cycle='W', sc=1213, lr=True, clevel=-1,
             nus=[1, 1, 1, 1], ncyc=4),
        dict(shape=[24, 2, 8], cycle='F', sc=2, lr=7, clevel=2,
             nus=[0, 2, 1, 2], ncyc=2),
        # patterns that contain the digit 0 (no semicoarsening / point-wise
        # smoothing in that cycle)
        dict(shape=[8, 12, 8], cycle='V', sc=102, lr=4015, clevel=-1,
             nus=[0, 1, 1, 1], ncyc=4),
    ]
    # multigrid as preconditioner of a Krylov solver (called again and again
    # with the same parameter object), patterns of different lengths
    corpus += [
        dict(shape=[8, 8, 8], cycle='F', sc=True, lr=45, clevel=-1,
             nus=[0, 2, 1, 2], ncyc=6, ssl='bicgstab', stretched=True),
        dict(shape=[8, 4, 8], cycle='V', sc=12, lr=True, clevel=-1,
             nus=[0, 1, 1, 1], ncyc=6, ssl='cgs', stretched=False),
        dict(shape=[8, 8, 4], cycle='W', sc=1213, lr=567, clevel=-1,
             nus=[0, 2, 1, 2], ncyc=6, ssl='gcrotmk', stretched=True),
    ]
    for cfg in corpus:
        run_and_check(ctx, cfg, not cfg.get('ssl'), pending=pending)
    n_noop = 1500 if ctx.thorough else 300
    n_real = 150 if ctx.thorough else 30
    for _ in range(n_noop):
        cfg = gen_cfg(rng, 40, False)
        run_and_check(ctx, cfg, True, pending=pending)
    for i in range(n_real):
        cfg = gen_cfg(rng, 16, True)
        cfg['stretched'] = bool(i % 2)
        if i % 3 == 0:
            cfg['ssl'] = str(rng.choice(['bicgstab', 'cgs', 'gcrotmk']))
            cfg['ncyc'] = 6
        run_and_check(ctx, cfg, False, pending=pending)
    if ctx.thorough:
        # every shape in {2..40}^3, configurations round-robin
        k = 0
        for shape in itertools.product(range(2, 41), repeat=3):
            cfg = gen_cfg(rng, 40, False)
            cfg['shape'] = list(shape)
            cfg['ncyc'] = 1 + (k % 3)
            k += 1
            run_and_check(ctx, cfg, True, pending=pending)
        ctx.cov['exhaustive_shapes_2_40'] = k

    # model comparison
    lines = [p[1] for p in pending]
    out = common.run_driver(lines) if lines else []
    bad = []
    hist = {}
    for (cfg, line, trace), o in zip(pending, out):
        depth = max((int(e.split()[1]) for e in trace.split(' | ')
                     if e[0] == 'S'), default=0)
        key = (line.split()[1], depth,
               len(line.split()[6]) > 1, len(line.split()[7]) > 1)
        hist[key] = hist.get(key, 0) + 1
        ctx.count(key=line if depth > 0 else None)
        if o != trace:
            bad.append((cfg, line, trace, o))
    ctx.cov['trace_histogram(cycle,depth,sc_cycles,lr_cycles)'] = {
        str(k): v for k, v in sorted(hist.items())}
    ctx.cov['traces_compared'] = len(pending)
    ctx.oblige('correspondence: event trace of emg3d.solve == MGH.mgTrace',
               'correspondence', not bad,
               f'{len(bad)} of {len(pending)} traces differ; first: '
               f'{[(b[1], first_diff(b[2], b[3])) for b in bad[:2]]}')
    if pending:
        cfg, line, trace = pending[0]
        ctx.samples.append({'config': cfg, 'model_op': line,
                            'trace_head': trace[:400]})
    if bad and len(ctx.violations) == nviol0:
        # the model no longer describes the code, yet no trace so far violates
        # the statement: search more widely around the disagreeing configs
        found = 0
        for (cfg, line, trace, o) in bad[:20]:
            for cyc in ['F', 'W', 'V']:
                for ncyc in [2, 4]:
                    c2 = dict(cfg, cycle=cyc, ncyc=ncyc, nus=[0, 1, 1, 1])
                    c2.pop('ssl', None)
                    if run_and_check(ctx, c2, True):
                        found += 1
                        break
                if found:
                    break
            if found:
                break
        if not found:
            cfg, line, trace, o = bad[0]
            ctx.violation(
                'trace-disagreement',
                'event trace of the real solver differs from MGH.mgTrace '
                f'({len(bad)} of {len(pending)}); the theorems of Props/C05 '
                'no longer speak about this code. First difference: '
                f'{first_diff(trace, o)}',
                {'correspondence': 'mgTrace', 'config': cfg, 'model_op': line,
                 'real_trace': trace, 'model_trace': o}, found_input=False)


def first_diff(a, b):
    ea, eb = a.split(' | '), b.split(' | ')
    for i, (x, y) in enumerate(zip(ea, eb)):
        if x != y:
            return f'event {i}: real "{x}" vs model "{y}"'
    return f'lengths {len(ea)} vs {len(eb)}'


def replay(ctx, rp):
    cfg = rp['replay'].get('config')
    if not cfg:
        print('replay file names a broken obligation, no input:', rp['what'])
        return 1
    msg = run_and_check(ctx, cfg, noop=not cfg.get('ssl', False))
    print('replay:', msg or 'statement holds on this input')
    return 1 if msg else 0
