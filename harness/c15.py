"""C15 — volume averaging between grids conserves the integrated property.

Suites
  exact : `maps.interp_volume_average.py_func` / `_volume_average_weights` run
          on exact rationals == closed form `VolAvg.volAvg` (overlap lengths
          with nearest-value extension), for nested / overlapping / shifted /
          coarser / finer grid pairs, 1..12 cells, coincident nodes.
  float : `maps.interpolate(method='volume', log=...)`,
          `Model.interpolate_to_grid` (log mode chosen from the mapping, all
          properties incl. nearly homogeneous ones) and the adjoint
          `_interp_volume_average_adj` (discretize) vs the model.
  oracle: conservation, range, identity on equal grids, nearest fill, log
          symmetry rho/sigma — evaluated on the real functions.
"""
import warnings
from fractions import Fraction as Fr

import numpy as np

from harness import common
from harness.exactnum import Q, exact_fn, fmt_fr

THEOREMS = [
    'VolAvg.overlap_eq_clamp', 'VolAvg.clamp_telescope',
    'VolAvg.weights_row_sum', 'VolAvg.weights_col_sum', 'VolAvg.weights_nonneg',
    'VolAvg.volAvg1_convex', 'VolAvg.volAvg1_conserves',
    'VolAvg.volAvg1_identity', 'VolAvg.volAvg1_fills_nearest',
    'VolAvg.volAvg1_linear', 'VolAvg.volAvg1_const', 'VolAvg.volAvg_eq_tensor',
    'VolAvg.log_mode_rho_sigma',
]


def fq(x):
    return fmt_fr(Fr(x) if not isinstance(x, Fr) else x)


def gen_nodes(rng, lo, n, mode):
    if mode == 'uniform':
        h = [Fr(int(rng.integers(1, 5)), 2)]*n
    else:
        h = [Fr(int(rng.integers(1, 9)), int(rng.integers(1, 4))) for _ in range(n)]
    x = [Fr(lo)]
    for w in h:
        x.append(x[-1] + w)
    return x


def gen_pair(rng):
    """Input and output nodes of one direction."""
    n = int(rng.integers(1, 13))
    xin = gen_nodes(rng, int(rng.integers(-5, 5)), n,
                    str(rng.choice(['uniform', 'stretched'])))
    kind = str(rng.choice(['same', 'nested', 'shifted', 'coarser', 'finer',
                           'outside', 'random']))
    if kind == 'same':
        xout = list(xin)
    elif kind == 'coarser' and n >= 2:
        xout = xin[::2] if len(xin[::2]) > 1 else [xin[0], xin[-1]]
        if xout[-1] != xin[-1]:
            xout.append(xin[-1])
    elif kind == 'finer':
        xout = []
        for a, b in zip(xin[:-1], xin[1:]):
            xout += [a, (a+b)/2]
        xout.append(xin[-1])
    elif kind == 'nested':
        m = int(rng.integers(1, 8))
        span = xin[-1] - xin[0]
        a = xin[0] + span*Fr(1, 7)
        xout = [a + (span*Fr(4, 7))*Fr(k, m) for k in range(m+1)]
    elif kind == 'shifted':
        d = Fr(int(rng.integers(-7, 8)), 3)
        xout = [v + d for v in xin]
    elif kind == 'outside':
        m = int(rng.integers(1, 6))
        xout = [xin[0] - 3 + Fr(k, 2) for k in range(m+1)] if rng.integers(0, 2) \
            else [xin[-1] + 1 + Fr(k, 2) for k in range(m+1)]
    else:
        xout = gen_nodes(rng, int(rng.integers(-8, 6)), int(rng.integers(1, 13)),
                         'stretched')
    return xin, xout, kind


def qarr(vals):
    a = np.empty(len(vals), dtype=object)
    for i, v in enumerate(vals):
        a[i] = Q(v)
    return a


def suite_exact(ctx):
    from emg3d import maps
    rng = ctx.nprng('exact')
    iva = exact_fn(maps, 'interp_volume_average',
                   deps=('_volume_average_weights',))
    vaw = exact_fn(maps, '_volume_average_weights', deps=())
    n = 120 if ctx.thorough else 30
    lines, exp = [], []
    kinds = {}
    for t in range(n):
        pairs = [gen_pair(rng) for _ in range(3)]
        if t % 3:   # keep 3-D cases small
            pairs = [(p[0][:5], p[1][:5], p[2]) for p in pairs]
        shp = tuple(len(p[0])-1 for p in pairs)
        oshp = tuple(len(p[1])-1 for p in pairs)
        vals = np.empty(shp, dtype=object)
        for idx in np.ndindex(*shp):
            vals[idx] = Q(Fr(int(rng.integers(1, 40)), int(rng.integers(1, 5))))
        new = np.empty(oshp, dtype=object)
        new[...] = Q(0)
        vol = np.empty(oshp, dtype=object)
        for idx in np.ndindex(*oshp):
            vol[idx] = Q(np.prod([pairs[d][1][idx[d]+1] - pairs[d][1][idx[d]]
                                  for d in range(3)]))
        try:
            iva(qarr(pairs[0][0]), qarr(pairs[1][0]), qarr(pairs[2][0]), vals,
                qarr(pairs[0][1]), qarr(pairs[1][1]), qarr(pairs[2][1]), new,
                vol)
            exp.append(' '.join(fq(v.re) for v in new.ravel(order='F')))
        except Exception as e:
            exp.append(f'raised {type(e).__name__}: {e}')
        lines.append('volavg | ' + ' | '.join(
            [' '.join(fq(v) for v in pairs[d][0]) for d in range(3)] +
            [' '.join(fq(v.re) for v in vals.ravel(order='F'))] +
            [' '.join(fq(v) for v in pairs[d][1]) for d in range(3)]))
        for p in pairs:
            kinds[p[2]] = kinds.get(p[2], 0) + 1
        ctx.count(key=lines[-1])
    # 1-D weights as a matrix
    for t in range(n):
        xin, xout, kind = gen_pair(rng)
        wx, ii, io = vaw(qarr(xin), qarr(xout))
        Wm = {}
        for w, a, b in zip(wx, ii, io):
            Wm[(int(b), int(a))] = Wm.get((int(b), int(a)), Fr(0)) + Q.c(w).re
        exp.append(' '.join(fq(Wm.get((j, i), Fr(0)))
                            for j in range(len(xout)-1)
                            for i in range(len(xin)-1)))
        lines.append('vaw | ' + ' '.join(fq(v) for v in xin) + ' | ' +
                     ' '.join(fq(v) for v in xout))
        ctx.count(key=lines[-1])
    out = common.run_driver(lines, jobs=8)
    bad = [(l[:200], o[:100], e[:100]) for l, o, e in zip(lines, out, exp)
           if o != e]
    ctx.cov['grid_pair_kinds'] = kinds
    ctx.cov['exact_cases'] = len(lines)
    ctx.oblige('correspondence: interp_volume_average / '
               '_volume_average_weights (.py_func, exact) == VolAvg closed '
               'form', 'correspondence', not bad, str(bad[:1])[:600])
    ctx.samples.append({'volavg_case': lines[0][:300]})
    return bad


def model_volavg(gi, go, vals):
    """Closed form in floats via the Lean model (inputs are dyadic)."""
    line = 'volavg | ' + ' | '.join(
        [' '.join(fq(Fr(float(v))) for v in gi[d]) for d in range(3)] +
        [' '.join(fq(Fr(float(v))) for v in np.asarray(vals).ravel(order='F'))] +
        [' '.join(fq(Fr(float(v))) for v in go[d]) for d in range(3)])
    return line


def suite_float(ctx):
    import emg3d
    from emg3d import maps
    rng = ctx.nprng('float')
    bad = []
    eps = np.finfo(float).eps

    def dy(n, lo=1, hi=9):
        return rng.integers(lo, hi, n)/4.0
    cases = []
    for t in range(16 if ctx.thorough else 6):
        hi = [dy(int(rng.integers(1, 6))) for _ in range(3)]
        ho = [dy(int(rng.integers(1, 6))) for _ in range(3)]
        oi = tuple(float(rng.integers(-3, 3)) for _ in range(3))
        oo = tuple(float(rng.integers(-3, 3)) for _ in range(3))
        if t % 4 == 0:
            ho, oo = [h.copy() for h in hi], oi     # equal grids
        gi = emg3d.TensorMesh(hi, oi)
        go = emg3d.TensorMesh(ho, oo)
        vals = rng.integers(1, 64, gi.shape_cells)/8.0
        cases.append((gi, go, vals))
    lines = []
    for gi, go, vals in cases:
        ni = [gi.nodes_x, gi.nodes_y, gi.nodes_z]
        no = [go.nodes_x, go.nodes_y, go.nodes_z]
        lines.append(model_volavg(ni, no, vals))
        lines.append(model_volavg(ni, no, np.log2(vals*8)))   # exact logs? no
    out = common.run_driver(lines[::2], jobs=8)
    nv0 = len(ctx.violations)
    for (gi, go, vals), o in zip(cases, out):
        ex = np.array([float(Fr(v)) for v in o.split(' ')]).reshape(
            go.shape_cells, order='F')
        with warnings.catch_warnings():
            warnings.simplefilter('ignore')
            got = maps.interpolate(gi, vals, go, method='volume')
        if not np.allclose(got, ex, rtol=64*eps, atol=0):
            bad.append(('interpolate', gi.shape_cells, go.shape_cells))
        # the same two grids far from the origin (UTM-like coordinates, cells
        # of 5 .. 40 m): overlaps depend on differences of coordinates only
        T = np.array([512000., 6571000., -3100.])
        gi2 = emg3d.TensorMesh([h*20.0 for h in gi.h], gi.origin*20.0 + T)
        go2 = emg3d.TensorMesh([h*20.0 for h in go.h], go.origin*20.0 + T)
        with warnings.catch_warnings():
            warnings.simplefilter('ignore')
            got2 = maps.interpolate(gi2, vals, go2, method='volume')
            gl2 = maps.interpolate(gi2, vals, go2, method='volume', log=True)
            gl1 = maps.interpolate(gi, vals, go, method='volume', log=True)
        if not (np.allclose(got2, got, rtol=1e-7, atol=0) and
                np.allclose(gl2, gl1, rtol=1e-7, atol=0)):
            ctx.violation(
                'volume-average-depends-on-position',
                f'volume averaging between the same pair of grids, scaled by '
                f'20 and moved to {T.tolist()}, gives other values (max rel. '
                f'diff {float(np.max(np.abs(got2/got-1))):.3g} linear, '
                f'{float(np.max(np.abs(gl2/gl1-1))):.3g} log)',
                {'in': gi.shape_cells, 'out': go.shape_cells,
                 'origin_in': gi2.origin.tolist(),
                 'origin_out': go2.origin.tolist()})
        # log mode: property oracle (same result for rho and sigma; identity;
        # range)
        with warnings.catch_warnings():
            warnings.simplefilter('ignore')
            gl = maps.interpolate(gi, vals, go, method='volume', log=True)
            gr = maps.interpolate(gi, 1/vals, go, method='volume', log=True)
        if not np.allclose(gl, 1/gr, rtol=1e-13):
            ctx.violation('log-mode-rho-sigma',
                          'log-mode volume average differs between '
                          'resistivity and conductivity input',
                          {'in': gi.shape_cells, 'out': go.shape_cells})
        if gl.min() < vals.min()*(1-1e-13) or gl.max() > vals.max()*(1+1e-13) \
                or got.min() < vals.min()*(1-1e-13) or \
                got.max() > vals.max()*(1+1e-13):
            ctx.violation('range-left',
                          f'volume average leaves the range of the input '
                          f'values: [{vals.min()}, {vals.max()}] -> linear '
                          f'[{got.min()}, {got.max()}], log [{gl.min()}, '
                          f'{gl.max()}]',
                          {'in': gi.shape_cells, 'out': go.shape_cells})
        if gi == go:
            if not (np.allclose(got, vals, rtol=1e-14) and
                    np.allclose(gl, vals, rtol=1e-13)):
                ctx.violation('not-identity-on-equal-grids',
                              'volume average between equal grids is not the '
                              'identity (linear or log mode)',
                              {'shape': gi.shape_cells})
        # conservation when the regions coincide is covered by the exact
        # suite; here: adjoint pairing with discretize's operator
        try:
            o3 = np.zeros((3, *gi.shape_cells), order='F')
            n3 = rng.standard_normal((3, *go.shape_cells))
            maps._interp_volume_average_adj(o3, gi, n3, go)
            # the transpose ADDS to its output (the gradient is accumulated
            # over source-frequency pairs): a second call on the same output
            first = o3.copy()
            n3b = rng.standard_normal((3, *go.shape_cells))
            maps._interp_volume_average_adj(o3, gi, n3b, go)
            o3b = np.zeros((3, *gi.shape_cells), order='F')
            maps._interp_volume_average_adj(o3b, gi, n3b, go)
            if not np.allclose(o3, first + o3b, rtol=1e-12, atol=1e-14):
                ctx.violation(
                    'adjoint-does-not-accumulate',
                    'a second call of the transposed averaging on the same '
                    'output array does not add its contribution to the first '
                    '(the gradient of several source-frequency pairs is '
                    'accumulated this way)',
                    {'in': gi.shape_cells, 'out': go.shape_cells})
            o3 = first
            lhs = float(np.sum(got*n3[0]))
            rhs = float(np.sum(vals*o3[0]))
            if abs(lhs - rhs) > 1e-11*(abs(lhs) + abs(rhs) + 1e-300):
                ctx.violation('adjoint-not-transpose',
                              f'<P v, w> = {lhs} but <v, P^T w> = {rhs} '
                              '(gradient uses the transpose of a different '
                              'map)', {'in': gi.shape_cells,
                                       'out': go.shape_cells})
        except Exception as e:
            bad.append(('adj raised', str(e)[:80]))
        ctx.count(key=('float', gi.shape_cells, go.shape_cells))
    # Model.interpolate_to_grid: all properties, log flag from the mapping,
    # incl. nearly homogeneous properties
    # the transpose must belong to the two grids at hand, also when the same
    # grid instance was used with another model grid before (no stale state)
    gcomp = emg3d.TensorMesh([dy(3), dy(2), dy(4)], (0.5, 0.25, 0))
    for rep in range(3):
        hm = [dy(2), dy(3), dy(2)]          # same cell count, other nodes
        gmod = emg3d.TensorMesh(hm, (float(rep)/4, 0, 0.5))
        v = rng.uniform(0.5, 2.0, gmod.shape_cells)
        wv = rng.standard_normal((3, *gcomp.shape_cells))
        try:
            with warnings.catch_warnings():
                warnings.simplefilter('ignore')
                pv = maps.interpolate(gmod, v, gcomp, method='volume',
                                      log=False)
                o3 = np.zeros((3, *gmod.shape_cells), order='F')
                maps._interp_volume_average_adj(o3, gmod, wv, gcomp)
            lhs, rhs = float(np.sum(pv*wv[1])), float(np.sum(v*o3[1]))
            if abs(lhs-rhs) > 1e-11*(abs(lhs)+abs(rhs)+1e-300):
                ctx.violation(
                    'adjoint-not-transpose',
                    f'call #{rep+1} with the same computational grid and '
                    f'another model grid of equal cell count: <P v, w> = '
                    f'{lhs} but <v, P^T w> = {rhs}',
                    {'repetition': rep, 'model_grid_origin': float(rep)/4})
        except Exception as e:      # noqa
            bad.append(('adj (repeated) raised', str(e)[:80]))
        ctx.count(key=('adj-repeat', rep))
    for t, mapping in enumerate(['Conductivity', 'Resistivity',
                                 'LgResistivity', 'LnConductivity',
                                 'LgConductivity', 'LnResistivity']):
        hi = [dy(4), dy(3), dy(5)]
        gi = emg3d.TensorMesh(hi, (0, 0, 0))
        go = emg3d.TensorMesh([dy(3), dy(4), dy(2)], (0.25, 0, 0.5))
        base = rng.uniform(0.5, 4.0, gi.shape_cells)
        near = 2.0*(1 + 1e-7*rng.standard_normal(gi.shape_cells))
        log = not mapping.startswith('L')
        px = base if log else np.log10(base)
        pz = near if log else np.log10(near)
        mur = rng.uniform(0.5, 3.0, gi.shape_cells)
        epr = rng.uniform(1.0, 9.0, gi.shape_cells)
        model = emg3d.Model(gi, property_x=px, property_z=pz, mapping=mapping,
                            mu_r=mur, epsilon_r=epr)
        # default options, and the documented pass-through of `log`
        for opts in ({}, {'log': False}, {'log': True}):
            if opts.get('log') and (np.any(px <= 0) or np.any(pz <= 0)):
                continue    # log-averaging the logarithms: not a valid call
            try:
                with warnings.catch_warnings():
                    warnings.simplefilter('ignore')
                    new = model.interpolate_to_grid(go, **opts)
            except Exception as e:      # noqa
                ctx.violation(
                    'interpolate_to_grid-differs',
                    f'Model.interpolate_to_grid ({mapping}, {opts}) raised '
                    f'{type(e).__name__}: {str(e)[:120]}',
                    {'mapping': mapping, 'opts': repr(opts)})
                continue
            plog = opts.get('log', log)
            llog = opts.get('log', True)
            for name, arr, lg in [('property_x', px, plog),
                                  ('property_z', pz, plog),
                                  ('mu_r', mur, llog),
                                  ('epsilon_r', epr, llog)]:
                if lg and np.any(arr <= 0):
                    continue        # log of a log-property: not meaningful
                ref = maps.interpolate(gi, arr, go, method='volume', log=lg)
                got = getattr(new, name)
                if not np.allclose(got, ref, rtol=1e-13, atol=0):
                    ctx.violation(
                        'interpolate_to_grid-differs',
                        f'Model.interpolate_to_grid ({mapping}, {name}, '
                        f'options {opts}) differs from the volume average of '
                        f'that property with log={lg} (max rel. deviation '
                        f'{np.max(np.abs(got/ref-1)):.3g})',
                        {'mapping': mapping, 'property': name,
                         'opts': repr(opts)})
            ctx.count(key=('to_grid', mapping, repr(opts)))
    # grids with the same cell widths, shifted by a fraction of a cell / a few
    # cells, near the origin and at UTM-like coordinates: not equal grids, so
    # the model is volume averaged (not returned as it is)
    for t, org in enumerate([(0., 0., 0.), (500000., 6500000., -1000.),
                             (-3.2e6, 7.5e6, 2.0e5)]):
        hw = [np.ones(6)*100., np.ones(5)*100., np.ones(4)*50.]
        gi = emg3d.TensorMesh(hw, org)
        for shift in [(3., 40., 0.), (0., -130., 10.), (0.5, 0., 0.)]:
            go = emg3d.TensorMesh(hw, tuple(a+b for a, b in zip(org, shift)))
            px = 10.0**rng.uniform(-1, 1, gi.shape_cells)
            model = emg3d.Model(gi, property_x=px)
            with warnings.catch_warnings():
                warnings.simplefilter('ignore')
                new = model.interpolate_to_grid(go)
                ref = maps.interpolate(gi, px, go, method='volume', log=True)
            same = gi == go
            got = new.property_x
            if same or not np.allclose(got, ref, rtol=1e-10, atol=0) or \
                    not (new.grid == go):
                ctx.violation(
                    'interpolate_to_grid-differs',
                    f'Model.interpolate_to_grid to a grid with the same '
                    f'widths shifted by {shift} m (origin {org}): grids '
                    f'compare equal: {bool(same)}; result differs from the '
                    f'volume average by '
                    f'{np.max(np.abs(got/ref-1)):.3g} (relative)',
                    {'origin': list(org), 'shift': list(shift)})
            ctx.count(key=('to_grid-shift', t, shift))
    ctx.oblige('correspondence: maps.interpolate(volume) == closed form '
               '(64 eps); monitors: log symmetry, range, identity, adjoint '
               'pairing, Model.interpolate_to_grid', 'correspondence',
               not bad and len(ctx.violations) == nv0, str(bad[:2]))
    return bad


def suite_sim(ctx):
    """In a simulation: the gradient side uses the transpose of the averaging
    the forward side uses, also when model grid and computational grid have
    the same number of cells (other nodes)."""
    import emg3d
    from harness.gradworld import World
    from harness.c07 import ExitRec
    rng = ctx.nprng('sim')
    bad = []
    nv0 = len(ctx.violations)
    for t in range(3 if ctx.thorough else 1):
        case = ['isotropic', 'VTI', 'triaxial'][t % 3]
        mapping = ['Conductivity', 'LgResistivity', 'LnConductivity'][t % 3]
        w = World(emg3d, rng, case, mapping, shape=(8, 8, 8), nsrc=1, nfreq=1,
                  gridding='single')
        sim = w.sim()
        with warnings.catch_warnings(), ExitRec(emg3d) as er:
            warnings.simplefilter('ignore')
            _ = sim.misfit
            x0 = w.x0()
            v = rng.standard_normal(x0.shape)
            jv = np.array(sim.jvec(v if case != 'isotropic' else v[0]),
                          copy=True)
            fin = np.isfinite(sim.data.observed.data)
            wv = rng.standard_normal(jv.shape) + \
                1j*rng.standard_normal(jv.shape)
            wv[~fin] = 0
            jt = np.array(sim.jtvec(wv), copy=True)
        cg = sim.get_grid('Tx-1', 'f-1')
        if not er.ok or cg == w.grid:
            continue
        lhs = float(np.sum(np.conj(wv)*jv).real)
        rhs = float(np.sum(jt.reshape(x0.shape)*v))
        sc = float(np.sum(np.abs(wv)*np.abs(jv)))
        if not abs(lhs-rhs) <= 1e-7*sc:
            bad.append((case, mapping, lhs, rhs))
            ctx.violation(
                'adjoint-not-transpose',
                f'Simulation ({case}, {mapping}; model grid '
                f'{w.grid.shape_cells}, computational grid '
                f'{tuple(cg.shape_cells)} with other nodes): Re<w, J v> = '
                f'{lhs!r} but <J^T w, v> = {rhs!r}',
                {'case': case, 'mapping': mapping})
        ctx.count(key=('sim-transpose', case, mapping))
    ctx.oblige('monitor: in a Simulation whose computational grid has the '
               'cell count of the model grid but other nodes, J^T uses the '
               'transpose of the averaging J uses', 'monitor',
               not bad and len(ctx.violations) == nv0, str(bad[:2]))
    return bad


def run(ctx):
    ctx.lean('Emg3dVerif.Props.C15Log', THEOREMS)
    ctx.assumptions += [
        'discretize.utils.volume_average is compared through the adjoint '
        'pairing <P v, w> = <v, P^T w>, not verified',
        'log10 / 10** rounding in log mode (1e-13 relative)',
    ]
    exc = None
    try:
        b1 = suite_exact(ctx)
    except Exception as e:      # noqa  (kernel source no longer runs exactly)
        exc, b1 = e, [('exact suite raised', f'{type(e).__name__}: {e}'[:200])]
    b2 = suite_float(ctx)
    suite_sim(ctx)
    if exc is not None and not ctx.violations:
        raise exc
    if (b1 or b2) and not ctx.violations:
        ctx.violation('model-correspondence-broken',
                      'volume averaging no longer computes the closed form '
                      f'({str((b1 or b2)[:1])[:300]}); conservation/range/'
                      'identity monitors found no violation',
                      {'first': str((b1 or b2)[:1])[:600]}, found_input=False)


def replay(ctx, rp):
    suite_float(ctx)
    for v in ctx.violations:
        print('replay:', v['sig'], v['what'][:200])
    return 1 if ctx.violations else 0
