"""./check <property> [--tier quick|thorough] [--replay <file>]"""
import os
import sys
sys.set_int_max_str_digits(0)
import json
import argparse
import importlib
import traceback

from harness import common


def main():
    ap = argparse.ArgumentParser()
    ap.add_argument('pid')
    ap.add_argument('--tier', default=os.environ.get('VERIF_TIER', 'quick'),
                    choices=['quick', 'thorough'])
    ap.add_argument('--replay', default=None)
    a = ap.parse_args()
    seed = int(os.environ.get('VERIF_SEED', '0'))
    try:
        mod = importlib.import_module(f'harness.{a.pid.lower()}')
    except ModuleNotFoundError:
        print(f'no check for {a.pid}')
        return 2
    ctx = common.Ctx(a.pid, a.tier, seed)
    try:
        if a.replay:
            rp = json.load(open(a.replay))
            return mod.replay(ctx, rp)
        mod.run(ctx)
        return ctx.finish()
    except Exception:           # infrastructure error: exit 2, not a violation
        traceback.print_exc()
        return 2


if __name__ == '__main__':
    sys.exit(main())
