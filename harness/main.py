"""./check <property> [--tier quick|thorough] [--replay <file>]"""
import os
import sys
sys.set_int_max_str_digits(0)
import json
import argparse
import importlib
import traceback

from harness import common


def main():
    ap = argparse.ArgumentParser()
    ap.add_argument('pid')
    ap.add_argument('--tier', default=os.environ.get('VERIF_TIER', 'quick'),
                    choices=['quick', 'thorough'])
    ap.add_argument('--replay', default=None)
    a = ap.parse_args()
    seed = int(os.environ.get('VERIF_SEED', '0'))
    try:
        mod = importlib.import_module(f'harness.{a.pid.lower()}')
    except ModuleNotFoundError:
        print(f'no check for {a.pid}')
        return 2
    ctx = common.Ctx(a.pid, a.tier, seed)
    try:
        if a.replay:
            rp = json.load(open(a.replay))
            return mod.replay(ctx, rp)
        try:
            mod.run(ctx)
        except Exception as e:      # noqa
            # An exception that comes out of the code under test (innermost
            # frames in /repo) where the unchanged code does not raise means
            # the property is no longer shown to hold: report it.  Anything
            # else is an infrastructure error (exit 2).
            tb = traceback.extract_tb(e.__traceback__)
            in_repo = [f for f in tb if f.filename.startswith(common.REPO)]
            traceback.print_exc()
            if not in_repo:
                # an internal of emg3d the correspondence is attached to
                # (private method, module attribute) is gone: the tie to the
                # code is lost, the property is no longer shown to hold
                obj = getattr(e, 'obj', None)
                mod_ = getattr(obj, '__name__', '') if isinstance(
                    obj, type(os)) else type(obj).__module__
                lost = (isinstance(e, AttributeError) and obj is not None and
                        str(mod_).startswith('emg3d')) or (
                    isinstance(e, ImportError) and
                    str(getattr(e, 'name', '')).startswith('emg3d'))
                infra = isinstance(e, (OSError, MemoryError, RuntimeError,
                                       ImportError, KeyboardInterrupt)) or \
                    type(e).__name__ in ('TimeoutExpired', 'BrokenProcessPool',
                                         'CalledProcessError')
                if not lost and (infra or not getattr(ctx, 'lean_ok', False)):
                    return 2
                if not lost:
                    # the harness could not digest what the code under test
                    # produced (malformed output, a compile error of a jitted
                    # kernel, ...): on the unchanged tree this does not
                    # happen; the correspondence cannot be established, so the
                    # property is no longer shown to hold
                    ctx.violation(
                        'code-output-not-evaluable',
                        f'{type(e).__name__}: {str(e)[:300]} while the '
                        f'harness was evaluating the output of the code under '
                        f'test (at {os.path.basename(tb[-1].filename)}:'
                        f'{tb[-1].lineno}); the correspondence could not be '
                        f'established',
                        {'exception': type(e).__name__,
                         'message': str(e)[:500],
                         'traceback': [f'{os.path.relpath(f.filename, "/")}:'
                                       f'{f.lineno} {f.name}'
                                       for f in tb][-12:]},
                        found_input=False)
                    return ctx.finish()
                ctx.violation(
                    'tie-to-code-lost',
                    f'{type(e).__name__}: {str(e)[:200]}: an internal of '
                    f'emg3d that the correspondence check observes no longer '
                    f'exists; the model is not tied to this code any more',
                    {'exception': type(e).__name__, 'message': str(e)[:500],
                     'traceback': [f'{os.path.relpath(f.filename, "/")}:'
                                   f'{f.lineno} {f.name}' for f in tb][-12:]},
                    found_input=False)
                return ctx.finish()
            fr = in_repo[-1]
            ctx.violation(
                'code-under-test-raised',
                f'{type(e).__name__}: {str(e)[:200]} at '
                f'{os.path.relpath(fr.filename, common.REPO)}:{fr.lineno} '
                f'({fr.name}) while the check was running; the unchanged code '
                f'does not raise here',
                {'exception': type(e).__name__, 'message': str(e)[:500],
                 'traceback': [f'{os.path.relpath(f.filename, "/")}:'
                               f'{f.lineno} {f.name}' for f in tb][-12:]},
                found_input=False)
        return ctx.finish()
    except Exception:           # infrastructure error: exit 2, not a violation
        traceback.print_exc()
        return 2


if __name__ == '__main__':
    sys.exit(main())
