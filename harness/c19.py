"""C19 — the layered mode agrees with the 1-D reference modeller.

Suites
  extract : `Model.extract_1d(return_imat=True)` on stretched grids, all
            methods, arbitrary ellipse parameters, all mappings: interpolation
            matrix == Lean `Lay.imat` (mask of `ellipse_indices` as input,
            exact rational widths), non-negative, sums to one; layer values ==
            weighted (log) average; laterally invariant models are reproduced;
            `merge` == `Lay.mergeIdx`; `_get_points`.
  layered : `Simulation(layered=True)` with `empymod.bipole` wrapped: the
            recorded calls == the model's record (frequencies by the finite
            mask `Lay.usedFreqs`, depths, resistivities, anisotropy, source,
            receiver); synthetic data == a direct call of the reference
            modeller for the layering, for every method / ellipse; NaN exactly
            where the observed data are not finite.
  gradient: layered gradient summed over each layer == difference quotient of
            the misfit under a uniform relative perturbation of that layer
            (isotropic and VTI, horizontal and vertical, two mappings).
"""
import warnings
from fractions import Fraction as Fr

import numpy as np

from harness import common
from harness.exactnum import fmt_fr

THEOREMS = [
    'Lay.imat_nonneg', 'Lay.imat_sum_one', 'Lay.midMat_sum_one',
    'Lay.avg_const', 'Lay.logavg_const', 'Lay.spread_layer_sum',
    'Lay.fdGrad_quotient', 'Lay.merge_value', 'Lay.startOf_mem',
    'Lay.mergeIdx_changes', 'Lay.slots_written_iff_finite',
    'Lay.usedFreqs_spec',
]

MAPS = ['Conductivity', 'LgConductivity', 'LnConductivity', 'Resistivity',
        'LgResistivity', 'LnResistivity']
METHODS = ['midpoint', 'source', 'receiver', 'prism', 'cylinder']


def fq(x):
    return fmt_fr(Fr(float(x)))


def gen_grid(emg3d, rng, nz=None):
    nx, ny = int(rng.integers(2, 7)), int(rng.integers(2, 7))
    nz = nz or int(rng.integers(3, 8))
    # widths: multiples of 12.5 (exact in binary)
    hx = rng.integers(2, 40, nx)*12.5
    hy = rng.integers(2, 40, ny)*12.5
    hz = rng.integers(2, 40, nz)*12.5
    org = rng.integers(-40, 10, 3)*25.0
    org[2] = -float(np.sum(hz)) - 100.0      # everything below z = -100
    return emg3d.TensorMesh([hx, hy, hz], org)


def gen_ellipse(rng, grid):
    span = float(min(grid.h[0].sum(), grid.h[1].sum()))
    e = {'radius': float(rng.choice([1.0, 0.1, 0.3, 0.6, 2.0])*span/2)}
    if rng.random() < 0.6:
        e['factor'] = float(rng.choice([1.0, 1.2, 2.0]))
    if rng.random() < 0.6:
        e['minor'] = float(rng.choice([1.0, 0.8, 0.3]))
    if rng.random() < 0.4:
        e['check_foci'] = bool(rng.integers(0, 2))
    return e


def suite_extract(ctx):
    import emg3d
    rng = ctx.nprng('extract')
    n = 150 if ctx.thorough else 50
    lines, meta = [], []
    bad = []
    nv0 = len(ctx.violations)
    for t in range(n):
        grid = gen_grid(emg3d, rng, nz=6 if t % 10 == 3 else None)
        shp = grid.shape_cells
        m = MAPS[t % 6]
        if t % 8 == 3:               # tiny stored values: the linear mappings
            m = ['Conductivity', 'Resistivity'][(t // 8) % 2]
        mp = getattr(emg3d.maps, 'Map'+m)()
        lateral = t % 3 != 0         # laterally invariant in 2 of 3 cases
        vti = t % 2 == 0
        special = t % 10 == 7        # changes that cancel in a signed sum
        partial = t % 10 == 3 and shp[2] > 4   # one property changes alone
        if special or partial:
            vti, lateral = True, True
        layers = {}
        for d in (['x', 'z'] if vti else ['x']):
            lay = 10.0**rng.uniform(-2, 2, shp[2])
            if t % 8 == 3:
                # stored values of the order 1e-9: distinct layers that an
                # absolute tolerance would call equal
                lay = np.asarray(mp.backward(
                    10.0**rng.uniform(-9.5, -8.5, shp[2])), float)
            if t % 4 == 1 and shp[2] > 3:        # equal neighbours (merge)
                lay[1] = lay[0]
                lay[-1] = lay[-2]
                if t % 8 == 5:
                    # ... and neighbours that differ in the 7th digit only
                    lay[2] = lay[1]*(1 + 2e-7)
            layers[d] = lay
        if special:
            # stored values 2 -> 3 (x) and 5 -> 4 (z) between layers 0 and 1,
            # equal layers 1 and 2
            sx = np.r_[2.0, 3.0, 3.0, rng.uniform(1, 4, shp[2]-3)]
            sz = np.r_[5.0, 4.0, 4.0, rng.uniform(1, 4, shp[2]-3)]
            layers = {'x': np.asarray(mp.backward(sx), float),
                      'z': np.asarray(mp.backward(sz), float)}
        if partial:
            # interface 0|1: only z changes, 1|2: only x changes, 2|3: neither
            lx, lz = layers['x'].copy(), layers['z'].copy()
            lx[1] = lx[0]
            lz[2] = lz[1]
            lx[3], lz[3] = lx[2], lz[2]
            layers = {'x': lx, 'z': lz}
        sig = {}
        for d, lay in layers.items():
            s = np.ones(shp)*lay[None, None, :]
            if not lateral:
                s = s*10.0**rng.uniform(-0.5, 0.5, shp)
            sig[d] = s
        mur = None
        if t % 7 == 3:
            mur = np.ones(shp)*rng.uniform(1, 3, shp[2])[None, None, :]
        with warnings.catch_warnings():
            warnings.simplefilter('ignore')
            model = emg3d.Model(grid, mapping=m, mu_r=mur, **{
                'property_'+d: mp.forward(s) for d, s in sig.items()})
            if special:
                model.property_x = np.ones(shp)*sx[None, None, :]
                model.property_z = np.ones(shp)*sz[None, None, :]
        x0, x1 = grid.nodes_x[0], grid.nodes_x[-1]
        y0, y1 = grid.nodes_y[0], grid.nodes_y[-1]
        p0 = (float(rng.uniform(x0-50, x1+50)), float(rng.uniform(y0-50, y1+50)))
        p1 = (float(rng.uniform(x0-50, x1+50)), float(rng.uniform(y0-50, y1+50)))
        if t % 6 == 5:
            p1 = p0
        method = ['midpoint', 'prism', 'cylinder'][t % 3]
        ell = gen_ellipse(rng, grid)
        merge = bool(t % 2) or special or partial
        kw = {'method': method, 'p0': p0, 'p1': p1, 'merge': merge,
              'return_imat': True}
        if method != 'midpoint':
            kw['ellipse'] = ell
        with warnings.catch_warnings():
            warnings.simplefilter('ignore')
            oned, imat = model.extract_1d(**kw)
        if t % 5 == 2:
            # the same model, points and ellipse moved to UTM-like coordinates
            # (multiples of 12.5 m: exact): the same layered model comes out
            T = np.array([437250.0, 6731400.0, 0.0])
            g2 = emg3d.TensorMesh([grid.h[0], grid.h[1], grid.h[2]],
                                  grid.origin + T)
            with warnings.catch_warnings():
                warnings.simplefilter('ignore')
                m2 = emg3d.Model(g2, mapping=m, mu_r=mur, **{
                    'property_'+d: getattr(model, 'property_'+d)
                    for d in sig})
                kw2 = dict(kw, p0=(p0[0]+T[0], p0[1]+T[1]),
                           p1=(p1[0]+T[0], p1[1]+T[1]))
                o2, i2 = m2.extract_1d(**kw2)
            same = np.allclose(i2, imat, rtol=1e-7, atol=1e-12) and \
                np.array_equal(o2.grid.nodes_z, oned.grid.nodes_z) and all(
                    np.allclose(getattr(o2, 'property_'+d),
                                getattr(oned, 'property_'+d), rtol=1e-7)
                    for d in sig)
            if not same:
                bad.append(('far origin', (method, m, lateral, merge, vti)))
                ctx.violation(
                    'extraction-depends-on-position',
                    f'extract_1d ({method}, {m}, merge={merge}): the same '
                    f'model, points and ellipse moved by {T[:2].tolist()} give '
                    f'another layered model / other weights (max |diff| of '
                    f'the weights {float(np.max(np.abs(i2-imat))):.3g})',
                    {'method': method, 'mapping': m, 'p0': list(p0),
                     'p1': list(p1), 'ellipse': repr(kw.get('ellipse'))})
        # the selection of the real ellipse function is an input of the model
        if method == 'midpoint':
            use = None
        else:
            use = emg3d.maps.ellipse_indices(
                (grid.cell_centers_x, grid.cell_centers_y), p0, p1, **ell)
        tag = (method, m, lateral, merge, vti)
        # --- weights
        if np.any(imat < 0) or abs(imat.sum()-1) > 1e-12:
            bad.append(('weights', tag, float(imat.min()), float(imat.sum())))
            ctx.violation('weights-not-convex',
                          f'extract_1d {tag}: min weight {imat.min()!r}, sum '
                          f'{imat.sum()!r}', {'kw': repr(kw)})
        if use is not None and use.any():
            ix, iy = use.nonzero()
            rect = (ix.min(), ix.max(), iy.min(), iy.max())
            lines.append(
                f"imat | {shp[0]} {shp[1]} | " +
                " ".join(fq(v) for v in grid.h[0]) + " | " +
                " ".join(fq(v) for v in grid.h[1]) + " | " +
                " ".join(map(str, rect)) + f" | {int(method == 'cylinder')} | "
                + " ".join(str(int(v)) for v in use.ravel()))
            meta.append(('imat', tag, imat, kw))
        else:
            # midpoint (or empty selection): one cell
            if np.count_nonzero(imat) != 1 or imat.max() != 1.0:
                bad.append(('midpoint matrix', tag))
                # the property itself on this case: weights >= 0, sum 1
                if not (np.all(np.isfinite(imat)) and np.all(imat >= 0) and
                        abs(float(np.sum(imat)) - 1.0) <= 1e-12):
                    ctx.violation(
                        'extraction-weights-not-convex',
                        f'extract_1d {tag} (selection falls back to the '
                        f'midpoint cell): weights min {np.min(imat)!r}, sum '
                        f'{np.sum(imat)!r}; expected non-negative weights '
                        f'that sum to one',
                        {'tag': repr(tag), 'p0': list(p0), 'p1': list(p1),
                         'ellipse': repr(kw.get('ellipse'))})
            else:
                i, j = np.argwhere(imat == 1.0)[0]
                cx, cy = (p0[0]+p1[0])/2, (p0[1]+p1[1])/2
                ii = int(np.clip(np.searchsorted(grid.nodes_x, cx, 'right')-1,
                                 0, shp[0]-1))
                jj = int(np.clip(np.searchsorted(grid.nodes_y, cy, 'right')-1,
                                 0, shp[1]-1))
                if (i, j) != (ii, jj):
                    bad.append(('midpoint cell', tag, (i, j), (ii, jj)))
        # --- layer values: weighted (log) average of the stored values
        nzo = shp[2]
        keep = None
        props = {}
        for name in ['property_x', 'property_z', 'mu_r']:
            v = getattr(model, name)
            if v is None:
                continue
            logavg = (not name.startswith('property_')) or m[0] != 'L'
            if np.count_nonzero(imat) == 1:
                i, j = np.argwhere(imat != 0)[0]
                val = v[i, j, :]
            elif logavg:
                val = 10**np.einsum('ij,ijk->k', imat, np.log10(v))
            else:
                val = np.einsum('ij,ijk->k', imat, v)
            props[name] = val
        if merge:
            lines.append(f"merge {nzo} | " + " | ".join(
                " ".join(fq(x) for x in p) for p in props.values()))
            meta.append(('merge', tag, (oned, props, grid), kw))
        else:
            for name, val in props.items():
                got = getattr(oned, name)[0, 0, :]
                if got.shape != val.shape or not np.allclose(got, val,
                                                             rtol=1e-12):
                    bad.append(('values', tag, name))
            if not np.array_equal(oned.grid.nodes_z, grid.nodes_z):
                bad.append(('nodes_z', tag))
        # --- laterally invariant model is reproduced (every method/ellipse)
        if lateral and not merge:
            for d, lay in layers.items():
                got = np.asarray(mp.backward(
                    getattr(oned, 'property_'+d)[0, 0, :]), float)
                if not np.allclose(got, lay, rtol=1e-10):
                    bad.append(('layering', tag, d))
                    ctx.violation(
                        'layering-not-reproduced',
                        f'extract_1d {tag}: laterally invariant '
                        f'conductivities {lay.tolist()} extracted as '
                        f'{got.tolist()}', {'kw': repr(kw)})
        ctx.count(key=('extract', t, tag))
    out = common.run_driver(lines, timeout=600)
    for (kind, tag, payload, kw), o in zip(meta, out):
        if kind == 'imat':
            ref = np.array([float(Fr(x)) for x in o.split()]).reshape(
                payload.shape)
            if not np.allclose(payload, ref, rtol=1e-13, atol=1e-16):
                bad.append(('imat', tag, float(np.max(np.abs(payload-ref)))))
        else:
            oned, props, grid = payload
            ind = [int(x) for x in o.split()]
            nodes = np.r_[grid.nodes_z[ind], grid.nodes_z[-1]]
            ok = oned.grid.nodes_z.shape == nodes.shape and \
                np.array_equal(oned.grid.nodes_z, nodes)
            if ok:
                for name, val in props.items():
                    got = getattr(oned, name)[0, 0, :]
                    ok &= got.shape == val[ind].shape and \
                        np.allclose(got, val[ind], rtol=1e-12)
            if not ok:
                bad.append(('merge', tag, ind, oned.grid.nodes_z.tolist()))
                ctx.violation(
                    'merge-changes-layering',
                    f'extract_1d(merge=True) {tag}: merged layer boundaries '
                    f'{oned.grid.nodes_z.tolist()} differ from the runs of '
                    f'equal layers {nodes.tolist()}',
                    {'kw': repr(kw), 'values': {k: v.tolist()
                                                for k, v in props.items()}})
    # _get_points
    from emg3d import _multiprocessing as mpx
    src = emg3d.TxElectricDipole((0., 100., 10., 30., -5., -5.))
    rec = emg3d.RxElectricPoint((400., -20., -10., 0., 0.))
    for meth in METHODS:
        r = mpx._get_points(meth, src, rec)
        sc, rc = tuple(src.center[:2]), tuple(rec.center[:2])
        exp = {'midpoint': ('midpoint', sc, rc), 'prism': ('prism', sc, rc),
               'cylinder': ('cylinder', sc, rc),
               'source': ('midpoint', sc, sc),
               'receiver': ('midpoint', rc, rc)}[meth]
        if (r['method'], tuple(r['p0']), tuple(r['p1'])) != exp:
            bad.append(('_get_points', meth))
    ctx.oblige('correspondence: extract_1d interpolation matrix == Lay.imat '
               '(exact widths, ellipse mask as input), layer values == '
               'weighted (log) average, merge == Lay.mergeIdx, _get_points; '
               'laterally invariant models reproduced', 'correspondence',
               not bad and len(ctx.violations) == nv0, str(bad[:2])[:600])
    if lines:
        ctx.samples.append({'imat_line': lines[0][:300], 'model': out[0][:200]})
    return bad


# --------------------------------------------------------------------------
class BipoleRec:
    def __init__(self):
        import empymod
        self.e = empymod
        self.calls = []

    def __enter__(self):
        self.orig = self.e.bipole

        def rec(*a, **kw):
            self.calls.append({k: (np.array(v, copy=True)
                                   if isinstance(v, np.ndarray) else v)
                               for k, v in kw.items()})
            return self.orig(*a, **kw)
        self.e.bipole = rec
        self.e.model.bipole = rec
        return self

    def __exit__(self, *a):
        self.e.bipole = self.orig
        self.e.model.bipole = self.orig


def make_world(emg3d, rng, vti, mapping, nz=None):
    grid = gen_grid(emg3d, rng, nz=nz or int(rng.integers(3, 6)))
    shp = grid.shape_cells
    mp = getattr(emg3d.maps, 'Map'+mapping)()
    lay = {d: 10.0**rng.uniform(-1, 1, shp[2])
           for d in (['x', 'z'] if vti else ['x'])}
    with warnings.catch_warnings():
        warnings.simplefilter('ignore')
        model = emg3d.Model(grid, mapping=mapping, **{
            'property_'+d: mp.forward(np.ones(shp)*v[None, None, :])
            for d, v in lay.items()})
    cx = float(grid.nodes_x[0] + grid.h[0].sum()/2)
    cy = float(grid.nodes_y[0] + grid.h[1].sum()/2)
    zs = float(grid.nodes_z[0] + grid.h[2].sum()*0.6)
    srcs = {'Tx-2': emg3d.TxElectricDipole((cx-40, cy+10, zs, 30., 10.)),
            'Tx-1': emg3d.TxMagneticPoint((cx+25, cy-15, zs+5, 0., 90.)),
            'Tx-3': emg3d.TxElectricPoint((cx, cy, zs-10, 45., 0.),
                                          strength=2.0),
            # a finite-length dipole given by its two electrodes
            'Tx-4': emg3d.TxElectricDipole((cx-60, cx+40, cy-10, cy+30, zs,
                                            zs+10), strength=1.5)}
    recs = {'Rx-b': emg3d.RxElectricPoint((cx+310, cy+60, zs+20, 0., 0.)),
            'Rx-a': emg3d.RxMagneticPoint((cx-240, cy-180, zs-30, 45., 10.)),
            'Rx-c': emg3d.RxElectricPoint((cx+150, cy-260, zs, 90., -20.)),
            # positioned relative to the centre of each source
            'Rx-d': emg3d.RxElectricPoint((280., -90., 15., 20., 5.),
                                          relative=True),
            'Rx-e': emg3d.RxMagneticPoint((-200., 170., -10., 60., 0.),
                                          relative=True)}
    freqs = {'f-1': 0.5, 'f-2': 2.0, 'f-3': 1.0}
    survey = emg3d.Survey(sources=srcs, receivers=recs, frequencies=freqs,
                          noise_floor=1e-17, relative_error=0.05)
    return grid, model, survey, lay


def direct(empymod, grid, lay, src, rec, freqs):
    """Direct call of the reference modeller for the layering."""
    cond_h = lay['x']
    aniso = None if 'z' not in lay else np.sqrt(lay['x']/lay['z'])
    with warnings.catch_warnings():
        warnings.simplefilter('ignore')
        return empymod.bipole(
            src=src.coordinates, rec=rec.coordinates_abs(src),
            depth=grid.nodes_z[1:-1], res=1/cond_h, aniso=aniso,
            freqtime=np.asarray(freqs, float), msrc=src.xtype != 'electric',
            mrec=rec.xtype != 'electric', strength=src.strength, verb=1,
            squeeze=True)


def suite_layered(ctx):
    import emg3d
    import empymod
    rng = ctx.nprng('layered')
    nworld = 6 if ctx.thorough else 3
    bad = []
    nv0 = len(ctx.violations)
    lines, meta = [], []
    for w in range(nworld):
        vti = bool(w % 2)
        mapping = MAPS[(w*5 + 3) % 6]
        grid, model, survey, lay = make_world(emg3d, rng, vti, mapping)
        nsrc, nrec, nf = survey.shape
        for mi, method in enumerate(METHODS):
            if not ctx.thorough and (mi + w) % 2 and method in ('source',
                                                                'prism'):
                continue
            lopts = {'method': method}
            if method in ('prism', 'cylinder'):
                lopts['ellipse'] = gen_ellipse(rng, grid)
            has_obs = (w + mi) % 3 != 0
            sv = survey.copy()
            fin = np.ones(survey.shape, bool)
            if has_obs:
                obs = np.ones(survey.shape, complex)
                fin = rng.random(survey.shape) < 0.7
                fin[0, 1, :] = False           # a receiver without any datum
                fin[1, 0, :] = True
                obs[~fin] = np.nan + 1j*np.nan
                # gaps marked by +-inf are not finite data either
                gaps = np.argwhere(~fin)
                for gi, g_ in enumerate(gaps[:4]):
                    obs[tuple(g_)] = [np.inf, -np.inf, np.inf*1j,
                                      np.nan + 1j*np.inf][gi]
                sv.data['observed'] = sv.data.observed.copy(data=obs)
            with warnings.catch_warnings(), BipoleRec() as br:
                warnings.simplefilter('ignore')
                sim = emg3d.Simulation(
                    survey=sv, model=model, layered=True, layered_opts=lopts,
                    max_workers=1, verb=-1, tqdm_opts=False, gridding='same')
                sim.compute()
                syn = sim.data.synthetic.data.copy()
            tag = (w, method, vti, mapping, has_obs)
            # NaN exactly where the observed data are not finite
            if not np.array_equal(np.isfinite(syn), fin):
                bad.append(('slots', tag))
                ctx.violation(
                    'slots-not-by-finite-mask',
                    f'layered {tag}: synthetic data are finite at '
                    f'{np.isfinite(syn).astype(int).tolist()}, observed data '
                    f'at {fin.astype(int).tolist()}', {'tag': repr(tag)})
            # values == direct reference call
            for si, (sk, src) in enumerate(survey.sources.items()):
                for ri, (rk, rec) in enumerate(survey.receivers.items()):
                    fi = fin[si, ri, :]
                    if not fi.any():
                        continue
                    fr = np.array(list(survey.frequencies.values()))[fi]
                    ref = np.atleast_1d(direct(empymod, grid, lay, src, rec,
                                               fr))
                    got = syn[si, ri, fi]
                    if not np.allclose(got, ref, rtol=1e-8, atol=0):
                        bad.append(('response', tag, sk, rk))
                        ctx.violation(
                            'layered-differs-from-reference',
                            f'layered {tag}: {sk}/{rk} = {got.tolist()}, '
                            f'direct reference call = {ref.tolist()}',
                            {'tag': repr(tag), 'src': sk, 'rec': rk})
            # recorded calls: one per (source, receiver with finite data),
            # with the finite frequencies in order
            lines.append(f"lslots {nf} {nsrc*nrec} " + " ".join(
                str(int(v)) for v in fin.reshape(-1)))
            meta.append((tag, br.calls, survey, grid, lay, fin))
            ctx.count(key=('layered', tag))
    # laterally varying model: a receiver given relative to the source is the
    # receiver at source centre + offset, for the extraction points too
    for w in range(2 if ctx.thorough else 1):
        grid = gen_grid(emg3d, rng, nz=3)
        shp = grid.shape_cells
        with warnings.catch_warnings():
            warnings.simplefilter('ignore')
            model = emg3d.Model(grid, property_x=10.0**rng.uniform(-1, 1, shp))
        cx = float(grid.nodes_x[0] + grid.h[0].sum()*0.4)
        cy = float(grid.nodes_y[0] + grid.h[1].sum()*0.55)
        zs = float(grid.nodes_z[0] + grid.h[2].sum()*0.6)
        lx, ly = float(grid.h[0].sum()), float(grid.h[1].sum())
        srcs = [emg3d.TxElectricDipole((cx, cy, zs, 30., 10.)),
                emg3d.TxElectricDipole((cx-0.1*lx, cx+0.05*lx, cy-0.05*ly,
                                        cy+0.1*ly, zs, zs+5))]
        offs = [(0.35*lx, -0.3*ly, 10., 20., 5.), (-0.2*lx, 0.3*ly, -5., 0, 0)]
        for method in METHODS:
            lopts = {'method': method}
            if method in ('prism', 'cylinder'):
                lopts['ellipse'] = gen_ellipse(rng, grid)
            res = {}
            for kind in ('relative', 'absolute'):
                for si, src in enumerate(srcs):
                    if kind == 'relative':
                        recs = [emg3d.RxElectricPoint(o, relative=True)
                                for o in offs]
                    else:
                        c = src.center
                        recs = [emg3d.RxElectricPoint(
                            (c[0]+o[0], c[1]+o[1], c[2]+o[2], o[3], o[4]))
                            for o in offs]
                    sv = emg3d.Survey(sources=src, receivers=recs,
                                      frequencies=[0.5, 2.0])
                    with warnings.catch_warnings():
                        warnings.simplefilter('ignore')
                        sim = emg3d.Simulation(
                            survey=sv, model=model, layered=True,
                            layered_opts=lopts, max_workers=1, verb=-1,
                            tqdm_opts=False, gridding='same')
                        sim.compute()
                    res[kind, si] = sim.data.synthetic.data.copy()
            for si in range(len(srcs)):
                a, b = res['relative', si], res['absolute', si]
                if not np.allclose(a, b, rtol=1e-9, atol=0):
                    bad.append(('relative-receiver', method, si))
                    ctx.violation(
                        'layered-relative-receiver',
                        f'layered ({method}, laterally varying model): '
                        f'receivers at offsets {offs} relative to source '
                        f'{si} give {a.ravel().tolist()}, the same receivers '
                        f'given absolutely {b.ravel().tolist()}',
                        {'method': method, 'source': si})
            ctx.count(key=('layered-relative', w, method))
    out = common.run_driver(lines, timeout=300)
    for (tag, calls, survey, grid, lay, fin), o in zip(meta, out):
        used = [[int(x) for x in part.split()] for part in o.split('|')]
        exp = []
        fvals = np.array(list(survey.frequencies.values()))
        slist = list(survey.sources.values())
        rlist = list(survey.receivers.values())
        for si, src in enumerate(slist):
            for ri, rec in enumerate(rlist):
                u = used[si*len(rlist)+ri]
                if u:
                    exp.append((src, rec, fvals[u]))
        ok = len(exp) == len(calls)
        if ok:
            for (src, rec, fr), c in zip(exp, calls):
                ok &= np.array_equal(np.asarray(c['freqtime'], float), fr)
                ok &= np.allclose(np.asarray(c['src'], float),
                                  np.asarray(src.coordinates, float))
                ok &= np.allclose(np.asarray(c['rec'], float),
                                  np.asarray(rec.coordinates_abs(src), float))
                ok &= bool(c['msrc']) == (src.xtype != 'electric')
                ok &= bool(c['mrec']) == (rec.xtype != 'electric')
                ok &= c['strength'] == src.strength
                ok &= np.allclose(c['depth'], grid.nodes_z[1:-1])
                ok &= np.allclose(c['res'], 1/lay['x'], rtol=1e-10)
                if 'z' in lay:
                    ok &= np.allclose(c['aniso'], np.sqrt(lay['x']/lay['z']),
                                      rtol=1e-10)
                else:
                    ok &= c['aniso'] is None
        if not ok:
            bad.append(('bipole-record', tag, len(exp), len(calls)))
    ctx.oblige('correspondence: recorded empymod.bipole calls == model record '
               '(frequencies Lay.usedFreqs, depths, res, aniso, src, rec); '
               'synthetic == direct reference call for every method/ellipse; '
               'NaN pattern == finite mask', 'correspondence',
               not bad and len(ctx.violations) == nv0, str(bad[:2])[:600])
    return bad


# --------------------------------------------------------------------------
def suite_gradient(ctx):
    import emg3d
    rng = ctx.nprng('gradient')
    bad = []
    nv0 = len(ctx.violations)
    nworld = 4 if ctx.thorough else 2
    rel = 1e-4
    for w in range(nworld):
        vti = w % 2 == 0
        mapping = ['Conductivity', 'Resistivity', 'LgConductivity',
                   'Conductivity'][w % 4]
        grid, model, survey, lay = make_world(emg3d, rng, vti, mapping, nz=3)
        mp = getattr(emg3d.maps, 'Map'+mapping)()
        method = METHODS[(w*2+3) % 5]
        lopts = {'method': method}
        if method in ('prism', 'cylinder'):
            lopts['ellipse'] = gen_ellipse(rng, grid)
        if w % 2 == 1:
            # merge with two equal neighbouring layers
            lopts['merge'] = True
            for d in (['x', 'z'] if vti else ['x']):
                prop = getattr(model, 'property_'+d).copy()
                prop[:, :, 1] = prop[:, :, 0]
                setattr(model, 'property_'+d, prop)

        def sim_for(mod, sv):
            with warnings.catch_warnings():
                warnings.simplefilter('ignore')
                return emg3d.Simulation(
                    survey=sv, model=mod, layered=True, layered_opts=lopts,
                    max_workers=1, verb=-1, tqdm_opts=False, gridding='same')
        # observed data from a different layering, with gaps
        true = model.copy()
        true.property_x = mp.forward(mp.backward(model.property_x)*1.3)
        s0 = sim_for(true, survey.copy())
        with warnings.catch_warnings():
            warnings.simplefilter('ignore')
            s0.compute(observed=True, add_noise=False)
        sv = s0.survey.copy()
        obs = sv.data.observed.data.copy()
        obs[0, 1, 0] = np.nan
        obs[2, 2, :] = np.nan
        if w % 2 == 0:
            obs[1, 0, 1] = np.inf          # a clipped channel
            obs[3, 3, 0] = -np.inf + 1j*np.nan
        sv.data['observed'] = sv.data.observed.copy(data=obs)
        if 'synthetic' in sv.data:
            del sv.data['synthetic']
        sim = sim_for(model, sv.copy())
        with warnings.catch_warnings():
            warnings.simplefilter('ignore')
            m0 = float(sim.misfit)
            try:
                grad = np.array(sim.gradient, copy=True)
            except Exception as e:      # noqa
                bad.append((w, 'gradient raised', str(e)[:100]))
                ctx.violation(
                    'layered-gradient-raises',
                    f'layered gradient ({mapping}, {method}, layered_opts='
                    f'{lopts}) raised {type(e).__name__}: {str(e)[:150]}',
                    {'world': w, 'layered_opts': repr(lopts)})
                continue
        grad = grad.reshape((-1,)+grid.shape_cells)
        comps = ['x', 'z'] if vti else ['x']
        for ci, d in enumerate(comps):
            for iz in range(grid.shape_cells[2]):
                # uniform relative perturbation of the conductivity of layer
                # iz (component d); difference quotient in the mapped
                # parameter
                pm = model.copy()
                prop = getattr(pm, 'property_'+d).copy()
                cond = np.array(mp.backward(prop[:, :, iz]), copy=True)
                newc = cond*(1+rel)
                prop[:, :, iz] = mp.forward(newc)
                setattr(pm, 'property_'+d, prop)
                s1 = sim_for(pm, sv.copy())
                with warnings.catch_warnings():
                    warnings.simplefilter('ignore')
                    m1 = float(s1.misfit)
                dcond = float(cond.ravel()[0]*rel)
                fd = (m1-m0)/dcond            # d misfit / d sigma_layer
                # chain rule to the mapped parameter (Lean factor of C14)
                x = np.array([getattr(model, 'property_'+d)[0, 0, iz]])
                fac = np.ones(1)
                mp.derivative_chain(fac, x)
                exp = fd*float(fac[0])
                got = float(grad[ci][:, :, iz].sum())
                sc = max(abs(exp), 1e-30)
                if abs(got-exp)/sc > 1e-5:
                    bad.append((w, d, iz, got, exp))
                    ctx.violation(
                        'layered-gradient-layer-sum',
                        f'layered gradient ({mapping}, {"VTI" if vti else "iso"}'
                        f', {method}) summed over layer {iz}, component {d}: '
                        f'{got!r}; difference quotient of the misfit under a '
                        f'uniform perturbation of that layer: {exp!r}',
                        {'world': w, 'component': d, 'layer': iz,
                         'mapping': mapping, 'method': method})
                ctx.count(key=('gradient', w, d, iz))
    ctx.oblige('monitor: layered gradient summed over a layer == difference '
               'quotient of the misfit under a uniform relative perturbation '
               'of that layer (1e-5), horizontal and vertical, with NaN gaps',
               'monitor', not bad and len(ctx.violations) == nv0,
               str(bad[:2])[:400])
    return bad


def run(ctx):
    ctx.lean('Emg3dVerif.Props.C19', THEOREMS)
    ctx.assumptions += [
        'empymod.bipole is the reference modeller (uninterpreted); the model '
        'states which arguments it is called with',
        'the selection mask of maps.ellipse_indices (sqrt, float '
        'comparisons) is an input of the model',
        'the finite-difference step of the gradient (0.01 %) is compared '
        'with the same step; its truncation error is not assessed',
    ]
    b = []
    for s in (suite_extract, suite_layered, suite_gradient):
        b += s(ctx) or []
    if b and not ctx.violations:
        ctx.violation('model-correspondence-broken',
                      f'layered mode no longer matches the model '
                      f'({str(b[:1])[:300]})', {'first': str(b[:1])[:800]},
                      found_input=False)


def replay(ctx, rp):
    for s in (suite_extract, suite_layered, suite_gradient):
        s(ctx)
    for v in ctx.violations:
        print('replay:', v['sig'], v['what'][:200])
    return 1 if ctx.violations else 0
