"""C10 — sources inject exactly their nominal moment in their nominal direction.

Suites (T-float, dyadic coordinates so the 9-decimal rounding is the identity)
  point  : `fields._point_vector` == `Src.pointVector` (adjoint of trilinear
           interpolation; positions on nodes, in the outermost half cells, ...)
  dipole : `fields._dipole_vector` for dipoles and wires (2..8 electrodes,
           axis aligned, oblique, on nodes / edges / faces) == sum of
           `Src.dipoleVector` over the segments
  field  : `get_source_field` = vector x strength x (-s mu_0) for every source
           class and input form, f>0, f<0, None; repeated calls
  oracle : moment sums, support, conversions dipole <-> point, square loop.
"""
import warnings
from fractions import Fraction as Fr

import numpy as np

from harness import common

THEOREMS = [
    'Src.w1_sum_one', 'Src.point_moment', 'Src.trilinear_partition',
    'Src.cell_weights_sum_x', 'Src.interval_union', 'Src.segments_tile_1d', 'Src.tiling_3d',
    'Src.lenOf_eq', 'Src.dir_breaks', 'Src.lenOf_sum', 'Src.segVector_sums',
    'Src.dipole_moment',
    'Src.rotation_unit', 'Src.square_loop_closed_planar_perp',
    'Src.square_loop_area', 'Src.square_loop_right_handed',
    'Src.point_to_dipole_span', 'Src.source_field_scaling',
]


def fq(x):
    f = Fr(float(x))
    return str(f.numerator) if f.denominator == 1 else \
        f'{f.numerator}/{f.denominator}'


def make_grid(rng):
    import emg3d
    hs = [rng.integers(1, 9, int(rng.integers(2, 6)))/2.0 for _ in range(3)]
    org = tuple(float(rng.integers(-4, 3)) for _ in range(3))
    if rng.integers(0, 4) == 0:
        # far from the origin (UTM-like coordinates): relative tolerances in
        # the code must not swallow metre-sized features
        org = tuple(float(rng.integers(50000, 200000)) for _ in range(3))
    return emg3d.TensorMesh(hs, org)


def nodes_line(grid):
    return ' | '.join(' '.join(fq(v) for v in n) for n in
                      (grid.nodes_x, grid.nodes_y, grid.nodes_z))


def parse_ef(s, grid):
    nx, ny, nz = grid.shape_cells
    shapes = [(nx, ny+1, nz+1), (nx+1, ny, nz+1), (nx+1, ny+1, nz)]
    out = []
    for sec, sh in zip(s.split(' | '), shapes):
        out.append(np.array([float(Fr(t)) for t in sec.split(' ')]
                            ).reshape(sh, order='F'))
    return out


def rand_pos(rng, grid, kind):
    pos = []
    for nodes in (grid.nodes_x, grid.nodes_y, grid.nodes_z):
        n = len(nodes)
        if kind == 'node':
            pos.append(float(nodes[int(rng.integers(0, n))]))
        elif kind == 'first-half':
            pos.append(float(nodes[0] + (nodes[1]-nodes[0])*rng.integers(0, 4)/8))
        elif kind == 'last-half':
            pos.append(float(nodes[-1] - (nodes[-1]-nodes[-2])*rng.integers(0, 4)/8))
        else:
            i = int(rng.integers(0, n-1))
            pos.append(float(nodes[i] + (nodes[i+1]-nodes[i])*rng.integers(0, 9)/8))
    return pos


def not_in_upper_face(grid, pts):
    """Known finding: a segment lying entirely in an upper boundary face."""
    for d, nodes in enumerate((grid.nodes_x, grid.nodes_y, grid.nodes_z)):
        if all(p[d] == nodes[-1] for p in pts):
            return False
    return True


def suite_point(ctx):
    import emg3d
    from emg3d import fields, electrodes
    rng = ctx.nprng('point')
    lines, reals = [], []
    n = 120 if ctx.thorough else 40
    for t in range(n):
        grid = make_grid(rng)
        kind = ['generic', 'node', 'first-half', 'last-half'][t % 4]
        pos = rand_pos(rng, grid, kind)
        az = float(rng.choice([0, 90, 180, -90, 45, 30, -135, 12.5, 171.0]))
        el = float(rng.choice([0, 90, -90, 45, -30, 10.0, 60.0]))
        coords = (*pos, az, el)
        d = electrodes.rotation(az, el)
        with warnings.catch_warnings():
            warnings.simplefilter('ignore')
            try:
                v = fields._point_vector(grid, coords)
            except Exception as e:
                ctx.violation('point-vector-raises', f'{type(e).__name__}: {e}',
                              {'coords': coords})
                continue
        lines.append(f"pvec | {nodes_line(grid)} | {fq(pos[0])} {fq(pos[1])} "
                     f"{fq(pos[2])} {fq(d[0])} {fq(d[1])} {fq(d[2])}")
        reals.append((grid, coords, d, [v.fx, v.fy, v.fz], kind))
        ctx.count(key=('point', kind, az, el, grid.shape_cells))
    out = common.run_driver(lines, jobs=8)
    bad = []
    for (grid, coords, d, got, kind), o in zip(reals, out):
        exp = parse_ef(o, grid)
        for c in range(3):
            if not np.allclose(got[c], exp[c], rtol=1e-13, atol=1e-15):
                bad.append((kind, coords, 'xyz'[c]))
        # oracle: moment and support
        sums = [g.sum() for g in got]
        want = [np.cos(np.deg2rad(coords[3]))*np.cos(np.deg2rad(coords[4])),
                np.sin(np.deg2rad(coords[3]))*np.cos(np.deg2rad(coords[4])),
                np.sin(np.deg2rad(coords[4]))]
        if not np.allclose(sums, want, atol=1e-12):
            ctx.violation('point-moment',
                          f'point source {coords}: components sum to {sums}, '
                          f'unit direction is {want}', {'coords': coords})
        msg = support_ok(grid, got, [coords[:3]])
        if msg:
            ctx.violation('support-outside-touched-cells',
                          f'point source {coords}: {msg}', {'coords': coords})
    ctx.cov['point_cases'] = len(lines)
    ctx.oblige('correspondence: fields._point_vector == Src.pointVector',
               'correspondence', not bad, str(bad[:2]))
    return bad


def support_ok(grid, comps, pts):
    """Non-zero entries only on edges close to the source (within the cells
    touched by it, allowing for the staggered interpolation stencil)."""
    pts = np.asarray(pts, float)
    lo, hi = pts.min(0), pts.max(0)
    hmax = [grid.h[d].max() for d in range(3)]
    cc = [grid.cell_centers_x, grid.cell_centers_y, grid.cell_centers_z]
    nn = [grid.nodes_x, grid.nodes_y, grid.nodes_z]
    for c, arr in enumerate(comps):
        idx = np.argwhere(arr != 0)
        for ijk in idx:
            for d in range(3):
                pos = (cc if d == c else nn)[d][ijk[d]]
                if pos < lo[d] - 2.01*hmax[d] or pos > hi[d] + 2.01*hmax[d]:
                    return (f'{"xyz"[c]}-edge {tuple(int(v) for v in ijk)} at '
                            f'{"xyz"[d]}={pos} carries {arr[tuple(ijk)]:.3g}, '
                            f'source spans [{lo[d]}, {hi[d]}]')
    return None


def suite_dipole(ctx):
    from emg3d import fields
    rng = ctx.nprng('dipole')
    lines, reals, segs = [], [], []
    n = 120 if ctx.thorough else 40
    for t in range(n):
        grid = make_grid(rng)
        npts = 2 if t % 3 else int(rng.integers(3, 9))
        kinds = ['generic', 'node', 'generic', 'first-half', 'last-half']
        pts = [rand_pos(rng, grid, kinds[int(rng.integers(0, 5))])
               for _ in range(npts)]
        if t % 5 == 0:          # axis aligned
            d = int(rng.integers(0, 3))
            for p in pts[1:]:
                for e in range(3):
                    if e != d:
                        p[e] = pts[0][e]
        pts = [p for i, p in enumerate(pts) if i == 0 or p != pts[i-1]]
        if len(pts) < 2:
            continue
        if not all(not_in_upper_face(grid, [a, b])
                   for a, b in zip(pts[:-1], pts[1:])):
            continue
        with warnings.catch_warnings(record=True) as wl:
            warnings.simplefilter('always')
            try:
                v = fields._dipole_vector(grid, np.array(pts))
            except Exception as e:
                ctx.violation('dipole-vector-raises',
                              f'{type(e).__name__}: {e}', {'points': pts})
                continue
        if any('Normalizing' in str(w.message) for w in wl):
            ctx.violation('dipole-renormalised',
                          f'the distribution of {pts} did not sum to the '
                          'segment vector and was re-normalised',
                          {'points': pts, 'grid_nodes': [
                              list(map(float, x)) for x in
                              (grid.nodes_x, grid.nodes_y, grid.nodes_z)]})
        k0 = len(lines)
        for a, b in zip(pts[:-1], pts[1:]):
            lines.append(f"dvec | {nodes_line(grid)} | " +
                         ' '.join(fq(x) for x in (*a, *b)))
        reals.append((grid, pts, [v.fx, v.fy, v.fz], k0, len(lines)))
        ctx.count(key=('dipole', npts, grid.shape_cells, t))
    out = common.run_driver(lines, jobs=8)
    bad = []
    for (grid, pts, got, k0, k1) in reals:
        exp = [0, 0, 0]
        for o in out[k0:k1]:
            e = parse_ef(o, grid)
            exp = [exp[c] + e[c] for c in range(3)]
        # rounding of (node - p0)/(p1 - p0): eps * |coordinate| / width
        cmax = max(abs(grid.nodes_x).max(), abs(grid.nodes_y).max(),
                   abs(grid.nodes_z).max(), 1.0)
        hmin = min(grid.h[0].min(), grid.h[1].min(), grid.h[2].min())
        atol = max(1e-13, 256*2.3e-16*cmax/hmin)
        for c in range(3):
            if not np.allclose(got[c], exp[c], rtol=1e-11, atol=atol):
                bad.append((pts, 'xyz'[c], float(np.abs(got[c]-exp[c]).max())))
        sums = np.array([g.sum() for g in got])
        want = np.array(pts[-1]) - np.array(pts[0])
        if not np.allclose(sums, want, atol=max(1e-9, 64*atol)):
            ctx.violation('dipole-moment',
                          f'wire {pts}: components sum to {sums.tolist()}, '
                          f'electrode difference is {want.tolist()}',
                          {'points': pts})
        msg = support_ok(grid, got, pts)
        if msg:
            ctx.violation('support-outside-touched-cells',
                          f'wire {pts}: {msg}', {'points': pts})
    ctx.cov['dipole_cases'] = len(reals)
    ctx.cov['dipole_segments'] = len(lines)
    ctx.oblige('correspondence: fields._dipole_vector (dipoles, wires) == sum '
               'of Src.dipoleVector over segments', 'correspondence', not bad,
               str(bad[:2])[:500])
    # known finding: segment in an upper boundary face
    import emg3d
    grid = emg3d.TensorMesh([np.ones(4)]*3, (0, 0, 0))
    with warnings.catch_warnings():
        warnings.simplefilter('ignore')
        v = fields._dipole_vector(grid, np.array([[4., 1, 2], [4., 3, 2]]))
    if not np.isclose(v.fy.sum(), 2.0):
        ctx.violation('dipole-in-upper-boundary-face',
                      'dipole [[4,1,2],[4,3,2]] on the upper x-face of a 4^3 '
                      f'unit grid: y-components sum to {v.fy.sum()} (NaN field)',
                      {'points': [[4, 1, 2], [4, 3, 2]]})
    return bad


def suite_field(ctx):
    import emg3d
    from emg3d import fields
    from scipy.constants import mu_0
    rng = ctx.nprng('field')
    grid = emg3d.TensorMesh([np.ones(6)*2.0, np.ones(5)*2.0, np.ones(4)*2.0],
                            (-6, -5, -4))
    bad = []
    makers = [
        lambda st: emg3d.TxElectricPoint((0.5, 0.25, -1, 30, 10), strength=st),
        lambda st: emg3d.TxElectricDipole((-1, 0.5, -1, 1, 1.5, 0.5), strength=st),
        lambda st: emg3d.TxElectricDipole((0.5, 0.25, -1, 30, 10), strength=st,
                                          length=1.5),
        lambda st: emg3d.TxElectricWire([[-1, 0, 0], [0, 1, 0.5], [1, 1, -1]],
                                        strength=st),
        lambda st: emg3d.TxMagneticDipole((0.5, 0.25, -1, 20, -10), strength=st),
    ]
    for mk in makers:
        with warnings.catch_warnings():
            warnings.simplefilter('ignore')
            base = fields.get_source_field(grid, mk(1.0), frequency=None).field
        for strength in [1.0, 3.5, 2+0.5j, np.array(2+0.5j), np.array(1.5),
                         np.float64(0.25), 2.0**-50, 2.0**40]:
            src = mk(strength)
            st0 = complex(np.asarray(src.strength).ravel()[0])
            for freq in [None, 1.0, 2.5, -1.0, -3.0]:
                if st0.imag != 0 and (freq is None or freq < 0):
                    continue      # complex strength needs a complex field
                try:
                    with warnings.catch_warnings():
                        warnings.simplefilter('ignore')
                        for rep in range(2):
                            sf = fields.get_source_field(grid, src,
                                                         frequency=freq)
                            if freq is None:
                                fac = st0
                            else:
                                s_ = 2j*np.pi*freq if freq > 0 else -freq
                                fac = st0 * (-s_*mu_0)
                            if not np.allclose(sf.field, base*fac, rtol=1e-13,
                                               atol=0):
                                bad.append((type(src).__name__, freq, rep))
                                ctx.violation(
                                    'source-field-scaling',
                                    f'{type(src).__name__}(strength='
                                    f'{src.strength!r}), frequency={freq}, '
                                    f'call #{rep+1}: field is not vector x '
                                    'strength x (-s mu_0)',
                                    {'source': type(src).__name__,
                                     'frequency': freq, 'call': rep+1})
                            if complex(np.asarray(src.strength).ravel()[0]) \
                                    != st0:
                                ctx.violation(
                                    'source-strength-mutated',
                                    f'{type(src).__name__}: strength changed '
                                    f'from {st0} to {src.strength} by '
                                    'get_source_field',
                                    {'source': type(src).__name__,
                                     'frequency': freq})
                                break
                except Exception as e:
                    bad.append((type(src).__name__, freq, str(e)[:60]))
                ctx.count(key=('field', type(src).__name__, freq, str(st0)))
    # tuple / list / ndarray input forms, electric and magnetic, as documented:
    # a dipole (5 or 6 numbers, or two electrodes) goes to TxElectricDipole or,
    # with electric=False, TxMagneticDipole; more than two points to a wire
    forms = [(0.5, 0.25, -1, 30, 10), [-1, 0.5, -1, 1, 1.5, 0.5],
             np.array([-1, 0.5, -1, 1, 1.5, 0.5]),
             np.array([[-1., -1., 0.5], [0.5, 1.5, 1.]]),
             [[-1., -1., 0.5], [0.5, 1.5, 1.]],
             ((-1., -1., 0.5), (0.5, 1.5, 1.)),
             np.array([[-1, 0, 0], [0, 1, 0.5], [1, 1, -1]]),
             [[-1, 0, 0], [0, 1, 0.5], [1, 1, -1], [1.5, 0, 0]]]
    for form in forms:
        arr = np.asarray(form)
        for electric in (True, False):
            for freq in (1.0, -2.0, None):
                kw = {'strength': 2.0}
                if arr.size == 5:
                    kw['length'] = 1.5
                if arr.size > 6:
                    cls = emg3d.TxElectricWire
                elif electric:
                    cls = emg3d.TxElectricDipole
                else:
                    cls = emg3d.TxMagneticDipole
                try:
                    with warnings.catch_warnings():
                        warnings.simplefilter('ignore')
                        a = fields.get_source_field(
                            grid, form, frequency=freq, electric=electric,
                            **kw)
                        b = fields.get_source_field(grid, cls(form, **kw),
                                                    freq)
                except Exception as e:      # noqa
                    bad.append(('input form raised', str(form)[:40],
                                str(e)[:60]))
                    continue
                if not np.array_equal(a.field, b.field):
                    bad.append(('input form', str(form)[:40], electric, freq))
                    ctx.violation(
                        'raw-source-format-dispatch',
                        f'get_source_field with the raw source '
                        f'{np.asarray(form).tolist()} (electric={electric}, '
                        f'frequency={freq}) differs from the field of '
                        f'{cls.__name__} built from the same input',
                        {'form': np.asarray(form).tolist(),
                         'electric': electric, 'frequency': freq})
                ctx.count(key=('form', str(arr.shape), type(form).__name__,
                               electric, freq))
    ctx.oblige('monitor: get_source_field = vector x strength x (-s mu_0) for '
               'all source classes / input forms / f>0, f<0, None, repeated '
               'calls', 'monitor', not bad, str(bad[:3]))
    return bad


def suite_electrodes(ctx):
    import emg3d
    from emg3d import electrodes as E
    rng = ctx.nprng('el')
    nv0 = len(ctx.violations)
    for t in range(200 if ctx.thorough else 60):
        c = rng.uniform(-50, 50, 3)
        az = float(rng.choice([rng.uniform(-179.9, 180), 0, 90, 180, -90,
                               0.05, 89.9, 179.97, -90.2]))
        # steep (but not vertical) and nearly horizontal dipoles included
        el = float(rng.choice([rng.uniform(-90, 90), 0, 90, -90, 45, 89.8,
                               89.95, 89.995, -89.9, 0.05, -0.01]))
        length = float(rng.uniform(0.5, 300))
        dip = E.point_to_dipole((*c, az, el), length)
        a2, e2, l2 = E.dipole_to_point(dip)
        back = E.point_to_dipole((*dip.mean(0), a2, e2), l2)
        if not np.allclose(back, dip, atol=1e-9*length):
            ctx.violation('dipole-point-roundtrip',
                          f'point_to_dipole(dipole_to_point(d)) != d for '
                          f'az={az}, el={el}, length={length}',
                          {'azimuth': az, 'elevation': el, 'length': length})
        if not np.isclose(np.linalg.norm(dip[1]-dip[0]), length, rtol=1e-12):
            ctx.violation('dipole-length', 'electrode distance != length',
                          {'azimuth': az, 'elevation': el})
        d = E.rotation(az, el)
        if not np.isclose(np.linalg.norm(d), 1, atol=1e-14):
            ctx.violation('rotation-not-unit', f'|rotation({az},{el})| != 1',
                          {'azimuth': az, 'elevation': el})
        area = float(rng.uniform(0.5, 100))
        loop = E.point_to_square_loop((*c, az, el), area)
        sides = np.diff(loop, axis=0)
        nrm = np.cross(sides[0], sides[1])
        ok = (np.allclose(loop[0], loop[-1]) and
              np.allclose([np.linalg.norm(s) for s in sides], np.sqrt(area),
                          rtol=1e-12) and
              np.allclose(nrm/np.linalg.norm(nrm), d, atol=1e-12) and
              np.allclose(sides @ d, 0, atol=1e-10) and
              np.isclose(np.linalg.norm(nrm), area, rtol=1e-12))
        if not ok:
            ctx.violation('square-loop',
                          f'square loop for az={az}, el={el}, area={area} is '
                          'not a closed planar square of that area with '
                          'right-handed normal along the dipole',
                          {'azimuth': az, 'elevation': el, 'area': area})
        # a magnetic dipole given by its two electrodes: closed planar square
        # loop, area = dipole length, right-handed normal = dipole direction
        if length > 1.0:
            with warnings.catch_warnings():
                warnings.simplefilter('ignore')
                md = emg3d.TxMagneticDipole(dip)
                md6 = emg3d.TxMagneticDipole(np.asarray(dip).ravel('F'))
            for mdx in (md, md6):
                lp = np.asarray(mdx.points, float)
                sd = np.diff(lp, axis=0)
                nm = np.cross(sd[0], sd[1])
                dirv = (dip[1]-dip[0])/length
                okm = (lp.shape == (5, 3) and np.allclose(lp[0], lp[-1]) and
                       np.allclose(nm/np.linalg.norm(nm), dirv, atol=1e-9) and
                       np.isclose(np.linalg.norm(nm), length, rtol=1e-9) and
                       np.allclose(lp[:-1].mean(0), dip.mean(0),
                                   atol=1e-9*max(1.0, length)))
                if not okm:
                    ctx.violation(
                        'magnetic-dipole-loop',
                        f'TxMagneticDipole from the electrodes '
                        f'{np.round(dip, 6).tolist()} (azimuth {az}, elevation '
                        f'{el}, length {length}): the loop is not a closed '
                        f'square of area = length centred on the dipole with '
                        f'its right-handed normal along the dipole (normal '
                        f'{(nm/np.linalg.norm(nm)).tolist()}, dipole direction '
                        f'{dirv.tolist()}, area {np.linalg.norm(nm)})',
                        {'azimuth': az, 'elevation': el, 'length': length})
                    break
        ctx.count(key=('el', t))
    # the three coordinate formats give the same electrodes
    p5 = (1.0, 2.0, -3.0, 40.0, 20.0)
    d1 = emg3d.TxElectricDipole(p5, length=10.0)
    d2 = emg3d.TxElectricDipole(d1.points)
    d3 = emg3d.TxElectricDipole(d1.points.ravel('F'))
    if not (np.allclose(d2.points, d1.points) and
            np.allclose(d3.points, d1.points)):
        ctx.violation('dipole-formats', 'the three coordinate formats give '
                      'different electrodes', {})
    m1 = emg3d.TxMagneticDipole(p5, length=4.0)
    m2 = emg3d.TxMagneticDipole([p5[0]-1, p5[0]+1, p5[1], p5[1], p5[2], p5[2]])
    for m in (m1, m2):
        pts = m.points
        if not (np.allclose(pts[0], pts[-1]) and pts.shape == (5, 3)):
            ctx.violation('magnetic-dipole-loop', 'magnetic dipole is not a '
                          'closed 5-point loop', {})
    ctx.oblige('monitor: dipole <-> point conversions, rotation, square loop '
               '(closed, planar, perpendicular, area, right-handed), '
               'coordinate formats', 'monitor',
               len(ctx.violations) == nv0, '')


def run(ctx):
    ctx.lean('Emg3dVerif.Props.C10Dipole', THEOREMS)   # imports Props.C10
    ctx.assumptions += [
        'sqrt / trigonometric functions (cosdg, sindg, angle) are routed or '
        'compared in floating point',
        'NotInUpperFace: a segment lying entirely in an upper boundary face is '
        'excluded from the generator (known finding)',
    ]
    b1 = suite_point(ctx)
    b2 = suite_dipole(ctx)
    b3 = suite_field(ctx)
    suite_electrodes(ctx)
    if (b1 or b2) and not ctx.violations:
        ctx.violation('model-correspondence-broken',
                      'source vectors differ from the model '
                      f'({str((b1 or b2)[:1])[:300]}) but moments and support '
                      'are as stated', {'first': str((b1 or b2)[:1])[:600]},
                      found_input=False)


def replay(ctx, rp):
    suite_point(ctx)
    suite_dipole(ctx)
    suite_field(ctx)
    for v in ctx.violations:
        print('replay:', v['sig'], v['what'][:200])
    return 1 if ctx.violations else 0
