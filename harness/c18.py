"""C18 — CLI == Python API for every documented option.

Suites
  tables : the documented option list re-extracted from docs/manual/cli.rst
           == Lean table `Cli.documented`; the API keyword tables
           re-extracted with `inspect` / from the sources contain `Cli.apiKeywords`
           and every destination keyword of `Cli.destination`; gridding keys
           probed behaviourally on `estimate_gridding_opts`.
  parser : `emg3d.cli.main.main(args)` (argparse included, `run.simulation`
           replaced by a recorder) + `parse_config_file` on generated
           configurations (each accepted key alone, random combinations,
           terminal / configuration conflicts, unknown keys, unknown
           sections, file-name completion) == Lean `Cli.parse`; typed values
           re-parsed independently.
  e2e    : real runs of the entry point on a small problem: forward / misfit
           / gradient x {h5, npz, json} x save / load / cache / clean x
           dry-run; output == the API calls assembled from the model's
           parse result (data, misfit, gradient identical, noise off).
"""
import importlib
import inspect
import os
import sys
import re
import shutil
import warnings

import numpy as np

from harness import common

THEOREMS = [
    'Cli.documented_accepted', 'Cli.accepted_reaches_api', 'Cli.accepted_nodup',
    'Cli.parse_ok_clean', 'Cli.unknown_key_rejected',
    'Cli.unknown_section_rejected', 'Cli.terminal_file_overrides',
    'Cli.config_file_used', 'Cli.default_file_used',
    'Cli.terminal_path_overrides', 'Cli.terminal_nproc_overrides',
    'Cli.terminal_layered_overrides', 'Cli.cache_is_load_and_save',
    'Cli.gradient_defaults_linear', 'Cli.explicit_interpolation_kept',
    'Cli.noise_opts_override', 'Cli.function_cases',
]


def esc(s):
    return ''.join(ch if (ch.isascii() and (ch.isalnum() or ch in '_./-+,:;'))
                   else '%%%x;' % ord(ch) for ch in str(s))


def unesc(s):
    return re.sub(r'%([0-9a-f]+);', lambda m: chr(int(m.group(1), 16)), s)


# --------------------------------------------------------------------------
def docs_options():
    """(section, key) list from the literal block of docs/manual/cli.rst."""
    txt = open(os.path.join(common.REPO, 'docs', 'manual', 'cli.rst')).read()
    a = txt.index('``emg3d.cfg``::')
    block = []
    for ln in txt[a:].split('\n')[1:]:
        if ln.strip() == '' or ln.startswith('  '):
            block.append(ln)
        else:
            break
    out, sec = [], None
    for ln in block:
        m = re.match(r'^  \[(\w+)\]\s*$', ln)
        if m:
            sec = m.group(1)
            continue
        m = re.match(r'^  # (\w+) =', ln)
        if m and sec:
            out.append(f'{sec}.{m.group(1)}')
    return out


def api_tables(emg3d):
    src = inspect.getsource
    sim = emg3d.simulations.Simulation
    t = {}
    t['Simulation'] = set(inspect.signature(sim.__init__).parameters) | set(
        re.findall(r"kwargs\.pop\(\s*'(\w+)'", src(sim))) | set(
        re.findall(r"solver_opts\.pop\(\s*'(\w+)'", src(sim)))
    sol = emg3d.solver.solve
    t['solve'] = set(inspect.signature(sol).parameters) | set(
        re.findall(r"kwargs\.pop\('(\w+)'", src(sol))) | set(
        re.findall(r"'(\w+)': ", src(sol)[:0]))
    # solver options are fields of MGParameters
    t['solve'] |= set(getattr(emg3d.solver.MGParameters,
                              '__dataclass_fields__', {}))
    t['add_noise'] = set(inspect.signature(
        emg3d.surveys.Survey.add_noise).parameters) | set(
        re.findall(r"kwargs\.pop\('(\w+)'", src(emg3d.surveys.Survey.add_noise))
    ) | set(inspect.signature(emg3d.surveys.random_noise).parameters)
    t['compute'] = set(inspect.signature(sim.compute).parameters) | set(
        re.findall(r"kwargs\.pop\('(\w+)'", src(sim.compute)))
    t['select'] = set(inspect.signature(emg3d.surveys.Survey.select).parameters)
    t['layered_opts'] = set(inspect.signature(
        emg3d.models.Model.extract_1d).parameters)
    t['ellipse_indices'] = set(inspect.signature(
        emg3d.maps.ellipse_indices).parameters)
    t['expand_grid_model'] = set(inspect.signature(
        emg3d.models.expand_grid_model).parameters)
    return t


GRID_VALUES = {
    'frequency': 1.0, 'properties': [1.0, 2.0], 'center': (0, 0, 0),
    'domain': ([-100, 100], [-100, 100], [-100, 100]), 'vector': 'xyz',
    'seasurface': 500.0, 'distance': ([100, 100], [100, 100], [100, 100]),
    'stretching': [1.0, 1.5], 'min_width_limits': 50.0, 'min_width_pps': 3,
    'lambda_factor': 1.0, 'max_buffer': 1000.0, 'lambda_from_center': False,
    'mapping': 'Resistivity', 'cell_numbers': [8, 16, 32],
    'center_on_edge': True, 'verb': 0,
}


def gridding_accepts(emg3d, key):
    hx = np.ones(4)*50.0
    grid = emg3d.TensorMesh([hx, hx, hx], (-100, -100, -100))
    model = emg3d.Model(grid, 1.0)
    survey = emg3d.Survey(
        sources=emg3d.TxElectricDipole((0, 0, 0, 0, 0)),
        receivers=emg3d.RxElectricPoint((50, 0, 0, 0, 0)), frequencies=1.0)
    with warnings.catch_warnings():
        warnings.simplefilter('ignore')
        try:
            emg3d.meshes.estimate_gridding_opts(
                {key: GRID_VALUES.get(key, 1.0)}, model, survey)
            return True
        except TypeError as e:
            return 'Unexpected gridding_opts' not in str(e)
        except Exception:       # noqa
            return True


def suite_tables(ctx):
    import emg3d
    out = common.run_driver(
        ['cli-docs', 'cli-accepted', 'cli-dest'] +
        [f'cli-api {a}' for a in ['Simulation', 'solve', 'gridding_opts',
                                  'add_noise', 'compute', 'select',
                                  'layered_opts', 'ellipse_indices',
                                  'expand_grid_model']], timeout=300)
    bad = []
    docs = docs_options()
    if docs != out[0].split():
        bad.append(('documented options differ from the Lean table',
                    sorted(set(docs) ^ set(out[0].split()))))
    ctx.cov['documented_options'] = len(docs)
    real = api_tables(emg3d)
    apis = ['Simulation', 'solve', 'gridding_opts', 'add_noise', 'compute',
            'select', 'layered_opts', 'ellipse_indices', 'expand_grid_model']
    for a, o in zip(apis, out[3:]):
        kws = o.split()
        if a == 'gridding_opts':
            miss = [k for k in kws if k != 'expand' and
                    not gridding_accepts(emg3d, k)]
        else:
            miss = [k for k in kws if k not in real[a]]
        if miss:
            bad.append((f'API {a} does not accept', miss))
        ctx.count(key=('api', a), n=len(kws))
    # every destination keyword of an accepted key is accepted by the API
    for d in out[2].split():
        key, dest = d.split('->')
        if dest == '-':
            continue
        api, kw = dest.split('.')
        ok = gridding_accepts(emg3d, kw) if api == 'gridding_opts' and \
            kw != 'expand' else kw in real[api]
        if not ok:
            bad.append(('destination keyword unknown to the API', key, dest))
            ctx.violation(
                'documented-key-rejected-by-api',
                f'config key {key} is handed to {api} as `{kw}`, which the '
                f'API does not accept', {'key': key, 'api': api, 'kw': kw})
        ctx.count(key=('dest', key))
    ctx.oblige('correspondence: docs/manual/cli.rst option list == '
               'Cli.documented; Cli.apiKeywords and every destination keyword '
               'accepted by the current API (inspect / behavioural probe)',
               'correspondence', not bad, str(bad[:3])[:600])
    ctx.samples.append({'documented': docs[:8]})
    return bad


# --------------------------------------------------------------------------
BOOL_T = {'1': True, 'yes': True, 'true': True, 'on': True,
          '0': False, 'no': False, 'false': False, 'off': False}


def conv(tv):
    """Independent typed conversion of the model's `type:raw` value."""
    ty, raw = tv.split(':', 1)
    raw = unesc(raw)
    if ty == 'bool':
        return BOOL_T[raw.lower()]
    if ty == 'int':
        return int(raw)
    if ty == 'nproc':
        return int(max(int(raw), 1))
    if ty == 'float':
        return float(raw)
    if ty == 'str':
        return raw
    if ty == 'listfloat':
        return [float(v) for v in raw.split(',')]
    if ty == 'liststr':
        return [v.strip() for v in raw.split(',')]
    if ty == 'listoflists':
        out = []
        for p in raw.split(';'):
            pl = p.lower()
            if 'none' in pl:
                out.append(None)
            elif 'true' in pl:
                out.append(True)
            elif 'false' in pl:
                out.append(False)
            else:
                out.append([float(v) for v in p.split(',')])
        return out[0] if len(out) == 1 else \
            {'x': out[0], 'y': out[1], 'z': out[2]}
    raise ValueError(tv)


def nest(entries):
    """Nested dictionaries from the model's flat `a.b.c=type:raw` entries."""
    out = {'files': {}, 'simulation_options': {}, 'data': {},
           'noise_kwargs': {}, 'term': {}}
    for k, v in entries:
        parts = k.split('.')
        d = out
        for p in parts[:-1]:
            d = d.setdefault(p, {})
        if parts[0] == 'files':
            d[parts[-1]] = False if v == 'False' else unesc(v)
        elif parts[0] == 'term':
            d[parts[-1]] = (v if parts[-1] == 'function' else
                            int(v) if parts[-1] == 'verbosity' else v == 'True')
        else:
            d[parts[-1]] = conv(v)
    return out


VALUES = {
    'bool': ['True', 'false', 'yes', '0', 'on'],
    'int': ['1', '3', '10'],
    'float': ['1e-4', '0.5', '3', '1e3'],
    'str': ['abc', 'F', 'my name', 'linear'],
    'listfloat': ['1, 2, 3', '0.3,1,1e5', '8, 16'],
    'listoflists': ['-100, 100; None; None', '1.0, 1.5', 'None; None; -5, 5',
                    '10, 100; None; 50', 'True', 'True; False; True'],
    'liststr': ['Tx-1, Tx-2', 'f-1', 'RxEP-01,RxMP-10'],
}
FNAMES = ['survey', 'my.h5', 'sim.json', 'x.npz', 'name.txt', 'sub/dir.file',
          '/abs/file.h5', 'noext']


class Capture:
    def __init__(self):
        self.main = importlib.import_module('emg3d.cli.main')
        self.parser = importlib.import_module('emg3d.cli.parser')

    def run(self, args):
        """(kind, payload) of main(args) with run.simulation recorded."""
        rec = {}

        def fake(args_dict):
            rec['args'] = dict(args_dict)
            with warnings.catch_warnings():
                warnings.simplefilter('ignore')
                rec['out'] = self.parser.parse_config_file(args_dict)
        orig = self.main.run.simulation
        self.main.run.simulation = fake
        try:
            self.main.main(list(args))
        except TypeError as e:
            return 'TypeError', str(e)
        except SystemExit as e:
            return 'SystemExit', str(e)
        except Exception as e:      # noqa
            return type(e).__name__, str(e)
        finally:
            self.main.run.simulation = orig
        if 'out' not in rec:
            return 'norun', ''
        return 'ok', rec['out']


def gen_config(rng, accepted, mode):
    """(terminal args list, config entries [(sec, key, raw)], verbosity)."""
    secs = {}
    for a in accepted:
        sk, ty = a.split(':')
        s, k = sk.split('.')
        secs.setdefault(s, []).append((k, ty))
    entries = []
    if mode == 'single':
        s = list(secs)[int(rng.integers(0, len(secs)))]
        k, ty = secs[s][int(rng.integers(0, len(secs[s])))]
        entries.append((s, k, pick_value(rng, s, k, ty)))
    else:
        for s, keys in secs.items():
            if rng.random() < 0.6:
                continue
            for k, ty in keys:
                if rng.random() < 0.35:
                    entries.append((s, k, pick_value(rng, s, k, ty)))
    return entries


def pick_value(rng, s, k, ty):
    if s == 'files':
        if k == 'path':
            return str(rng.choice(['/data/x', '/tmp/some dir', '.']))
        return str(rng.choice(FNAMES))
    v = VALUES[ty]
    return str(v[int(rng.integers(0, len(v)))])


def gen_term(rng):
    args, t, flags, verb = [], [], [], 0
    if rng.random() < 0.4:
        n = int(rng.choice([-2, 0, 1, 4]))
        args += ['-n', str(n)] if rng.random() < 0.5 else [f'--nproc={n}']
        t.append(('nproc', str(n)))
    f = rng.choice(['', '', 'forward', 'misfit', 'gradient'])
    if f:
        args.append(rng.choice(['-'+f[0], '--'+f]))
        flags.append(f)
    for k in ['path', 'survey', 'model', 'output', 'save', 'load', 'cache']:
        if rng.random() < 0.25:
            v = '/cmd/line' if k == 'path' else str(rng.choice(FNAMES))
            args += ['--'+k, v]
            t.append((k, v))
    for fl, a in [('clean', '--clean'), ('layered', '-l'), ('dry_run', '-d')]:
        if rng.random() < 0.3:
            args.append(a if fl != 'layered' or rng.random() < 0.5
                        else '--layered')
            flags.append(fl)
    r = rng.random()
    if r < 0.2:
        k = int(rng.integers(1, 4))
        args.append('-' + 'v'*k)
        verb = k
    elif r < 0.3:
        args.append('-q')
        verb = -1
    elif r < 0.4:
        verb = int(rng.choice([-1, 0, 1, 2]))
        args += ['--verbosity', str(verb)]
    return args, t, flags, verb


def canon_real(out):
    cfg, term = out
    return {'files': cfg['files'], 'simulation_options':
            cfg['simulation_options'], 'data': cfg['data'],
            'noise_kwargs': cfg['noise_kwargs'],
            'term': {k: term[k] for k in ['function', 'verbosity', 'dry_run',
                                          'clean']}}


def suite_parser(ctx):
    rng = ctx.nprng('parser')
    accepted = common.run_driver(['cli-accepted'], timeout=300)[0].split()
    cap = Capture()
    tmp = os.path.join(common.CACHE, f'c18p-{os.getpid()}')
    shutil.rmtree(tmp, ignore_errors=True)
    os.makedirs(tmp)
    cwd0 = os.getcwd()
    os.chdir(tmp)
    lines, meta = [], []
    bad = []
    n = 400 if ctx.thorough else 140
    try:
        cases = []
        # every accepted key alone
        for a in accepted:
            sk, ty = a.split(':')
            s, k = sk.split('.')
            cases.append(('alone', [(s, k, pick_value(rng, s, k, ty))]))
        for t in range(n):
            mode = ['random', 'unknown-key', 'unknown-section',
                    'random'][t % 4]
            ent = gen_config(rng, accepted, 'random')
            if mode == 'unknown-key':
                secs = ['files', 'simulation', 'noise_opts', 'layered',
                        'solver_opts', 'data', 'gridding_opts']
                s = secs[int(rng.integers(0, 7))]
                k = str(rng.choice(['tolerance', 'foo', 'cell_numbers', 'tol',
                                    'path', 'max_worker', 'sources', 'merge',
                                    'add_noise', 'verb', 'cycle']))
                if f'{s}.{k}' in [a.split(':')[0] for a in accepted]:
                    k = k + '_x'
                ent.insert(int(rng.integers(0, len(ent)+1)), (s, k, '1'))
            if mode == 'unknown-section':
                s = str(rng.choice(['solver', 'gridding', 'Simulation',
                                    'noise', 'file']))
                ent.append((s, 'tol', '1'))
            cases.append((mode, ent))
        for mode, ent in cases:
            args, t, flags, verb = gen_term(rng) if mode != 'alone' \
                else ([], [], [], 0)
            # group by section (a section can appear only once in a file)
            order = []
            for s, k, v in ent:
                if s not in order:
                    order.append(s)
            ent = [(s, k, v) for s0 in order for (s, k, v) in ent if s == s0]
            seen = set()
            ent = [e for e in ent if (e[0], e[1]) not in seen and
                   not seen.add((e[0], e[1]))]
            cf = os.path.join(tmp, 'c.cfg')
            with open(cf, 'w') as f:
                cur = None
                for s, k, v in ent:
                    if s != cur:
                        f.write(f'[{s}]\n')
                        cur = s
                    f.write(f'{k} = {v}\n')
            kind, payload = cap.run([cf] + args)
            ln = (f'cli v={verb} cwd={esc(tmp)} ' +
                  ' '.join(f't.{k}={esc(v)}' for k, v in t) + ' ' +
                  ' '.join(f'f.{fl}' for fl in flags) + ' ' +
                  ' '.join(f'c.{s}.{k}={esc(v)}' for s, k, v in ent))
            lines.append(ln)
            meta.append((mode, args, ent, kind, payload))
            ctx.count(key=ln)
    finally:
        os.chdir(cwd0)
        shutil.rmtree(tmp, ignore_errors=True)
    out = common.run_driver(lines, timeout=600)
    kinds = {}
    for (mode, args, ent, kind, payload), o, ln in zip(meta, out, lines):
        parts = o.split('\t')
        kinds[parts[0].split()[0]] = kinds.get(parts[0].split()[0], 0) + 1
        if parts[0] == 'ok':
            if kind != 'ok':
                bad.append((mode, 'model accepts, code: ' + kind,
                            payload[:120], args, ent))
                continue
            exp = nest([e.split('=', 1) for e in parts[1:]])
            got = canon_real(payload)
            if exp != got:
                d = {k: (exp.get(k), got.get(k)) for k in exp
                     if exp.get(k) != got.get(k)}
                bad.append((mode, 'parse result differs', str(d)[:400],
                            args, ent))
                ctx.violation(
                    'config-option-effect-differs',
                    f'configuration {ent} with arguments {args}: the parsed '
                    f'options differ from the documented effect '
                    f'(expected, got): {str(d)[:300]}',
                    {'config': ent, 'args': args, 'difference': str(d)})
        else:
            h = o.split()
            if kind == 'ok':
                bad.append((mode, 'code accepts, model: ' + o[:80], args, ent))
                ctx.violation(
                    'unknown-option-accepted',
                    f'configuration {ent} with arguments {args} is accepted '
                    f'although it contains an unknown option ({o[:80]})',
                    {'config': ent, 'args': args})
                continue
            if h[0] == 'unexpected':
                want = f'Unexpected parameter in [{h[1]}]'
            else:
                want = 'Unexpected section'
            if kind != 'TypeError' or want not in payload:
                bad.append((mode, 'error differs', kind, payload[:120],
                            o[:80], ent))
    ctx.cov['parser_results'] = kinds
    ctx.oblige('correspondence: main(args) + parse_config_file == Cli.parse '
               'on generated configurations (each accepted key alone, random '
               'combinations, terminal/config conflicts, unknown keys and '
               'sections, file-name completion)', 'correspondence', not bad,
               str(bad[:2])[:900])
    ctx.samples.append({'cli_line': lines[len(accepted)][:300],
                        'model': out[len(accepted)][:300]})
    return bad


# --------------------------------------------------------------------------
def api_run(emg3d, exp, tmp, loaded=None):
    """The API calls equivalent to a CLI run, from the model's parse result."""
    files, opts = exp['files'], dict(exp['simulation_options'])
    fn, term = exp['term']['function'], exp['term']
    with warnings.catch_warnings():
        warnings.simplefilter('ignore')
        if files['load']:
            sim = emg3d.Simulation.from_file(files['load'], verb=0)
            if term['clean']:
                sim.clean('computed')
                sim.model = emg3d.load(files['model'], verb=0)['model']
            lay = opts.get('layered', False)
            if sim.layered != lay:
                sim.layered = lay
        else:
            survey = emg3d.load(files['survey'], verb=0)['survey']
            model = emg3d.load(files['model'], verb=0)['model']
            if exp['data']:
                d = exp['data']
                survey = survey.select(
                    sources=d.get('sources'), receivers=d.get('receivers'),
                    frequencies=d.get('frequencies'),
                    remove_empty=d.get('remove_empty', False))
            go = opts.get('gridding_opts')
            if go and 'cell_number' in go:
                go['cell_numbers'] = [int(v) for v in go.pop('cell_number')]
            sim = emg3d.Simulation(survey=survey, model=model, verb=-1,
                                   tqdm_opts=False, **opts)
        res = {}
        if term['dry_run']:
            res['data'] = np.zeros(sim.survey.shape, dtype=complex)
        elif fn == 'forward':
            sim.compute(observed=True, **exp['noise_kwargs'])
            res['data'] = sim.data.observed.data
        else:
            sim.compute()
            res['data'] = sim.data.synthetic.data
        if fn in ('misfit', 'gradient'):
            res['misfit'] = 0.0 if term['dry_run'] else float(sim.misfit)
            res['n_observations'] = int(sim.survey.count)
        if fn == 'gradient':
            if term['dry_run']:
                shp = sim.model.shape
                if sim.model.case in ('HTI', 'VTI'):
                    shp = (2, *shp)
                elif sim.model.case == 'triaxial':
                    shp = (3, *shp)
                res['gradient'] = np.zeros(shp)
            else:
                res['gradient'] = np.array(sim.gradient)
    return res, sim


def suite_e2e(ctx):
    import emg3d
    rng = ctx.nprng('e2e')
    main = importlib.import_module('emg3d.cli.main')
    tmp = os.path.join(common.CACHE, f'c18e-{os.getpid()}')
    shutil.rmtree(tmp, ignore_errors=True)
    os.makedirs(tmp)
    bad = []
    nv0 = len(ctx.violations)
    hx = np.ones(8)*50.0
    grid = emg3d.TensorMesh([hx, hx, hx], (-200, -200, -200))
    model = emg3d.Model(grid, property_x=1.0, property_z=2.0)
    true = emg3d.Model(grid, property_x=1.3, property_z=1.7)
    srcs = {'Tx-1': emg3d.TxElectricDipole((-60., 10., 20., 30., 10.)),
            'Tx-2': emg3d.TxElectricDipole((60., -10., 20., 10., 0.))}
    recs = {'Rx-a': emg3d.RxElectricPoint((110., 60., 30., 0., 0.)),
            'Rx-b': emg3d.RxElectricPoint((-40., -80., -50., 45., 10.))}
    survey = emg3d.Survey(sources=srcs, receivers=recs,
                          frequencies={'f-1': 2.0}, noise_floor=1e-15,
                          relative_error=0.05)
    with warnings.catch_warnings():
        warnings.simplefilter('ignore')
        s0 = emg3d.Simulation(survey=survey, model=true, gridding='same',
                              max_workers=1, verb=-1, tqdm_opts=False,
                              receiver_interpolation='linear',
                              solver_opts={'plain': True, 'maxit': 3})
        s0.compute(observed=True, add_noise=False)
    survey = s0.survey
    del survey.data['synthetic']
    base = ("[simulation]\ngridding = same\nmax_workers = 1\n"
            "[solver_opts]\nplain = True\nmaxit = 3\ntol = 1e-4\n")
    runs = []
    fmts = ['h5', 'npz', 'json']
    k = 0
    for fn in ['forward', 'misfit', 'gradient']:
        for variant in ['plain', 'noise', 'data', 'data-empty', 'dry',
                        'save-load', 'cache-clean']:
            if not ctx.thorough and (k + ctx_seed(ctx)) % 2 and \
                    variant in ('data', 'data-empty', 'dry'):
                k += 1
                continue
            k += 1
            runs.append((fn, variant, fmts[k % 3]))
    # the gradient for the other anisotropy cases (number of properties)
    rmod = 10.0**rng.uniform(-0.3, 0.3, grid.shape_cells)
    models = {'iso': emg3d.Model(grid, property_x=rmod),
              'HTI': emg3d.Model(grid, property_x=rmod, property_y=2*rmod),
              'tri': emg3d.Model(grid, property_x=rmod, property_y=2*rmod,
                                 property_z=0.5*rmod)}
    for ci, case in enumerate(models):
        runs.append(('gradient', 'dry-'+case, fmts[(k + ci) % 3]))
    runs.append(('gradient', 'plain-HTI', fmts[k % 3]))
    if ctx.thorough:
        runs.append(('gradient', 'plain-tri', fmts[(k+1) % 3]))
        runs.append(('misfit', 'plain-iso', fmts[(k+2) % 3]))
    lines, meta = [], []
    cwd0 = os.getcwd()
    try:
        for fn, variant, fmt in runs:
            d = os.path.join(tmp, f'{fn}-{variant}')
            os.makedirs(d)
            sv = survey
            if variant == 'data-empty':
                # one receiver without any observation: only `remove_empty`
                # (the single key of [data]) can drop it
                sv = survey.copy()
                sv.data['observed'][:, 1, :] = np.nan
            emg3d.save(os.path.join(d, f'survey.{fmt}'), survey=sv, verb=0)
            mdl = models.get(variant.split('-')[-1], model)
            emg3d.save(os.path.join(d, f'model.{fmt}'), model=mdl, verb=0)
            cfg = (f"[files]\npath = {d}\nsurvey = survey.{fmt}\n"
                   f"model = model.{fmt}\noutput = out.{fmt}\n") + base
            args = ['--'+fn]
            ent = [('files', 'path', d), ('files', 'survey', f'survey.{fmt}'),
                   ('files', 'model', f'model.{fmt}'),
                   ('files', 'output', f'out.{fmt}'),
                   ('simulation', 'gridding', 'same'),
                   ('simulation', 'max_workers', '1'),
                   ('solver_opts', 'plain', 'True'),
                   ('solver_opts', 'maxit', '3'), ('solver_opts', 'tol', '1e-4')]
            t, flags = [], [fn]
            if variant == 'noise':
                cfg += ("[noise_opts]\nadd_noise = True\nmin_offset = 150\n"
                        "ntype = gaussian_uncorrelated\n")
                ent += [('noise_opts', 'add_noise', 'True'),
                        ('noise_opts', 'min_offset', '150'),
                        ('noise_opts', 'ntype', 'gaussian_uncorrelated')]
            if variant == 'data':
                # any non-empty subset of the selection keys
                sel = [('sources', 'Tx-2'), ('receivers', 'Rx-a, Rx-b'),
                       ('frequencies', 'f-1')]
                keep = [x for x in sel if rng.random() < 0.5] or \
                    [sel[int(rng.integers(3))]]
                cfg += "[data]\n" + ''.join(f'{a} = {b}\n' for a, b in keep)
                ent += [('data', a, b) for a, b in keep]
            if variant == 'data-empty':
                cfg += "[data]\nremove_empty = True\n"
                ent += [('data', 'remove_empty', 'True')]
            if variant.startswith('dry'):
                args.append('-d')
                flags.append('dry_run')
            pre = None
            if variant in ('save-load', 'cache-clean'):
                # a first run stores the simulation, the second loads it
                pre = ['--save', f'sim.{fmt}']
                args += (['--load', f'sim.{fmt}'] if variant == 'save-load'
                         else ['--cache', f'sim.{fmt}', '--clean'])
                t += ([('load', f'sim.{fmt}')] if variant == 'save-load'
                      else [('cache', f'sim.{fmt}')])
                if variant == 'cache-clean':
                    flags.append('clean')
            if variant != 'noise' and fn == 'forward':
                cfg += "[noise_opts]\nadd_noise = False\n"
                ent += [('noise_opts', 'add_noise', 'False')]
            # (not the default name for the run that goes through sys.argv)
            cf = os.path.join(d, 'settings.cfg' if variant == 'plain'
                              else 'emg3d.cfg')
            open(cf, 'w').write(cfg)
            os.chdir(d)
            err = None
            with warnings.catch_warnings(), SeededNoise():
                warnings.simplefilter('ignore')
                try:
                    if pre:
                        main.main([cf, '--'+fn, '-q'] + pre)
                        if os.path.exists(os.path.join(d, f'out.{fmt}')):
                            os.remove(os.path.join(d, f'out.{fmt}'))
                    if variant == 'plain':
                        # the console entry point: arguments from sys.argv
                        argv0 = sys.argv
                        sys.argv = ['emg3d', cf, '-q'] + args
                        try:
                            main.main()
                        finally:
                            sys.argv = argv0
                    else:
                        main.main([cf, '-q'] + args)
                except BaseException as e:      # noqa
                    err = f'{type(e).__name__}: {e}'
            os.chdir(cwd0)
            lines.append(f'cli v=-1 cwd={esc(d)} ' +
                         ' '.join(f't.{k}={esc(v)}' for k, v in t) + ' ' +
                         ' '.join(f'f.{fl}' for fl in flags) + ' ' +
                         ' '.join(f'c.{s}.{k}={esc(v)}' for s, k, v in ent))
            meta.append((fn, variant, fmt, d, err))
        out = common.run_driver(lines, timeout=600)
        for (fn, variant, fmt, d, err), o in zip(meta, out):
            tag = f'{fn}/{variant}/{fmt}'
            if err:
                bad.append((tag, err))
                ctx.violation('cli-run-failed', f'emg3d {tag}: {err[:300]}',
                              {'run': tag})
                continue
            parts = o.split('\t')
            if parts[0] != 'ok':
                bad.append((tag, 'model rejects', o[:100]))
                continue
            exp = nest([e.split('=', 1) for e in parts[1:]])
            with warnings.catch_warnings(), SeededNoise():
                warnings.simplefilter('ignore')
                got = emg3d.load(exp['files']['output'], verb=0)
                ref, sim = api_run(emg3d, exp, d)
            if variant == 'noise' and fn == 'forward':
                # the noise options must have had an effect
                dd = np.asarray(got['data'])
                if not np.any(np.isnan(dd)):
                    bad.append((tag, 'min_offset had no effect'))
                    ctx.violation(
                        'cli-output-differs',
                        f'emg3d {tag}: [noise_opts] min_offset=150 left no '
                        f'NaN in the written data (receivers closer than '
                        f'150 m exist)', {'run': tag})
            for key in ['data', 'misfit', 'gradient', 'n_observations']:
                if (key in ref) != (key in got):
                    bad.append((tag, key, 'presence'))
                    ctx.violation('cli-output-differs',
                                  f'emg3d {tag}: output has'
                                  f'{"" if key in got else " no"} `{key}`, '
                                  f'the API run has'
                                  f'{"" if key in ref else " none"}',
                                  {'run': tag, 'key': key})
                    continue
                if key not in ref:
                    continue
                a, b = np.asarray(got[key]), np.asarray(ref[key])
                if a.shape != b.shape or not np.array_equal(a, b,
                                                            equal_nan=True):
                    bad.append((tag, key, 'value'))
                    ctx.violation(
                        'cli-output-differs',
                        f'emg3d {tag}: `{key}` written by the CLI differs '
                        f'from the equivalent API calls '
                        f'(max |diff| = {maxdiff(a, b)})',
                        {'run': tag, 'key': key})
            if exp['files']['save'] and not os.path.exists(
                    exp['files']['save']):
                bad.append((tag, 'save file missing'))
                ctx.violation('cli-output-differs',
                              f'emg3d {tag}: simulation was not saved to '
                              f'{exp["files"]["save"]}', {'run': tag})
            ctx.count(key=('e2e', tag))
    finally:
        os.chdir(cwd0)
        shutil.rmtree(tmp, ignore_errors=True)
    del rng
    ctx.cov['e2e_runs'] = len(meta)
    ctx.oblige('correspondence: real CLI runs (forward/misfit/gradient x '
               'formats x noise/data/dry-run/save-load/cache-clean) write the '
               'data, misfit and gradient of the API calls assembled from '
               'Cli.parse', 'correspondence',
               not bad and len(ctx.violations) == nv0, str(bad[:2])[:600])
    return bad


class SeededNoise:
    """Make `surveys.random_noise` reproducible: every call of
    np.random.default_rng() inside returns a generator with the same seed."""

    def __enter__(self):
        self.orig = np.random.default_rng
        np.random.default_rng = lambda *a, **k: self.orig(20240923)
        return self

    def __exit__(self, *a):
        np.random.default_rng = self.orig


def ctx_seed(ctx):
    return ctx.seed if isinstance(ctx.seed, int) else 0


def maxdiff(a, b):
    try:
        return float(np.nanmax(np.abs(a-b)))
    except Exception:       # noqa
        return 'shape'


def run(ctx):
    ctx.lean('Emg3dVerif.Props.C18', THEOREMS)
    ctx.assumptions += [
        'configparser (lower-cased keys, stripped values, one occurrence of '
        'a section) and argparse deliver the entries the model is given; '
        'the typed conversions (getboolean/getint/float/list splitting) are '
        're-implemented in the harness and compared',
        'pathlib suffix handling is modelled for simple names '
        '(Cli.complete), compared on generated names',
    ]
    b = []
    for s in (suite_tables, suite_parser, suite_e2e):
        b += s(ctx) or []
    if b and not ctx.violations:
        ctx.violation('model-correspondence-broken',
                      f'CLI parser / tables no longer match the model '
                      f'({str(b[:1])[:300]})', {'first': str(b[:1])[:800]},
                      found_input=False)


def replay(ctx, rp):
    for s in (suite_tables, suite_parser, suite_e2e):
        s(ctx)
    for v in ctx.violations:
        print('replay:', v['sig'], v['what'][:200])
    return 1 if ctx.violations else 0
