"""Shared machinery of the checks: Lean build + axiom audit, model driver,
verdict logic (VIOLATION / KNOWN-FINDING), evidence writer.

Every check is `harness/cXX.py` with a function `run(ctx)`; `./check CXX` builds
the Lean obligations of the property, runs the correspondence suites against the
*current* /repo working tree, and decides.
"""
import os
import re
import sys
import json
import time
import random
import hashlib
import subprocess

VERIF = os.path.dirname(os.path.dirname(os.path.abspath(__file__)))
LEAN = os.path.join(VERIF, 'lean')
REPO = os.environ.get('EMG3D_REPO', '/repo')
CACHE = os.path.join(VERIF, '.cache')
os.makedirs(CACHE, exist_ok=True)

# The checks always import emg3d from /repo's current working tree.
if REPO not in sys.path:
    sys.path.insert(0, REPO)
os.environ.setdefault('EMG3D_VERIF', '1')

STD_AXIOMS = {'propext', 'Classical.choice', 'Quot.sound'}
FORBIDDEN = re.compile(
    r'\bsorry\b|\badmit\b|^axiom\s|native_decide|bv_decide|implemented_by'
    r'|\bunsafe\s|maxHeartbeats\s+0')

TRUSTED_BASE = [
    'Lean 4.33.0 kernel; Mathlib v4.33.0 as compiled under /opt/veriftools',
    'axioms allowed per theorem: propext, Classical.choice, Quot.sound '
    '(audited with #print axioms on every run; no native_decide / bv_decide / '
    'sorry / own axioms)',
    'hand-written Lean models tied to the code by the correspondence suites of '
    'this harness (harness/*.py, exact rational arithmetic where the code is a '
    'rational function; trace comparison for control logic)',
    'CPython 3.12 fractions / NumPy object arrays used to execute the kernels\' '
    'Python source exactly',
]


def sh(cmd, cwd=None, inp=None, timeout=None, env=None):
    p = subprocess.run(cmd, cwd=cwd, input=inp, capture_output=True,
                       text=True, timeout=timeout, env=env)
    return p.returncode, p.stdout, p.stderr


# --------------------------------------------------------------------------
# Lean side
# --------------------------------------------------------------------------

def strip_comments(src):
    """Remove Lean comments (nested block comments and line comments)."""
    out = []
    i, depth, n = 0, 0, len(src)
    while i < n:
        if src.startswith('/-', i):
            depth += 1
            i += 2
        elif depth and src.startswith('-/', i):
            depth -= 1
            i += 2
        elif depth:
            if src[i] == '\n':
                out.append('\n')
            i += 1
        elif src.startswith('--', i):
            while i < n and src[i] != '\n':
                i += 1
        else:
            out.append(src[i])
            i += 1
    return ''.join(out)


def forbidden_tokens():
    """Scan all Lean sources of the project for forbidden constructs."""
    hits = []
    for root, _, files in os.walk(LEAN):
        if '.lake' in root:
            continue
        for f in files:
            if not f.endswith('.lean'):
                continue
            path = os.path.join(root, f)
            code = strip_comments(open(path).read())
            for k, line in enumerate(code.split('\n'), 1):
                if FORBIDDEN.search(line):
                    hits.append(f'{os.path.relpath(path, LEAN)}:{k}: {line.strip()}')
    return hits


_built = {}


def lean_build(targets):
    """`lake build` the given module targets (no-op when up to date)."""
    key = tuple(targets)
    if key in _built:
        return _built[key]
    t0 = time.time()
    # checks of several properties may run at the same time (and share proof
    # modules): builds of the one lake workspace are serialised by a file lock
    import fcntl
    os.makedirs(CACHE, exist_ok=True)
    with open(os.path.join(CACHE, 'lake.lock'), 'w') as lk:
        fcntl.flock(lk, fcntl.LOCK_EX)
        try:
            rc, out, err = sh(['lake', 'build', 'driver'] + list(targets),
                              cwd=LEAN, timeout=3000)
            if rc != 0:
                # one retry: a build interrupted earlier can leave a stale
                # trace behind
                rc, out, err = sh(['lake', 'build', 'driver'] + list(targets),
                                  cwd=LEAN, timeout=3000)
        finally:
            fcntl.flock(lk, fcntl.LOCK_UN)
    res = (rc == 0, (out + err)[-4000:], time.time() - t0)
    _built[key] = res
    return res


def lean_audit(module, theorems):
    """Return {theorem: (ok, axioms|error)} via `#print axioms`."""
    src = f'import {module}\n' + ''.join(
        f'#print axioms {t}\n' for t in theorems)
    # one file per process: checks of different properties may share a module
    # and run concurrently
    path = os.path.join(CACHE,
                        f'audit_{module.replace(".", "_")}_{os.getpid()}.lean')
    open(path, 'w').write(src)
    try:
        rc, out, err = sh(['lake', 'env', 'lean', path], cwd=LEAN, timeout=3000)
    finally:
        try:
            os.remove(path)
        except OSError:
            pass
    txt = out + err
    res = {}
    # Output can wrap over several lines: join.
    flat = re.sub(r'\s+', ' ', txt)
    for t in theorems:
        m = re.search(r"'" + re.escape(t) + r"' depends on axioms: \[([^\]]*)\]",
                      flat)
        if m:
            ax = {a.strip() for a in m.group(1).split(',') if a.strip()}
            res[t] = (ax <= STD_AXIOMS, sorted(ax))
        elif re.search(r"'" + re.escape(t) + r"' does not depend on any axioms",
                       flat):
            res[t] = (True, [])
        else:
            res[t] = (False, 'not found / does not check: ' + txt[-300:])
    return res


def theorem_statement(module, name):
    """Best-effort: the source text of a theorem (for evidence samples)."""
    path = os.path.join(LEAN, module.replace('.', '/') + '.lean')
    short = name.split('.')[-1]
    src = ''
    for root, _, files in os.walk(os.path.join(LEAN, 'Emg3dVerif')):
        for f in files:
            if f.endswith('.lean'):
                t = open(os.path.join(root, f)).read()
                if re.search(r'theorem\s+' + re.escape(short) + r'\b', t):
                    src = t
    del path
    m = re.search(r'(theorem\s+' + re.escape(short) + r'\b.*?):=', src, re.S)
    return re.sub(r'\s+', ' ', m.group(1))[:600] if m else ''


def _run_driver1(lines, timeout):
    exe = os.path.join(LEAN, '.lake', 'build', 'bin', 'driver')
    inp = '\n'.join(lines) + '\n'
    p = subprocess.run([exe], input=inp, capture_output=True, text=True,
                       timeout=timeout)
    if p.returncode != 0:
        raise RuntimeError(f'driver failed rc={p.returncode}: {p.stderr[-500:]}')
    out = p.stdout.split('\n')
    if out and out[-1] == '':
        out.pop()
    if len(out) != len(lines):
        raise RuntimeError(
            f'driver produced {len(out)} lines for {len(lines)} ops; '
            f'last: {out[-1:]}')
    return out


def run_driver(lines, timeout=3000, jobs=1):
    """Feed op lines to the compiled model driver; one output line per input.
    With jobs > 1 the lines are dealt round-robin to parallel driver
    processes."""
    exe = os.path.join(LEAN, '.lake', 'build', 'bin', 'driver')
    if not os.path.exists(exe):
        ok, log, _ = lean_build([])
        if not ok:
            raise RuntimeError('driver build failed: ' + log)
    if not lines:
        return []
    jobs = max(1, min(jobs, len(lines)))
    if jobs == 1:
        return _run_driver1(lines, timeout)
    from concurrent.futures import ThreadPoolExecutor
    parts = [lines[k::jobs] for k in range(jobs)]
    with ThreadPoolExecutor(jobs) as ex:
        outs = list(ex.map(lambda ls: _run_driver1(ls, timeout), parts))
    res = [None]*len(lines)
    for k, o in enumerate(outs):
        res[k::jobs] = o
    return res


# --------------------------------------------------------------------------
# Known findings
# --------------------------------------------------------------------------

def known_findings(pid):
    """Entries `known: property=<id> sig=<sig> :: text` of KNOWN_FINDINGS.txt."""
    res = {}
    path = os.path.join(VERIF, 'KNOWN_FINDINGS.txt')
    if not os.path.exists(path):
        return res
    for line in open(path):
        m = re.match(r'known:\s+property=(\S+)\s+sig=(\S+)\s+::\s*(.*)', line)
        if m and m.group(1) == pid:
            res[m.group(2)] = m.group(3).strip()
    return res


# --------------------------------------------------------------------------
# Context / verdict / evidence
# --------------------------------------------------------------------------

class Ctx:
    def __init__(self, pid, tier, seed):
        self.pid, self.tier, self.seed = pid, tier, seed
        self.rng = random.Random(f'{pid}-{seed}')
        self.t0 = time.time()
        self.obligations = []     # {name, kind, ok, detail}
        self.violations = []      # {sig, what, replay, found_input}
        self.samples = []
        self.assumptions = []
        self.cov = {}             # extra coverage keys
        self.evaluations = 0
        self.nontrivial = set()
        self.module = None
        self.theorems = []

    @property
    def thorough(self):
        return self.tier == 'thorough'

    def nprng(self, tag=''):
        import numpy as np
        h = hashlib.sha256(f'{self.pid}-{self.seed}-{tag}'.encode()).digest()
        return np.random.default_rng(int.from_bytes(h[:8], 'little'))

    # -- obligations -------------------------------------------------------
    def oblige(self, name, kind, ok, detail=''):
        self.obligations.append(
            {'name': name, 'kind': kind, 'ok': bool(ok), 'detail': detail})
        return bool(ok)

    def lean(self, module, theorems):
        """Build the property's proof module and audit every theorem."""
        self.module, self.theorems = module, list(theorems)
        ok, log, dt = lean_build([module])
        self.cov['lean_build_s'] = round(dt, 2)
        if not ok:
            for t in theorems:
                self.oblige(f'theorem {t}', 'theorem', False,
                            'lake build failed: ' + log[-600:])
            return False
        hits = forbidden_tokens()
        self.oblige('no sorry/admit/axiom/native_decide/bv_decide in lean/',
                    'audit', not hits, '; '.join(hits[:5]))
        aud = lean_audit(module, theorems)
        allok = not hits
        for t in theorems:
            ok_t, ax = aud[t]
            self.oblige(f'theorem {t}', 'theorem', ok_t,
                        f'axioms={ax}' if ok_t else str(ax))
            allok &= ok_t
        if self.thorough:
            # independent re-check of the compiled module by leanchecker
            t1 = time.time()
            try:
                r = subprocess.run(['lake', 'env', 'leanchecker', module],
                                   cwd=LEAN, capture_output=True, text=True,
                                   timeout=1800)
                okc, det = r.returncode == 0, (r.stdout + r.stderr)[-300:]
            except Exception as e:      # noqa
                okc, det = False, f'{type(e).__name__}: {e}'
            self.cov['leanchecker_s'] = round(time.time()-t1, 1)
            self.oblige(f'leanchecker re-checks {module}', 'audit', okc, det)
            allok &= okc
        self.lean_ok = True      # the proof side is in place (see main.py)
        if theorems:
            t = theorems[0]
            self.samples.append({'theorem': t,
                                 'statement': theorem_statement(module, t),
                                 'axioms': aud[t][1]})
        return allok

    def count(self, key=None, n=1):
        """Count an evaluated case; `key` (hashable) identifies a distinct
        non-trivial case."""
        self.evaluations += n
        if key is not None:
            self.nontrivial.add(key)

    # -- violations --------------------------------------------------------
    def violation(self, sig, what, replay, found_input=True):
        self.violations.append({'sig': sig, 'what': what, 'replay': replay,
                                'found_input': found_input})

    def finish(self):
        known = known_findings(self.pid)
        broken = [o for o in self.obligations if not o['ok']]
        # A broken obligation without a concrete failing input is still a
        # violation (the property is no longer shown to hold).
        covered = any(not v['found_input'] or v.get('covers_obligations', True)
                      for v in self.violations)
        # (known findings do not excuse a broken obligation)
        unknown = [v for v in self.violations if v['sig'] not in known]
        if broken and not unknown:
            self.violation(
                'obligation-broken',
                'obligations no longer check: ' +
                '; '.join(o['name'] for o in broken[:6]),
                {'broken_obligations': broken[:20]}, found_input=False)
        del covered
        lines, nviol = [], 0
        os.makedirs(os.path.join(VERIF, 'replay'), exist_ok=True)
        shown = {}
        for v in self.violations:
            if v['sig'] in known:
                lines.append(f"KNOWN-FINDING: property={self.pid} "
                             f"{v['sig']}: {known[v['sig']]}")
                continue
            nviol += 1
            shown[v['sig']] = shown.get(v['sig'], 0) + 1
            if shown[v['sig']] > 2 or len(shown) > 6:
                continue        # report at most two replays per signature
            body = json.dumps({'property': self.pid, 'sig': v['sig'],
                               'what': v['what'], 'replay': v['replay'],
                               'found_input': v['found_input'],
                               'broken_obligations': broken[:20]},
                              indent=1, default=str)
            h = hashlib.sha256(body.encode()).hexdigest()[:10]
            path = os.path.join('replay', f'{self.pid}-{h}.json')
            open(os.path.join(VERIF, path), 'w').write(body)
            tail = '' if v['found_input'] else ' no-failing-input-found'
            lines.append(f"VIOLATION property={self.pid} replay={path}{tail}")
            lines.append(f"  # {v['sig']}: {v['what'][:300]}")
        # de-duplicate KNOWN-FINDING lines
        seen = set()
        for ln in lines:
            if ln not in seen:
                print(ln)
                seen.add(ln)
        self.write_evidence(nviol)
        nob = len(self.obligations)
        nok = sum(o['ok'] for o in self.obligations)
        print(f"[{self.pid}] tier={self.tier} seed={self.seed} "
              f"obligations={nok}/{nob} evaluations={self.evaluations} "
              f"distinct_nontrivial={len(self.nontrivial)} "
              f"violations={nviol} wall={time.time()-self.t0:.1f}s")
        return 1 if nviol else 0

    def write_evidence(self, nviol):
        nob = len(self.obligations)
        nok = sum(o['ok'] for o in self.obligations)
        cov = {
            'obligations': nob,
            'discharged': nok,
            'checker_cmd': f'cd lean && lake build {self.module} && lake env '
                           f'lean <#print axioms of each theorem>; '
                           f'./check {self.pid} --tier {self.tier}',
            'trusted_base': TRUSTED_BASE,
            'evaluations': self.evaluations,
            'distinct_nontrivial': len(self.nontrivial),
            'samples': self.samples[:12],
            'obligation_list': [
                {k: o[k] for k in ('name', 'kind', 'ok')} |
                ({'detail': o['detail'][:300]} if o['detail'] else {})
                for o in self.obligations],
        }
        cov.update(self.cov)
        ev = {
            'property_id': self.pid, 'tier': self.tier, 'seed': self.seed,
            'level': 'proof', 'coverage': cov,
            'assumptions': self.assumptions,
            'wall_s': round(time.time() - self.t0, 2),
            'violations': nviol,
        }
        # evidence/ describes /repo; a run pointed at another tree (triage of a
        # seeded change in a scratch worktree) keeps its record in the cache
        edir = os.path.join(VERIF, 'evidence') if REPO == '/repo' else \
            os.path.join(CACHE, 'evidence-other-tree')
        os.makedirs(edir, exist_ok=True)
        with open(os.path.join(edir, f'{self.pid}.json'), 'w') as f:
            json.dump(ev, f, indent=1, default=str)
